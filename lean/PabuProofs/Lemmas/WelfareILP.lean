/-
  Lemmas about `PabuModel.WelfareILP`: evaluation of the linear forms the code builds, the two integer cuts,
  supports of assignments vs. sub-lists, the brute-force solver, and the invariant of the enumeration loop.
-/
import PabuModel.WelfareILP
import PabuProofs.Lemmas.Election
import Mathlib.Data.List.Perm.Subperm
import Mathlib.Tactic.Linarith
import Mathlib.Tactic.Ring
import Mathlib.Tactic.NormNum
namespace Pabu
namespace WelfareILP
open Pabu.Election

/-! ### linear forms -/

theorem sumOver_const {α : Type} (l : List α) (c : Rat) : sumOver l (fun _ => c) = c * (l.length : Rat) := by
  induction l with
  | nil => simp [sumOver]
  | cons x l ih =>
    rw [sumOver_cons, ih, List.length_cons]
    push_cast
    ring

theorem evalLin_nil (a : Assignment) : evalLin a [] = 0 := rfl

theorem evalLin_cons (a : Assignment) (e : Pid × Rat) (t : List (Pid × Rat)) :
    evalLin a (e :: t) = e.2 * xval a e.1 + evalLin a t := rfl

theorem evalLin_append (a : Assignment) (t₁ t₂ : List (Pid × Rat)) :
    evalLin a (t₁ ++ t₂) = evalLin a t₁ + evalLin a t₂ := by
  unfold evalLin
  exact sumOver_append t₁ t₂ _

/-- `Σ_{p ∈ l} f p · x_p` is the sum of `f` over the variables of `l` at one -/
theorem evalLin_map (a : Assignment) (l : List Pid) (f : Pid → Rat) :
    evalLin a (l.map (fun p => (p, f p))) = sumOver (l.filter a) f := by
  induction l with
  | nil => rfl
  | cons p l ih =>
    rw [List.map_cons, evalLin_cons, ih]
    by_cases hp : a p = true
    · rw [List.filter_cons_of_pos hp, sumOver_cons]
      simp [xval, hp]
    · rw [List.filter_cons_of_neg hp]
      simp [xval, hp]

theorem evalLin_map_const (a : Assignment) (l : List Pid) (c : Rat) :
    evalLin a (l.map (fun p => (p, c))) = c * ((l.filter a).length : Rat) := by
  rw [evalLin_map a l (fun _ => c), sumOver_const]

/-- an assignment only matters on the variables that occur -/
theorem evalLin_congr {a b : Assignment} {t : List (Pid × Rat)} (h : ∀ e ∈ t, a e.1 = b e.1) :
    evalLin a t = evalLin b t := by
  induction t with
  | nil => rfl
  | cons e t ih =>
    rw [evalLin_cons, evalLin_cons, ih (fun e' he' => h e' (List.mem_cons_of_mem _ he'))]
    unfold xval
    rw [h e List.mem_cons_self]

theorem length_filter_add_not {α : Type} (l : List α) (q : α → Bool) :
    l.length = (l.filter q).length + (l.filter (fun x => !q x)).length := by
  induction l with
  | nil => rfl
  | cons x l ih =>
    rw [List.filter_cons, List.filter_cons]
    by_cases hq : q x = true
    · simp only [hq, if_true, Bool.not_true, Bool.false_eq_true, if_false, List.length_cons]; omega
    · have hq' : q x = false := by simpa using hq
      simp only [hq', Bool.false_eq_true, if_false, Bool.not_false, if_true, List.length_cons]; omega

/-! ### the integer cuts -/

/-- number of projects of `S` whose variable is at zero -/
def missing (a : Assignment) (S : List Pid) : Nat := (S.filter (fun p => !a p)).length
/-- number of projects outside `S` whose variable is at one -/
def extra (a : Assignment) (vars S : List Pid) : Nat := ((others vars S).filter a).length

/-- the left-hand side of the first cut counts the positions where the assignment differs from `S` -/
theorem cut1_lhs (a : Assignment) (vars S : List Pid) :
    (cut1 vars S).lhs a = ((missing a S + extra a vars S : Nat) : Rat) := by
  unfold Constr.lhs cut1 missing extra
  simp only
  rw [evalLin_append, evalLin_map_const, evalLin_map_const]
  have h := length_filter_add_not S a
  have h' : (S.length : Rat) = ((S.filter a).length : Rat) + ((S.filter (fun p => !a p)).length : Rat) := by
    exact_mod_cast h
  rw [h']
  push_cast
  ring

theorem cut2_lhs (a : Assignment) (vars S : List Pid) :
    (cut2 vars S).lhs a = ((S.filter a).length : Rat) - (((others vars S).filter a).length : Rat) := by
  unfold Constr.lhs cut2
  simp only
  rw [evalLin_append, evalLin_map_const, evalLin_map_const]
  ring

/-- the second cut is the first one multiplied by −1: it holds for exactly the same assignments (redundant) -/
theorem cut2_sat_eq_cut1 (a : Assignment) (vars S : List Pid) : (cut2 vars S).sat a = (cut1 vars S).sat a := by
  have h1 := cut1_lhs a vars S
  have h2 := cut2_lhs a vars S
  have h := length_filter_add_not S a
  have h' : (S.length : Rat) = ((S.filter a).length : Rat) + ((S.filter (fun p => !a p)).length : Rat) := by
    exact_mod_cast h
  unfold missing extra at h1
  push_cast at h1
  have hs2 : (cut2 vars S).sat a = decide ((cut2 vars S).lhs a ≤ (S.length : Rat) - 1) := rfl
  have hs1 : (cut1 vars S).sat a = decide ((1 : Rat) ≤ (cut1 vars S).lhs a) := rfl
  rw [hs1, hs2, h1, h2]
  apply decide_eq_decide.2
  constructor <;> intro h3 <;> linarith

theorem cut1_sat_iff (a : Assignment) (vars S : List Pid) :
    (cut1 vars S).sat a = true ↔ (∃ p ∈ S, a p = false) ∨ (∃ p ∈ vars, p ∉ S ∧ a p = true) := by
  have hs1 : (cut1 vars S).sat a = decide ((1 : Rat) ≤ (cut1 vars S).lhs a) := rfl
  rw [hs1, decide_eq_true_iff, cut1_lhs]
  have hc : ((1 : Rat) ≤ ((missing a S + extra a vars S : Nat) : Rat)) ↔ 1 ≤ missing a S + extra a vars S := by
    exact_mod_cast Iff.rfl
  rw [hc]
  unfold missing extra others
  constructor
  · intro h
    by_cases hm : (S.filter (fun p => !a p)) = []
    · right
      rw [hm, List.length_nil, Nat.zero_add] at h
      have hne : ((vars.filter (fun p => !S.contains p)).filter a) ≠ [] := by
        intro h0; rw [h0] at h; simp at h
      obtain ⟨p, hp⟩ := List.exists_mem_of_ne_nil _ hne
      obtain ⟨hp1, hp2⟩ := List.mem_filter.1 hp
      obtain ⟨hp3, hp4⟩ := List.mem_filter.1 hp1
      refine ⟨p, hp3, ?_, hp2⟩
      intro hps
      rw [List.contains_iff_mem.2 hps] at hp4
      simp at hp4
    · left
      obtain ⟨p, hp⟩ := List.exists_mem_of_ne_nil _ hm
      obtain ⟨hp1, hp2⟩ := List.mem_filter.1 hp
      exact ⟨p, hp1, by simpa using hp2⟩
  · rintro (⟨p, hp, hap⟩ | ⟨p, hp, hps, hap⟩)
    · have : p ∈ S.filter (fun p => !a p) := List.mem_filter.2 ⟨hp, by simp [hap]⟩
      have := List.length_pos_of_mem this
      omega
    · have h1 : p ∈ vars.filter (fun p => !S.contains p) :=
        List.mem_filter.2 ⟨hp, by simpa using hps⟩
      have : p ∈ (vars.filter (fun p => !S.contains p)).filter a := List.mem_filter.2 ⟨h1, hap⟩
      have := List.length_pos_of_mem this
      omega

/-- both cuts hold iff the set of variables at one is not the set `S` -/
theorem cuts_sat_iff_set (a : Assignment) (vars S : List Pid) (hS : ∀ p ∈ S, p ∈ vars) :
    ((cut1 vars S).sat a = true ∧ (cut2 vars S).sat a = true) ↔ ¬ (∀ p ∈ vars, (a p = true ↔ p ∈ S)) := by
  rw [cut2_sat_eq_cut1, and_self, cut1_sat_iff]
  constructor
  · rintro (⟨p, hp, hap⟩ | ⟨p, hp, hps, hap⟩) hall
    · have := (hall p (hS p hp)).2 hp
      rw [hap] at this
      exact Bool.false_ne_true this
    · exact hps ((hall p hp).1 hap)
  · intro h
    by_contra hcon
    apply h
    intro p hp
    constructor
    · intro hap
      by_contra hps
      exact hcon (Or.inr ⟨p, hp, hps, hap⟩)
    · intro hps
      by_contra hap
      exact hcon (Or.inl ⟨p, hps, by simpa using hap⟩)

theorem filter_eq_filter_iff (vars : List Pid) (a b : Assignment) :
    (∀ p ∈ vars, (a p = true ↔ p ∈ vars.filter b)) ↔ vars.filter a = vars.filter b := by
  constructor
  · intro h
    apply List.filter_congr
    intro p hp
    have h1 := h p hp
    rw [List.mem_filter] at h1
    have h2 : a p = true ↔ b p = true := ⟨fun h => (h1.1 h).2, fun h => h1.2 ⟨hp, h⟩⟩
    exact Bool.eq_iff_iff.2 h2
  · intro h p hp
    rw [← h, List.mem_filter]
    exact ⟨fun h => ⟨hp, h⟩, fun h => h.2⟩

/-- in the loop `S` is always the support of a previous answer: the cuts exclude exactly that support -/
theorem cuts_sat_iff_filter (a b : Assignment) (vars : List Pid) :
    ((cut1 vars (vars.filter b)).sat a = true ∧ (cut2 vars (vars.filter b)).sat a = true) ↔
      partialAlloc vars a ≠ vars.filter b := by
  rw [cuts_sat_iff_set a vars (vars.filter b) (fun p hp => (List.mem_filter.1 hp).1), filter_eq_filter_iff]
  rfl

/-! ### supports and sub-lists -/

theorem indicator_nil (p : Pid) : indicator [] p = false := rfl

theorem indicator_eq_true (s : List Pid) (p : Pid) : indicator s p = true ↔ p ∈ s := by
  unfold indicator
  exact List.contains_iff_mem

/-- a sub-list of a duplicate-free list is the support of its own indicator -/
theorem filter_indicator {s l : List Pid} (hs : s.Sublist l) (hl : l.Nodup) : l.filter (indicator s) = s := by
  induction hs with
  | slnil => rfl
  | @cons s l x hs ih =>
    have hx : x ∉ l := (List.nodup_cons.1 hl).1
    have hxs : ¬ indicator s x = true := by
      rw [indicator_eq_true]; exact fun h => hx (hs.subset h)
    rw [List.filter_cons_of_neg hxs]
    exact ih (List.nodup_cons.1 hl).2
  | @cons_cons s l x hs ih =>
    have hx : x ∉ l := (List.nodup_cons.1 hl).1
    have hxs : indicator (x :: s) x = true := by
      rw [indicator_eq_true]; exact List.mem_cons_self
    rw [List.filter_cons_of_pos hxs]
    congr 1
    have hcongr : l.filter (indicator (x :: s)) = l.filter (indicator s) := by
      apply List.filter_congr
      intro p hp
      apply Bool.eq_iff_iff.2
      rw [indicator_eq_true, indicator_eq_true, List.mem_cons]
      constructor
      · rintro (rfl | h)
        · exact absurd hp hx
        · exact h
      · exact fun h => Or.inr h
    rw [hcongr]
    exact ih (List.nodup_cons.1 hl).2

theorem partialAlloc_sublist (vars : List Pid) (a : Assignment) : (partialAlloc vars a).Sublist vars :=
  List.filter_sublist

theorem partialAlloc_indicator {s vars : List Pid} (hs : s.Sublist vars) (hv : vars.Nodup) :
    partialAlloc vars (indicator s) = s := filter_indicator hs hv

/-! ### the knapsack program under the solver hypothesis -/

theorem knap_objective (cost value : Pid → Rat) (l : List Pid) (B : Rat) (a : Assignment) :
    (knapProgram cost value l B).objective a = sumOver (partialAlloc l a) value :=
  evalLin_map a l value

theorem knap_feasible (cost value : Pid → Rat) (l : List Pid) (B : Rat) (a : Assignment) :
    (knapProgram cost value l B).feasible a = true ↔ costOf cost (partialAlloc l a) ≤ B := by
  have h : (knapProgram cost value l B).feasible a
      = (decide (evalLin a (l.map (fun p => (p, cost p))) + 0 ≤ B) && true) := rfl
  rw [h, Bool.and_true, decide_eq_true_iff, evalLin_map, add_zero]
  rfl

/-- what `SolverSpec` gives on a knapsack program over a duplicate-free list with some feasible sub-list -/
theorem knap_solve_spec {solve : Program → Option Assignment} (hs : SolverSpec solve) (cost value : Pid → Rat)
    {l : List Pid} (hl : l.Nodup) (B : Rat) (hfeas : ∃ t : List Pid, t.Sublist l ∧ costOf cost t ≤ B) :
    ∃ a, solve (knapProgram cost value l B) = some a ∧ costOf cost (partialAlloc l a) ≤ B ∧
      ∀ t : List Pid, t.Sublist l → costOf cost t ≤ B → sumOver t value ≤ sumOver (partialAlloc l a) value := by
  obtain ⟨hsome, hnone⟩ := hs (knapProgram cost value l B)
  cases h : solve (knapProgram cost value l B) with
  | none =>
    obtain ⟨t, ht, hc⟩ := hfeas
    have h1 := hnone h (indicator t)
    have hf : (knapProgram cost value l B).feasible (indicator t) = true := by
      rw [knap_feasible, partialAlloc_indicator ht hl]; exact hc
    rw [hf] at h1
    exact absurd h1 (by simp)
  | some a =>
    obtain ⟨hfa, hopt⟩ := hsome a h
    refine ⟨a, rfl, (knap_feasible cost value l B a).1 hfa, ?_⟩
    intro t ht hc
    have h1 := hopt (indicator t) (by rw [knap_feasible, partialAlloc_indicator ht hl]; exact hc)
    rw [knap_objective, knap_objective, partialAlloc_indicator ht hl] at h1
    exact h1

/-- the helper returns the value `v` as soon as `v` is the brute-force optimum (attained, and an upper bound) -/
theorem knapILP_eq {solve : Program → Option Assignment} (hs : SolverSpec solve) (cost value : Pid → Rat)
    {l : List Pid} (hl : l.Nodup) (B v : Rat)
    (hatt : ∃ s : List Pid, s.Sublist l ∧ costOf cost s ≤ B ∧ v = sumOver s value)
    (hup : ∀ s : List Pid, s.Sublist l → costOf cost s ≤ B → sumOver s value ≤ v) :
    knapILP solve cost value l B = .ok v := by
  unfold knapILP
  obtain ⟨s, hs1, hs2, hv⟩ := hatt
  by_cases hnil : l = []
  · rw [if_pos hnil]
    subst hnil
    have : s = [] := List.sublist_nil.1 hs1
    subst this
    rw [hv]; rfl
  · rw [if_neg hnil]
    obtain ⟨a, ha, hca, hopt⟩ := knap_solve_spec hs cost value hl B ⟨s, hs1, hs2⟩
    rw [ha]
    simp only
    congr 1
    apply le_antisymm (hup _ (partialAlloc_sublist l a) hca)
    rw [hv]
    exact hopt s hs1 hs2

/-! ### the welfare program and the brute-force specification `MaxWelfare.allOptima` -/

theorem freeVars_nodup (I : Inst) (init : List Pid) (h : I.projects.Nodup) : (freeVars I init).Nodup :=
  h.filter _

theorem base_feasible_iff (I : Inst) (score : Pid → Rat) (init : List Pid) (a : Assignment) :
    (baseProgram I score init).feasible a = true ↔
      I.isFeasible (init ++ partialAlloc (freeVars I init) a) = true := by
  unfold baseProgram
  rw [knap_feasible]
  unfold availableBudget Inst.isFeasible Inst.totalCost costOf
  rw [decide_eq_true_iff, sumOver_append]
  constructor <;> intro h <;> linarith

/-- the supports (sub-lists of the free projects) of the welfare-maximal feasible allocations -/
def optSupports (I : Inst) (score : Pid → Rat) (init : List Pid) : List (List Pid) :=
  (sublists (freeVars I init)).filter (fun s => I.isFeasible (init ++ s) &&
    decide (sumOver (init ++ s) score = MaxWelfare.optValue I score init))

theorem allOptima_eq_map (I : Inst) (score : Pid → Rat) (init : List Pid) :
    MaxWelfare.allOptima I score init = (optSupports I score init).map (fun s => init ++ s) := by
  unfold MaxWelfare.allOptima optSupports freeVars
  rw [List.filter_map, List.filter_map, List.filter_filter]
  congr 1
  apply List.filter_congr
  intro s _
  simp only [Function.comp]
  exact Bool.and_comm _ _

theorem optSupports_nodup (I : Inst) (score : Pid → Rat) (init : List Pid) (h : I.projects.Nodup) :
    (optSupports I score init).Nodup :=
  (sublists_nodup _ (freeVars_nodup I init h)).filter _

theorem optSupports_sublist (I : Inst) (score : Pid → Rat) (init : List Pid) :
    ∀ s ∈ optSupports I score init, s.Sublist (freeVars I init) := by
  intro s hs
  exact (mem_sublists _ _).1 (List.mem_filter.1 hs).1

theorem length_sublists {α : Type} (l : List α) : (sublists l).length = 2 ^ l.length := by
  induction l with
  | nil => rfl
  | cons x l ih =>
    have : sublists (x :: l) = sublists l ++ (sublists l).map (fun s => x :: s) := rfl
    rw [this, List.length_append, List.length_map, ih, List.length_cons, Nat.pow_succ]
    omega

theorem optSupports_length_le (I : Inst) (score : Pid → Rat) (init : List Pid) :
    (optSupports I score init).length ≤ 2 ^ (freeVars I init).length := by
  unfold optSupports
  exact le_trans (List.length_filter_le _ _) (le_of_eq (length_sublists _))

/-- the brute-force optimum is the welfare of any feasible extension that no feasible extension beats -/
theorem optValue_eq_of_best (I : Inst) (score : Pid → Rat) (init s₀ : List Pid)
    (hs₀ : s₀.Sublist (freeVars I init)) (hf : I.isFeasible (init ++ s₀) = true)
    (hbest : ∀ t : List Pid, t.Sublist (freeVars I init) → I.isFeasible (init ++ t) = true →
      sumOver t score ≤ sumOver s₀ score) :
    MaxWelfare.optValue I score init = sumOver (init ++ s₀) score := by
  unfold MaxWelfare.optValue
  have hmem : sumOver (init ++ s₀) score ∈
      ((((sublists (I.projects.filter (fun p => !init.contains p))).map (fun s => init ++ s)).filter
        I.isFeasible).map (fun s => sumOver s score)) := by
    refine List.mem_map.2 ⟨init ++ s₀, List.mem_filter.2 ⟨List.mem_map.2 ⟨s₀, ?_, rfl⟩, hf⟩, rfl⟩
    exact (mem_sublists _ _).2 hs₀
  have hle : ∀ x ∈ ((((sublists (I.projects.filter (fun p => !init.contains p))).map (fun s => init ++ s)).filter
        I.isFeasible).map (fun s => sumOver s score)), x ≤ sumOver (init ++ s₀) score := by
    intro x hx
    obtain ⟨l, hl, rfl⟩ := List.mem_map.1 hx
    obtain ⟨hl1, hl2⟩ := List.mem_filter.1 hl
    obtain ⟨t, ht, rfl⟩ := List.mem_map.1 hl1
    rw [sumOver_append, sumOver_append]
    have := hbest t ((mem_sublists _ _).1 ht) hl2
    linarith
  cases hm : maxRat ((((sublists (I.projects.filter (fun p => !init.contains p))).map (fun s => init ++ s)).filter
        I.isFeasible).map (fun s => sumOver s score)) with
  | none =>
    rw [maxRat_eq_none] at hm
    rw [hm] at hmem
    cases hmem
  | some m =>
    simp only
    exact le_antisymm (hle m (maxRat_mem hm)) (maxRat_ge hm _ hmem)

theorem mem_optSupports_iff (I : Inst) (score : Pid → Rat) (init : List Pid) (opt : Rat)
    (hopt : MaxWelfare.optValue I score init = sumOver init score + opt) (s : List Pid) :
    s ∈ optSupports I score init ↔
      s.Sublist (freeVars I init) ∧ I.isFeasible (init ++ s) = true ∧ sumOver s score = opt := by
  unfold optSupports
  rw [List.mem_filter, mem_sublists, Bool.and_eq_true, decide_eq_true_iff, sumOver_append, hopt]
  constructor
  · rintro ⟨h1, h2, h3⟩
    exact ⟨h1, h2, by linarith⟩
  · rintro ⟨h1, h2, h3⟩
    exact ⟨h1, h2, by linarith⟩

/-- what `SolverSpec` gives on the first program: an optimal support, and the value of `optValue` -/
theorem base_solve_spec {solve : Program → Option Assignment} (hs : SolverSpec solve) (I : Inst) (score : Pid → Rat)
    (init : List Pid) (hnd : I.projects.Nodup) (hinit : I.isFeasible init = true) :
    ∃ a, solve (baseProgram I score init) = some a ∧
      I.isFeasible (init ++ partialAlloc (freeVars I init) a) = true ∧
      MaxWelfare.optValue I score init = sumOver init score + (baseProgram I score init).objective a ∧
      partialAlloc (freeVars I init) a ∈ optSupports I score init := by
  have hv := freeVars_nodup I init hnd
  have hfeas0 : ∃ t : List Pid, t.Sublist (freeVars I init) ∧ costOf I.cost t ≤ availableBudget I init := by
    refine ⟨[], List.nil_sublist _, ?_⟩
    unfold Inst.isFeasible Inst.totalCost at hinit
    have := of_decide_eq_true hinit
    unfold availableBudget
    rw [costOf_nil]
    linarith
  obtain ⟨a, ha, hca, hopt⟩ := knap_solve_spec hs I.cost score hv (availableBudget I init) hfeas0
  have hfa : I.isFeasible (init ++ partialAlloc (freeVars I init) a) = true := by
    rw [← base_feasible_iff I score init a]
    exact (knap_feasible _ _ _ _ a).2 hca
  have hval : MaxWelfare.optValue I score init = sumOver init score + (baseProgram I score init).objective a := by
    rw [optValue_eq_of_best I score init (partialAlloc (freeVars I init) a) (partialAlloc_sublist _ a) hfa]
    · rw [sumOver_append]
      unfold baseProgram
      rw [knap_objective]
    · intro t ht hft
      apply hopt t ht
      unfold Inst.isFeasible Inst.totalCost costOf at hft
      have := of_decide_eq_true hft
      rw [sumOver_append] at this
      unfold availableBudget costOf
      linarith
  refine ⟨a, ha, hfa, hval, ?_⟩
  rw [mem_optSupports_iff I score init _ hval]
  refine ⟨partialAlloc_sublist _ a, hfa, ?_⟩
  unfold baseProgram
  rw [knap_objective]

/-! ### the enumeration loop -/

theorem addConstrs_feasible (P : Program) (cs : List Constr) (a : Assignment) :
    (P.addConstrs cs).feasible a = (P.feasible a && cs.all (fun c => c.sat a)) := by
  unfold Program.feasible Program.addConstrs
  simp only [List.all_append]

theorem addCuts_feasible_iff (P : Program) (a b : Assignment) :
    (P.addCuts (P.vars.filter b)).feasible a = true ↔
      P.feasible a = true ∧ partialAlloc P.vars a ≠ P.vars.filter b := by
  unfold Program.addCuts
  rw [addConstrs_feasible, Bool.and_eq_true]
  simp only [List.all_cons, List.all_nil, Bool.and_true, Bool.and_eq_true]
  rw [cuts_sat_iff_filter]

/-- invariant of the `while True:` loop -/
structure LoopInv (vars : List Pid) (Opt : List (List Pid)) (P : Program) (prev : List Pid)
    (all : List (List Pid)) : Prop where
  hvars : P.vars = vars
  hsub : ∀ s ∈ all, s ∈ Opt
  hnd : all.Nodup
  hprev : prev ∈ all
  hform : ∃ b : Assignment, prev = vars.filter b
  hfeas : ∀ a : Assignment, P.feasible a = true ↔
    (partialAlloc vars a ∈ Opt ∧ ∀ s ∈ all, s ≠ prev → partialAlloc vars a ≠ s)

theorem pushNew_of_not_mem (all : List (List Pid)) (s : List Pid) (h : s ∉ all) : pushNew all s = all ++ [s] := by
  unfold pushNew
  rw [if_neg]
  intro hc
  exact h (List.contains_iff_mem.1 hc)

theorem pushNew_of_mem (all : List (List Pid)) (s : List Pid) (h : s ∈ all) : pushNew all s = all := by
  unfold pushNew
  rw [if_pos (List.contains_iff_mem.2 h)]

/-- The loop, started in a state satisfying the invariant with enough fuel, stops with a duplicate-free list that
    contains exactly the optimal supports; it poses one program per optimum still to be found, plus the last,
    infeasible one. -/
theorem loop_spec (ask : Oracle) (hask : OracleSpec ask) {vars : List Pid} (hv : vars.Nodup)
    {Opt : List (List Pid)} (hOsub : ∀ s ∈ Opt, s.Sublist vars) (hOnd : Opt.Nodup) :
    ∀ (fuel k : Nat) (P : Program) (prev : List Pid) (all : List (List Pid)) (progs : List Program),
      LoopInv vars Opt P prev all → Opt.length - all.length < fuel →
      ∃ L, (loop ask fuel k P prev all progs).result = .ok L ∧ L.Perm Opt ∧ all <+: L ∧
        (loop ask fuel k P prev all progs).programs.length = progs.length + (Opt.length - all.length) + 1 := by
  intro fuel
  induction fuel with
  | zero => intro k P prev all progs _ h; omega
  | succ f ih =>
    intro k P prev all progs inv hfuel
    obtain ⟨b, hb⟩ := inv.hform
    have hlen : all.length ≤ Opt.length := (inv.hnd.subperm (fun s hs => inv.hsub s hs)).length_le
    have key : ∀ a, (P.addCuts prev).feasible a = true ↔ P.feasible a = true ∧ partialAlloc vars a ≠ prev := by
      intro a
      have h := addCuts_feasible_iff P a b
      rw [inv.hvars, ← hb] at h
      exact h
    have hfeas' : ∀ a, (P.addCuts prev).feasible a = true ↔
        (partialAlloc vars a ∈ Opt ∧ partialAlloc vars a ∉ all) := by
      intro a
      rw [key a, inv.hfeas a]
      constructor
      · rintro ⟨⟨h1, h2⟩, h3⟩
        refine ⟨h1, fun hmem => ?_⟩
        exact h2 _ hmem h3 rfl
      · rintro ⟨h1, h2⟩
        refine ⟨⟨h1, fun s hs _ heq => h2 (heq ▸ hs)⟩, fun heq => h2 (heq ▸ inv.hprev)⟩
    rw [loop]
    cases hans : ask k (P.addCuts prev) with
    | none =>
      simp only
      have hperm : all.Perm Opt := by
        rw [List.perm_ext_iff_of_nodup inv.hnd hOnd]
        intro s
        constructor
        · exact inv.hsub s
        · intro hs
          by_contra hnot
          have h1 := (hask k (P.addCuts prev)).2 hans (indicator s)
          have h2 : (P.addCuts prev).feasible (indicator s) = true := by
            rw [hfeas', partialAlloc_indicator (hOsub s hs) hv]
            exact ⟨hs, hnot⟩
          rw [h2] at h1
          exact absurd h1 (by simp)
      refine ⟨all, rfl, hperm, List.prefix_refl _, ?_⟩
      rw [List.length_append, List.length_singleton, hperm.length_eq]
      omega
    | some a =>
      simp only
      obtain ⟨hfa, _⟩ := (hask k (P.addCuts prev)).1 a hans
      obtain ⟨hO, hnot⟩ := (hfeas' a).1 hfa
      rw [inv.hvars, pushNew_of_not_mem all _ hnot]
      have hnd' : (all ++ [partialAlloc vars a]).Nodup := by
        refine List.nodup_append.2 ⟨inv.hnd, List.nodup_singleton _, ?_⟩
        intro x hx y hy hxy
        rw [List.mem_singleton] at hy
        subst hy
        subst hxy
        exact hnot hx
      have hsub' : ∀ s ∈ all ++ [partialAlloc vars a], s ∈ Opt := by
        intro s hs
        rcases List.mem_append.1 hs with h | h
        · exact inv.hsub s h
        · rw [List.mem_singleton.1 h]; exact hO
      have hlen' : (all ++ [partialAlloc vars a]).length ≤ Opt.length :=
        (hnd'.subperm (fun s hs => hsub' s hs)).length_le
      rw [List.length_append, List.length_singleton] at hlen'
      have inv' : LoopInv vars Opt (P.addCuts prev) (partialAlloc vars a) (all ++ [partialAlloc vars a]) := by
        refine ⟨inv.hvars, hsub', hnd', List.mem_append_right _ (List.mem_singleton.2 rfl), ⟨a, rfl⟩, ?_⟩
        intro a'
        rw [hfeas' a']
        constructor
        · rintro ⟨h1, h2⟩
          refine ⟨h1, fun s hs hne heq => ?_⟩
          rcases List.mem_append.1 hs with h | h
          · exact h2 (heq ▸ h)
          · exact hne (List.mem_singleton.1 h)
        · rintro ⟨h1, h2⟩
          refine ⟨h1, fun hmem => ?_⟩
          have hne : partialAlloc vars a' ≠ partialAlloc vars a := fun heq => hnot (heq ▸ hmem)
          exact h2 _ (List.mem_append_left _ hmem) hne rfl
      have hfuel' : Opt.length - (all ++ [partialAlloc vars a]).length < f := by
        rw [List.length_append, List.length_singleton]; omega
      obtain ⟨L, hL1, hL2, hL3, hL4⟩ := ih (k + 1) (P.addCuts prev) (partialAlloc vars a)
        (all ++ [partialAlloc vars a]) (progs ++ [P.addCuts prev]) inv' hfuel'
      refine ⟨L, hL1, hL2, (List.prefix_append all _).trans hL3, ?_⟩
      rw [hL4, List.length_append, List.length_append, List.length_singleton, List.length_singleton]
      omega

/-! ### the irresolute call -/

theorem optConstr_sat (vars : List Pid) (score : Pid → Rat) (opt : Rat) (a : Assignment) :
    (optConstr vars score opt).sat a = true ↔ sumOver (partialAlloc vars a) score = opt := by
  have h : (optConstr vars score opt).sat a
      = decide (evalLin a (vars.map (fun p => (p, score p))) + 0 = opt) := rfl
  rw [h, decide_eq_true_iff, evalLin_map, add_zero]
  rfl

/-- no project left to decide: the only optimal support is the empty one -/
theorem optSupports_of_no_free (I : Inst) (score : Pid → Rat) (init : List Pid) (hfree : freeVars I init = [])
    (hinit : I.isFeasible init = true) : optSupports I score init = [[]] := by
  have hf : I.isFeasible (init ++ []) = true := by rw [List.append_nil]; exact hinit
  have hval := optValue_eq_of_best I score init [] (List.nil_sublist _) hf (by
    intro t ht _
    rw [hfree] at ht
    rw [List.sublist_nil.1 ht])
  unfold optSupports
  rw [hfree]
  show ([[]] : List (List Pid)).filter _ = [[]]
  rw [List.filter_cons, List.filter_nil, hf, hval]
  simp

/-- the number of `optimize()` calls of the irresolute run: none when no project is left to decide, else one per optimum
    plus the final infeasible one -/
def expectedCalls (I : Inst) (score : Pid → Rat) (init : List Pid) : Nat :=
  if (freeVars I init).isEmpty then 0 else (optSupports I score init).length + 1

theorem irresoluteRunFuel_spec (ask : Oracle) (hask : OracleSpec ask) (I : Inst) (score : Pid → Rat)
    (init : List Pid) (hnd : I.projects.Nodup) (hinit : I.isFeasible init = true) (fuel : Nat)
    (hfuel : (optSupports I score init).length ≤ fuel) :
    ∃ L, (irresoluteRunFuel ask I score init fuel).result = .ok L ∧ L.Perm (optSupports I score init) ∧
      (irresoluteRunFuel ask I score init fuel).programs.length = expectedCalls I score init := by
  by_cases hemp : (freeVars I init).isEmpty = true
  · unfold irresoluteRunFuel expectedCalls
    rw [if_pos hemp, if_pos hemp]
    refine ⟨[[]], rfl, ?_, rfl⟩
    rw [optSupports_of_no_free I score init (List.isEmpty_iff.1 hemp) hinit]
  have hv := freeVars_nodup I init hnd
  obtain ⟨a₀, ha₀, hfa₀, hval, hmem₀⟩ := base_solve_spec (hask 0) I score init hnd hinit
  unfold irresoluteRunFuel expectedCalls
  rw [if_neg hemp, if_neg hemp, ha₀]
  simp only
  have hpos : 1 ≤ (optSupports I score init).length := List.length_pos_of_mem hmem₀
  have inv : LoopInv (freeVars I init) (optSupports I score init)
      ((baseProgram I score init).addConstrs
        [optConstr (freeVars I init) score ((baseProgram I score init).objective a₀)])
      (partialAlloc (freeVars I init) a₀) [partialAlloc (freeVars I init) a₀] := by
    refine ⟨rfl, ?_, List.nodup_singleton _, List.mem_singleton.2 rfl, ⟨a₀, rfl⟩, ?_⟩
    · intro s hs
      rw [List.mem_singleton.1 hs]; exact hmem₀
    · intro a
      rw [addConstrs_feasible, Bool.and_eq_true]
      simp only [List.all_cons, List.all_nil, Bool.and_true]
      rw [optConstr_sat, base_feasible_iff, mem_optSupports_iff I score init _ hval]
      constructor
      · rintro ⟨h1, h2⟩
        refine ⟨⟨partialAlloc_sublist _ a, h1, h2⟩, fun s hs hne => ?_⟩
        exact absurd (List.mem_singleton.1 hs) hne
      · rintro ⟨⟨_, h1, h2⟩, _⟩
        exact ⟨h1, h2⟩
  obtain ⟨L, hL1, hL2, _, hL4⟩ := loop_spec ask hask hv (optSupports_sublist I score init)
    (optSupports_nodup I score init hnd) fuel 1 _ _ _ [baseProgram I score init] inv
    (by rw [List.length_singleton]; omega)
  refine ⟨L, hL1, hL2, ?_⟩
  rw [hL4, List.length_singleton, List.length_singleton]
  omega

/-! ### the brute-force solver satisfies `SolverSpec` -/

theorem mem_dedup_iff {l : List Pid} {x : Pid} : x ∈ dedup l ↔ x ∈ l := by
  induction l with
  | nil => simp [dedup]
  | cons y l ih =>
    have hd : dedup (y :: l) = y :: (dedup l).filter (fun z => !(z == y)) := rfl
    rw [hd, List.mem_cons, List.mem_cons, List.mem_filter, ih]
    constructor
    · rintro (h | ⟨h, _⟩)
      · exact Or.inl h
      · exact Or.inr h
    · rintro (h | h)
      · exact Or.inl h
      · by_cases hxy : x = y
        · exact Or.inl hxy
        · exact Or.inr ⟨h, by simpa using hxy⟩

theorem mem_termVars {t : List (Pid × Rat)} {e : Pid × Rat} (h : e ∈ t) : e.1 ∈ termVars t :=
  List.mem_map.2 ⟨e, h, rfl⟩

theorem mem_constrVars {cs : List Constr} {c : Constr} (hc : c ∈ cs) {e : Pid × Rat} (he : e ∈ c.terms) :
    e.1 ∈ constrVars cs := by
  induction cs with
  | nil => cases hc
  | cons d cs ih =>
    have hd : constrVars (d :: cs) = termVars d.terms ++ constrVars cs := rfl
    rw [hd, List.mem_append]
    rcases List.mem_cons.1 hc with rfl | h
    · exact Or.inl (mem_termVars he)
    · exact Or.inr (ih h)

theorem all_congr_mem {α : Type} {l : List α} {f g : α → Bool} (h : ∀ x ∈ l, f x = g x) : l.all f = l.all g := by
  induction l with
  | nil => rfl
  | cons x l ih =>
    rw [List.all_cons, List.all_cons, h x List.mem_cons_self, ih (fun y hy => h y (List.mem_cons_of_mem _ hy))]

theorem sat_congr (c : Constr) {a b : Assignment} (h : ∀ e ∈ c.terms, a e.1 = b e.1) : c.sat a = c.sat b := by
  have hl : c.lhs a = c.lhs b := by
    unfold Constr.lhs
    rw [evalLin_congr h]
  unfold Constr.sat
  rw [hl]

/-- a program only looks at the variables it mentions -/
theorem program_congr (P : Program) {a b : Assignment} (h : ∀ p ∈ P.mentioned, a p = b p) :
    P.feasible a = P.feasible b ∧ P.objective a = P.objective b := by
  have hm : ∀ p, p ∈ P.mentioned ↔ p ∈ P.vars ++ termVars P.obj ++ constrVars P.constrs := by
    intro p; unfold Program.mentioned; exact mem_dedup_iff
  constructor
  · unfold Program.feasible
    apply all_congr_mem
    intro c hc
    apply sat_congr
    intro e he
    apply h
    rw [hm]
    exact List.mem_append_right _ (mem_constrVars hc he)
  · unfold Program.objective
    apply evalLin_congr
    intro e he
    apply h
    rw [hm]
    exact List.mem_append_left _ (List.mem_append_right _ (mem_termVars he))

theorem bestOf_spec (P : Program) : ∀ cands : List (List Pid),
    (bestOf P cands = none → ∀ s ∈ cands, P.feasible (indicator s) = false) ∧
    (∀ t, bestOf P cands = some t → t ∈ cands ∧ P.feasible (indicator t) = true ∧
      ∀ s ∈ cands, P.feasible (indicator s) = true → P.objective (indicator s) ≤ P.objective (indicator t)) := by
  intro cands
  induction cands with
  | nil =>
    refine ⟨(fun _ s hs => by cases hs), fun t ht => ?_⟩
    have : bestOf P [] = none := rfl
    rw [this] at ht
    cases ht
  | cons s rest ih =>
    obtain ⟨ih1, ih2⟩ := ih
    rw [bestOf]
    by_cases hf : P.feasible (indicator s) = true
    · rw [if_pos hf]
      cases hb : bestOf P rest with
      | none =>
        simp only
        refine ⟨(fun h => by cases h), fun t ht => ?_⟩
        have hts : s = t := by injection ht
        subst hts
        refine ⟨List.mem_cons_self, hf, fun s' hs' hfs' => ?_⟩
        rcases List.mem_cons.1 hs' with rfl | h
        · exact le_refl _
        · have := ih1 hb s' h
          rw [hfs'] at this
          exact absurd this (by simp)
      | some t₀ =>
        simp only
        obtain ⟨ht₀m, ht₀f, ht₀o⟩ := ih2 t₀ hb
        by_cases hlt : P.objective (indicator s) < P.objective (indicator t₀)
        · rw [if_pos hlt]
          refine ⟨(fun h => by cases h), fun t ht => ?_⟩
          have hts : t₀ = t := by injection ht
          subst hts
          refine ⟨List.mem_cons_of_mem _ ht₀m, ht₀f, fun s' hs' hfs' => ?_⟩
          rcases List.mem_cons.1 hs' with rfl | h
          · exact le_of_lt hlt
          · exact ht₀o s' h hfs'
        · rw [if_neg hlt]
          refine ⟨(fun h => by cases h), fun t ht => ?_⟩
          have hts : s = t := by injection ht
          subst hts
          refine ⟨List.mem_cons_self, hf, fun s' hs' hfs' => ?_⟩
          rcases List.mem_cons.1 hs' with rfl | h
          · exact le_refl _
          · exact le_trans (ht₀o s' h hfs') (not_lt.1 hlt)
    · rw [if_neg hf]
      refine ⟨fun h s' hs' => ?_, fun t ht => ?_⟩
      · rcases List.mem_cons.1 hs' with rfl | h'
        · simpa using hf
        · exact ih1 h s' h'
      · obtain ⟨h1, h2, h3⟩ := ih2 t ht
        refine ⟨List.mem_cons_of_mem _ h1, h2, fun s' hs' hfs' => ?_⟩
        rcases List.mem_cons.1 hs' with rfl | h
        · exact absurd hfs' hf
        · exact h3 s' h hfs'

/-- every assignment agrees, on the mentioned variables, with the indicator of one of the enumerated candidates -/
theorem indicator_mentioned (P : Program) (b : Assignment) :
    ∀ p ∈ P.mentioned, indicator (P.mentioned.filter b) p = b p := by
  intro p hp
  apply Bool.eq_iff_iff.2
  rw [indicator_eq_true, List.mem_filter]
  exact ⟨fun h => h.2, fun h => ⟨hp, h⟩⟩

/-- non-vacuity of the oracle hypothesis: exhaustive search is a solver in the sense of `SolverSpec` -/
theorem bruteSolve_spec : SolverSpec bruteSolve := by
  intro P
  have hcand : ∀ b : Assignment, P.mentioned.filter b ∈ sublists P.mentioned := fun b =>
    (mem_sublists _ _).2 List.filter_sublist
  obtain ⟨h1, h2⟩ := bestOf_spec P (sublists P.mentioned)
  constructor
  · intro a ha
    unfold bruteSolve at ha
    cases hb : bestOf P (sublists P.mentioned) with
    | none => rw [hb] at ha; cases ha
    | some t =>
      rw [hb] at ha
      have hat : indicator t = a := by injection ha
      subst hat
      obtain ⟨_, htf, hto⟩ := h2 t hb
      refine ⟨htf, fun b hbf => ?_⟩
      obtain ⟨hc1, hc2⟩ := program_congr P (indicator_mentioned P b)
      rw [← hc2]
      apply hto _ (hcand b)
      rw [hc1]; exact hbf
  · intro hnone b
    unfold bruteSolve at hnone
    cases hb : bestOf P (sublists P.mentioned) with
    | none =>
      obtain ⟨hc1, _⟩ := program_congr P (indicator_mentioned P b)
      rw [← hc1]
      exact h1 hb _ (hcand b)
    | some t => rw [hb] at hnone; cases hnone

/-! ### a solver that is only specified on programs with variables (python-mip) -/

/-- complete a solver on the variable-free programs (never posed by the code since the early return) -/
def patch (solve : Program → Option Assignment) : Program → Option Assignment :=
  fun P => if P.vars.isEmpty then bruteSolve P else solve P

theorem patch_spec {solve : Program → Option Assignment} (hs : SolverSpecNE solve) : SolverSpec (patch solve) := by
  intro P
  unfold patch
  by_cases h : P.vars.isEmpty = true
  · rw [if_pos h]; exact bruteSolve_spec P
  · rw [if_neg h]
    exact hs P (fun h' => h (List.isEmpty_iff.2 h'))

theorem patch_of_vars {solve : Program → Option Assignment} {P : Program} (h : P.vars ≠ []) : patch solve P = solve P := by
  unfold patch
  rw [if_neg (fun h' => h (List.isEmpty_iff.1 h'))]

theorem addCuts_vars (P : Program) (S : List Pid) : (P.addCuts S).vars = P.vars := rfl

/-- the loop only ever poses programs with the variables it started with -/
theorem loop_congr (ask ask' : Oracle) (vars : List Pid)
    (h : ∀ k (P : Program), P.vars = vars → ask k P = ask' k P) :
    ∀ (fuel k : Nat) (P : Program) (prev : List Pid) (all : List (List Pid)) (progs : List Program),
      P.vars = vars → loop ask fuel k P prev all progs = loop ask' fuel k P prev all progs := by
  intro fuel
  induction fuel with
  | zero => intro k P prev all progs _; rfl
  | succ f ih =>
    intro k P prev all progs hP
    rw [loop, loop, h k (P.addCuts prev) (by rw [addCuts_vars]; exact hP)]
    cases ask' k (P.addCuts prev) with
    | none => rfl
    | some a => exact ih (k+1) (P.addCuts prev) _ _ _ (by rw [addCuts_vars]; exact hP)

theorem baseProgram_vars (I : Inst) (score : Pid → Rat) (init : List Pid) :
    (baseProgram I score init).vars = freeVars I init := rfl

theorem resolute_patch (solve : Program → Option Assignment) (I : Inst) (score : Pid → Rat) (init : List Pid) :
    resolute (patch solve) I score init = resolute solve I score init := by
  unfold resolute
  by_cases hemp : (freeVars I init).isEmpty = true
  · rw [if_pos hemp, if_pos hemp]
  · rw [if_neg hemp, if_neg hemp, patch_of_vars]
    rw [baseProgram_vars]
    exact fun h' => hemp (List.isEmpty_iff.2 h')

theorem irresoluteRunFuel_patch (ask : Oracle) (I : Inst) (score : Pid → Rat) (init : List Pid) (fuel : Nat) :
    irresoluteRunFuel (fun k => patch (ask k)) I score init fuel = irresoluteRunFuel ask I score init fuel := by
  unfold irresoluteRunFuel
  by_cases hemp : (freeVars I init).isEmpty = true
  · rw [if_pos hemp, if_pos hemp]
  · have hne : freeVars I init ≠ [] := fun h' => hemp (List.isEmpty_iff.2 h')
    rw [if_neg hemp, if_neg hemp]
    have h0 : patch (ask 0) (baseProgram I score init) = ask 0 (baseProgram I score init) :=
      patch_of_vars (by rw [baseProgram_vars]; exact hne)
    simp only [h0]
    cases ask 0 (baseProgram I score init) with
    | none => rfl
    | some a =>
      exact loop_congr _ _ (freeVars I init) (fun k P hP => patch_of_vars (by rw [hP]; exact hne)) _ _ _ _ _ _ rfl

/-! ### the canonical form printed by the driver has the same meaning -/

theorem insertTerm_perm (e : Pid × Rat) (t : List (Pid × Rat)) : (insertTerm e t).Perm (e :: t) := by
  induction t with
  | nil => exact List.Perm.refl _
  | cons f r ih =>
    rw [insertTerm]
    by_cases h : e.1 ≤ f.1
    · rw [if_pos h]
    · rw [if_neg h]
      exact ((List.Perm.cons f ih).trans (List.Perm.swap e f r))

theorem sortTerms_perm (t : List (Pid × Rat)) : (sortTerms t).Perm t := by
  induction t with
  | nil => exact List.Perm.refl _
  | cons e t ih =>
    have h : sortTerms (e :: t) = insertTerm e (sortTerms t) := rfl
    rw [h]
    exact (insertTerm_perm e _).trans (List.Perm.cons e ih)

theorem evalLin_perm (a : Assignment) {t t' : List (Pid × Rat)} (h : t.Perm t') : evalLin a t = evalLin a t' :=
  sumOver_perm h _

theorem evalLin_filter_nonzero (a : Assignment) (t : List (Pid × Rat)) :
    evalLin a (t.filter (fun e => !decide (e.2 = 0))) = evalLin a t := by
  induction t with
  | nil => rfl
  | cons e t ih =>
    rw [List.filter_cons]
    by_cases h : e.2 = 0
    · simp only [h, decide_true, Bool.not_true, Bool.false_eq_true, if_false]
      rw [evalLin_cons, ih, h]
      ring
    · simp only [h, decide_false, Bool.not_false, if_true]
      rw [evalLin_cons, evalLin_cons, ih]

/-- `Constr.canon` (zero coefficients dropped, terms sorted, constant moved to the right) keeps the meaning -/
theorem canon_sat (c : Constr) (a : Assignment) : c.canon.sat a = c.sat a := by
  have hl : c.canon.lhs a = evalLin a c.terms := by
    unfold Constr.lhs Constr.canon
    simp only
    rw [evalLin_perm a (sortTerms_perm _), evalLin_filter_nonzero, add_zero]
  have hr : c.canon.rhs = c.rhs - c.const := rfl
  have hs : c.canon.sense = c.sense := rfl
  unfold Constr.sat
  rw [hs, hl, hr]
  unfold Constr.lhs
  cases c.sense
  · simp only
    apply decide_eq_decide.2
    constructor <;> intro h <;> linarith
  · simp only
    apply decide_eq_decide.2
    constructor <;> intro h <;> linarith
  · simp only
    apply decide_eq_decide.2
    constructor <;> intro h <;> linarith

end WelfareILP
end Pabu
