/-
  Lemmas for the wrapper models (C09: `Exhaustion`, `MES.iterated`; C19: `Composition`).

  * `Wrap.loop` is the common shape of the four "try budgets B, B+s, B+2s, …" loops
    (`Exhaustion.budgetIncrease`, `Exhaustion.budgetIncreaseAll`, `MES.iterated`, `MES.iteratedAll`);
    the `*_eq_loop` lemmas show each model function IS an instance of it, so that the result /
    invariant / termination / divergence theorems are proved once.
  * list helpers: `dedup`, `maxRat`, `maxNat`, `addNew`, `outcomesFrom`.
-/
import PabuModel.Exhaustion
import PabuModel.Composition
import PabuModel.MES
import Mathlib.Tactic.Ring
import Mathlib.Tactic.Linarith
import Mathlib.Algebra.Order.Field.Rat
import Mathlib.Algebra.Order.Archimedean.Basic
import Mathlib.Data.List.Nodup
import Mathlib.Data.List.Perm.Basic

namespace Pabu
namespace Wrap

/-! ### The generic budget-increase loop -/

/-- try `cur, cur+step, …`: stop with the previous outcome when `over cur` or the outcome is `bad`,
    stop with the current outcome when it is `good` -/
def loop {α : Type} (rule : Rat → Except Err α) (over : Rat → Bool) (bad good : α → Bool) (step : Rat) :
    Nat → Rat → α → Except Err α
  | 0, _, _ => .error .fuel
  | f + 1, cur, prev =>
    if over cur then .ok prev
    else match rule cur with
      | .error e => .error e
      | .ok W =>
        if bad W then .ok prev
        else if good W then .ok W
        else loop rule over bad good step f (cur + step) W

/-- the outcome known before try `k`: the initial one for `k = 0`, else the outcome of try `k-1` -/
def prevOutcome {α : Type} (prev₀ : α) (r : Nat → α) : Nat → α
  | 0 => prev₀
  | k + 1 => r k

theorem shift (B step : Rat) (k : Nat) : B + step + (k : Rat) * step = B + ((k + 1 : Nat) : Rat) * step := by
  push_cast; ring

/-- the three ways try `k` can end the loop, with the outcome returned -/
def StopsAt {α : Type} (over : Rat → Bool) (bad good : α → Bool) (step B : Rat) (prev₀ : α) (r : Nat → α)
    (k : Nat) (W : α) : Prop :=
  (over (B + k * step) = false ∧ bad (r k) = false ∧ good (r k) = true ∧ W = r k) ∨
  (over (B + k * step) = false ∧ bad (r k) = true ∧ W = prevOutcome prev₀ r k) ∨
  (over (B + k * step) = true ∧ W = prevOutcome prev₀ r k)

/-- try `j` does not end the loop -/
def Continues {α : Type} (over : Rat → Bool) (bad good : α → Bool) (step B : Rat) (r : Nat → α) (j : Nat) : Prop :=
  over (B + j * step) = false ∧ bad (r j) = false ∧ good (r j) = false

theorem loop_result {α : Type} {rule : Rat → Except Err α} {over : Rat → Bool} {bad good : α → Bool} {step : Rat} :
    ∀ (fuel : Nat) (B : Rat) (prev₀ W : α) (r : Nat → α),
    (∀ k : Nat, k < fuel → over (B + k * step) = false → rule (B + k * step) = .ok (r k)) →
    loop rule over bad good step fuel B prev₀ = .ok W →
    ∃ k, k < fuel ∧ (∀ j, j < k → Continues over bad good step B r j) ∧
      StopsAt over bad good step B prev₀ r k W := by
  intro fuel
  induction fuel with
  | zero => intro B prev₀ W r _ h; simp [loop] at h
  | succ f ih =>
    intro B prev₀ W r hr h
    have hB : B + ((0 : Nat) : Rat) * step = B := by simp
    have h0 : over B = false → rule B = .ok (r 0) := by have := hr 0 (by omega); rw [hB] at this; exact this
    rw [loop] at h
    by_cases ho : over B = true
    · rw [if_pos ho] at h
      refine ⟨0, by omega, by intro j hj; omega, Or.inr (Or.inr ⟨by rw [hB]; exact ho, ?_⟩)⟩
      simp only [Except.ok.injEq] at h
      simp [prevOutcome, h]
    · have ho' : over B = false := by simpa using ho
      rw [if_neg ho, h0 ho'] at h
      simp only at h
      by_cases hb : bad (r 0) = true
      · rw [if_pos hb] at h
        refine ⟨0, by omega, by intro j hj; omega, Or.inr (Or.inl ⟨by rw [hB]; exact ho', hb, ?_⟩)⟩
        simp only [Except.ok.injEq] at h
        simp [prevOutcome, h]
      · have hb' : bad (r 0) = false := by simpa using hb
        rw [if_neg hb] at h
        by_cases hg : good (r 0) = true
        · rw [if_pos hg] at h
          refine ⟨0, by omega, by intro j hj; omega, Or.inl ⟨by rw [hB]; exact ho', hb', hg, ?_⟩⟩
          simp only [Except.ok.injEq] at h
          exact h.symm
        · have hg' : good (r 0) = false := by simpa using hg
          rw [if_neg hg] at h
          obtain ⟨k, hk, hall, hstop⟩ := ih (B + step) (r 0) W (fun k => r (k + 1))
            (by intro k hk; rw [shift]; exact hr (k + 1) (by omega)) h
          refine ⟨k + 1, by omega, ?_, ?_⟩
          · intro j hj
            cases j with
            | zero => exact ⟨by rw [hB]; exact ho', hb', hg'⟩
            | succ j =>
              have := hall j (by omega)
              unfold Continues at this ⊢
              rw [shift] at this
              exact this
          · unfold StopsAt at hstop ⊢
            rw [shift] at hstop
            cases k with
            | zero => simpa [prevOutcome] using hstop
            | succ k => simpa [prevOutcome] using hstop

/-- converse of `loop_result`: a stopping try within the fuel determines the result -/
theorem loop_complete {α : Type} {rule : Rat → Except Err α} {over : Rat → Bool} {bad good : α → Bool} {step : Rat} :
    ∀ (k fuel : Nat) (B : Rat) (prev₀ W : α) (r : Nat → α),
    (∀ j : Nat, j ≤ k → over (B + j * step) = false → rule (B + j * step) = .ok (r j)) →
    k < fuel → (∀ j, j < k → Continues over bad good step B r j) →
    StopsAt over bad good step B prev₀ r k W →
    loop rule over bad good step fuel B prev₀ = .ok W := by
  intro k
  induction k with
  | zero =>
    intro fuel B prev₀ W r hr hk _ hstop
    obtain ⟨f, rfl⟩ : ∃ f, fuel = f + 1 := ⟨fuel - 1, by omega⟩
    have hB : B + ((0 : Nat) : Rat) * step = B := by simp
    unfold StopsAt at hstop
    rw [hB] at hstop
    rw [loop]
    rcases hstop with ⟨ho, hb, hg, hW⟩ | ⟨ho, hb, hW⟩ | ⟨ho, hW⟩
    · have h0 : rule B = .ok (r 0) := by have := hr 0 (by omega); rw [hB] at this; exact this ho
      rw [if_neg (by simp [ho]), h0]
      simp only
      rw [if_neg (by simp [hb]), if_pos hg, hW]
    · have h0 : rule B = .ok (r 0) := by have := hr 0 (by omega); rw [hB] at this; exact this ho
      rw [if_neg (by simp [ho]), h0]
      simp only
      rw [if_pos hb, hW]; rfl
    · rw [if_pos ho, hW]; rfl
  | succ k ih =>
    intro fuel B prev₀ W r hr hk hall hstop
    obtain ⟨f, rfl⟩ : ∃ f, fuel = f + 1 := ⟨fuel - 1, by omega⟩
    have hB : B + ((0 : Nat) : Rat) * step = B := by simp
    obtain ⟨ho, hb, hg⟩ := hall 0 (by omega)
    rw [hB] at ho
    have h0 : rule B = .ok (r 0) := by have := hr 0 (by omega); rw [hB] at this; exact this ho
    rw [loop, if_neg (by simp [ho]), h0]
    simp only
    rw [if_neg (by simp [hb]), if_neg (by simp [hg])]
    apply ih f (B + step) (r 0) W (fun j => r (j + 1))
    · intro j hj; rw [shift]; exact hr (j + 1) (by omega)
    · omega
    · intro j hj
      have := hall (j + 1) (by omega)
      unfold Continues at this ⊢
      rw [shift]; exact this
    · unfold StopsAt at hstop ⊢
      rw [shift]
      cases k with
      | zero => simpa [prevOutcome] using hstop
      | succ k => simpa [prevOutcome] using hstop

/-- invariant: a property of the initial outcome that every non-`bad` outcome of the rule has
    holds for the result -/
theorem loop_inv {α : Type} {rule : Rat → Except Err α} {over : Rat → Bool} {bad good : α → Bool} {step : Rat}
    (P : α → Prop) (hrule : ∀ c W, rule c = .ok W → bad W = false → P W) :
    ∀ (fuel : Nat) (B : Rat) (prev₀ W : α), P prev₀ →
    loop rule over bad good step fuel B prev₀ = .ok W → P W := by
  intro fuel
  induction fuel with
  | zero => intro B prev₀ W _ h; simp [loop] at h
  | succ f ih =>
    intro B prev₀ W hp h
    rw [loop] at h
    by_cases ho : over B = true
    · rw [if_pos ho] at h
      simp only [Except.ok.injEq] at h
      exact h ▸ hp
    · rw [if_neg ho] at h
      cases hr : rule B with
      | error e => rw [hr] at h; simp at h
      | ok W' =>
        rw [hr] at h
        simp only at h
        by_cases hb : bad W' = true
        · rw [if_pos hb] at h
          simp only [Except.ok.injEq] at h
          exact h ▸ hp
        · have hb' : bad W' = false := by simpa using hb
          rw [if_neg hb] at h
          by_cases hg : good W' = true
          · rw [if_pos hg] at h
            simp only [Except.ok.injEq] at h
            exact h ▸ hrule B W' hr hb'
          · rw [if_neg hg] at h
            exact ih (B + step) W' W (hrule B W' hr hb') h

/-- if some try `k < fuel` is over the bound, bad or good, and all tries up to `k` return an outcome,
    the loop returns an outcome (in particular it does not run out of fuel) -/
theorem loop_stops {α : Type} {rule : Rat → Except Err α} {over : Rat → Bool} {bad good : α → Bool} {step : Rat} :
    ∀ (k fuel : Nat) (B : Rat) (prev₀ : α) (r : Nat → α),
    (∀ j : Nat, j ≤ k → over (B + j * step) = false → rule (B + j * step) = .ok (r j)) →
    k < fuel →
    (over (B + k * step) = true ∨ bad (r k) = true ∨ good (r k) = true) →
    ∃ W, loop rule over bad good step fuel B prev₀ = .ok W := by
  intro k
  induction k with
  | zero =>
    intro fuel B prev₀ r hr hk hstop
    obtain ⟨f, rfl⟩ : ∃ f, fuel = f + 1 := ⟨fuel - 1, by omega⟩
    have hB : B + ((0 : Nat) : Rat) * step = B := by simp
    rw [hB] at hstop
    rw [loop]
    by_cases ho : over B = true
    · exact ⟨prev₀, by rw [if_pos ho]⟩
    · have h0 : rule B = .ok (r 0) := by
        have := hr 0 (by omega); rw [hB] at this; exact this (by simpa using ho)
      rw [if_neg ho, h0]
      simp only
      by_cases hb : bad (r 0) = true
      · exact ⟨prev₀, by rw [if_pos hb]⟩
      · rw [if_neg hb]
        rcases hstop with h | h | h
        · exact absurd h ho
        · exact absurd h hb
        · exact ⟨r 0, by rw [if_pos h]⟩
  | succ k ih =>
    intro fuel B prev₀ r hr hk hstop
    obtain ⟨f, rfl⟩ : ∃ f, fuel = f + 1 := ⟨fuel - 1, by omega⟩
    have hB : B + ((0 : Nat) : Rat) * step = B := by simp
    rw [loop]
    by_cases ho : over B = true
    · exact ⟨prev₀, by rw [if_pos ho]⟩
    · have h0 : rule B = .ok (r 0) := by
        have := hr 0 (by omega); rw [hB] at this; exact this (by simpa using ho)
      rw [if_neg ho, h0]
      simp only
      by_cases hb : bad (r 0) = true
      · exact ⟨prev₀, by rw [if_pos hb]⟩
      · rw [if_neg hb]
        by_cases hg : good (r 0) = true
        · exact ⟨r 0, by rw [if_pos hg]⟩
        · rw [if_neg hg]
          apply ih f (B + step) (r 0) (fun j => r (j + 1))
          · intro j hj; rw [shift]; exact hr (j + 1) (by omega)
          · omega
          · rw [shift]; exact hstop

/-- if no try ever stops, every fuel runs out -/
theorem loop_diverges {α : Type} {rule : Rat → Except Err α} {over : Rat → Bool} {bad good : α → Bool} {step : Rat} :
    ∀ (fuel : Nat) (B : Rat) (prev₀ : α),
    (∀ k : Nat, over (B + k * step) = false ∧
      ∃ W, rule (B + k * step) = .ok W ∧ bad W = false ∧ good W = false) →
    loop rule over bad good step fuel B prev₀ = .error .fuel := by
  intro fuel
  induction fuel with
  | zero => intro B prev₀ _; rfl
  | succ f ih =>
    intro B prev₀ h
    have hB : B + ((0 : Nat) : Rat) * step = B := by simp
    obtain ⟨ho, W, hr, hb, hg⟩ := h 0
    rw [hB] at ho hr
    rw [loop, if_neg (by simp [ho]), hr]
    simp only
    rw [if_neg (by simp [hb]), if_neg (by simp [hg])]
    apply ih
    intro k
    rw [shift]
    exact h (k + 1)

/-- if try `N < fuel` is over the bound, an error of the loop is an error of the rule at an earlier try
    (in particular never a fuel error of the loop itself) -/
theorem loop_error {α : Type} {rule : Rat → Except Err α} {over : Rat → Bool} {bad good : α → Bool} {step : Rat} :
    ∀ (N fuel : Nat) (B : Rat) (prev₀ : α) (e : Err), N < fuel → over (B + N * step) = true →
    loop rule over bad good step fuel B prev₀ = .error e →
    ∃ k, k < N ∧ rule (B + k * step) = .error e := by
  intro N
  induction N with
  | zero =>
    intro fuel B prev₀ e hN ho h
    obtain ⟨f, rfl⟩ : ∃ f, fuel = f + 1 := ⟨fuel - 1, by omega⟩
    have hB : B + ((0 : Nat) : Rat) * step = B := by simp
    rw [hB] at ho
    rw [loop, if_pos ho] at h
    simp at h
  | succ N ih =>
    intro fuel B prev₀ e hN ho h
    obtain ⟨f, rfl⟩ : ∃ f, fuel = f + 1 := ⟨fuel - 1, by omega⟩
    have hB : B + ((0 : Nat) : Rat) * step = B := by simp
    rw [loop] at h
    by_cases ho0 : over B = true
    · rw [if_pos ho0] at h; simp at h
    · rw [if_neg ho0] at h
      cases hr : rule B with
      | error e' =>
        rw [hr] at h
        simp only [Except.error.injEq] at h
        exact ⟨0, by omega, by rw [hB, hr, h]⟩
      | ok W =>
        rw [hr] at h
        simp only at h
        by_cases hb : bad W = true
        · rw [if_pos hb] at h; simp at h
        · rw [if_neg hb] at h
          by_cases hg : good W = true
          · rw [if_pos hg] at h; simp at h
          · rw [if_neg hg] at h
            rw [← shift] at ho
            obtain ⟨k, hk, hk'⟩ := ih f (B + step) W e (by omega) ho h
            rw [shift] at hk'
            exact ⟨k + 1, by omega, hk'⟩

/-! ### The four model loops are instances of `loop` -/

theorem budgetIncrease_eq_loop (rule : Rat → Except Err (List Pid)) (feas exh : List Pid → Bool) (stop : Bool)
    (step bound : Rat) : ∀ (fuel : Nat) (cur : Rat) (prev : List Pid),
    Exhaustion.budgetIncrease rule feas exh stop step bound fuel cur prev =
      loop rule (fun c => decide (bound < c)) (fun W => !feas W) (fun W => stop && exh W) step fuel cur prev := by
  intro fuel
  induction fuel with
  | zero => intro cur prev; rfl
  | succ f ih =>
    intro cur prev
    rw [Exhaustion.budgetIncrease, loop]
    by_cases ho : bound < cur
    · rw [if_pos ho, if_pos (by simpa using ho)]
    · rw [if_neg ho, if_neg (by simpa using ho)]
      cases rule cur with
      | error e => rfl
      | ok W => simp only [ih]

theorem budgetIncreaseAll_eq_loop (rule : Rat → Except Err (List (List Pid))) (feas exh : List Pid → Bool)
    (stop : Bool) (step bound : Rat) : ∀ (fuel : Nat) (cur : Rat) (prev : List (List Pid)),
    Exhaustion.budgetIncreaseAll rule feas exh stop step bound fuel cur prev =
      loop rule (fun c => decide (bound < c)) (fun Ws => Ws.any (fun W => !feas W))
        (fun Ws => stop && Ws.any exh) step fuel cur prev := by
  intro fuel
  induction fuel with
  | zero => intro cur prev; rfl
  | succ f ih =>
    intro cur prev
    rw [Exhaustion.budgetIncreaseAll, loop]
    by_cases ho : bound < cur
    · rw [if_pos ho, if_pos (by simpa using ho)]
    · rw [if_neg ho, if_neg (by simpa using ho)]
      cases rule cur with
      | error e => rfl
      | ok W => simp only [ih]

theorem iterated_eq_loop (V : VCtx) (I : Inst) (init : List Pid) (order : List Pid → Except Err (List Pid))
    (inc : Rat) : ∀ (fuel : Nat) (b0 : Rat) (prev : List Pid),
    MES.iterated V I init order inc fuel b0 prev =
      loop (MES.runAt V I init order) (fun _ => false) (fun W => !I.isFeasible W)
        (fun W => I.isExhaustiveOver (MES.initPool V I init) W) inc fuel b0 prev := by
  intro fuel
  induction fuel with
  | zero => intro cur prev; rfl
  | succ f ih =>
    intro cur prev
    rw [MES.iterated, loop, if_neg (by simp)]
    cases MES.runAt V I init order cur with
    | error e => rfl
    | ok W => simp only [ih]

theorem iteratedAll_eq_loop (V : VCtx) (I : Inst) (init : List Pid) (order : List Pid → Except Err (List Pid))
    (inc : Rat) : ∀ (fuel : Nat) (b0 : Rat) (prev : List (List Pid)),
    MES.iteratedAll V I init order inc fuel b0 prev =
      loop (MES.runAllAt V I init order) (fun _ => false) (fun Ws => Ws.any (fun W => !I.isFeasible W))
        (fun Ws => Ws.any (fun W => I.isExhaustiveOver (MES.initPool V I init) W)) inc fuel b0 prev := by
  intro fuel
  induction fuel with
  | zero => intro cur prev; rfl
  | succ f ih =>
    intro cur prev
    rw [MES.iteratedAll, loop, if_neg (by simp)]
    cases MES.runAllAt V I init order cur with
    | error e => rfl
    | ok W => simp only [ih]

/-- with a positive step some multiple of it passes any bound -/
theorem exists_steps_past_bound (B bound step : Rat) (hs : 0 < step) : ∃ N : Nat, bound < B + N * step := by
  obtain ⟨N, hN⟩ := exists_nat_gt ((bound - B) / step)
  refine ⟨N, ?_⟩
  have := (div_lt_iff₀ hs).mp hN
  linarith

/-! ### List helpers: `dedup`, `maxRat`, `maxNat` -/

theorem mem_dedup_iff {α : Type} [BEq α] [LawfulBEq α] : ∀ {l : List α} {x : α}, x ∈ dedup l ↔ x ∈ l := by
  intro l
  induction l with
  | nil => intro x; simp [dedup]
  | cons a l ih =>
    intro x
    rw [dedup]
    by_cases hx : x = a
    · subst hx; simp
    · simp [List.mem_filter, ih, hx]

theorem dedup_nodup {α : Type} [BEq α] [LawfulBEq α] : ∀ l : List α, (dedup l).Nodup := by
  intro l
  induction l with
  | nil => simp [dedup]
  | cons a l ih =>
    rw [dedup, List.nodup_cons]
    refine ⟨?_, ih.filter _⟩
    simp [List.mem_filter]

theorem dedup_eq_self {α : Type} [BEq α] [LawfulBEq α] : ∀ {l : List α}, l.Nodup → dedup l = l := by
  intro l
  induction l with
  | nil => intro _; rfl
  | cons a l ih =>
    intro h
    rw [List.nodup_cons] at h
    rw [dedup, ih h.2]
    congr 1
    rw [List.filter_eq_self]
    intro y hy
    have : y ≠ a := fun e => h.1 (e ▸ hy)
    simpa using this

theorem dedup_idem {α : Type} [BEq α] [LawfulBEq α] (l : List α) : dedup (dedup l) = dedup l :=
  dedup_eq_self (dedup_nodup l)

theorem dedup_eq_nil {α : Type} [BEq α] : ∀ {l : List α}, dedup l = [] ↔ l = [] := by
  intro l
  cases l with
  | nil => simp [dedup]
  | cons a l => simp [dedup]

/-- two duplicate-free lists with the same members are permutations of each other -/
theorem dedup_perm {α : Type} [BEq α] [LawfulBEq α] {l l' : List α} (h : ∀ x, x ∈ l ↔ x ∈ l') :
    (dedup l).Perm (dedup l') :=
  (List.perm_ext_iff_of_nodup (dedup_nodup l) (dedup_nodup l')).mpr
    (fun x => by rw [mem_dedup_iff, mem_dedup_iff]; exact h x)

theorem maxRat_none : ∀ {l : List Rat}, maxRat l = none ↔ l = [] := by
  intro l
  cases l with
  | nil => simp [maxRat]
  | cons a l =>
    rw [maxRat]
    cases maxRat l <;> simp

theorem maxRat_some : ∀ {l : List Rat} {mx : Rat}, maxRat l = some mx → mx ∈ l ∧ ∀ x ∈ l, x ≤ mx := by
  intro l
  induction l with
  | nil => intro mx h; simp [maxRat] at h
  | cons a l ih =>
    intro mx h
    rw [maxRat] at h
    cases hm : maxRat l with
    | none =>
      rw [hm] at h
      simp only [Option.some.injEq] at h
      have hl : l = [] := maxRat_none.mp hm
      subst hl; subst h
      simp
    | some y =>
      rw [hm] at h
      simp only [Option.some.injEq] at h
      obtain ⟨hy, hle⟩ := ih hm
      by_cases hya : y ≤ a
      · rw [if_pos hya] at h
        subst h
        refine ⟨by simp, ?_⟩
        intro x hx
        rcases List.mem_cons.mp hx with rfl | hx
        · exact le_refl _
        · exact le_trans (hle x hx) hya
      · rw [if_neg hya] at h
        subst h
        refine ⟨by simp [hy], ?_⟩
        intro x hx
        rcases List.mem_cons.mp hx with rfl | hx
        · exact le_of_lt (not_le.mp hya)
        · exact hle x hx

theorem maxNat_ge : ∀ {l : List Nat} {x : Nat}, x ∈ l → x ≤ Composition.maxNat l := by
  intro l
  induction l with
  | nil => intro x h; simp at h
  | cons a l ih =>
    intro x hx
    rw [Composition.maxNat]
    rcases List.mem_cons.mp hx with rfl | hx
    · exact Nat.le_max_left _ _
    · exact le_trans (ih hx) (Nat.le_max_right _ _)

theorem maxNat_mem : ∀ {l : List Nat}, l ≠ [] → Composition.maxNat l ∈ l := by
  intro l
  induction l with
  | nil => intro h; exact absurd rfl h
  | cons a l ih =>
    intro _
    rw [Composition.maxNat]
    by_cases hl : l = []
    · subst hl; simp [Composition.maxNat]
    · have := ih hl
      rcases Nat.le_total a (Composition.maxNat l) with h | h
      · rw [Nat.max_eq_right h]; exact List.mem_cons_of_mem _ this
      · rw [Nat.max_eq_left h]; simp

theorem sumNat_congr {α : Type} {l : List α} {f g : α → Nat} (h : ∀ x ∈ l, f x = g x) : sumNat l f = sumNat l g := by
  induction l with
  | nil => rfl
  | cons a l ih =>
    rw [sumNat, sumNat, h a (by simp), ih (fun x hx => h x (List.mem_cons_of_mem _ hx))]

/-! ### `addNew`, `outcomesFrom` -/

theorem mem_addNew : ∀ {ws res : List (List Pid)} {x : List Pid},
    x ∈ Exhaustion.addNew res ws ↔ x ∈ res ∨ x ∈ ws := by
  intro ws
  induction ws with
  | nil => intro res x; simp [Exhaustion.addNew]
  | cons w ws ih =>
    intro res x
    rw [Exhaustion.addNew]
    by_cases hc : res.contains w = true
    · rw [if_pos hc, ih]
      have hw : w ∈ res := by simpa using hc
      constructor
      · rintro (h | h)
        · exact Or.inl h
        · exact Or.inr (List.mem_cons_of_mem _ h)
      · rintro (h | h)
        · exact Or.inl h
        · rcases List.mem_cons.mp h with rfl | h
          · exact Or.inl hw
          · exact Or.inr h
    · rw [if_neg hc, ih]
      simp only [List.mem_append, List.mem_cons]
      tauto

theorem outcomesFrom_ok {r : List Pid → Except Err (List (List Pid))} :
    ∀ {as outs : List (List Pid)}, Exhaustion.outcomesFrom r as = .ok outs →
      (∀ a ∈ as, ∃ ws, r a = .ok ws ∧ ∀ w ∈ ws, w ∈ outs) ∧
      (∀ w ∈ outs, ∃ a ∈ as, ∃ ws, r a = .ok ws ∧ w ∈ ws) := by
  intro as
  induction as with
  | nil =>
    intro outs h
    rw [Exhaustion.outcomesFrom] at h
    simp only [Except.ok.injEq] at h
    subst h
    simp
  | cons a as ih =>
    intro outs h
    rw [Exhaustion.outcomesFrom] at h
    cases hr : r a with
    | error e => rw [hr] at h; simp at h
    | ok ws =>
      rw [hr] at h
      simp only at h
      cases hrest : Exhaustion.outcomesFrom r as with
      | error e => rw [hrest] at h; simp at h
      | ok rest =>
        rw [hrest] at h
        simp only [Except.ok.injEq] at h
        subst h
        obtain ⟨ih1, ih2⟩ := ih hrest
        constructor
        · intro b hb
          rcases List.mem_cons.mp hb with rfl | hb
          · exact ⟨ws, hr, fun w hw => List.mem_append_left _ hw⟩
          · obtain ⟨ws', h1, h2⟩ := ih1 b hb
            exact ⟨ws', h1, fun w hw => List.mem_append_right _ (h2 w hw)⟩
        · intro w hw
          rcases List.mem_append.mp hw with hw | hw
          · exact ⟨a, by simp, ws, hr, hw⟩
          · obtain ⟨b, hb, ws', h1, h2⟩ := ih2 w hw
            exact ⟨b, List.mem_cons_of_mem _ hb, ws', h1, h2⟩

end Wrap
end Pabu
