/-
  Lemmas about the Pabulib row model: field codecs (strip, split/join, numbers), canonical maps,
  section-wise round trips.
-/
import PabuModel.Pabulib
import Mathlib.Data.List.Basic
import Mathlib.Tactic.Linarith
namespace Pabu.Pabulib

/-! ## strip -/

theorem dropSpaces_eq_self {s : Str} (h : ∀ hs : s ≠ [], isSpace (s.head hs) = false) : dropSpaces s = s := by
  cases s with
  | nil => rfl
  | cons c cs =>
    have := h (by simp)
    simp only [List.head_cons] at this
    simp [dropSpaces, this]

/-- no white space at either end -/
def Trimmed (s : Str) : Prop :=
  ∀ hs : s ≠ [], isSpace (s.head hs) = false ∧ isSpace (s.getLast hs) = false

theorem strip_of_trimmed {s : Str} (h : Trimmed s) : strip s = s := by
  unfold strip
  rw [dropSpaces_eq_self (fun hs => (h hs).1)]
  rw [dropSpaces_eq_self]
  · exact List.reverse_reverse s
  · intro hs
    have hs' : s ≠ [] := by simpa using hs
    rw [List.head_reverse]
    exact (h hs').2

theorem trimmed_nil : Trimmed [] := fun hs => absurd rfl hs

theorem trimmed_of_all {s : Str} (h : ∀ c ∈ s, isSpace c = false) : Trimmed s :=
  fun hs => ⟨h _ (List.head_mem hs), h _ (List.getLast_mem hs)⟩


/-! ## split / join -/

theorem splitOnC_nosep {sep : Char} {a : Str} (h : sep ∉ a) : splitOnC sep a = [a] := by
  induction a with
  | nil => rfl
  | cons c cs ih =>
    have hc : c ≠ sep := fun e => h (by simp [e])
    have hcs : sep ∉ cs := fun e => h (by simp [e])
    simp [splitOnC, hc, ih hcs, consHead]

theorem splitOnC_append {sep : Char} {a : Str} (r : Str) (h : sep ∉ a) :
    splitOnC sep (a ++ sep :: r) = a :: splitOnC sep r := by
  induction a with
  | nil => simp [splitOnC]
  | cons c cs ih =>
    have hc : c ≠ sep := fun e => h (by simp [e])
    have hcs : sep ∉ cs := fun e => h (by simp [e])
    simp [splitOnC, hc, ih hcs, consHead]

theorem splitOnC_joinC {sep : Char} : ∀ (l : List Str), l ≠ [] → (∀ s ∈ l, sep ∉ s) →
    splitOnC sep (joinC sep l) = l
  | [], h, _ => absurd rfl h
  | [a], _, hs => by simpa [joinC] using splitOnC_nosep (hs a (by simp))
  | a :: b :: r, _, hs => by
    have ha : sep ∉ a := hs a (by simp)
    have := splitOnC_joinC (sep := sep) (b :: r) (by simp) (fun s m => hs s (by simp [List.mem_cons] at m ⊢; tauto))
    simp [joinC, splitOnC_append _ ha, this]

theorem joinC_eq_nil {sep : Char} : ∀ (l : List Str), (∀ s ∈ l, s ≠ []) → joinC sep l = [] → l = []
  | [], _, _ => rfl
  | [a], hs, h => absurd (by simpa [joinC] using h) (hs a (by simp))
  | a :: b :: r, hs, h => by
    simp [joinC] at h

/-- `_split_list` undoes the writer's `",".join(names)` for non-empty comma-free names -/
theorem splitList_joinC (l : List Str) (hne : ∀ s ∈ l, s ≠ []) (hc : ∀ s ∈ l, ',' ∉ s) :
    splitList (joinC ',' l) = l := by
  unfold splitList
  by_cases hl : l = []
  · subst hl; rfl
  · have : joinC ',' l ≠ [] := fun e => hl (joinC_eq_nil l hne e)
    rw [if_neg this]
    exact splitOnC_joinC l hl hc

theorem mem_joinC {sep c : Char} : ∀ (l : List Str), c ∈ joinC sep l → c = sep ∨ ∃ s ∈ l, c ∈ s
  | [], h => by simp [joinC] at h
  | [a], h => by right; exact ⟨a, by simp, by simpa [joinC] using h⟩
  | a :: b :: r, h => by
    simp only [joinC, List.mem_append, List.mem_cons] at h
    rcases h with h | h | h
    · right; exact ⟨a, by simp, h⟩
    · left; exact h
    · rcases mem_joinC (b :: r) h with h | ⟨s, hs, hc⟩
      · left; exact h
      · right; exact ⟨s, List.mem_cons_of_mem _ hs, hc⟩

theorem joinC_head {sep : Char} : ∀ (l : List Str) (h : joinC sep l ≠ []) (hl : l ≠ []) (hne : ∀ s ∈ l, s ≠ []),
    (joinC sep l).head h = (l.head hl).head (hne _ (List.head_mem hl))
  | [], _, hl, _ => absurd rfl hl
  | [a], _, _, _ => by simp [joinC]
  | a :: b :: r, _, _, hne => by
    have ha : a ≠ [] := hne a (by simp)
    simp [joinC, List.head_append_of_ne_nil ha]

theorem joinC_getLast {sep : Char} : ∀ (l : List Str) (h : joinC sep l ≠ []) (hl : l ≠ []) (hne : ∀ s ∈ l, s ≠ []),
    (joinC sep l).getLast h = (l.getLast hl).getLast (hne _ (List.getLast_mem hl))
  | [], _, hl, _ => absurd rfl hl
  | [a], _, _, _ => by simp [joinC]
  | a :: b :: r, h, _, hne => by
    have hne' : ∀ s ∈ b :: r, s ≠ [] := fun s m => hne s (List.mem_cons_of_mem _ m)
    have hb : b ≠ [] := hne b (by simp)
    have hj : joinC sep (b :: r) ≠ [] := fun e => by
      have := joinC_eq_nil (b :: r) hne' e
      simp at this
    have ih := joinC_getLast (sep := sep) (b :: r) hj (by simp) hne'
    have : (a ++ sep :: joinC sep (b :: r)).getLast (by simp) = (joinC sep (b :: r)).getLast hj := by
      rw [List.getLast_append_of_ne_nil (l' := sep :: joinC sep (b :: r)) _ (by simp)]
      rw [List.getLast_cons hj]
    simp only [joinC]
    rw [this, ih]
    simp

theorem trimmed_joinC {sep : Char} (l : List Str) (hne : ∀ s ∈ l, s ≠ []) (ht : ∀ s ∈ l, Trimmed s) :
    Trimmed (joinC sep l) := by
  intro h
  have hl : l ≠ [] := fun e => by subst e; exact h rfl
  rw [joinC_head l h hl hne, joinC_getLast l h hl hne]
  exact ⟨(ht _ (List.head_mem hl) _).1, (ht _ (List.getLast_mem hl) _).2⟩


/-! ## numbers -/

/-- characters that can occur in a printed number -/
def numChar (c : Char) : Bool := isDigit c || c == '-' || c == '/'

theorem digit_facts : ∀ d, d < 10 →
    (digitChar d).toNat = 48 + d ∧ isDigit (digitChar d) = true := by decide

/-- what the proofs need to know about a number character, as one Boolean test -/
def numOK (c : Char) : Bool :=
  !isSpace c && c != ',' && c != '.' && c != '+' && c.toLower == c && !kNone.contains c && !kmeta.contains c &&
  !kprojects.contains c && !kvotes.contains c

theorem numOK_range : ∀ n, n < 58 → (decide (45 ≤ n) && decide (n ≠ 46)) = true → numOK (Char.ofNat n) = true := by
  decide

theorem numChar_facts (n : Nat) (h1 : n < 58) (h2 : 45 ≤ n) (h3 : n ≠ 46) :
    isSpace (Char.ofNat n) = false ∧ Char.ofNat n ≠ ',' ∧ Char.ofNat n ≠ '.' ∧ Char.ofNat n ≠ '+' ∧
    (Char.ofNat n).toLower = Char.ofNat n ∧ Char.ofNat n ∉ kNone ∧ Char.ofNat n ∉ kmeta ∧
    Char.ofNat n ∉ kprojects ∧ Char.ofNat n ∉ kvotes := by
  have := numOK_range n h1 (by simp [h2, h3])
  unfold numOK at this
  simp only [Bool.and_eq_true, Bool.not_eq_true', bne_iff_ne, ne_eq, beq_iff_eq, List.contains_eq_mem,
    decide_eq_false_iff_not] at this
  obtain ⟨⟨⟨⟨⟨⟨⟨⟨a, b⟩, c⟩, d⟩, e⟩, f⟩, g⟩, h⟩, i⟩ := this
  exact ⟨a, b, c, d, e, f, g, h, i⟩

theorem char_eq_ofNat (c : Char) : c = Char.ofNat c.toNat := by
  simp [Char.ofNat_toNat]

theorem numChar_range {c : Char} (h : numChar c = true) : c.toNat < 58 ∧ 45 ≤ c.toNat ∧ c.toNat ≠ 46 := by
  unfold numChar isDigit at h
  simp only [Bool.or_eq_true, Bool.and_eq_true, decide_eq_true_eq, beq_iff_eq] at h
  rcases h with (⟨h1, h2⟩ | h) | h
  · omega
  · subst h; decide
  · subst h; decide

theorem showNatAux_fuel : ∀ (f n : Nat), n ≤ f → showNatAux f n = showNatAux n n := by
  intro f
  induction f using Nat.strong_induction_on with
  | _ f ih =>
    intro n hn
    cases f with
    | zero =>
      have : n = 0 := by omega
      subst this; rfl
    | succ f =>
      cases n with
      | zero => rfl
      | succ k =>
        by_cases h : k + 1 < 10
        · simp [showNatAux, h]
        · simp only [showNatAux, h, if_false]
          rw [ih f (by omega) ((k + 1) / 10) (by omega)]
          by_cases hk : k = f
          · subst hk; rw [ih k (by omega) ((k + 1) / 10) (by omega)]
          · rw [ih k (by omega) ((k + 1) / 10) (by omega)]

theorem showNat_eq (n : Nat) :
    showNat n = if n < 10 then [digitChar n] else showNat (n / 10) ++ [digitChar (n % 10)] := by
  unfold showNat
  cases n with
  | zero => rfl
  | succ k =>
    by_cases h : k + 1 < 10
    · simp [showNatAux, h]
    · simp only [showNatAux, h, if_false]
      rw [showNatAux_fuel k ((k + 1) / 10) (by omega)]

theorem showNat_digits (n : Nat) : ∀ c ∈ showNat n, isDigit c = true := by
  induction n using Nat.strong_induction_on with
  | _ n ih =>
    rw [showNat_eq]
    by_cases h : n < 10
    · rw [if_pos h]
      intro c hc
      simp only [List.mem_singleton] at hc
      subst hc
      exact (digit_facts n h).2
    · rw [if_neg h]
      intro c hc
      rcases List.mem_append.mp hc with hc | hc
      · exact ih (n / 10) (by omega) c hc
      · simp only [List.mem_singleton] at hc
        subst hc
        exact (digit_facts (n % 10) (by omega)).2

theorem showNat_ne_nil (n : Nat) : showNat n ≠ [] := by
  rw [showNat_eq]
  by_cases h : n < 10
  · rw [if_pos h]; simp
  · rw [if_neg h]; simp

theorem digitsVal_append (s : Str) (c : Char) : digitsVal (s ++ [c]) = digitsVal s * 10 + (c.toNat - 48) := by
  simp [digitsVal, List.foldl_append]

theorem digitsVal_showNat (n : Nat) : digitsVal (showNat n) = n := by
  induction n using Nat.strong_induction_on with
  | _ n ih =>
    rw [showNat_eq]
    by_cases h : n < 10
    · rw [if_pos h]
      simp [digitsVal, (digit_facts n h).1]
    · rw [if_neg h, digitsVal_append, ih (n / 10) (by omega), (digit_facts (n % 10) (by omega)).1]
      omega

theorem readNat_showNat (n : Nat) : readNat? (showNat n) = some n := by
  unfold readNat?
  have h1 := showNat_ne_nil n
  have h2 : (showNat n).all isDigit = true := List.all_eq_true.mpr (showNat_digits n)
  rw [if_pos ⟨h1, h2⟩, digitsVal_showNat]

theorem showNat_numChar (n : Nat) : ∀ c ∈ showNat n, numChar c = true := by
  intro c hc
  simp [numChar, showNat_digits n c hc]

theorem showInt_numChar (i : Int) : ∀ c ∈ showInt i, numChar c = true := by
  intro c hc
  unfold showInt at hc
  by_cases h : i < 0
  · rw [if_pos h] at hc
    rcases List.mem_cons.mp hc with hc | hc
    · subst hc; decide
    · exact showNat_numChar _ c hc
  · rw [if_neg h] at hc
    exact showNat_numChar _ c hc

theorem showRat_numChar (q : Rat) : ∀ c ∈ showRat q, numChar c = true := by
  intro c hc
  unfold showRat at hc
  by_cases h : q.den = 1
  · rw [if_pos h] at hc; exact showInt_numChar _ c hc
  · rw [if_neg h] at hc
    rcases List.mem_append.mp hc with hc | hc
    · exact showInt_numChar _ c hc
    · rcases List.mem_cons.mp hc with hc | hc
      · subst hc; decide
      · exact showNat_numChar _ c hc

/-- facts about any string made of number characters -/
theorem numStr_facts {s : Str} (h : ∀ c ∈ s, numChar c = true) :
    (∀ c ∈ s, isSpace c = false ∧ c ≠ ',' ∧ c ≠ '.' ∧ c ≠ '+' ∧ c.toLower = c ∧ c ∉ kNone ∧ c ∉ kmeta ∧
      c ∉ kprojects ∧ c ∉ kvotes) := by
  intro c hc
  have hr := numChar_range (h c hc)
  have := numChar_facts c.toNat hr.1 hr.2.1 hr.2.2
  rw [← char_eq_ofNat c] at this
  exact this


theorem showNat_head_ne (n : Nat) (c : Char) (hc : isDigit c = false) : (showNat n).head? ≠ some c := by
  intro h
  have hm : c ∈ showNat n := List.mem_of_mem_head? h
  rw [showNat_digits n c hm] at hc
  exact Bool.noConfusion hc

theorem readSigned_showInt (i : Int) : readSigned? (showInt i) = some i := by
  unfold readSigned? showInt
  by_cases h : i < 0
  · rw [if_pos h]
    simp only [List.head?_cons, List.tail_cons, if_true, readNat_showNat, Option.map_some]
    congr 1
    simp only [Int.ofNat_eq_natCast]
    omega
  · rw [if_neg h, if_neg (showNat_head_ne _ '-' (by decide)), readNat_showNat, Option.map_some]
    congr 1
    simp only [Int.ofNat_eq_natCast]
    omega

theorem readPyInt_showInt (i : Int) : readPyInt (showInt i) = .ok i := by
  unfold readPyInt
  have : (showInt i).head? ≠ some '+' := by
    intro h
    have hm := List.mem_of_mem_head? h
    have := showInt_numChar i _ hm
    revert this; decide
  rw [if_neg this, readSigned_showInt]

theorem not_mem_of_numStr {s : Str} (h : ∀ c ∈ s, numChar c = true) :
    ',' ∉ s ∧ '.' ∉ s ∧ '+' ∉ s := by
  refine ⟨fun m => ?_, fun m => ?_, fun m => ?_⟩
  · exact (numStr_facts h _ m).2.1 rfl
  · exact (numStr_facts h _ m).2.2.1 rfl
  · exact (numStr_facts h _ m).2.2.2.1 rfl

theorem commaToDot_numStr {s : Str} (h : ∀ c ∈ s, numChar c = true) : commaToDot s = s := by
  unfold commaToDot
  conv_rhs => rw [← List.map_id s]
  apply List.map_congr_left
  intro c hc
  have := (numStr_facts h c hc).2.1
  simp [this]

theorem trimmed_numStr {s : Str} (h : ∀ c ∈ s, numChar c = true) : Trimmed s :=
  trimmed_of_all (fun c hc => (numStr_facts h c hc).1)

theorem lower_numStr {s : Str} (h : ∀ c ∈ s, numChar c = true) : lower s = s := by
  unfold lower
  conv_rhs => rw [← List.map_id s]
  apply List.map_congr_left
  intro c hc
  exact (numStr_facts h c hc).2.2.2.2.1

theorem slash_not_digit (n : Nat) : '/' ∉ showNat n := by
  intro m
  have := showNat_digits n _ m
  revert this; decide

theorem readDecimal_showNat (n : Nat) : readDecimal false (showNat n) [] = .ok (n : Rat) := by
  unfold readDecimal
  have h2 : allDigits (showNat n) = true := List.all_eq_true.mpr (showNat_digits n)
  have h3 : allDigits ([] : Str) = true := rfl
  have h1 := showNat_ne_nil n
  simp [h1, h2, h3, digitsVal_showNat, Rat.mkRat_one]

theorem readDecimal_showNat_neg (n : Nat) : readDecimal true (showNat n) [] = .ok (-(n : Rat)) := by
  unfold readDecimal
  have h2 : allDigits (showNat n) = true := List.all_eq_true.mpr (showNat_digits n)
  have h3 : allDigits ([] : Str) = true := rfl
  have h1 := showNat_ne_nil n
  simp [h1, h2, h3, digitsVal_showNat, Rat.mkRat_one]


theorem dot_not_digit (n : Nat) : '.' ∉ showNat n := by
  intro m
  have := showNat_digits n _ m
  revert this; decide

theorem contains_dot_false (a b : Nat) : (showNat a ++ '/' :: showNat b).contains '.' = false := by
  rw [Bool.eq_false_iff]
  intro h
  rw [List.contains_iff_mem] at h
  rcases List.mem_append.mp h with h | h
  · exact dot_not_digit _ h
  · rcases List.mem_cons.mp h with h | h
    · revert h; decide
    · exact dot_not_digit _ h

/-- unsigned integer -/
theorem readUnsigned_nat (neg : Bool) (n : Nat) :
    readUnsignedRat neg (showNat n) = .ok (if neg then -(n : Rat) else (n : Rat)) := by
  unfold readUnsignedRat
  rw [splitOnC_nosep (slash_not_digit n)]
  simp only
  rw [splitOnC_nosep (dot_not_digit n)]
  cases neg
  · simpa using readDecimal_showNat n
  · simpa using readDecimal_showNat_neg n

/-- unsigned fraction -/
theorem readUnsigned_frac (neg : Bool) (a b : Nat) (hb : b ≠ 0) :
    readUnsignedRat neg (showNat a ++ '/' :: showNat b) =
      .ok (mkRat (if neg then - (a : Int) else (a : Int)) b) := by
  unfold readUnsignedRat
  rw [splitOnC_append _ (slash_not_digit a), splitOnC_nosep (slash_not_digit b)]
  simp only [contains_dot_false, readNat_showNat, hb, if_false, Bool.false_eq_true]

theorem readRat_showRat (q : Rat) : readRat (showRat q) = .ok q := by
  unfold readRat showRat showInt
  have hq : mkRat q.num q.den = q := Rat.mkRat_self q
  have hnum : q.num < 0 → - (q.num.natAbs : Int) = q.num := fun h => by omega
  have hnum' : ¬ q.num < 0 → (q.num.natAbs : Int) = q.num := fun h => by omega
  by_cases hd : q.den = 1
  · rw [if_pos hd]
    by_cases hn : q.num < 0
    · rw [if_pos hn]
      simp only [List.head?_cons, List.tail_cons, if_true, readUnsigned_nat]
      rw [hd] at hq
      rw [← hq, ← hnum hn, Rat.mkRat_one]
      simp
    · rw [if_neg hn, if_neg (showNat_head_ne _ '-' (by decide)), readUnsigned_nat]
      rw [hd] at hq
      rw [← hq, ← hnum' hn, Rat.mkRat_one]
      simp
  · rw [if_neg hd]
    by_cases hn : q.num < 0
    · rw [if_pos hn]
      simp only [List.cons_append, List.head?_cons, List.tail_cons, if_true]
      rw [readUnsigned_frac true _ _ q.den_nz]
      simp only [if_true]
      rw [hnum hn, hq]
    · rw [if_neg hn]
      have : (showNat q.num.natAbs ++ '/' :: showNat q.den).head? ≠ some '-' := by
        rw [List.head?_append_of_ne_nil _ (showNat_ne_nil _)]
        exact showNat_head_ne _ '-' (by decide)
      rw [if_neg this, readUnsigned_frac false _ _ q.den_nz]
      simp only [Bool.false_eq_true, if_false]
      rw [hnum' hn, hq]

theorem readRat_budget (q : Rat) : readRat (commaToDot (showRat q)) = .ok q := by
  rw [commaToDot_numStr (showRat_numChar q), readRat_showRat]


/-! ## `none` cells and section words -/

theorem isNone_false_of_char {s : Str} (ht : Trimmed s) (c : Char) (hc : c ∈ s) (hl : c.toLower ∉ kNone) :
    isNone s = false := by
  unfold isNone
  rw [strip_of_trimmed ht, beq_eq_false_iff_ne]
  intro h
  apply hl
  rw [← h]
  exact List.mem_map.mpr ⟨c, hc, rfl⟩

theorem isNone_nil : isNone [] = false := by decide

theorem sectionOf_zero_of_char {s : Str} (ht : Trimmed s) (c : Char) (hc : c ∈ s)
    (h1 : c.toLower ∉ kmeta) (h2 : c.toLower ∉ kprojects) (h3 : c.toLower ∉ kvotes) : sectionOf s = 0 := by
  unfold sectionOf
  rw [strip_of_trimmed ht]
  have hm : c.toLower ∈ lower s := List.mem_map.mpr ⟨c, hc, rfl⟩
  have e1 : lower s ≠ kmeta := fun h => h1 (h ▸ hm)
  have e2 : lower s ≠ kprojects := fun h => h2 (h ▸ hm)
  have e3 : lower s ≠ kvotes := fun h => h3 (h ▸ hm)
  rw [if_neg e1, if_neg e2, if_neg e3]

theorem numStr_clean {s : Str} (h : ∀ c ∈ s, numChar c = true) (hne : s ≠ []) :
    strip s = s ∧ isNone s = false ∧ sectionOf s = 0 := by
  have ht := trimmed_numStr h
  obtain ⟨c, hc⟩ := List.exists_mem_of_ne_nil s hne
  have f := numStr_facts h c hc
  refine ⟨strip_of_trimmed ht, isNone_false_of_char ht c hc ?_, sectionOf_zero_of_char ht c hc ?_ ?_ ?_⟩
  · rw [f.2.2.2.2.1]; exact f.2.2.2.2.2.1
  · rw [f.2.2.2.2.1]; exact f.2.2.2.2.2.2.1
  · rw [f.2.2.2.2.1]; exact f.2.2.2.2.2.2.2.1
  · rw [f.2.2.2.2.1]; exact f.2.2.2.2.2.2.2.2

theorem showNat_clean (n : Nat) : strip (showNat n) = showNat n ∧ isNone (showNat n) = false ∧ sectionOf (showNat n) = 0 :=
  numStr_clean (showNat_numChar n) (showNat_ne_nil n)

theorem showInt_ne_nil (i : Int) : showInt i ≠ [] := by
  unfold showInt
  by_cases h : i < 0
  · rw [if_pos h]; simp
  · rw [if_neg h]; exact showNat_ne_nil _

theorem showRat_ne_nil (q : Rat) : showRat q ≠ [] := by
  unfold showRat
  by_cases h : q.den = 1
  · rw [if_pos h]; exact showInt_ne_nil _
  · rw [if_neg h]; simp [showInt_ne_nil]

theorem showInt_clean (i : Int) : strip (showInt i) = showInt i ∧ isNone (showInt i) = false ∧ sectionOf (showInt i) = 0 :=
  numStr_clean (showInt_numChar i) (showInt_ne_nil i)

theorem showRat_clean (q : Rat) : strip (showRat q) = showRat q ∧ isNone (showRat q) = false ∧ sectionOf (showRat q) = 0 :=
  numStr_clean (showRat_numChar q) (showRat_ne_nil q)

/-- a cell the writer produces from clean names -/
structure CleanName (s : Str) : Prop where
  trimmed : Trimmed s
  ne : s ≠ []
  notNone : isNone s = false
  noComma : ',' ∉ s

theorem comma_lower : Char.toLower ',' ∉ kNone := by decide

theorem joinC_names_clean (l : List Str) (h : ∀ s ∈ l, CleanName s) :
    strip (joinC ',' l) = joinC ',' l ∧ isNone (joinC ',' l) = false := by
  have ht : Trimmed (joinC ',' l) := trimmed_joinC l (fun s m => (h s m).ne) (fun s m => (h s m).trimmed)
  refine ⟨strip_of_trimmed ht, ?_⟩
  match l, h, ht with
  | [], _, _ => exact isNone_nil
  | [a], h, _ => simpa [joinC] using (h a (by simp)).notNone
  | a :: b :: r, _, ht =>
    apply isNone_false_of_char ht ','
    · simp [joinC]
    · exact comma_lower

theorem joinC_nums_clean (l : List Rat) :
    strip (joinC ',' (l.map showRat)) = joinC ',' (l.map showRat) ∧ isNone (joinC ',' (l.map showRat)) = false := by
  have hne : ∀ s ∈ l.map showRat, s ≠ [] := by
    intro s m
    obtain ⟨q, _, rfl⟩ := List.mem_map.mp m
    exact showRat_ne_nil q
  have htr : ∀ s ∈ l.map showRat, Trimmed s := by
    intro s m
    obtain ⟨q, _, rfl⟩ := List.mem_map.mp m
    exact trimmed_numStr (showRat_numChar q)
  have ht : Trimmed (joinC ',' (l.map showRat)) := trimmed_joinC _ hne htr
  refine ⟨strip_of_trimmed ht, ?_⟩
  match l, ht with
  | [], _ => exact isNone_nil
  | [a], _ => simpa [joinC] using (showRat_clean a).2.1
  | a :: b :: r, ht =>
    apply isNone_false_of_char ht ','
    · simp [joinC]
    · exact comma_lower


/-! ## the order on strings -/

theorem strLt_irrefl : ∀ a : Str, strLt a a = false
  | [] => rfl
  | c :: cs => by simp [strLt, strLt_irrefl cs]

theorem strLt_trans : ∀ {a b c : Str}, strLt a b = true → strLt b c = true → strLt a c = true
  | [], [], _, h, _ => by simp [strLt] at h
  | [], _ :: _, [], _, h => by simp [strLt] at h
  | [], _ :: _, _ :: _, _, _ => by simp [strLt]
  | _ :: _, [], _, h, _ => by simp [strLt] at h
  | _ :: _, _ :: _, [], _, h => by simp [strLt] at h
  | x :: xs, y :: ys, z :: zs, h1, h2 => by
    simp only [strLt] at h1 h2 ⊢
    by_cases hxy : x.toNat < y.toNat
    · by_cases hyz : y.toNat < z.toNat
      · have : x.toNat < z.toNat := by omega
        simp [this]
      · simp only [hyz, if_false] at h2
        by_cases hzy : z.toNat < y.toNat
        · simp [hzy] at h2
        · have : x.toNat < z.toNat := by omega
          simp [this]
    · simp only [hxy, if_false] at h1
      by_cases hyx : y.toNat < x.toNat
      · simp [hyx] at h1
      · simp only [hyx, if_false] at h1
        have exy : x.toNat = y.toNat := by omega
        by_cases hyz : y.toNat < z.toNat
        · have : x.toNat < z.toNat := by omega
          simp [this]
        · simp only [hyz, if_false] at h2
          by_cases hzy : z.toNat < y.toNat
          · simp [hzy] at h2
          · simp only [hzy, if_false] at h2
            have h3 : ¬ x.toNat < z.toNat := by omega
            have h4 : ¬ z.toNat < x.toNat := by omega
            simp only [h3, h4, if_false]
            exact strLt_trans h1 h2

theorem strLt_total : ∀ {a b : Str}, a ≠ b → strLt a b = false → strLt b a = true
  | [], [], h, _ => absurd rfl h
  | [], _ :: _, _, h => by simp [strLt] at h
  | _ :: _, [], _, _ => by simp [strLt]
  | x :: xs, y :: ys, hne, h => by
    simp only [strLt] at h ⊢
    by_cases hxy : x.toNat < y.toNat
    · simp [hxy] at h
    · simp only [hxy, if_false] at h
      by_cases hyx : y.toNat < x.toNat
      · simp [hyx]
      · simp only [hyx, if_false] at h ⊢
        have exy : x = y := Char.toNat_inj.mp (by omega)
        subst exy
        simp only [Nat.lt_irrefl, if_false]
        exact strLt_total (fun e => hne (by rw [e])) h

theorem strLt_ne {a b : Str} (h : strLt a b = true) : a ≠ b := by
  intro e; subst e; rw [strLt_irrefl] at h; exact Bool.noConfusion h

theorem strLt_asymm {a b : Str} (h : strLt a b = true) : strLt b a = false := by
  rw [Bool.eq_false_iff]
  intro h2
  have := strLt_trans h h2
  rw [strLt_irrefl] at this
  exact Bool.noConfusion this

/-- strictly increasing -/
def Sorted (l : List Str) : Prop := l.Pairwise (fun a b => strLt a b = true)

theorem sorted_of_sortedKeys : ∀ {l : List Str}, sortedKeys l = true → Sorted l
  | [], _ => List.Pairwise.nil
  | [_], _ => by simp [Sorted]
  | a :: b :: r, h => by
    simp only [sortedKeys, Bool.and_eq_true] at h
    have ih : Sorted (b :: r) := sorted_of_sortedKeys h.2
    unfold Sorted at ih ⊢
    rw [List.pairwise_cons] at ih ⊢
    refine ⟨?_, List.pairwise_cons.mpr ih⟩
    intro x hx
    rcases List.mem_cons.mp hx with hx | hx
    · subst hx; exact h.1
    · exact strLt_trans h.1 (ih.1 x hx)

theorem sortedKeys_of_sorted : ∀ {l : List Str}, Sorted l → sortedKeys l = true
  | [], _ => rfl
  | [_], _ => rfl
  | a :: b :: r, h => by
    unfold Sorted at h
    rw [List.pairwise_cons] at h
    simp only [sortedKeys, Bool.and_eq_true]
    exact ⟨h.1 b (by simp), sortedKeys_of_sorted h.2⟩

theorem Sorted.nodup {l : List Str} (h : Sorted l) : l.Nodup :=
  List.Pairwise.imp (fun h => strLt_ne h) h


/-! ## canonical maps -/

section maps
variable {β : Type}

theorem aget_ains (k k' : Str) (v : β) : ∀ m : Map β, aget k (ains k' v m) = if k = k' then some v else aget k m
  | [] => by
    by_cases h : k = k' <;> simp [ains, aget, h]
  | e :: r => by
    unfold ains
    by_cases h1 : k' = e.1
    · rw [if_pos h1]
      by_cases h : k = k'
      · simp [aget, h]
      · have : k ≠ e.1 := fun x => h (x.trans h1.symm)
        simp [aget, h, this]
    · rw [if_neg h1]
      by_cases h2 : strLt k' e.1 = true
      · rw [if_pos h2]
        by_cases h : k = k'
        · simp [aget, h]
        · simp [aget, h]
      · rw [if_neg h2]
        by_cases h : k = k'
        · have : k ≠ e.1 := fun x => h1 (h.symm.trans x)
          simp only [aget, this, if_false]
          rw [aget_ains k k' v r, if_pos h]
        · by_cases h3 : k = e.1
          · have h5 : ¬ e.1 = k' := fun h4 => h (h3.trans h4)
            simp [aget, h3, h5]
          · simp only [aget, h3, if_false]
            rw [aget_ains k k' v r, if_neg h]

theorem mem_keysOf_ains (k x : Str) (v : β) : ∀ m : Map β, x ∈ keysOf (ains k v m) ↔ x = k ∨ x ∈ keysOf m
  | [] => by simp [ains, keysOf]
  | e :: r => by
    unfold ains
    by_cases h1 : k = e.1
    · rw [if_pos h1]; simp [keysOf, h1]
    · rw [if_neg h1]
      by_cases h2 : strLt k e.1 = true
      · rw [if_pos h2]; simp [keysOf]
      · rw [if_neg h2]
        have ih := mem_keysOf_ains k x v r
        simp only [keysOf, List.map_cons, List.mem_cons] at ih ⊢
        rw [ih]; tauto

theorem sorted_ains (k : Str) (v : β) : ∀ m : Map β, Sorted (keysOf m) → Sorted (keysOf (ains k v m))
  | [], _ => by simp [ains, keysOf, Sorted]
  | e :: r, h => by
    have h' : (∀ a' ∈ keysOf r, strLt e.1 a' = true) ∧ Sorted (keysOf r) := by
      simpa [Sorted, keysOf, List.pairwise_cons] using h
    unfold ains
    by_cases h1 : k = e.1
    · rw [if_pos h1]
      simpa [Sorted, keysOf, List.pairwise_cons, h1] using h
    · rw [if_neg h1]
      by_cases h2 : strLt k e.1 = true
      · rw [if_pos h2]
        have : Sorted (k :: keysOf (e :: r)) := by
          unfold Sorted
          rw [List.pairwise_cons]
          refine ⟨?_, h⟩
          intro x hx
          simp only [keysOf, List.map_cons, List.mem_cons] at hx
          rcases hx with hx | hx
          · rw [hx]; exact h2
          · exact strLt_trans h2 (h'.1 x (by simpa [keysOf] using hx))
        simpa [keysOf] using this
      · rw [if_neg h2]
        have hlt : strLt e.1 k = true := strLt_total h1 (by simpa using h2)
        have ih := sorted_ains k v r h'.2
        have : Sorted (e.1 :: keysOf (ains k v r)) := by
          unfold Sorted
          rw [List.pairwise_cons]
          refine ⟨?_, ih⟩
          intro x hx
          rcases (mem_keysOf_ains k x v r).mp hx with hx | hx
          · rw [hx]; exact hlt
          · exact h'.1 x hx
        simpa [keysOf] using this

theorem aget_none_of_not_mem (k : Str) : ∀ m : Map β, k ∉ keysOf m → aget k m = none
  | [], _ => rfl
  | e :: r, h => by
    simp only [keysOf, List.map_cons, List.mem_cons, not_or] at h
    simp only [aget, h.1, if_false]
    exact aget_none_of_not_mem k r (by simpa [keysOf] using h.2)

theorem aget_isSome_of_mem (k : Str) : ∀ m : Map β, k ∈ keysOf m → ∃ v, aget k m = some v
  | [], h => by simp [keysOf] at h
  | e :: r, h => by
    by_cases h1 : k = e.1
    · exact ⟨e.2, by simp [aget, h1]⟩
    · simp only [keysOf, List.map_cons, List.mem_cons] at h
      rcases h with h | h
      · exact absurd h h1
      · obtain ⟨v, hv⟩ := aget_isSome_of_mem k r (by simpa [keysOf] using h)
        exact ⟨v, by simp [aget, h1, hv]⟩

theorem mem_keysOf_of_aget {k : Str} {v : β} : ∀ {m : Map β}, aget k m = some v → k ∈ keysOf m
  | [], h => by simp [aget] at h
  | e :: r, h => by
    by_cases h1 : k = e.1
    · simp [keysOf, h1]
    · simp only [aget, h1, if_false] at h
      have := mem_keysOf_of_aget h
      simp only [keysOf, List.map_cons, List.mem_cons]
      right; simpa [keysOf] using this

/-- two canonical maps with the same lookups are equal -/
theorem map_ext : ∀ {m₁ m₂ : Map β}, Sorted (keysOf m₁) → Sorted (keysOf m₂) →
    (∀ k, aget k m₁ = aget k m₂) → m₁ = m₂
  | [], [], _, _, _ => rfl
  | [], e :: r, _, _, h => by
    have := h e.1
    simp [aget] at this
  | e :: r, [], _, _, h => by
    have := h e.1
    simp [aget] at this
  | e₁ :: r₁, e₂ :: r₂, s₁, s₂, h => by
    have s₁' : (∀ a' ∈ keysOf r₁, strLt e₁.1 a' = true) ∧ Sorted (keysOf r₁) := by
      simpa [Sorted, keysOf, List.pairwise_cons] using s₁
    have s₂' : (∀ a' ∈ keysOf r₂, strLt e₂.1 a' = true) ∧ Sorted (keysOf r₂) := by
      simpa [Sorted, keysOf, List.pairwise_cons] using s₂
    have hk : e₁.1 = e₂.1 := by
      by_contra hne
      by_cases hlt : strLt e₁.1 e₂.1 = true
      · have h1 := h e₁.1
        have : e₁.1 ∉ keysOf r₂ := fun hm => by
          have := strLt_trans (s₂'.1 _ hm) hlt
          rw [strLt_irrefl] at this; exact Bool.noConfusion this
        simp [aget, hne, aget_none_of_not_mem _ _ this] at h1
      · have hgt : strLt e₂.1 e₁.1 = true := strLt_total hne (by simpa using hlt)
        have h1 := h e₂.1
        have : e₂.1 ∉ keysOf r₁ := fun hm => by
          have := strLt_trans (s₁'.1 _ hm) hgt
          rw [strLt_irrefl] at this; exact Bool.noConfusion this
        have hne' : e₂.1 ≠ e₁.1 := fun x => hne x.symm
        simp [aget, hne', aget_none_of_not_mem _ _ this] at h1
    have hv : e₁.2 = e₂.2 := by
      have := h e₁.1
      simpa [aget, hk] using this
    have he : e₁ = e₂ := Prod.ext hk hv
    have hr : r₁ = r₂ := by
      apply map_ext s₁'.2 s₂'.2
      intro k
      by_cases hke : k = e₁.1
      · have n1 : k ∉ keysOf r₁ := fun hm => by
          have := s₁'.1 _ hm; rw [← hke, strLt_irrefl] at this; exact Bool.noConfusion this
        have n2 : k ∉ keysOf r₂ := fun hm => by
          have := s₂'.1 _ hm; rw [← hk, ← hke, strLt_irrefl] at this; exact Bool.noConfusion this
        rw [aget_none_of_not_mem _ _ n1, aget_none_of_not_mem _ _ n2]
      · have := h k
        have hke2 : k ≠ e₂.1 := hk ▸ hke
        simpa [aget, hke, hke2] using this
    rw [he, hr]

end maps


/-! ## canonical forms are fixed points of their constructors -/

theorem ains_append_last {β : Type} (k : Str) (v : β) : ∀ acc : Map β, (∀ x ∈ keysOf acc, strLt x k = true) →
    ains k v acc = acc ++ [(k, v)]
  | [], _ => rfl
  | e :: r, h => by
    have he : strLt e.1 k = true := h e.1 (by simp [keysOf])
    have h1 : k ≠ e.1 := fun x => strLt_ne he x.symm
    have h2 : ¬ strLt k e.1 = true := by rw [strLt_asymm he]; exact Bool.noConfusion
    unfold ains
    rw [if_neg h1, if_neg h2, ains_append_last k v r (fun x hx => h x (by simp [keysOf] at hx ⊢; right; exact hx))]
    rfl

theorem sorted_append_singleton {l : List Str} {k : Str} (h : Sorted (l ++ [k])) : ∀ x ∈ l, strLt x k = true := by
  intro x hx
  unfold Sorted at h
  rw [List.pairwise_append] at h
  exact h.2.2 x hx k (by simp)

theorem foldl_ains_sorted {β : Type} : ∀ (l acc : Map β), Sorted (keysOf (acc ++ l)) →
    l.foldl (fun a e => ains e.1 e.2 a) acc = acc ++ l
  | [], acc, _ => by simp
  | e :: r, acc, h => by
    have h1 : Sorted (keysOf acc ++ [e.1]) := by
      have : keysOf (acc ++ e :: r) = (keysOf acc ++ [e.1]) ++ keysOf r := by simp [keysOf]
      rw [this] at h
      exact (List.pairwise_append.mp h).1
    have h2 : ains e.1 e.2 acc = acc ++ [e] := by
      rw [ains_append_last e.1 e.2 acc (sorted_append_singleton h1)]
    simp only [List.foldl_cons, h2]
    rw [foldl_ains_sorted r (acc ++ [e]) (by simpa using h)]
    simp

theorem mapOfPairs_sorted {β : Type} (m : Map β) (h : Sorted (keysOf m)) : mapOfPairs m = m := by
  unfold mapOfPairs
  simpa using foldl_ains_sorted m [] (by simpa using h)

theorem sins_append_last (x : Str) : ∀ acc : List Str, (∀ y ∈ acc, strLt y x = true) → sins x acc = acc ++ [x]
  | [], _ => rfl
  | y :: r, h => by
    have he : strLt y x = true := h y (by simp)
    have h1 : x ≠ y := fun e => strLt_ne he e.symm
    have h2 : ¬ strLt x y = true := by rw [strLt_asymm he]; exact Bool.noConfusion
    unfold sins
    rw [if_neg h1, if_neg h2, sins_append_last x r (fun z hz => h z (List.mem_cons_of_mem _ hz))]
    rfl

theorem foldl_sins_sorted : ∀ (l acc : List Str), Sorted (acc ++ l) →
    l.foldl (fun a x => sins x a) acc = acc ++ l
  | [], acc, _ => by simp
  | x :: r, acc, h => by
    have h1 : Sorted (acc ++ [x]) := by
      have : acc ++ x :: r = (acc ++ [x]) ++ r := by simp
      rw [this] at h
      exact (List.pairwise_append.mp h).1
    simp only [List.foldl_cons, sins_append_last x acc (sorted_append_singleton h1)]
    rw [foldl_sins_sorted r (acc ++ [x]) (by simpa using h)]
    simp

theorem setOf_sorted (l : List Str) (h : Sorted l) : setOf l = l := by
  unfold setOf
  simpa using foldl_sins_sorted l [] (by simpa using h)

theorem foldl_appendNew_nodup : ∀ (l acc : List Str), (acc ++ l).Nodup → l.foldl appendNew acc = acc ++ l
  | [], acc, _ => by simp
  | x :: r, acc, h => by
    have hx : x ∉ acc := by
      intro hm
      have := List.nodup_append.mp h
      exact this.2.2 x hm x (by simp) rfl
    simp only [List.foldl_cons, appendNew, if_neg hx]
    rw [foldl_appendNew_nodup r (acc ++ [x]) (by simpa using h)]
    simp

theorem orderedOf_nodup (l : List Str) (h : l.Nodup) : orderedOf l = l := by
  unfold orderedOf
  simpa using foldl_appendNew_nodup l [] (by simpa using h)


/-! ## strip: the converse direction -/

theorem dropSpaces_length_le : ∀ s : Str, (dropSpaces s).length ≤ s.length
  | [] => Nat.le_refl _
  | c :: cs => by
    unfold dropSpaces
    by_cases h : isSpace c = true
    · rw [if_pos h]; exact Nat.le_succ_of_le (dropSpaces_length_le cs)
    · rw [if_neg h]

theorem dropSpaces_length_lt {c : Char} {cs : Str} (h : isSpace c = true) : (dropSpaces (c :: cs)).length < (c :: cs).length := by
  unfold dropSpaces
  rw [if_pos h]
  exact Nat.lt_succ_of_le (dropSpaces_length_le cs)

theorem trimmed_of_strip {s : Str} (h : strip s = s) : Trimmed s := by
  intro hs
  have hlen : (strip s).length = s.length := by rw [h]
  unfold strip at hlen
  rw [List.length_reverse] at hlen
  have l1 := dropSpaces_length_le (dropSpaces s).reverse
  have l2 := dropSpaces_length_le s
  rw [List.length_reverse] at l1
  constructor
  · cases s with
    | nil => exact absurd rfl hs
    | cons c cs =>
      simp only [List.head_cons]
      by_contra hc
      have := dropSpaces_length_lt (cs := cs) (by simpa using hc)
      omega
  · by_contra hc
    have hd : dropSpaces s = s := by
      have : (dropSpaces s).length = s.length := by omega
      cases s with
      | nil => rfl
      | cons c cs =>
        by_cases h1 : isSpace c = true
        · have := dropSpaces_length_lt (cs := cs) h1; omega
        · simp [dropSpaces, h1]
    rw [hd] at hlen
    have hrev : s.reverse = s.getLast hs :: s.dropLast.reverse := by
      conv_lhs => rw [← List.dropLast_append_getLast hs]
      simp
    rw [hrev] at hlen
    have := dropSpaces_length_lt (cs := s.dropLast.reverse) (by simpa using hc)
    have hl : (s.getLast hs :: s.dropLast.reverse).length = s.length := by
      rw [← hrev, List.length_reverse]
    omega

/-! ## PROJECTS rows -/

def isCatKey (h : Str) : Bool := h == kCategory || h == kCategories
def isTgtKey (h : Str) : Bool := h == kTarget || h == kTargets

/-- one iteration of the PROJECTS cell loop -/
def projUpd (h v : Str) (a : ProjAcc) : ProjAcc :=
  if isNone v then a
  else if isCatKey (strip h) then { a with cats := setOf (stripAll (splitOnC ',' v)) }
  else if isTgtKey (strip h) then { a with targets := setOf (stripAll (splitOnC ',' v)) }
  else { a with md := ains (strip h) (strip v) a.md }

theorem projRowMeta_map (c : Str → Str) : ∀ (hs : List Str) (acc : ProjAcc),
    projRowMeta hs (hs.map c) acc = .ok (hs.foldl (fun a h => projUpd h (c h) a) acc)
  | [], acc => rfl
  | h :: hs, acc => by
    simp only [List.map_cons, List.foldl_cons]
    unfold projRowMeta
    by_cases h1 : isNone (c h) = true
    · rw [if_pos h1, projRowMeta_map c hs acc]
      simp [projUpd, h1]
    · rw [if_neg h1]
      by_cases h2 : strip h = kCategory ∨ strip h = kCategories
      · rw [if_pos h2, projRowMeta_map c hs]
        have : isCatKey (strip h) = true := by simpa [isCatKey] using h2
        simp [projUpd, h1, this]
      · rw [if_neg h2]
        have n2 : isCatKey (strip h) = false := by simpa [isCatKey] using h2
        by_cases h3 : strip h = kTarget ∨ strip h = kTargets
        · rw [if_pos h3, projRowMeta_map c hs]
          have : isTgtKey (strip h) = true := by simpa [isTgtKey] using h3
          simp [projUpd, h1, n2, this]
        · rw [if_neg h3, projRowMeta_map c hs]
          have n3 : isTgtKey (strip h) = false := by simpa [isTgtKey] using h3
          simp [projUpd, h1, n2, n3]


/-! ### generic facts about the folds -/

theorem foldl_congr_mem {α γ : Type} {f g : α → γ → α} : ∀ (l : List γ) (a : α),
    (∀ a, ∀ x ∈ l, f a x = g a x) → l.foldl f a = l.foldl g a
  | [], _, _ => rfl
  | x :: t, a, h => by
    simp only [List.foldl_cons]
    rw [h a x (by simp)]
    exact foldl_congr_mem t _ (fun a y hy => h a y (List.mem_cons_of_mem _ hy))

theorem foldl_one_key {α : Type} (k0 : Str) (upd : Str → Bool) (newv : Str → α) :
    ∀ (hs : List Str) (init : α), (∀ x ∈ hs, upd x = true → x = k0) →
    hs.foldl (fun a x => if upd x = true then newv x else a) init =
      if k0 ∈ hs ∧ upd k0 = true then newv k0 else init
  | [], init, _ => by simp
  | x :: t, init, h => by
    simp only [List.foldl_cons]
    have ht : ∀ y ∈ t, upd y = true → y = k0 := fun y hy => h y (List.mem_cons_of_mem _ hy)
    by_cases hx : upd x = true
    · have e : x = k0 := h x (by simp) hx
      subst e
      rw [if_pos hx, foldl_one_key x upd newv t _ ht]
      simp [hx]
    · rw [if_neg hx, foldl_one_key k0 upd newv t _ ht]
      by_cases hk : k0 = x
      · subst hk; simp [hx]
      · simp [hk]

theorem aget_foldl_cond (skip : Str → Bool) (val : Str → Str) (k : Str) :
    ∀ (hs : List Str) (m : Map Str),
    aget k (hs.foldl (fun m h => if skip h = true then m else ains h (val h) m) m) =
      if k ∈ hs ∧ skip k = false then some (val k) else aget k m
  | [], m => by simp
  | h :: t, m => by
    simp only [List.foldl_cons]
    rw [aget_foldl_cond skip val k t]
    by_cases h1 : k ∈ t ∧ skip k = false
    · rw [if_pos h1, if_pos ⟨List.mem_cons_of_mem _ h1.1, h1.2⟩]
    · rw [if_neg h1]
      by_cases h2 : skip h = true
      · rw [if_pos h2]
        have : ¬ (k ∈ h :: t ∧ skip k = false) := by
          intro ⟨hm, hs⟩
          rcases List.mem_cons.mp hm with e | hm
          · rw [e, h2] at hs; exact Bool.noConfusion hs
          · exact h1 ⟨hm, hs⟩
        rw [if_neg this]
      · rw [if_neg h2, aget_ains]
        by_cases e : k = h
        · subst e
          rw [if_pos rfl, if_pos ⟨by simp, by simpa using h2⟩]
        · rw [if_neg e]
          have : ¬ (k ∈ h :: t ∧ skip k = false) := by
            intro ⟨hm, hs⟩
            rcases List.mem_cons.mp hm with e' | hm
            · exact e e'
            · exact h1 ⟨hm, hs⟩
          rw [if_neg this]

theorem sorted_foldl_cond (skip : Str → Bool) (val : Str → Str) :
    ∀ (hs : List Str) (m : Map Str), Sorted (keysOf m) →
    Sorted (keysOf (hs.foldl (fun m h => if skip h = true then m else ains h (val h) m) m))
  | [], m, h => by simpa using h
  | x :: t, m, h => by
    simp only [List.foldl_cons]
    apply sorted_foldl_cond skip val t
    by_cases h2 : skip x = true
    · rw [if_pos h2]; exact h
    · rw [if_neg h2]; exact sorted_ains _ _ _ h


/-! ### components of the PROJECTS cell loop -/

def skipMd (c : Str → Str) (h : Str) : Bool := isNone (c h) || isCatKey h || isTgtKey h

theorem projFold_md (c : Str → Str) : ∀ (hs : List Str) (acc : ProjAcc), (∀ h ∈ hs, strip h = h) →
    (hs.foldl (fun a h => projUpd h (c h) a) acc).md =
      hs.foldl (fun m h => if skipMd c h = true then m else ains h (strip (c h)) m) acc.md
  | [], _, _ => rfl
  | h :: t, acc, hs => by
    simp only [List.foldl_cons]
    rw [projFold_md c t _ (fun x hx => hs x (List.mem_cons_of_mem _ hx))]
    congr 1
    have e : strip h = h := hs h (by simp)
    unfold projUpd skipMd
    rw [e]
    by_cases h1 : isNone (c h) = true
    · simp [h1]
    · by_cases h2 : isCatKey h = true
      · simp [h1, h2]
      · by_cases h3 : isTgtKey h = true
        · simp [h1, h2, h3]
        · simp [h1, h2, h3]

theorem projFold_cats (c : Str → Str) : ∀ (hs : List Str) (acc : ProjAcc), (∀ h ∈ hs, strip h = h) →
    (hs.foldl (fun a h => projUpd h (c h) a) acc).cats =
      hs.foldl (fun cs h => if (!isNone (c h) && isCatKey h) = true then setOf (stripAll (splitOnC ',' (c h))) else cs) acc.cats
  | [], _, _ => rfl
  | h :: t, acc, hs => by
    simp only [List.foldl_cons]
    rw [projFold_cats c t _ (fun x hx => hs x (List.mem_cons_of_mem _ hx))]
    congr 1
    have e : strip h = h := hs h (by simp)
    unfold projUpd
    rw [e]
    by_cases h1 : isNone (c h) = true
    · simp [h1]
    · by_cases h2 : isCatKey h = true
      · simp [h1, h2]
      · by_cases h3 : isTgtKey h = true
        · simp [h1, h2, h3]
        · simp [h1, h2, h3]

theorem projFold_targets (c : Str → Str) : ∀ (hs : List Str) (acc : ProjAcc), (∀ h ∈ hs, strip h = h) →
    (hs.foldl (fun a h => projUpd h (c h) a) acc).targets =
      hs.foldl (fun cs h => if (!isNone (c h) && !isCatKey h && isTgtKey h) = true then setOf (stripAll (splitOnC ',' (c h))) else cs) acc.targets
  | [], _, _ => rfl
  | h :: t, acc, hs => by
    simp only [List.foldl_cons]
    rw [projFold_targets c t _ (fun x hx => hs x (List.mem_cons_of_mem _ hx))]
    congr 1
    have e : strip h = h := hs h (by simp)
    unfold projUpd
    rw [e]
    by_cases h1 : isNone (c h) = true
    · simp [h1]
    · by_cases h2 : isCatKey h = true
      · simp [h1, h2]
      · by_cases h3 : isTgtKey h = true
        · simp [h1, h2, h3]
        · simp [h1, h2, h3]

/-! ### the column lists -/

theorem mem_addKeys (k : Str) : ∀ (ks acc : List Str), k ∈ addKeys acc ks ↔ k ∈ acc ∨ k ∈ ks
  | [], acc => by simp [addKeys]
  | x :: t, acc => by
    have ih := mem_addKeys k t (appendNew acc x)
    unfold addKeys at ih ⊢
    simp only [List.foldl_cons]
    rw [ih]
    unfold appendNew
    by_cases hx : x ∈ acc
    · rw [if_pos hx]
      simp only [List.mem_cons]
      constructor
      · rintro (h | h)
        · exact Or.inl h
        · exact Or.inr (Or.inr h)
      · rintro (h | h | h)
        · exact Or.inl h
        · exact Or.inl (h ▸ hx)
        · exact Or.inr h
    · rw [if_neg hx]
      simp only [List.mem_append, List.mem_singleton, List.mem_cons]
      tauto

theorem addKeys_prefix : ∀ (ks acc : List Str), ∃ t, addKeys acc ks = acc ++ t
  | [], acc => ⟨[], by simp [addKeys]⟩
  | x :: r, acc => by
    obtain ⟨t, ht⟩ := addKeys_prefix r (appendNew acc x)
    unfold addKeys at ht ⊢
    simp only [List.foldl_cons]
    rw [ht]
    unfold appendNew
    by_cases hx : x ∈ acc
    · rw [if_pos hx]; exact ⟨t, rfl⟩
    · rw [if_neg hx]; exact ⟨x :: t, by simp⟩

theorem mem_foldl_addKeys {γ : Type} (f : γ → List Str) (k : Str) : ∀ (l : List γ) (acc : List Str),
    k ∈ l.foldl (fun a x => addKeys a (f x)) acc ↔ k ∈ acc ∨ ∃ x ∈ l, k ∈ f x
  | [], acc => by simp
  | x :: t, acc => by
    simp only [List.foldl_cons]
    rw [mem_foldl_addKeys f k t, mem_addKeys]
    simp only [List.mem_cons, exists_eq_or_imp]
    tauto

theorem foldl_addKeys_prefix {γ : Type} (f : γ → List Str) : ∀ (l : List γ) (acc : List Str),
    ∃ t, l.foldl (fun a x => addKeys a (f x)) acc = acc ++ t
  | [], acc => ⟨[], by simp⟩
  | x :: r, acc => by
    simp only [List.foldl_cons]
    obtain ⟨t1, h1⟩ := addKeys_prefix (f x) acc
    obtain ⟨t2, h2⟩ := foldl_addKeys_prefix f r (addKeys acc (f x))
    rw [h2, h1]
    exact ⟨t1 ++ t2, by simp⟩


/-! ### `project_keys` -/

theorem mem_optKey {b : Bool} {k k' : Str} : k ∈ optKey b k' ↔ b = true ∧ k = k' := by
  unfold optKey
  cases b <;> simp

theorem mem_pkBase {ps : Map ProjData} {k : Str} (h : k ∈ pkBase ps) :
    k = kProjectId ∨ k = kCost ∨ k = kName ∨ k = kCategory ∨ k = kTarget := by
  unfold pkBase at h
  simp only [List.mem_append, List.mem_cons, List.not_mem_nil, or_false, mem_optKey] at h
  rcases h with ((h | h) | h) | h
  · rcases h with h | h
    · exact Or.inl h
    · exact Or.inr (Or.inl h)
  · exact Or.inr (Or.inr (Or.inl h.2))
  · exact Or.inr (Or.inr (Or.inr (Or.inl h.2)))
  · exact Or.inr (Or.inr (Or.inr (Or.inr h.2)))

theorem mem_projectKeys {ps : Map ProjData} {k : Str} :
    k ∈ projectKeys ps ↔ k ∈ pkBase ps ∨ ∃ p ∈ ps, k ∈ keysOf p.2.md := by
  unfold projectKeys
  rw [mem_foldl_addKeys (fun p : Str × ProjData => keysOf p.2.md)]

theorem projectKeys_head (ps : Map ProjData) : ∃ t, projectKeys ps = kProjectId :: kCost :: t := by
  unfold projectKeys
  obtain ⟨t, ht⟩ := foldl_addKeys_prefix (fun p : Str × ProjData => keysOf p.2.md) ps (pkBase ps)
  rw [ht]
  unfold pkBase
  refine ⟨optKey (List.any ps fun p => (aget kName p.2.md).isSome) kName ++
          (optKey (List.any ps fun p => !p.2.cats.isEmpty) kCategory ++
            (optKey (List.any ps fun p => !p.2.targets.isEmpty) kTarget ++ t)), ?_⟩
  simp only [List.cons_append, List.nil_append, List.append_assoc]

theorem pid_mem_projectKeys (ps : Map ProjData) : kProjectId ∈ projectKeys ps := by
  obtain ⟨t, ht⟩ := projectKeys_head ps; rw [ht]; simp

theorem cost_mem_projectKeys (ps : Map ProjData) : kCost ∈ projectKeys ps := by
  obtain ⟨t, ht⟩ := projectKeys_head ps; rw [ht]; simp

theorem category_mem_projectKeys {ps : Map ProjData} {np : Str × ProjData} (hm : np ∈ ps) (hc : np.2.cats ≠ []) :
    kCategory ∈ projectKeys ps := by
  rw [mem_projectKeys]; left
  have : ps.any (fun p => !p.2.cats.isEmpty) = true :=
    List.any_eq_true.mpr ⟨np, hm, by simpa [List.isEmpty_iff] using hc⟩
  unfold pkBase
  simp only [List.mem_append, mem_optKey]
  left; right; exact ⟨this, trivial⟩

theorem target_mem_projectKeys {ps : Map ProjData} {np : Str × ProjData} (hm : np ∈ ps) (hc : np.2.targets ≠ []) :
    kTarget ∈ projectKeys ps := by
  rw [mem_projectKeys]; left
  have : ps.any (fun p => !p.2.targets.isEmpty) = true :=
    List.any_eq_true.mpr ⟨np, hm, by simpa [List.isEmpty_iff] using hc⟩
  unfold pkBase
  simp only [List.mem_append, mem_optKey]
  right; exact ⟨this, trivial⟩

theorem mem_keysOf_iff {β : Type} {k : Str} {m : Map β} : k ∈ keysOf m ↔ ∃ kv ∈ m, kv.1 = k := by
  simp [keysOf]

/-- header cells of a well-formed project list are stripped, and the only category / target columns are
    `category` and `target` -/
theorem projectKeys_facts {ps : Map ProjData} (hw : ∀ np ∈ ps, WFProject np) :
    (∀ k ∈ projectKeys ps, strip k = k) ∧
    (∀ k ∈ projectKeys ps, isCatKey k = true → k = kCategory) ∧
    (∀ k ∈ projectKeys ps, isTgtKey k = true → k = kTarget) := by
  have base : ∀ k ∈ pkBase ps, strip k = k ∧ (isCatKey k = true → k = kCategory) ∧ (isTgtKey k = true → k = kTarget) := by
    intro k hk
    rcases mem_pkBase hk with h | h | h | h | h <;> subst h <;> decide
  have mdk : ∀ p ∈ ps, ∀ k ∈ keysOf p.2.md, strip k = k ∧ isCatKey k = false ∧ isTgtKey k = false := by
    intro p hp k hk
    obtain ⟨kv, hkv, rfl⟩ := mem_keysOf_iff.mp hk
    have := (hw p hp).md.keys kv hkv
    refine ⟨this.1, ?_, ?_⟩
    · have r := this.2
      unfold reservedProjKey at r
      unfold isCatKey
      simp only [Bool.or_eq_false_iff] at r ⊢
      exact ⟨r.1.1.1, r.1.1.2⟩
    · have r := this.2
      unfold reservedProjKey at r
      unfold isTgtKey
      simp only [Bool.or_eq_false_iff] at r ⊢
      exact ⟨r.1.2, r.2⟩
  refine ⟨?_, ?_, ?_⟩
  · intro k hk
    rcases mem_projectKeys.mp hk with h | ⟨p, hp, h⟩
    · exact (base k h).1
    · exact (mdk p hp k h).1
  · intro k hk hc
    rcases mem_projectKeys.mp hk with h | ⟨p, hp, h⟩
    · exact (base k h).2.1 hc
    · rw [(mdk p hp k h).2.1] at hc; exact Bool.noConfusion hc
  · intro k hk hc
    rcases mem_projectKeys.mp hk with h | ⟨p, hp, h⟩
    · exact (base k h).2.2 hc
    · rw [(mdk p hp k h).2.2] at hc; exact Bool.noConfusion hc


/-! ### one PROJECTS row -/

theorem mem_of_aget {β : Type} {k : Str} {v : β} : ∀ {m : Map β}, aget k m = some v → (k, v) ∈ m
  | [], h => by simp [aget] at h
  | e :: r, h => by
    by_cases h1 : k = e.1
    · simp only [aget, h1, if_true, Option.some.injEq] at h
      have : e = (k, v) := Prod.ext h1.symm h
      simp [this]
    · simp only [aget, h1, if_false] at h
      exact List.mem_cons_of_mem _ (mem_of_aget h)

theorem aget_reserved_none {m : Map Str} {res : Str → Bool} (hw : WFMd m res) {k : Str} (hk : res k = true) :
    aget k m = none := by
  apply aget_none_of_not_mem
  intro hm
  obtain ⟨kv, hkv, rfl⟩ := mem_keysOf_iff.mp hm
  rw [(hw.keys kv hkv).2] at hk
  exact Bool.noConfusion hk

theorem isNone_noneCell : isNone kNoneCell = true := by decide

/-- the cell function of the writer for one project -/
def pcell (np : Str × ProjData) (k : Str) : Str := cellOr (projectCell np.1 np.2 k)

theorem pcell_pid (np : Str × ProjData) : pcell np kProjectId = np.1 := by
  simp [pcell, projectCell, cellOr]

theorem pcell_cost (np : Str × ProjData) : pcell np kCost = showRat np.2.cost := by
  have : kCost ≠ kProjectId := by decide
  simp [pcell, projectCell, cellOr, this]

theorem pcell_other (np : Str × ProjData) {k : Str} (h1 : k ≠ kProjectId) (h2 : k ≠ kCost) (h3 : k ≠ kCategory)
    (h4 : k ≠ kTarget) : pcell np k = cellOr (aget k np.2.md) := by
  simp [pcell, projectCell, h1, h2, h3, h4]

theorem pcell_category {np : Str × ProjData} (hw : WFProject np) :
    pcell np kCategory = if np.2.cats = [] then kNoneCell else joinC ',' np.2.cats := by
  have h1 : kCategory ≠ kProjectId := by decide
  have h2 : kCategory ≠ kCost := by decide
  have hr : aget kCategory np.2.md = none := aget_reserved_none hw.md (by decide)
  unfold pcell projectCell
  rw [if_neg h1, if_neg h2, if_pos rfl]
  by_cases hc : np.2.cats = []
  · rw [if_pos hc, if_pos hc, hr]; rfl
  · rw [if_neg hc, if_neg hc]; simp [optJoin, hc, cellOr]

theorem pcell_target {np : Str × ProjData} (hw : WFProject np) :
    pcell np kTarget = if np.2.targets = [] then kNoneCell else joinC ',' np.2.targets := by
  have h1 : kTarget ≠ kProjectId := by decide
  have h2 : kTarget ≠ kCost := by decide
  have h3 : kTarget ≠ kCategory := by decide
  have hr : aget kTarget np.2.md = none := aget_reserved_none hw.md (by decide)
  unfold pcell projectCell
  rw [if_neg h1, if_neg h2, if_neg h3, if_pos rfl]
  by_cases hc : np.2.targets = []
  · rw [if_pos hc, if_pos hc, hr]; rfl
  · rw [if_neg hc, if_neg hc]; simp [optJoin, hc, cellOr]

/-- what the header of a written PROJECTS block satisfies relative to one of its projects -/
structure GoodHeader (K : List Str) (np : Str × ProjData) : Prop where
  stripped : ∀ k ∈ K, strip k = k
  cat : ∀ k ∈ K, isCatKey k = true → k = kCategory
  tgt : ∀ k ∈ K, isTgtKey k = true → k = kTarget
  head : ∃ t, K = kProjectId :: t
  cost : kCost ∈ K
  mdKeys : ∀ k ∈ keysOf np.2.md, k ∈ K
  catMem : np.2.cats ≠ [] → kCategory ∈ K
  tgtMem : np.2.targets ≠ [] → kTarget ∈ K

theorem isCat_reserved {k : Str} (h : isCatKey k = true) : reservedProjKey k = true := by
  unfold isCatKey at h; unfold reservedProjKey
  simp only [Bool.or_eq_true] at h ⊢
  rcases h with h | h
  · exact Or.inl (Or.inl (Or.inl h))
  · exact Or.inl (Or.inl (Or.inr h))

theorem isTgt_reserved {k : Str} (h : isTgtKey k = true) : reservedProjKey k = true := by
  unfold isTgtKey at h; unfold reservedProjKey
  simp only [Bool.or_eq_true] at h ⊢
  rcases h with h | h
  · exact Or.inl (Or.inr h)
  · exact Or.inr h

/-- the metadata dict read back from a written row -/
theorem projRow_md {K : List Str} {np : Str × ProjData} (hK : GoodHeader K np) (hw : WFProject np) :
    K.foldl (fun m h => if skipMd (pcell np) h = true then m else ains h (strip (pcell np h)) m) [] =
      (normProj np).2.md := by
  have hsorted : Sorted (keysOf np.2.md) := sorted_of_sortedKeys hw.md.sorted
  apply map_ext
  · exact sorted_foldl_cond _ _ K [] (by simp [keysOf, Sorted])
  · exact sorted_ains _ _ _ (sorted_ains _ _ _ hsorted)
  intro k
  rw [aget_foldl_cond]
  simp only [normProj, aget_ains]
  have hpid : kProjectId ∈ K := by obtain ⟨t, ht⟩ := hK.head; rw [ht]; simp
  by_cases e1 : k = kProjectId
  · subst e1
    have : skipMd (pcell np) kProjectId = false := by
      unfold skipMd
      rw [pcell_pid, hw.name.notNone]; decide
    rw [if_pos ⟨hpid, this⟩, if_pos rfl, pcell_pid, hw.name.stripped]
  · rw [if_neg e1]
    by_cases e2 : k = kCost
    · subst e2
      have : skipMd (pcell np) kCost = false := by
        unfold skipMd
        rw [pcell_cost, (showRat_clean _).2.1]; decide
      rw [if_pos ⟨hK.cost, this⟩, if_pos rfl, pcell_cost, (showRat_clean _).1]
    · rw [if_neg e2]
      simp only [aget]
      by_cases hc : isCatKey k = true
      · have : ¬ (k ∈ K ∧ skipMd (pcell np) k = false) := by
          intro ⟨_, hs⟩; unfold skipMd at hs; rw [hc] at hs; simp at hs
        rw [if_neg this, aget_reserved_none hw.md (isCat_reserved hc)]
      · by_cases ht : isTgtKey k = true
        · have : ¬ (k ∈ K ∧ skipMd (pcell np) k = false) := by
            intro ⟨_, hs⟩; unfold skipMd at hs; rw [ht] at hs; simp at hs
          rw [if_neg this, aget_reserved_none hw.md (isTgt_reserved ht)]
        · have h3 : k ≠ kCategory := fun e => hc (by rw [e]; decide)
          have h4 : k ≠ kTarget := fun e => ht (by rw [e]; decide)
          have hcell := pcell_other np e1 e2 h3 h4
          cases hv : aget k np.2.md with
          | none =>
            have : ¬ (k ∈ K ∧ skipMd (pcell np) k = false) := by
              intro ⟨_, hs⟩; unfold skipMd at hs
              rw [hcell, hv] at hs
              simp [cellOr, isNone_noneCell] at hs
            rw [if_neg this]
          | some v =>
            have hmem := mem_of_aget hv
            have hval := hw.md.vals _ hmem
            have hk : k ∈ K := hK.mdKeys k (mem_keysOf_of_aget hv)
            have : skipMd (pcell np) k = false := by
              unfold skipMd
              rw [hcell, hv]
              simp only [cellOr, hval.2, Bool.false_or]
              simp only [Bool.or_eq_false_iff]
              exact ⟨by simpa using hc, by simpa using ht⟩
            rw [if_pos ⟨hk, this⟩, hcell, hv]
            simp only [cellOr, hval.1]


theorem stripAll_id {l : List Str} (h : ∀ c ∈ l, strip c = c) : stripAll l = l := by
  unfold stripAll
  conv_rhs => rw [← List.map_id l]
  exact List.map_congr_left (fun c hc => by simpa using h c hc)

/-- a written category / target cell reads back as the same set -/
theorem tags_roundtrip {l : List Str} (hw : GoodTags l) (hne : l ≠ []) :
    setOf (stripAll (splitOnC ',' (joinC ',' l))) = l := by
  rw [splitOnC_joinC l hne (fun c hc => (hw.each c hc).2), stripAll_id (fun c hc => (hw.each c hc).1)]
  exact setOf_sorted l (sorted_of_sortedKeys hw.sorted)

theorem projRow_cats {K : List Str} {np : Str × ProjData} (hK : GoodHeader K np) (hw : WFProject np) :
    K.foldl (fun cs h => if (!isNone (pcell np h) && isCatKey h) = true
      then setOf (stripAll (splitOnC ',' (pcell np h))) else cs) [] = np.2.cats := by
  rw [foldl_one_key kCategory (fun h => !isNone (pcell np h) && isCatKey h)
    (fun h => setOf (stripAll (splitOnC ',' (pcell np h)))) K []]
  · rw [pcell_category hw]
    by_cases hc : np.2.cats = []
    · rw [if_pos hc, isNone_noneCell, hc]; simp
    · rw [if_neg hc, hw.cats.notNone]
      have : isCatKey kCategory = true := by decide
      rw [if_pos ⟨hK.catMem hc, by simp [this]⟩]
      exact tags_roundtrip hw.cats hc
  · intro x hx hu
    simp only [Bool.and_eq_true] at hu
    exact hK.cat x hx hu.2

theorem projRow_targets {K : List Str} {np : Str × ProjData} (hK : GoodHeader K np) (hw : WFProject np) :
    K.foldl (fun cs h => if (!isNone (pcell np h) && !isCatKey h && isTgtKey h) = true
      then setOf (stripAll (splitOnC ',' (pcell np h))) else cs) [] = np.2.targets := by
  rw [foldl_one_key kTarget (fun h => !isNone (pcell np h) && !isCatKey h && isTgtKey h)
    (fun h => setOf (stripAll (splitOnC ',' (pcell np h)))) K []]
  · rw [pcell_target hw]
    by_cases hc : np.2.targets = []
    · rw [if_pos hc, isNone_noneCell, hc]; simp
    · rw [if_neg hc, hw.targets.notNone]
      have h1 : isTgtKey kTarget = true := by decide
      have h2 : isCatKey kTarget = false := by decide
      rw [if_pos ⟨hK.tgtMem hc, by simp [h1, h2]⟩]
      exact tags_roundtrip hw.targets hc
  · intro x hx hu
    simp only [Bool.and_eq_true] at hu
    exact hK.tgt x hx hu.2

/-- **one project row**: parsing the row the writer makes for a project yields that project (with the two
    derived columns in its metadata) -/
theorem parseProjectRow_projectRow {K : List Str} {np : Str × ProjData} (acc : Map ProjData)
    (hK : GoodHeader K np) (hw : WFProject np) (hfresh : aget np.1 acc = none) :
    parseProjectRow K (projectRow K np) acc = .ok (ains np.1 (normProj np).2 acc) := by
  have hrow : projectRow K np = K.map (pcell np) := rfl
  have hacc := projRowMeta_map (pcell np) K {}
  have hmd := projRow_md hK hw
  have hcats := projRow_cats hK hw
  have htg := projRow_targets hK hw
  rw [← projFold_md (pcell np) K {} hK.stripped] at hmd
  rw [← projFold_cats (pcell np) K {} hK.stripped] at hcats
  rw [← projFold_targets (pcell np) K {} hK.stripped] at htg
  have hhead : headD (projectRow K np) = np.1 := by
    obtain ⟨t, ht⟩ := hK.head
    rw [hrow, ht]
    simp [headD, pcell_pid]
  have hcost : aget kCost (normProj np).2.md = some (showRat np.2.cost) := by
    have : kCost ≠ kProjectId := by decide
    simp [normProj, aget_ains, this]
  unfold parseProjectRow
  rw [hrow, hacc]
  simp only [hmd, hcost, readRat_budget]
  rw [← hrow, hhead, hw.name.stripped, hfresh]
  simp only [hcats, htg]
  rfl


/-! ## VOTES rows -/

theorem voteRowMeta_map (c : Str → Str) : ∀ (hs : List Str) (acc : Map Str), (∀ h ∈ hs, strip h = h) →
    voteRowMeta hs (hs.map c) acc =
      .ok (hs.foldl (fun m h => if isNone (c h) = true then m else ains h (strip (c h)) m) acc)
  | [], acc, _ => rfl
  | h :: hs, acc, hst => by
    simp only [List.map_cons, List.foldl_cons]
    have e : strip h = h := hst h (by simp)
    have ht : ∀ x ∈ hs, strip x = x := fun x hx => hst x (List.mem_cons_of_mem _ hx)
    unfold voteRowMeta
    by_cases h1 : isNone (c h) = true
    · rw [if_pos h1, if_pos h1]; exact voteRowMeta_map c hs acc ht
    · rw [if_neg h1, if_neg h1, e]; exact voteRowMeta_map c hs _ ht

theorem aget_adel {β : Type} (k k' : Str) : ∀ (m : Map β), Sorted (keysOf m) →
    aget k (adel k' m) = if k = k' then none else aget k m
  | [], _ => by simp [adel, aget]
  | e :: r, h => by
    have h' : (∀ a' ∈ keysOf r, strLt e.1 a' = true) ∧ Sorted (keysOf r) := by
      simpa [Sorted, keysOf, List.pairwise_cons] using h
    unfold adel
    by_cases h1 : k' = e.1
    · rw [if_pos h1]
      by_cases h2 : k = k'
      · rw [if_pos h2]
        apply aget_none_of_not_mem
        intro hm
        have := h'.1 k hm
        rw [h2, h1, strLt_irrefl] at this
        exact Bool.noConfusion this
      · rw [if_neg h2]
        have : k ≠ e.1 := fun x => h2 (x.trans h1.symm)
        simp [aget, this]
    · rw [if_neg h1]
      by_cases h3 : k = e.1
      · have : k ≠ k' := fun x => h1 (x.symm.trans h3)
        simp [aget, h3, this]
        intro h4; exact absurd h4.symm h1
      · simp only [aget, h3, if_false]
        exact aget_adel k k' r h'.2

theorem mem_keysOf_adel {β : Type} {k x : Str} : ∀ {m : Map β}, x ∈ keysOf (adel k m) → x ∈ keysOf m
  | [], h => by simp [adel, keysOf] at h
  | e :: r, h => by
    unfold adel at h
    by_cases h1 : k = e.1
    · rw [if_pos h1] at h
      simp only [keysOf, List.map_cons, List.mem_cons]
      right; simpa [keysOf] using h
    · rw [if_neg h1] at h
      simp only [keysOf, List.map_cons, List.mem_cons] at h ⊢
      rcases h with h | h
      · exact Or.inl h
      · right; simpa [keysOf] using mem_keysOf_adel (by simpa [keysOf] using h)

theorem sorted_adel {β : Type} (k : Str) : ∀ (m : Map β), Sorted (keysOf m) → Sorted (keysOf (adel k m))
  | [], _ => by simp [adel, keysOf, Sorted]
  | e :: r, h => by
    have h' : (∀ a' ∈ keysOf r, strLt e.1 a' = true) ∧ Sorted (keysOf r) := by
      simpa [Sorted, keysOf, List.pairwise_cons] using h
    unfold adel
    by_cases h1 : k = e.1
    · rw [if_pos h1]; exact h'.2
    · rw [if_neg h1]
      have ih := sorted_adel k r h'.2
      have : Sorted (e.1 :: keysOf (adel k r)) := by
        unfold Sorted
        rw [List.pairwise_cons]
        exact ⟨fun x hx => h'.1 x (mem_keysOf_adel hx), ih⟩
      simpa [keysOf] using this


/-! ### `vote_keys` -/

theorem mem_vkBase {vs : List Vote} {k : Str} (h : k ∈ vkBase vs) :
    k = kVoterId ∨ k = kAge ∨ k = kSex ∨ k = kVotingMethod ∨ k = kVote ∨ k = kPoints := by
  unfold vkBase at h
  simp only [List.mem_append, List.mem_cons, List.not_mem_nil, or_false, mem_optKey] at h
  rcases h with ((((h | h) | h) | h) | h) | h
  · exact Or.inl h
  · exact Or.inr (Or.inl h.2)
  · exact Or.inr (Or.inr (Or.inl h.2))
  · exact Or.inr (Or.inr (Or.inr (Or.inl h.2)))
  · exact Or.inr (Or.inr (Or.inr (Or.inr (Or.inl h.2))))
  · exact Or.inr (Or.inr (Or.inr (Or.inr (Or.inr h.2))))

theorem mem_voteKeys {vs : List Vote} {k : Str} :
    k ∈ voteKeys vs ↔ k ∈ vkBase vs ∨ ∃ v ∈ vs, k ∈ keysOf v.md := by
  unfold voteKeys
  rw [mem_foldl_addKeys (fun v : Vote => keysOf v.md)]

theorem voteKeys_head (vs : List Vote) : ∃ t, voteKeys vs = kVoterId :: t := by
  unfold voteKeys
  obtain ⟨t, ht⟩ := foldl_addKeys_prefix (fun v : Vote => keysOf v.md) vs (vkBase vs)
  rw [ht]
  unfold vkBase
  refine ⟨optKey (vs.any (fun v => (aget kAge v.md).isSome)) kAge ++
    (optKey (vs.any (fun v => (aget kSex v.md).isSome)) kSex ++
    (optKey (vs.any (fun v => (aget kVotingMethod v.md).isSome)) kVotingMethod ++
    (optKey (!vs.isEmpty) kVote ++
    (optKey (vs.any (fun v => ballotIsCard v.ballot)) kPoints ++ t)))), ?_⟩
  simp only [List.cons_append, List.nil_append, List.append_assoc]

theorem vote_mem_voteKeys {vs : List Vote} {v : Vote} (hm : v ∈ vs) : kVote ∈ voteKeys vs := by
  rw [mem_voteKeys]; left
  have : (!vs.isEmpty) = true := by
    cases vs with
    | nil => simp at hm
    | cons a t => rfl
  unfold vkBase
  simp only [List.mem_append, mem_optKey]
  left; right; exact ⟨this, trivial⟩

theorem points_mem_voteKeys {vs : List Vote} {v : Vote} (hm : v ∈ vs) (hc : ballotIsCard v.ballot = true) :
    kPoints ∈ voteKeys vs := by
  rw [mem_voteKeys]; left
  have : vs.any (fun v => ballotIsCard v.ballot) = true := List.any_eq_true.mpr ⟨v, hm, hc⟩
  unfold vkBase
  simp only [List.mem_append, mem_optKey]
  right; exact ⟨this, trivial⟩

theorem voteKeys_stripped {vs : List Vote} (hw : ∀ v ∈ vs, WFMd v.md reservedVoteKey) :
    ∀ k ∈ voteKeys vs, strip k = k := by
  intro k hk
  rcases mem_voteKeys.mp hk with h | ⟨v, hv, h⟩
  · rcases mem_vkBase h with h | h | h | h | h | h <;> subst h <;> decide
  · obtain ⟨kv, hkv, rfl⟩ := mem_keysOf_iff.mp h
    exact ((hw v hv).keys kv hkv).1

/-- what the header of a written VOTES block satisfies relative to one of its votes -/
structure GoodVHeader (K : List Str) (v : Vote) : Prop where
  stripped : ∀ k ∈ K, strip k = k
  head : ∃ t, K = kVoterId :: t
  vote : kVote ∈ K
  points : ballotIsCard v.ballot = true → kPoints ∈ K
  mdKeys : ∀ k ∈ keysOf v.md, k ∈ K

theorem goodVHeader_voteKeys {vs : List Vote} (hw : ∀ v ∈ vs, WFMd v.md reservedVoteKey) {v : Vote} (hm : v ∈ vs) :
    GoodVHeader (voteKeys vs) v where
  stripped := voteKeys_stripped hw
  head := voteKeys_head vs
  vote := vote_mem_voteKeys hm
  points := points_mem_voteKeys hm
  mdKeys := fun k hk => mem_voteKeys.mpr (Or.inr ⟨v, hm, hk⟩)

theorem goodHeader_projectKeys {ps : Map ProjData} (hw : ∀ np ∈ ps, WFProject np) {np : Str × ProjData} (hm : np ∈ ps) :
    GoodHeader (projectKeys ps) np where
  stripped := (projectKeys_facts hw).1
  cat := (projectKeys_facts hw).2.1
  tgt := (projectKeys_facts hw).2.2
  head := by obtain ⟨t, ht⟩ := projectKeys_head ps; exact ⟨_, ht⟩
  cost := cost_mem_projectKeys ps
  mdKeys := fun k hk => mem_projectKeys.mpr (Or.inr ⟨np, hm, hk⟩)
  catMem := category_mem_projectKeys hm
  tgtMem := target_mem_projectKeys hm


/-! ### one VOTES row -/

def vcell (iv : Nat × Vote) (k : Str) : Str := cellOr (voteCell iv.1 iv.2 k)

theorem vcell_vid (iv : Nat × Vote) : vcell iv kVoterId = voterId iv.1 iv.2 := by
  simp [vcell, voteCell, cellOr]

theorem vcell_vote (iv : Nat × Vote) : vcell iv kVote = joinC ',' (ballotNames iv.2.ballot) := by
  have : kVote ≠ kVoterId := by decide
  simp [vcell, voteCell, cellOr, this]

theorem vcell_points {iv : Nat × Vote} (hw : WFMd iv.2.md reservedVoteKey) :
    vcell iv kPoints = if ballotIsCard iv.2.ballot = true then joinC ',' ((ballotPoints iv.2.ballot).map showRat)
      else kNoneCell := by
  have h1 : kPoints ≠ kVoterId := by decide
  have h2 : kPoints ≠ kVote := by decide
  have hr : aget kPoints iv.2.md = none := aget_reserved_none hw (by decide)
  unfold vcell voteCell
  rw [if_neg h1, if_neg h2, if_pos rfl]
  by_cases hc : ballotIsCard iv.2.ballot = true
  · rw [if_pos hc, if_pos hc]; rfl
  · rw [if_neg hc, if_neg hc, hr]; rfl

theorem vcell_other (iv : Nat × Vote) {k : Str} (h1 : k ≠ kVoterId) (h2 : k ≠ kVote) (h3 : k ≠ kPoints) :
    vcell iv k = cellOr (aget k iv.2.md) := by
  simp [vcell, voteCell, h1, h2, h3]

theorem voterId_clean {iv : Nat × Vote} (hw : WFMd iv.2.md reservedVoteKey) :
    strip (voterId iv.1 iv.2) = voterId iv.1 iv.2 ∧ isNone (voterId iv.1 iv.2) = false := by
  unfold voterId
  cases h : aget kVoterId iv.2.md with
  | none => exact ⟨(showNat_clean _).1, (showNat_clean _).2.1⟩
  | some s => exact hw.vals _ (mem_of_aget h)

theorem cleanName_of_good {s : Str} (h : GoodName s) : CleanName s :=
  ⟨trimmed_of_strip h.stripped, h.ne, h.notNone, h.noComma⟩

/-- the dict `ballot_meta` read from a written vote row, before `vote` / `points` are popped -/
def ballotMeta (K : List Str) (iv : Nat × Vote) : Map Str :=
  K.foldl (fun m h => if isNone (vcell iv h) = true then m else ains h (strip (vcell iv h)) m) []

theorem sorted_ballotMeta (K : List Str) (iv : Nat × Vote) : Sorted (keysOf (ballotMeta K iv)) :=
  sorted_foldl_cond (fun h => isNone (vcell iv h)) (fun h => strip (vcell iv h)) K [] (by simp [keysOf, Sorted])

theorem aget_ballotMeta (K : List Str) (iv : Nat × Vote) (k : Str) :
    aget k (ballotMeta K iv) = if k ∈ K ∧ isNone (vcell iv k) = false then some (strip (vcell iv k)) else none := by
  unfold ballotMeta
  rw [aget_foldl_cond (fun h => isNone (vcell iv h)) (fun h => strip (vcell iv h))]
  rfl

theorem aget_ballotMeta_vote {K : List Str} {iv : Nat × Vote} (hK : GoodVHeader K iv.2)
    (hn : ∀ n ∈ ballotNames iv.2.ballot, CleanName n) :
    aget kVote (ballotMeta K iv) = some (joinC ',' (ballotNames iv.2.ballot)) := by
  have hc := joinC_names_clean _ hn
  rw [aget_ballotMeta, vcell_vote, if_pos ⟨hK.vote, hc.2⟩, hc.1]

theorem aget_ballotMeta_points_card {K : List Str} {iv : Nat × Vote} (hK : GoodVHeader K iv.2)
    (hw : WFMd iv.2.md reservedVoteKey) (hc : ballotIsCard iv.2.ballot = true) :
    aget kPoints (ballotMeta K iv) = some (joinC ',' ((ballotPoints iv.2.ballot).map showRat)) := by
  have hcl := joinC_nums_clean (ballotPoints iv.2.ballot)
  rw [aget_ballotMeta, vcell_points hw, if_pos hc, if_pos ⟨hK.points hc, hcl.2⟩, hcl.1]

theorem aget_ballotMeta_points_noncard {K : List Str} {iv : Nat × Vote}
    (hw : WFMd iv.2.md reservedVoteKey) (hc : ballotIsCard iv.2.ballot = false) :
    aget kPoints (ballotMeta K iv) = none := by
  rw [aget_ballotMeta, vcell_points hw]
  have : ¬ (ballotIsCard iv.2.ballot = true) := by rw [hc]; exact Bool.noConfusion
  rw [if_neg this, isNone_noneCell]
  simp

/-- lookups of ordinary keys agree with the normalised voter metadata -/
theorem aget_ballotMeta_other {K : List Str} {iv : Nat × Vote} (hK : GoodVHeader K iv.2)
    (hw : WFMd iv.2.md reservedVoteKey) {k : Str} (h2 : k ≠ kVote) (h3 : k ≠ kPoints) :
    aget k (ballotMeta K iv) = aget k (normVote iv).md := by
  rw [aget_ballotMeta]
  simp only [normVote, aget_ains]
  have hvid : kVoterId ∈ K := by obtain ⟨t, ht⟩ := hK.head; rw [ht]; simp
  by_cases e1 : k = kVoterId
  · subst e1
    rw [vcell_vid, if_pos ⟨hvid, (voterId_clean hw).2⟩, if_pos rfl, (voterId_clean hw).1]
  · rw [if_neg e1, vcell_other iv e1 h2 h3]
    cases hv : aget k iv.2.md with
    | none => simp [cellOr, isNone_noneCell]
    | some v =>
      have hval := hw.vals _ (mem_of_aget hv)
      have hk : k ∈ K := hK.mdKeys k (mem_keysOf_of_aget hv)
      have hc : cellOr (some v) = v := rfl
      rw [hc, if_pos ⟨hk, hval.2⟩, hval.1]

theorem normVote_reserved_none {iv : Nat × Vote} (hw : WFMd iv.2.md reservedVoteKey) :
    aget kVote (normVote iv).md = none ∧ aget kPoints (normVote iv).md = none := by
  have h1 : kVote ≠ kVoterId := by decide
  have h2 : kPoints ≠ kVoterId := by decide
  simp only [normVote, aget_ains, if_neg h1, if_neg h2]
  exact ⟨aget_reserved_none hw (by decide), aget_reserved_none hw (by decide)⟩

theorem sorted_normVote {iv : Nat × Vote} (hw : WFMd iv.2.md reservedVoteKey) : Sorted (keysOf (normVote iv).md) :=
  sorted_ains _ _ _ (sorted_of_sortedKeys hw.sorted)

/-- approval / ordinal: popping `vote` leaves the voter metadata -/
theorem ballotMeta_pop_vote {K : List Str} {iv : Nat × Vote} (hK : GoodVHeader K iv.2)
    (hw : WFMd iv.2.md reservedVoteKey) (hc : ballotIsCard iv.2.ballot = false) :
    adel kVote (ballotMeta K iv) = (normVote iv).md := by
  apply map_ext (sorted_adel _ _ (sorted_ballotMeta K iv)) (sorted_normVote hw)
  intro k
  rw [aget_adel _ _ _ (sorted_ballotMeta K iv)]
  by_cases e2 : k = kVote
  · rw [if_pos e2, e2, (normVote_reserved_none hw).1]
  · rw [if_neg e2]
    by_cases e3 : k = kPoints
    · rw [e3, aget_ballotMeta_points_noncard hw hc, (normVote_reserved_none hw).2]
    · exact aget_ballotMeta_other hK hw e2 e3

/-- scoring / cumulative: popping `vote` and `points` leaves the voter metadata -/
theorem ballotMeta_pop_both {K : List Str} {iv : Nat × Vote} (hK : GoodVHeader K iv.2)
    (hw : WFMd iv.2.md reservedVoteKey) :
    adel kPoints (adel kVote (ballotMeta K iv)) = (normVote iv).md := by
  have s1 := sorted_adel kVote _ (sorted_ballotMeta K iv)
  apply map_ext (sorted_adel _ _ s1) (sorted_normVote hw)
  intro k
  rw [aget_adel _ _ _ s1, aget_adel _ _ _ (sorted_ballotMeta K iv)]
  by_cases e3 : k = kPoints
  · rw [if_pos e3, e3, (normVote_reserved_none hw).2]
  · rw [if_neg e3]
    by_cases e2 : k = kVote
    · rw [if_pos e2, e2, (normVote_reserved_none hw).1]
    · rw [if_neg e2]; exact aget_ballotMeta_other hK hw e2 e3


theorem checkNames_ok (ps : Map ProjData) : ∀ (l : List Str), (∀ n ∈ l, (aget n ps).isSome = true) →
    checkNames ps l = .ok l
  | [], _ => rfl
  | n :: ns, h => by
    obtain ⟨d, hd⟩ := Option.isSome_iff_exists.mp (h n (by simp))
    unfold checkNames
    rw [hd]
    simp only
    rw [checkNames_ok ps ns (fun x hx => h x (List.mem_cons_of_mem _ hx))]

theorem decodeCard_ok (ps : Map ProjData) : ∀ (m : List (Str × Rat)), (∀ n ∈ keysOf m, (aget n ps).isSome = true) →
    decodeCard ps (keysOf m) ((m.map Prod.snd).map showRat) = .ok m
  | [], _ => rfl
  | e :: r, h => by
    obtain ⟨d, hd⟩ := Option.isSome_iff_exists.mp (h e.1 (by simp [keysOf]))
    have ih := decodeCard_ok ps r (fun x hx => h x (by simp only [keysOf, List.map_cons, List.mem_cons]; right; simpa [keysOf] using hx))
    simp only [keysOf, List.map_cons] at ih ⊢
    unfold decodeCard
    rw [(showRat_clean e.2).1, readRat_showRat]
    simp only
    rw [hd]
    simp only
    rw [ih]

theorem showRat_noComma (q : Rat) : ',' ∉ showRat q := (not_mem_of_numStr (showRat_numChar q)).1

/-- the points cell splits back into the printed numbers (when there is at least one) -/
theorem split_points (l : List Rat) (hne : l ≠ []) :
    splitOnC ',' (joinC ',' (l.map showRat)) = l.map showRat := by
  apply splitOnC_joinC
  · simpa using hne
  · intro s hs
    obtain ⟨q, _, rfl⟩ := List.mem_map.mp hs
    exact showRat_noComma q

theorem vtName_cases (vt : VoteType) :
    (vt = .approval ∧ vt.name = s!!"approval") ∨ (vt = .cumulative ∧ vt.name = s!!"cumulative") ∨
    (vt = .scoring ∧ vt.name = s!!"scoring") ∨ (vt = .ordinal ∧ vt.name = s!!"ordinal") := by
  cases vt <;> simp [VoteType.name]

/-- **one vote row**: parsing the row the writer makes for a ballot yields that ballot with its metadata
    (plus the `voter_id` the writer filled in) -/
theorem parseVoteRow_voteRow {K : List Str} {iv : Nat × Vote} {vt : VoteType} {md : Map Str} {ps ps' : Map ProjData}
    (hK : GoodVHeader K iv.2) (hw : WFVote vt ps iv) (hvt : aget kVoteType md = some vt.name)
    (hps : ∀ n, (aget n ps).isSome = true → (aget n ps').isSome = true ∧ CleanName n) :
    parseVoteRow K (voteRow K iv) md ps' = .ok (normVote iv) := by
  have hrow : voteRow K iv = K.map (vcell iv) := rfl
  have hbm : voteRowMeta K (K.map (vcell iv)) [] = .ok (ballotMeta K iv) := voteRowMeta_map (vcell iv) K [] hK.stripped
  unfold parseVoteRow
  rw [hrow, hbm]
  simp only [hvt]
  have hb := hw.ballot
  cases hbal : iv.2.ballot with
  | app s =>
    rw [hbal] at hb
    obtain ⟨hty, hsorted, hmem⟩ := hb
    have hnames : ballotNames iv.2.ballot = s := by rw [hbal]; rfl
    have hcl : ∀ n ∈ ballotNames iv.2.ballot, CleanName n := by
      rw [hnames]; exact fun n hn => (hps n (hmem n hn)).2
    have hcard : ballotIsCard iv.2.ballot = false := by rw [hbal]; rfl
    subst hty
    have e1 : VoteType.approval.name = s!!"approval" := rfl
    rw [e1, if_pos rfl, aget_ballotMeta_vote hK hcl, hnames]
    simp only
    rw [splitList_joinC s (fun n hn => (hps n (hmem n hn)).2.ne) (fun n hn => (hps n (hmem n hn)).2.noComma)]
    rw [checkNames_ok ps' s (fun n hn => (hps n (hmem n hn)).1)]
    simp only
    rw [setOf_sorted s (sorted_of_sortedKeys hsorted), ballotMeta_pop_vote hK hw.md hcard]
    simp [normVote, hbal]
  | ord l =>
    rw [hbal] at hb
    obtain ⟨hty, hnd, hmem⟩ := hb
    have hnames : ballotNames iv.2.ballot = l := by rw [hbal]; rfl
    have hcl : ∀ n ∈ ballotNames iv.2.ballot, CleanName n := by
      rw [hnames]; exact fun n hn => (hps n (hmem n hn)).2
    have hcard : ballotIsCard iv.2.ballot = false := by rw [hbal]; rfl
    subst hty
    have e1 : VoteType.ordinal.name = s!!"ordinal" := rfl
    have n1 : ¬ (s!!"ordinal" = s!!"approval") := by decide
    have n2 : ¬ (s!!"ordinal" = s!!"scoring" ∨ s!!"ordinal" = s!!"cumulative") := by decide
    rw [e1, if_neg n1, if_neg n2, if_pos rfl, aget_ballotMeta_vote hK hcl, hnames]
    simp only
    rw [splitList_joinC l (fun n hn => (hps n (hmem n hn)).2.ne) (fun n hn => (hps n (hmem n hn)).2.noComma)]
    rw [checkNames_ok ps' l (fun n hn => (hps n (hmem n hn)).1)]
    simp only
    rw [orderedOf_nodup l hnd, ballotMeta_pop_vote hK hw.md hcard]
    simp [normVote, hbal]
  | card m =>
    rw [hbal] at hb
    obtain ⟨hty, hsorted, hmem⟩ := hb
    have hnames : ballotNames iv.2.ballot = keysOf m := by rw [hbal]; rfl
    have hpts : ballotPoints iv.2.ballot = m.map Prod.snd := by rw [hbal]; rfl
    have hcl : ∀ n ∈ ballotNames iv.2.ballot, CleanName n := by
      rw [hnames]; exact fun n hn => (hps n (hmem n hn)).2
    have hcard : ballotIsCard iv.2.ballot = true := by rw [hbal]; rfl
    have n1 : ¬ (vt.name = s!!"approval") := by
      rcases hty with h | h <;> subst h <;> decide
    have p2 : vt.name = s!!"scoring" ∨ vt.name = s!!"cumulative" := by
      rcases hty with h | h <;> subst h
      · left; rfl
      · right; rfl
    rw [if_neg n1, if_pos p2, aget_ballotMeta_points_card hK hw.md hcard, aget_ballotMeta_vote hK hcl, hnames, hpts]
    simp only
    rw [splitList_joinC (keysOf m) (fun n hn => (hps n (hmem n hn)).2.ne) (fun n hn => (hps n (hmem n hn)).2.noComma)]
    have hdec : decodeCard ps' (keysOf m) (splitOnC ',' (joinC ',' ((m.map Prod.snd).map showRat))) = .ok m := by
      by_cases hm : m = []
      · subst hm; rfl
      · rw [split_points (m.map Prod.snd) (by simpa using hm)]
        exact decodeCard_ok ps' m (fun n hn => (hps n (hmem n hn)).1)
    rw [hdec]
    simp only
    rw [mapOfPairs_sorted m (sorted_of_sortedKeys hsorted), ballotMeta_pop_both hK hw.md]
    simp [normVote, hbal]


/-! ## the row loop -/

/-- data rows processed one after the other in the current section -/
def steps : St → List (List Str) → Except PErr St
  | st, [] => .ok st
  | st, r :: rs =>
    match step st r with
    | .error e => .error e
    | .ok st' => steps st' rs

/-- neither blank nor a section line -/
def DataRow (r : List Str) : Prop := isBlank r = false ∧ sectionOf (headD r) = 0

theorem run_cons (st : St) (row : List Str) (rest : List (List Str)) :
    run st (row :: rest) =
      if isBlank row then run st rest
      else if sectionOf (headD row) ≠ 0 then
        match rest with
        | [] => .error .stop
        | h :: rest' => run { st with sec := sectionOf (headD row), header := h } rest'
      else
        match step st row with
        | .error e => .error e
        | .ok st' => run st' rest := by
  conv_lhs => rw [run.eq_def]
  rfl

theorem run_data : ∀ (rows : List (List Str)) (st : St) (rest : List (List Str)), (∀ r ∈ rows, DataRow r) →
    run st (rows ++ rest) = match steps st rows with
      | .error e => .error e
      | .ok st' => run st' rest
  | [], st, rest, _ => by simp [steps]
  | r :: rs, st, rest, h => by
    have hr := h r (by simp)
    simp only [List.cons_append]
    rw [run_cons, steps]
    have hb : ¬ (isBlank r = true) := by rw [hr.1]; exact Bool.noConfusion
    have hs : ¬ (sectionOf (headD r) ≠ 0) := by rw [hr.2]; simp
    rw [if_neg hb, if_neg hs]
    cases hst : step st r with
    | error e => rfl
    | ok st' =>
      simp only
      exact run_data rs st' rest (fun x hx => h x (List.mem_cons_of_mem _ hx))

theorem run_section (st : St) (w : Str) (h : List Str) (rest : List (List Str))
    (hb : isBlank [w] = false) (hs : sectionOf w ≠ 0) :
    run st ([w] :: h :: rest) = run { st with sec := sectionOf w, header := h } rest := by
  rw [run_cons]
  have hb' : ¬ (isBlank [w] = true) := by rw [hb]; exact Bool.noConfusion
  have hh : headD [w] = w := rfl
  rw [if_neg hb', hh, if_pos hs]

/-! ## META -/

theorem steps_meta : ∀ (pairs : List (Str × Str)) (st : St), st.sec = 1 →
    (∀ kv ∈ pairs, strip kv.1 = kv.1 ∧ strip kv.2 = kv.2) →
    steps st (pairs.map (fun kv => [kv.1, kv.2])) =
      .ok { st with md := pairs.foldl (fun m kv => ains kv.1 kv.2 m) st.md }
  | [], st, _, _ => rfl
  | kv :: t, st, hsec, h => by
    have hk := h kv (by simp)
    simp only [List.map_cons, List.foldl_cons]
    unfold steps step
    rw [if_pos hsec]
    simp only [hk.1, hk.2]
    exact steps_meta t _ hsec (fun x hx => h x (List.mem_cons_of_mem _ hx))

/-- value of the last pair with key `k` -/
def lastVal {β : Type} (k : Str) : List (Str × β) → Option β
  | [] => none
  | p :: ps =>
    match lastVal k ps with
    | some v => some v
    | none => if k = p.1 then some p.2 else none

theorem aget_foldl_ains {β : Type} (k : Str) : ∀ (l : List (Str × β)) (m : Map β),
    aget k (l.foldl (fun a e => ains e.1 e.2 a) m) = match lastVal k l with
      | some v => some v
      | none => aget k m
  | [], m => rfl
  | p :: ps, m => by
    simp only [List.foldl_cons]
    rw [aget_foldl_ains k ps, lastVal]
    cases lastVal k ps with
    | some v => rfl
    | none =>
      simp only [aget_ains]
      by_cases h : k = p.1 <;> simp [h]

theorem lastVal_append {β : Type} (k : Str) : ∀ (a b : List (Str × β)),
    lastVal k (a ++ b) = match lastVal k b with
      | some v => some v
      | none => lastVal k a
  | [], b => by simp [lastVal]; cases lastVal k b <;> rfl
  | p :: ps, b => by
    simp only [List.cons_append, lastVal]
    rw [lastVal_append k ps b]
    cases lastVal k b <;> rfl

theorem lastVal_pairsOf (k : Str) (cell : Str → Option Str) : ∀ (keys : List Str),
    lastVal k (pairsOf keys cell) = if k ∈ keys then cell k else none
  | [] => by simp [pairsOf, lastVal]
  | x :: t => by
    have ih := lastVal_pairsOf k cell t
    unfold pairsOf at ih ⊢
    simp only [List.filterMap_cons]
    cases hx : cell x with
    | none =>
      simp only [Option.map_none]
      rw [ih]
      by_cases hk : k = x
      · subst hk; by_cases ht : k ∈ t <;> simp [ht, hx]
      · simp [hk]
    | some v =>
      simp only [Option.map_some, lastVal]
      rw [ih]
      by_cases ht : k ∈ t
      · rw [if_pos ht]
        cases hc : cell k with
        | some w => simp [ht]
        | none =>
          have : k ≠ x := fun e => by rw [e, hx] at hc; cases hc
          simp [ht, this]
      · rw [if_neg ht]
        by_cases hk : k = x
        · subst hk; simp [hx]
        · simp [hk, ht]

theorem lastVal_none_of_not_mem {β : Type} (k : Str) : ∀ (l : List (Str × β)), k ∉ keysOf l → lastVal k l = none
  | [], _ => rfl
  | p :: ps, h => by
    simp only [keysOf, List.map_cons, List.mem_cons, not_or] at h
    rw [lastVal, lastVal_none_of_not_mem k ps (by simpa [keysOf] using h.2)]
    simp [h.1]

theorem lastVal_eq_aget {β : Type} (k : Str) : ∀ (m : Map β), (keysOf m).Nodup → lastVal k m = aget k m
  | [], _ => rfl
  | p :: ps, h => by
    have h' : p.1 ∉ keysOf ps ∧ (keysOf ps).Nodup := by simpa [keysOf] using h
    rw [lastVal, aget]
    by_cases hk : k = p.1
    · rw [if_pos hk, lastVal_none_of_not_mem k ps (hk ▸ h'.1)]
      simp [hk]
    · rw [if_neg hk, lastVal_eq_aget k ps h'.2]
      cases aget k ps <;> simp [hk]

theorem lastVal_filter {β : Type} (k : Str) (p : Str → Bool) : ∀ (l : List (Str × β)),
    lastVal k (l.filter (fun kv => p kv.1)) = if p k = true then lastVal k l else none
  | [] => by simp [lastVal]
  | e :: r => by
    have ih := lastVal_filter k p r
    by_cases he : p e.1 = true
    · rw [List.filter_cons_of_pos (by simpa using he), lastVal, lastVal, ih]
      by_cases hp : p k = true
      · simp [hp]
      · have : k ≠ e.1 := fun x => hp (x ▸ he)
        simp [hp, this]
    · rw [List.filter_cons_of_neg (by simpa using he), ih, lastVal]
      by_cases hp : p k = true
      · have : k ≠ e.1 := fun x => he (x ▸ hp)
        rw [if_pos hp, if_pos hp]
        cases lastVal k r <;> simp [this]
      · simp [hp]

theorem keys_pairsOf (cell : Str → Option Str) : ∀ (keys : List Str),
    (pairsOf keys cell).map Prod.fst = keys.filter (fun k => (cell k).isSome)
  | [] => rfl
  | x :: t => by
    have ih := keys_pairsOf cell t
    unfold pairsOf at ih ⊢
    simp only [List.filterMap_cons]
    cases hx : cell x with
    | none => simp [hx, ih]
    | some v => simp [hx, ih]


/-! ### lookups in the written META block -/

/-- the `instance.meta` dict of the parsed election -/
def metaOf (e : Election) : Map Str := mapOfPairs (writeMetaPairs e)

theorem emitted_iff (e : Election) (k : Str) :
    emitted e k = true ↔ k ∈ metaHead ++ metaTail e.vtype ∧ (metaCell e k).isSome = true := by
  unfold emitted
  simp only [Bool.and_eq_true, List.contains_iff_mem]

theorem fixedContains_eq (e : Election) (k : Str) :
    ((metaFixed e).map Prod.fst).contains k = emitted e k := by
  unfold metaFixed
  rw [keys_pairsOf, Bool.eq_iff_iff, emitted_iff, List.contains_iff_mem, List.mem_filter]

theorem aget_metaOf {e : Election} (hs : sortedKeys (keysOf e.md) = true) (k : Str) :
    aget k (metaOf e) = if emitted e k = true then metaCell e k else aget k e.md := by
  unfold metaOf mapOfPairs writeMetaPairs
  rw [aget_foldl_ains, lastVal_append]
  rw [lastVal_filter k (fun x => !((metaFixed e).map Prod.fst).contains x) e.md]
  rw [fixedContains_eq, lastVal_eq_aget k e.md (sorted_of_sortedKeys hs).nodup]
  have hB : lastVal k (metaFixed e) = if k ∈ metaHead ++ metaTail e.vtype then metaCell e k else none := by
    unfold metaFixed; exact lastVal_pairsOf k _ _
  rw [hB]
  by_cases hem : emitted e k = true
  · obtain ⟨h1, h2⟩ := (emitted_iff e k).mp hem
    obtain ⟨v, hv⟩ := Option.isSome_iff_exists.mp h2
    simp [hem, h1, hv]
  · have hem' : emitted e k = false := by simpa using hem
    rw [if_neg hem]
    simp only [hem', Bool.not_false, if_true]
    cases hg : aget k e.md with
    | some w => rfl
    | none =>
      simp only [aget]
      by_cases h1 : k ∈ metaHead ++ metaTail e.vtype
      · rw [if_pos h1]
        cases hc : metaCell e k with
        | none => rfl
        | some v =>
          exfalso
          apply hem
          exact (emitted_iff e k).mpr ⟨h1, by rw [hc]; rfl⟩
      · rw [if_neg h1]

theorem fixedKeys_clean (vt : VoteType) : ∀ k ∈ metaHead ++ metaTail vt, strip k = k ∧ sectionOf k = 0 := by
  cases vt <;> decide

theorem autoFilled_clean : ∀ k ∈ mandatoryKeys, strip (kAutoFilled ++ k) = kAutoFilled ++ k := by decide

theorem vtName_clean (vt : VoteType) : strip vt.name = vt.name := by cases vt <;> decide

theorem metaCell_clean {e : Election} (hw : WF e) {k v : Str} (h : metaCell e k = some v) : strip v = v := by
  unfold metaCell at h
  by_cases h0 : k = kNumProjects
  · rw [if_pos h0] at h; cases h; exact (showNat_clean _).1
  rw [if_neg h0] at h
  by_cases h1 : k = kNumVotes
  · rw [if_pos h1] at h; cases h; exact (showNat_clean _).1
  rw [if_neg h1] at h
  by_cases h2 : k = kBudget
  · rw [if_pos h2] at h; cases h; exact (showRat_clean _).1
  rw [if_neg h2] at h
  by_cases h3 : k = kVoteType
  · rw [if_pos h3] at h; cases h; exact vtName_clean _
  rw [if_neg h3] at h
  by_cases h4 : k = kMinLength
  · rw [if_pos h4] at h; obtain ⟨i, _, rfl⟩ := Option.map_eq_some_iff.mp h; exact (showInt_clean _).1
  rw [if_neg h4] at h
  by_cases h5 : k = kMaxLength
  · rw [if_pos h5] at h; obtain ⟨i, _, rfl⟩ := Option.map_eq_some_iff.mp h; exact (showInt_clean _).1
  rw [if_neg h5] at h
  by_cases h6 : k = kMinSumCost
  · rw [if_pos h6] at h; obtain ⟨i, _, rfl⟩ := Option.map_eq_some_iff.mp h; exact (showRat_clean _).1
  rw [if_neg h6] at h
  by_cases h7 : k = kMaxSumCost
  · rw [if_pos h7] at h; obtain ⟨i, _, rfl⟩ := Option.map_eq_some_iff.mp h; exact (showRat_clean _).1
  rw [if_neg h7] at h
  by_cases h8 : k = kMinPoints
  · rw [if_pos h8] at h; obtain ⟨i, _, rfl⟩ := Option.map_eq_some_iff.mp h; exact (showRat_clean _).1
  rw [if_neg h8] at h
  by_cases h9 : k = kMaxPoints
  · rw [if_pos h9] at h; obtain ⟨i, _, rfl⟩ := Option.map_eq_some_iff.mp h; exact (showRat_clean _).1
  rw [if_neg h9] at h
  by_cases h10 : k = kMinSumPoints
  · rw [if_pos h10] at h; obtain ⟨i, _, rfl⟩ := Option.map_eq_some_iff.mp h; exact (showRat_clean _).1
  rw [if_neg h10] at h
  by_cases h11 : k = kMaxSumPoints
  · rw [if_pos h11] at h; obtain ⟨i, _, rfl⟩ := Option.map_eq_some_iff.mp h; exact (showRat_clean _).1
  rw [if_neg h11] at h
  cases hg : aget k e.md with
  | some w =>
    rw [hg] at h; cases h
    exact (hw.md.vals _ (mem_of_aget hg)).1
  | none =>
    rw [hg] at h
    simp only at h
    by_cases hm : k ∈ mandatoryKeys
    · rw [if_pos hm] at h; cases h
      exact autoFilled_clean k hm
    · rw [if_neg hm] at h; cases h

/-- every pair of the written META block is stripped and its key is not a section word -/
theorem writeMetaPairs_clean {e : Election} (hw : WF e) :
    ∀ kv ∈ writeMetaPairs e, (strip kv.1 = kv.1 ∧ strip kv.2 = kv.2) ∧ sectionOf kv.1 = 0 := by
  intro kv hkv
  unfold writeMetaPairs at hkv
  rcases List.mem_append.mp hkv with h | h
  · unfold metaFixed pairsOf at h
    obtain ⟨k, hk, hm⟩ := List.mem_filterMap.mp h
    obtain ⟨v, hv, rfl⟩ := Option.map_eq_some_iff.mp hm
    exact ⟨⟨(fixedKeys_clean _ k hk).1, metaCell_clean hw hv⟩, (fixedKeys_clean _ k hk).2⟩
  · have hm := (List.mem_filter.mp h).1
    exact ⟨⟨(hw.md.keys kv hm).1, (hw.md.vals kv hm).1⟩, hw.mdNotSection kv hm⟩


/-! ### the writer's value for each derived key -/

theorem metaCell_kNumProjects (e : Election) : metaCell e kNumProjects = some (showNat e.projects.length) := by
  unfold metaCell
  rw [if_pos rfl]

theorem metaCell_kNumVotes (e : Election) : metaCell e kNumVotes = some (showNat e.votes.length) := by
  unfold metaCell
  rw [if_neg (by decide), if_pos rfl]

theorem metaCell_kBudget (e : Election) : metaCell e kBudget = some (showRat e.budget) := by
  unfold metaCell
  rw [if_neg (by decide), if_neg (by decide), if_pos rfl]

theorem metaCell_kVoteType (e : Election) : metaCell e kVoteType = some e.vtype.name := by
  unfold metaCell
  rw [if_neg (by decide), if_neg (by decide), if_neg (by decide), if_pos rfl]

theorem metaCell_kMinLength (e : Election) : metaCell e kMinLength = e.limits.minLen.map showInt := by
  unfold metaCell
  rw [if_neg (by decide), if_neg (by decide), if_neg (by decide), if_neg (by decide), if_pos rfl]

theorem metaCell_kMaxLength (e : Election) : metaCell e kMaxLength = e.limits.maxLen.map showInt := by
  unfold metaCell
  rw [if_neg (by decide), if_neg (by decide), if_neg (by decide), if_neg (by decide), if_neg (by decide), if_pos rfl]

theorem metaCell_kMinSumCost (e : Election) : metaCell e kMinSumCost = e.limits.minCost.map showRat := by
  unfold metaCell
  rw [if_neg (by decide), if_neg (by decide), if_neg (by decide), if_neg (by decide), if_neg (by decide), if_neg (by decide), if_pos rfl]

theorem metaCell_kMaxSumCost (e : Election) : metaCell e kMaxSumCost = e.limits.maxCost.map showRat := by
  unfold metaCell
  rw [if_neg (by decide), if_neg (by decide), if_neg (by decide), if_neg (by decide), if_neg (by decide), if_neg (by decide), if_neg (by decide), if_pos rfl]

theorem metaCell_kMinPoints (e : Election) : metaCell e kMinPoints = e.limits.minScore.map showRat := by
  unfold metaCell
  rw [if_neg (by decide), if_neg (by decide), if_neg (by decide), if_neg (by decide), if_neg (by decide), if_neg (by decide), if_neg (by decide), if_neg (by decide), if_pos rfl]

theorem metaCell_kMaxPoints (e : Election) : metaCell e kMaxPoints = e.limits.maxScore.map showRat := by
  unfold metaCell
  rw [if_neg (by decide), if_neg (by decide), if_neg (by decide), if_neg (by decide), if_neg (by decide), if_neg (by decide), if_neg (by decide), if_neg (by decide), if_neg (by decide), if_pos rfl]

theorem metaCell_kMinSumPoints (e : Election) : metaCell e kMinSumPoints = e.limits.minTotal.map showRat := by
  unfold metaCell
  rw [if_neg (by decide), if_neg (by decide), if_neg (by decide), if_neg (by decide), if_neg (by decide), if_neg (by decide), if_neg (by decide), if_neg (by decide), if_neg (by decide), if_neg (by decide), if_pos rfl]

theorem metaCell_kMaxSumPoints (e : Election) : metaCell e kMaxSumPoints = e.limits.maxTotal.map showRat := by
  unfold metaCell
  rw [if_neg (by decide), if_neg (by decide), if_neg (by decide), if_neg (by decide), if_neg (by decide), if_neg (by decide), if_neg (by decide), if_neg (by decide), if_neg (by decide), if_neg (by decide), if_neg (by decide), if_pos rfl]

theorem rel_minCost (vt : VoteType) (l : Limits) (h : irrelevantNone vt l = true)
    (hc : (metaHead ++ metaTail vt).contains kMinSumCost = false) : l.minCost = none := by
  cases vt
  all_goals first
    | (exfalso; revert hc; decide)
    | (simp only [irrelevantNone, Bool.and_eq_true, Option.isNone_iff_eq_none] at h; simp only [h])

theorem rel_maxCost (vt : VoteType) (l : Limits) (h : irrelevantNone vt l = true)
    (hc : (metaHead ++ metaTail vt).contains kMaxSumCost = false) : l.maxCost = none := by
  cases vt
  all_goals first
    | (exfalso; revert hc; decide)
    | (simp only [irrelevantNone, Bool.and_eq_true, Option.isNone_iff_eq_none] at h; simp only [h])

theorem rel_minScore (vt : VoteType) (l : Limits) (h : irrelevantNone vt l = true)
    (hc : (metaHead ++ metaTail vt).contains kMinPoints = false) : l.minScore = none := by
  cases vt
  all_goals first
    | (exfalso; revert hc; decide)
    | (simp only [irrelevantNone, Bool.and_eq_true, Option.isNone_iff_eq_none] at h; simp only [h])

theorem rel_maxScore (vt : VoteType) (l : Limits) (h : irrelevantNone vt l = true)
    (hc : (metaHead ++ metaTail vt).contains kMaxPoints = false) : l.maxScore = none := by
  cases vt
  all_goals first
    | (exfalso; revert hc; decide)
    | (simp only [irrelevantNone, Bool.and_eq_true, Option.isNone_iff_eq_none] at h; simp only [h])

theorem rel_minTotal (vt : VoteType) (l : Limits) (h : irrelevantNone vt l = true)
    (hc : (metaHead ++ metaTail vt).contains kMinSumPoints = false) : l.minTotal = none := by
  cases vt
  all_goals first
    | (exfalso; revert hc; decide)
    | (simp only [irrelevantNone, Bool.and_eq_true, Option.isNone_iff_eq_none] at h; simp only [h])

theorem rel_maxTotal (vt : VoteType) (l : Limits) (h : irrelevantNone vt l = true)
    (hc : (metaHead ++ metaTail vt).contains kMaxSumPoints = false) : l.maxTotal = none := by
  cases vt
  all_goals first
    | (exfalso; revert hc; decide)
    | (simp only [irrelevantNone, Bool.and_eq_true, Option.isNone_iff_eq_none] at h; simp only [h])

theorem len_in_head (vt : VoteType) : (metaHead ++ metaTail vt).contains kMinLength = true ∧
    (metaHead ++ metaTail vt).contains kMaxLength = true := by cases vt <;> decide

theorem limitKeys_mem : kMinLength ∈ limitKeys ∧ kMaxLength ∈ limitKeys ∧ kMinSumCost ∈ limitKeys ∧ kMaxSumCost ∈ limitKeys ∧
    kMinPoints ∈ limitKeys ∧ kMaxPoints ∈ limitKeys ∧ kMinSumPoints ∈ limitKeys ∧ kMaxSumPoints ∈ limitKeys := by decide

theorem optRat_limit {e : Election} (hw : WF e) {k : Str} (hk : k ∈ limitKeys) (x : Option Rat)
    (hcell : metaCell e k = x.map showRat)
    (hrel : (metaHead ++ metaTail e.vtype).contains k = false → x = none) : optRat (metaOf e) k = .ok x := by
  unfold optRat
  rw [aget_metaOf hw.md.sorted]
  cases x with
  | none =>
    have hem : emitted e k = false := by unfold emitted; rw [hcell]; simp
    have : ¬ (emitted e k = true) := by rw [hem]; exact Bool.noConfusion
    rw [if_neg this, hw.limitKeysFree k hk hem]
  | some q =>
    have hc : (metaHead ++ metaTail e.vtype).contains k = true := by
      by_contra hne
      have := hrel (by simpa using hne)
      cases this
    have hem : emitted e k = true := by unfold emitted; rw [hcell, hc]; rfl
    rw [if_pos hem, hcell]
    simp only [Option.map_some, readRat_showRat]

theorem optInt_limit {e : Election} (hw : WF e) {k : Str} (hk : k ∈ limitKeys) (x : Option Int)
    (hcell : metaCell e k = x.map showInt)
    (hc : (metaHead ++ metaTail e.vtype).contains k = true) : optInt (metaOf e) k = .ok x := by
  unfold optInt
  rw [aget_metaOf hw.md.sorted]
  cases x with
  | none =>
    have hem : emitted e k = false := by unfold emitted; rw [hcell]; simp
    have : ¬ (emitted e k = true) := by rw [hem]; exact Bool.noConfusion
    rw [if_neg this, hw.limitKeysFree k hk hem]
  | some q =>
    have hem : emitted e k = true := by unfold emitted; rw [hcell, hc]; rfl
    rw [if_pos hem, hcell]
    simp only [Option.map_some, readPyInt_showInt]

theorem readLimits_metaOf {e : Election} (hw : WF e) : readLimits (metaOf e) = .ok e.limits := by
  have m := limitKeys_mem
  unfold readLimits
  rw [optInt_limit hw m.1 _ (metaCell_kMinLength e) (len_in_head _).1]
  simp only
  rw [optInt_limit hw m.2.1 _ (metaCell_kMaxLength e) (len_in_head _).2]
  simp only
  rw [optRat_limit hw m.2.2.1 _ (metaCell_kMinSumCost e) (rel_minCost _ _ hw.limitsRelevant)]
  simp only
  rw [optRat_limit hw m.2.2.2.1 _ (metaCell_kMaxSumCost e) (rel_maxCost _ _ hw.limitsRelevant)]
  simp only
  rw [optRat_limit hw m.2.2.2.2.2.2.1 _ (metaCell_kMinSumPoints e) (rel_minTotal _ _ hw.limitsRelevant)]
  simp only
  rw [optRat_limit hw m.2.2.2.2.2.2.2 _ (metaCell_kMaxSumPoints e) (rel_maxTotal _ _ hw.limitsRelevant)]
  simp only
  rw [optRat_limit hw m.2.2.2.2.1 _ (metaCell_kMinPoints e) (rel_minScore _ _ hw.limitsRelevant)]
  simp only
  rw [optRat_limit hw m.2.2.2.2.2.1 _ (metaCell_kMaxPoints e) (rel_maxScore _ _ hw.limitsRelevant)]

theorem budget_in_head (vt : VoteType) : (metaHead ++ metaTail vt).contains kBudget = true ∧
    (metaHead ++ metaTail vt).contains kVoteType = true := by cases vt <;> decide

theorem emitted_budget (e : Election) : emitted e kBudget = true := by
  unfold emitted
  rw [metaCell_kBudget, (budget_in_head _).1]; rfl

theorem emitted_voteType (e : Election) : emitted e kVoteType = true := by
  unfold emitted
  rw [metaCell_kVoteType, (budget_in_head _).2]; rfl

theorem ofName_name (vt : VoteType) : VoteType.ofName? vt.name = some vt := by cases vt <;> decide


/-! ## after the loop -/

theorem finish_written {e : Election} (hw : WF e) (st : St) (hmd : st.md = metaOf e)
    (hp : st.projects = e.projects.map normProj)
    (hv : st.votesRev = ((enumFrom 0 e.votes).map normVote).reverse) :
    finish st = .ok (norm e) := by
  unfold finish
  rw [hmd, aget_metaOf hw.md.sorted, if_pos (emitted_budget e), metaCell_kBudget]
  simp only [readRat_budget, readLimits_metaOf hw]
  rw [aget_metaOf hw.md.sorted, if_pos (emitted_voteType e), metaCell_kVoteType]
  simp only [ofName_name]
  rw [hp, hv]
  simp only [List.reverse_reverse, List.length_map]
  rfl

/-! ## the PROJECTS block -/

theorem keysOf_map_normProj (ps : Map ProjData) : keysOf (ps.map normProj) = keysOf ps := by
  simp [keysOf, normProj, Function.comp_def]

theorem aget_map_normProj_isSome (n : Str) : ∀ (ps : Map ProjData),
    (aget n ps).isSome = true → (aget n (ps.map normProj)).isSome = true
  | [], h => by simp [aget] at h
  | e :: r, h => by
    simp only [List.map_cons, aget, normProj] at h ⊢
    by_cases hn : n = e.1
    · simp [hn]
    · simp only [hn, if_false] at h ⊢
      exact aget_map_normProj_isSome n r h

theorem step_sec2 (st : St) (row : List Str) (h : st.sec = 2) :
    step st row = match parseProjectRow st.header row st.projects with
      | .error e => .error e
      | .ok ps => .ok { st with projects := ps } := by
  unfold step
  have h1 : ¬ st.sec = 1 := by omega
  rw [if_neg h1, if_pos h]
  rfl

theorem step_sec3 (st : St) (row : List Str) (h : st.sec = 3) :
    step st row = match parseVoteRow st.header row st.md st.projects with
      | .error e => .error e
      | .ok v => .ok { st with votesRev := v :: st.votesRev } := by
  unfold step
  have h1 : ¬ st.sec = 1 := by omega
  have h2 : ¬ st.sec = 2 := by omega
  rw [if_neg h1, if_neg h2, if_pos h]
  rfl

theorem steps_projects (K : List Str) : ∀ (rest done : Map ProjData) (st : St), st.sec = 2 → st.header = K →
    st.projects = done.map normProj → Sorted (keysOf (done ++ rest)) →
    (∀ np ∈ rest, WFProject np ∧ GoodHeader K np) →
    steps st (rest.map (projectRow K)) = .ok { st with projects := (done ++ rest).map normProj }
  | [], done, st, _, _, hp, _, _ => by
    simp only [List.map_nil, List.append_nil, steps]
    rw [← hp]
  | np :: r, done, st, hsec, hhd, hp, hs, hw => by
    have hnp := hw np (by simp)
    have hs1 : Sorted (keysOf done ++ [np.1]) := by
      have : keysOf (done ++ np :: r) = (keysOf done ++ [np.1]) ++ keysOf r := by simp [keysOf]
      rw [this] at hs
      exact (List.pairwise_append.mp hs).1
    have hlt := sorted_append_singleton hs1
    have hfresh : aget np.1 (done.map normProj) = none := by
      apply aget_none_of_not_mem
      rw [keysOf_map_normProj]
      intro hm
      have := hlt _ hm
      rw [strLt_irrefl] at this
      exact Bool.noConfusion this
    have hins : ains np.1 (normProj np).2 (done.map normProj) = (done ++ [np]).map normProj := by
      rw [ains_append_last _ _ _ (by rw [keysOf_map_normProj]; exact hlt)]
      simp [normProj]
    have hstep : step st (projectRow K np) = .ok { st with projects := (done ++ [np]).map normProj } := by
      rw [step_sec2 st _ hsec, hhd, hp, parseProjectRow_projectRow _ hnp.2 hnp.1 hfresh, hins]
    have ih := steps_projects K r (done ++ [np]) { st with projects := (done ++ [np]).map normProj } hsec hhd rfl
      (by simpa using hs) (fun x hx => hw x (List.mem_cons_of_mem _ hx))
    simp only [List.map_cons]
    rw [steps, hstep]
    simp only
    rw [ih]
    simp

/-! ## the VOTES block -/

theorem steps_votes (K : List Str) (vt : VoteType) (ps : Map ProjData) :
    ∀ (rest : List (Nat × Vote)) (st : St), st.sec = 3 → st.header = K →
    aget kVoteType st.md = some vt.name →
    (∀ n, (aget n ps).isSome = true → (aget n st.projects).isSome = true ∧ CleanName n) →
    (∀ iv ∈ rest, GoodVHeader K iv.2 ∧ WFVote vt ps iv) →
    steps st (rest.map (voteRow K)) = .ok { st with votesRev := (rest.map normVote).reverse ++ st.votesRev }
  | [], st, _, _, _, _, _ => by simp [steps]
  | iv :: r, st, hsec, hhd, hvt, hps, hw => by
    have hiv := hw iv (by simp)
    have hstep : step st (voteRow K iv) = .ok { st with votesRev := normVote iv :: st.votesRev } := by
      rw [step_sec3 st _ hsec, hhd, parseVoteRow_voteRow hiv.1 hiv.2 hvt hps]
    have ih := steps_votes K vt ps r { st with votesRev := normVote iv :: st.votesRev } hsec hhd hvt hps
      (fun x hx => hw x (List.mem_cons_of_mem _ hx))
    simp only [List.map_cons]
    rw [steps, hstep]
    simp only
    rw [ih]
    simp


/-! ## composition -/

theorem enumFrom_snd {α : Type} : ∀ (l : List α) (i : Nat), (enumFrom i l).map Prod.snd = l
  | [], _ => rfl
  | x :: t, i => by simp [enumFrom, enumFrom_snd t (i + 1)]

theorem mem_enumFrom_snd {α : Type} {l : List α} {i : Nat} {iv : Nat × α} (h : iv ∈ enumFrom i l) : iv.2 ∈ l := by
  rw [← enumFrom_snd l i]
  exact List.mem_map.mpr ⟨iv, h, rfl⟩

theorem exists_enumFrom {α : Type} {l : List α} (i : Nat) {v : α} (h : v ∈ l) : ∃ iv ∈ enumFrom i l, iv.2 = v := by
  rw [← enumFrom_snd l i] at h
  obtain ⟨iv, hiv, e⟩ := List.mem_map.mp h
  exact ⟨iv, hiv, e⟩

theorem dataRow_meta {e : Election} (hw : WF e) : ∀ r ∈ writeMetaRows e, DataRow r := by
  intro r hr
  unfold writeMetaRows at hr
  obtain ⟨kv, hkv, rfl⟩ := List.mem_map.mp hr
  exact ⟨rfl, (writeMetaPairs_clean hw kv hkv).2⟩

theorem dataRow_project {ps : Map ProjData} (hw : ∀ np ∈ ps, WFProject np) :
    ∀ r ∈ writeProjectRows ps, DataRow r := by
  intro r hr
  unfold writeProjectRows at hr
  obtain ⟨np, hnp, rfl⟩ := List.mem_map.mp hr
  obtain ⟨t, ht⟩ := projectKeys_head ps
  have : projectRow (projectKeys ps) np = np.1 :: pcell np kCost :: t.map (pcell np) := by
    rw [ht]; simp [projectRow, pcell, projectCell, cellOr]
  rw [this]
  exact ⟨rfl, (hw np hnp).name.notSection⟩

theorem dataRow_vote {vs : List Vote} {vt : VoteType} {ps : Map ProjData}
    (hw : ∀ iv ∈ enumFrom 0 vs, WFVote vt ps iv) : ∀ r ∈ writeVoteRows vs, DataRow r := by
  intro r hr
  unfold writeVoteRows at hr
  obtain ⟨iv, hiv, rfl⟩ := List.mem_map.mp hr
  obtain ⟨t, ht⟩ := voteKeys_head vs
  have hv : kVote ∈ voteKeys vs := vote_mem_voteKeys (mem_enumFrom_snd hiv)
  have htne : t ≠ [] := by
    intro e
    rw [ht, e] at hv
    revert hv; decide
  obtain ⟨x, t', rfl⟩ := List.exists_cons_of_ne_nil htne
  have : voteRow (voteKeys vs) iv = voterId iv.1 iv.2 :: vcell iv x :: t'.map (vcell iv) := by
    rw [ht]; simp [voteRow, vcell, voteCell, cellOr]
  rw [this]
  exact ⟨rfl, (hw iv hiv).vid⟩

theorem cleanName_of_aget {e : Election} (hw : WF e) {n : Str} (h : (aget n e.projects).isSome = true) :
    (aget n (e.projects.map normProj)).isSome = true ∧ CleanName n := by
  refine ⟨aget_map_normProj_isSome n _ h, ?_⟩
  obtain ⟨d, hd⟩ := Option.isSome_iff_exists.mp h
  exact cleanName_of_good (hw.projects _ (mem_of_aget hd)).name

/-- **round trip at row level**: the parser reads the rows the writer makes for a well-formed election as
    that election in normal form -/
theorem parseRows_writeRows {e : Election} (hw : WF e) : parseRows (writeRows e) = .ok (norm e) := by
  have hrows : writeRows e = [kMETA] :: [kKey, kValue] :: (writeMetaRows e ++ ([kPROJECTS] :: projectKeys e.projects ::
      (writeProjectRows e.projects ++ ([kVOTES] :: voteKeys e.votes :: (writeVoteRows e.votes ++ []))))) := by
    simp [writeRows]
  have sM : sectionOf kMETA = 1 := by decide
  have sP : sectionOf kPROJECTS = 2 := by decide
  have sV : sectionOf kVOTES = 3 := by decide
  have hwmd : ∀ v ∈ e.votes, WFMd v.md reservedVoteKey := by
    intro v hv
    obtain ⟨iv, hiv, rfl⟩ := exists_enumFrom 0 hv
    exact (hw.votes iv hiv).md
  unfold parseRows
  rw [hrows, run_section _ kMETA _ _ (by decide) (by decide), sM]
  rw [run_data _ _ _ (dataRow_meta hw)]
  unfold writeMetaRows
  rw [steps_meta _ _ rfl (fun kv hkv => (writeMetaPairs_clean hw kv hkv).1)]
  simp only
  rw [run_section _ kPROJECTS _ _ (by decide) (by decide), sP]
  rw [run_data _ _ _ (dataRow_project hw.projects)]
  unfold writeProjectRows
  rw [steps_projects (projectKeys e.projects) e.projects [] _ rfl rfl rfl
    (by simpa using sorted_of_sortedKeys hw.projectsSorted)
    (fun np hnp => ⟨hw.projects np hnp, goodHeader_projectKeys hw.projects hnp⟩)]
  simp only
  rw [run_section _ kVOTES _ _ (by decide) (by decide), sV]
  rw [run_data _ _ _ (dataRow_vote hw.votes)]
  unfold writeVoteRows
  have hvt : aget kVoteType (metaOf e) = some e.vtype.name := by
    rw [aget_metaOf hw.md.sorted, if_pos (emitted_voteType e), metaCell_kVoteType]
  rw [steps_votes (voteKeys e.votes) e.vtype e.projects (enumFrom 0 e.votes) _ rfl rfl hvt
    (fun n hn => cleanName_of_aget hw hn)
    (fun iv hiv => ⟨goodVHeader_voteKeys hwmd (mem_enumFrom_snd hiv), hw.votes iv hiv⟩)]
  simp only [run]
  exact finish_written hw _ rfl rfl (by simp)


/-! ## `String` front end -/

theorem parse_write_string {e : Election} (hw : WF e) : parse (write e) = .ok (norm e) := by
  unfold parse write
  have : ((writeRows e).map (fun r => r.map String.ofList)).map (fun r => r.map String.toList) = writeRows e := by
    rw [List.map_map]
    conv_rhs => rw [← List.map_id (writeRows e)]
    apply List.map_congr_left
    intro r _
    simp only [Function.comp_apply, List.map_map, id_eq]
    conv_rhs => rw [← List.map_id r]
    apply List.map_congr_left
    intro s _
    simp
  rw [this]
  exact parseRows_writeRows hw

/-! ## `WF` is decidable -/

instance (m : Map Str) (res : Str → Bool) : Decidable (WFMd m res) :=
  decidable_of_iff (sortedKeys (keysOf m) = true ∧ (∀ kv ∈ m, strip kv.1 = kv.1 ∧ res kv.1 = false) ∧
      (∀ kv ∈ m, strip kv.2 = kv.2 ∧ isNone kv.2 = false))
    ⟨fun ⟨a, b, c⟩ => ⟨a, b, c⟩, fun h => ⟨h.sorted, h.keys, h.vals⟩⟩

instance (s : Str) : Decidable (GoodName s) :=
  decidable_of_iff (strip s = s ∧ s ≠ [] ∧ isNone s = false ∧ ',' ∉ s ∧ sectionOf s = 0)
    ⟨fun ⟨a, b, c, d, e⟩ => ⟨a, b, c, d, e⟩, fun h => ⟨h.stripped, h.ne, h.notNone, h.noComma, h.notSection⟩⟩

instance (l : List Str) : Decidable (GoodTags l) :=
  decidable_of_iff (sortedKeys l = true ∧ (∀ c ∈ l, strip c = c ∧ ',' ∉ c) ∧ isNone (joinC ',' l) = false)
    ⟨fun ⟨a, b, c⟩ => ⟨a, b, c⟩, fun h => ⟨h.sorted, h.each, h.notNone⟩⟩

instance (np : Str × ProjData) : Decidable (WFProject np) :=
  decidable_of_iff (GoodName np.1 ∧ WFMd np.2.md reservedProjKey ∧ GoodTags np.2.cats ∧ GoodTags np.2.targets)
    ⟨fun ⟨a, b, c, d⟩ => ⟨a, b, c, d⟩, fun h => ⟨h.name, h.md, h.cats, h.targets⟩⟩

instance (vt : VoteType) (ps : Map ProjData) (b : Ballot) : Decidable (WFBallot vt ps b) := by
  cases b <;> unfold WFBallot <;> exact inferInstance

instance (vt : VoteType) (ps : Map ProjData) (iv : Nat × Vote) : Decidable (WFVote vt ps iv) :=
  decidable_of_iff (WFMd iv.2.md reservedVoteKey ∧ sectionOf (voterId iv.1 iv.2) = 0 ∧ WFBallot vt ps iv.2.ballot)
    ⟨fun ⟨a, b, c⟩ => ⟨a, b, c⟩, fun h => ⟨h.md, h.vid, h.ballot⟩⟩

instance (e : Election) : Decidable (WF e) :=
  decidable_of_iff (WFMd e.md noReserved ∧ (∀ kv ∈ e.md, sectionOf kv.1 = 0) ∧
      (∀ k ∈ limitKeys, emitted e k = false → aget k e.md = none) ∧ irrelevantNone e.vtype e.limits = true ∧
      sortedKeys (keysOf e.projects) = true ∧ (∀ np ∈ e.projects, WFProject np) ∧
      (∀ iv ∈ enumFrom 0 e.votes, WFVote e.vtype e.projects iv))
    ⟨fun ⟨a, b, c, d, f, g, h⟩ => ⟨a, b, c, d, f, g, h⟩,
     fun h => ⟨h.md, h.mdNotSection, h.limitKeysFree, h.limitsRelevant, h.projectsSorted, h.projects, h.votes⟩⟩


/-! ## idempotence of the normal form -/

theorem ains_ains_same {β : Type} (k : Str) (v v' : β) : ∀ m : Map β, ains k v (ains k v' m) = ains k v m
  | [] => by simp [ains]
  | e :: r => by
    by_cases h1 : k = e.1
    · simp [ains, h1]
    · by_cases h2 : strLt k e.1 = true
      · simp [ains, h1, h2]
      · have ih := ains_ains_same k v v' r
        conv_lhs => rw [ains, if_neg h1, if_neg h2, ains, if_neg h1, if_neg h2, ih]
        conv_rhs => rw [ains, if_neg h1, if_neg h2]

theorem ains_pair_idem {β : Type} (k1 k2 : Str) (v1 v2 : β) (m : Map β) (h : Sorted (keysOf m)) :
    ains k1 v1 (ains k2 v2 (ains k1 v1 (ains k2 v2 m))) = ains k1 v1 (ains k2 v2 m) := by
  have s2 := sorted_ains k1 v1 _ (sorted_ains k2 v2 _ h)
  apply map_ext (sorted_ains k1 v1 _ (sorted_ains k2 v2 _ s2)) s2
  intro k
  simp only [aget_ains]
  by_cases e1 : k = k1 <;> by_cases e2 : k = k2 <;> simp [e1, e2]

theorem normProj_idem {np : Str × ProjData} (h : Sorted (keysOf np.2.md)) : normProj (normProj np) = normProj np := by
  unfold normProj
  simp only
  rw [ains_pair_idem _ _ _ _ _ h]

theorem voterId_normVote (iv : Nat × Vote) : voterId iv.1 (normVote iv) = voterId iv.1 iv.2 := by
  have : aget kVoterId (normVote iv).md = some (voterId iv.1 iv.2) := by
    simp only [normVote, aget_ains, if_true]
  conv_lhs => rw [voterId, this]

theorem normVote_idem (iv : Nat × Vote) : normVote (iv.1, normVote iv) = normVote iv := by
  have h := voterId_normVote iv
  unfold normVote at h ⊢
  simp only at h ⊢
  rw [h, ains_ains_same]

theorem enumFrom_map_idx {α : Type} (g : Nat × α → α) : ∀ (l : List α) (i : Nat),
    enumFrom i ((enumFrom i l).map g) = (enumFrom i l).map (fun iv => (iv.1, g iv))
  | [], _ => rfl
  | x :: t, i => by
    simp only [enumFrom, List.map_cons]
    have ih := enumFrom_map_idx (fun jv => g jv) t (i + 1)
    rw [ih]

theorem length_enumFrom {α : Type} : ∀ (l : List α) (i : Nat), (enumFrom i l).length = l.length
  | [], _ => rfl
  | x :: t, i => by simp [enumFrom, length_enumFrom t (i + 1)]

theorem dropIf_some {α : Type} {p : α → Bool} {o : Option α} {x : α} (h : dropIf p o = some x) : o = some x := by
  cases o with
  | none => simp [dropIf] at h
  | some y =>
    unfold dropIf at h
    by_cases hp : p y = true
    · simp [hp] at h
    · simp only [hp] at h; exact h

theorem dropIf_idem {α : Type} (p : α → Bool) (o : Option α) : dropIf p (dropIf p o) = dropIf p o := by
  cases o with
  | none => rfl
  | some y =>
    by_cases hp : p y = true
    · simp [dropIf, hp]
    · simp [dropIf, hp]

theorem dropIf_never {α : Type} (p : α → Bool) (o : Option α) (h : ∀ x, p x = false) : dropIf p o = o := by
  cases o with
  | none => rfl
  | some y => simp [dropIf, h y]

theorem dropIf_twice {α : Type} (p q : α → Bool) (o : Option α) (h : ∀ x, q x = true → p x = true) :
    dropIf q (dropIf p o) = dropIf p o := by
  cases o with
  | none => rfl
  | some y =>
    by_cases hp : p y = true
    · simp [dropIf, hp]
    · have : q y = false := by
        by_contra hq
        exact hp (h y (by simpa using hq))
      simp [dropIf, hp, this]

theorem normLimits_idem (vt : VoteType) (m : Nat) (b : Rat) (l : Limits) :
    normLimits vt m b (normLimits vt m b l) = normLimits vt m b l := by
  cases vt
  · simp only [normLimits, dropIf_idem]
  · simp only [normLimits, dropIf_idem]
  · simp only [normLimits, dropIf_idem]
    congr 1
    apply dropIf_never
    intro x; rfl
  · simp only [normLimits, dropIf_idem]

theorem nl_minLen {vt : VoteType} {m : Nat} {b : Rat} {l : Limits} {x} (h : (normLimits vt m b l).minLen = some x) :
    l.minLen = some x := by
  cases vt
  all_goals first
    | exact dropIf_some h
    | exact h
    | cases h

theorem nl_maxLen {vt : VoteType} {m : Nat} {b : Rat} {l : Limits} {x} (h : (normLimits vt m b l).maxLen = some x) :
    l.maxLen = some x := by
  cases vt
  all_goals first
    | exact dropIf_some h
    | exact h
    | cases h

theorem nl_minCost {vt : VoteType} {m : Nat} {b : Rat} {l : Limits} {x} (h : (normLimits vt m b l).minCost = some x) :
    l.minCost = some x := by
  cases vt
  all_goals first
    | exact dropIf_some h
    | exact h
    | cases h

theorem nl_maxCost {vt : VoteType} {m : Nat} {b : Rat} {l : Limits} {x} (h : (normLimits vt m b l).maxCost = some x) :
    l.maxCost = some x := by
  cases vt
  all_goals first
    | exact dropIf_some h
    | exact h
    | cases h

theorem nl_minScore {vt : VoteType} {m : Nat} {b : Rat} {l : Limits} {x} (h : (normLimits vt m b l).minScore = some x) :
    l.minScore = some x := by
  cases vt
  all_goals first
    | exact dropIf_some h
    | exact h
    | cases h

theorem nl_maxScore {vt : VoteType} {m : Nat} {b : Rat} {l : Limits} {x} (h : (normLimits vt m b l).maxScore = some x) :
    l.maxScore = some x := by
  cases vt
  all_goals first
    | exact dropIf_some h
    | exact h
    | cases h

theorem nl_minTotal {vt : VoteType} {m : Nat} {b : Rat} {l : Limits} {x} (h : (normLimits vt m b l).minTotal = some x) :
    l.minTotal = some x := by
  cases vt
  all_goals first
    | exact dropIf_some h
    | exact h
    | cases h

theorem nl_maxTotal {vt : VoteType} {m : Nat} {b : Rat} {l : Limits} {x} (h : (normLimits vt m b l).maxTotal = some x) :
    l.maxTotal = some x := by
  cases vt
  all_goals first
    | exact dropIf_some h
    | exact h
    | cases h


theorem sorted_metaOf (e : Election) : Sorted (keysOf (metaOf e)) := by
  unfold metaOf mapOfPairs
  generalize writeMetaPairs e = l
  suffices ∀ (l : List (Str × Str)) (m : Map Str), Sorted (keysOf m) →
      Sorted (keysOf (l.foldl (fun acc e => ains e.1 e.2 acc) m)) from this l [] (by simp [keysOf, Sorted])
  intro l
  induction l with
  | nil => intro m h; simpa using h
  | cons x t ih => intro m h; exact ih _ (sorted_ains _ _ _ h)

theorem norm_vtype (e : Election) : (norm e).vtype = e.vtype := rfl
theorem norm_md (e : Election) : (norm e).md = metaOf e := rfl
theorem norm_projects_length (e : Election) : (norm e).projects.length = e.projects.length := by
  simp [norm]
theorem norm_votes_length (e : Election) : (norm e).votes.length = e.votes.length := by
  simp [norm, length_enumFrom]

/-- a value the writer derives for the normalised election is the one it derived (and wrote) before -/
theorem metaCell_norm {e : Election} (hs : sortedKeys (keysOf e.md) = true) {k : Str}
    (hk : k ∈ metaHead ++ metaTail e.vtype) {v : Str} (hv : metaCell (norm e) k = some v) :
    aget k (metaOf e) = some v := by
  have hA := aget_metaOf hs k
  have emit : ∀ w, metaCell e k = some w → aget k (metaOf e) = some w := by
    intro w hw
    rw [hA, if_pos ((emitted_iff e k).mpr ⟨hk, by rw [hw]; rfl⟩), hw]
  by_cases h0 : k = kNumProjects
  · subst h0; rw [metaCell_kNumProjects, norm_projects_length] at hv; exact emit _ (by rw [metaCell_kNumProjects, ← hv])
  by_cases h1 : k = kNumVotes
  · subst h1; rw [metaCell_kNumVotes, norm_votes_length] at hv; exact emit _ (by rw [metaCell_kNumVotes, ← hv])
  by_cases h2 : k = kBudget
  · subst h2; rw [metaCell_kBudget] at hv; exact emit _ (by rw [metaCell_kBudget, ← hv]; rfl)
  by_cases h3 : k = kVoteType
  · subst h3; rw [metaCell_kVoteType] at hv; exact emit _ (by rw [metaCell_kVoteType, ← hv]; rfl)
  by_cases h4 : k = kMinLength
  · subst h4
    rw [metaCell_kMinLength] at hv
    obtain ⟨x, hx, rfl⟩ := Option.map_eq_some_iff.mp hv
    exact emit _ (by rw [metaCell_kMinLength, nl_minLen hx]; rfl)
  by_cases h5 : k = kMaxLength
  · subst h5
    rw [metaCell_kMaxLength] at hv
    obtain ⟨x, hx, rfl⟩ := Option.map_eq_some_iff.mp hv
    exact emit _ (by rw [metaCell_kMaxLength, nl_maxLen hx]; rfl)
  by_cases h6 : k = kMinSumCost
  · subst h6
    rw [metaCell_kMinSumCost] at hv
    obtain ⟨x, hx, rfl⟩ := Option.map_eq_some_iff.mp hv
    exact emit _ (by rw [metaCell_kMinSumCost, nl_minCost hx]; rfl)
  by_cases h7 : k = kMaxSumCost
  · subst h7
    rw [metaCell_kMaxSumCost] at hv
    obtain ⟨x, hx, rfl⟩ := Option.map_eq_some_iff.mp hv
    exact emit _ (by rw [metaCell_kMaxSumCost, nl_maxCost hx]; rfl)
  by_cases h8 : k = kMinPoints
  · subst h8
    rw [metaCell_kMinPoints] at hv
    obtain ⟨x, hx, rfl⟩ := Option.map_eq_some_iff.mp hv
    exact emit _ (by rw [metaCell_kMinPoints, nl_minScore hx]; rfl)
  by_cases h9 : k = kMaxPoints
  · subst h9
    rw [metaCell_kMaxPoints] at hv
    obtain ⟨x, hx, rfl⟩ := Option.map_eq_some_iff.mp hv
    exact emit _ (by rw [metaCell_kMaxPoints, nl_maxScore hx]; rfl)
  by_cases h10 : k = kMinSumPoints
  · subst h10
    rw [metaCell_kMinSumPoints] at hv
    obtain ⟨x, hx, rfl⟩ := Option.map_eq_some_iff.mp hv
    exact emit _ (by rw [metaCell_kMinSumPoints, nl_minTotal hx]; rfl)
  by_cases h11 : k = kMaxSumPoints
  · subst h11
    rw [metaCell_kMaxSumPoints] at hv
    obtain ⟨x, hx, rfl⟩ := Option.map_eq_some_iff.mp hv
    exact emit _ (by rw [metaCell_kMaxSumPoints, nl_maxTotal hx]; rfl)
  have hgen : ∀ e' : Election, metaCell e' k = match aget k e'.md with
      | some v => some v
      | none => if k ∈ mandatoryKeys then some (kAutoFilled ++ k) else none := by
    intro e'
    unfold metaCell
    rw [if_neg h0, if_neg h1, if_neg h2, if_neg h3, if_neg h4, if_neg h5, if_neg h6, if_neg h7, if_neg h8, if_neg h9, if_neg h10, if_neg h11]
    rfl
  rw [hgen (norm e), norm_md] at hv
  cases hA' : aget k (metaOf e) with
  | some w => rw [hA'] at hv; simpa using hv
  | none =>
    exfalso
    rw [hA'] at hv
    simp only at hv
    by_cases hm : k ∈ mandatoryKeys
    · have : ∃ w, metaCell e k = some w := by
        rw [hgen e]
        cases aget k e.md with
        | some u => exact ⟨u, rfl⟩
        | none => exact ⟨kAutoFilled ++ k, by simp [hm]⟩
      obtain ⟨w, hw⟩ := this
      rw [emit w hw] at hA'
      cases hA'
    · rw [if_neg hm] at hv; cases hv

theorem metaOf_norm {e : Election} (hs : sortedKeys (keysOf e.md) = true) : metaOf (norm e) = metaOf e := by
  apply map_ext (sorted_metaOf _) (sorted_metaOf _)
  intro k
  rw [aget_metaOf (e := norm e) (by rw [norm_md]; exact sortedKeys_of_sorted (sorted_metaOf e)) k, norm_md]
  by_cases hem : emitted (norm e) k = true
  · rw [if_pos hem]
    obtain ⟨h1, h2⟩ := (emitted_iff (norm e) k).mp hem
    obtain ⟨v, hv⟩ := Option.isSome_iff_exists.mp h2
    rw [hv, metaCell_norm hs (by rw [norm_vtype] at h1; exact h1) hv]
  · rw [if_neg hem]

/-- **idempotence**: a second round trip changes nothing -/
theorem norm_norm {e : Election} (hw : WF e) : norm (norm e) = norm e := by
  have hmd : (norm (norm e)).md = (norm e).md := by
    show metaOf (norm e) = metaOf e
    exact metaOf_norm hw.md.sorted
  have hproj : (norm (norm e)).projects = (norm e).projects := by
    show (e.projects.map normProj).map normProj = e.projects.map normProj
    rw [List.map_map]
    apply List.map_congr_left
    intro np hnp
    exact normProj_idem (sorted_of_sortedKeys (hw.projects np hnp).md.sorted)
  have hvotes : (norm (norm e)).votes = (norm e).votes := by
    show (enumFrom 0 ((enumFrom 0 e.votes).map normVote)).map normVote = (enumFrom 0 e.votes).map normVote
    rw [enumFrom_map_idx, List.map_map]
    apply List.map_congr_left
    intro iv _
    exact normVote_idem iv
  have hlim : (norm (norm e)).limits = (norm e).limits := by
    show normLimits e.vtype (e.projects.map normProj).length e.budget
        (normLimits e.vtype e.projects.length e.budget e.limits) = normLimits e.vtype e.projects.length e.budget e.limits
    rw [List.length_map, normLimits_idem]
  have h1 : (norm (norm e)).vtype = (norm e).vtype := rfl
  have h2 : (norm (norm e)).budget = (norm e).budget := rfl
  cases hn : norm (norm e) with
  | mk a b c d f g =>
    cases hm : norm e with
    | mk a' b' c' d' f' g' =>
      rw [hn, hm] at hmd hproj hvotes hlim h1 h2
      simp only at hmd hproj hvotes hlim h1 h2
      rw [h1, h2, hmd, hproj, hvotes, hlim]


/-! ## the normal form of a well-formed election is well-formed -/

theorem vtName_notNone (vt : VoteType) : isNone vt.name = false := by cases vt <;> decide

theorem autoFilled_notNone : ∀ k ∈ mandatoryKeys, isNone (kAutoFilled ++ k) = false := by decide

theorem metaCell_notNone {e : Election} (hw : WF e) {k v : Str} (h : metaCell e k = some v) : isNone v = false := by
  unfold metaCell at h
  by_cases h0 : k = kNumProjects
  · rw [if_pos h0] at h; cases h; exact (showNat_clean _).2.1
  rw [if_neg h0] at h
  by_cases h1 : k = kNumVotes
  · rw [if_pos h1] at h; cases h; exact (showNat_clean _).2.1
  rw [if_neg h1] at h
  by_cases h2 : k = kBudget
  · rw [if_pos h2] at h; cases h; exact (showRat_clean _).2.1
  rw [if_neg h2] at h
  by_cases h3 : k = kVoteType
  · rw [if_pos h3] at h; cases h; exact vtName_notNone _
  rw [if_neg h3] at h
  by_cases h4 : k = kMinLength
  · rw [if_pos h4] at h; obtain ⟨i, _, rfl⟩ := Option.map_eq_some_iff.mp h; exact (showInt_clean _).2.1
  rw [if_neg h4] at h
  by_cases h5 : k = kMaxLength
  · rw [if_pos h5] at h; obtain ⟨i, _, rfl⟩ := Option.map_eq_some_iff.mp h; exact (showInt_clean _).2.1
  rw [if_neg h5] at h
  by_cases h6 : k = kMinSumCost
  · rw [if_pos h6] at h; obtain ⟨i, _, rfl⟩ := Option.map_eq_some_iff.mp h; exact (showRat_clean _).2.1
  rw [if_neg h6] at h
  by_cases h7 : k = kMaxSumCost
  · rw [if_pos h7] at h; obtain ⟨i, _, rfl⟩ := Option.map_eq_some_iff.mp h; exact (showRat_clean _).2.1
  rw [if_neg h7] at h
  by_cases h8 : k = kMinPoints
  · rw [if_pos h8] at h; obtain ⟨i, _, rfl⟩ := Option.map_eq_some_iff.mp h; exact (showRat_clean _).2.1
  rw [if_neg h8] at h
  by_cases h9 : k = kMaxPoints
  · rw [if_pos h9] at h; obtain ⟨i, _, rfl⟩ := Option.map_eq_some_iff.mp h; exact (showRat_clean _).2.1
  rw [if_neg h9] at h
  by_cases h10 : k = kMinSumPoints
  · rw [if_pos h10] at h; obtain ⟨i, _, rfl⟩ := Option.map_eq_some_iff.mp h; exact (showRat_clean _).2.1
  rw [if_neg h10] at h
  by_cases h11 : k = kMaxSumPoints
  · rw [if_pos h11] at h; obtain ⟨i, _, rfl⟩ := Option.map_eq_some_iff.mp h; exact (showRat_clean _).2.1
  rw [if_neg h11] at h
  cases hg : aget k e.md with
  | some w =>
    rw [hg] at h; cases h
    exact (hw.md.vals _ (mem_of_aget hg)).2
  | none =>
    rw [hg] at h
    simp only at h
    by_cases hm : k ∈ mandatoryKeys
    · rw [if_pos hm] at h; cases h
      exact autoFilled_notNone k hm
    · rw [if_neg hm] at h; cases h

theorem writeMetaPairs_notNone {e : Election} (hw : WF e) : ∀ kv ∈ writeMetaPairs e, isNone kv.2 = false := by
  intro kv hkv
  unfold writeMetaPairs at hkv
  rcases List.mem_append.mp hkv with h | h
  · unfold metaFixed pairsOf at h
    obtain ⟨k, _, hm⟩ := List.mem_filterMap.mp h
    obtain ⟨v, hv, rfl⟩ := Option.map_eq_some_iff.mp hm
    exact metaCell_notNone hw hv
  · exact (hw.md.vals kv (List.mem_filter.mp h).1).2

theorem mem_ains {β : Type} {k : Str} {v : β} {x : Str × β} : ∀ {m : Map β}, x ∈ ains k v m → x = (k, v) ∨ x ∈ m
  | [], h => by simp [ains] at h; exact Or.inl h
  | e :: r, h => by
    unfold ains at h
    by_cases h1 : k = e.1
    · rw [if_pos h1] at h
      rcases List.mem_cons.mp h with h | h
      · exact Or.inl h
      · exact Or.inr (List.mem_cons_of_mem _ h)
    · rw [if_neg h1] at h
      by_cases h2 : strLt k e.1 = true
      · rw [if_pos h2] at h
        rcases List.mem_cons.mp h with h | h
        · exact Or.inl h
        · exact Or.inr h
      · rw [if_neg h2] at h
        rcases List.mem_cons.mp h with h | h
        · exact Or.inr (by rw [h]; simp)
        · rcases mem_ains h with h | h
          · exact Or.inl h
          · exact Or.inr (List.mem_cons_of_mem _ h)

theorem mem_foldl_ains {β : Type} {x : Str × β} : ∀ (l : List (Str × β)) (m : Map β),
    x ∈ l.foldl (fun a e => ains e.1 e.2 a) m → x ∈ m ∨ x ∈ l
  | [], m, h => Or.inl (by simpa using h)
  | p :: ps, m, h => by
    simp only [List.foldl_cons] at h
    rcases mem_foldl_ains ps _ h with h | h
    · rcases mem_ains h with h | h
      · right; rw [h]; simp
      · exact Or.inl h
    · exact Or.inr (List.mem_cons_of_mem _ h)

theorem mem_metaOf {e : Election} {kv : Str × Str} (h : kv ∈ metaOf e) : kv ∈ writeMetaPairs e := by
  unfold metaOf mapOfPairs at h
  rcases mem_foldl_ains _ _ h with h | h
  · simp at h
  · exact h

theorem wfmd_ains {m : Map Str} {res : Str → Bool} (hw : WFMd m res) {k v : Str} (hk : strip k = k)
    (hr : res k = false) (hv : strip v = v) (hn : isNone v = false) : WFMd (ains k v m) res where
  sorted := sortedKeys_of_sorted (sorted_ains _ _ _ (sorted_of_sortedKeys hw.sorted))
  keys := by
    intro kv hkv
    rcases mem_ains hkv with h | h
    · rw [h]; exact ⟨hk, hr⟩
    · exact hw.keys kv h
  vals := by
    intro kv hkv
    rcases mem_ains hkv with h | h
    · rw [h]; exact ⟨hv, hn⟩
    · exact hw.vals kv h

theorem wfProject_normProj {np : Str × ProjData} (hw : WFProject np) : WFProject (normProj np) where
  name := hw.name
  md := wfmd_ains (wfmd_ains hw.md (by decide) (by decide) (showRat_clean _).1 (showRat_clean _).2.1)
    (by decide) (by decide) hw.name.stripped hw.name.notNone
  cats := hw.cats
  targets := hw.targets

theorem wfBallot_normProj {vt : VoteType} {ps : Map ProjData} {b : Ballot} (h : WFBallot vt ps b) :
    WFBallot vt (ps.map normProj) b := by
  cases b with
  | app s => exact ⟨h.1, h.2.1, fun n hn => aget_map_normProj_isSome n ps (h.2.2 n hn)⟩
  | card m => exact ⟨h.1, h.2.1, fun n hn => aget_map_normProj_isSome n ps (h.2.2 n hn)⟩
  | ord l => exact ⟨h.1, h.2.1, fun n hn => aget_map_normProj_isSome n ps (h.2.2 n hn)⟩

theorem wfVote_normVote {vt : VoteType} {ps : Map ProjData} {iv : Nat × Vote} (hw : WFVote vt ps iv) :
    WFVote vt (ps.map normProj) (iv.1, normVote iv) where
  md := wfmd_ains hw.md (by decide) (by decide) (voterId_clean hw.md).1 (voterId_clean hw.md).2
  vid := by
    show sectionOf (voterId iv.1 (normVote iv)) = 0
    rw [voterId_normVote]; exact hw.vid
  ballot := wfBallot_normProj hw.ballot

theorem metaCell_norm_limitKey {e : Election}
    (hN : normLimits e.vtype e.projects.length e.budget e.limits = e.limits) {k : Str} (hk : k ∈ limitKeys) :
    metaCell (norm e) k = metaCell e k := by
  have hl : (norm e).limits = e.limits := hN
  simp only [limitKeys, List.mem_cons, List.not_mem_nil, or_false] at hk
  rcases hk with rfl | rfl | rfl | rfl | rfl | rfl | rfl | rfl
  · rw [metaCell_kMinLength, metaCell_kMinLength, hl]
  · rw [metaCell_kMaxLength, metaCell_kMaxLength, hl]
  · rw [metaCell_kMinSumCost, metaCell_kMinSumCost, hl]
  · rw [metaCell_kMaxSumCost, metaCell_kMaxSumCost, hl]
  · rw [metaCell_kMinPoints, metaCell_kMinPoints, hl]
  · rw [metaCell_kMaxPoints, metaCell_kMaxPoints, hl]
  · rw [metaCell_kMinSumPoints, metaCell_kMinSumPoints, hl]
  · rw [metaCell_kMaxSumPoints, metaCell_kMaxSumPoints, hl]

/-- the result of a round trip is again well-formed when the legal limits were in the parser's normal form -/
theorem wf_norm {e : Election} (hw : WF e)
    (hN : normLimits e.vtype e.projects.length e.budget e.limits = e.limits) : WF (norm e) where
  md := {
    sorted := sortedKeys_of_sorted (sorted_metaOf e)
    keys := fun kv hkv => ⟨(writeMetaPairs_clean hw kv (mem_metaOf hkv)).1.1, rfl⟩
    vals := fun kv hkv => ⟨(writeMetaPairs_clean hw kv (mem_metaOf hkv)).1.2, writeMetaPairs_notNone hw kv (mem_metaOf hkv)⟩ }
  mdNotSection := fun kv hkv => (writeMetaPairs_clean hw kv (mem_metaOf hkv)).2
  limitKeysFree := by
    intro k hk hem
    have hem' : emitted e k = false := by
      unfold emitted at hem ⊢
      rw [metaCell_norm_limitKey hN hk] at hem
      exact hem
    show aget k (metaOf e) = none
    have : ¬ (emitted e k = true) := by rw [hem']; exact Bool.noConfusion
    rw [aget_metaOf hw.md.sorted, if_neg this]
    exact hw.limitKeysFree k hk hem'
  limitsRelevant := by
    show irrelevantNone e.vtype (normLimits e.vtype e.projects.length e.budget e.limits) = true
    rw [hN]; exact hw.limitsRelevant
  projectsSorted := by
    show sortedKeys (keysOf (e.projects.map normProj)) = true
    rw [keysOf_map_normProj]; exact hw.projectsSorted
  projects := by
    intro np hnp
    obtain ⟨np0, h0, rfl⟩ := List.mem_map.mp hnp
    exact wfProject_normProj (hw.projects np0 h0)
  votes := by
    intro iv hiv
    have : iv ∈ enumFrom 0 ((enumFrom 0 e.votes).map normVote) := hiv
    rw [enumFrom_map_idx] at this
    obtain ⟨jv, hj, rfl⟩ := List.mem_map.mp this
    exact wfVote_normVote (hw.votes jv hj)

/-- **second round trip**: writing the parsed election and parsing it again yields the same election -/
theorem second_round_trip {e : Election} (hw : WF e)
    (hN : normLimits e.vtype e.projects.length e.budget e.limits = e.limits) :
    parseRows (writeRows (norm e)) = .ok (norm e) := by
  rw [parseRows_writeRows (wf_norm hw hN), norm_norm hw]

end Pabu.Pabulib
