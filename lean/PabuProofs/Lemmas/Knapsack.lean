/-
  Lemmas for C04: the primal/dual branch-and-bound knapsack (`Pabu.Knap.pd`, `Pabu.Knap.solve`).
  Part 1 (bound, pd_mono, pd_complete): the call never returns less than any feasible set compatible with the node.
  Part 2 (pd_sound): the incumbent always records a feasible, duplicate-free list with the recorded value.
  Part 3: split index facts.  Part 4: root instantiation, lists vs indicators.
-/
import PabuModel.MaxWelfare
import Mathlib.Tactic.Linarith
import Mathlib.Tactic.Ring
import Mathlib.Tactic.FieldSimp
import Mathlib.Tactic.Positivity
import Mathlib.Algebra.Order.Field.Rat
import Mathlib.Algebra.Order.Field.Basic
import Mathlib.Algebra.BigOperators.Group.Finset.Basic
import Mathlib.Algebra.Order.BigOperators.Group.Finset
import Mathlib.Algebra.BigOperators.Ring.Finset
import Mathlib.Logic.Function.Basic
import Mathlib.Data.List.Basic
import Mathlib.Data.List.Sort
import Mathlib.Data.List.Perm.Subperm
open Finset
namespace Pabu
namespace Knap

variable (items : Array Item)

def profitY (Y : Nat → Bool) : Rat := ∑ i ∈ range items.size, if Y i then pp items i else 0
def weightY (Y : Nat → Bool) : Rat := ∑ i ∈ range items.size, if Y i then pw items i else 0

structure Sorted : Prop where
  wpos : ∀ i, i < items.size → 0 < pw items i
  pnn  : ∀ i, i < items.size → 0 ≤ pp items i
  desc : ∀ i j, i ≤ j → j < items.size → pe items j ≤ pe items i

theorem pp_eq (h : Sorted items) (i) (hi : i < items.size) : pp items i = pe items i * pw items i := by
  have := h.wpos i hi
  unfold pe
  field_simp

theorem pe_nonneg (h : Sorted items) (i) (hi : i < items.size) : 0 ≤ pe items i := by
  have h1 := h.wpos i hi; have h2 := h.pnn i hi
  unfold pe
  positivity

/-- the node as an indicator: everything below `lo` is in, everything from `b` on is out -/
structure NodeOK (lo b : Nat) (X : Nat → Bool) (P W : Rat) : Prop where
  lo_le : lo ≤ b
  b_le  : b ≤ items.size
  left  : ∀ i, i < lo → X i = true
  right : ∀ i, b ≤ i → X i = false
  hP : P = profitY items X
  hW : W = weightY items X

def Compatible (lo b : Nat) (X Y : Nat → Bool) : Prop := ∀ i, lo ≤ i → i < b → Y i = X i

theorem sum_update (f : Nat → Rat) (X : Nat → Bool) (k : Nat) (v : Bool) (hk : k < items.size) :
    (∑ i ∈ range items.size, if (Function.update X k v) i then f i else 0)
      = (∑ i ∈ range items.size, if X i then f i else 0)
        - (if X k then f k else 0) + (if v then f k else 0) := by
  have hk' : k ∈ range items.size := mem_range.mpr hk
  rw [← add_sum_erase _ _ hk', ← add_sum_erase (range items.size) (fun i => if X i then f i else 0) hk']
  have : ∑ i ∈ (range items.size).erase k, (if Function.update X k v i then f i else 0)
       = ∑ i ∈ (range items.size).erase k, (if X i then f i else 0) := by
    apply sum_congr rfl
    intro i hi
    have : i ≠ k := (mem_erase.mp hi).1
    simp [Function.update_of_ne this]
  rw [this]; simp; ring

/-- the bound used for pruning, both cases at once: `e` sits between the efficiencies of the
    left part and of the right part -/
theorem bound (h : Sorted items) {lo b : Nat} {X Y : Nat → Bool} {P W e : Rat}
    (hN : NodeOK items lo b X P W) (hC : Compatible lo b X Y)
    (heL : ∀ i, i < lo → i < items.size → e ≤ pe items i)
    (heR : ∀ i, b ≤ i → i < items.size → pe items i ≤ e) :
    profitY items Y - P ≤ e * (weightY items Y - W) := by
  rw [hN.hP, hN.hW]
  unfold profitY weightY
  rw [← sum_sub_distrib, ← sum_sub_distrib, mul_sum]
  apply sum_le_sum
  intro i hi
  have hi' : i < items.size := mem_range.mp hi
  have hw := h.wpos i hi'
  have hpe := pp_eq items h i hi'
  by_cases h1 : i < lo
  · have hX := hN.left i h1
    have := heL i h1 hi'
    cases hY : Y i <;> simp [hX]
    rw [hpe]; nlinarith
  · by_cases h2 : i < b
    · have := hC i (not_lt.mp h1) h2
      simp [this]
    · have hX := hN.right i (not_lt.mp h2)
      have := heR i (not_lt.mp h2) hi'
      cases hY : Y i <;> simp [hX]
      rw [hpe]; nlinarith

theorem upd_ge (P : Rat) (sol : List Nat) (inc : Inc) : inc.1 ≤ (upd P sol inc).1 ∧ P ≤ (upd P sol inc).1 := by
  unfold upd; split
  · rename_i h; exact ⟨le_of_lt h, le_refl _⟩
  · rename_i h; exact ⟨le_refl _, not_lt.mp h⟩

theorem pd_mono (cap : Rat) : ∀ f lo b P W mid inc, inc.1 ≤ (pd items cap f lo b P W mid inc).1 := by
  intro f
  induction f with
  | zero => intros; simp [pd]
  | succ f ih =>
    intro lo b P W mid inc
    rw [pd]
    by_cases hWc : W ≤ cap
    · rw [if_pos hWc]
      by_cases hb : b < items.size
      · rw [if_pos hb]
        by_cases hpr : P + (cap - W) * pe items b ≤ (upd P (List.range lo ++ mid) inc).1
        · rw [if_pos hpr]; exact (upd_ge _ _ _).1
        · rw [if_neg hpr]
          exact le_trans (upd_ge P (List.range lo ++ mid) inc).1 (le_trans (ih _ _ _ _ _ _) (ih _ _ _ _ _ _))
      · rw [if_neg hb]; exact (upd_ge _ _ _).1
    · rw [if_neg hWc]
      by_cases hlo : lo = 0
      · rw [if_pos hlo]
      · rw [if_neg hlo]
        by_cases hpr : P + (cap - W) * pe items (lo - 1) ≤ inc.1
        · rw [if_pos hpr]
        · rw [if_neg hpr]; exact le_trans (ih _ _ _ _ _ _) (ih _ _ _ _ _ _)

/-- completeness: nothing compatible with a node and feasible beats the incumbent returned -/
theorem pd_complete (h : Sorted items) (cap : Rat) :
    ∀ f lo b P W mid inc X Y, lo + (items.size - b) < f →
      NodeOK items lo b X P W → Compatible lo b X Y → weightY items Y ≤ cap →
      profitY items Y ≤ (pd items cap f lo b P W mid inc).1 := by
  intro f
  induction f with
  | zero => intro lo b P W mid inc X Y hf; omega
  | succ f ih =>
    intro lo b P W mid inc X Y hf hN hC hfeas
    rw [pd]
    by_cases hWc : W ≤ cap
    · rw [if_pos hWc]
      have hPinc := (upd_ge P (List.range lo ++ mid) inc).2
      by_cases hb : b < items.size
      · rw [if_pos hb]
        by_cases hpr : P + (cap - W) * pe items b ≤ (upd P (List.range lo ++ mid) inc).1
        · rw [if_pos hpr]
          have := bound items h hN hC
            (fun i hi hi' => h.desc i b (by have := hN.lo_le; omega) hb)
            (fun i hi hi' => h.desc b i hi hi')
          have hmul : pe items b * (weightY items Y - W) ≤ pe items b * (cap - W) :=
            mul_le_mul_of_nonneg_left (by linarith) (pe_nonneg items h b hb)
          linarith
        · rw [if_neg hpr]
          cases hYb : Y b
          · apply ih lo (b+1) P W mid _ X Y (by omega)
            · exact ⟨by have := hN.lo_le; omega, hb, hN.left, fun i hi => hN.right i (by omega), hN.hP, hN.hW⟩
            · intro i hi1 hi2
              by_cases hib : i = b
              · subst hib; rw [hYb, hN.right i (le_refl _)]
              · exact hC i hi1 (by omega)
            · exact hfeas
          · refine le_trans ?_ (pd_mono items cap f lo (b+1) P W mid _)
            have hXb : X b = false := hN.right b (le_refl _)
            apply ih lo (b+1) _ _ (mid ++ [b]) _ (Function.update X b true) Y (by omega)
            · refine ⟨by have := hN.lo_le; omega, hb, ?_, ?_, ?_, ?_⟩
              · intro i hi; rw [Function.update_of_ne (by have := hN.lo_le; omega)]; exact hN.left i hi
              · intro i hi; rw [Function.update_of_ne (by omega)]; exact hN.right i (by omega)
              · unfold profitY; rw [sum_update items _ X b true hb]; simp [hXb]
                rw [hN.hP]; unfold profitY; rfl
              · unfold weightY; rw [sum_update items _ X b true hb]; simp [hXb]
                rw [hN.hW]; unfold weightY; rfl
            · intro i hi1 hi2
              by_cases hib : i = b
              · subst hib; simp [hYb]
              · rw [Function.update_of_ne hib]; exact hC i hi1 (by omega)
            · exact hfeas
      · rw [if_neg hb]
        have := bound items h hN hC (e := 0)
          (fun i hi hi' => pe_nonneg items h i hi')
          (fun i hi hi' => by have := hN.b_le; omega)
        linarith
    · rw [if_neg hWc]
      by_cases hlo : lo = 0
      · exfalso
        subst hlo
        have : W - weightY items Y ≤ 0 := by
          rw [hN.hW]; unfold weightY; rw [← sum_sub_distrib]
          apply sum_nonpos
          intro i hi
          have hi' := mem_range.mp hi
          have hw := h.wpos i hi'
          by_cases h2 : i < b
          · have := hC i (Nat.zero_le _) h2; simp [this]
          · have := hN.right i (not_lt.mp h2)
            cases hY : Y i <;> simp [this]; linarith
        linarith
      · rw [if_neg hlo]
        obtain ⟨a, rfl⟩ : ∃ a, lo = a + 1 := ⟨lo - 1, by omega⟩
        simp only [Nat.add_sub_cancel]
        have ha : a < items.size := by have := hN.lo_le; have := hN.b_le; omega
        have hXa : X a = true := hN.left a (by omega)
        by_cases hpr : P + (cap - W) * pe items a ≤ inc.1
        · rw [if_pos hpr]
          have := bound items h hN hC
            (fun i hi hi' => h.desc i a (by omega) ha)
            (fun i hi hi' => h.desc a i (by have := hN.lo_le; omega) hi')
          have hmul : pe items a * (weightY items Y - W) ≤ pe items a * (cap - W) :=
            mul_le_mul_of_nonneg_left (by linarith) (pe_nonneg items h a ha)
          linarith
        · rw [if_neg hpr]
          cases hYa : Y a
          · refine le_trans ?_ (pd_mono items cap f a b P W (a :: mid) _)
            apply ih a b _ _ mid inc (Function.update X a false) Y (by omega)
            · refine ⟨by have := hN.lo_le; omega, hN.b_le, ?_, ?_, ?_, ?_⟩
              · intro i hi; rw [Function.update_of_ne (by omega)]; exact hN.left i (by omega)
              · intro i hi; rw [Function.update_of_ne (by have := hN.lo_le; omega)]; exact hN.right i hi
              · unfold profitY; rw [sum_update items _ X a false ha]; simp [hXa]
                rw [hN.hP]; unfold profitY; rfl
              · unfold weightY; rw [sum_update items _ X a false ha]; simp [hXa]
                rw [hN.hW]; unfold weightY; rfl
            · intro i hi1 hi2
              by_cases hia : i = a
              · subst hia; simp [hYa]
              · rw [Function.update_of_ne hia]; exact hC i (by omega) hi2
            · exact hfeas
          · apply ih a b P W (a :: mid) _ X Y (by omega)
            · exact ⟨by have := hN.lo_le; omega, hN.b_le, fun i hi => hN.left i (by omega), hN.right, hN.hP, hN.hW⟩
            · intro i hi1 hi2
              by_cases hia : i = a
              · subst hia; rw [hYa, hXa]
              · exact hC i (by omega) hi2
            · exact hfeas

/-! ### Part 2: soundness of the incumbent -/

theorem sumOver_append {α : Type} (l1 l2 : List α) (f : α → Rat) :
    sumOver (l1 ++ l2) f = sumOver l1 f + sumOver l2 f := by
  induction l1 with
  | nil => simp [sumOver]
  | cons a l ih => simp only [List.cons_append, sumOver, ih]; ring

theorem sumOver_range_succ (k : Nat) (f : Nat → Rat) :
    sumOver (List.range (k+1)) f = sumOver (List.range k) f + f k := by
  rw [List.range_succ, sumOver_append]; simp [sumOver]

/-- the node as the list it records: `List.range lo ++ mid`, `mid` increasing inside `[lo, b)` -/
structure SNode (lo b : Nat) (P W : Rat) (mid : List Nat) : Prop where
  lo_le : lo ≤ b
  b_le  : b ≤ items.size
  mid_lo : ∀ i ∈ mid, lo ≤ i
  mid_b  : ∀ i ∈ mid, i < b
  mid_sorted : mid.Pairwise (· < ·)
  hP : P = sumOver (List.range lo ++ mid) (pp items)
  hW : W = sumOver (List.range lo ++ mid) (pw items)

/-- a sound incumbent: either the initial `(0, none)` or a strictly increasing (hence duplicate-free)
    list of valid indices with the recorded profit that fits the capacity -/
def IncOK (cap : Rat) (inc : Inc) : Prop :=
  match inc.2 with
  | none => inc.1 = 0
  | some S => S.Pairwise (· < ·) ∧ (∀ i ∈ S, i < items.size) ∧ sumOver S (pp items) = inc.1
      ∧ sumOver S (pw items) ≤ cap

theorem SNode.list_sorted {lo b : Nat} {P W : Rat} {mid : List Nat} (h : SNode items lo b P W mid) :
    (List.range lo ++ mid).Pairwise (· < ·) := by
  rw [List.pairwise_append]
  refine ⟨List.pairwise_lt_range, h.mid_sorted, ?_⟩
  intro a ha c hc
  have := h.mid_lo c hc
  have := List.mem_range.mp ha
  omega

theorem SNode.list_lt {lo b : Nat} {P W : Rat} {mid : List Nat} (h : SNode items lo b P W mid) :
    ∀ i ∈ List.range lo ++ mid, i < items.size := by
  intro i hi
  rcases List.mem_append.mp hi with hi | hi
  · have := List.mem_range.mp hi; have := h.lo_le; have := h.b_le; omega
  · have := h.mid_b i hi; have := h.b_le; omega

theorem upd_ok {cap : Rat} {lo b : Nat} {P W : Rat} {mid : List Nat} {inc : Inc}
    (h : SNode items lo b P W mid) (hW : W ≤ cap) (hinc : IncOK items cap inc) :
    IncOK items cap (upd P (List.range lo ++ mid) inc) := by
  unfold upd
  by_cases hP : P > inc.1
  · rw [if_pos hP]
    exact ⟨h.list_sorted, h.list_lt, h.hP.symm, by rw [← h.hW]; exact hW⟩
  · rw [if_neg hP]; exact hinc

theorem pd_sound (cap : Rat) : ∀ f lo b P W mid inc, SNode items lo b P W mid → IncOK items cap inc →
    IncOK items cap (pd items cap f lo b P W mid inc) := by
  intro f
  induction f with
  | zero => intro lo b P W mid inc _ hinc; simpa [pd] using hinc
  | succ f ih =>
    intro lo b P W mid inc hN hinc
    rw [pd]
    by_cases hWc : W ≤ cap
    · rw [if_pos hWc]
      have hu := upd_ok items hN hWc hinc
      by_cases hb : b < items.size
      · rw [if_pos hb]
        by_cases hpr : P + (cap - W) * pe items b ≤ (upd P (List.range lo ++ mid) inc).1
        · rw [if_pos hpr]; exact hu
        · rw [if_neg hpr]
          apply ih
          · exact ⟨by have := hN.lo_le; omega, hb, hN.mid_lo, fun i hi => by have := hN.mid_b i hi; omega,
              hN.mid_sorted, hN.hP, hN.hW⟩
          · apply ih _ _ _ _ _ _ _ hu
            refine ⟨by have := hN.lo_le; omega, hb, ?_, ?_, ?_, ?_, ?_⟩
            · intro i hi
              rcases List.mem_append.mp hi with hi | hi
              · exact hN.mid_lo i hi
              · have := List.mem_singleton.mp hi; have := hN.lo_le; omega
            · intro i hi
              rcases List.mem_append.mp hi with hi | hi
              · have := hN.mid_b i hi; omega
              · have := List.mem_singleton.mp hi; omega
            · rw [List.pairwise_append]
              refine ⟨hN.mid_sorted, List.pairwise_singleton _ _, ?_⟩
              intro a ha c hc
              have := List.mem_singleton.mp hc; have := hN.mid_b a ha; omega
            · rw [← List.append_assoc, sumOver_append, ← hN.hP]; simp [sumOver]
            · rw [← List.append_assoc, sumOver_append, ← hN.hW]; simp [sumOver]
      · rw [if_neg hb]; exact hu
    · rw [if_neg hWc]
      by_cases hlo : lo = 0
      · rw [if_pos hlo]; exact hinc
      · rw [if_neg hlo]
        obtain ⟨a, rfl⟩ : ∃ a, lo = a + 1 := ⟨lo - 1, by omega⟩
        simp only [Nat.add_sub_cancel]
        by_cases hpr : P + (cap - W) * pe items a ≤ inc.1
        · rw [if_pos hpr]; exact hinc
        · rw [if_neg hpr]
          have hPs : P = sumOver (List.range a ++ mid) (pp items) + pp items a := by
            rw [hN.hP, List.range_succ, sumOver_append, sumOver_append, sumOver_append]; simp [sumOver]; ring
          have hWs : W = sumOver (List.range a ++ mid) (pw items) + pw items a := by
            rw [hN.hW, List.range_succ, sumOver_append, sumOver_append, sumOver_append]; simp [sumOver]; ring
          apply ih
          · refine ⟨by have := hN.lo_le; omega, hN.b_le, ?_, ?_, ?_, ?_, ?_⟩
            · intro i hi
              rcases List.mem_cons.mp hi with hi | hi
              · omega
              · have := hN.mid_lo i hi; omega
            · intro i hi
              rcases List.mem_cons.mp hi with hi | hi
              · have := hN.lo_le; omega
              · exact hN.mid_b i hi
            · rw [List.pairwise_cons]
              exact ⟨fun c hc => by have := hN.mid_lo c hc; omega, hN.mid_sorted⟩
            · rw [hN.hP, List.range_succ, List.append_assoc]; rfl
            · rw [hN.hW, List.range_succ, List.append_assoc]; rfl
          · apply ih _ _ _ _ _ _ _ hinc
            refine ⟨by have := hN.lo_le; omega, hN.b_le, fun i hi => by have := hN.mid_lo i hi; omega,
              hN.mid_b, hN.mid_sorted, ?_, ?_⟩
            · rw [hPs]; ring
            · rw [hWs]; ring

/-- `pd_sound` spelled out: a recorded list is duplicate-free, within the items, has the recorded profit
    and fits the capacity -/
theorem pd_sound_some (cap : Rat) {f lo b : Nat} {P W : Rat} {mid : List Nat} {inc : Inc} {v : Rat} {S : List Nat}
    (hN : SNode items lo b P W mid) (hinc : IncOK items cap inc)
    (h : pd items cap f lo b P W mid inc = (v, some S)) :
    S.Nodup ∧ (∀ i ∈ S, i < items.size) ∧ sumOver S (pp items) = v ∧ sumOver S (pw items) ≤ cap := by
  have := pd_sound items cap f lo b P W mid inc hN hinc
  rw [h] at this
  obtain ⟨h1, h2, h3, h4⟩ := this
  exact ⟨h1.imp (fun h => Nat.ne_of_lt h), h2, h3, h4⟩

/-- ... and without a recorded list the value is still the initial 0 -/
theorem pd_sound_none (cap : Rat) {f lo b : Nat} {P W : Rat} {mid : List Nat} {inc : Inc} {v : Rat}
    (hN : SNode items lo b P W mid) (hinc : IncOK items cap inc)
    (h : pd items cap f lo b P W mid inc = (v, none)) : v = 0 := by
  have := pd_sound items cap f lo b P W mid inc hN hinc
  rw [h] at this
  exact this

/-! ### Part 3: the split index -/

theorem prefW_succ (k : Nat) : prefW items (k+1) = prefW items k + pw items k :=
  sumOver_range_succ k _

theorem prefP_succ (k : Nat) : prefP items (k+1) = prefP items k + pp items k :=
  sumOver_range_succ k _

theorem splitIdx_bounds (cap : Rat) : ∀ d i W, items.size - i = d → i ≤ items.size →
    i ≤ splitIdx items cap i W ∧ splitIdx items cap i W ≤ items.size := by
  intro d
  induction d with
  | zero =>
    intro i W hd hi
    rw [splitIdx, if_neg (by omega)]; exact ⟨le_refl _, hi⟩
  | succ d ih =>
    intro i W hd hi
    have hlt : i < items.size := by omega
    rw [splitIdx, if_pos hlt]
    by_cases hfit : W + pw items i ≤ cap
    · rw [if_pos hfit]
      have := ih (i+1) (W + pw items i) (by omega) (by omega)
      omega
    · rw [if_neg hfit]; omega

theorem splitIdx_fits (cap : Rat) : ∀ d i, items.size - i = d → i ≤ items.size → prefW items i ≤ cap →
    prefW items (splitIdx items cap i (prefW items i)) ≤ cap ∧
    (splitIdx items cap i (prefW items i) < items.size →
      cap < prefW items (splitIdx items cap i (prefW items i) + 1)) := by
  intro d
  induction d with
  | zero =>
    intro i hd hi hW
    rw [splitIdx, if_neg (by omega)]; exact ⟨hW, fun h => by omega⟩
  | succ d ih =>
    intro i hd hi hW
    have hlt : i < items.size := by omega
    rw [splitIdx, if_pos hlt]
    by_cases hfit : prefW items i + pw items i ≤ cap
    · rw [if_pos hfit, ← prefW_succ]
      exact ih (i+1) (by omega) (by omega) (by rw [prefW_succ]; exact hfit)
    · rw [if_neg hfit]
      exact ⟨hW, fun _ => by rw [prefW_succ]; exact not_le.mp hfit⟩

theorem prefW_zero : prefW items 0 = 0 := by simp [prefW, sumOver]

/-- the split index is a valid prefix length -/
theorem splitIdx_le (cap : Rat) : splitIdx items cap 0 0 ≤ items.size :=
  (splitIdx_bounds items cap _ 0 0 rfl (Nat.zero_le _)).2

/-- the prefix of that length fits -/
theorem splitIdx_prefix_fits (cap : Rat) (hcap : 0 ≤ cap) : prefW items (splitIdx items cap 0 0) ≤ cap := by
  have := (splitIdx_fits items cap _ 0 rfl (Nat.zero_le _) (by rw [prefW_zero]; exact hcap)).1
  rwa [prefW_zero] at this

/-- ... and it is the longest such prefix: adding the next item overshoots -/
theorem splitIdx_next_overshoots (cap : Rat) (hcap : 0 ≤ cap) (h : splitIdx items cap 0 0 < items.size) :
    cap < prefW items (splitIdx items cap 0 0 + 1) := by
  have := (splitIdx_fits items cap _ 0 rfl (Nat.zero_le _) (by rw [prefW_zero]; exact hcap)).2
  rw [prefW_zero] at this
  exact this h

/-! ### Part 4: lists vs indicators, the root node, optimality of `solve` -/

theorem sumOver_eq_map_sum {α : Type} (l : List α) (f : α → Rat) : sumOver l f = (l.map f).sum := by
  induction l with
  | nil => rfl
  | cons a l ih => simp [sumOver, ih]

/-- indicator of a list of indices -/
def indOf (s : List Nat) : Nat → Bool := fun i => decide (i ∈ s)

theorem indicator_sum (n : Nat) (s : List Nat) (hnd : s.Nodup) (hlt : ∀ i ∈ s, i < n) (f : Nat → Rat) :
    (∑ i ∈ range n, if indOf s i then f i else 0) = sumOver s f := by
  rw [sumOver_eq_map_sum, ← List.sum_toFinset f hnd]
  unfold indOf
  rw [← Finset.sum_filter]
  apply Finset.sum_congr _ (fun _ _ => rfl)
  ext i
  simp only [mem_filter, mem_range, decide_eq_true_eq, List.mem_toFinset]
  exact ⟨fun h => h.2, fun h => ⟨hlt i h, h⟩⟩

theorem profitY_indOf (s : List Nat) (hnd : s.Nodup) (hlt : ∀ i ∈ s, i < items.size) :
    profitY items (indOf s) = sumOver s (pp items) := indicator_sum _ s hnd hlt _

theorem weightY_indOf (s : List Nat) (hnd : s.Nodup) (hlt : ∀ i ∈ s, i < items.size) :
    weightY items (indOf s) = sumOver s (pw items) := indicator_sum _ s hnd hlt _

theorem mem_sublists {α : Type} (s l : List α) : s ∈ sublists l ↔ s.Sublist l := by
  induction l generalizing s with
  | nil => simp [sublists]
  | cons x xs ih =>
    rw [sublists, List.mem_append, List.mem_map, List.sublist_cons_iff, ih]
    constructor
    · rintro (h | ⟨t, ht, rfl⟩)
      · exact Or.inl h
      · exact Or.inr ⟨t, rfl, (ih t).mp ht⟩
    · rintro (h | ⟨t, rfl, ht⟩)
      · exact Or.inl h
      · exact Or.inr ⟨t, (ih t).mpr ht, rfl⟩

theorem sorted_sublist_range (n : Nat) (s : List Nat) (hs : s.Pairwise (· < ·)) (hlt : ∀ i ∈ s, i < n) :
    s.Sublist (List.range n) := by
  have hnd : s.Nodup := hs.imp (fun h => Nat.ne_of_lt h)
  have hsub : s ⊆ List.range n := fun i hi => List.mem_range.mpr (hlt i hi)
  exact List.sublist_of_subperm_of_pairwise (hnd.subperm hsub) hs List.pairwise_lt_range

/-! root node -/
theorem root_nodeOK (cap : Rat) :
    NodeOK items (splitIdx items cap 0 0) (splitIdx items cap 0 0) (indOf (List.range (splitIdx items cap 0 0)))
      (prefP items (splitIdx items cap 0 0)) (prefW items (splitIdx items cap 0 0)) := by
  have hk := splitIdx_le items cap
  have hnd : (List.range (splitIdx items cap 0 0)).Nodup := List.nodup_range
  have hlt : ∀ i ∈ List.range (splitIdx items cap 0 0), i < items.size := fun i hi => by
    have := List.mem_range.mp hi; omega
  refine ⟨le_refl _, hk, ?_, ?_, ?_, ?_⟩
  · intro i hi; simp [indOf, hi]
  · intro i hi; simp [indOf]; omega
  · rw [profitY_indOf items _ hnd hlt]; rfl
  · rw [weightY_indOf items _ hnd hlt]; rfl

theorem root_snode (cap : Rat) :
    SNode items (splitIdx items cap 0 0) (splitIdx items cap 0 0)
      (prefP items (splitIdx items cap 0 0)) (prefW items (splitIdx items cap 0 0)) [] := by
  refine ⟨le_refl _, splitIdx_le items cap, ?_, ?_, List.Pairwise.nil, ?_, ?_⟩
  · intro i hi; cases hi
  · intro i hi; cases hi
  · rw [List.append_nil]; rfl
  · rw [List.append_nil]; rfl

/-- upper-bound half: no feasible indicator beats the value returned by `solve` -/
theorem solve_ge (h : Sorted items) (cap : Rat) (Y : Nat → Bool) (hY : weightY items Y ≤ cap) :
    profitY items Y ≤ (solve items cap).1 := by
  unfold solve
  apply pd_complete items h cap _ _ _ _ _ _ _ _ Y _ (root_nodeOK items cap) _ hY
  · have := splitIdx_le items cap; omega
  · intro i h1 h2; omega

/-- soundness half: the incumbent returned by `solve` is sound -/
theorem solve_incOK (cap : Rat) : IncOK items cap (solve items cap) := by
  unfold solve
  apply pd_sound items cap _ _ _ _ _ _ _ (root_snode items cap)
  show (0 : Rat) = 0
  rfl

theorem maxRat_spec : ∀ l : List Rat, (l = [] ∧ maxRat l = none) ∨
    ∃ m, maxRat l = some m ∧ m ∈ l ∧ ∀ x ∈ l, x ≤ m := by
  intro l
  induction l with
  | nil => exact Or.inl ⟨rfl, rfl⟩
  | cons a l ih =>
    right
    rcases ih with ⟨rfl, _⟩ | ⟨m, hm, hmem, hle⟩
    · exact ⟨a, rfl, List.mem_singleton.mpr rfl, fun x hx => by rw [List.mem_singleton.mp hx]⟩
    · by_cases hma : m ≤ a
      · refine ⟨a, by simp [maxRat, hm, hma], List.mem_cons_self, ?_⟩
        intro x hx
        rcases List.mem_cons.mp hx with rfl | hx
        · exact le_refl _
        · exact le_trans (hle x hx) hma
      · refine ⟨m, by simp [maxRat, hm, hma], List.mem_cons_of_mem _ hmem, ?_⟩
        intro x hx
        rcases List.mem_cons.mp hx with rfl | hx
        · exact le_of_lt (not_le.mp hma)
        · exact hle x hx

theorem maxRat_eq_some {l : List Rat} {v : Rat} (hv : v ∈ l) (hle : ∀ x ∈ l, x ≤ v) : maxRat l = some v := by
  rcases maxRat_spec l with ⟨rfl, _⟩ | ⟨m, hm, hmem, hmle⟩
  · cases hv
  · rw [hm, le_antisymm (hle m hmem) (hmle v hv)]

/-- brute-force specification of the 0/1 knapsack optimum over sub-lists of the index range -/
def optSpec (cap : Rat) : Rat :=
  match maxRat (((sublists (List.range items.size)).filter (fun s => decide (sumOver s (pw items) ≤ cap))).map
      (fun s => sumOver s (pp items))) with
  | none => 0
  | some v => v

theorem sublist_range_facts {n : Nat} {s : List Nat} (hs : s ∈ sublists (List.range n)) :
    s.Nodup ∧ ∀ i ∈ s, i < n := by
  have hs := (mem_sublists s _).mp hs
  exact ⟨hs.nodup List.nodup_range, fun i hi => List.mem_range.mp (hs.subset hi)⟩

theorem solve_ge_list (h : Sorted items) (cap : Rat) (s : List Nat) (hs : s ∈ sublists (List.range items.size))
    (hw : sumOver s (pw items) ≤ cap) : sumOver s (pp items) ≤ (solve items cap).1 := by
  obtain ⟨hnd, hlt⟩ := sublist_range_facts hs
  rw [← profitY_indOf items s hnd hlt]
  apply solve_ge items h cap
  rw [weightY_indOf items s hnd hlt]; exact hw

theorem solve_some (cap : Rat) (S : List Nat) (hS : (solve items cap).2 = some S) :
    S ∈ sublists (List.range items.size) ∧ sumOver S (pw items) ≤ cap ∧
      sumOver S (pp items) = (solve items cap).1 := by
  have := solve_incOK items cap
  unfold IncOK at this
  rw [hS] at this
  obtain ⟨h1, h2, h3, h4⟩ := this
  exact ⟨(mem_sublists _ _).mpr (sorted_sublist_range _ S h1 h2), h4, h3⟩

theorem solve_none (cap : Rat) (hS : (solve items cap).2 = none) : (solve items cap).1 = 0 := by
  have := solve_incOK items cap
  unfold IncOK at this
  rw [hS] at this
  exact this

theorem nil_mem_sublists {α : Type} (l : List α) : [] ∈ sublists l :=
  (mem_sublists _ _).mpr (List.nil_sublist l)

theorem solve_attained (cap : Rat) (hcap : 0 ≤ cap) :
    ∃ s ∈ sublists (List.range items.size), sumOver s (pw items) ≤ cap ∧
      sumOver s (pp items) = (solve items cap).1 := by
  cases hS : (solve items cap).2 with
  | none => exact ⟨[], nil_mem_sublists _, by simpa [sumOver] using hcap, by rw [solve_none items cap hS]; rfl⟩
  | some S => exact ⟨S, solve_some items cap S hS⟩

theorem solve_eq_optSpec (h : Sorted items) (cap : Rat) (hcap : 0 ≤ cap) :
    (solve items cap).1 = optSpec items cap := by
  unfold optSpec
  rw [maxRat_eq_some (v := (solve items cap).1)]
  · obtain ⟨s, hs, hw, hp⟩ := solve_attained items cap hcap
    exact List.mem_map.mpr ⟨s, List.mem_filter.mpr ⟨hs, by simpa using hw⟩, hp⟩
  · intro x hx
    obtain ⟨s, hs, rfl⟩ := List.mem_map.mp hx
    obtain ⟨hs1, hs2⟩ := List.mem_filter.mp hs
    exact solve_ge_list items h cap s hs1 (by simpa using hs2)

end Knap
end Pabu
