/-
  Lemmas about the statistics model: streaming mean, cumulative Gini, histogram bins, multiplicities.
-/
import PabuModel.Stats
import Mathlib.Tactic.Linarith
import Mathlib.Tactic.Ring
import Mathlib.Tactic.FieldSimp
import Mathlib.Tactic.Positivity
import Mathlib.Algebra.Order.Field.Rat
import Mathlib.Algebra.Order.Field.Basic
import Mathlib.Data.List.Basic
namespace Pabu.Stats
open Pabu

/-! ### sums -/

theorem sumOver_append {α : Type} (l₁ l₂ : List α) (f : α → Rat) :
    sumOver (l₁ ++ l₂) f = sumOver l₁ f + sumOver l₂ f := by
  induction l₁ with
  | nil => simp [sumOver]
  | cons a l ih => simp only [List.cons_append, sumOver, ih]; ring

theorem sumOver_replicate {α : Type} (k : Nat) (a : α) (f : α → Rat) :
    sumOver (List.replicate k a) f = (k : Rat) * f a := by
  induction k with
  | zero => simp [sumOver]
  | succ k ih => simp only [List.replicate_succ, sumOver, ih]; push_cast; ring

theorem sumOver_add {α : Type} (l : List α) (f g : α → Rat) :
    sumOver l (fun x => f x + g x) = sumOver l f + sumOver l g := by
  induction l with
  | nil => simp [sumOver]
  | cons a l ih => simp only [sumOver, ih]; ring

theorem sumOver_congr {α : Type} (l : List α) (f g : α → Rat) (h : ∀ x ∈ l, f x = g x) :
    sumOver l f = sumOver l g := by
  induction l with
  | nil => rfl
  | cons a l ih =>
    simp only [sumOver]
    rw [h a (by simp), ih (fun x hx => h x (by simp [hx]))]

theorem sumOver_const_mul {α : Type} (l : List α) (c : Rat) (f : α → Rat) :
    sumOver l (fun x => c * f x) = c * sumOver l f := by
  induction l with
  | nil => simp [sumOver]
  | cons a l ih => simp only [sumOver, ih]; ring

theorem sumOver_const {α : Type} (l : List α) (c : Rat) :
    sumOver l (fun _ => c) = (l.length : Rat) * c := by
  induction l with
  | nil => simp [sumOver]
  | cons a l ih => simp only [sumOver, ih, List.length_cons]; push_cast; ring

theorem sumNat_append {α : Type} (l₁ l₂ : List α) (f : α → Nat) :
    sumNat (l₁ ++ l₂) f = sumNat l₁ f + sumNat l₂ f := by
  induction l₁ with
  | nil => simp [sumNat]
  | cons a l ih => simp only [List.cons_append, sumNat, ih]; omega

/-! ### multiplicities: an entry with multiplicity `m` is `m` voters -/

theorem length_expand {α : Type} (xs : List (α × Nat)) :
    (expand xs).length = sumNat xs (fun e => e.2) := by
  induction xs with
  | nil => rfl
  | cons e es ih => simp only [expand, List.length_append, List.length_replicate, sumNat, ih]

theorem totalMult_eq_length (xs : Entries) : totalMult xs = (expand xs).length :=
  (length_expand xs).symm

theorem sumOver_expand {α : Type} (xs : List (α × Nat)) (f : α → Rat) :
    sumOver (expand xs) f = sumOver xs (fun e => (e.2 : Rat) * f e.1) := by
  induction xs with
  | nil => rfl
  | cons e es ih => simp only [expand, sumOver_append, sumOver_replicate, sumOver, ih]

theorem weightedSum_eq_sum (xs : Entries) : weightedSum xs = sumOver (expand xs) id :=
  (sumOver_expand xs id).symm

theorem countP_expand {α : Type} (xs : List (α × Nat)) (p : α → Bool) :
    (expand xs).countP p = sumNat xs (fun e => if p e.1 then e.2 else 0) := by
  induction xs with
  | nil => rfl
  | cons e es ih =>
    simp only [expand, List.countP_append, sumNat, ih, List.countP_replicate]

/-! ### the streaming mean -/

theorem meanRep_fst (x : Rat) (k n : Nat) (m : Rat) : (meanRep x k n m).1 = n + k := by
  induction k generalizing n m with
  | zero => rfl
  | succ k ih => rw [meanRep, ih]; omega

/-- invariant of the inner loop: `mean · n` is the running sum -/
theorem meanRep_snd (x : Rat) (k n : Nat) (m : Rat) :
    (meanRep x k n m).2 * ((n + k : Nat) : Rat) = m * (n : Rat) + (k : Rat) * x := by
  induction k generalizing n m with
  | zero => simp [meanRep]
  | succ k ih =>
    rw [meanRep]
    have h := ih (n + 1) (m + (x - m) / ((n + 1 : Nat) : Rat))
    have e : n + 1 + k = n + (k + 1) := by omega
    rw [e] at h
    rw [h]
    have hn : ((n + 1 : Nat) : Rat) ≠ 0 := by positivity
    push_cast at hn ⊢
    field_simp
    ring

theorem meanLoop_fst (xs : Entries) (n : Nat) (m : Rat) : (meanLoop xs n m).1 = n + totalMult xs := by
  induction xs generalizing n m with
  | nil => rfl
  | cons e es ih =>
    rw [meanLoop, ih, meanRep_fst]
    simp only [totalMult, sumNat]; omega

theorem meanLoop_snd (xs : Entries) (n : Nat) (m : Rat) :
    (meanLoop xs n m).2 * ((n + totalMult xs : Nat) : Rat) = m * (n : Rat) + weightedSum xs := by
  induction xs generalizing n m with
  | nil => simp [meanLoop, totalMult, weightedSum, sumNat, sumOver]
  | cons e es ih =>
    rw [meanLoop]
    have h := ih (meanRep e.1 e.2 n m).1 (meanRep e.1 e.2 n m).2
    rw [meanRep_fst] at h
    have e1 : n + e.2 + totalMult es = n + totalMult (e :: es) := by
      simp only [totalMult, sumNat]; omega
    rw [e1] at h
    rw [meanRep_fst, h, meanRep_snd]
    simp only [weightedSum, sumOver]
    ring

theorem meanLoop_zero (xs : Entries) (n : Nat) (m : Rat) (h : totalMult xs = 0) :
    meanLoop xs n m = (n, m) := by
  induction xs generalizing n m with
  | nil => rfl
  | cons e es ih =>
    simp only [totalMult, sumNat] at h
    have h1 : e.2 = 0 := by omega
    have h2 : totalMult es = 0 := by simp only [totalMult]; omega
    rw [meanLoop, h1]
    simp only [meanRep]
    exact ih n m h2

/-- `mean_generator` returns Σ multiplicity·value / Σ multiplicity, and 0 when there is no voter -/
theorem meanGen_eq' (xs : Entries) :
    meanGen xs = if totalMult xs = 0 then 0 else weightedSum xs / ((totalMult xs : Nat) : Rat) := by
  unfold meanGen
  by_cases h : totalMult xs = 0
  · rw [if_pos h, meanLoop_zero xs 0 0 h]
  · rw [if_neg h]
    have h1 := meanLoop_snd xs 0 0
    have hpos : ((totalMult xs : Nat) : Rat) ≠ 0 := by
      have : 0 < totalMult xs := Nat.pos_of_ne_zero h
      positivity
    rw [Nat.zero_add] at h1
    rw [eq_div_iff hpos, h1]
    ring

/-! ### Gini coefficient: cumulative formula = pairwise definition -/

/-- Σᵢ Σⱼ |xᵢ − xⱼ| -/
def pairAbs (l : List Rat) : Rat := sumOver l (fun x => sumOver l (fun y => |x - y|))

/-- the textbook Gini coefficient: mean absolute difference over twice the mean -/
def giniPairwise (l : List Rat) : Rat := pairAbs l / (2 * ((l.length : Nat) : Rat) * sumOver l id)

/-- weights `n, n-1, …, 1` along the list -/
def cumW : List Rat → Rat
  | [] => 0
  | v :: vs => v * ((vs.length + 1 : Nat) : Rat) + cumW vs

theorem cumFrom_eq (i : Nat) (l : List Rat) : cumFrom (i + l.length) i l = cumW l := by
  induction l generalizing i with
  | nil => rfl
  | cons v vs ih =>
    rw [cumFrom, cumW]
    have e : i + (v :: vs).length = (i + 1) + vs.length := by simp only [List.length_cons]; omega
    have e2 : i + (v :: vs).length - i = vs.length + 1 := by simp only [List.length_cons]; omega
    rw [e2, e, ih]

theorem sumOver_abs_ge (a : Rat) (l : List Rat) (h : ∀ y ∈ l, a ≤ y) :
    sumOver l (fun y => |a - y|) = sumOver l id - (l.length : Rat) * a := by
  rw [sumOver_congr l (fun y => |a - y|) (fun y => id y + (-a))]
  · rw [sumOver_add, sumOver_const]; ring
  · intro y hy
    have := h y hy
    rw [abs_of_nonpos (by linarith)]; simp only [id]; ring

theorem sumOver_abs_le (a : Rat) (l : List Rat) (h : ∀ y ∈ l, a ≤ y) :
    sumOver l (fun y => |y - a|) = sumOver l id - (l.length : Rat) * a := by
  rw [← sumOver_abs_ge a l h]
  exact sumOver_congr l _ _ (fun y _ => abs_sub_comm y a)

/-- on an ascending list the double sum of absolute differences is a weighted single sum -/
theorem pairAbs_sorted (l : List Rat) (hs : l.Pairwise (· ≤ ·)) :
    pairAbs l = 2 * ((l.length : Rat) + 1) * sumOver l id - 4 * cumW l := by
  induction l with
  | nil => simp [pairAbs, sumOver, cumW]
  | cons a l ih =>
    rw [List.pairwise_cons] at hs
    have iha := ih hs.2
    unfold pairAbs at iha ⊢
    have h1 : sumOver (a :: l) (fun x => sumOver (a :: l) (fun y => |x - y|)) =
        (|a - a| + sumOver l (fun y => |a - y|)) +
          (sumOver l (fun x => |x - a|) + sumOver l (fun x => sumOver l (fun y => |x - y|))) := by
      simp only [sumOver]
      rw [sumOver_add]
    rw [h1, iha, sumOver_abs_ge a l hs.1, sumOver_abs_le a l hs.1]
    simp only [sumOver, cumW, List.length_cons, sub_self, abs_zero, id]
    push_cast
    ring

theorem sumOver_nonneg {α : Type} (l : List α) (f : α → Rat) (h : ∀ x ∈ l, 0 ≤ f x) : 0 ≤ sumOver l f := by
  induction l with
  | nil => simp [sumOver]
  | cons a l ih =>
    simp only [sumOver]
    have := h a (by simp)
    have := ih (fun x hx => h x (by simp [hx]))
    linarith

/-- the cumulative formula on an ascending list with positive sum is the pairwise Gini coefficient -/
theorem gini_sorted_eq_pairwise (l : List Rat) (hs : l.Pairwise (· ≤ ·)) (hpos : 0 < sumOver l id) :
    (((l.length : Nat) : Rat) + 1 - 2 * cumW l / sumOver l id) / ((l.length : Nat) : Rat) = giniPairwise l := by
  have hn : l ≠ [] := by
    intro h; rw [h] at hpos; simp [sumOver] at hpos
  have hlen : 0 < l.length := List.length_pos_of_ne_nil hn
  have hl : (0 : Rat) < ((l.length : Nat) : Rat) := by exact_mod_cast hlen
  unfold giniPairwise
  rw [pairAbs_sorted l hs]
  have h1 : ((l.length : Nat) : Rat) ≠ 0 := ne_of_gt hl
  have h2 : sumOver l id ≠ 0 := ne_of_gt hpos
  field_simp
  ring

/-! #### sorting -/

theorem insertLe_perm {α : Type} (le : α → α → Bool) (x : α) (l : List α) :
    (insertLe le x l).Perm (x :: l) := by
  induction l with
  | nil => exact List.Perm.refl _
  | cons y ys ih =>
    unfold insertLe
    by_cases h : le x y = true
    · rw [if_pos h]
    · rw [if_neg h]
      exact (List.Perm.cons y ih).trans (List.Perm.swap x y ys)

theorem sortLe_perm {α : Type} (le : α → α → Bool) (l : List α) : (sortLe le l).Perm l := by
  induction l with
  | nil => exact List.Perm.refl _
  | cons x xs ih =>
    unfold sortLe at ih ⊢
    rw [List.foldr_cons]
    exact (insertLe_perm le x _).trans (List.Perm.cons x ih)

theorem insertRat_sorted (x : Rat) (l : List Rat) (hs : l.Pairwise (· ≤ ·)) :
    (insertLe (fun a b => decide (id a ≤ id b)) x l).Pairwise (· ≤ ·) := by
  induction l with
  | nil => simp [insertLe]
  | cons y ys ih =>
    unfold insertLe
    rw [List.pairwise_cons] at hs
    by_cases h : x ≤ y
    · rw [if_pos (by simpa using h)]
      rw [List.pairwise_cons]
      refine ⟨?_, List.pairwise_cons.mpr hs⟩
      intro z hz
      rcases List.mem_cons.mp hz with rfl | hz
      · exact h
      · exact le_trans h (hs.1 z hz)
    · rw [if_neg (by simpa using h)]
      rw [List.pairwise_cons]
      refine ⟨?_, ih hs.2⟩
      intro z hz
      have := (insertLe_perm (fun a b => decide (id a ≤ id b)) x ys).mem_iff.mp hz
      rcases List.mem_cons.mp this with rfl | hz'
      · exact le_of_lt (lt_of_not_ge h)
      · exact hs.1 z hz'

theorem sortRat_sorted (l : List Rat) : (sortRat l).Pairwise (· ≤ ·) := by
  unfold sortRat sortKey sortLe
  induction l with
  | nil => simp
  | cons x xs ih => rw [List.foldr_cons]; exact insertRat_sorted x _ ih

theorem sortRat_perm (l : List Rat) : (sortRat l).Perm l := sortLe_perm _ l

theorem sumOver_perm {α : Type} {l₁ l₂ : List α} (h : l₁.Perm l₂) (f : α → Rat) :
    sumOver l₁ f = sumOver l₂ f := by
  induction h with
  | nil => rfl
  | cons x _ ih => simp only [sumOver, ih]
  | swap x y l => simp only [sumOver]; ring
  | trans _ _ ih1 ih2 => rw [ih1, ih2]

theorem pairAbs_perm {l₁ l₂ : List Rat} (h : l₁.Perm l₂) : pairAbs l₁ = pairAbs l₂ := by
  unfold pairAbs
  rw [sumOver_perm h]
  exact sumOver_congr l₂ _ _ (fun x _ => sumOver_perm h _)

theorem giniPairwise_perm {l₁ l₂ : List Rat} (h : l₁.Perm l₂) : giniPairwise l₁ = giniPairwise l₂ := by
  unfold giniPairwise
  rw [pairAbs_perm h, sumOver_perm h, h.length_eq]

theorem allNul_false_of_pos (xs : List Rat) (hnn : ∀ x ∈ xs, 0 ≤ x) (hpos : 0 < sumOver xs id) :
    allNul xs = false := by
  by_contra hc
  have hc : allNul xs = true := by simpa using hc
  unfold allNul at hc
  rw [List.all_eq_true] at hc
  have : sumOver xs id = 0 := by
    rw [sumOver_congr xs id (fun _ => 0)]
    · rw [sumOver_const]; ring
    · intro x hx
      have h1 := hc x hx
      have h2 := hnn x hx
      simp only [Bool.not_eq_true', decide_eq_false_iff_not, not_lt] at h1
      exact le_antisymm h1 h2
  linarith

theorem allNul_of_zero (xs : List Rat) (h : ∀ x ∈ xs, x = 0) : allNul xs = true := by
  unfold allNul
  rw [List.all_eq_true]
  intro x hx
  rw [h x hx]
  simp

/-! ### histogram bins -/

theorem binOf_last (bins : Nat) (mx s : Rat) (h : mx ≤ s) : binOf bins mx s = bins - 1 := by
  unfold binOf; rw [if_pos h]

theorem binOf_lt (bins : Nat) (mx s : Rat) (hb : 0 < bins) (hs : 0 ≤ s) : binOf bins mx s < bins := by
  unfold binOf
  by_cases h : mx ≤ s
  · rw [if_pos h]; omega
  · rw [if_neg h]
    have hlt : s < mx := lt_of_not_ge h
    have hmx : 0 < mx := lt_of_le_of_lt hs hlt
    have hq : s * ((bins - 1 : Nat) : Rat) / mx ≤ (((bins - 1 : Nat) : Int) : Rat) := by
      rw [div_le_iff₀ hmx]
      have : (0 : Rat) ≤ ((bins - 1 : Nat) : Rat) := by positivity
      push_cast
      nlinarith
    have hc := (Rat.ceil_le_iff).mpr hq
    have : (Rat.ceil (s * ((bins - 1 : Nat) : Rat) / mx)).toNat ≤ bins - 1 := by
      rw [Int.toNat_le]; exact hc
    omega

/-- the bin the code assigns to a satisfaction below the normaliser: the unique `k` with
    `k - 1 < sat·(bins-1)/max ≤ k` -/
theorem binOf_char (bins : Nat) (mx s : Rat) (k : Nat) (hs : 0 ≤ s) (hlt : s < mx) :
    binOf bins mx s = k ↔
      ((k : Rat) - 1 < s * ((bins - 1 : Nat) : Rat) / mx ∧ s * ((bins - 1 : Nat) : Rat) / mx ≤ (k : Rat)) := by
  unfold binOf
  rw [if_neg (not_le.mpr hlt)]
  have hmx : 0 < mx := lt_of_le_of_lt hs hlt
  have hq0 : 0 ≤ s * ((bins - 1 : Nat) : Rat) / mx := by positivity
  have hc0 : 0 ≤ Rat.ceil (s * ((bins - 1 : Nat) : Rat) / mx) := by
    have : ((-1 : Int)) < Rat.ceil (s * ((bins - 1 : Nat) : Rat) / mx) := by
      rw [Rat.lt_ceil_iff]; push_cast; linarith
    omega
  have e1 : (Rat.ceil (s * ((bins - 1 : Nat) : Rat) / mx)).toNat = k ↔
      Rat.ceil (s * ((bins - 1 : Nat) : Rat) / mx) = (k : Int) := by
    constructor
    · intro h; rw [← h, Int.toNat_of_nonneg hc0]
    · intro h; rw [h]; simp
  rw [e1]
  have e2 : Rat.ceil (s * ((bins - 1 : Nat) : Rat) / mx) = (k : Int) ↔
      (((k : Int) - 1) < Rat.ceil (s * ((bins - 1 : Nat) : Rat) / mx) ∧
        Rat.ceil (s * ((bins - 1 : Nat) : Rat) / mx) ≤ (k : Int)) := by
    constructor
    · intro h; omega
    · intro h; omega
  rw [e2, Rat.lt_ceil_iff, Rat.ceil_le_iff]
  push_cast
  exact Iff.rfl

theorem sumNat_add {α : Type} (l : List α) (f g : α → Nat) :
    sumNat l (fun x => f x + g x) = sumNat l f + sumNat l g := by
  induction l with
  | nil => simp [sumNat]
  | cons a l ih => simp only [sumNat, ih]; omega

theorem sumNat_zero {α : Type} (l : List α) : sumNat l (fun _ => 0) = 0 := by
  induction l with
  | nil => rfl
  | cons a l ih => simp only [sumNat, ih]

theorem sumNat_range_indicator (bins c w : Nat) (h : c < bins) :
    sumNat (List.range bins) (fun k => if c = k then w else 0) = w := by
  induction bins with
  | zero => omega
  | succ n ih =>
    rw [List.range_succ, sumNat_append]
    simp only [sumNat]
    by_cases hc : c = n
    · subst hc
      have : sumNat (List.range c) (fun k => if c = k then w else 0) = 0 := by
        have hz : ∀ l : List Nat, (∀ k ∈ l, k < c) → sumNat l (fun k => if c = k then w else 0) = 0 := by
          intro l
          induction l with
          | nil => intro _; rfl
          | cons a l ihl =>
            intro hl
            simp only [sumNat]
            have h1 := hl a (by simp)
            rw [if_neg (by omega), ihl (fun k hk => hl k (by simp [hk]))]
        exact hz _ (fun k hk => List.mem_range.mp hk)
      rw [this]; simp
    · rw [ih (by omega), if_neg hc]; omega

/-- summing the per-bin weights over all bins gives the total weight, when every bin index is `< bins` -/
theorem sumNat_bins {α : Type} (xs : List α) (g w : α → Nat) (bins : Nat) (h : ∀ e ∈ xs, g e < bins) :
    sumNat (List.range bins) (fun k => sumNat xs (fun e => if g e = k then w e else 0)) = sumNat xs w := by
  induction xs with
  | nil => simp only [sumNat]; exact sumNat_zero _
  | cons e es ih =>
    simp only [sumNat]
    rw [sumNat_add, ih (fun x hx => h x (by simp [hx])), sumNat_range_indicator bins (g e) (w e) (h e (by simp))]

theorem sumOver_map {α β : Type} (l : List α) (g : α → β) (f : β → Rat) :
    sumOver (l.map g) f = sumOver l (fun x => f (g x)) := by
  induction l with
  | nil => rfl
  | cons a l ih => simp only [List.map_cons, sumOver, ih]

theorem sumOver_natCast {α : Type} (l : List α) (f : α → Nat) :
    sumOver l (fun x => ((f x : Nat) : Rat)) = ((sumNat l f : Nat) : Rat) := by
  induction l with
  | nil => simp [sumOver, sumNat]
  | cons a l ih => simp only [sumOver, sumNat, ih]; push_cast; ring

theorem sumOver_div {α : Type} (l : List α) (f : α → Rat) (c : Rat) :
    sumOver l (fun x => f x / c) = sumOver l f / c := by
  induction l with
  | nil => simp [sumOver]
  | cons a l ih => simp only [sumOver, ih]; ring

theorem histCount_sum (bins : Nat) (mx : Rat) (xs : Entries) (hb : 0 < bins) (hs : ∀ e ∈ xs, 0 ≤ e.1) :
    sumNat (List.range bins) (histCount bins mx xs) = totalMult xs := by
  unfold histCount totalMult
  exact sumNat_bins xs (fun e => binOf bins mx e.1) (fun e => e.2) bins (fun e he => binOf_lt bins mx e.1 hb (hs e he))

theorem hist_sum (bins : Nat) (mx : Rat) (xs : Entries) (hb : 0 < bins) (hs : ∀ e ∈ xs, 0 ≤ e.1)
    (ht : 0 < totalMult xs) : sumOver (hist bins mx xs) id = 1 := by
  unfold hist
  rw [sumOver_map]
  simp only [id]
  rw [sumOver_div, sumOver_natCast, histCount_sum bins mx xs hb hs]
  have : ((totalMult xs : Nat) : Rat) ≠ 0 := by positivity
  exact div_self this

end Pabu.Stats
