/-
  Lemmas about the analytics of a recorded Equal Shares run (PabuModel/MESAnalytics.lean):
  * project loss: along a faithful record (`Recorded`), for EVERY project the money its supporters
    hold at the start of an iteration plus what they spent on the projects bought before is the
    money they started with (`conserve_prefix`, `conserve_after`); the records of
    `projectLoss` are `mkLoss` records over prefixes of the record (`mem_lossGo`);
  * effective support: the running maximum (`effFold_*`);
  * project details: the lazy loop marks as discarded exactly the unaffordable projects among those
    it looks at before its `break` (`dropped_eq_filter`), it looks at a prefix of the visiting order
    (`reached_prefix`) and at everything when the round ties nothing (`reached_all`).
-/
import PabuModel.MESAnalytics
import PabuProofs.Lemmas.MES
import PabuProofs.Lemmas.MESLazy
namespace Pabu
namespace MESAnalytics
open MES MESLazy

/-! ### sums over voter entries and recorded lists -/

theorem sumOver_congr' {α : Type} {f g : α → Rat} : ∀ {l : List α}, (∀ x ∈ l, f x = g x) →
    sumOver l f = sumOver l g
  | [], _ => rfl
  | x :: xs, h => by
    simp only [sumOver, h x (by simp), sumOver_congr' (l := xs) (fun y hy => h y (by simp [hy]))]

theorem sumOver_add' {α : Type} (f g : α → Rat) : ∀ l : List α,
    sumOver l (fun x => f x + g x) = sumOver l f + sumOver l g
  | [] => by simp [sumOver]
  | x :: xs => by simp only [sumOver, sumOver_add' f g xs]; ring

theorem zsum_map (f : Nat → Rat → Rat) (g : Nat → Rat) : ∀ l : List Nat,
    zsum f l (l.map g) = sumOver l (fun i => f i (g i))
  | [] => rfl
  | i :: is => by simp only [List.map_cons, zsum, sumOver, zsum_map f g is]

theorem zipWith_sub_map (g h : Nat → Rat) : ∀ l : List Nat,
    List.zipWith (fun x y => x - y) (l.map g) (l.map h) = l.map (fun i => g i - h i)
  | [] => rfl
  | i :: is => by simp only [List.map_cons, List.zipWith_cons_cons, zipWith_sub_map g h is]

/-- a sum over the supporters is a guarded sum over all voter entries -/
theorem sumOver_supporters (V : VCtx) (p : Pid) (f : Nat → Rat) :
    sumOver (supporters V p) f = sumOver V.vs (fun i => if 0 < V.u i p then f i else 0) := by
  unfold supporters
  induction V.vs with
  | nil => rfl
  | cons i is ih =>
    by_cases h : 0 < V.u i p
    · rw [List.filter_cons_of_pos (by simpa using h)]
      simp only [sumOver, if_pos h, ih]
    · rw [List.filter_cons_of_neg (by simpa using h)]
      simp only [sumOver, if_neg h, ih]; ring

/-- the supporters' money, computed from the recorded list of budgets -/
theorem supBudget_budgets (V : VCtx) (p : Pid) (b : Nat → Rat) :
    supBudget V p (budgets V b) =
      sumOver V.vs (fun i => if 0 < V.u i p then (V.m i : Rat) * b i else 0) := by
  unfold supBudget budgets
  rw [zsum_map]

theorem shares_iff (V : VCtx) (p q : Pid) :
    shares V p q = true ↔ ∃ i ∈ V.vs, 0 < V.u i p ∧ 0 < V.u i q := by
  unfold shares
  simp only [List.any_eq_true, Bool.and_eq_true, decide_eq_true_eq]

/-! ### project loss along a faithful record -/

/-- what the record of `p` lists as spent on the purchases of the iterations `pre` -/
def lostSum (V : VCtx) (p : Pid) (pre : List Iteration) : Rat :=
  sumOver (pre.filterMap (lostEntry V p)) Prod.snd

theorem mkLoss_total (V : VCtx) (p : Pid) (money : List Rat) (earlier : List Iteration) :
    (mkLoss V p money earlier).total = lostSum V p earlier := rfl

theorem lostSum_nil (V : VCtx) (p : Pid) : lostSum V p [] = 0 := rfl

theorem lostSum_append (V : VCtx) (p : Pid) (l l' : List Iteration) :
    lostSum V p (l ++ l') = lostSum V p l + lostSum V p l' := by
  unfold lostSum
  rw [List.filterMap_append, MES.sumOver_append]

/-- what a recorded purchase of `t` at price `r` from budgets `b` contributes to the record of `p`:
    exactly what the supporters of `p` paid for `t` (with multiplicity) -/
theorem lostSum_purchase (V : VCtx) (p t : Pid) (r : Rat) (b : Nat → Rat) :
    lostSum V p [⟨budgets V b, some t, some r, budgets V (fun i => b i - pay V b t r i)⟩] =
      sumOver V.vs (fun i => if 0 < V.u i p then (V.m i : Rat) * pay V b t r i else 0) := by
  have hlost : lostTo V p t ⟨budgets V b, some t, some r, budgets V (fun i => b i - pay V b t r i)⟩ =
      sumOver V.vs (fun i => if 0 < V.u i p ∧ 0 < V.u i t then (V.m i : Rat) * pay V b t r i else 0) := by
    unfold lostTo spent budgets
    simp only []
    rw [zipWith_sub_map, zsum_map]
    apply sumOver_congr'
    intro i _
    have : b i - (b i - pay V b t r i) = pay V b t r i := by ring
    rw [this]
  unfold lostSum
  by_cases hs : shares V p t = true
  · have he : lostEntry V p ⟨budgets V b, some t, some r, budgets V (fun i => b i - pay V b t r i)⟩ =
        some (t, lostTo V p t ⟨budgets V b, some t, some r, budgets V (fun i => b i - pay V b t r i)⟩) := by
      unfold lostEntry; simp only []; rw [if_pos hs]
    rw [List.filterMap_cons_some he, List.filterMap_nil]
    simp only [sumOver, add_zero]
    rw [hlost]
    apply sumOver_congr'
    intro i _
    by_cases hp : 0 < V.u i p
    · by_cases ht : 0 < V.u i t
      · rw [if_pos ⟨hp, ht⟩, if_pos hp]
      · rw [if_neg (fun h => ht h.2), if_pos hp, pay_nonsupporter V b t r i ht]; ring
    · rw [if_neg (fun h => hp h.1), if_neg hp]
  · have he : lostEntry V p ⟨budgets V b, some t, some r, budgets V (fun i => b i - pay V b t r i)⟩ = none := by
      unfold lostEntry; simp only []; rw [if_neg hs]
    rw [List.filterMap_cons_none he, List.filterMap_nil]
    simp only [sumOver]
    symm
    apply MES.sumOver_zero
    intro i hi
    by_cases hp : 0 < V.u i p
    · rw [if_pos hp]
      have ht : ¬ 0 < V.u i t := fun ht => hs ((shares_iff V p t).mpr ⟨i, hi, hp, ht⟩)
      rw [pay_nonsupporter V b t r i ht]; ring
    · rw [if_neg hp]

theorem singleton_split {α : Type} {x it : α} {pre post : List α} (h : [x] = pre ++ it :: post) :
    pre = [] ∧ it = x ∧ post = [] := by
  cases pre with
  | nil =>
    simp only [List.nil_append, List.cons.injEq] at h
    exact ⟨rfl, h.1.symm, h.2.symm⟩
  | cons a pre' =>
    have := congrArg List.length h
    simp at this

/-- **conservation, start of an iteration**: for every project `p` and every iteration `it` of a
    faithful record, the money the supporters of `p` hold at the start of `it` plus what the record
    of `p` lists for the iterations before `it` is the money they held in the initial state -/
theorem conserve_prefix {V : VCtx} {cost : Pid → Rat} {s s' : State} {L : List Iteration}
    (h : Recorded V cost s L s') (p : Pid) :
    ∀ pre it post, L = pre ++ it :: post →
      supBudget V p it.before + lostSum V p pre =
        sumOver V.vs (fun i => if 0 < V.u i p then (V.m i : Rat) * s.b i else 0) := by
  induction h with
  | stop s =>
    intro pre it post hL
    obtain ⟨rfl, rfl, rfl⟩ := singleton_split hL
    rw [lostSum_nil, add_zero]
    exact supBudget_budgets V p s.b
  | step s t r rest s' ht hr hb hrec ih =>
    intro pre it post hL
    cases pre with
    | nil =>
      simp only [List.nil_append, List.cons.injEq] at hL
      rw [← hL.1, lostSum_nil, add_zero]
      exact supBudget_budgets V p s.b
    | cons a pre' =>
      simp only [List.cons_append, List.cons.injEq] at hL
      have h1 := ih pre' it post hL.2
      have hb' : (buy V cost s t).b = fun i => s.b i - pay V s.b t r i := by rw [buy_some hr]
      have h2 : lostSum V p (a :: pre') = lostSum V p [a] + lostSum V p pre' :=
        lostSum_append V p [a] pre'
      rw [h2, ← hL.1, hb', lostSum_purchase]
      rw [hb'] at h1
      have h3 : supBudget V p it.before + lostSum V p pre' +
          sumOver V.vs (fun i => if 0 < V.u i p then (V.m i : Rat) * pay V s.b t r i else 0) =
          sumOver V.vs (fun i => if 0 < V.u i p then (V.m i : Rat) * s.b i else 0) := by
        rw [h1, ← sumOver_add']
        apply sumOver_congr'
        intro i _
        by_cases hp : 0 < V.u i p
        · rw [if_pos hp, if_pos hp, if_pos hp]; ring
        · rw [if_neg hp, if_neg hp, if_neg hp]; ring
      linarith

/-- the iterations before the last one select something; a selecting iteration has a successor -/
theorem selected_has_next {V : VCtx} {cost : Pid → Rat} {s s' : State} {L : List Iteration}
    (h : Recorded V cost s L s') {pre : List Iteration} {it : Iteration} {post : List Iteration}
    {t : Pid} (hL : L = pre ++ it :: post) (hsel : it.selected = some t) :
    ∃ it' post', post = it' :: post' := by
  cases post with
  | cons it' post' => exact ⟨it', post', rfl⟩
  | nil =>
    exfalso
    have hlast := h.last
    rw [hL] at hlast
    have : (pre ++ [it]).getLast? = some it := by simp
    rw [this] at hlast
    have := Option.some.inj hlast
    rw [this] at hsel
    cases hsel

/-- **conservation, end of a selecting iteration** (the records of the discarded and of the
    remaining projects): money after the purchase plus what was spent up to and including it -/
theorem conserve_after {V : VCtx} {cost : Pid → Rat} {s s' : State} {L : List Iteration}
    (h : Recorded V cost s L s') (p : Pid) {pre : List Iteration} {it : Iteration}
    {post : List Iteration} {t : Pid} (hL : L = pre ++ it :: post) (hsel : it.selected = some t) :
    supBudget V p it.after + lostSum V p (pre ++ [it]) =
      sumOver V.vs (fun i => if 0 < V.u i p then (V.m i : Rat) * s.b i else 0) := by
  obtain ⟨it', post', rfl⟩ := selected_has_next h hL hsel
  have hch := h.chain it it' pre post' hL
  rw [hch]
  exact conserve_prefix h p (pre ++ [it]) it' post' (by rw [hL]; simp)

/-- a faithful record is its selecting iterations followed by the stop entry -/
theorem selecting_split {V : VCtx} {cost : Pid → Rat} {s s' : State} {L : List Iteration}
    (h : Recorded V cost s L s') : L = selecting L ++ [⟨budgets V s'.b, none, none, []⟩] := by
  induction h with
  | stop s => rfl
  | step s t r rest s' ht hr hb hrec ih =>
    have : selecting (⟨budgets V s.b, some t, some r, budgets V (buy V cost s t).b⟩ :: rest) =
        ⟨budgets V s.b, some t, some r, budgets V (buy V cost s t).b⟩ :: selecting rest := by
      unfold selecting
      rw [List.filter_cons_of_pos (by simp)]
    rw [this, List.cons_append, ← ih]

/-- every record `projectLoss` emits is a `mkLoss` record: of the selected project with the money
    at the start of its iteration and the purchases before, or of another project with the money at
    the end of a selecting iteration and the purchases up to and including it -/
theorem mem_lossGo (V : VCtx) : ∀ (L' : List (Iteration × List Pid × List Pid)) (done : List Iteration)
    (x : Loss), x ∈ lossGo V done L' →
    ∃ pre e post, L' = pre ++ e :: post ∧
      ((∃ t, e.1.selected = some t ∧ x = mkLoss V t e.1.before (done ++ pre.map Prod.fst)) ∨
       (∃ t q, e.1.selected = some t ∧
          x = mkLoss V q e.1.after (done ++ pre.map Prod.fst ++ [e.1])))
  | [], _, x, hx => by simp [lossGo] at hx
  | e :: rest, done, x, hx => by
    rw [lossGo] at hx
    rcases List.mem_append.mp hx with h1 | h1
    · refine ⟨[], e, rest, rfl, ?_⟩
      unfold lossOf at h1
      cases hsel : e.1.selected with
      | none => rw [hsel] at h1; simp at h1
      | some t =>
        rw [hsel] at h1
        simp only [List.mem_cons, List.mem_map] at h1
        rcases h1 with h1 | ⟨q, _, h1⟩
        · left; exact ⟨t, rfl, by simpa using h1⟩
        · right; exact ⟨t, q, rfl, by simpa using h1.symm⟩
    · obtain ⟨pre, e', post, hsplit, hcase⟩ := mem_lossGo V rest (done ++ [e.1]) x h1
      refine ⟨e :: pre, e', post, by rw [hsplit]; rfl, ?_⟩
      rcases hcase with ⟨t, ht, hx'⟩ | ⟨t, q, ht, hx'⟩
      · left; refine ⟨t, ht, ?_⟩
        rw [hx']; simp
      · right; refine ⟨t, q, ht, ?_⟩
        rw [hx']; simp

/-- entries of `budget_lost`: earlier purchases that share a supporter with the project -/
theorem mem_budgetLost (V : VCtx) (p : Pid) (money : List Rat) (earlier : List Iteration) (q : Pid)
    (x : Rat) : (q, x) ∈ (mkLoss V p money earlier).budgetLost ↔
      ∃ it ∈ earlier, it.selected = some q ∧ (∃ i ∈ V.vs, 0 < V.u i p ∧ 0 < V.u i q) ∧
        x = lostTo V p q it := by
  unfold mkLoss
  simp only [List.mem_filterMap]
  constructor
  · rintro ⟨it, hit, he⟩
    refine ⟨it, hit, ?_⟩
    unfold lostEntry at he
    cases hsel : it.selected with
    | none => rw [hsel] at he; cases he
    | some q' =>
      rw [hsel] at he
      simp only [] at he
      by_cases hs : shares V p q' = true
      · rw [if_pos hs] at he
        have := Option.some.inj he
        have hq : q' = q := congrArg Prod.fst this
        have hx : lostTo V p q' it = x := congrArg Prod.snd this
        subst hq
        exact ⟨rfl, (shares_iff V p q').mp hs, hx.symm⟩
      · rw [if_neg hs] at he; cases he
  · rintro ⟨it, hit, hsel, hsh, hx⟩
    refine ⟨it, hit, ?_⟩
    unfold lostEntry
    rw [hsel]
    simp only []
    rw [if_pos ((shares_iff V p q).mpr hsh), hx]

/-! ### effective support: the running maximum -/

theorem effFold_ge_acc (V : VCtx) (cost : Pid → Rat) (p : Pid) : ∀ (L : List Iteration) (acc : Int),
    acc ≤ effFold V cost p acc L
  | [], acc => le_refl _
  | it :: rest, acc => by
    rw [effFold]
    exact le_trans (le_max_left _ _) (effFold_ge_acc V cost p rest _)

theorem effFold_append (V : VCtx) (cost : Pid → Rat) (p : Pid) : ∀ (L L' : List Iteration) (acc : Int),
    effFold V cost p acc (L ++ L') = effFold V cost p (effFold V cost p acc L) L'
  | [], _, _ => rfl
  | it :: rest, L', acc => by
    rw [List.cons_append, effFold, effFold, effFold_append V cost p rest L']

theorem effFold_ge_iter (V : VCtx) (cost : Pid → Rat) (p : Pid) : ∀ (L : List Iteration) (acc : Int),
    ∀ it ∈ L, effOfIter V cost p it ≤ effFold V cost p acc L
  | [], _, it, h => by simp at h
  | it0 :: rest, acc, it, h => by
    rw [effFold]
    rcases List.mem_cons.mp h with rfl | h
    · exact le_trans (le_max_right _ _) (effFold_ge_acc V cost p rest _)
    · exact effFold_ge_iter V cost p rest _ it h

theorem effFold_attained (V : VCtx) (cost : Pid → Rat) (p : Pid) : ∀ (L : List Iteration) (acc : Int),
    effFold V cost p acc L = acc ∨ ∃ it ∈ L, effFold V cost p acc L = effOfIter V cost p it
  | [], _ => Or.inl rfl
  | it0 :: rest, acc => by
    rw [effFold]
    rcases effFold_attained V cost p rest (max acc (effOfIter V cost p it0)) with h | ⟨it, hit, h⟩
    · rw [h]
      rcases max_choice acc (effOfIter V cost p it0) with hm | hm
      · left; exact hm
      · right; exact ⟨it0, by simp, hm⟩
    · right; exact ⟨it, by simp [hit], h⟩

/-! ### project details: what the lazy loop marks as discarded -/

variable {V : VCtx} {cost : Pid → Rat} {b : Nat → Rat}

theorem stepLog_stopped (bin : Bool) (x : Log) (p : Pid) (h : x.acc.stopped = true) :
    stepLog V cost bin b x p = x := by
  unfold stepLog; rw [if_pos h]

theorem stepLog_go (bin : Bool) (x : Log) (p : Pid) (h : ¬ x.acc.stopped = true) :
    stepLog V cost bin b x p =
      ⟨step V cost bin b x.acc p, x.seen ++ [p], pricedStep V cost bin b x.acc p x.priced⟩ := by
  unfold stepLog; rw [if_neg h]

theorem foldl_stepLog_stopped (bin : Bool) : ∀ (l : List Pid) (x : Log), x.acc.stopped = true →
    l.foldl (stepLog V cost bin b) x = x
  | [], _, _ => rfl
  | p :: l, x, h => by
    rw [List.foldl_cons, stepLog_stopped bin x p h]
    exact foldl_stepLog_stopped bin l x h

/-- the log carries the accumulator of the plain loop -/
theorem foldl_stepLog_acc (bin : Bool) : ∀ (l : List Pid) (x : Log),
    (l.foldl (stepLog V cost bin b) x).acc = l.foldl (step V cost bin b) x.acc
  | [], _ => rfl
  | p :: l, x => by
    rw [List.foldl_cons, List.foldl_cons, foldl_stepLog_acc bin l]
    by_cases h : x.acc.stopped = true
    · rw [stepLog_stopped bin x p h, step_stopped bin x.acc p h]
    · rw [stepLog_go bin x p h]

theorem scanLog_acc (V : VCtx) (cost : Pid → Rat) (bin : Bool) (s : LState) :
    (scanLog V cost bin s).acc = scan V cost bin s := by
  unfold scanLog scan
  rw [foldl_stepLog_acc]

/-- what one loop iteration does to the list of removed projects -/
theorem step_dropped (bin : Bool) (a : Acc) (p : Pid) (h : ¬ a.stopped = true) :
    (step V cost bin b a p).dropped =
      if budSum (sups V b p) < cost p then a.dropped ++ [p] else a.dropped := by
  unfold step
  rw [if_neg h]
  by_cases hu : budSum (sups V b p) < cost p
  · rw [if_pos hu, if_pos hu]
  · rw [if_neg hu, if_neg hu]
    by_cases he : exceeds (a.aff p) a.best = true
    · rw [if_pos he]
    · rw [if_neg he]
      cases price V cost bin b p with
      | none => rfl
      | some r => exact record_dropped a p r

/-- the removed projects are the unaffordable ones among the projects looked at -/
theorem foldl_dropped (bin : Bool) : ∀ (l : List Pid) (x : Log),
    x.acc.dropped = x.seen.filter (fun p => decide (budSum (sups V b p) < cost p)) →
    (l.foldl (stepLog V cost bin b) x).acc.dropped =
      (l.foldl (stepLog V cost bin b) x).seen.filter (fun p => decide (budSum (sups V b p) < cost p))
  | [], _, h => h
  | p :: l, x, h => by
    rw [List.foldl_cons]
    apply foldl_dropped bin l
    by_cases hs : x.acc.stopped = true
    · rw [stepLog_stopped bin x p hs]; exact h
    · rw [stepLog_go bin x p hs]
      simp only []
      rw [step_dropped bin x.acc p hs, List.filter_append, h]
      by_cases hu : budSum (sups V b p) < cost p
      · rw [if_pos hu, List.filter_cons_of_pos (by simpa using hu), List.filter_nil]
      · rw [if_neg hu, List.filter_cons_of_neg (by simpa using hu), List.filter_nil, List.append_nil]

theorem dropped_eq_filter (V : VCtx) (cost : Pid → Rat) (bin : Bool) (s : LState) :
    (scan V cost bin s).dropped =
      (reached V cost bin s).filter (fun p => decide (budSum (sups V s.b p) < cost p)) := by
  rw [← scanLog_acc]
  unfold reached scanLog
  exact foldl_dropped bin (visit s) ⟨acc0 s, [], []⟩ rfl

/-- the loop looks at a prefix of the list it walks -/
theorem foldl_seen_prefix (bin : Bool) : ∀ (l : List Pid) (x : Log),
    ∃ k, (l.foldl (stepLog V cost bin b) x).seen = x.seen ++ l.take k
  | [], x => ⟨0, by simp⟩
  | p :: l, x => by
    rw [List.foldl_cons]
    by_cases hs : x.acc.stopped = true
    · rw [stepLog_stopped bin x p hs, foldl_stepLog_stopped bin l x hs]
      exact ⟨0, by simp⟩
    · obtain ⟨k, hk⟩ := foldl_seen_prefix bin l (stepLog V cost bin b x p)
      rw [hk, stepLog_go bin x p hs]
      exact ⟨k + 1, by simp⟩

theorem reached_prefix (V : VCtx) (cost : Pid → Rat) (bin : Bool) (s : LState) :
    reached V cost bin s <+: visit s := by
  unfold reached scanLog
  obtain ⟨k, hk⟩ := foldl_seen_prefix (V := V) (cost := cost) (b := s.b) bin (visit s) ⟨acc0 s, [], []⟩
  rw [hk]
  simpa using List.take_prefix k (visit s)

/-- a loop that ends without `break` has looked at everything -/
theorem foldl_seen_all (bin : Bool) : ∀ (l : List Pid) (x : Log),
    ¬ (l.foldl (stepLog V cost bin b) x).acc.stopped = true →
    (l.foldl (stepLog V cost bin b) x).seen = x.seen ++ l
  | [], x, _ => by simp
  | p :: l, x, h => by
    by_cases hs : x.acc.stopped = true
    · rw [foldl_stepLog_stopped bin (p :: l) x hs] at h
      exact absurd hs h
    · rw [List.foldl_cons] at h ⊢
      rw [foldl_seen_all bin l _ h, stepLog_go bin x p hs]
      simp

/-- loop invariant: the loop has not stopped while no price was found, and once a price was found
    a project is tied -/
def NoBreak (a : Acc) : Prop := (a.best = none → ¬ a.stopped = true) ∧ (a.best ≠ none → a.tied ≠ [])

theorem record_noBreak (a : Acc) (p : Pid) (r : Rat) (h : NoBreak a) : NoBreak (record a p r) := by
  unfold record
  by_cases h1 : improves r a.best = true
  · rw [if_pos h1]
    exact ⟨fun hb => by simp at hb, fun _ => by simp⟩
  · rw [if_neg h1]
    by_cases h2 : a.best = some r
    · rw [if_pos h2]
      refine ⟨fun hb => ?_, fun _ => by simp⟩
      simp only [] at hb
      rw [h2] at hb; cases hb
    · rw [if_neg h2]
      exact ⟨fun hb => h.1 hb, fun hb => h.2 hb⟩

theorem step_noBreak (bin : Bool) (a : Acc) (p : Pid) (h : NoBreak a) :
    NoBreak (step V cost bin b a p) := by
  unfold step
  by_cases hs : a.stopped = true
  · rw [if_pos hs]; exact h
  · rw [if_neg hs]
    by_cases hu : budSum (sups V b p) < cost p
    · rw [if_pos hu]; exact ⟨fun hb => h.1 hb, fun hb => h.2 hb⟩
    · rw [if_neg hu]
      by_cases he : exceeds (a.aff p) a.best = true
      · rw [if_pos he]
        obtain ⟨bb, hbb, _⟩ := exceeds_true.mp he
        refine ⟨fun hb => ?_, fun hb => h.2 hb⟩
        simp only [] at hb
        rw [hbb] at hb; cases hb
      · rw [if_neg he]
        cases price V cost bin b p with
        | none => exact h
        | some r => exact record_noBreak a p r h

theorem foldl_noBreak (bin : Bool) : ∀ (l : List Pid) (a : Acc), NoBreak a →
    NoBreak (l.foldl (step V cost bin b) a)
  | [], _, h => h
  | p :: l, a, h => by
    rw [List.foldl_cons]
    exact foldl_noBreak bin l _ (step_noBreak bin a p h)

theorem scan_noBreak (V : VCtx) (cost : Pid → Rat) (bin : Bool) (s : LState) :
    NoBreak (scan V cost bin s) := by
  unfold scan
  exact foldl_noBreak bin (visit s) (acc0 s) ⟨fun _ => by simp [acc0], fun hb => absurd rfl hb⟩

/-- a round that ties nothing has looked at the whole pool -/
theorem reached_all (V : VCtx) (cost : Pid → Rat) (bin : Bool) (s : LState)
    (h : tiedLazy V cost bin s = []) : reached V cost bin s = visit s := by
  have hnb := scan_noBreak V cost bin s
  have hbest : (scan V cost bin s).best = none := by
    by_contra hb
    exact hnb.2 hb h
  have hns : ¬ (scan V cost bin s).stopped = true := hnb.1 hbest
  unfold reached scanLog
  have := foldl_seen_all (V := V) (cost := cost) (b := s.b) bin (visit s) ⟨acc0 s, [], []⟩
    (by rw [foldl_stepLog_acc]; exact hns)
  simpa using this

/-- once a price has been found, `best` stays a price -/
theorem step_best_some (bin : Bool) (a : Acc) (p : Pid) (h : a.best ≠ none) :
    (step V cost bin b a p).best ≠ none := by
  unfold step
  by_cases hs : a.stopped = true
  · rw [if_pos hs]; exact h
  · rw [if_neg hs]
    by_cases hu : budSum (sups V b p) < cost p
    · rw [if_pos hu]; exact h
    · rw [if_neg hu]
      by_cases he : exceeds (a.aff p) a.best = true
      · rw [if_pos he]; exact h
      · rw [if_neg he]
        cases price V cost bin b p with
        | none => exact h
        | some r =>
          simp only []
          unfold record
          by_cases h1 : improves r a.best = true
          · rw [if_pos h1]; simp
          · rw [if_neg h1]
            by_cases h2 : a.best = some r
            · rw [if_pos h2]; exact h
            · rw [if_neg h2]; exact h

theorem foldl_best_some (bin : Bool) : ∀ (l : List Pid) (a : Acc), a.best ≠ none →
    (l.foldl (step V cost bin b) a).best ≠ none
  | [], _, h => h
  | p :: l, a, h => by
    rw [List.foldl_cons]
    exact foldl_best_some bin l _ (step_best_some bin a p h)

/-- if the loop ends without a price, no project it walked over had the money and a price -/
theorem foldl_no_price (bin : Bool) : ∀ (l : List Pid) (a : Acc), NoBreak a →
    (l.foldl (step V cost bin b) a).best = none →
    ∀ q ∈ l, ¬ budSum (sups V b q) < cost q → price V cost bin b q = none
  | [], _, _, _, q, hq, _ => by simp at hq
  | p :: l, a, hnb, hfin, q, hq, haff => by
    rw [List.foldl_cons] at hfin
    rcases List.mem_cons.mp hq with rfl | hq
    · by_contra hpr
      have hbn : a.best = none := by
        by_contra hb
        exact foldl_best_some bin l _ (step_best_some bin a q hb) hfin
      have hns : ¬ a.stopped = true := hnb.1 hbn
      obtain ⟨r, hr⟩ := Option.ne_none_iff_exists'.mp hpr
      have hstep : (step V cost bin b a q).best ≠ none := by
        unfold step
        rw [if_neg hns, if_neg haff]
        have he : ¬ exceeds (a.aff q) a.best = true := by rw [hbn]; simp [exceeds]
        rw [if_neg he, hr]
        simp only []
        unfold record
        have hi : improves r a.best = true := by rw [hbn]; rfl
        rw [if_pos hi]; simp
      exact foldl_best_some bin l _ hstep hfin
    · exact foldl_no_price bin l _ (step_noBreak bin a p hnb) hfin q hq haff

/-! ### the recorded details come from lazy states -/

theorem traceL_zero (V : VCtx) (cost : Pid → Rat) (order : List Pid → Except Err (List Pid))
    (bin : Bool) (s : LState) :
    traceL V cost order bin 0 s = .ok [detailsOf V cost bin s none []] := rfl

theorem traceL_succ (V : VCtx) (cost : Pid → Rat) (order : List Pid → Except Err (List Pid))
    (bin : Bool) (n : Nat) (s : LState) : traceL V cost order bin (n + 1) s =
    if tiedLazy V cost bin s = [] then .ok [detailsOf V cost bin s none []]
    else match orderIfTie order (tiedLazy V cost bin s) with
      | .error e => .error e
      | .ok [] => .ok [detailsOf V cost bin s none []]
      | .ok (t :: _) =>
        match traceL V cost order bin n (buyLazy V cost bin s t) with
        | .error e => .error e
        | .ok rest =>
          .ok (detailsOf V cost bin s (some t) (budgets V (buyLazy V cost bin s t).b) :: rest) := by
  rw [traceL]; rfl

/-- every recorded iteration lists the pool, the removals and the budgets of one lazy state; an
    iteration that selects nothing with fuel left is one whose round tied nothing or whose
    tie-breaking returned nothing -/
theorem traceL_details {V : VCtx} {cost : Pid → Rat} {order : List Pid → Except Err (List Pid)}
    (bin : Bool) : ∀ (n : Nat) (s : LState) (D : List Details),
    traceL V cost order bin n s = .ok D →
    ∀ d ∈ D, ∃ s' : LState, d.pool = s'.pool ∧ d.discarded = (scan V cost bin s').dropped ∧
      d.before = budgets V s'.b ∧ d.rho = (scan V cost bin s').best := by
  intro n
  induction n with
  | zero =>
    intro s D h d hd
    rw [traceL_zero] at h; cases h
    have : d = detailsOf V cost bin s none [] := by simpa using hd
    subst this
    exact ⟨s, rfl, rfl, rfl, rfl⟩
  | succ n ih =>
    intro s D h d hd
    rw [traceL_succ] at h
    by_cases hT : tiedLazy V cost bin s = []
    · rw [if_pos hT] at h; cases h
      have : d = detailsOf V cost bin s none [] := by simpa using hd
      subst this
      exact ⟨s, rfl, rfl, rfl, rfl⟩
    · rw [if_neg hT] at h
      cases ho : orderIfTie order (tiedLazy V cost bin s) with
      | error e => rw [ho] at h; cases h
      | ok l =>
        rw [ho] at h
        cases l with
        | nil =>
          cases h
          have : d = detailsOf V cost bin s none [] := by simpa using hd
          subst this
          exact ⟨s, rfl, rfl, rfl, rfl⟩
        | cons t tl =>
          dsimp only at h
          cases hr : traceL V cost order bin n (buyLazy V cost bin s t) with
          | error e => rw [hr] at h; cases h
          | ok rest =>
            rw [hr] at h
            cases h
            rcases List.mem_cons.mp hd with rfl | hd
            · exact ⟨s, rfl, rfl, rfl, rfl⟩
            · exact ih _ _ hr d hd

end MESAnalytics
end Pabu
