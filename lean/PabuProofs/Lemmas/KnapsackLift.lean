/-
  Lemmas for C04, second part: lifting the knapsack optimality (`Knap.solve`) to
  `MaxWelfare.primalDual` on instances (zero-cost projects, sorting by efficiency, index <-> project).
-/
import PabuProofs.Lemmas.Knapsack
import Mathlib.Data.List.Nodup
import Mathlib.Data.List.GetD
import Mathlib.Algebra.BigOperators.Group.List.Basic
open Finset
namespace Pabu
namespace Knap

/-! ### generic list facts (kept in this namespace to avoid clashes) -/

theorem sumOver_perm {α : Type} {l1 l2 : List α} (h : l1.Perm l2) (f : α → Rat) :
    sumOver l1 f = sumOver l2 f := by
  rw [sumOver_eq_map_sum, sumOver_eq_map_sum]; exact (h.map f).sum_eq

theorem sumOver_map {α β : Type} (l : List β) (g : β → α) (f : α → Rat) :
    sumOver (l.map g) f = sumOver l (fun i => f (g i)) := by
  induction l with
  | nil => rfl
  | cons a l ih => simp only [List.map_cons, sumOver, ih]

theorem sumOver_congr {α : Type} {l : List α} {f g : α → Rat} (h : ∀ x ∈ l, f x = g x) :
    sumOver l f = sumOver l g := by
  induction l with
  | nil => rfl
  | cons a l ih =>
    simp only [sumOver]
    rw [h a List.mem_cons_self, ih (fun x hx => h x (List.mem_cons_of_mem _ hx))]

theorem sumOver_zero {α : Type} {l : List α} {f : α → Rat} (h : ∀ x ∈ l, f x = 0) : sumOver l f = 0 := by
  induction l with
  | nil => rfl
  | cons a l ih =>
    simp only [sumOver]
    rw [h a List.mem_cons_self, ih (fun x hx => h x (List.mem_cons_of_mem _ hx))]; ring

theorem sumOver_filter_ite {α : Type} (l : List α) (q : α → Bool) (f : α → Rat) :
    sumOver (l.filter q) f = sumOver l (fun x => if q x then f x else 0) := by
  induction l with
  | nil => rfl
  | cons a l ih =>
    by_cases hq : q a = true
    · rw [List.filter_cons_of_pos hq]; simp only [sumOver, ih, hq, if_true]
    · rw [List.filter_cons_of_neg hq]; simp only [sumOver, ih, hq]; simp

theorem sumOver_filter_add {α : Type} (l : List α) (q : α → Bool) (f : α → Rat) :
    sumOver l f = sumOver (l.filter q) f + sumOver (l.filter (fun x => !q x)) f := by
  induction l with
  | nil => simp [sumOver]
  | cons a l ih =>
    by_cases hq : q a = true
    · rw [List.filter_cons_of_pos hq, List.filter_cons_of_neg (by simp [hq])]
      simp only [sumOver]; rw [ih]; ring
    · rw [List.filter_cons_of_neg hq, List.filter_cons_of_pos (by simp [hq])]
      simp only [sumOver]; rw [ih]; ring

theorem sumOver_le_of_subset {α : Type} [DecidableEq α] {A B : List α} (f : α → Rat)
    (hA : A.Nodup) (hB : B.Nodup) (hsub : A ⊆ B) (hf : ∀ x ∈ B, 0 ≤ f x) : sumOver A f ≤ sumOver B f := by
  rw [sumOver_eq_map_sum, sumOver_eq_map_sum, ← List.sum_toFinset f hA, ← List.sum_toFinset f hB]
  apply Finset.sum_le_sum_of_subset_of_nonneg
  · intro x hx; exact List.mem_toFinset.mpr (hsub (List.mem_toFinset.mp hx))
  · intro x hx _; exact hf x (List.mem_toFinset.mp hx)

theorem sum_range_getD (L : List Pid) (g : Pid → Rat) :
    (∑ i ∈ range L.length, g (L.getD i 0)) = sumOver L g := by
  induction L with
  | nil => simp [sumOver]
  | cons a L ih =>
    rw [List.length_cons, Finset.sum_range_succ']
    simp only [List.getD_cons_succ, List.getD_cons_zero, sumOver]
    rw [ih]; ring

/-! ### the stable insertion sort -/

theorem insertLe_perm {α : Type} (le : α → α → Bool) (x : α) (l : List α) :
    (insertLe le x l).Perm (x :: l) := by
  induction l with
  | nil => exact List.Perm.refl _
  | cons y ys ih =>
    rw [insertLe]
    by_cases h : le x y = true
    · rw [if_pos h]
    · rw [if_neg h]; exact (List.Perm.cons y ih).trans (List.Perm.swap x y ys)

theorem sortLe_cons {α : Type} (le : α → α → Bool) (a : α) (l : List α) :
    sortLe le (a :: l) = insertLe le a (sortLe le l) := rfl

theorem sortLe_perm {α : Type} (le : α → α → Bool) (l : List α) : (sortLe le l).Perm l := by
  induction l with
  | nil => exact List.Perm.refl _
  | cons a l ih => rw [sortLe_cons]; exact (insertLe_perm le a _).trans (List.Perm.cons a ih)

/-- sorting with "`a` before `b` when key b ≤ key a" gives a list that is descending in the key -/
theorem insertLe_desc {α : Type} (key : α → Rat) (x : α) (l : List α)
    (hl : l.Pairwise (fun a b => key b ≤ key a)) :
    (insertLe (fun a b => decide (key b ≤ key a)) x l).Pairwise (fun a b => key b ≤ key a) := by
  induction l with
  | nil => exact List.pairwise_singleton _ _
  | cons y ys ih =>
    rw [insertLe]
    obtain ⟨hy, hys⟩ := List.pairwise_cons.mp hl
    by_cases h : key y ≤ key x
    · rw [if_pos (by simpa using h)]
      refine List.pairwise_cons.mpr ⟨?_, hl⟩
      intro z hz
      rcases List.mem_cons.mp hz with rfl | hz
      · exact h
      · exact le_trans (hy z hz) h
    · rw [if_neg (by simpa using h)]
      refine List.pairwise_cons.mpr ⟨?_, ih hys⟩
      intro z hz
      have hz' := (insertLe_perm _ x ys).subset hz
      rcases List.mem_cons.mp hz' with rfl | hz'
      · exact le_of_lt (not_le.mp h)
      · exact hy z hz'

theorem sortLe_desc {α : Type} (key : α → Rat) (l : List α) :
    (sortLe (fun a b => decide (key b ≤ key a)) l).Pairwise (fun a b => key b ≤ key a) := by
  induction l with
  | nil => exact List.Pairwise.nil
  | cons a l ih => rw [sortLe_cons]; exact insertLe_desc key a _ ih

end Knap

/-! ### the lift to instances -/

namespace MaxWelfare
open Knap

theorem pw_mkItems (L : List Pid) (c p : Pid → Rat) (i : Nat) (hi : i < L.length) :
    pw ((L.map (fun q => (⟨c q, p q⟩ : Item))).toArray) i = c (L.getD i 0) := by
  unfold pw
  simp [Array.getD, hi]

theorem pp_mkItems (L : List Pid) (c p : Pid → Rat) (i : Nat) (hi : i < L.length) :
    pp ((L.map (fun q => (⟨c q, p q⟩ : Item))).toArray) i = p (L.getD i 0) := by
  unfold pp
  simp [Array.getD, hi]

variable (I : Inst) (profit : Pid → Rat) (init enum : List Pid)

def pdFree : List Pid := enum.filter (fun p => !init.contains p)
def pdZero : List Pid := (pdFree init enum).filter (fun p => decide (I.cost p = 0) && decide (0 < profit p))
def pdCands : List Pid := (pdFree init enum).filter (fun p => !decide (I.cost p = 0) && decide (0 ≤ profit p))
def pdSorted : List Pid :=
  sortLe (fun a b => decide (profit b / I.cost b ≤ profit a / I.cost a)) (pdCands I profit init enum)
def pdItems : Array Knap.Item :=
  ((pdSorted I profit init enum).map (fun p => (⟨I.cost p, profit p⟩ : Knap.Item))).toArray
def pdCap : Rat := I.budget - costOf I.cost (init ++ pdZero I profit init enum)

theorem primalDual_eq : primalDual I profit init enum =
    match (Knap.solve (pdItems I profit init enum) (pdCap I profit init enum)).2 with
    | none => init ++ pdZero I profit init enum
    | some idx => init ++ pdZero I profit init enum ++
        idx.map (fun i => (pdSorted I profit init enum).getD i 0) := rfl

theorem items_size : (pdItems I profit init enum).size = (pdSorted I profit init enum).length := by
  simp [pdItems]

theorem items_pw (i : Nat) (hi : i < (pdSorted I profit init enum).length) :
    pw (pdItems I profit init enum) i = I.cost ((pdSorted I profit init enum).getD i 0) :=
  pw_mkItems _ _ _ i hi

theorem items_pp (i : Nat) (hi : i < (pdSorted I profit init enum).length) :
    pp (pdItems I profit init enum) i = profit ((pdSorted I profit init enum).getD i 0) :=
  pp_mkItems _ _ _ i hi

theorem mem_pdFree (x : Pid) : x ∈ pdFree init enum ↔ x ∈ enum ∧ x ∉ init := by
  simp [pdFree]

theorem mem_pdZero (x : Pid) :
    x ∈ pdZero I profit init enum ↔ (x ∈ enum ∧ x ∉ init) ∧ I.cost x = 0 ∧ 0 < profit x := by
  simp [pdZero, mem_pdFree]

theorem mem_pdCands (x : Pid) :
    x ∈ pdCands I profit init enum ↔ (x ∈ enum ∧ x ∉ init) ∧ I.cost x ≠ 0 ∧ 0 ≤ profit x := by
  simp [pdCands, mem_pdFree]

theorem pdSorted_perm : (pdSorted I profit init enum).Perm (pdCands I profit init enum) := sortLe_perm _ _

theorem mem_pdSorted (x : Pid) :
    x ∈ pdSorted I profit init enum ↔ (x ∈ enum ∧ x ∉ init) ∧ I.cost x ≠ 0 ∧ 0 ≤ profit x := by
  rw [(pdSorted_perm I profit init enum).mem_iff, mem_pdCands]

/-- hypotheses of the lift: what `max_additive_utilitarian_welfare` may assume of its input
    (nothing is assumed of the profits: total satisfactions may be negative) -/
structure PDHyp (I : Inst) (profit : Pid → Rat) (init enum : List Pid) : Prop where
  cost_nn : ∀ p ∈ I.projects, 0 ≤ I.cost p
  init_feas : I.isFeasible init = true
  enum_perm : enum.Perm I.projects
  enum_nodup : enum.Nodup

variable {I profit init enum}

theorem PDHyp.sorted_nodup (H : PDHyp I profit init enum) : (pdSorted I profit init enum).Nodup := by
  rw [(pdSorted_perm I profit init enum).nodup_iff]
  exact (H.enum_nodup.filter _).filter _

theorem PDHyp.zero_nodup (H : PDHyp I profit init enum) : (pdZero I profit init enum).Nodup :=
  (H.enum_nodup.filter _).filter _

theorem PDHyp.getD_mem (i : Nat) (hi : i < (pdSorted I profit init enum).length) :
    (pdSorted I profit init enum).getD i 0 ∈ pdSorted I profit init enum := by
  rw [List.getD_eq_getElem _ _ hi]; exact List.getElem_mem hi

theorem PDHyp.items_sorted (H : PDHyp I profit init enum) : Knap.Sorted (pdItems I profit init enum) := by
  have hsz := items_size I profit init enum
  refine ⟨?_, ?_, ?_⟩
  · intro i hi
    rw [hsz] at hi
    rw [items_pw I profit init enum i hi]
    have hm := (mem_pdSorted I profit init enum _).mp (PDHyp.getD_mem i hi)
    have := H.cost_nn _ (H.enum_perm.subset hm.1.1)
    exact lt_of_le_of_ne this (Ne.symm hm.2.1)
  · intro i hi
    rw [hsz] at hi
    rw [items_pp I profit init enum i hi]
    have hm := (mem_pdSorted I profit init enum _).mp (PDHyp.getD_mem i hi)
    exact hm.2.2
  · intro i j hij hj
    rw [hsz] at hj
    have hi : i < (pdSorted I profit init enum).length := by omega
    unfold pe
    rw [items_pw I profit init enum i hi, items_pp I profit init enum i hi,
      items_pw I profit init enum j hj, items_pp I profit init enum j hj,
      List.getD_eq_getElem _ _ hi, List.getD_eq_getElem _ _ hj]
    rcases Nat.lt_or_eq_of_le hij with hlt | rfl
    · have := sortLe_desc (fun p => profit p / I.cost p) (pdCands I profit init enum)
      exact (List.pairwise_iff_getElem.mp this) i j hi hj hlt
    · exact le_refl _

theorem cost_pdZero : costOf I.cost (pdZero I profit init enum) = 0 :=
  sumOver_zero (fun x hx => ((mem_pdZero I profit init enum x).mp hx).2.1)

theorem pdCap_eq : pdCap I profit init enum = I.budget - costOf I.cost init := by
  unfold pdCap
  have := cost_pdZero (I := I) (profit := profit) (init := init) (enum := enum)
  unfold costOf at this ⊢
  rw [sumOver_append, this]; ring

theorem PDHyp.cap_nonneg (H : PDHyp I profit init enum) : 0 ≤ pdCap I profit init enum := by
  rw [pdCap_eq]
  have := H.init_feas
  unfold Inst.isFeasible Inst.totalCost at this
  have := of_decide_eq_true this
  linarith

variable (I profit init enum) in
/-- the projects selected by the knapsack solver -/
def pdTail : List Pid :=
  match (Knap.solve (pdItems I profit init enum) (pdCap I profit init enum)).2 with
  | none => []
  | some idx => idx.map (fun i => (pdSorted I profit init enum).getD i 0)

variable (I profit init enum) in
theorem primalDual_eq_tail : primalDual I profit init enum =
    init ++ pdZero I profit init enum ++ pdTail I profit init enum := by
  rw [primalDual_eq]; unfold pdTail
  cases (Knap.solve (pdItems I profit init enum) (pdCap I profit init enum)).2 <;> simp

theorem PDHyp.tail_facts (H : PDHyp I profit init enum) :
    (∀ x ∈ pdTail I profit init enum, x ∈ pdSorted I profit init enum) ∧
    (pdTail I profit init enum).Nodup ∧
    sumOver (pdTail I profit init enum) I.cost ≤ pdCap I profit init enum ∧
    sumOver (pdTail I profit init enum) profit =
      (Knap.solve (pdItems I profit init enum) (pdCap I profit init enum)).1 := by
  cases hS : (Knap.solve (pdItems I profit init enum) (pdCap I profit init enum)).2 with
  | none =>
    have ht : pdTail I profit init enum = [] := by unfold pdTail; rw [hS]
    rw [ht, solve_none _ _ hS]
    exact ⟨fun x hx => (by cases hx), List.nodup_nil, by simpa [sumOver] using H.cap_nonneg, rfl⟩
  | some S =>
    have ht : pdTail I profit init enum = S.map (fun i => (pdSorted I profit init enum).getD i 0) := by
      unfold pdTail; rw [hS]
    obtain ⟨hmem, hw, hp⟩ := solve_some _ _ S hS
    obtain ⟨hnd, hlt⟩ := sublist_range_facts hmem
    rw [items_size] at hlt
    rw [ht]
    refine ⟨?_, ?_, ?_, ?_⟩
    · intro x hx
      obtain ⟨i, hi, rfl⟩ := List.mem_map.mp hx
      exact PDHyp.getD_mem i (hlt i hi)
    · apply List.Nodup.map_on _ hnd
      intro i hi j hj hij
      rw [List.getD_eq_getElem _ _ (hlt i hi), List.getD_eq_getElem _ _ (hlt j hj)] at hij
      exact (H.sorted_nodup.getElem_inj_iff).mp hij
    · rw [sumOver_map, sumOver_congr (g := pw (pdItems I profit init enum))]
      · exact hw
      · intro i hi; exact (items_pw I profit init enum i (hlt i hi)).symm
    · rw [sumOver_map, sumOver_congr (g := pp (pdItems I profit init enum))]
      · exact hp
      · intro i hi; exact (items_pp I profit init enum i (hlt i hi)).symm

/-- C01 for this rule: the returned allocation respects the budget limit -/
theorem PDHyp.feasible (H : PDHyp I profit init enum) :
    I.isFeasible (primalDual I profit init enum) = true := by
  rw [primalDual_eq_tail]
  unfold Inst.isFeasible Inst.totalCost costOf
  apply decide_eq_true
  rw [sumOver_append]
  have := H.tail_facts.2.2.1
  unfold pdCap costOf at this
  linarith

variable (I profit init enum) in
theorem init_prefix : init <+: primalDual I profit init enum := by
  rw [primalDual_eq_tail, List.append_assoc]; exact List.prefix_append _ _

theorem PDHyp.nodup (H : PDHyp I profit init enum) (hinit : init.Nodup) :
    (primalDual I profit init enum).Nodup := by
  rw [primalDual_eq_tail]
  obtain ⟨htm, htn, _, _⟩ := H.tail_facts
  refine List.nodup_append.mpr ⟨List.nodup_append.mpr ⟨hinit, H.zero_nodup, ?_⟩, htn, ?_⟩
  · intro a ha b hb hab
    subst hab
    exact ((mem_pdZero I profit init enum a).mp hb).1.2 ha
  · intro a ha b hb hab
    subst hab
    have hb' := (mem_pdSorted I profit init enum a).mp (htm a hb)
    rcases List.mem_append.mp ha with ha | ha
    · exact hb'.1.2 ha
    · exact hb'.2.1 ((mem_pdZero I profit init enum a).mp ha).2.1

theorem PDHyp.projects_nodup (H : PDHyp I profit init enum) : I.projects.Nodup :=
  H.enum_perm.nodup_iff.mp H.enum_nodup

/-- candidate extensions: sub-lists of the projects outside `init` -/
theorem PDHyp.cand_facts (H : PDHyp I profit init enum) {s : List Pid}
    (hs : s ∈ sublists (I.projects.filter (fun p => !init.contains p))) :
    s.Nodup ∧ ∀ x ∈ s, x ∈ I.projects ∧ x ∉ init := by
  have hsub := (mem_sublists _ _).mp hs
  refine ⟨hsub.nodup (H.projects_nodup.filter _), ?_⟩
  intro x hx
  have := hsub.subset hx
  simpa using this

/-- the indicator (over positions of the sorted candidate list) of a set of projects -/
def indOfProjects (L s : List Pid) : Nat → Bool := fun i => decide (L.getD i 0 ∈ s)

/-- sums over positions selected by `indOfProjects` are sums over the positive-cost part of `s`
    (for a set `s` of projects of non-negative profit: exactly those are knapsack items) -/
theorem PDHyp.ind_sum (H : PDHyp I profit init enum) {s : List Pid} (hnd : s.Nodup)
    (hmem : ∀ x ∈ s, x ∈ I.projects ∧ x ∉ init) (hnn : ∀ x ∈ s, 0 ≤ profit x) (h : Pid → Rat) :
    (∑ i ∈ range (pdSorted I profit init enum).length,
        if indOfProjects (pdSorted I profit init enum) s i then h ((pdSorted I profit init enum).getD i 0) else 0)
      = sumOver (s.filter (fun p => !decide (I.cost p = 0))) h := by
  have := sum_range_getD (pdSorted I profit init enum) (fun x => if decide (x ∈ s) then h x else 0)
  unfold indOfProjects
  rw [this, ← sumOver_filter_ite]
  apply sumOver_perm
  rw [List.perm_ext_iff_of_nodup (H.sorted_nodup.filter _) (hnd.filter _)]
  intro x
  rw [List.mem_filter, List.mem_filter, mem_pdSorted]
  constructor
  · rintro ⟨⟨_, hc, _⟩, hx⟩
    exact ⟨by simpa using hx, by simpa using hc⟩
  · rintro ⟨hx, hc⟩
    have := hmem x hx
    exact ⟨⟨⟨H.enum_perm.mem_iff.mpr this.1, this.2⟩, by simpa using hc, hnn x hx⟩, by simpa using hx⟩

/-- upper bound for extensions made of projects of non-negative profit: such a feasible extension of
    `init` has no more profit than what the zero-cost projects plus the knapsack value give -/
theorem PDHyp.upper_nn (H : PDHyp I profit init enum) {s : List Pid}
    (hs : s ∈ sublists (I.projects.filter (fun p => !init.contains p)))
    (hnn : ∀ x ∈ s, 0 ≤ profit x)
    (hf : I.isFeasible (init ++ s) = true) :
    sumOver s profit ≤ sumOver (pdZero I profit init enum) profit +
      (Knap.solve (pdItems I profit init enum) (pdCap I profit init enum)).1 := by
  obtain ⟨hnd, hmem⟩ := H.cand_facts hs
  rw [sumOver_filter_add s (fun p => decide (I.cost p = 0)) profit]
  apply add_le_add
  · -- zero-cost part
    rw [sumOver_filter_add (s.filter (fun p => decide (I.cost p = 0))) (fun p => decide (0 < profit p)) profit]
    have h0 : sumOver ((s.filter (fun p => decide (I.cost p = 0))).filter (fun p => !decide (0 < profit p))) profit = 0 := by
      apply sumOver_zero
      intro x hx
      obtain ⟨hx1, hx2⟩ := List.mem_filter.mp hx
      have hxs := (List.mem_filter.mp hx1).1
      have h1 : ¬ 0 < profit x := by simpa using hx2
      have h2 := hnn x hxs
      linarith
    rw [h0, add_zero]
    apply sumOver_le_of_subset profit ((hnd.filter _).filter _) H.zero_nodup
    · intro x hx
      obtain ⟨hx1, hx2⟩ := List.mem_filter.mp hx
      obtain ⟨hxs, hx3⟩ := List.mem_filter.mp hx1
      have := hmem x hxs
      exact (mem_pdZero I profit init enum x).mpr
        ⟨⟨H.enum_perm.mem_iff.mpr this.1, this.2⟩, by simpa using hx3, by simpa using hx2⟩
    · intro x hx
      exact le_of_lt ((mem_pdZero I profit init enum x).mp hx).2.2
  · -- positive-cost part: a feasible indicator for the knapsack
    have hP := H.ind_sum hnd hmem hnn profit
    have hW := H.ind_sum hnd hmem hnn I.cost
    have hsz := items_size I profit init enum
    have hPY : profitY (pdItems I profit init enum) (indOfProjects (pdSorted I profit init enum) s)
        = sumOver (s.filter (fun p => !decide (I.cost p = 0))) profit := by
      rw [← hP]; unfold profitY; rw [hsz]
      apply Finset.sum_congr rfl
      intro i hi
      rw [items_pp I profit init enum i (mem_range.mp hi)]
    have hWY : weightY (pdItems I profit init enum) (indOfProjects (pdSorted I profit init enum) s)
        = sumOver (s.filter (fun p => !decide (I.cost p = 0))) I.cost := by
      rw [← hW]; unfold weightY; rw [hsz]
      apply Finset.sum_congr rfl
      intro i hi
      rw [items_pw I profit init enum i (mem_range.mp hi)]
    rw [← hPY]
    apply solve_ge _ H.items_sorted
    rw [hWY, pdCap_eq]
    unfold Inst.isFeasible Inst.totalCost costOf at hf
    have hf := of_decide_eq_true hf
    rw [sumOver_append, sumOver_filter_add s (fun p => decide (I.cost p = 0)) I.cost] at hf
    have h0 : sumOver (s.filter (fun p => decide (I.cost p = 0))) I.cost = 0 := by
      apply sumOver_zero
      intro x hx
      simpa using (List.mem_filter.mp hx).2
    unfold costOf
    linarith

/-! ### projects of negative profit are never needed -/

/-- dropping the projects of negative profit does not lower the welfare (no hypothesis) -/
theorem sumOver_le_dropNeg (profit : Pid → Rat) (s : List Pid) :
    sumOver s profit ≤ sumOver (s.filter (fun p => decide (0 ≤ profit p))) profit := by
  induction s with
  | nil => exact le_refl _
  | cons a l ih =>
    by_cases h : 0 ≤ profit a
    · rw [List.filter_cons_of_pos (by simpa using h)]; simp only [sumOver]; linarith
    · rw [List.filter_cons_of_neg (by simpa using h)]; simp only [sumOver]
      have := not_le.mp h
      linarith

/-- dropping any projects from a list of projects of non-negative cost does not raise its cost -/
theorem costOf_filter_le (cost : Pid → Rat) (q : Pid → Bool) (s : List Pid) (hc : ∀ x ∈ s, 0 ≤ cost x) :
    sumOver (s.filter q) cost ≤ sumOver s cost := by
  induction s with
  | nil => exact le_refl _
  | cons a l ih =>
    have ih := ih (fun x hx => hc x (List.mem_cons_of_mem _ hx))
    have ha := hc a List.mem_cons_self
    by_cases h : q a = true
    · rw [List.filter_cons_of_pos h]; simp only [sumOver]; linarith
    · rw [List.filter_cons_of_neg h]; simp only [sumOver]; linarith

/-- **the new ingredient**: from a feasible extension `init ++ s` of the initial allocation, dropping the
    projects of negative profit gives again a candidate extension, which is still feasible (costs are
    non-negative), consists of projects of non-negative profit, and has at least the same welfare -/
theorem PDHyp.dropNeg (H : PDHyp I profit init enum) {s : List Pid}
    (hs : s ∈ sublists (I.projects.filter (fun p => !init.contains p)))
    (hf : I.isFeasible (init ++ s) = true) :
    s.filter (fun p => decide (0 ≤ profit p)) ∈ sublists (I.projects.filter (fun p => !init.contains p)) ∧
    (∀ x ∈ s.filter (fun p => decide (0 ≤ profit p)), 0 ≤ profit x) ∧
    I.isFeasible (init ++ s.filter (fun p => decide (0 ≤ profit p))) = true ∧
    sumOver s profit ≤ sumOver (s.filter (fun p => decide (0 ≤ profit p))) profit := by
  obtain ⟨_, hmem⟩ := H.cand_facts hs
  refine ⟨(mem_sublists _ _).mpr (List.filter_sublist.trans ((mem_sublists _ _).mp hs)), ?_, ?_,
    sumOver_le_dropNeg profit s⟩
  · intro x hx
    simpa using (List.mem_filter.mp hx).2
  · unfold Inst.isFeasible Inst.totalCost costOf at hf ⊢
    have hf := of_decide_eq_true hf
    apply decide_eq_true
    rw [sumOver_append] at hf ⊢
    have := costOf_filter_le I.cost (fun p => decide (0 ≤ profit p)) s
      (fun x hx => H.cost_nn x (hmem x hx).1)
    linarith

/-- upper-bound half of optimality: no feasible extension of `init` has more profit than what
    the zero-cost projects plus the knapsack value give -/
theorem PDHyp.upper (H : PDHyp I profit init enum) {s : List Pid}
    (hs : s ∈ sublists (I.projects.filter (fun p => !init.contains p)))
    (hf : I.isFeasible (init ++ s) = true) :
    sumOver s profit ≤ sumOver (pdZero I profit init enum) profit +
      (Knap.solve (pdItems I profit init enum) (pdCap I profit init enum)).1 := by
  obtain ⟨hs', hnn, hf', hle⟩ := H.dropNeg hs hf
  exact le_trans hle (H.upper_nn hs' hnn hf')

theorem PDHyp.value (H : PDHyp I profit init enum) :
    sumOver (primalDual I profit init enum) profit = sumOver init profit +
      (sumOver (pdZero I profit init enum) profit +
        (Knap.solve (pdItems I profit init enum) (pdCap I profit init enum)).1) := by
  rw [primalDual_eq_tail, sumOver_append, sumOver_append, H.tail_facts.2.2.2]; ring

/-- what is added to `init`, as a sub-list of the instance's projects outside `init` -/
def pdAdded (I : Inst) (profit : Pid → Rat) (init enum : List Pid) : List Pid :=
  (I.projects.filter (fun p => !init.contains p)).filter
    (fun x => decide (x ∈ pdZero I profit init enum ++ pdTail I profit init enum))

theorem PDHyp.added_perm (H : PDHyp I profit init enum) :
    (init ++ pdAdded I profit init enum).Perm (primalDual I profit init enum) := by
  rw [primalDual_eq_tail, List.append_assoc]
  apply List.Perm.append_left
  obtain ⟨htm, htn, _, _⟩ := H.tail_facts
  have hzt : (pdZero I profit init enum ++ pdTail I profit init enum).Nodup := by
    refine List.nodup_append.mpr ⟨H.zero_nodup, htn, ?_⟩
    intro a ha b hb hab
    subst hab
    exact ((mem_pdSorted I profit init enum a).mp (htm a hb)).2.1 ((mem_pdZero I profit init enum a).mp ha).2.1
  unfold pdAdded
  rw [List.perm_ext_iff_of_nodup ((H.projects_nodup.filter _).filter _) hzt]
  intro x
  rw [List.mem_filter, List.mem_filter]
  constructor
  · rintro ⟨_, hx⟩; simpa using hx
  · intro hx
    have hfree : x ∈ enum ∧ x ∉ init := by
      rcases List.mem_append.mp hx with hx | hx
      · exact ((mem_pdZero I profit init enum x).mp hx).1
      · exact ((mem_pdSorted I profit init enum x).mp (htm x hx)).1
    exact ⟨⟨H.enum_perm.mem_iff.mp hfree.1, by simpa using hfree.2⟩, by simpa using hx⟩

/-- optimality: the welfare of the returned allocation is the brute-force optimum -/
theorem PDHyp.optimal (H : PDHyp I profit init enum) :
    sumOver (primalDual I profit init enum) profit = optValue I profit init := by
  unfold optValue
  rw [maxRat_eq_some (v := sumOver (primalDual I profit init enum) profit)]
  · refine List.mem_map.mpr ⟨init ++ pdAdded I profit init enum, List.mem_filter.mpr ⟨?_, ?_⟩,
      sumOver_perm H.added_perm profit⟩
    · exact List.mem_map.mpr ⟨_, (mem_sublists _ _).mpr List.filter_sublist, rfl⟩
    · have := H.feasible
      unfold Inst.isFeasible Inst.totalCost costOf at this ⊢
      rw [sumOver_perm H.added_perm I.cost]; exact this
  · intro x hx
    obtain ⟨l, hl, rfl⟩ := List.mem_map.mp hx
    obtain ⟨hl1, hl2⟩ := List.mem_filter.mp hl
    obtain ⟨s, hs, rfl⟩ := List.mem_map.mp hl1
    rw [H.value, sumOver_append]
    have := H.upper hs hl2
    linarith

end MaxWelfare
end Pabu
