/-
  Lemmas about the list helpers of the model (sums, sub-list enumeration, min/max, stable sort) and the
  instance predicates of `PabuModel.Election` (C15, shared with C10).  Everything lives in `Pabu.Election`.
-/
import PabuModel.Election
import Mathlib.Data.List.Basic
import Mathlib.Data.List.Perm.Basic
import Mathlib.Data.List.Nodup
import Mathlib.Algebra.Order.Field.Rat
import Mathlib.Tactic.Linarith
import Mathlib.Tactic.Ring
namespace Pabu
namespace Election

/-! ### sums -/

theorem sumOver_nil {α : Type} (f : α → Rat) : sumOver [] f = 0 := rfl

theorem sumOver_cons {α : Type} (x : α) (l : List α) (f : α → Rat) : sumOver (x :: l) f = f x + sumOver l f := rfl

theorem sumOver_append {α : Type} (l₁ l₂ : List α) (f : α → Rat) :
    sumOver (l₁ ++ l₂) f = sumOver l₁ f + sumOver l₂ f := by
  induction l₁ with
  | nil => simp [sumOver]
  | cons x xs ih => simp only [List.cons_append, sumOver_cons, ih]; ring

theorem sumOver_map {α β : Type} (g : α → β) (l : List α) (f : β → Rat) :
    sumOver (l.map g) f = sumOver l (fun x => f (g x)) := by
  induction l with
  | nil => rfl
  | cons x xs ih => simp only [List.map_cons, sumOver_cons, ih]

theorem sumOver_perm {α : Type} {l₁ l₂ : List α} (h : l₁.Perm l₂) (f : α → Rat) : sumOver l₁ f = sumOver l₂ f := by
  induction h with
  | nil => rfl
  | cons x _ ih => simp only [sumOver_cons, ih]
  | swap x y l => simp only [sumOver_cons]; ring
  | trans _ _ ih₁ ih₂ => exact ih₁.trans ih₂

theorem sumOver_nonneg {α : Type} (l : List α) (f : α → Rat) (h : ∀ x ∈ l, 0 ≤ f x) : 0 ≤ sumOver l f := by
  induction l with
  | nil => exact le_refl _
  | cons x xs ih =>
    rw [sumOver_cons]
    have h1 := h x (List.mem_cons_self ..)
    have h2 := ih (fun y hy => h y (List.mem_cons_of_mem _ hy))
    linarith

/-- a sub-list of a list with non-negative terms has a smaller sum -/
theorem sumOver_sublist_le {α : Type} {s l : List α} (hs : s.Sublist l) (f : α → Rat) (h : ∀ x ∈ l, 0 ≤ f x) :
    sumOver s f ≤ sumOver l f := by
  induction hs with
  | slnil => exact le_refl _
  | cons x _ ih =>
    rw [sumOver_cons]
    have h1 := h x (List.mem_cons_self ..)
    have h2 := ih (fun y hy => h y (List.mem_cons_of_mem _ hy))
    linarith
  | cons_cons x _ ih =>
    simp only [sumOver_cons]
    have h2 := ih (fun y hy => h y (List.mem_cons_of_mem _ hy))
    linarith

theorem costOf_nil (c : Pid → Rat) : costOf c [] = 0 := rfl

theorem costOf_cons (c : Pid → Rat) (p : Pid) (l : List Pid) : costOf c (p :: l) = c p + costOf c l := rfl

theorem costOf_perm (c : Pid → Rat) {l₁ l₂ : List Pid} (h : l₁.Perm l₂) : costOf c l₁ = costOf c l₂ :=
  sumOver_perm h c

/-! ### the enumeration of sub-lists -/

theorem mem_sublists {α : Type} (xs l : List α) : l ∈ sublists xs ↔ l.Sublist xs := by
  induction xs generalizing l with
  | nil => simp [sublists]
  | cons x xs ih =>
    rw [sublists, List.mem_append, List.mem_map]
    constructor
    · rintro (h | ⟨l', h, rfl⟩)
      · exact ((ih l).1 h).cons x
      · exact ((ih l').1 h).cons_cons x
    · intro h
      cases h with
      | cons _ h => exact Or.inl ((ih l).2 h)
      | cons_cons _ h => exact Or.inr ⟨_, (ih _).2 h, rfl⟩

theorem sublists_nodup {α : Type} (xs : List α) (h : xs.Nodup) : (sublists xs).Nodup := by
  induction xs with
  | nil => simp [sublists]
  | cons x xs ih =>
    rw [List.nodup_cons] at h
    rw [sublists, List.nodup_append]
    refine ⟨ih h.2, List.Nodup.map List.cons_injective (ih h.2), ?_⟩
    intro a ha b hb hab
    subst hab
    rw [List.mem_map] at hb
    obtain ⟨l', _, rfl⟩ := hb
    exact h.1 (((mem_sublists xs _).1 ha).subset (List.mem_cons_self ..))

theorem nil_mem_sublists {α : Type} (xs : List α) : [] ∈ sublists xs :=
  (mem_sublists xs []).2 (List.nil_sublist xs)

/-! ### minimum / maximum of a list of rationals -/

theorem maxRat_eq_none {l : List Rat} : maxRat l = none ↔ l = [] := by
  cases l with
  | nil => simp [maxRat]
  | cons x xs =>
    simp only [maxRat]
    cases maxRat xs <;> simp

theorem maxRat_mem {l : List Rat} {m : Rat} (h : maxRat l = some m) : m ∈ l := by
  induction l generalizing m with
  | nil => simp [maxRat] at h
  | cons x xs ih =>
    simp only [maxRat] at h
    cases hx : maxRat xs with
    | none => rw [hx] at h; simp at h; simp [h]
    | some y =>
      rw [hx] at h
      simp only [Option.some.injEq] at h
      by_cases hc : y ≤ x
      · rw [if_pos hc] at h; simp [h]
      · rw [if_neg hc] at h; subst h; exact List.mem_cons_of_mem _ (ih hx)

theorem maxRat_ge {l : List Rat} {m : Rat} (h : maxRat l = some m) : ∀ x ∈ l, x ≤ m := by
  induction l generalizing m with
  | nil => intro x hx; simp at hx
  | cons a xs ih =>
    simp only [maxRat] at h
    cases hx : maxRat xs with
    | none =>
      rw [hx] at h
      simp only [Option.some.injEq] at h
      have : xs = [] := maxRat_eq_none.1 hx
      subst this; subst h
      intro x hx'; simp at hx'; rw [hx']
    | some y =>
      rw [hx] at h
      simp only [Option.some.injEq] at h
      intro z hz
      rcases List.mem_cons.1 hz with rfl | hz
      · by_cases hc : y ≤ z
        · rw [if_pos hc] at h; rw [h]
        · rw [if_neg hc] at h; subst h; exact le_of_lt (not_le.1 hc)
      · have := ih hx z hz
        by_cases hc : y ≤ a
        · rw [if_pos hc] at h; subst h; exact le_trans this hc
        · rw [if_neg hc] at h; subst h; exact this

theorem minRat_eq_none {l : List Rat} : minRat l = none ↔ l = [] := by
  cases l with
  | nil => simp [minRat]
  | cons x xs =>
    simp only [minRat]
    cases minRat xs <;> simp

theorem minRat_mem {l : List Rat} {m : Rat} (h : minRat l = some m) : m ∈ l := by
  induction l generalizing m with
  | nil => simp [minRat] at h
  | cons x xs ih =>
    simp only [minRat] at h
    cases hx : minRat xs with
    | none => rw [hx] at h; simp at h; simp [h]
    | some y =>
      rw [hx] at h
      simp only [Option.some.injEq] at h
      by_cases hc : x ≤ y
      · rw [if_pos hc] at h; simp [h]
      · rw [if_neg hc] at h; subst h; exact List.mem_cons_of_mem _ (ih hx)

theorem minRat_le {l : List Rat} {m : Rat} (h : minRat l = some m) : ∀ x ∈ l, m ≤ x := by
  induction l generalizing m with
  | nil => intro x hx; simp at hx
  | cons a xs ih =>
    simp only [minRat] at h
    cases hx : minRat xs with
    | none =>
      rw [hx] at h
      simp only [Option.some.injEq] at h
      have : xs = [] := minRat_eq_none.1 hx
      subst this; subst h
      intro x hx'; simp at hx'; rw [hx']
    | some y =>
      rw [hx] at h
      simp only [Option.some.injEq] at h
      intro z hz
      rcases List.mem_cons.1 hz with rfl | hz
      · by_cases hc : z ≤ y
        · rw [if_pos hc] at h; rw [h]
        · rw [if_neg hc] at h; subst h; exact le_of_lt (not_le.1 hc)
      · have := ih hx z hz
        by_cases hc : a ≤ y
        · rw [if_pos hc] at h; subst h; exact le_trans hc this
        · rw [if_neg hc] at h; subst h; exact this

/-! ### the stable insertion sort yields a sorted permutation -/

theorem insertLe_perm {α : Type} (le : α → α → Bool) (x : α) (l : List α) : (insertLe le x l).Perm (x :: l) := by
  induction l with
  | nil => exact List.Perm.refl _
  | cons y ys ih =>
    rw [insertLe]
    by_cases h : le x y = true
    · rw [if_pos h]
    · rw [if_neg h]
      exact ((List.Perm.cons y ih).trans (List.Perm.swap x y ys))

theorem sortLe_cons {α : Type} (le : α → α → Bool) (x : α) (l : List α) :
    sortLe le (x :: l) = insertLe le x (sortLe le l) := rfl

theorem sortLe_perm {α : Type} (le : α → α → Bool) (l : List α) : (sortLe le l).Perm l := by
  induction l with
  | nil => exact List.Perm.refl _
  | cons x xs ih =>
    rw [sortLe_cons]
    exact (insertLe_perm le x _).trans (List.Perm.cons x ih)

theorem sortKey_perm {α : Type} (key : α → Rat) (l : List α) : (sortKey key l).Perm l := sortLe_perm _ l

theorem insertKey_sorted {α : Type} (key : α → Rat) (x : α) (l : List α)
    (h : l.Pairwise (fun a b => key a ≤ key b)) :
    (insertLe (fun a b => decide (key a ≤ key b)) x l).Pairwise (fun a b => key a ≤ key b) := by
  induction l with
  | nil => simp [insertLe]
  | cons y ys ih =>
    rw [List.pairwise_cons] at h
    rw [insertLe]
    by_cases hc : key x ≤ key y
    · rw [if_pos (by simpa using hc)]
      refine List.Pairwise.cons ?_ (List.Pairwise.cons h.1 h.2)
      intro z hz
      rcases List.mem_cons.1 hz with rfl | hz
      · exact hc
      · exact le_trans hc (h.1 z hz)
    · rw [if_neg (by simpa using hc)]
      refine List.Pairwise.cons ?_ (ih h.2)
      intro z hz
      have hz' := (insertLe_perm _ x ys).mem_iff.1 hz
      rcases List.mem_cons.1 hz' with rfl | hz'
      · exact le_of_lt (not_le.1 hc)
      · exact h.1 z hz'

theorem sortKey_sorted {α : Type} (key : α → Rat) (l : List α) :
    (sortKey key l).Pairwise (fun a b => key a ≤ key b) := by
  induction l with
  | nil => exact List.Pairwise.nil
  | cons x xs ih =>
    unfold sortKey at *
    rw [sortLe_cons]
    exact insertKey_sorted key x _ ih

/-! ### cheapest-first counting -/

theorem cheapestCount_nil (budget acc : Rat) : cheapestCount budget acc [] = 0 := rfl

theorem cheapestCount_cons_pos {budget acc c : Rat} (cs : List Rat) (h : acc + c > budget) :
    cheapestCount budget acc (c :: cs) = 0 := by
  rw [cheapestCount, if_pos h]

theorem cheapestCount_cons_neg {budget acc c : Rat} (cs : List Rat) (h : ¬ acc + c > budget) :
    cheapestCount budget acc (c :: cs) = cheapestCount budget (acc + c) cs + 1 := by
  rw [cheapestCount, if_neg h]

theorem cheapestCount_le_length (budget acc : Rat) (cs : List Rat) : cheapestCount budget acc cs ≤ cs.length := by
  induction cs generalizing acc with
  | nil => exact Nat.le_refl 0
  | cons c cs ih =>
    by_cases h : acc + c > budget
    · rw [cheapestCount_cons_pos cs h]; exact Nat.zero_le _
    · rw [cheapestCount_cons_neg cs h]; simp only [List.length_cons]; exact Nat.succ_le_succ (ih _)

/-- the counted prefix fits in the budget -/
theorem cheapestCount_prefix_fits (budget acc : Rat) (cs : List Rat) (hacc : acc ≤ budget) :
    acc + sumOver (cs.take (cheapestCount budget acc cs)) id ≤ budget := by
  induction cs generalizing acc with
  | nil => simp [cheapestCount_nil, sumOver]; exact hacc
  | cons c cs ih =>
    by_cases h : acc + c > budget
    · rw [cheapestCount_cons_pos cs h]; simp [sumOver]; exact hacc
    · rw [cheapestCount_cons_neg cs h, List.take_succ_cons, sumOver_cons]
      have := ih (acc + c) (not_lt.1 h)
      simp only [id] at *
      linarith

/-- every prefix that fits is counted (terms non-negative) -/
theorem cheapestCount_prefix_max (budget acc : Rat) (cs : List Rat) (hnn : ∀ x ∈ cs, 0 ≤ x) (j : Nat)
    (hj : j ≤ cs.length) (hfit : acc + sumOver (cs.take j) id ≤ budget) : j ≤ cheapestCount budget acc cs := by
  induction cs generalizing acc j with
  | nil =>
    have : j = 0 := by simpa using hj
    subst this; exact Nat.zero_le _
  | cons c cs ih =>
    cases j with
    | zero => exact Nat.zero_le _
    | succ j =>
      rw [List.take_succ_cons, sumOver_cons] at hfit
      simp only [id] at hfit
      have hS : 0 ≤ sumOver (cs.take j) id :=
        sumOver_nonneg _ _ (fun x hx => hnn x (List.mem_cons_of_mem _ (List.mem_of_mem_take hx)))
      have h : ¬ acc + c > budget := by
        intro hgt
        linarith
      rw [cheapestCount_cons_neg cs h]
      have := ih (acc + c) (fun x hx => hnn x (List.mem_cons_of_mem _ hx)) j
        (Nat.le_of_succ_le_succ (by simpa using hj)) (by linarith)
      exact Nat.succ_le_succ this

/-- exchange argument: in an ascending list, the first `|t|` terms sum to at most any sub-list `t` -/
theorem sorted_prefix_le_sublist (cs : List Rat) (hs : cs.Pairwise (fun a b => a ≤ b)) (t : List Rat)
    (ht : t.Sublist cs) : sumOver (cs.take t.length) id ≤ sumOver t id := by
  induction cs generalizing t with
  | nil =>
    have : t = [] := List.sublist_nil.1 ht
    subst this
    exact le_refl _
  | cons c cs ih =>
    rw [List.pairwise_cons] at hs
    cases t with
    | nil => exact le_refl _
    | cons a t' =>
      rw [List.length_cons, List.take_succ_cons, sumOver_cons, sumOver_cons]
      simp only [id]
      cases ht with
      | cons _ h =>
        -- `a :: t'` lies inside `cs`: c ≤ a, and t' is a sub-list of cs
        have hca : c ≤ a := hs.1 a (h.subset (List.mem_cons_self ..))
        have ht' : t'.Sublist cs := (List.sublist_cons_self a t').trans h
        have := ih hs.2 t' ht'
        linarith
      | cons_cons _ h =>
        have := ih hs.2 t' h
        linarith

theorem sorted_prefix_le_subperm (cs : List Rat) (hs : cs.Pairwise (fun a b => a ≤ b)) (t : List Rat)
    (ht : t.Subperm cs) : sumOver (cs.take t.length) id ≤ sumOver t id := by
  obtain ⟨t', hp, hsub⟩ := ht
  have := sorted_prefix_le_sublist cs hs t' hsub
  rw [hp.length_eq, sumOver_perm hp] at this
  exact this

/-! ### maxCardinality is the size of a largest feasible sub-list -/

theorem maxCardinality_le_length (cost : Pid → Rat) (l : List Pid) (budget : Rat) :
    maxCardinality cost l budget ≤ l.length := by
  unfold maxCardinality
  have h := cheapestCount_le_length budget 0 (sortKey id (l.map cost))
  rw [(sortKey_perm id (l.map cost)).length_eq, List.length_map] at h
  exact h

/-- no feasible sub-list is longer than `maxCardinality` -/
theorem maxCardinality_upper (cost : Pid → Rat) (l : List Pid) (budget : Rat) (hnn : ∀ p ∈ l, 0 ≤ cost p)
    (s : List Pid) (hs : s.Sublist l) (hfeas : costOf cost s ≤ budget) : s.length ≤ maxCardinality cost l budget := by
  unfold maxCardinality
  have hperm := sortKey_perm id (l.map cost)
  have hsorted : (sortKey id (l.map cost)).Pairwise (fun a b => a ≤ b) := sortKey_sorted id (l.map cost)
  have hsub : (s.map cost).Subperm (sortKey id (l.map cost)) :=
    (hs.map cost).subperm.trans hperm.symm.subperm
  have h1 := sorted_prefix_le_subperm _ hsorted _ hsub
  rw [List.length_map, sumOver_map] at h1
  have hnn' : ∀ x ∈ sortKey id (l.map cost), 0 ≤ x := by
    intro x hx
    obtain ⟨p, hp, rfl⟩ := List.mem_map.1 (hperm.mem_iff.1 hx)
    exact hnn p hp
  apply cheapestCount_prefix_max budget 0 _ hnn' s.length
  · rw [hperm.length_eq, List.length_map]; exact hs.length_le
  · have : sumOver s (fun x => id (cost x)) = costOf cost s := rfl
    rw [this] at h1
    linarith

/-- some feasible sub-list has exactly `maxCardinality` elements -/
theorem maxCardinality_attained (cost : Pid → Rat) (l : List Pid) (budget : Rat) (hb : 0 ≤ budget) :
    ∃ s : List Pid, s.Sublist l ∧ costOf cost s ≤ budget ∧ s.length = maxCardinality cost l budget := by
  unfold maxCardinality
  have hperm := sortKey_perm id (l.map cost)
  have hfit := cheapestCount_prefix_fits budget 0 (sortKey id (l.map cost)) hb
  have hlen := cheapestCount_le_length budget 0 (sortKey id (l.map cost))
  have hsp : ((sortKey id (l.map cost)).take (cheapestCount budget 0 (sortKey id (l.map cost)))).Subperm (l.map cost) :=
    (List.take_sublist _ _).subperm.trans hperm.subperm
  obtain ⟨u, hup, husub⟩ := hsp
  obtain ⟨s, hsl, rfl⟩ := List.sublist_map_iff.1 husub
  refine ⟨s, hsl, ?_, ?_⟩
  · have h1 := sumOver_perm hup id
    rw [sumOver_map] at h1
    have : sumOver s (fun x => id (cost x)) = costOf cost s := rfl
    rw [this] at h1
    linarith
  · have h2 := hup.length_eq
    rw [List.length_map, List.length_take, Nat.min_eq_left hlen] at h2
    exact h2

/-! ### brute-force optima -/

theorem maxCostSpec_upper (cost : Pid → Rat) (l : List Pid) (budget : Rat) (s : List Pid) (hs : s.Sublist l)
    (hfeas : costOf cost s ≤ budget) : costOf cost s ≤ maxCostSpec cost l budget := by
  unfold maxCostSpec
  have hmem : costOf cost s ∈ ((sublists l).map (costOf cost)).filter (fun c => decide (c ≤ budget)) := by
    rw [List.mem_filter]
    exact ⟨List.mem_map.2 ⟨s, (mem_sublists l s).2 hs, rfl⟩, by simpa using hfeas⟩
  cases h : maxRat (((sublists l).map (costOf cost)).filter (fun c => decide (c ≤ budget))) with
  | none => rw [maxRat_eq_none.1 h] at hmem; simp at hmem
  | some m => exact maxRat_ge h _ hmem

theorem maxCostSpec_attained (cost : Pid → Rat) (l : List Pid) (budget : Rat) (hb : 0 ≤ budget) :
    ∃ s : List Pid, s.Sublist l ∧ costOf cost s ≤ budget ∧ maxCostSpec cost l budget = costOf cost s := by
  unfold maxCostSpec
  cases h : maxRat (((sublists l).map (costOf cost)).filter (fun c => decide (c ≤ budget))) with
  | none =>
    have hmem : costOf cost [] ∈ ((sublists l).map (costOf cost)).filter (fun c => decide (c ≤ budget)) := by
      rw [List.mem_filter]
      exact ⟨List.mem_map.2 ⟨[], nil_mem_sublists l, rfl⟩, decide_eq_true (by rw [costOf_nil]; exact hb)⟩
    rw [maxRat_eq_none.1 h] at hmem; simp at hmem
  | some m =>
    have hm := maxRat_mem h
    rw [List.mem_filter, List.mem_map] at hm
    obtain ⟨⟨s, hs, rfl⟩, hle⟩ := hm
    exact ⟨s, (mem_sublists l s).1 hs, by simpa using hle, rfl⟩

theorem maxScoreSpec_upper (cost score : Pid → Rat) (l : List Pid) (budget : Rat) (s : List Pid) (hs : s.Sublist l)
    (hfeas : costOf cost s ≤ budget) : sumOver s score ≤ maxScoreSpec cost score l budget := by
  unfold maxScoreSpec
  have hmem : sumOver s score ∈ ((sublists l).filter (fun s => decide (costOf cost s ≤ budget))).map (fun s => sumOver s score) := by
    rw [List.mem_map]
    exact ⟨s, List.mem_filter.2 ⟨(mem_sublists l s).2 hs, by simpa using hfeas⟩, rfl⟩
  cases h : maxRat (((sublists l).filter (fun s => decide (costOf cost s ≤ budget))).map (fun s => sumOver s score)) with
  | none => rw [maxRat_eq_none.1 h] at hmem; simp at hmem
  | some m => exact maxRat_ge h _ hmem

theorem maxScoreSpec_attained (cost score : Pid → Rat) (l : List Pid) (budget : Rat) (hb : 0 ≤ budget) :
    ∃ s : List Pid, s.Sublist l ∧ costOf cost s ≤ budget ∧ maxScoreSpec cost score l budget = sumOver s score := by
  unfold maxScoreSpec
  cases h : maxRat (((sublists l).filter (fun s => decide (costOf cost s ≤ budget))).map (fun s => sumOver s score)) with
  | none =>
    have hmem : sumOver [] score ∈ ((sublists l).filter (fun s => decide (costOf cost s ≤ budget))).map (fun s => sumOver s score) := by
      rw [List.mem_map]
      exact ⟨[], List.mem_filter.2 ⟨nil_mem_sublists l, decide_eq_true (by rw [costOf_nil]; exact hb)⟩, rfl⟩
    rw [maxRat_eq_none.1 h] at hmem; simp at hmem
  | some m =>
    have hm := maxRat_mem h
    rw [List.mem_map] at hm
    obtain ⟨s, hs, rfl⟩ := hm
    rw [List.mem_filter] at hs
    exact ⟨s, (mem_sublists l s).1 hs.1, by simpa using hs.2, rfl⟩

end Election
end Pabu
