/-
  Lemmas about the greedy-welfare model (PabuModel.Greedy):
  list / cost helpers, termination of round rules, the state invariant of the general path,
  the argmax facts, the single pass of the additive fast path.
-/
import PabuModel.Greedy
import PabuProofs.Lemmas.RoundRule
import Mathlib.Tactic.Linarith
import Mathlib.Tactic.Ring
import Mathlib.Algebra.Order.Field.Rat
import Mathlib.Data.List.Perm.Basic
import Mathlib.Data.List.Sort
namespace Pabu

/-! ### Helpers shared by the greedy and Phragmén proofs (own namespace: no clashes) -/
namespace GreedyAux

theorem insertLe_perm {α : Type} (le : α → α → Bool) (x : α) :
    ∀ l : List α, (insertLe le x l).Perm (x :: l) := by
  intro l
  induction l with
  | nil => exact List.Perm.refl _
  | cons y ys ih =>
    unfold insertLe
    by_cases h : le x y = true
    · rw [if_pos h]
    · rw [if_neg h]
      exact (List.Perm.cons y ih).trans (List.Perm.swap x y ys)

theorem sortLe_perm {α : Type} (le : α → α → Bool) : ∀ l : List α, (sortLe le l).Perm l := by
  intro l
  induction l with
  | nil => exact List.Perm.refl _
  | cons y ys ih =>
    have : sortLe le (y :: ys) = insertLe le y (sortLe le ys) := rfl
    rw [this]
    exact (insertLe_perm le y _).trans (List.Perm.cons y ih)

theorem mem_sortLe {α : Type} (le : α → α → Bool) (l : List α) (x : α) : x ∈ sortLe le l ↔ x ∈ l :=
  (sortLe_perm le l).mem_iff

theorem mem_sortIds (l : List Pid) (x : Pid) : x ∈ sortIds l ↔ x ∈ l := mem_sortLe _ l x

theorem sortIds_nodup {l : List Pid} (h : l.Nodup) : (sortIds l).Nodup :=
  (sortLe_perm _ l).nodup_iff.mpr h

theorem sumOver_append {α : Type} (f : α → Rat) (l₁ l₂ : List α) :
    sumOver (l₁ ++ l₂) f = sumOver l₁ f + sumOver l₂ f := by
  induction l₁ with
  | nil => simp [sumOver]
  | cons x xs ih => simp only [List.cons_append, sumOver, ih]; ring

theorem costOf_nil (c : Pid → Rat) : costOf c [] = 0 := rfl

theorem costOf_cons (c : Pid → Rat) (x : Pid) (l : List Pid) : costOf c (x :: l) = c x + costOf c l := rfl

theorem costOf_append (c : Pid → Rat) (l₁ l₂ : List Pid) :
    costOf c (l₁ ++ l₂) = costOf c l₁ + costOf c l₂ := sumOver_append c l₁ l₂

theorem costOf_snoc (c : Pid → Rat) (l : List Pid) (t : Pid) : costOf c (l ++ [t]) = costOf c l + c t := by
  rw [costOf_append, costOf_cons, costOf_nil]; ring

theorem costOf_nonneg (c : Pid → Rat) (l : List Pid) (h : ∀ p ∈ l, 0 ≤ c p) : 0 ≤ costOf c l := by
  induction l with
  | nil => exact le_refl _
  | cons x xs ih =>
    rw [costOf_cons]
    have h1 := h x (by simp)
    have h2 := ih (fun p hp => h p (by simp [hp]))
    linarith

theorem costOf_perm (c : Pid → Rat) {l₁ l₂ : List Pid} (h : l₁.Perm l₂) : costOf c l₁ = costOf c l₂ := by
  induction h with
  | nil => rfl
  | cons x _ ih => simp only [costOf_cons, ih]
  | swap x y l => simp only [costOf_cons]; ring
  | trans _ _ ih1 ih2 => exact ih1.trans ih2

/-- `Inst.isExhaustive` unfolded -/
theorem isExhaustive_iff (I : Inst) (W : List Pid) :
    I.isExhaustive W = true ↔ ∀ p ∈ I.projects, p ∉ W → I.budget < costOf I.cost W + I.cost p := by
  unfold Inst.isExhaustive Inst.isExhaustiveOver Inst.totalCost
  rw [List.all_eq_true]
  constructor
  · intro h p hp hnW
    have := h p hp
    simp only [Bool.or_eq_true, List.contains_iff_mem, Bool.not_eq_true', decide_eq_false_iff_not] at this
    rcases this with h1 | h1
    · exact absurd h1 hnW
    · linarith [lt_of_not_ge h1]
  · intro h p hp
    simp only [Bool.or_eq_true, List.contains_iff_mem, Bool.not_eq_true', decide_eq_false_iff_not]
    by_cases hW : p ∈ W
    · exact Or.inl hW
    · right
      have := h p hp hW
      intro hle
      linarith

theorem isFeasible_iff (I : Inst) (W : List Pid) : I.isFeasible W = true ↔ costOf I.cost W ≤ I.budget := by
  unfold Inst.isFeasible Inst.totalCost
  exact decide_eq_true_iff

/-! ### Termination of a round rule: with fuel ≥ pool size the run stops in a terminal state -/

theorem pool_nil_tied_nil {σ : Type} (R : RoundRule σ) (hR : R.WF) (s : σ) (h : R.pool s = []) : R.tied s = [] := by
  cases ht : R.tied s with
  | nil => rfl
  | cons a l =>
    have := hR.tied_sub s a (by rw [ht]; simp)
    rw [h] at this
    simp at this

theorem runP_inv_term {σ : Type} (R : RoundRule σ) (hR : R.WF) (ord : List Pid → List Pid) (Inv : σ → Prop)
    (hord : ∀ T, ∀ x ∈ ord T, x ∈ T) (hne : ∀ T, T ≠ [] → ord T ≠ [])
    (hbuy : ∀ s t, Inv s → t ∈ R.tied s → Inv (R.buy s t))
    (hdec : ∀ s t, Inv s → t ∈ R.tied s → (R.pool (R.buy s t)).length < (R.pool s).length) :
    ∀ n s, Inv s → (R.pool s).length ≤ n → ∃ s', Inv s' ∧ R.tied s' = [] ∧ R.runP ord n s = R.out s' := by
  intro n
  induction n with
  | zero =>
    intro s hs hn
    have : R.pool s = [] := List.length_eq_zero_iff.mp (Nat.le_zero.mp hn)
    exact ⟨s, hs, pool_nil_tied_nil R hR s this, rfl⟩
  | succ n ih =>
    intro s hs hn
    unfold RoundRule.runP
    cases hp : ord (R.tied s) with
    | nil =>
      have : R.tied s = [] := by
        by_contra hc
        exact hne _ hc hp
      exact ⟨s, hs, this, rfl⟩
    | cons t r =>
      have ht : t ∈ R.tied s := hord _ t (by rw [hp]; simp)
      have := hdec s t hs ht
      exact ih _ (hbuy s t hs ht) (by omega)

theorem runAllP_inv_term {σ : Type} (R : RoundRule σ) (hR : R.WF) (Inv : σ → Prop)
    (hbuy : ∀ s t, Inv s → t ∈ R.tied s → Inv (R.buy s t))
    (hdec : ∀ s t, Inv s → t ∈ R.tied s → (R.pool (R.buy s t)).length < (R.pool s).length) :
    ∀ n s, Inv s → (R.pool s).length ≤ n →
      ∀ W ∈ R.runAllP n s, ∃ s', Inv s' ∧ R.tied s' = [] ∧ W = R.out s' := by
  intro n
  induction n with
  | zero =>
    intro s hs hn W hW
    have hp : R.pool s = [] := List.length_eq_zero_iff.mp (Nat.le_zero.mp hn)
    simp [RoundRule.runAllP] at hW
    exact ⟨s, hs, pool_nil_tied_nil R hR s hp, hW⟩
  | succ n ih =>
    intro s hs hn W hW
    unfold RoundRule.runAllP at hW
    by_cases hT : R.tied s = []
    · simp [hT] at hW; exact ⟨s, hs, hT, hW⟩
    · simp only [hT, if_false, List.mem_flatMap] at hW
      obtain ⟨t, ht, hW'⟩ := hW
      have := hdec s t hs ht
      exact ih _ (hbuy s t hs ht) (by omega) W hW'

/-- the executable resolute run agrees with the pure one for a total order function -/
theorem run_eq_runP {σ : Type} (R : RoundRule σ) (order : List Pid → Except Err (List Pid))
    (ord : List Pid → List Pid) (hne : ord [] = []) (h : ∀ T, order T = .ok (ord T)) :
    ∀ n s, R.run order n s = .ok (R.runP ord n s) := by
  intro n
  induction n with
  | zero => intro s; rfl
  | succ n ih =>
    intro s
    unfold RoundRule.run RoundRule.runP
    by_cases hT : R.tied s = []
    · rw [if_pos hT, hT, hne]
    · rw [if_neg hT, h]
      cases hp : ord (R.tied s) with
      | nil => rfl
      | cons t r => exact ih _


theorem run_inv_term {σ : Type} (R : RoundRule σ) (hR : R.WF) (order : List Pid → Except Err (List Pid))
    (Inv : σ → Prop)
    (hord : ∀ T l, order T = .ok l → (∀ x ∈ l, x ∈ T) ∧ (T ≠ [] → l ≠ []))
    (hbuy : ∀ s t, Inv s → t ∈ R.tied s → Inv (R.buy s t))
    (hdec : ∀ s t, Inv s → t ∈ R.tied s → (R.pool (R.buy s t)).length < (R.pool s).length) :
    ∀ n s W, Inv s → (R.pool s).length ≤ n → R.run order n s = .ok W →
      ∃ s', Inv s' ∧ R.tied s' = [] ∧ W = R.out s' := by
  intro n
  induction n with
  | zero =>
    intro s W hs hn h
    have hp : R.pool s = [] := List.length_eq_zero_iff.mp (Nat.le_zero.mp hn)
    unfold RoundRule.run at h
    exact ⟨s, hs, pool_nil_tied_nil R hR s hp, (Except.ok.inj h).symm⟩
  | succ n ih =>
    intro s W hs hn h
    unfold RoundRule.run at h
    by_cases hT : R.tied s = []
    · rw [if_pos hT] at h
      exact ⟨s, hs, hT, (Except.ok.inj h).symm⟩
    · rw [if_neg hT] at h
      cases ho : order (R.tied s) with
      | error e => rw [ho] at h; simp at h
      | ok l =>
        rw [ho] at h
        obtain ⟨hmem, hne⟩ := hord _ _ ho
        cases l with
        | nil => exact absurd rfl (hne hT)
        | cons t r =>
          simp only at h
          have ht : t ∈ R.tied s := hmem t (by simp)
          have := hdec s t hs ht
          exact ih _ W (hbuy s t hs ht) (by omega) h

theorem foldlM_collect {α β : Type} (f : α → Except Err (List β)) :
    ∀ (ts : List α) (init res : List β),
      ts.foldlM (fun acc t => do let r ← f t; pure (acc ++ r)) init = Except.ok res →
      ∀ W ∈ res, W ∈ init ∨ ∃ t ∈ ts, ∃ r, f t = .ok r ∧ W ∈ r := by
  intro ts
  induction ts with
  | nil =>
    intro init res h W hW
    simp only [List.foldlM_nil, pure, Except.pure] at h
    rw [← Except.ok.inj h] at hW
    exact Or.inl hW
  | cons t ts ih =>
    intro init res h W hW
    rw [List.foldlM_cons] at h
    cases hf : f t with
    | error e => rw [hf] at h; simp [bind, Except.bind] at h
    | ok r =>
      rw [hf] at h
      simp only [bind, Except.bind, pure, Except.pure] at h
      rcases ih _ _ h W hW with h1 | ⟨t', ht', r', hr', hW'⟩
      · rcases List.mem_append.mp h1 with h2 | h2
        · exact Or.inl h2
        · exact Or.inr ⟨t, by simp, r, hf, h2⟩
      · exact Or.inr ⟨t', by simp [ht'], r', hr', hW'⟩

theorem runAll_inv_term {σ : Type} (R : RoundRule σ) (hR : R.WF) (order : List Pid → Except Err (List Pid))
    (Inv : σ → Prop)
    (hord : ∀ T l, order T = .ok l → (∀ x ∈ l, x ∈ T))
    (hbuy : ∀ s t, Inv s → t ∈ R.tied s → Inv (R.buy s t))
    (hdec : ∀ s t, Inv s → t ∈ R.tied s → (R.pool (R.buy s t)).length < (R.pool s).length) :
    ∀ n s Ws, Inv s → (R.pool s).length ≤ n → R.runAll order n s = .ok Ws →
      ∀ W ∈ Ws, ∃ s', Inv s' ∧ R.tied s' = [] ∧ W = R.out s' := by
  intro n
  induction n with
  | zero =>
    intro s Ws hs hn h W hW
    have hp : R.pool s = [] := List.length_eq_zero_iff.mp (Nat.le_zero.mp hn)
    unfold RoundRule.runAll at h
    rw [← Except.ok.inj h] at hW
    exact ⟨s, hs, pool_nil_tied_nil R hR s hp, by simpa using hW⟩
  | succ n ih =>
    intro s Ws hs hn h W hW
    unfold RoundRule.runAll at h
    by_cases hT : R.tied s = []
    · rw [if_pos hT] at h
      rw [← Except.ok.inj h] at hW
      exact ⟨s, hs, hT, by simpa using hW⟩
    · rw [if_neg hT] at h
      cases ho : order (R.tied s) with
      | error e => rw [ho] at h; simp at h
      | ok l =>
        rw [ho] at h
        simp only at h
        rcases foldlM_collect (fun t => R.runAll order n (R.buy s t)) l [] Ws h W hW with h1 | ⟨t, ht, r, hr, hWr⟩
        · simp at h1
        · have ht' : t ∈ R.tied s := hord _ _ ho t ht
          have := hdec s t hs ht'
          exact ih _ r (hbuy s t hs ht') (by omega) hr W hWr

theorem mem_dedup {α : Type} [BEq α] (x : α) : ∀ l : List α, x ∈ dedup l → x ∈ l := by
  intro l
  induction l with
  | nil => intro h; exact h
  | cons y ys ih =>
    intro h
    unfold dedup at h
    rcases List.mem_cons.mp h with h1 | h1
    · rw [h1]; simp
    · exact List.mem_cons_of_mem _ (ih (List.mem_filter.mp h1).1)

theorem mem_canonOutcomes (ls : List (List Pid)) (W : List Pid) (h : W ∈ canonOutcomes ls) :
    ∃ W' ∈ ls, W = sortIds W' := by
  unfold canonOutcomes at h
  obtain ⟨W', h1, h2⟩ := List.mem_map.mp (mem_dedup W _ h)
  exact ⟨W', h1, h2.symm⟩


/-- well-formed input of a rule run -/
structure WFInput (I : Inst) (init : List Pid) : Prop where
  projects_nodup : I.projects.Nodup
  cost_nonneg : ∀ p ∈ I.projects, 0 ≤ I.cost p
  init_nodup : init.Nodup
  init_sub : ∀ p ∈ init, p ∈ I.projects
  init_cost : costOf I.cost init ≤ I.budget

/-- the feasibility facts of property C01 about one outcome -/
structure ValidOutcome (I : Inst) (init W : List Pid) : Prop where
  nodup : W.Nodup
  sub : ∀ p ∈ W, p ∈ I.projects
  init_sub : ∀ p ∈ init, p ∈ W
  feasible : costOf I.cost W ≤ I.budget

/-- no further project of the instance fits -/
def Exhaustive (I : Inst) (W : List Pid) : Prop :=
  ∀ p ∈ I.projects, p ∉ W → I.budget < costOf I.cost W + I.cost p

theorem Exhaustive.isExhaustive {I : Inst} {W : List Pid} (h : Exhaustive I W) : I.isExhaustive W = true :=
  (isExhaustive_iff I W).mpr h

theorem ValidOutcome.isFeasible {I : Inst} {init W : List Pid} (h : ValidOutcome I init W) :
    I.isFeasible W = true := (isFeasible_iff I W).mpr h.feasible

theorem ValidOutcome.perm {I : Inst} {init W W' : List Pid} (h : ValidOutcome I init W) (hp : W'.Perm W) :
    ValidOutcome I init W' where
  nodup := hp.nodup_iff.mpr h.nodup
  sub := fun p hpW => h.sub p (hp.mem_iff.mp hpW)
  init_sub := fun p hpi => hp.mem_iff.mpr (h.init_sub p hpi)
  feasible := by rw [costOf_perm I.cost hp]; exact h.feasible

theorem Exhaustive.perm {I : Inst} {W W' : List Pid} (h : Exhaustive I W) (hp : W'.Perm W) : Exhaustive I W' := by
  intro p hpP hpW
  rw [costOf_perm I.cost hp]
  exact h p hpP (fun hm => hpW (hp.mem_iff.mpr hm))


theorem Tie_order_perm (t : Tie) (cost : Pid → Rat) (score : Pid → Nat) (T l : List Pid)
    (h : t.order cost score T = .ok l) : l.Perm T := by
  unfold Tie.order at h
  by_cases hc : t = .refuse ∧ T ≠ []
  · rw [if_pos hc] at h; simp at h
  · rw [if_neg hc] at h
    rw [← Except.ok.inj h]
    exact (sortLe_perm _ _).trans (sortLe_perm _ _)

theorem perm_mem_ne {T l : List Pid} (h : l.Perm T) : (∀ x ∈ l, x ∈ T) ∧ (T ≠ [] → l ≠ []) := by
  refine ⟨fun x hx => h.mem_iff.mp hx, ?_⟩
  intro hT hl
  rw [hl] at h
  exact hT h.symm.eq_nil


theorem foldlM_all_ok {α β : Type} (f : α → Except Err (List β)) :
    ∀ (ts : List α) (init res : List β),
      ts.foldlM (fun acc t => do let r ← f t; pure (acc ++ r)) init = Except.ok res →
      ∀ t ∈ ts, ∃ r, f t = .ok r := by
  intro ts
  induction ts with
  | nil => intro _ _ _ t ht; simp at ht
  | cons a ts ih =>
    intro init res h t ht
    rw [List.foldlM_cons] at h
    cases hf : f a with
    | error e => rw [hf] at h; simp [bind, Except.bind] at h
    | ok r =>
      rw [hf] at h
      simp only [bind, Except.bind, pure, Except.pure] at h
      rcases List.mem_cons.mp ht with e | e
      · exact ⟨r, by rw [e]; exact hf⟩
      · exact ih _ _ h t e

theorem foldlM_collect_conv {α β : Type} (f : α → Except Err (List β)) :
    ∀ (ts : List α) (init res : List β),
      ts.foldlM (fun acc t => do let r ← f t; pure (acc ++ r)) init = Except.ok res →
      ∀ W, (W ∈ init ∨ ∃ t ∈ ts, ∃ r, f t = .ok r ∧ W ∈ r) → W ∈ res := by
  intro ts
  induction ts with
  | nil =>
    intro init res h W hW
    simp only [List.foldlM_nil, pure, Except.pure] at h
    rw [← Except.ok.inj h]
    rcases hW with h1 | ⟨t, ht, _⟩
    · exact h1
    · simp at ht
  | cons a ts ih =>
    intro init res h W hW
    rw [List.foldlM_cons] at h
    cases hf : f a with
    | error e => rw [hf] at h; simp [bind, Except.bind] at h
    | ok r =>
      rw [hf] at h
      simp only [bind, Except.bind, pure, Except.pure] at h
      apply ih _ _ h W
      rcases hW with h1 | ⟨t, ht, r', hr', hW'⟩
      · exact Or.inl (List.mem_append.mpr (Or.inl h1))
      · rcases List.mem_cons.mp ht with e | e
        · rw [e, hf] at hr'
          rw [← Except.ok.inj hr'] at hW'
          exact Or.inl (List.mem_append.mpr (Or.inr hW'))
        · exact Or.inr ⟨t, e, r', hr', hW'⟩

/-- the executable irresolute run returns exactly the outcomes of the pure one (as a set) -/
theorem runAll_mem_iff {σ : Type} (R : RoundRule σ) (order : List Pid → Except Err (List Pid))
    (hord : ∀ T l, order T = .ok l → ∀ x, x ∈ l ↔ x ∈ T) :
    ∀ n s Ws, R.runAll order n s = .ok Ws → ∀ W, W ∈ Ws ↔ W ∈ R.runAllP n s := by
  intro n
  induction n with
  | zero =>
    intro s Ws h W
    unfold RoundRule.runAll at h
    rw [← Except.ok.inj h]
    simp [RoundRule.runAllP]
  | succ n ih =>
    intro s Ws h W
    unfold RoundRule.runAll at h
    unfold RoundRule.runAllP
    by_cases hT : R.tied s = []
    · rw [if_pos hT] at h
      rw [if_pos hT, ← Except.ok.inj h]
    · rw [if_neg hT] at h
      rw [if_neg hT]
      cases ho : order (R.tied s) with
      | error e => rw [ho] at h; simp at h
      | ok l =>
        rw [ho] at h
        simp only at h
        have hmem := hord _ _ ho
        rw [List.mem_flatMap]
        constructor
        · intro hW
          rcases foldlM_collect (fun t => R.runAll order n (R.buy s t)) l [] Ws h W hW with h1 | ⟨t, ht, r, hr, hWr⟩
          · simp at h1
          · exact ⟨t, (hmem t).mp ht, (ih _ r hr W).mp hWr⟩
        · intro ⟨t, ht, hWt⟩
          have ht' := (hmem t).mpr ht
          obtain ⟨r, hr⟩ := foldlM_all_ok (fun t => R.runAll order n (R.buy s t)) l [] Ws h t ht'
          exact foldlM_collect_conv (fun t => R.runAll order n (R.buy s t)) l [] Ws h W
            (Or.inr ⟨t, ht', r, hr, (ih _ r hr W).mpr hWt⟩)

theorem mem_dedup_iff {α : Type} [BEq α] [LawfulBEq α] (x : α) : ∀ l : List α, x ∈ dedup l ↔ x ∈ l := by
  intro l
  refine ⟨mem_dedup x l, ?_⟩
  induction l with
  | nil => intro h; exact h
  | cons y ys ih =>
    intro h
    unfold dedup
    by_cases e : x = y
    · rw [e]; simp
    · rcases List.mem_cons.mp h with h1 | h1
      · exact absurd h1 e
      · apply List.mem_cons_of_mem
        apply List.mem_filter.mpr
        refine ⟨ih h1, ?_⟩
        simp [e]

theorem mem_canonOutcomes_iff (ls : List (List Pid)) (W : List Pid) :
    W ∈ canonOutcomes ls ↔ ∃ W' ∈ ls, W = sortIds W' := by
  unfold canonOutcomes
  rw [mem_dedup_iff, List.mem_map]
  constructor
  · intro ⟨W', h1, h2⟩; exact ⟨W', h1, h2.symm⟩
  · intro ⟨W', h1, h2⟩; exact ⟨W', h1, h2.symm⟩

end GreedyAux

namespace Greedy
open GreedyAux

/-! ### G1: the general path is a well-formed round rule -/

theorem tied_sub_feasible (tsat : List Pid → Rat) (cost : Pid → Rat) (s : State) :
    ∀ x ∈ tied tsat cost s, x ∈ s.feasible := by
  intro x hx
  unfold tied at hx
  exact (List.mem_filter.mp hx).1

theorem rule_WF (tsat : List Pid → Rat) (I : Inst) : (rule tsat I).WF where
  tied_sub := fun s x hx => tied_sub_feasible tsat I.cost s x hx
  pool_buy := by
    intro s t _ x hx
    change x ∈ (buy I s t).feasible at hx
    unfold buy at hx
    have h := List.mem_filter.mp hx
    refine ⟨h.1, ?_⟩
    have h2 := h.2
    simp only [Bool.and_eq_true, bne_iff_ne, ne_eq] at h2
    exact h2.1

/-- the pool shrinks strictly when a tied project is bought -/
theorem buy_pool_lt (tsat : List Pid → Rat) (I : Inst) (s : State) (t : Pid) (ht : t ∈ tied tsat I.cost s) :
    (buy I s t).feasible.length < s.feasible.length := by
  unfold buy
  apply List.length_filter_lt_length_iff_exists.mpr
  exact ⟨t, tied_sub_feasible tsat I.cost s t ht, by simp⟩

/-! ### G2: the state invariant -/

structure Inv (I : Inst) (init : List Pid) (s : State) : Prop where
  nodup : s.alloc.Nodup
  sub : ∀ p ∈ s.alloc, p ∈ I.projects
  init_sub : ∀ p ∈ init, p ∈ s.alloc
  cost_le : costOf I.cost s.alloc ≤ I.budget
  feas_sound : ∀ p ∈ s.feasible,
    p ∈ I.projects ∧ p ∉ s.alloc ∧ costOf I.cost s.alloc + I.cost p ≤ I.budget
  feas_complete : ∀ p ∈ I.projects, p ∉ s.alloc →
    costOf I.cost s.alloc + I.cost p ≤ I.budget → p ∈ s.feasible

theorem inv_init (I : Inst) (init : List Pid) (hinit : init.Nodup) (hsub : ∀ p ∈ init, p ∈ I.projects)
    (hcost : costOf I.cost init ≤ I.budget) : Inv I init (initState I init) where
  nodup := hinit
  sub := hsub
  init_sub := fun _ h => h
  cost_le := hcost
  feas_sound := by
    intro p hp
    unfold initState at hp
    have h := List.mem_filter.mp hp
    have h2 := h.2
    simp only [Bool.and_eq_true, Bool.not_eq_true', decide_eq_true_eq] at h2
    refine ⟨(mem_sortIds _ _).mp h.1, ?_, h2.2⟩
    intro hmem
    have : init.contains p = true := List.contains_iff_mem.mpr hmem
    rw [this] at h2
    exact Bool.noConfusion h2.1
  feas_complete := by
    intro p hp hn hfit
    unfold initState
    apply List.mem_filter.mpr
    refine ⟨(mem_sortIds _ _).mpr hp, ?_⟩
    simp only [Bool.and_eq_true, Bool.not_eq_true', decide_eq_true_eq]
    refine ⟨?_, hfit⟩
    cases hc : init.contains p with
    | false => rfl
    | true => exact absurd (List.contains_iff_mem.mp hc) hn

theorem inv_buy (tsat : List Pid → Rat) (I : Inst) (init : List Pid) (hcost : ∀ p ∈ I.projects, 0 ≤ I.cost p)
    (s : State) (t : Pid) (hs : Inv I init s) (ht : t ∈ tied tsat I.cost s) : Inv I init (buy I s t) := by
  have htf := tied_sub_feasible tsat I.cost s t ht
  obtain ⟨htP, htA, htfit⟩ := hs.feas_sound t htf
  have hc : costOf I.cost (s.alloc ++ [t]) = costOf I.cost s.alloc + I.cost t := costOf_snoc _ _ _
  constructor
  · change (s.alloc ++ [t]).Nodup
    rw [List.nodup_append]
    refine ⟨hs.nodup, by simp, ?_⟩
    intro a ha b hb
    have : b = t := by simpa using hb
    rw [this]
    intro hat
    exact htA (hat ▸ ha)
  · intro p hp
    change p ∈ s.alloc ++ [t] at hp
    rcases List.mem_append.mp hp with h | h
    · exact hs.sub p h
    · have : p = t := by simpa using h
      rw [this]; exact htP
  · intro p hp
    change p ∈ s.alloc ++ [t]
    exact List.mem_append.mpr (Or.inl (hs.init_sub p hp))
  · change costOf I.cost (s.alloc ++ [t]) ≤ I.budget
    rw [hc]; exact htfit
  · intro p hp
    change p ∈ s.feasible.filter _ at hp
    have h := List.mem_filter.mp hp
    have h2 := h.2
    simp only [Bool.and_eq_true, bne_iff_ne, ne_eq, decide_eq_true_eq] at h2
    obtain ⟨hpP, hpA, _⟩ := hs.feas_sound p h.1
    refine ⟨hpP, ?_, h2.2⟩
    change p ∉ s.alloc ++ [t]
    intro hm
    rcases List.mem_append.mp hm with h' | h'
    · exact hpA h'
    · exact h2.1 (by simpa using h')
  · intro p hpP hpA hfit
    change p ∉ s.alloc ++ [t] at hpA
    change costOf I.cost (s.alloc ++ [t]) + I.cost p ≤ I.budget at hfit
    change p ∈ s.feasible.filter _
    have hpA' : p ∉ s.alloc := fun h => hpA (List.mem_append.mpr (Or.inl h))
    have hpt : p ≠ t := fun h => hpA (List.mem_append.mpr (Or.inr (by simp [h])))
    have h0 := hcost t htP
    have hold : p ∈ s.feasible := hs.feas_complete p hpP hpA' (by rw [hc] at hfit; linarith)
    apply List.mem_filter.mpr
    refine ⟨hold, ?_⟩
    simp only [Bool.and_eq_true, bne_iff_ne, ne_eq, decide_eq_true_eq]
    exact ⟨hpt, hfit⟩

/-! ### G3 / G5: the argmax -/

theorem ERat_le_refl (a : ERat) : ERat.le a a = true := by
  cases a with
  | none => rfl
  | some x => simp [ERat.le]

theorem ERat_le_total (a b : ERat) : ERat.le a b = true ∨ ERat.le b a = true := by
  cases a with
  | none => right; cases b <;> rfl
  | some x =>
    cases b with
    | none => left; rfl
    | some y =>
      simp only [ERat.le, decide_eq_true_eq]
      exact le_total x y

theorem ERat_le_trans {a b c : ERat} (h1 : ERat.le a b = true) (h2 : ERat.le b c = true) : ERat.le a c = true := by
  cases c with
  | none => cases a <;> rfl
  | some z =>
    cases b with
    | none => simp [ERat.le] at h2
    | some y =>
      cases a with
      | none => simp [ERat.le] at h1
      | some x =>
        simp only [ERat.le, decide_eq_true_eq] at *
        exact le_trans h1 h2

theorem ERat_le_antisymm {a b : ERat} (h1 : ERat.le a b = true) (h2 : ERat.le b a = true) : a = b := by
  cases a with
  | none =>
    cases b with
    | none => rfl
    | some y => simp [ERat.le] at h1
  | some x =>
    cases b with
    | none => simp [ERat.le] at h2
    | some y =>
      simp only [ERat.le, decide_eq_true_eq] at *
      rw [le_antisymm h1 h2]

theorem emax_cons_cons (x y : ERat) (l : List ERat) :
    emax (x :: y :: l) = if ERat.le (emax (y :: l)) x then x else emax (y :: l) := rfl

theorem emax_mem : ∀ l : List ERat, l ≠ [] → emax l ∈ l := by
  intro l
  induction l with
  | nil => intro h; exact absurd rfl h
  | cons x xs ih =>
    intro _
    cases xs with
    | nil => simp [emax]
    | cons y l =>
      rw [emax_cons_cons]
      by_cases h : ERat.le (emax (y :: l)) x = true
      · rw [if_pos h]; simp
      · rw [if_neg h]
        exact List.mem_cons_of_mem _ (ih (by simp))

theorem emax_ge : ∀ l : List ERat, ∀ a ∈ l, ERat.le a (emax l) = true := by
  intro l
  induction l with
  | nil => intro a ha; simp at ha
  | cons x xs ih =>
    intro a ha
    cases xs with
    | nil =>
      have : a = x := by simpa using ha
      rw [this]; exact ERat_le_refl x
    | cons y l =>
      rw [emax_cons_cons]
      by_cases h : ERat.le (emax (y :: l)) x = true
      · rw [if_pos h]
        rcases List.mem_cons.mp ha with rfl | ha'
        · exact ERat_le_refl _
        · exact ERat_le_trans (ih a ha') h
      · rw [if_neg h]
        rcases List.mem_cons.mp ha with rfl | ha'
        · rcases ERat_le_total a (emax (y :: l)) with h' | h'
          · exact h'
          · exact absurd h' h
        · exact ih a ha'

/-- G3: the round has a candidate exactly when some project still fits -/
theorem tied_eq_nil_iff (tsat : List Pid → Rat) (cost : Pid → Rat) (s : State) :
    tied tsat cost s = [] ↔ s.feasible = [] := by
  constructor
  · intro h
    by_contra hne
    have hm : s.feasible.map (marginal tsat cost s.alloc) ≠ [] := by
      intro h'; exact hne (List.map_eq_nil_iff.mp h')
    obtain ⟨p, hp, hpe⟩ := List.mem_map.mp (emax_mem _ hm)
    have : p ∈ tied tsat cost s := by
      unfold tied
      apply List.mem_filter.mpr
      exact ⟨hp, by rw [hpe]; exact beq_self_eq_true _⟩
    rw [h] at this
    simp at this
  · intro h
    unfold tied
    rw [h]; rfl

/-- G5: a tied project still fits and has maximal marginal satisfaction per unit of cost -/
theorem tied_spec (tsat : List Pid → Rat) (cost : Pid → Rat) (s : State) (t : Pid)
    (ht : t ∈ tied tsat cost s) :
    t ∈ s.feasible ∧ ∀ q ∈ s.feasible,
      ERat.le (marginal tsat cost s.alloc q) (marginal tsat cost s.alloc t) = true := by
  unfold tied at ht
  have h := List.mem_filter.mp ht
  refine ⟨h.1, ?_⟩
  intro q hq
  have he : marginal tsat cost s.alloc t = emax (s.feasible.map (marginal tsat cost s.alloc)) := eq_of_beq h.2
  rw [he]
  exact emax_ge _ _ (List.mem_map.mpr ⟨q, hq, rfl⟩)

/-- converse of G5: the tied list is exactly the argmax set -/
theorem mem_tied_iff (tsat : List Pid → Rat) (cost : Pid → Rat) (s : State) (t : Pid) :
    t ∈ tied tsat cost s ↔ t ∈ s.feasible ∧ ∀ q ∈ s.feasible,
      ERat.le (marginal tsat cost s.alloc q) (marginal tsat cost s.alloc t) = true := by
  constructor
  · exact tied_spec tsat cost s t
  · intro ⟨htf, hmax⟩
    unfold tied
    apply List.mem_filter.mpr
    refine ⟨htf, ?_⟩
    have hm : s.feasible.map (marginal tsat cost s.alloc) ≠ [] := by
      intro h'
      rw [List.map_eq_nil_iff.mp h'] at htf
      simp at htf
    obtain ⟨p, hp, hpe⟩ := List.mem_map.mp (emax_mem _ hm)
    have h1 := hmax p hp
    rw [hpe] at h1
    have h2 : ERat.le (marginal tsat cost s.alloc t) (emax (s.feasible.map (marginal tsat cost s.alloc))) = true :=
      emax_ge _ _ (List.mem_map.mpr ⟨t, htf, rfl⟩)
    have : marginal tsat cost s.alloc t = emax (s.feasible.map (marginal tsat cost s.alloc)) :=
      ERat_le_antisymm h2 h1
    rw [this]
    exact beq_self_eq_true _


/-! ### G4: every outcome of the general path is valid and exhaustive -/

theorem inv_valid {I : Inst} {init : List Pid} {s : State} (h : Inv I init s) : ValidOutcome I init s.alloc :=
  ⟨h.nodup, h.sub, h.init_sub, h.cost_le⟩

theorem inv_terminal_exhaustive {I : Inst} {init : List Pid} {s : State} (h : Inv I init s)
    (hf : s.feasible = []) : Exhaustive I s.alloc := by
  intro p hp hn
  by_contra hc
  have := h.feas_complete p hp hn (le_of_not_gt hc)
  rw [hf] at this
  simp at this

theorem terminal_good (tsat : List Pid → Rat) {I : Inst} {init : List Pid} {W : List Pid}
    (h : ∃ s', Inv I init s' ∧ (rule tsat I).tied s' = [] ∧ W = (rule tsat I).out s') :
    ValidOutcome I init W ∧ Exhaustive I W := by
  obtain ⟨s', hs', ht, hW⟩ := h
  rw [hW]
  exact ⟨inv_valid hs', inv_terminal_exhaustive hs' ((tied_eq_nil_iff tsat I.cost s').mp ht)⟩

/-- pure resolute run -/
theorem runP_good (tsat : List Pid → Rat) (I : Inst) (init : List Pid) (hwf : WFInput I init)
    (ord : List Pid → List Pid) (hord : ∀ T, ∀ x ∈ ord T, x ∈ T) (hne : ∀ T, T ≠ [] → ord T ≠ [])
    (n : Nat) (hn : (initState I init).feasible.length ≤ n) :
    ValidOutcome I init ((rule tsat I).runP ord n (initState I init)) ∧
      Exhaustive I ((rule tsat I).runP ord n (initState I init)) :=
  terminal_good tsat
    (runP_inv_term (rule tsat I) (rule_WF tsat I) ord (Inv I init) hord hne
      (fun s t hs ht => inv_buy tsat I init hwf.cost_nonneg s t hs ht)
      (fun s t _ ht => buy_pool_lt tsat I s t ht)
      n _ (inv_init I init hwf.init_nodup hwf.init_sub hwf.init_cost) hn)

/-- pure irresolute run -/
theorem runAllP_good (tsat : List Pid → Rat) (I : Inst) (init : List Pid) (hwf : WFInput I init)
    (n : Nat) (hn : (initState I init).feasible.length ≤ n) :
    ∀ W ∈ (rule tsat I).runAllP n (initState I init), ValidOutcome I init W ∧ Exhaustive I W :=
  fun W hW => terminal_good tsat
    (runAllP_inv_term (rule tsat I) (rule_WF tsat I) (Inv I init)
      (fun s t hs ht => inv_buy tsat I init hwf.cost_nonneg s t hs ht)
      (fun s t _ ht => buy_pool_lt tsat I s t ht)
      n _ (inv_init I init hwf.init_nodup hwf.init_sub hwf.init_cost) hn W hW)

/-- the executable resolute run (`greedy_utilitarian_scheme`, resolute), any tie-breaking function that
    returns a non-empty sub-list of the tied projects or raises -/
theorem general_good (tsat : List Pid → Rat) (I : Inst) (init : List Pid) (hwf : WFInput I init)
    (order : List Pid → Except Err (List Pid))
    (hord : ∀ T l, order T = .ok l → (∀ x ∈ l, x ∈ T) ∧ (T ≠ [] → l ≠ []))
    (W : List Pid) (h : general tsat I init order = .ok W) :
    ValidOutcome I init W ∧ Exhaustive I W :=
  terminal_good tsat
    (run_inv_term (rule tsat I) (rule_WF tsat I) order (Inv I init) hord
      (fun s t hs ht => inv_buy tsat I init hwf.cost_nonneg s t hs ht)
      (fun s t _ ht => buy_pool_lt tsat I s t ht)
      _ _ W (inv_init I init hwf.init_nodup hwf.init_sub hwf.init_cost) (le_refl _) h)

/-- the executable irresolute run (name-sorted, de-duplicated outcomes) -/
theorem generalAll_good (tsat : List Pid → Rat) (I : Inst) (init : List Pid) (hwf : WFInput I init)
    (order : List Pid → Except Err (List Pid))
    (hord : ∀ T l, order T = .ok l → (∀ x ∈ l, x ∈ T))
    (Ws : List (List Pid)) (h : generalAll tsat I init order = .ok Ws) :
    ∀ W ∈ Ws, ValidOutcome I init W ∧ Exhaustive I W := by
  intro W hW
  unfold generalAll at h
  cases hr : (rule tsat I).runAll order (initState I init).feasible.length (initState I init) with
  | error e => rw [hr] at h; simp [Except.map] at h
  | ok ls =>
    rw [hr] at h
    simp only [Except.map] at h
    rw [← Except.ok.inj h] at hW
    obtain ⟨W', hW', hWs⟩ := mem_canonOutcomes ls W hW
    have := terminal_good tsat
      (runAll_inv_term (rule tsat I) (rule_WF tsat I) order (Inv I init) hord
        (fun s t hs ht => inv_buy tsat I init hwf.cost_nonneg s t hs ht)
        (fun s t _ ht => buy_pool_lt tsat I s t ht)
        _ _ ls (inv_init I init hwf.init_nodup hwf.init_sub hwf.init_cost) (le_refl _) hr W' hW')
    rw [hWs]
    exact ⟨this.1.perm (sortLe_perm _ W'), this.2.perm (sortLe_perm _ W')⟩

/-! ### G6: the single pass of the additive fast path -/

theorem pass_nil (cost : Pid → Rat) (rem : Rat) : pass cost rem [] = [] := rfl

theorem pass_cons (cost : Pid → Rat) (rem : Rat) (p : Pid) (ps : List Pid) :
    pass cost rem (p :: ps) = if cost p ≤ rem then p :: pass cost (rem - cost p) ps else pass cost rem ps := rfl

theorem pass_sublist (cost : Pid → Rat) : ∀ (l : List Pid) (rem : Rat), (pass cost rem l).Sublist l := by
  intro l
  induction l with
  | nil => intro rem; exact List.Sublist.refl _
  | cons p ps ih =>
    intro rem
    rw [pass_cons]
    by_cases h : cost p ≤ rem
    · rw [if_pos h]; exact (ih _).cons_cons p
    · rw [if_neg h]; exact (ih _).cons p

theorem pass_subset (cost : Pid → Rat) (l : List Pid) (rem : Rat) : ∀ p ∈ pass cost rem l, p ∈ l :=
  fun _ hp => (pass_sublist cost l rem).subset hp

theorem pass_nodup (cost : Pid → Rat) (l : List Pid) (rem : Rat) (h : l.Nodup) : (pass cost rem l).Nodup :=
  h.sublist (pass_sublist cost l rem)

/-- the selected projects cost at most the remaining budget -/
theorem pass_cost_le (cost : Pid → Rat) : ∀ (l : List Pid) (rem : Rat), 0 ≤ rem →
    costOf cost (pass cost rem l) ≤ rem := by
  intro l
  induction l with
  | nil => intro rem h; exact h
  | cons p ps ih =>
    intro rem hrem
    rw [pass_cons]
    by_cases h : cost p ≤ rem
    · rw [if_pos h, costOf_cons]
      have := ih (rem - cost p) (by linarith)
      linarith
    · rw [if_neg h]; exact ih rem hrem

/-- exhaustiveness w.r.t. the input: a skipped project does not fit on top of the selected ones
    (the remaining budget only decreases, so it never fits again) -/
theorem pass_exhaustive (cost : Pid → Rat) : ∀ (l : List Pid) (rem : Rat), (∀ p ∈ l, 0 ≤ cost p) →
    ∀ p ∈ l, p ∉ pass cost rem l → rem < costOf cost (pass cost rem l) + cost p := by
  intro l
  induction l with
  | nil => intro rem _ p hp; simp at hp
  | cons q ps ih =>
    intro rem hc p hp hn
    have hc' : ∀ p ∈ ps, 0 ≤ cost p := fun p hp => hc p (List.mem_cons_of_mem _ hp)
    rw [pass_cons] at hn ⊢
    by_cases h : cost q ≤ rem
    · rw [if_pos h] at hn ⊢
      have hpq : p ≠ q := fun e => hn (by rw [e]; simp)
      have hps : p ∈ ps := by
        rcases List.mem_cons.mp hp with e | e
        · exact absurd e hpq
        · exact e
      have hn' : p ∉ pass cost (rem - cost q) ps := fun e => hn (List.mem_cons_of_mem _ e)
      have := ih (rem - cost q) hc' p hps hn'
      rw [costOf_cons]
      linarith
    · rw [if_neg h] at hn ⊢
      rcases List.mem_cons.mp hp with e | e
      · rw [e]
        have h0 : 0 ≤ costOf cost (pass cost rem ps) :=
          costOf_nonneg cost _ (fun x hx => hc' x (pass_subset cost ps rem x hx))
        have := lt_of_not_ge h
        linarith
      · exact ih rem hc' p e hn

/-! ### G7: outcomes of the additive fast path -/

theorem additive_good (score : Pid → Rat) (I : Inst) (init : List Pid) (hwf : WFInput I init)
    (order : List Pid → Except Err (List Pid))
    (hord : ∀ T l, order T = .ok l → l.Perm T)
    (W : List Pid) (h : additive score I init order = .ok W) :
    ValidOutcome I init W ∧ Exhaustive I W := by
  unfold additive at h
  cases ho : order ((sortIds I.projects).filter (fun p => !init.contains p)) with
  | error e => rw [ho] at h; simp at h
  | ok ps =>
    rw [ho] at h
    simp only at h
    have hW := (Except.ok.inj h).symm
    have hperm := hord _ _ ho
    -- the list handed to `pass`
    have hL : (sortLe (fun a b => ERat.le (density score I.cost b) (density score I.cost a)) ps).Perm
        ((sortIds I.projects).filter (fun p => !init.contains p)) := (sortLe_perm _ ps).trans hperm
    generalize sortLe (fun a b => ERat.le (density score I.cost b) (density score I.cost a)) ps = L at hL hW
    have hmemL : ∀ p, p ∈ L ↔ p ∈ I.projects ∧ p ∉ init := by
      intro p
      rw [hL.mem_iff, List.mem_filter, mem_sortIds]
      simp
    have hLnd : L.Nodup := hL.nodup_iff.mpr ((sortIds_nodup hwf.projects_nodup).filter _)
    have hLc : ∀ p ∈ L, 0 ≤ I.cost p := fun p hp => hwf.cost_nonneg p ((hmemL p).mp hp).1
    have hrem : 0 ≤ I.budget - costOf I.cost init := by linarith [hwf.init_cost]
    have hcost : costOf I.cost W = costOf I.cost init + costOf I.cost (pass I.cost (I.budget - costOf I.cost init) L) := by
      rw [hW, costOf_append]
    refine ⟨⟨?_, ?_, ?_, ?_⟩, ?_⟩
    · rw [hW, List.nodup_append]
      refine ⟨hwf.init_nodup, pass_nodup _ _ _ hLnd, ?_⟩
      intro a ha b hb hab
      have := ((hmemL b).mp (pass_subset _ _ _ b hb)).2
      exact this (hab ▸ ha)
    · intro p hp
      rw [hW] at hp
      rcases List.mem_append.mp hp with h1 | h1
      · exact hwf.init_sub p h1
      · exact ((hmemL p).mp (pass_subset _ _ _ p h1)).1
    · intro p hp
      rw [hW]
      exact List.mem_append.mpr (Or.inl hp)
    · rw [hcost]
      have := pass_cost_le I.cost L _ hrem
      linarith
    · intro p hpP hpW
      rw [hcost]
      have hpi : p ∉ init := fun e => hpW (by rw [hW]; exact List.mem_append.mpr (Or.inl e))
      have hpp : p ∉ pass I.cost (I.budget - costOf I.cost init) L :=
        fun e => hpW (by rw [hW]; exact List.mem_append.mpr (Or.inr e))
      have := pass_exhaustive I.cost L _ hLc p ((hmemL p).mpr ⟨hpP, hpi⟩) hpp
      linarith


/-! ### "Follows its definition": the run refines the round-by-round definition -/

/-- `t` is a best next project after the allocation `A`: it is an undecided project of the instance that
    still fits, and no undecided project that still fits has a larger marginal satisfaction per unit of cost -/
def IsBest (tsat : List Pid → Rat) (I : Inst) (A : List Pid) (t : Pid) : Prop :=
  (t ∈ I.projects ∧ t ∉ A ∧ costOf I.cost A + I.cost t ≤ I.budget) ∧
  ∀ q ∈ I.projects, q ∉ A → costOf I.cost A + I.cost q ≤ I.budget →
    ERat.le (marginal tsat I.cost A q) (marginal tsat I.cost A t) = true

theorem mem_tied_iff_isBest (tsat : List Pid → Rat) {I : Inst} {init : List Pid} {s : State}
    (hs : Inv I init s) (t : Pid) : t ∈ tied tsat I.cost s ↔ IsBest tsat I s.alloc t := by
  rw [mem_tied_iff]
  constructor
  · intro ⟨h1, h2⟩
    exact ⟨hs.feas_sound t h1, fun q hq hqA hfit => h2 q (hs.feas_complete q hq hqA hfit)⟩
  · intro ⟨⟨h1, h2, h3⟩, h4⟩
    refine ⟨hs.feas_complete t h1 h2 h3, ?_⟩
    intro q hq
    obtain ⟨a, b, c⟩ := hs.feas_sound q hq
    exact h4 q a b c

/-- the definition of the greedy rule with tie-breaking `order`: starting from `A`, stop when nothing fits;
    otherwise add the first project of `order` applied to (an enumeration of) the best next projects -/
inductive SpecRun (tsat : List Pid → Rat) (I : Inst) (order : List Pid → Except Err (List Pid)) :
    List Pid → List Pid → Prop
  | stop (A : List Pid) : Exhaustive I A → SpecRun tsat I order A A
  | step (A T : List Pid) (t : Pid) (r W : List Pid) : (∀ x, x ∈ T ↔ IsBest tsat I A x) →
      order T = .ok (t :: r) → SpecRun tsat I order (A ++ [t]) W → SpecRun tsat I order A W

/-- the irresolute definition: any best next project may be added -/
inductive SpecRunAny (tsat : List Pid → Rat) (I : Inst) : List Pid → List Pid → Prop
  | stop (A : List Pid) : Exhaustive I A → SpecRunAny tsat I A A
  | step (A : List Pid) (t : Pid) (W : List Pid) : IsBest tsat I A t →
      SpecRunAny tsat I (A ++ [t]) W → SpecRunAny tsat I A W

theorem exhaustive_feasible_nil {I : Inst} {init : List Pid} {s : State} (hs : Inv I init s)
    (h : Exhaustive I s.alloc) : s.feasible = [] := by
  cases hf : s.feasible with
  | nil => rfl
  | cons p l =>
    exfalso
    obtain ⟨a, b, c⟩ := hs.feas_sound p (by rw [hf]; simp)
    have := h p a b
    linarith

theorem run_refines_spec_aux (tsat : List Pid → Rat) (I : Inst) (init : List Pid)
    (hcost : ∀ p ∈ I.projects, 0 ≤ I.cost p)
    (order : List Pid → Except Err (List Pid))
    (hord : ∀ T l, order T = .ok l → (∀ x ∈ l, x ∈ T) ∧ (T ≠ [] → l ≠ [])) :
    ∀ n s W, Inv I init s → s.feasible.length ≤ n → (rule tsat I).run order n s = .ok W →
      SpecRun tsat I order s.alloc W := by
  intro n
  induction n with
  | zero =>
    intro s W hs hn h
    have hf : s.feasible = [] := List.length_eq_zero_iff.mp (Nat.le_zero.mp hn)
    unfold RoundRule.run at h
    rw [← Except.ok.inj h]
    exact SpecRun.stop _ (inv_terminal_exhaustive hs hf)
  | succ n ih =>
    intro s W hs hn h
    unfold RoundRule.run at h
    by_cases hT : (rule tsat I).tied s = []
    · rw [if_pos hT] at h
      rw [← Except.ok.inj h]
      exact SpecRun.stop _ (inv_terminal_exhaustive hs ((tied_eq_nil_iff tsat I.cost s).mp hT))
    · rw [if_neg hT] at h
      cases ho : order ((rule tsat I).tied s) with
      | error e => rw [ho] at h; simp at h
      | ok l =>
        rw [ho] at h
        obtain ⟨hmem, hne⟩ := hord _ _ ho
        cases l with
        | nil => exact absurd rfl (hne hT)
        | cons t r =>
          simp only at h
          have ht : t ∈ tied tsat I.cost s := hmem t (by simp)
          have hlt := buy_pool_lt tsat I s t ht
          have := ih (buy I s t) W (inv_buy tsat I init hcost s t hs ht) (by omega) h
          exact SpecRun.step s.alloc (tied tsat I.cost s) t r _ (mem_tied_iff_isBest tsat hs) ho this

theorem runAllP_sound_aux (tsat : List Pid → Rat) (I : Inst) (init : List Pid)
    (hcost : ∀ p ∈ I.projects, 0 ≤ I.cost p) :
    ∀ n s, Inv I init s → s.feasible.length ≤ n →
      ∀ W ∈ (rule tsat I).runAllP n s, SpecRunAny tsat I s.alloc W := by
  intro n
  induction n with
  | zero =>
    intro s hs hn W hW
    have hf : s.feasible = [] := List.length_eq_zero_iff.mp (Nat.le_zero.mp hn)
    simp [RoundRule.runAllP] at hW
    rw [hW]
    exact SpecRunAny.stop _ (inv_terminal_exhaustive hs hf)
  | succ n ih =>
    intro s hs hn W hW
    unfold RoundRule.runAllP at hW
    by_cases hT : (rule tsat I).tied s = []
    · simp [hT] at hW
      rw [hW]
      exact SpecRunAny.stop _ (inv_terminal_exhaustive hs ((tied_eq_nil_iff tsat I.cost s).mp hT))
    · simp only [hT, if_false, List.mem_flatMap] at hW
      obtain ⟨t, ht, hW'⟩ := hW
      have hlt := buy_pool_lt tsat I s t ht
      have := ih (buy I s t) (inv_buy tsat I init hcost s t hs ht) (by omega) W hW'
      exact SpecRunAny.step s.alloc t W ((mem_tied_iff_isBest tsat hs t).mp ht) this

theorem runAllP_complete_aux (tsat : List Pid → Rat) (I : Inst) (init : List Pid)
    (hcost : ∀ p ∈ I.projects, 0 ≤ I.cost p) (A W : List Pid) (h : SpecRunAny tsat I A W) :
    ∀ n s, Inv I init s → s.alloc = A → s.feasible.length ≤ n → W ∈ (rule tsat I).runAllP n s := by
  induction h with
  | stop A hex =>
    intro n s hs hA hn
    rw [← hA] at hex
    have hf := exhaustive_feasible_nil hs hex
    have ht : (rule tsat I).tied s = [] := (tied_eq_nil_iff tsat I.cost s).mpr hf
    cases n with
    | zero => simp [RoundRule.runAllP, ← hA]; rfl
    | succ n => simp [RoundRule.runAllP, ht, ← hA]; rfl
  | step A t W hbest _ ih =>
    intro n s hs hA hn
    rw [← hA] at hbest
    have ht : t ∈ tied tsat I.cost s := (mem_tied_iff_isBest tsat hs t).mpr hbest
    have htf := tied_sub_feasible tsat I.cost s t ht
    have hlt := buy_pool_lt tsat I s t ht
    cases n with
    | zero =>
      have hf : s.feasible = [] := List.length_eq_zero_iff.mp (Nat.le_zero.mp hn)
      rw [hf] at htf; simp at htf
    | succ n =>
      have hne : (rule tsat I).tied s ≠ [] := by
        intro h'
        have : t ∈ (rule tsat I).tied s := ht
        rw [h'] at this; simp at this
      simp only [RoundRule.runAllP, hne, if_false, List.mem_flatMap]
      refine ⟨t, ht, ?_⟩
      exact ih n (buy I s t) (inv_buy tsat I init hcost s t hs ht) (by rw [← hA]; rfl) (by omega)


/-! ### G8: for additive satisfaction the fast path and the general path select the same set -/

/-- what a stable sort guarantees: sorted, and equal keys keep the order `R` of the input -/
def StableRel {α : Type} (le : α → α → Bool) (R : α → α → Prop) (a b : α) : Prop :=
  le a b = true ∧ (le b a = true → R a b)

theorem insertLe_pairwise {α : Type} (le : α → α → Bool) (R : α → α → Prop)
    (htot : ∀ a b, le a b = true ∨ le b a = true)
    (htr : ∀ a b c, le a b = true → le b c = true → le a c = true) (x : α) :
    ∀ L : List α, (∀ y ∈ L, R x y) → L.Pairwise (StableRel le R) →
      (insertLe le x L).Pairwise (StableRel le R) := by
  intro L
  induction L with
  | nil => intro _ _; simp [insertLe]
  | cons y ys ih =>
    intro hx hL
    obtain ⟨hy, hys⟩ := List.pairwise_cons.mp hL
    unfold insertLe
    by_cases h : le x y = true
    · rw [if_pos h]
      refine List.pairwise_cons.mpr ⟨?_, hL⟩
      intro z hz
      refine ⟨?_, fun _ => hx z hz⟩
      rcases List.mem_cons.mp hz with e | e
      · rw [e]; exact h
      · exact htr _ _ _ h (hy z e).1
    · rw [if_neg h]
      refine List.pairwise_cons.mpr ⟨?_, ih (fun z hz => hx z (List.mem_cons_of_mem _ hz)) hys⟩
      intro z hz
      have hz' : z ∈ x :: ys := (insertLe_perm le x ys).mem_iff.mp hz
      rcases List.mem_cons.mp hz' with e | e
      · rw [e]
        refine ⟨?_, fun h' => absurd h' h⟩
        rcases htot x y with h' | h'
        · exact absurd h' h
        · exact h'
      · exact hy z e

theorem sortLe_pairwise {α : Type} (le : α → α → Bool) (R : α → α → Prop)
    (htot : ∀ a b, le a b = true ∨ le b a = true)
    (htr : ∀ a b c, le a b = true → le b c = true → le a c = true) :
    ∀ M : List α, M.Pairwise R → (sortLe le M).Pairwise (StableRel le R) := by
  intro M
  induction M with
  | nil => intro _; simp [sortLe]
  | cons x xs ih =>
    intro hM
    obtain ⟨hx, hxs⟩ := List.pairwise_cons.mp hM
    have : sortLe le (x :: xs) = insertLe le x (sortLe le xs) := rfl
    rw [this]
    exact insertLe_pairwise le R htot htr x _ (fun y hy => hx y ((mem_sortLe le xs y).mp hy)) (ih hxs)

/-- the marginal density of the general path under an additive satisfaction: sat/cost, +∞ for zero cost -/
def dens (score : Pid → Rat) (cost : Pid → Rat) (p : Pid) : ERat :=
  if 0 < cost p then some (score p / cost p) else none

/-- additivity as the general path sees it: adding `p` to any allocation gains `score p` -/
def AdditiveSat (tsat : List Pid → Rat) (score : Pid → Rat) : Prop :=
  ∀ (A : List Pid) (p : Pid), tsat (A ++ [p]) - tsat A = score p

theorem additiveSat_sumOver (score : Pid → Rat) : AdditiveSat (fun l => sumOver l score) score := by
  intro A p
  change sumOver (A ++ [p]) score - sumOver A score = score p
  rw [sumOver_append]; simp [sumOver]

/-- the form used by the driver: Σ over voters of weight × Σ over the allocation of the voter's utility -/
theorem additiveSat_voters {ι : Type} (vs : List ι) (w : ι → Rat) (u : ι → Pid → Rat) :
    AdditiveSat (fun l => sumOver vs (fun i => w i * sumOver l (u i)))
      (fun p => sumOver vs (fun i => w i * u i p)) := by
  intro A p
  change sumOver vs (fun i => w i * sumOver (A ++ [p]) (u i)) - sumOver vs (fun i => w i * sumOver A (u i))
    = sumOver vs (fun i => w i * u i p)
  induction vs with
  | nil => simp [sumOver]
  | cons v vs ih =>
    simp only [sumOver] at ih ⊢
    rw [sumOver_append]
    simp only [sumOver]
    linarith

theorem marginal_additive (tsat : List Pid → Rat) (score : Pid → Rat) (htsat : AdditiveSat tsat score)
    (cost : Pid → Rat) (A : List Pid) (p : Pid) :
    marginal tsat cost A p = dens score cost p := by
  unfold marginal dens
  rw [htsat A p]

theorem density_eq_dens (score : Pid → Rat) (cost : Pid → Rat) (p : Pid) (hc : 0 < cost p) (hs : 0 ≤ score p) :
    density score cost p = dens score cost p := by
  unfold density dens
  rw [if_pos hc]
  by_cases h : 0 < score p
  · rw [if_pos h]
  · rw [if_neg h]
    have : score p = 0 := le_antisymm (le_of_not_gt h) hs
    rw [this, zero_div]

/-- "before" in the order the general path works through the projects: larger density first,
    equal densities in tie-breaking order -/
def Before (d : Pid → ERat) (lt : Pid → Pid → Prop) : Pid → Pid → Prop :=
  StableRel (fun a b => ERat.le (d b) (d a)) lt

theorem before_asymm (d : Pid → ERat) (lt : Pid → Pid → Prop) (hasym : ∀ a b, lt a b → lt b a → False)
    (a b : Pid) (h1 : Before d lt a b) (h2 : Before d lt b a) : False :=
  hasym a b (h1.2 h2.1) (h2.2 h1.1)

theorem sortLe_before (d : Pid → ERat) (lt : Pid → Pid → Prop) (M : List Pid) (hM : M.Pairwise lt) :
    (sortLe (fun a b => ERat.le (d b) (d a)) M).Pairwise (Before d lt) :=
  sortLe_pairwise _ lt (fun a b => ERat_le_total (d b) (d a))
    (fun _ _ _ h1 h2 => ERat_le_trans h2 h1) M hM

/-- the general path works through any list sorted by (density, tie-break) exactly like the single pass -/
theorem general_eq_pass (tsat : List Pid → Rat) (score : Pid → Rat) (htsat : AdditiveSat tsat score) (I : Inst) (ord : List Pid → List Pid) (lt : Pid → Pid → Prop)
    (hasym : ∀ a b, lt a b → lt b a → False)
    (hordP : ∀ T : List Pid, T.Nodup → (ord T).Perm T ∧ (ord T).Pairwise lt) :
    ∀ (l : List Pid) (s : State) (n : Nat), s.feasible.Nodup → l.Nodup → (∀ p ∈ l, 0 ≤ I.cost p) →
      l.Pairwise (Before (dens score I.cost) lt) →
      (∀ p, p ∈ s.feasible ↔ p ∈ l ∧ costOf I.cost s.alloc + I.cost p ≤ I.budget) →
      s.feasible.length ≤ n →
      (rule tsat I).runP ord n s =
        s.alloc ++ pass I.cost (I.budget - costOf I.cost s.alloc) l := by
  intro l
  induction l with
  | nil =>
    intro s n _ _ _ _ hiff _
    have hf : s.feasible = [] := by
      apply List.eq_nil_iff_forall_not_mem.mpr
      intro p hp
      have := ((hiff p).mp hp).1
      simp at this
    have ht : (rule tsat I).tied s = [] := (tied_eq_nil_iff _ I.cost s).mpr hf
    have ho : ord [] = [] := (hordP [] List.nodup_nil).1.eq_nil
    rw [pass_nil, List.append_nil]
    cases n with
    | zero => rfl
    | succ n => unfold RoundRule.runP; rw [ht, ho]; rfl
  | cons q l' ih =>
    intro s n hfnd hlnd hlc hpw hiff hn
    obtain ⟨hql', hl'nd⟩ := List.nodup_cons.mp hlnd
    obtain ⟨hqb, hl'pw⟩ := List.pairwise_cons.mp hpw
    have hl'c : ∀ p ∈ l', 0 ≤ I.cost p := fun p hp => hlc p (List.mem_cons_of_mem _ hp)
    rw [pass_cons]
    by_cases hfit : costOf I.cost s.alloc + I.cost q ≤ I.budget
    · have hfit' : I.cost q ≤ I.budget - costOf I.cost s.alloc := by linarith
      rw [if_pos hfit']
      have hqf : q ∈ s.feasible := (hiff q).mpr ⟨by simp, hfit⟩
      -- q is tied
      have hqt : q ∈ tied tsat I.cost s := by
        rw [mem_tied_iff]
        refine ⟨hqf, ?_⟩
        intro p hp
        rw [marginal_additive tsat score htsat, marginal_additive tsat score htsat]
        rcases List.mem_cons.mp ((hiff p).mp hp).1 with e | e
        · rw [e]; exact ERat_le_refl _
        · exact (hqb p e).1
      have htnd : (tied tsat I.cost s).Nodup := by
        unfold tied; exact hfnd.filter _
      obtain ⟨hperm, hsorted⟩ := hordP _ htnd
      cases n with
      | zero =>
        have : s.feasible = [] := List.length_eq_zero_iff.mp (Nat.le_zero.mp hn)
        rw [this] at hqf; simp at hqf
      | succ n =>
        unfold RoundRule.runP
        change (match ord (tied tsat I.cost s) with
          | [] => s.alloc
          | t :: _ => (rule tsat I).runP ord n (buy I s t)) = _
        cases ho : ord (tied tsat I.cost s) with
        | nil =>
          rw [ho] at hperm
          have := hperm.symm.eq_nil
          rw [this] at hqt; simp at hqt
        | cons h r =>
          rw [ho] at hperm hsorted
          have hh : h = q := by
            by_contra hne
            have hht : h ∈ tied tsat I.cost s := hperm.mem_iff.mp (by simp)
            have hhf := (tied_spec _ I.cost s h hht)
            have hhl : h ∈ l' := by
              rcases List.mem_cons.mp ((hiff h).mp hhf.1).1 with e | e
              · exact absurd e hne
              · exact e
            have h1 := hhf.2 q hqf
            rw [marginal_additive tsat score htsat, marginal_additive tsat score htsat] at h1
            have hlt1 : lt q h := (hqb h hhl).2 h1
            have hqr : q ∈ r := by
              rcases List.mem_cons.mp (hperm.mem_iff.mpr hqt) with e | e
              · exact absurd e.symm hne
              · exact e
            exact hasym q h hlt1 ((List.pairwise_cons.mp hsorted).1 q hqr)
          simp only
          rw [hh]
          have hlt := buy_pool_lt _ I s q hqt
          have hcs : costOf I.cost (s.alloc ++ [q]) = costOf I.cost s.alloc + I.cost q := costOf_snoc _ _ _
          have := ih (buy I s q) n (hfnd.filter _) hl'nd hl'c hl'pw ?_ (by omega)
          · rw [this]
            change (s.alloc ++ [q]) ++ pass I.cost (I.budget - costOf I.cost (s.alloc ++ [q])) l' = _
            rw [hcs, List.append_assoc]
            have : I.budget - (costOf I.cost s.alloc + I.cost q) = I.budget - costOf I.cost s.alloc - I.cost q := by ring
            rw [this]; rfl
          · intro p
            change p ∈ s.feasible.filter _ ↔ p ∈ l' ∧ costOf I.cost (s.alloc ++ [q]) + I.cost p ≤ I.budget
            rw [List.mem_filter, hiff p, hcs]
            simp only [Bool.and_eq_true, bne_iff_ne, ne_eq, decide_eq_true_eq]
            constructor
            · intro ⟨⟨h1, _⟩, h3, h4⟩
              refine ⟨?_, h4⟩
              rcases List.mem_cons.mp h1 with e | e
              · exact absurd e h3
              · exact e
            · intro ⟨h1, h2⟩
              have h0 := hlc q (by simp)
              refine ⟨⟨List.mem_cons_of_mem _ h1, by linarith⟩, ?_, h2⟩
              intro e; rw [e] at h1; exact hql' h1
    · have hfit' : ¬ I.cost q ≤ I.budget - costOf I.cost s.alloc := by
        intro h; apply hfit; linarith
      rw [if_neg hfit']
      apply ih s n hfnd hl'nd hl'c hl'pw ?_ hn
      intro p
      rw [hiff p]
      constructor
      · intro ⟨h1, h2⟩
        refine ⟨?_, h2⟩
        rcases List.mem_cons.mp h1 with e | e
        · rw [e] at h2; exact absurd h2 hfit
        · exact e
      · intro ⟨h1, h2⟩
        exact ⟨List.mem_cons_of_mem _ h1, h2⟩

/-- zero-cost projects can be pulled out of the single pass: they are always taken and do not change
    the remaining budget -/
theorem pass_perm_split (cost : Pid → Rat) : ∀ (l : List Pid) (rem : Rat), 0 ≤ rem → (∀ p ∈ l, 0 ≤ cost p) →
    (pass cost rem l).Perm
      (l.filter (fun p => !decide (0 < cost p)) ++ pass cost rem (l.filter (fun p => decide (0 < cost p)))) := by
  intro l
  induction l with
  | nil => intro rem _ _; simp [pass_nil]
  | cons q ps ih =>
    intro rem hrem hc
    have hc' : ∀ p ∈ ps, 0 ≤ cost p := fun p hp => hc p (List.mem_cons_of_mem _ hp)
    by_cases hq : 0 < cost q
    · have e1 : (q :: ps).filter (fun p => !decide (0 < cost p)) = ps.filter (fun p => !decide (0 < cost p)) := by
        rw [List.filter_cons_of_neg]; simp [hq]
      have e2 : (q :: ps).filter (fun p => decide (0 < cost p)) = q :: ps.filter (fun p => decide (0 < cost p)) := by
        rw [List.filter_cons_of_pos]; simp [hq]
      rw [e1, e2, pass_cons, pass_cons]
      by_cases hfit : cost q ≤ rem
      · rw [if_pos hfit, if_pos hfit]
        exact ((ih (rem - cost q) (by linarith) hc').cons q).trans List.perm_middle.symm
      · rw [if_neg hfit, if_neg hfit]
        exact ih rem hrem hc'
    · have hq0 : cost q = 0 := le_antisymm (le_of_not_gt hq) (hc q (by simp))
      have e1 : (q :: ps).filter (fun p => !decide (0 < cost p)) = q :: ps.filter (fun p => !decide (0 < cost p)) := by
        rw [List.filter_cons_of_pos]; simp [hq]
      have e2 : (q :: ps).filter (fun p => decide (0 < cost p)) = ps.filter (fun p => decide (0 < cost p)) := by
        rw [List.filter_cons_of_neg]; simp [hq]
      rw [e1, e2, pass_cons, if_pos (by rw [hq0]; exact hrem), hq0, sub_zero]
      exact (ih rem hrem hc').cons q


/-- G8. For an additive satisfaction (`tsat (A ++ [p]) − tsat A = score p`) with non-negative scores and a consistent
    tie-breaking (`ord T` lists `T` in the strict order `lt`), the fast path and the general path select the
    same set of projects. -/
theorem additive_eq_general (tsat : List Pid → Rat) (score : Pid → Rat) (htsat : AdditiveSat tsat score) (I : Inst) (init : List Pid) (hwf : WFInput I init)
    (hscore : ∀ p ∈ I.projects, 0 ≤ score p)
    (order : List Pid → Except Err (List Pid)) (ord : List Pid → List Pid) (lt : Pid → Pid → Prop)
    (hasym : ∀ a b, lt a b → lt b a → False)
    (hordP : ∀ T : List Pid, T.Nodup → (ord T).Perm T ∧ (ord T).Pairwise lt)
    (horder : ∀ T, order T = .ok (ord T)) :
    ∃ Wa Wg, additive score I init order = .ok Wa ∧
      general tsat I init order = .ok Wg ∧ Wa.Perm Wg := by
  have hPnd : ((sortIds I.projects).filter (fun p => !init.contains p)).Nodup :=
    (sortIds_nodup hwf.projects_nodup).filter _
  obtain ⟨hperm, hsorted⟩ := hordP _ hPnd
  have hmemP : ∀ p, p ∈ ord ((sortIds I.projects).filter (fun p => !init.contains p)) ↔
      p ∈ I.projects ∧ p ∉ init := by
    intro p
    rw [hperm.mem_iff, List.mem_filter, mem_sortIds]
    simp
  have hA := sortLe_before (density score I.cost) lt _ hsorted
  have hG := sortLe_before (dens score I.cost) lt _ hsorted
  have hpA := sortLe_perm (fun a b => ERat.le (density score I.cost b) (density score I.cost a))
    (ord ((sortIds I.projects).filter (fun p => !init.contains p)))
  have hpG := sortLe_perm (fun a b => ERat.le (dens score I.cost b) (dens score I.cost a))
    (ord ((sortIds I.projects).filter (fun p => !init.contains p)))
  have hrem : 0 ≤ I.budget - costOf I.cost init := by linarith [hwf.init_cost]
  refine ⟨init ++ pass I.cost (I.budget - costOf I.cost init)
      (sortLe (fun a b => ERat.le (density score I.cost b) (density score I.cost a))
        (ord ((sortIds I.projects).filter (fun p => !init.contains p)))),
    (rule tsat I).runP ord (initState I init).feasible.length (initState I init),
    ?_, ?_, ?_⟩
  · unfold additive
    rw [horder]
  · unfold general
    rw [run_eq_runP _ order ord (hordP [] List.nodup_nil).1.eq_nil horder]
  · generalize hLa : sortLe (fun a b => ERat.le (density score I.cost b) (density score I.cost a))
      (ord ((sortIds I.projects).filter (fun p => !init.contains p))) = La at hA hpA
    generalize hLg : sortLe (fun a b => ERat.le (dens score I.cost b) (dens score I.cost a))
      (ord ((sortIds I.projects).filter (fun p => !init.contains p))) = Lg at hG hpG
    have hmemA : ∀ p, p ∈ La ↔ p ∈ I.projects ∧ p ∉ init := fun p => by rw [hpA.mem_iff]; exact hmemP p
    have hmemG : ∀ p, p ∈ Lg ↔ p ∈ I.projects ∧ p ∉ init := fun p => by rw [hpG.mem_iff]; exact hmemP p
    have hndG : Lg.Nodup := hpG.nodup_iff.mpr (hperm.nodup_iff.mpr hPnd)
    have hcA : ∀ p ∈ La, 0 ≤ I.cost p := fun p hp => hwf.cost_nonneg p ((hmemA p).mp hp).1
    have hcG : ∀ p ∈ Lg, 0 ≤ I.cost p := fun p hp => hwf.cost_nonneg p ((hmemG p).mp hp).1
    -- the general path is the single pass over `Lg`
    have hgen := general_eq_pass tsat score htsat I ord lt hasym hordP Lg (initState I init)
      (initState I init).feasible.length ((sortIds_nodup hwf.projects_nodup).filter _) hndG hcG hG
      (by
        intro p
        change p ∈ (sortIds I.projects).filter _ ↔ p ∈ Lg ∧ costOf I.cost init + I.cost p ≤ I.budget
        rw [hmemG p, List.mem_filter, mem_sortIds]
        simp only [Bool.and_eq_true, Bool.not_eq_true', decide_eq_true_eq]
        constructor
        · intro ⟨h1, h2, h3⟩
          refine ⟨⟨h1, ?_⟩, h3⟩
          intro hm
          rw [List.contains_iff_mem.mpr hm] at h2
          exact Bool.noConfusion h2
        · intro ⟨⟨h1, h2⟩, h3⟩
          refine ⟨h1, ?_, h3⟩
          cases hc : init.contains p with
          | false => rfl
          | true => exact absurd (List.contains_iff_mem.mp hc) h2)
      (le_refl _)
    rw [hgen]
    change (init ++ pass I.cost (I.budget - costOf I.cost init) La).Perm
      (init ++ pass I.cost (I.budget - costOf I.cost init) Lg)
    apply List.Perm.append_left
    refine (pass_perm_split I.cost La _ hrem hcA).trans ((List.Perm.append ?_ ?_).trans
      (pass_perm_split I.cost Lg _ hrem hcG).symm)
    · exact (hpA.trans hpG.symm).filter _
    · -- the positive-cost parts are the same list
      have hpos : La.filter (fun p => decide (0 < I.cost p)) = Lg.filter (fun p => decide (0 < I.cost p)) := by
        apply List.Perm.eq_of_pairwise (le := Before (dens score I.cost) lt)
        · intro a b _ _ h1 h2
          exact (before_asymm _ lt hasym a b h1 h2).elim
        · refine List.Pairwise.imp_of_mem ?_ (hA.filter _)
          intro a b ha hb hab
          have ha' := List.mem_filter.mp ha
          have hb' := List.mem_filter.mp hb
          have ea := density_eq_dens score I.cost a (by simpa using ha'.2) (hscore a ((hmemA a).mp ha'.1).1)
          have eb := density_eq_dens score I.cost b (by simpa using hb'.2) (hscore b ((hmemA b).mp hb'.1).1)
          unfold Before StableRel at hab ⊢
          simp only [ea, eb] at hab
          exact hab
        · exact hG.filter _
        · exact (hpA.trans hpG.symm).filter _
      rw [hpos]

/-- the strict order behind a shipped tie-breaking rule: by key, equal keys by name -/
def tieLt (key : Pid → Rat) (a b : Pid) : Prop := key a < key b ∨ (key a = key b ∧ a < b)

theorem tieLt_asymm (key : Pid → Rat) (a b : Pid) (h1 : tieLt key a b) (h2 : tieLt key b a) : False := by
  unfold tieLt at h1 h2
  rcases h1 with h1 | ⟨h1, h1'⟩ <;> rcases h2 with h2 | ⟨h2, h2'⟩
  · linarith
  · rw [h2] at h1; exact lt_irrefl _ h1
  · rw [h1] at h2; exact lt_irrefl _ h2
  · exact Nat.lt_asymm h1' h2'

/-- `Tie.order` (any rule but `refuse`) lists a duplicate-free `T` in the strict order `tieLt key` -/
theorem tie_order_sorted (key : Pid → Rat) (T : List Pid) (hT : T.Nodup) :
    (sortKey key (sortIds T)).Perm T ∧ (sortKey key (sortIds T)).Pairwise (tieLt key) := by
  refine ⟨(sortLe_perm _ _).trans (sortLe_perm _ _), ?_⟩
  have h1 : (sortIds T).Pairwise (fun a b => a < b) := by
    have := sortLe_pairwise (fun a b : Pid => decide (a ≤ b)) (fun a b => a ≠ b)
      (fun a b => by simp only [decide_eq_true_eq]; exact le_total a b)
      (fun a b c h1 h2 => by simp only [decide_eq_true_eq] at *; exact le_trans h1 h2) T hT
    refine this.imp ?_
    intro a b hab
    unfold StableRel at hab
    simp only [decide_eq_true_eq] at hab
    rcases Nat.lt_or_ge a b with h | h
    · exact h
    · exact absurd (le_antisymm hab.1 h) (hab.2 h)
  have := sortLe_pairwise (fun a b : Pid => decide (key a ≤ key b)) (fun a b => a < b)
    (fun a b => by simp only [decide_eq_true_eq]; exact le_total _ _)
    (fun a b c h1 h2 => by simp only [decide_eq_true_eq] at *; exact le_trans h1 h2) (sortIds T) h1
  refine this.imp ?_
  intro a b hab
  unfold StableRel at hab
  simp only [decide_eq_true_eq] at hab
  unfold tieLt
  rcases lt_or_ge (key a) (key b) with h | h
  · exact Or.inl h
  · exact Or.inr ⟨le_antisymm hab.1 h, hab.2 h⟩

/-- G8 for the shipped tie-breaking rules (all but `refuse`, which raises) -/
theorem additive_eq_general_tie (tsat : List Pid → Rat) (score : Pid → Rat) (htsat : AdditiveSat tsat score) (I : Inst) (init : List Pid) (hwf : WFInput I init)
    (hscore : ∀ p ∈ I.projects, 0 ≤ score p) (t : Tie) (ht : t ≠ .refuse) (sc : Pid → Nat) :
    ∃ Wa Wg, additive score I init (t.order I.cost sc) = .ok Wa ∧
      general tsat I init (t.order I.cost sc) = .ok Wg ∧ Wa.Perm Wg :=
  additive_eq_general tsat score htsat I init hwf hscore (t.order I.cost sc)
    (fun T => sortKey (t.key I.cost sc) (sortIds T)) (tieLt (t.key I.cost sc))
    (tieLt_asymm _) (fun T hT => tie_order_sorted _ T hT)
    (fun T => by
      unfold Tie.order
      rw [if_neg (fun h => ht h.1)])

end Greedy
end Pabu
