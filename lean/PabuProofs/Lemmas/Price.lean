/-
  Lemmas about the price-system validator: rounding (`round2` is within 1/200 and monotone), hence the
  rounded comparisons (`round_cmp` rounds the DIFFERENCE) accept everything exact, treat numbers less than half a cent
  apart as equal and reject everything off by more than half a cent (a fortiori 1/100).
-/
import PabuModel.Price
import Mathlib.Tactic.Linarith
import Mathlib.Tactic.Ring
import Mathlib.Tactic.FieldSimp
import Mathlib.Tactic.Positivity
import Mathlib.Algebra.Order.Field.Rat
import Mathlib.Data.Rat.Floor
namespace Pabu.Price
open Pabu

theorem floor_le (y : Rat) : (y.floor : Rat) ≤ y := Rat.le_floor_iff.mp (le_refl _)

theorem lt_floor_add_one (y : Rat) : y < (y.floor : Rat) + 1 := by
  by_contra h
  have h' : ((y.floor + 1 : Int) : Rat) ≤ y := by push_cast; linarith
  have : y.floor + 1 ≤ y.floor := Rat.le_floor_iff.mpr h'
  omega

theorem floor_mono {x y : Rat} (h : x ≤ y) : x.floor ≤ y.floor :=
  Rat.le_floor_iff.mpr (le_trans (floor_le x) h)

theorem rhe_cases (y : Rat) :
    (roundHalfEven y = y.floor ∧ y - (y.floor : Rat) ≤ 1 / 2) ∨
    (roundHalfEven y = y.floor + 1 ∧ 1 / 2 ≤ y - (y.floor : Rat)) := by
  unfold roundHalfEven
  by_cases h1 : y - (y.floor : Rat) < 1 / 2
  · left; rw [if_pos h1]; exact ⟨rfl, le_of_lt h1⟩
  · rw [if_neg h1]
    by_cases h2 : 1 / 2 < y - (y.floor : Rat)
    · right; rw [if_pos h2]; exact ⟨rfl, le_of_lt h2⟩
    · rw [if_neg h2]
      by_cases h3 : y.floor % 2 = 0
      · left; rw [if_pos h3]; exact ⟨rfl, not_lt.mp h2⟩
      · right; rw [if_neg h3]; exact ⟨rfl, not_lt.mp h1⟩

theorem rhe_close (y : Rat) : |(roundHalfEven y : Rat) - y| ≤ 1 / 2 := by
  have hf := floor_le y
  have hl := lt_floor_add_one y
  rcases rhe_cases y with ⟨h, hh⟩ | ⟨h, hh⟩
  · rw [h, abs_le]; constructor <;> linarith
  · rw [h, abs_le]; push_cast; constructor <;> linarith

theorem rhe_ge_floor (y : Rat) : y.floor ≤ roundHalfEven y := by
  rcases rhe_cases y with ⟨h, _⟩ | ⟨h, _⟩ <;> omega

theorem rhe_le_floor_succ (y : Rat) : roundHalfEven y ≤ y.floor + 1 := by
  rcases rhe_cases y with ⟨h, _⟩ | ⟨h, _⟩ <;> omega

theorem rhe_mono {x y : Rat} (h : x ≤ y) : roundHalfEven x ≤ roundHalfEven y := by
  have hm := floor_mono h
  by_cases hfl : x.floor = y.floor
  · -- same integer part: compare the fractional parts
    unfold roundHalfEven
    rw [hfl]
    have hxy : x - (y.floor : Rat) ≤ y - (y.floor : Rat) := by linarith
    by_cases a1 : x - (y.floor : Rat) < 1 / 2
    · rw [if_pos a1]
      by_cases b1 : y - (y.floor : Rat) < 1 / 2
      · rw [if_pos b1]
      · rw [if_neg b1]
        by_cases b2 : 1 / 2 < y - (y.floor : Rat)
        · rw [if_pos b2]; omega
        · rw [if_neg b2]
          by_cases b3 : y.floor % 2 = 0
          · rw [if_pos b3]
          · rw [if_neg b3]; omega
    · rw [if_neg a1]
      have b1 : ¬ (y - (y.floor : Rat) < 1 / 2) := by intro hb; apply a1; linarith
      rw [if_neg b1]
      by_cases a2 : 1 / 2 < x - (y.floor : Rat)
      · rw [if_pos a2]
        have b2 : 1 / 2 < y - (y.floor : Rat) := by linarith
        rw [if_pos b2]
      · rw [if_neg a2]
        by_cases b2 : 1 / 2 < y - (y.floor : Rat)
        · rw [if_pos b2]
          by_cases a3 : y.floor % 2 = 0
          · rw [if_pos a3]; omega
          · rw [if_neg a3]
        · rw [if_neg b2]
  · have hlt : x.floor + 1 ≤ y.floor := by omega
    have h1 := rhe_le_floor_succ x
    have h2 := rhe_ge_floor y
    omega

/-- `round(x, 2)` is within half a cent of `x` -/
theorem round2_close (x : Rat) : |round2 x - x| ≤ 1 / 200 := by
  unfold round2
  have h := rhe_close (x * 100)
  rw [abs_le] at h ⊢
  constructor <;> linarith

/-- `round(·, 2)` is monotone -/
theorem round2_mono {x y : Rat} (h : x ≤ y) : round2 x ≤ round2 y := by
  unfold round2
  have h1 : x * 100 ≤ y * 100 := by linarith
  have h2 : ((roundHalfEven (x * 100) : Int) : Rat) ≤ ((roundHalfEven (y * 100) : Int) : Rat) := by
    exact_mod_cast rhe_mono h1
  linarith

theorem round2_zero : round2 0 = 0 := by
  unfold round2 roundHalfEven
  norm_num [Rat.floor]

/-- a gap of more than a cent survives the rounding -/
theorem round2_lt_of_gap {x y : Rat} (h : x + 1 / 100 < y) : round2 x < round2 y := by
  have hx := round2_close x
  have hy := round2_close y
  rw [abs_le] at hx hy
  linarith [hx.2, hy.1]

/-- the rounding grid: `round2` of a number within half a cent of 0 is 0 (used for `round_cmp`, which rounds the
    difference of the two numbers it compares) -/
theorem round2_eq_zero_of_abs_lt {x : Rat} (h : |x| < 1 / 200) : round2 x = 0 := by
  rw [abs_lt] at h
  have hfl : (x * 100).floor = 0 ∨ (x * 100).floor = -1 := by
    have h1 : (-1 : Int) ≤ (x * 100).floor := Rat.le_floor_iff.mpr (by push_cast; linarith [h.1])
    have h2 : (x * 100).floor < 1 := by
      by_contra hc
      have : ((1 : Int) : Rat) ≤ x * 100 := Rat.le_floor_iff.mp (by omega)
      push_cast at this
      linarith [h.2]
    omega
  unfold round2 roundHalfEven
  rcases hfl with h0 | h0
  · rw [h0]
    have : x * 100 - ((0 : Int) : Rat) < 1 / 2 := by push_cast; linarith [h.2]
    rw [if_pos this]; norm_num
  · rw [h0]
    have h1 : ¬ (x * 100 - ((-1 : Int) : Rat) < 1 / 2) := by push_cast; linarith [h.1]
    have h2 : 1 / 2 < x * 100 - ((-1 : Int) : Rat) := by push_cast; linarith [h.1]
    rw [if_neg h1, if_pos h2]; norm_num

/-- a number more than half a cent above 0 rounds to at least one cent -/
theorem round2_ge_cent_of_gt {x : Rat} (h : 1 / 200 < x) : 1 / 100 ≤ round2 x := by
  have h1 : ((1 : Int) : Rat) ≤ ((roundHalfEven (x * 100) : Int) : Rat) := by
    have : (1 : Int) ≤ roundHalfEven (x * 100) := by
      by_contra hc
      have hle : roundHalfEven (x * 100) ≤ 0 := by omega
      have hle' : ((roundHalfEven (x * 100) : Int) : Rat) ≤ 0 := by exact_mod_cast hle
      have hcl := rhe_close (x * 100)
      rw [abs_le] at hcl
      linarith [hcl.1]
    exact_mod_cast this
  unfold round2
  push_cast at h1
  linarith

/-- a number more than half a cent below 0 rounds to at most minus one cent -/
theorem round2_le_neg_cent_of_lt {x : Rat} (h : x < -(1 / 200)) : round2 x ≤ -(1 / 100) := by
  have h1 : ((roundHalfEven (x * 100) : Int) : Rat) ≤ ((-1 : Int) : Rat) := by
    have : roundHalfEven (x * 100) ≤ -1 := by
      by_contra hc
      have hle : 0 ≤ roundHalfEven (x * 100) := by omega
      have hle' : (0 : Rat) ≤ ((roundHalfEven (x * 100) : Int) : Rat) := by exact_mod_cast hle
      have hcl := rhe_close (x * 100)
      rw [abs_le] at hcl
      linarith [hcl.2]
    exact_mod_cast this
  unfold round2
  push_cast at h1
  linarith

/-- `round_cmp(x, y, 2) = round(x - y, 2)` -/
theorem roundCmp_def (x y : Rat) : roundCmp x y = round2 (x - y) := rfl

theorem roundCmp_nonpos {x y : Rat} (h : x ≤ y) : roundCmp x y ≤ 0 := by
  unfold roundCmp
  have := round2_mono (x := x - y) (y := 0) (by linarith)
  rw [round2_zero] at this
  exact this

theorem roundCmp_nonneg {x y : Rat} (h : y ≤ x) : 0 ≤ roundCmp x y := by
  unfold roundCmp
  have := round2_mono (x := 0) (y := x - y) (by linarith)
  rw [round2_zero] at this
  exact this

theorem roundCmp_eq_zero {x y : Rat} (h : x = y) : roundCmp x y = 0 := by
  unfold roundCmp; rw [h, sub_self, round2_zero]

/-- the repaired comparison is monotone in its first argument and antitone in the second -/
theorem roundCmp_mono {x x' y y' : Rat} (hx : x ≤ x') (hy : y' ≤ y) : roundCmp x y ≤ roundCmp x' y' := by
  unfold roundCmp
  exact round2_mono (by linarith)

/-- two numbers less than half a cent apart compare as equal, wherever they lie (in particular across a rounding
    boundary such as 2.375: the defect of the former `round(a, 2) - round(b, 2)`) -/
theorem roundCmp_eq_zero_of_close {x y : Rat} (h : |x - y| < 1 / 200) : roundCmp x y = 0 :=
  round2_eq_zero_of_abs_lt h

theorem roundCmp_pos_of_gt {x y : Rat} (h : y + 1 / 200 < x) : 0 < roundCmp x y := by
  unfold roundCmp
  have := round2_ge_cent_of_gt (x := x - y) (by linarith)
  linarith

theorem roundCmp_neg_of_lt {x y : Rat} (h : x + 1 / 200 < y) : roundCmp x y < 0 := by
  unfold roundCmp
  have := round2_le_neg_cent_of_lt (x := x - y) (by linarith)
  linarith

/-- sharp characterisation up to the half-cent boundary itself: positive ⇒ at least half a cent above -/
theorem roundCmp_pos_imp {x y : Rat} (h : 0 < roundCmp x y) : y + 1 / 200 ≤ x := by
  by_contra hc
  have hlt : x - y < 1 / 200 := by linarith [not_le.mp hc]
  by_cases hneg : x - y ≤ 0
  · have := roundCmp_nonpos (x := x) (y := y) (by linarith)
    linarith
  · have := roundCmp_eq_zero_of_close (x := x) (y := y) (by rw [abs_lt]; constructor <;> linarith [not_le.mp hneg])
    linarith

theorem roundCmp_neg_imp {x y : Rat} (h : roundCmp x y < 0) : x + 1 / 200 ≤ y := by
  by_contra hc
  have hlt : -(1 / 200) < x - y := by linarith [not_le.mp hc]
  by_cases hpos : 0 ≤ x - y
  · have := roundCmp_nonneg (x := x) (y := y) (by linarith)
    linarith
  · have := roundCmp_eq_zero_of_close (x := x) (y := y) (by rw [abs_lt]; constructor <;> linarith [not_le.mp hpos])
    linarith

/-- `round_cmp(x, y, 2) = 0` exactly within half a cent (the two boundary points ±1/200 round to the even cent 0) -/
theorem roundCmp_eq_zero_imp {x y : Rat} (h : roundCmp x y = 0) : |x - y| ≤ 1 / 200 := by
  rw [abs_le]
  constructor
  · by_contra hc
    have := roundCmp_neg_of_lt (x := x) (y := y) (by linarith [not_le.mp hc])
    linarith
  · by_contra hc
    have := roundCmp_pos_of_gt (x := x) (y := y) (by linarith [not_le.mp hc])
    linarith

theorem roundCmp_pos_of_gap {x y : Rat} (h : y + 1 / 100 < x) : 0 < roundCmp x y :=
  roundCmp_pos_of_gt (by linarith)

theorem roundCmp_neg_of_gap {x y : Rat} (h : x + 1 / 100 < y) : roundCmp x y < 0 :=
  roundCmp_neg_of_lt (by linarith)

end Pabu.Price

namespace Pabu.Price
open Pabu

/-! ### the conditions as propositions -/

/-- `(X.b, payments of X.N)` is a (stable) price system for `X.W`: the conditions of
    `validate_price_system` with exact comparisons -/
structure Exact (X : Input) (stable exhaustive : Bool) : Prop where
  feasible : X.total ≤ X.budget
  exhaust : exhaustive = true → ∀ c ∈ X.NW, ¬ (X.total + X.cost c ≤ X.budget)
  approved : ∀ v ∈ X.N, ∀ c ∈ X.C, v.app c = false → v.pay c = 0
  nonneg : ∀ v ∈ X.N, ∀ c ∈ X.C, 0 ≤ v.pay c
  within : ∀ v ∈ X.N, spent X v ≤ X.b
  selected : ∀ c ∈ X.W, paidFor X c = X.cost c
  unselected : ∀ c ∈ X.NW, paidFor X c = 0
  noMoney : stable = false → ∀ c ∈ X.NW, leftoverOf X c ≤ X.cost c
  stab : stable = true → ∀ c ∈ X.NW, stableOf X c ≤ X.cost c

theorem c0a_iff (X : Input) : c0a X = true ↔ X.total ≤ X.budget := by
  unfold c0a; simp [not_lt]

theorem c0b_iff (X : Input) : c0b X = true ↔ ∀ c ∈ X.NW, ¬ (X.total + X.cost c ≤ X.budget) := by
  unfold c0b; simp [List.all_eq_true]

theorem c1_iff (X : Input) : c1 X = true ↔ ∀ v ∈ X.N, ∀ c ∈ X.C, v.app c = false → v.pay c = 0 := by
  unfold c1
  simp only [List.all_eq_true, Bool.or_eq_true, decide_eq_true_eq]
  constructor
  · intro h v hv c hc ha
    rcases h v hv c hc with h1 | h1
    · rw [h1] at ha; cases ha
    · exact h1
  · intro h v hv c hc
    by_cases ha : v.app c = true
    · left; exact ha
    · right; exact h v hv c hc (by simpa using ha)

theorem eNeg_iff (X : Input) : eNeg X = true ↔ ∀ v ∈ X.N, ∀ c ∈ X.C, 0 ≤ v.pay c := by
  unfold eNeg; simp [List.all_eq_true]

theorem e2_iff (X : Input) : e2 X = true ↔ ∀ v ∈ X.N, spent X v ≤ X.b := by
  unfold e2; simp [List.all_eq_true]

theorem e3_iff (X : Input) : e3 X = true ↔ ∀ c ∈ X.W, paidFor X c = X.cost c := by
  unfold e3; simp [List.all_eq_true]

theorem e4_iff (X : Input) : e4 X = true ↔ ∀ c ∈ X.NW, paidFor X c = 0 := by
  unfold e4; simp [List.all_eq_true]

theorem e5_iff (X : Input) : e5 X = true ↔ ∀ c ∈ X.NW, leftoverOf X c ≤ X.cost c := by
  unfold e5; simp [List.all_eq_true]

theorem es5_iff (X : Input) : es5 X = true ↔ ∀ c ∈ X.NW, stableOf X c ≤ X.cost c := by
  unfold es5; simp [List.all_eq_true]

theorem cNeg_iff (X : Input) : cNeg X = true ↔ ∀ v ∈ X.N, ∀ c ∈ X.C, ¬ (roundCmp (v.pay c) 0 < 0) := by
  unfold cNeg; simp [List.all_eq_true]

theorem c2_iff (X : Input) : c2 X = true ↔ ∀ v ∈ X.N, ¬ (0 < roundCmp (spent X v) X.b) := by
  unfold c2; simp [List.all_eq_true]

theorem c3_iff (X : Input) : c3 X = true ↔ ∀ c ∈ X.W, roundCmp (paidFor X c) (X.cost c) = 0 := by
  unfold c3; simp [List.all_eq_true]

theorem c4_iff (X : Input) : c4 X = true ↔ ∀ c ∈ X.NW, roundCmp (paidFor X c) 0 = 0 := by
  unfold c4; simp [List.all_eq_true]

theorem c5_iff (X : Input) : c5 X = true ↔ ∀ c ∈ X.NW, ¬ (0 < roundCmp (leftoverOf X c) (X.cost c)) := by
  unfold c5; simp [List.all_eq_true]

theorem s5_iff (X : Input) : s5 X = true ↔ ∀ c ∈ X.NW, ¬ (0 < roundCmp (stableOf X c) (X.cost c)) := by
  unfold s5; simp [List.all_eq_true]

/-- the executable `exact` decides `Exact` -/
theorem exact_iff (X : Input) (stable exhaustive : Bool) : exact X stable exhaustive = true ↔ Exact X stable exhaustive := by
  unfold exact
  simp only [Bool.and_eq_true, Bool.or_eq_true, Bool.not_eq_true']
  rw [c0a_iff, c1_iff, eNeg_iff, e2_iff, e3_iff, e4_iff]
  constructor
  · rintro ⟨⟨⟨⟨⟨⟨⟨h0, hb⟩, h1⟩, hn⟩, h2⟩, h3⟩, h4⟩, h5⟩
    refine ⟨h0, ?_, h1, hn, h2, h3, h4, ?_, ?_⟩
    · intro he
      rcases hb with hb | hb
      · rw [he] at hb; cases hb
      · exact (c0b_iff X).mp hb
    · intro hs; rw [hs] at h5; exact (e5_iff X).mp h5
    · intro hs; rw [hs] at h5; exact (es5_iff X).mp h5
  · intro E
    refine ⟨⟨⟨⟨⟨⟨⟨E.feasible, ?_⟩, E.approved⟩, E.nonneg⟩, E.within⟩, E.selected⟩, E.unselected⟩, ?_⟩
    · cases exhaustive with
      | false => left; rfl
      | true => right; exact (c0b_iff X).mpr (E.exhaust rfl)
    · cases stable with
      | false => exact (e5_iff X).mpr (E.noMoney rfl)
      | true => exact (es5_iff X).mpr (E.stab rfl)

/-- some condition is violated by at least `δ` (the exact-valued conditions C0a, C0b, C1: violated at all) -/
inductive BrokenBy (δ : Rat) (X : Input) (stable exhaustive : Bool) : Prop where
  | c0a : X.budget < X.total → BrokenBy δ X stable exhaustive
  | c0b : exhaustive = true → (∃ c ∈ X.NW, X.total + X.cost c ≤ X.budget) → BrokenBy δ X stable exhaustive
  | c1 : (∃ v ∈ X.N, ∃ c ∈ X.C, v.app c = false ∧ v.pay c ≠ 0) → BrokenBy δ X stable exhaustive
  | neg : (∃ v ∈ X.N, ∃ c ∈ X.C, v.pay c ≤ -δ) → BrokenBy δ X stable exhaustive
  | c2 : (∃ v ∈ X.N, X.b + δ ≤ spent X v) → BrokenBy δ X stable exhaustive
  | c3 : (∃ c ∈ X.W, δ ≤ |paidFor X c - X.cost c|) → BrokenBy δ X stable exhaustive
  | c4 : (∃ c ∈ X.NW, δ ≤ |paidFor X c|) → BrokenBy δ X stable exhaustive
  | c5 : stable = false → (∃ c ∈ X.NW, X.cost c + δ ≤ leftoverOf X c) → BrokenBy δ X stable exhaustive
  | s5 : stable = true → (∃ c ∈ X.NW, X.cost c + δ ≤ stableOf X c) → BrokenBy δ X stable exhaustive

theorem sumOver_le_sumOver {α : Type} (l : List α) (f g : α → Rat) (h : ∀ x ∈ l, f x ≤ g x) :
    sumOver l f ≤ sumOver l g := by
  induction l with
  | nil => exact le_refl _
  | cons a l ih =>
    unfold sumOver
    have h1 := h a (by simp)
    have h2 := ih (fun x hx => h x (by simp [hx]))
    linarith

theorem leftoverOf_le_stableOf (X : Input) (c : Pid) : leftoverOf X c ≤ stableOf X c := by
  unfold leftoverOf stableOf
  apply sumOver_le_sumOver
  intro v _
  by_cases h : leftover X v ≤ maxPayment X v
  · rw [if_pos h]; exact h
  · rw [if_neg h]

end Pabu.Price

namespace Pabu.Price
open Pabu

/-! ### counting: the voters' money covers the cost of a priceable allocation -/

theorem sumOver_cons' {α : Type} (a : α) (l : List α) (f : α → Rat) : sumOver (a :: l) f = f a + sumOver l f := rfl

theorem sumOver_add {α : Type} (l : List α) (f g : α → Rat) :
    sumOver l (fun x => f x + g x) = sumOver l f + sumOver l g := by
  induction l with
  | nil => show (0 : Rat) = 0 + 0; ring
  | cons a l ih => rw [sumOver_cons', sumOver_cons', sumOver_cons', ih]; ring

theorem sumOver_zero {α : Type} (l : List α) : sumOver l (fun _ => (0 : Rat)) = 0 := by
  induction l with
  | nil => rfl
  | cons a l ih => rw [sumOver_cons', ih]; ring

theorem sumOver_swap {α β : Type} (l : List α) (m : List β) (f : α → β → Rat) :
    sumOver l (fun a => sumOver m (fun b => f a b)) = sumOver m (fun b => sumOver l (fun a => f a b)) := by
  induction l with
  | nil =>
    show (0 : Rat) = sumOver m (fun _ => (0 : Rat))
    rw [sumOver_zero]
  | cons a l ih =>
    rw [sumOver_cons', ih]
    have : (fun b => sumOver (a :: l) (fun a => f a b)) = fun b => f a b + sumOver l (fun a => f a b) := rfl
    rw [this, sumOver_add]

theorem sumOver_sublist_le {α : Type} {l m : List α} (h : l.Sublist m) (f : α → Rat) (hf : ∀ x ∈ m, 0 ≤ f x) :
    sumOver l f ≤ sumOver m f := by
  induction h with
  | slnil => exact le_refl _
  | cons a _ ih =>
    rw [sumOver_cons']
    have h1 := hf a (by simp)
    have h2 := ih (fun x hx => hf x (by simp [hx]))
    linarith
  | cons_cons a _ ih =>
    rw [sumOver_cons', sumOver_cons']
    have h2 := ih (fun x hx => hf x (by simp [hx]))
    linarith

theorem sumOver_const {α : Type} (l : List α) (c : Rat) : sumOver l (fun _ => c) = (l.length : Rat) * c := by
  induction l with
  | nil => show (0 : Rat) = ((0 : Nat) : Rat) * c; simp
  | cons a l ih => rw [sumOver_cons', ih, List.length_cons]; push_cast; ring

/-- a price system never needs more than the voters own: `cost(W) ≤ n · b` -/
theorem exact_total_le_money (X : Input) (stable exhaustive : Bool) (E : Exact X stable exhaustive)
    (hW : X.W.Sublist X.C) : X.total ≤ (X.N.length : Rat) * X.b := by
  have h1 : X.total = sumOver X.W (fun c => sumOver X.N (fun v => v.pay c)) := by
    unfold Input.total costOf
    exact le_antisymm (sumOver_le_sumOver _ _ _ (fun c hc => le_of_eq (E.selected c hc).symm))
      (sumOver_le_sumOver _ _ _ (fun c hc => le_of_eq (E.selected c hc)))
  rw [h1, sumOver_swap]
  have h2 : sumOver X.N (fun v => sumOver X.W (fun c => v.pay c)) ≤ sumOver X.N (fun _ => X.b) := by
    apply sumOver_le_sumOver
    intro v hv
    exact le_trans (sumOver_sublist_le hW v.pay (fun c hc => E.nonneg v hv c hc)) (E.within v hv)
  rw [sumOver_const] at h2
  exact h2

end Pabu.Price
