/-
  Scaling (the last clause of C13): multiplying every cost and the budget by the same factor
  `k > 0` — and, with it, every utility by a factor `μ > 0` (the shipped cost-homogeneous
  satisfaction measures scale by `μ = 1` or `μ = k`) — changes neither the tie-breaking orders
  nor the runs of Equal Shares, Phragmén and greedy welfare.

  * S1  stable sorts commute with maps that preserve the comparison; `Tie.order` ignores the scale;
  * S2  two round rules related by a state map that commutes with `tied`/`buy`/`out` have the same
        `Except`-valued runs (resolute and irresolute, errors included);
  * S3  Equal Shares: supporters, the three sums, the sweep, `rho`, `tied`, `pay`, `buy`, the
        initial state and whole runs (plain, at a given per-voter budget, iterated);
  * S4  Phragmén;  S5  greedy (general and additive path);
  * S6  the satisfaction measures are homogeneous of degree 0 or 1 in (costs, budget).
-/
import PabuModel.MES
import PabuModel.Greedy
import PabuModel.Phragmen
import PabuModel.Sat
import PabuProofs.Lemmas.RoundRuleExcept
import PabuProofs.Lemmas.MES
import PabuProofs.Lemmas.Tie
import PabuProofs.Lemmas.Greedy
import PabuProofs.Lemmas.Phragmen
import Mathlib.Tactic.Linarith
import Mathlib.Tactic.FieldSimp
import Mathlib.Tactic.Ring
import Mathlib.Tactic.Positivity
import Mathlib.Algebra.Order.Field.Rat
import Mathlib.Algebra.Order.Field.Basic
import Mathlib.Data.List.Basic
namespace Pabu
namespace Scale

/-! ### S1. Sorting and tie-breaking -/

theorem insertLe_map {α β : Type} (f : α → β) (le : α → α → Bool) (le' : β → β → Bool)
    (h : ∀ a b, le' (f a) (f b) = le a b) (x : α) :
    ∀ l : List α, insertLe le' (f x) (l.map f) = (insertLe le x l).map f
  | [] => rfl
  | y :: ys => by
    rw [List.map_cons, insertLe, insertLe, h x y]
    by_cases hxy : le x y = true
    · rw [if_pos hxy, if_pos hxy]; rfl
    · rw [if_neg hxy, if_neg hxy, List.map_cons, insertLe_map f le le' h x ys]

/-- a stable sort commutes with a map that preserves the comparison -/
theorem sortLe_map {α β : Type} (f : α → β) (le : α → α → Bool) (le' : β → β → Bool)
    (h : ∀ a b, le' (f a) (f b) = le a b) :
    ∀ l : List α, sortLe le' (l.map f) = (sortLe le l).map f
  | [] => rfl
  | a :: l => by
    rw [List.map_cons, MES.sortLe_cons, MES.sortLe_cons, sortLe_map f le le' h l]
    exact insertLe_map f le le' h a _

theorem mul_le_mul_iff_pos {k : Rat} (hk : 0 < k) (a b : Rat) : k * a ≤ k * b ↔ a ≤ b :=
  ⟨fun h => le_of_mul_le_mul_left h hk, fun h => mul_le_mul_of_nonneg_left h (le_of_lt hk)⟩

theorem mul_lt_mul_iff_pos {k : Rat} (hk : 0 < k) (a b : Rat) : k * a < k * b ↔ a < b :=
  ⟨fun h => lt_of_mul_lt_mul_left h (le_of_lt hk), fun h => mul_lt_mul_of_pos_left h hk⟩

theorem mul_pos_iff_pos {k : Rat} (hk : 0 < k) (a : Rat) : 0 < k * a ↔ 0 < a := by
  have := mul_lt_mul_iff_pos hk 0 a
  rwa [mul_zero] at this

theorem mul_eq_mul_iff_pos {k : Rat} (hk : 0 < k) (a b : Rat) : k * a = k * b ↔ a = b :=
  ⟨fun h => mul_left_cancel₀ (ne_of_gt hk) h, fun h => by rw [h]⟩

/-- the comparison of two tie-breaking keys ignores the scale of the costs (every rule) -/
theorem tie_key_le_scale (t : Tie) (cost : Pid → Rat) (score : Pid → Nat) {k : Rat} (hk : 0 < k)
    (a b : Pid) :
    decide (t.key (fun p => k * cost p) score a ≤ t.key (fun p => k * cost p) score b) =
      decide (t.key cost score a ≤ t.key cost score b) := by
  cases t with
  | lexico => rfl
  | appScore => rfl
  | refuse => rfl
  | perm π => rfl
  | minCost =>
    show decide (k * cost a ≤ k * cost b) = decide (cost a ≤ cost b)
    exact decide_eq_decide.mpr (mul_le_mul_iff_pos hk _ _)
  | maxCost =>
    show decide (-(k * cost a) ≤ -(k * cost b)) = decide (-cost a ≤ -cost b)
    refine decide_eq_decide.mpr ?_
    rw [neg_le_neg_iff, neg_le_neg_iff]
    exact mul_le_mul_iff_pos hk _ _

/-- **tie-breaking ignores the scale**: with all costs multiplied by `k > 0`, every shipped rule
    returns the same order (or the same refusal) on every tied set -/
theorem tie_order_scale (t : Tie) (cost : Pid → Rat) (score : Pid → Nat) {k : Rat} (hk : 0 < k) :
    Tie.order t (fun p => k * cost p) score = Tie.order t cost score := by
  funext l
  unfold Tie.order sortKey
  have : (fun a b => decide (t.key (fun p => k * cost p) score a ≤ t.key (fun p => k * cost p) score b)) =
      (fun a b => decide (t.key cost score a ≤ t.key cost score b)) := by
    funext a b; exact tie_key_le_scale t cost score hk a b
  rw [this]

/-! ### S2. Round rules related by a state map -/

variable {σ σ' : Type}

/-- resolute runs of two rules related by a state map `f` that commutes with everything -/
theorem run_map (R : RoundRule σ) (R' : RoundRule σ') (f : σ → σ')
    (order : List Pid → Except Err (List Pid))
    (hout : ∀ s, R'.out (f s) = R.out s) (htied : ∀ s, R'.tied (f s) = R.tied s)
    (hbuy : ∀ s t, R'.buy (f s) t = f (R.buy s t)) :
    ∀ n s, R'.run order n (f s) = R.run order n s := by
  intro n
  induction n with
  | zero => intro s; unfold RoundRule.run; rw [hout]
  | succ n ih =>
    intro s
    rw [RoundRule.run, RoundRule.run, hout, htied]
    by_cases hT : R.tied s = []
    · rw [if_pos hT, if_pos hT]
    · rw [if_neg hT, if_neg hT]
      cases ho : order (R.tied s) with
      | error e => rfl
      | ok l =>
        cases l with
        | nil => rfl
        | cons t r =>
          show R'.run order n (R'.buy (f s) t) = R.run order n (R.buy s t)
          rw [hbuy]; exact ih _

/-- irresolute runs -/
theorem runAll_map (R : RoundRule σ) (R' : RoundRule σ') (f : σ → σ')
    (order : List Pid → Except Err (List Pid))
    (hout : ∀ s, R'.out (f s) = R.out s) (htied : ∀ s, R'.tied (f s) = R.tied s)
    (hbuy : ∀ s t, R'.buy (f s) t = f (R.buy s t)) :
    ∀ n s, R'.runAll order n (f s) = R.runAll order n s := by
  intro n
  induction n with
  | zero => intro s; unfold RoundRule.runAll; rw [hout]
  | succ n ih =>
    intro s
    rw [runAll_succ, runAll_succ, hout, htied]
    by_cases hT : R.tied s = []
    · rw [if_pos hT, if_pos hT]
    · rw [if_neg hT, if_neg hT]
      cases ho : order (R.tied s) with
      | error e => rfl
      | ok ts =>
        show ts.foldlM (accStep (fun t => R'.runAll order n (R'.buy (f s) t))) [] =
          ts.foldlM (accStep (fun t => R.runAll order n (R.buy s t))) []
        refine TieL.foldlM_accStep_congr _ _ ts [] ?_
        intro t _
        show R'.runAll order n (R'.buy (f s) t) = R.runAll order n (R.buy s t)
        rw [hbuy]; exact ih _

/-! ### Sums -/

theorem sumOver_mul_left {α : Type} (k : Rat) (f : α → Rat) : ∀ l : List α,
    sumOver l (fun x => k * f x) = k * sumOver l f
  | [] => by simp [sumOver]
  | x :: xs => by simp only [sumOver, sumOver_mul_left k f xs]; ring

theorem costOf_scale (k : Rat) (c : Pid → Rat) (l : List Pid) :
    costOf (fun p => k * c p) l = k * costOf c l := sumOver_mul_left k c l

theorem minRat_map_mul {k : Rat} (hk : 0 < k) : ∀ l : List Rat,
    minRat (l.map (fun x => x * k)) = (minRat l).map (fun x => x * k)
  | [] => rfl
  | x :: xs => by
    rw [List.map_cons, minRat, minRat, minRat_map_mul hk xs]
    cases minRat xs with
    | none => rfl
    | some y =>
      show some (if x * k ≤ y * k then x * k else y * k) = some ((if x ≤ y then x else y) * k)
      by_cases hxy : x ≤ y
      · rw [if_pos hxy, if_pos (mul_le_mul_of_nonneg_right hxy (le_of_lt hk))]
      · rw [if_neg hxy, if_neg (fun h => hxy (le_of_mul_le_mul_right h hk))]

theorem maxRat_map_mul {k : Rat} (hk : 0 < k) : ∀ l : List Rat,
    maxRat (l.map (fun x => k * x)) = (maxRat l).map (fun x => k * x)
  | [] => rfl
  | x :: xs => by
    rw [List.map_cons, maxRat, maxRat, maxRat_map_mul hk xs]
    cases maxRat xs with
    | none => rfl
    | some y =>
      show some (if k * y ≤ k * x then k * x else k * y) = some (k * (if y ≤ x then x else y))
      by_cases hxy : y ≤ x
      · rw [if_pos hxy, if_pos ((mul_le_mul_iff_pos hk _ _).mpr hxy)]
      · rw [if_neg hxy, if_neg (fun h => hxy ((mul_le_mul_iff_pos hk _ _).mp h))]

/-! ### S3. Equal Shares -/

/-- voters with all utilities multiplied by `μ` -/
def scaleV (μ : Rat) (V : VCtx) : VCtx := ⟨V.vs, V.m, fun i p => μ * V.u i p⟩

/-- the instance with all costs and the budget multiplied by `k` -/
def scaleI (k : Rat) (I : Inst) : Inst := ⟨I.projects, fun p => k * I.cost p, k * I.budget⟩

def scaleSup (k μ : Rat) (s : Sup) : Sup := ⟨k * s.b, μ * s.u, s.m⟩

/-- an Equal-Shares state with all money multiplied by `k` -/
def scaleS (k : Rat) (s : MES.State) : MES.State := ⟨fun i => k * s.b i, s.pool, s.alloc⟩

theorem budSum_scale (k μ : Rat) : ∀ l : List Sup, budSum (l.map (scaleSup k μ)) = k * budSum l
  | [] => by simp [budSum]
  | s :: r => by simp only [List.map_cons, budSum, budSum_scale k μ r, scaleSup]; ring

theorem utilSum_scale (k μ : Rat) : ∀ l : List Sup, utilSum (l.map (scaleSup k μ)) = μ * utilSum l
  | [] => by simp [utilSum]
  | s :: r => by simp only [List.map_cons, utilSum, utilSum_scale k μ r, scaleSup]; ring

theorem ratioLe_scale {k μ : Rat} (hk : 0 < k) (hμ : 0 < μ) (s t : Sup) :
    ratioLe (scaleSup k μ s) (scaleSup k μ t) = ratioLe s t := by
  unfold ratioLe scaleSup
  refine decide_eq_decide.mpr ?_
  show k * s.b / (μ * s.u) ≤ k * t.b / (μ * t.u) ↔ s.b / s.u ≤ t.b / t.u
  rw [mul_div_mul_comm, mul_div_mul_comm]
  exact mul_le_mul_iff_pos (div_pos hk hμ) _ _

/-- the supporter sweep on a scaled list: the price scales by `k / μ` -/
theorem sweep_scale {k μ : Rat} (hk : 0 < k) (hμ : 0 < μ) : ∀ (l : List Sup) (R D : Rat),
    sweep (k * R) (μ * D) (l.map (scaleSup k μ)) = (sweep R D l).map (fun r => r * (k / μ))
  | [], _, _ => rfl
  | s :: rest, R, D => by
    have hμ0 : μ ≠ 0 := ne_of_gt hμ
    have hq : k * R / (μ * D) = R / D * (k / μ) := by rw [mul_div_mul_comm]; ring
    have htest : (k * R / (μ * D) * (scaleSup k μ s).u ≤ (scaleSup k μ s).b) ↔ (R / D * s.u ≤ s.b) := by
      show k * R / (μ * D) * (μ * s.u) ≤ k * s.b ↔ R / D * s.u ≤ s.b
      have : k * R / (μ * D) * (μ * s.u) = k * (R / D * s.u) := by
        rw [hq]; field_simp
      rw [this]
      exact mul_le_mul_iff_pos hk _ _
    rw [List.map_cons, sweep, sweep]
    by_cases h : R / D * s.u ≤ s.b
    · rw [if_pos h, if_pos (htest.mpr h), hq]; rfl
    · rw [if_neg h, if_neg (fun h' => h (htest.mp h'))]
      have h1 : k * R - ((scaleSup k μ s).m : Rat) * (scaleSup k μ s).b = k * (R - (s.m : Rat) * s.b) := by
        show k * R - (s.m : Rat) * (k * s.b) = k * (R - (s.m : Rat) * s.b); ring
      have h2 : μ * D - ((scaleSup k μ s).m : Rat) * (scaleSup k μ s).u = μ * (D - (s.m : Rat) * s.u) := by
        show μ * D - (s.m : Rat) * (μ * s.u) = μ * (D - (s.m : Rat) * s.u); ring
      rw [h1, h2]
      exact sweep_scale hk hμ rest _ _

namespace MES
open Pabu.MES

theorem supporters_scale {μ : Rat} (hμ : 0 < μ) (V : VCtx) (p : Pid) :
    supporters (scaleV μ V) p = supporters V p := by
  unfold supporters scaleV
  refine List.filter_congr ?_
  intro i _
  exact decide_eq_decide.mpr (mul_pos_iff_pos hμ _)

theorem totalSat_scale {μ : Rat} (hμ : 0 < μ) (V : VCtx) (p : Pid) :
    totalSat (scaleV μ V) p = μ * totalSat V p := by
  unfold totalSat
  rw [supporters_scale hμ, ← sumOver_mul_left]
  congr 1; funext i
  show ((V.m i : Nat) : Rat) * (μ * V.u i p) = μ * (((V.m i : Nat) : Rat) * V.u i p)
  ring

theorem sups_scale {μ : Rat} (hμ : 0 < μ) (k : Rat) (V : VCtx) (b : Nat → Rat) (p : Pid) :
    sups (scaleV μ V) (fun i => k * b i) p = (sups V b p).map (scaleSup k μ) := by
  unfold sups
  rw [supporters_scale hμ, List.map_map]
  rfl

/-- **the price of a project scales by `k / μ`** (money and costs × `k`, utilities × `μ`);
    unconditional: no hypothesis on signs of money, costs or utilities -/
theorem rho_scale {k μ : Rat} (hk : 0 < k) (hμ : 0 < μ) (V : VCtx) (cost : Pid → Rat)
    (b : Nat → Rat) (p : Pid) :
    rho (scaleV μ V) (fun q => k * cost q) (fun i => k * b i) p =
      (rho V cost b p).map (fun r => r * (k / μ)) := by
  unfold rho
  rw [sups_scale hμ, budSum_scale, utilSum_scale]
  by_cases h : budSum (sups V b p) < cost p
  · rw [if_pos h, if_pos ((mul_lt_mul_iff_pos hk _ _).mpr h)]; rfl
  · rw [if_neg h, if_neg (fun h' => h ((mul_lt_mul_iff_pos hk _ _).mp h'))]
    rw [sortLe_map (scaleSup k μ) ratioLe ratioLe (ratioLe_scale hk hμ)]
    exact sweep_scale hk hμ _ _ _

theorem affordable_scale {k μ : Rat} (hk : 0 < k) (hμ : 0 < μ) (V : VCtx) (cost : Pid → Rat)
    (s : State) :
    affordable (scaleV μ V) (fun q => k * cost q) (scaleS k s) =
      (affordable V cost s).map (fun e => (e.1, e.2 * (k / μ))) := by
  unfold affordable
  show List.filterMap (fun p => (rho (scaleV μ V) (fun q => k * cost q) (fun i => k * s.b i) p).map
      (fun r => (p, r))) s.pool = _
  rw [List.map_filterMap]
  refine List.filterMap_congr ?_
  intro p _
  rw [rho_scale hk hμ]
  cases rho V cost s.b p <;> rfl

theorem best_scale {k μ : Rat} (hk : 0 < k) (hμ : 0 < μ) (V : VCtx) (cost : Pid → Rat)
    (s : State) :
    best (scaleV μ V) (fun q => k * cost q) (scaleS k s) =
      (best V cost s).map (fun r => r * (k / μ)) := by
  unfold best
  rw [affordable_scale hk hμ, List.map_map, ← minRat_map_mul (div_pos hk hμ), List.map_map]
  rfl

/-- the projects tied for the least price are the same -/
theorem tied_scale {k μ : Rat} (hk : 0 < k) (hμ : 0 < μ) (V : VCtx) (cost : Pid → Rat)
    (s : State) :
    tied (scaleV μ V) (fun q => k * cost q) (scaleS k s) = tied V cost s := by
  unfold tied
  rw [best_scale hk hμ, affordable_scale hk hμ]
  cases best V cost s with
  | none => rfl
  | some r =>
    show (((affordable V cost s).map (fun e : Pid × Rat => (e.1, e.2 * (k / μ)))).filter
        (fun e : Pid × Rat => decide (e.2 = r * (k / μ)))).map Prod.fst =
      ((affordable V cost s).filter (fun e => decide (e.2 = r))).map Prod.fst
    rw [List.filter_map, List.map_map]
    have hne : k / μ ≠ 0 := ne_of_gt (div_pos hk hμ)
    have : ((fun e : Pid × Rat => decide (e.2 = r * (k / μ))) ∘ fun e : Pid × Rat => (e.1, e.2 * (k / μ))) =
        (fun e => decide (e.2 = r)) := by
      funext e
      show decide (e.2 * (k / μ) = r * (k / μ)) = decide (e.2 = r)
      exact decide_eq_decide.mpr ⟨fun h => mul_right_cancel₀ hne h, fun h => by rw [h]⟩
    rw [this]
    rfl

/-- everybody pays `k` times as much -/
theorem pay_scale {k μ : Rat} (hk : 0 < k) (hμ : 0 < μ) (V : VCtx) (b : Nat → Rat) (t : Pid)
    (r : Rat) (i : Nat) :
    pay (scaleV μ V) (fun j => k * b j) t (r * (k / μ)) i = k * pay V b t r i := by
  unfold pay
  show (if 0 < μ * V.u i t then min (k * b i) (r * (k / μ) * (μ * V.u i t)) else 0) = _
  have hμ0 : μ ≠ 0 := ne_of_gt hμ
  by_cases h : 0 < V.u i t
  · rw [if_pos h, if_pos ((mul_pos_iff_pos hμ _).mpr h)]
    have : r * (k / μ) * (μ * V.u i t) = k * (r * V.u i t) := by field_simp
    rw [this, mul_min_of_nonneg _ _ (le_of_lt hk)]
  · rw [if_neg h, if_neg (fun h' => h ((mul_pos_iff_pos hμ _).mp h')), mul_zero]

/-- one purchase commutes with the scaling -/
theorem buy_scale {k μ : Rat} (hk : 0 < k) (hμ : 0 < μ) (V : VCtx) (cost : Pid → Rat)
    (s : State) (t : Pid) :
    buy (scaleV μ V) (fun q => k * cost q) (scaleS k s) t = scaleS k (buy V cost s t) := by
  unfold buy
  show (match rho (scaleV μ V) (fun q => k * cost q) (fun i => k * s.b i) t with
    | none => _ | some r => _) = _
  rw [rho_scale hk hμ]
  cases rho V cost s.b t with
  | none => rfl
  | some r =>
    show (⟨fun i => k * s.b i - pay (scaleV μ V) (fun j => k * s.b j) t (r * (k / μ)) i, _, _⟩ : State) =
      ⟨fun i => k * (s.b i - pay V s.b t r i), _, _⟩
    congr 1
    funext i
    rw [pay_scale hk hμ]; ring

theorem initPool_scale {k μ : Rat} (hk : 0 < k) (hμ : 0 < μ) (V : VCtx) (I : Inst) (init : List Pid) :
    initPool (scaleV μ V) (scaleI k I) init = initPool V I init ∧
      zeroCost (scaleV μ V) (scaleI k I) init = zeroCost V I init := by
  unfold initPool zeroCost
  constructor
  · refine List.filter_congr ?_
    intro p _
    rw [totalSat_scale hμ]
    have h1 : decide (0 < μ * totalSat V p) = decide (0 < totalSat V p) :=
      decide_eq_decide.mpr (mul_pos_iff_pos hμ _)
    have h2 : decide (0 < (scaleI k I).cost p) = decide (0 < I.cost p) :=
      decide_eq_decide.mpr (mul_pos_iff_pos hk _)
    rw [h1, h2]
  · refine List.filter_congr ?_
    intro p _
    rw [totalSat_scale hμ]
    have h1 : decide (0 < μ * totalSat V p) = decide (0 < totalSat V p) :=
      decide_eq_decide.mpr (mul_pos_iff_pos hμ _)
    have h2 : decide (0 < (scaleI k I).cost p) = decide (0 < I.cost p) :=
      decide_eq_decide.mpr (mul_pos_iff_pos hk _)
    rw [h1, h2]

theorem initState_scale {k μ : Rat} (hk : 0 < k) (hμ : 0 < μ) (V : VCtx) (I : Inst)
    (init : List Pid) (b0 : Rat) :
    initState (scaleV μ V) (scaleI k I) init (k * b0) = scaleS k (initState V I init b0) := by
  unfold initState
  rw [(initPool_scale hk hμ V I init).1, (initPool_scale hk hμ V I init).2]
  rfl

/-- the round rule of the scaled election simulates the original one through `scaleS` -/
theorem rule_scale {k μ : Rat} (hk : 0 < k) (hμ : 0 < μ) (V : VCtx) (cost : Pid → Rat)
    (order : List Pid → Except Err (List Pid)) (n : Nat) (s : State) :
    (rule (scaleV μ V) (fun q => k * cost q)).run order n (scaleS k s) = (rule V cost).run order n s ∧
    (rule (scaleV μ V) (fun q => k * cost q)).runAll order n (scaleS k s) =
      (rule V cost).runAll order n s :=
  ⟨run_map (rule V cost) (rule (scaleV μ V) (fun q => k * cost q)) (scaleS k) order
      (fun _ => rfl) (tied_scale hk hμ V cost) (buy_scale hk hμ V cost) n s,
   runAll_map (rule V cost) (rule (scaleV μ V) (fun q => k * cost q)) (scaleS k) order
      (fun _ => rfl) (tied_scale hk hμ V cost) (buy_scale hk hμ V cost) n s⟩

/-- Equal Shares at a per-voter budget: resolute and irresolute, any tie-breaking function -/
theorem runAt_scale {k μ : Rat} (hk : 0 < k) (hμ : 0 < μ) (V : VCtx) (I : Inst) (init : List Pid)
    (order : List Pid → Except Err (List Pid)) (b0 : Rat) :
    runAt (scaleV μ V) (scaleI k I) init order (k * b0) = runAt V I init order b0 ∧
      runAllAt (scaleV μ V) (scaleI k I) init order (k * b0) = runAllAt V I init order b0 := by
  unfold runAt runAllAt
  rw [initState_scale hk hμ, (initPool_scale hk hμ V I init).1]
  have h := rule_scale hk hμ V I.cost (orderIfTie order) (initPool V I init).length
    (initState V I init b0)
  exact ⟨h.1, by rw [show (scaleI k I).cost = fun q => k * I.cost q from rfl, h.2]⟩

theorem share_scale (k : Rat) (V : VCtx) (I : Inst) :
    (scaleI k I).budget / (numVoters (scaleV μ V) : Nat) = k * (I.budget / (numVoters V : Nat)) := by
  show k * I.budget / (numVoters V : Nat) = k * (I.budget / (numVoters V : Nat))
  rw [mul_div_assoc]

/-- **Equal Shares (plain) ignores the scale** -/
theorem run_scale {k μ : Rat} (hk : 0 < k) (hμ : 0 < μ) (V : VCtx) (I : Inst) (init : List Pid)
    (order : List Pid → Except Err (List Pid)) :
    run (scaleV μ V) (scaleI k I) init order = run V I init order ∧
      runAll (scaleV μ V) (scaleI k I) init order = runAll V I init order := by
  unfold run runAll
  rw [share_scale]
  exact runAt_scale hk hμ V I init order _

theorem isFeasible_scale {k : Rat} (hk : 0 < k) (I : Inst) (W : List Pid) :
    (scaleI k I).isFeasible W = I.isFeasible W := by
  unfold Inst.isFeasible Inst.totalCost
  show decide (costOf (fun p => k * I.cost p) W ≤ k * I.budget) = _
  rw [costOf_scale]
  exact decide_eq_decide.mpr (mul_le_mul_iff_pos hk _ _)

theorem isExhaustiveOver_scale {k : Rat} (hk : 0 < k) (I : Inst) (A W : List Pid) :
    (scaleI k I).isExhaustiveOver A W = I.isExhaustiveOver A W := by
  unfold Inst.isExhaustiveOver Inst.totalCost
  congr 1
  funext p
  show (W.contains p || !decide (k * I.cost p + costOf (fun p => k * I.cost p) W ≤ k * I.budget)) = _
  rw [costOf_scale, ← mul_add]
  rw [show decide (k * (I.cost p + costOf I.cost W) ≤ k * I.budget) =
    decide (I.cost p + costOf I.cost W ≤ I.budget) from
    decide_eq_decide.mpr (mul_le_mul_iff_pos hk _ _)]

/-- the iterated variant (`voter_budget_increment`): start budget and increment × `k` -/
theorem iterated_scale {k μ : Rat} (hk : 0 < k) (hμ : 0 < μ) (V : VCtx) (I : Inst) (init : List Pid)
    (order : List Pid → Except Err (List Pid)) (inc : Rat) :
    ∀ (fuel : Nat) (b0 : Rat),
      (∀ prev, iterated (scaleV μ V) (scaleI k I) init order (k * inc) fuel (k * b0) prev =
        iterated V I init order inc fuel b0 prev) ∧
      (∀ prev, iteratedAll (scaleV μ V) (scaleI k I) init order (k * inc) fuel (k * b0) prev =
        iteratedAll V I init order inc fuel b0 prev) := by
  intro fuel
  induction fuel with
  | zero => intro b0; exact ⟨fun _ => rfl, fun _ => rfl⟩
  | succ f ih =>
    intro b0
    obtain ⟨h1, h2⟩ := runAt_scale hk hμ V I init order b0
    have hp := (initPool_scale hk hμ V I init).1
    have hnext := ih (b0 + inc)
    rw [mul_add] at hnext
    constructor
    · intro prev
      rw [iterated, iterated, h1, hp]
      cases runAt V I init order b0 with
      | error e => rfl
      | ok W => simp only [hnext.1 W, isFeasible_scale hk, isExhaustiveOver_scale hk]
    · intro prev
      rw [iteratedAll, iteratedAll, h2, hp]
      cases runAllAt V I init order b0 with
      | error e => rfl
      | ok Ws => simp only [hnext.2 Ws, isFeasible_scale hk, isExhaustiveOver_scale hk]

end MES

/-! ### Extended rationals under a positive scaling -/

theorem ERat_le_map {k : Rat} (hk : 0 < k) (a b : ERat) :
    ERat.le (a.map (fun x => k * x)) (b.map (fun x => k * x)) = ERat.le a b := by
  cases a with
  | none => cases b <;> rfl
  | some x =>
    cases b with
    | none => rfl
    | some y =>
      show decide (k * x ≤ k * y) = decide (x ≤ y)
      exact decide_eq_decide.mpr (mul_le_mul_iff_pos hk _ _)

theorem ERat_beq_map {k : Rat} (hk : 0 < k) (a b : ERat) :
    (a.map (fun x => k * x) == b.map (fun x => k * x)) = (a == b) := by
  rw [Bool.eq_iff_iff, beq_iff_eq, beq_iff_eq]
  constructor
  · intro h
    cases a with
    | none => cases b with
      | none => rfl
      | some y => cases h
    | some x => cases b with
      | none => cases h
      | some y =>
        have h' : k * x = k * y := Option.some.inj h
        rw [(mul_eq_mul_iff_pos hk _ _).mp h']
  · intro h; rw [h]

theorem emin_map {k : Rat} (hk : 0 < k) : ∀ l : List ERat,
    Phragmen.emin (l.map (Option.map (fun x => k * x))) = (Phragmen.emin l).map (fun x => k * x)
  | [] => rfl
  | [x] => rfl
  | x :: y :: l => by
    have ih := emin_map hk (y :: l)
    rw [List.map_cons] at ih
    rw [List.map_cons, List.map_cons]
    rw [Phragmen.emin_cons_cons, Phragmen.emin_cons_cons, ih, ERat_le_map hk]
    by_cases h : ERat.le x (Phragmen.emin (y :: l)) = true
    · rw [if_pos h, if_pos h]
    · rw [if_neg h, if_neg h]

theorem emax_map {k : Rat} (hk : 0 < k) : ∀ l : List ERat,
    Greedy.emax (l.map (Option.map (fun x => k * x))) = (Greedy.emax l).map (fun x => k * x)
  | [] => by show some (0 : Rat) = some (k * 0); rw [mul_zero]
  | [x] => rfl
  | x :: y :: l => by
    have ih := emax_map hk (y :: l)
    rw [List.map_cons] at ih
    rw [List.map_cons, List.map_cons]
    rw [Greedy.emax_cons_cons, Greedy.emax_cons_cons, ih, ERat_le_map hk]
    by_cases h : ERat.le (Greedy.emax (y :: l)) x = true
    · rw [if_pos h, if_pos h]
    · rw [if_neg h, if_neg h]

/-! ### S4. Phragmén -/

namespace Phragmen
open Pabu.Phragmen

/-- the context with all costs and the budget multiplied by `k` -/
def scaleC (k : Rat) (C : Ctx) : Ctx := ⟨C.vs, C.m, C.app, fun p => k * C.cost p, k * C.budget⟩

/-- a state with all loads and the money spent multiplied by `k` -/
def scaleS (k : Rat) (s : State) : State := ⟨fun i => k * s.load i, s.pool, s.alloc, k * s.spent⟩

/-- the purchase instant of a project scales by `k` -/
theorem newMax_scale (k : Rat) (C : Ctx) (s : State) (p : Pid) :
    newMax (scaleC k C) (scaleS k s) p = (newMax C s p).map (fun x => k * x) := by
  unfold newMax
  show (if score C p = 0 then none else some ((sumOver (supporters C p)
      (fun i => (C.m i : Rat) * (k * s.load i)) + k * C.cost p) / (score C p : Nat))) = _
  by_cases h : score C p = 0
  · rw [if_pos h, if_pos h]; rfl
  · rw [if_neg h, if_neg h]
    show some _ = some _
    congr 1
    have : (fun i => (C.m i : Rat) * (k * s.load i)) = fun i => k * ((C.m i : Rat) * s.load i) := by
      funext i; ring
    rw [this, sumOver_mul_left, ← mul_add, mul_div_assoc]

theorem argmin_scale {k : Rat} (hk : 0 < k) (C : Ctx) (s : State) :
    argmin (scaleC k C) (scaleS k s) = argmin C s := by
  unfold argmin
  show s.pool.filter (fun p => newMax (scaleC k C) (scaleS k s) p ==
    emin (s.pool.map (newMax (scaleC k C) (scaleS k s)))) = _
  have hm : s.pool.map (newMax (scaleC k C) (scaleS k s)) =
      (s.pool.map (newMax C s)).map (Option.map (fun x => k * x)) := by
    rw [List.map_map]; refine List.map_congr_left ?_; intro p _; exact newMax_scale k C s p
  rw [hm, emin_map hk]
  refine List.filter_congr ?_
  intro p _
  rw [newMax_scale, ERat_beq_map hk]

/-- the candidates of a round (and the stop test) are the same -/
theorem tied_scale {k : Rat} (hk : 0 < k) (C : Ctx) (s : State) :
    tied (scaleC k C) (scaleS k s) = tied C s := by
  unfold tied
  rw [argmin_scale hk]
  have : (fun p => decide ((scaleC k C).budget < (scaleS k s).spent + (scaleC k C).cost p)) =
      (fun p => decide (C.budget < s.spent + C.cost p)) := by
    funext p
    show decide (k * C.budget < k * s.spent + k * C.cost p) = _
    rw [← mul_add]
    exact decide_eq_decide.mpr (mul_lt_mul_iff_pos hk _ _)
  rw [this]

theorem buy_scale (k : Rat) (C : Ctx) (s : State) (t : Pid) :
    buy (scaleC k C) (scaleS k s) t = scaleS k (buy C s t) := by
  unfold buy
  rw [newMax_scale]
  show (⟨_, _, _, _⟩ : State) = ⟨_, _, _, _⟩
  congr 1
  · funext i
    show (if C.app i t = true then (match (newMax C s t).map (fun x => k * x) with
        | some x => x | none => k * s.load i) else k * s.load i) =
      k * (if C.app i t = true then (match newMax C s t with | some x => x | none => s.load i)
        else s.load i)
    by_cases h : C.app i t = true
    · rw [if_pos h, if_pos h]
      cases newMax C s t <;> rfl
    · rw [if_neg h, if_neg h]
  · show k * s.spent + k * C.cost t = k * (s.spent + C.cost t)
    ring

theorem initState_scale {k : Rat} (hk : 0 < k) (C : Ctx) (projects init : List Pid)
    (loads : Nat → Rat) :
    initState (scaleC k C) projects init (fun i => k * loads i) =
      scaleS k (initState C projects init loads) := by
  unfold initState
  show (⟨_, _, _, _⟩ : State) = ⟨_, _, _, _⟩
  congr 1
  · refine List.filter_congr ?_
    intro p _
    show (!init.contains p && decide (k * C.cost p ≤ k * C.budget)) = _
    rw [show decide (k * C.cost p ≤ k * C.budget) = decide (C.cost p ≤ C.budget) from
      decide_eq_decide.mpr (mul_le_mul_iff_pos hk _ _)]
  · exact costOf_scale k C.cost init

/-- **Phragmén ignores the scale** (costs, budget and initial loads × `k`) -/
theorem run_scale {k : Rat} (hk : 0 < k) (C : Ctx) (projects init : List Pid) (loads : Nat → Rat)
    (order : List Pid → Except Err (List Pid)) :
    run (scaleC k C) projects init (fun i => k * loads i) order = run C projects init loads order ∧
      runAll (scaleC k C) projects init (fun i => k * loads i) order =
        runAll C projects init loads order := by
  unfold run runAll
  rw [initState_scale hk]
  have hlen : (scaleS k (initState C projects init loads)).pool.length =
      (initState C projects init loads).pool.length := rfl
  rw [hlen]
  constructor
  · exact run_map (rule C) (rule (scaleC k C)) (scaleS k) order (fun _ => rfl)
      (tied_scale hk C) (buy_scale k C) _ _
  · rw [runAll_map (rule C) (rule (scaleC k C)) (scaleS k) order (fun _ => rfl)
      (tied_scale hk C) (buy_scale k C) _ _]

end Phragmen

/-! ### S5. Greedy welfare -/

namespace Greedy
open Pabu.Greedy

/-- marginal densities scale by `μ / k` -/
theorem marginal_scale {k μ : Rat} (hk : 0 < k) (tsat : List Pid → Rat) (cost : Pid → Rat)
    (alloc : List Pid) (p : Pid) :
    marginal (fun l => μ * tsat l) (fun q => k * cost q) alloc p =
      (marginal tsat cost alloc p).map (fun x => μ / k * x) := by
  unfold marginal
  by_cases h : 0 < cost p
  · rw [if_pos h, if_pos ((mul_pos_iff_pos hk _).mpr h)]
    show some _ = some _
    congr 1
    rw [← mul_sub, mul_div_mul_comm]
  · rw [if_neg h, if_neg (fun h' => h ((mul_pos_iff_pos hk _).mp h'))]; rfl

/-- the arg-max sets of a round are the same -/
theorem tied_scale {k μ : Rat} (hk : 0 < k) (hμ : 0 < μ) (tsat : List Pid → Rat)
    (cost : Pid → Rat) (s : State) :
    tied (fun l => μ * tsat l) (fun q => k * cost q) s = tied tsat cost s := by
  unfold tied
  have hq : 0 < μ / k := div_pos hμ hk
  have hm : s.feasible.map (marginal (fun l => μ * tsat l) (fun q => k * cost q) s.alloc) =
      (s.feasible.map (marginal tsat cost s.alloc)).map (Option.map (fun x => μ / k * x)) := by
    rw [List.map_map]; refine List.map_congr_left ?_; intro p _; exact marginal_scale hk tsat cost _ p
  rw [hm, emax_map hq]
  refine List.filter_congr ?_
  intro p _
  rw [marginal_scale hk, ERat_beq_map hq]

/-- the fit tests are the same -/
theorem buy_scale {k : Rat} (hk : 0 < k) (I : Inst) : buy (scaleI k I) = buy I := by
  funext s t
  unfold buy
  congr 1
  refine List.filter_congr ?_
  intro p _
  show (p != t && decide (costOf (fun q => k * I.cost q) (s.alloc ++ [t]) + k * I.cost p ≤ k * I.budget)) = _
  rw [costOf_scale, ← mul_add,
    show decide (k * (costOf I.cost (s.alloc ++ [t]) + I.cost p) ≤ k * I.budget) =
      decide (costOf I.cost (s.alloc ++ [t]) + I.cost p ≤ I.budget) from
    decide_eq_decide.mpr (mul_le_mul_iff_pos hk _ _)]

theorem rule_scale {k μ : Rat} (hk : 0 < k) (hμ : 0 < μ) (tsat : List Pid → Rat) (I : Inst) :
    rule (fun l => μ * tsat l) (scaleI k I) = rule tsat I := by
  unfold rule
  have h1 : tied (fun l => μ * tsat l) (scaleI k I).cost = tied tsat I.cost := by
    funext s; exact tied_scale hk hμ tsat I.cost s
  rw [h1, buy_scale hk]

theorem initState_scale {k : Rat} (hk : 0 < k) (I : Inst) (init : List Pid) :
    initState (scaleI k I) init = initState I init := by
  unfold initState
  congr 1
  refine List.filter_congr ?_
  intro p _
  show (!init.contains p && decide (costOf (fun q => k * I.cost q) init + k * I.cost p ≤ k * I.budget)) = _
  rw [costOf_scale, ← mul_add,
    show decide (k * (costOf I.cost init + I.cost p) ≤ k * I.budget) =
      decide (costOf I.cost init + I.cost p ≤ I.budget) from
    decide_eq_decide.mpr (mul_le_mul_iff_pos hk _ _)]

/-- **greedy welfare (general path) ignores the scale**: costs and budget × `k`, total
    satisfaction × `μ` -/
theorem general_scale {k μ : Rat} (hk : 0 < k) (hμ : 0 < μ) (tsat : List Pid → Rat) (I : Inst)
    (init : List Pid) (order : List Pid → Except Err (List Pid)) :
    general (fun l => μ * tsat l) (scaleI k I) init order = general tsat I init order ∧
      generalAll (fun l => μ * tsat l) (scaleI k I) init order = generalAll tsat I init order := by
  unfold general generalAll
  rw [rule_scale hk hμ, initState_scale hk]
  exact ⟨rfl, rfl⟩

theorem density_scale {k μ : Rat} (hk : 0 < k) (hμ : 0 < μ) (score : Pid → Rat) (cost : Pid → Rat)
    (p : Pid) :
    density (fun q => μ * score q) (fun q => k * cost q) p =
      (density score cost p).map (fun x => μ / k * x) := by
  unfold density
  by_cases h : 0 < score p
  · rw [if_pos h, if_pos ((mul_pos_iff_pos hμ _).mpr h)]
    by_cases hc : 0 < cost p
    · rw [if_pos hc, if_pos ((mul_pos_iff_pos hk _).mpr hc)]
      show some _ = some _
      congr 1
      rw [mul_div_mul_comm]
    · rw [if_neg hc, if_neg (fun h' => hc ((mul_pos_iff_pos hk _).mp h'))]; rfl
  · rw [if_neg h, if_neg (fun h' => h ((mul_pos_iff_pos hμ _).mp h'))]
    show some (0 : Rat) = some (μ / k * 0)
    rw [mul_zero]

theorem pass_scale {k : Rat} (hk : 0 < k) (cost : Pid → Rat) : ∀ (l : List Pid) (rem : Rat),
    pass (fun q => k * cost q) (k * rem) l = pass cost rem l
  | [], _ => rfl
  | p :: ps, rem => by
    rw [pass, pass]
    by_cases h : cost p ≤ rem
    · rw [if_pos h, if_pos ((mul_le_mul_iff_pos hk _ _).mpr h), ← mul_sub, pass_scale hk cost ps]
    · rw [if_neg h, if_neg (fun h' => h ((mul_le_mul_iff_pos hk _ _).mp h')), pass_scale hk cost ps]

/-- **greedy welfare (additive fast path) ignores the scale**: scores × `μ` -/
theorem additive_scale {k μ : Rat} (hk : 0 < k) (hμ : 0 < μ) (score : Pid → Rat) (I : Inst)
    (init : List Pid) (order : List Pid → Except Err (List Pid)) :
    additive (fun q => μ * score q) (scaleI k I) init order = additive score I init order := by
  unfold additive
  have hq : 0 < μ / k := div_pos hμ hk
  have hle : (fun a b => ERat.le (density (fun q => μ * score q) (scaleI k I).cost b)
        (density (fun q => μ * score q) (scaleI k I).cost a)) =
      (fun a b => ERat.le (density score I.cost b) (density score I.cost a)) := by
    funext a b
    show ERat.le (density (fun q => μ * score q) (fun q => k * I.cost q) b)
      (density (fun q => μ * score q) (fun q => k * I.cost q) a) = _
    rw [density_scale hk hμ, density_scale hk hμ, ERat_le_map hq]
  rw [hle]
  simp only [show (scaleI k I).cost = (fun q => k * I.cost q) from rfl,
    show (scaleI k I).budget = k * I.budget from rfl,
    show (scaleI k I).projects = I.projects from rfl]
  rw [costOf_scale, ← mul_sub]
  cases order ((sortIds I.projects).filter (fun p => !init.contains p)) with
  | error e => rfl
  | ok ps =>
    show Except.ok _ = Except.ok _
    rw [pass_scale hk]

end Greedy

/-! ### S6. The satisfaction measures are homogeneous -/

theorem cheapestCount_scale {k : Rat} (hk : 0 < k) (B : Rat) : ∀ (l : List Rat) (acc : Rat),
    cheapestCount (k * B) (k * acc) (l.map (fun x => k * x)) = cheapestCount B acc l
  | [], _ => rfl
  | c :: cs, acc => by
    rw [List.map_cons, cheapestCount, cheapestCount, ← mul_add]
    by_cases h : acc + c > B
    · rw [if_pos h, if_pos ((mul_lt_mul_iff_pos hk _ _).mpr h)]
    · rw [if_neg h, if_neg (fun h' => h ((mul_lt_mul_iff_pos hk _ _).mp h')),
        cheapestCount_scale hk B cs]

/-- the cardinality normaliser (cheapest-first count) ignores the scale -/
theorem maxCardinality_scale {k : Rat} (hk : 0 < k) (cost : Pid → Rat) (l : List Pid) (B : Rat) :
    maxCardinality (fun p => k * cost p) l (k * B) = maxCardinality cost l B := by
  unfold maxCardinality sortKey
  have h1 : l.map (fun p => k * cost p) = (l.map cost).map (fun x => k * x) := by
    rw [List.map_map]; rfl
  rw [h1, sortLe_map (fun x => k * x) (fun a b : Rat => decide (id a ≤ id b))
    (fun a b : Rat => decide (id a ≤ id b))
    (fun a b => decide_eq_decide.mpr (mul_le_mul_iff_pos hk a b))]
  have := cheapestCount_scale hk B (sortLe (fun a b : Rat => decide (id a ≤ id b)) (l.map cost)) 0
  rw [mul_zero] at this
  exact this

/-- the cost normaliser (brute-force maximum) scales by `k` -/
theorem maxCostSpec_scale {k : Rat} (hk : 0 < k) (cost : Pid → Rat) (l : List Pid) (B : Rat) :
    maxCostSpec (fun p => k * cost p) l (k * B) = k * maxCostSpec cost l B := by
  unfold maxCostSpec
  have h1 : (sublists l).map (costOf (fun p => k * cost p)) =
      ((sublists l).map (costOf cost)).map (fun x => k * x) := by
    rw [List.map_map]; refine List.map_congr_left ?_; intro s _; exact costOf_scale k cost s
  rw [h1, List.filter_map]
  have h2 : ((fun c : Rat => decide (c ≤ k * B)) ∘ fun x => k * x) = fun c => decide (c ≤ B) := by
    funext c; exact decide_eq_decide.mpr (mul_le_mul_iff_pos hk c B)
  rw [h2, maxRat_map_mul hk]
  cases maxRat (((sublists l).map (costOf cost)).filter (fun c => decide (c ≤ B))) with
  | none => show (0 : Rat) = k * 0; rw [mul_zero]
  | some c => rfl

/-- the score normaliser ignores the scale -/
theorem maxScoreSpec_scale {k : Rat} (hk : 0 < k) (cost : Pid → Rat) (score : Pid → Rat)
    (l : List Pid) (B : Rat) :
    maxScoreSpec (fun p => k * cost p) score l (k * B) = maxScoreSpec cost score l B := by
  unfold maxScoreSpec
  have h : (fun s => decide (costOf (fun p => k * cost p) s ≤ k * B)) =
      (fun s => decide (costOf cost s ≤ B)) := by
    funext s; rw [costOf_scale]; exact decide_eq_decide.mpr (mul_le_mul_iff_pos hk _ _)
  rw [h]

/-- degree of homogeneity of a measure in (costs, budget): `Cost_Sat` and `Effort_Sat` scale with
    the costs, all the other shipped measures do not change -/
def factor (μm : Measure) (k : Rat) : Rat :=
  match μm with
  | .cost => k
  | .effort => k
  | _ => 1

theorem factor_pos (μm : Measure) {k : Rat} (hk : 0 < k) : 0 < factor μm k := by
  cases μm <;> first | exact hk | exact one_pos

theorem normaliser_scale {k : Rat} (hk : 0 < k) (μm : Measure) (I : Inst) (b : Ballot) :
    normaliser μm (scaleI k I) b =
      (match μm with | .relCost => k | .relCostApprox => k | _ => 1) * normaliser μm I b := by
  cases μm with
  | relCardinality =>
    show ((maxCardinality (fun p => k * I.cost p) b.projects (k * I.budget) : Nat) : Rat) = 1 * _
    rw [maxCardinality_scale hk, one_mul]; rfl
  | relCost =>
    show maxCostSpec (fun p => k * I.cost p) b.projects (k * I.budget) = k * _
    rw [maxCostSpec_scale hk]; rfl
  | relCostApprox =>
    show (if costOf (fun p => k * I.cost p) b.projects ≤ k * I.budget then
      costOf (fun p => k * I.cost p) b.projects else k * I.budget) =
      k * (if costOf I.cost b.projects ≤ I.budget then costOf I.cost b.projects else I.budget)
    rw [costOf_scale]
    by_cases h : costOf I.cost b.projects ≤ I.budget
    · rw [if_pos h, if_pos ((mul_le_mul_iff_pos hk _ _).mpr h)]
    · rw [if_neg h, if_neg (fun h' => h ((mul_le_mul_iff_pos hk _ _).mp h'))]
  | addCardinalRel =>
    show maxScoreSpec (fun p => k * I.cost p) b.score I.projects (k * I.budget) = 1 * _
    rw [maxScoreSpec_scale hk, one_mul]; rfl
  | cardinality => show (0 : Rat) = 1 * 0; rw [mul_zero]
  | cost => show (0 : Rat) = 1 * 0; rw [mul_zero]
  | effort => show (0 : Rat) = 1 * 0; rw [mul_zero]
  | addCardinal => show (0 : Rat) = 1 * 0; rw [mul_zero]
  | borda => show (0 : Rat) = 1 * 0; rw [mul_zero]
  | cc => show (0 : Rat) = 1 * 0; rw [mul_zero]

/-- **`sat_project` is homogeneous**: with costs and budget × `k > 0` the satisfaction of a
    ballot with one project is multiplied by `k` for `Cost_Sat`, `Effort_Sat` and unchanged for
    every other shipped measure (the brute-force normalisers included) -/
theorem satProject_scale {k : Rat} (hk : 0 < k) (μm : Measure) (I : Inst) (P : Profile)
    (b : Ballot) (p : Pid) :
    satProject μm (scaleI k I) P b p = factor μm k * satProject μm I P b p := by
  have hk0 : k ≠ 0 := ne_of_gt hk
  cases μm with
  | cardinality => show memI b p = 1 * memI b p; rw [one_mul]
  | relCardinality =>
    show (if normaliser .relCardinality (scaleI k I) b = 0 then 0
      else memI b p / normaliser .relCardinality (scaleI k I) b) = 1 * _
    rw [normaliser_scale hk, one_mul, one_mul]; rfl
  | cost =>
    show memI b p * (k * I.cost p) = k * (memI b p * I.cost p); ring
  | relCost =>
    show (if normaliser .relCost (scaleI k I) b = 0 then 0
      else memI b p * (k * I.cost p) / normaliser .relCost (scaleI k I) b) =
      1 * (if normaliser .relCost I b = 0 then 0 else memI b p * I.cost p / normaliser .relCost I b)
    rw [normaliser_scale hk, one_mul]
    by_cases h : normaliser .relCost I b = 0
    · rw [if_pos h, if_pos (by rw [h, mul_zero])]
    · rw [if_neg h, if_neg (mul_ne_zero hk0 h)]
      rw [mul_left_comm, mul_div_mul_left _ _ hk0]
  | relCostApprox =>
    show (if normaliser .relCostApprox (scaleI k I) b = 0 then 0
      else memI b p * (k * I.cost p) / normaliser .relCostApprox (scaleI k I) b) =
      1 * (if normaliser .relCostApprox I b = 0 then 0
        else memI b p * I.cost p / normaliser .relCostApprox I b)
    rw [normaliser_scale hk, one_mul]
    by_cases h : normaliser .relCostApprox I b = 0
    · rw [if_pos h, if_pos (by rw [h, mul_zero])]
    · rw [if_neg h, if_neg (mul_ne_zero hk0 h)]
      rw [mul_left_comm, mul_div_mul_left _ _ hk0]
  | effort =>
    show (if effortDenominator P p = 0 then 0
      else memI b p * (k * I.cost p / (effortDenominator P p : Nat))) =
      k * (if effortDenominator P p = 0 then 0
        else memI b p * (I.cost p / (effortDenominator P p : Nat)))
    by_cases h : effortDenominator P p = 0
    · rw [if_pos h, if_pos h, mul_zero]
    · rw [if_neg h, if_neg h]; ring
  | addCardinal => show b.score p = 1 * b.score p; rw [one_mul]
  | addCardinalRel =>
    show (if normaliser .addCardinalRel (scaleI k I) b = 0 then 0
      else b.score p / normaliser .addCardinalRel (scaleI k I) b) = 1 * _
    rw [normaliser_scale hk, one_mul, one_mul]; rfl
  | borda =>
    show satProject .borda I P b p = 1 * satProject .borda I P b p; rw [one_mul]
  | cc =>
    show satProject .cc I P b p = 1 * satProject .cc I P b p; rw [one_mul]

/-- **`sat` is homogeneous** (same factor), Chamberlin–Courant included -/
theorem sat_scale {k : Rat} (hk : 0 < k) (μm : Measure) (I : Inst) (P : Profile) (b : Ballot)
    (l : List Pid) : sat μm (scaleI k I) P b l = factor μm k * sat μm I P b l := by
  have hadd : sumOver l (satProject μm (scaleI k I) P b) =
      factor μm k * sumOver l (satProject μm I P b) := by
    rw [← sumOver_mul_left]; congr 1; funext p; exact satProject_scale hk μm I P b p
  cases μm with
  | cc => show sat .cc I P b l = 1 * sat .cc I P b l; rw [one_mul]
  | cardinality => exact hadd
  | relCardinality => exact hadd
  | cost => exact hadd
  | relCost => exact hadd
  | relCostApprox => exact hadd
  | effort => exact hadd
  | addCardinal => exact hadd
  | addCardinalRel => exact hadd
  | borda => exact hadd

end Scale
end Pabu
