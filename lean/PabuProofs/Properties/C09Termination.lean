/-
  C09, termination of the iterated Method of Equal Shares (`MES.iterated` / `MES.iteratedAll`,
  Python: the `while True` loop of `method_of_equal_shares_scheme` with `voter_budget_increment`).

  This replaces the statement `C09.iterated_terminates_FullStatement` (which was only stated) by theorems.

  Hypotheses:
  * `hm`   : every voter entry has multiplicity ≥ 1 (as in every pabutools profile);
  * `hord` : the tie-breaking order returns members of the tied set;
  * `hne`  : … and a non-empty list on a non-empty tied set (both true of every `Tie.order t`;
             they cannot be dropped, see the FINDING at the end);
  * `0 < inc` (with `inc = 0` the loop can diverge: `C09.iterated_diverges`);
  * the inner runs return outcomes (true when the order never raises, i.e. `t ≠ refuse`).
  Nothing is assumed about costs, the instance budget, the initial budget `b0` or the initial allocation.

  * `runAt_generous_contains_pool`, `runAt_generous_exhaustive`: with a per-voter budget of at least the
    total cost of the buyable pool (`MES.initPool`), Equal Shares buys the whole pool; that outcome is
    exhaustive over the pool.
  * `iterated_terminates_explicit`: EXPLICIT BOUND — if `Σ_{p ∈ pool} cost p ≤ b0 + N·inc` then fuel `N+1`
    suffices (`N < fuel`).
  * `iterated_terminates`: with `0 < inc` such an `N` exists (the shape of the former FullStatement).
  * `iterated_terminates_tie`: for the shipped tie-breaking rules other than `refuse`, no hypothesis on runs.
  * `iterated_error_from_run`: whatever the order function does (also `refuse`), the loop never runs out
    of fuel on its own: an error with fuel `> N` is an error of an inner run at some try `≤ N`.
  * `iteratedAll_*`: the same for the irresolute variant (every branch buys the whole pool).
  * FINDING `iterated_terminates_needs_order_hyps`: the statement as it was first recorded in `C09.lean`
    (arbitrary order function that merely never raises) is FALSE: an order function that returns the empty
    list makes every inner run stop early, and the loop never ends (`cx_diverges`).
-/
import PabuProofs.Properties.C09
import PabuProofs.Lemmas.IteratedTermination

namespace Pabu
namespace C09
open Wrap

section
variable {V : VCtx} {I : Inst} {init : List Pid} {order : List Pid → Except Err (List Pid)} {inc : Rat}

/-! ### (1)+(2): at a generous budget the outcome contains the whole pool, hence is exhaustive over it -/

theorem runAt_generous_contains_pool
    (hm : ∀ i ∈ V.vs, 1 ≤ V.m i)
    (hord : ∀ T l, order T = .ok l → ∀ x ∈ l, x ∈ T)
    (hne : ∀ T, T ≠ [] → order T ≠ .ok [])
    {b : Rat} (hb : costOf I.cost (MES.initPool V I init) ≤ b) {W : List Pid}
    (hW : MES.runAt V I init order b = .ok W) : ∀ p ∈ MES.initPool V I init, p ∈ W :=
  MES.runAt_buys_pool hm hord hne hb hW

theorem runAt_generous_exhaustive
    (hm : ∀ i ∈ V.vs, 1 ≤ V.m i)
    (hord : ∀ T l, order T = .ok l → ∀ x ∈ l, x ∈ T)
    (hne : ∀ T, T ≠ [] → order T ≠ .ok [])
    {b : Rat} (hb : costOf I.cost (MES.initPool V I init) ≤ b) {W : List Pid}
    (hW : MES.runAt V I init order b = .ok W) :
    I.isExhaustiveOver (MES.initPool V I init) W = true :=
  MES.isExhaustiveOver_of_subset I (MES.runAt_buys_pool hm hord hne hb hW)

theorem runAllAt_generous_exhaustive
    (hm : ∀ i ∈ V.vs, 1 ≤ V.m i)
    (hord : ∀ T l, order T = .ok l → ∀ x ∈ l, x ∈ T)
    (hne : ∀ T, T ≠ [] → order T ≠ .ok [])
    {b : Rat} (hb : costOf I.cost (MES.initPool V I init) ≤ b) {Ws : List (List Pid)}
    (hWs : MES.runAllAt V I init order b = .ok Ws) :
    Ws ≠ [] ∧ ∀ W ∈ Ws, I.isExhaustiveOver (MES.initPool V I init) W = true := by
  obtain ⟨h1, h2⟩ := MES.runAllAt_buys_pool hm hord hne hb hWs
  exact ⟨h1, fun W hW => MES.isExhaustiveOver_of_subset I (h2 W hW)⟩

/-! ### (3): termination of the resolute loop -/

/-- EXPLICIT BOUND.  If `N` increments lift the per-voter budget to the total cost of the buyable pool,
    `Σ_{p ∈ initPool} cost p ≤ b0 + N·inc`, and the inner runs at the budgets tried return outcomes, then
    fuel `N + 1` (any `fuel > N`) suffices: the loop returns an outcome. -/
theorem iterated_terminates_explicit {N fuel : Nat} {b0 : Rat} {prev₀ : List Pid}
    (hm : ∀ i ∈ V.vs, 1 ≤ V.m i)
    (hord : ∀ T l, order T = .ok l → ∀ x ∈ l, x ∈ T)
    (hne : ∀ T, T ≠ [] → order T ≠ .ok [])
    (hrun : ∀ j : Nat, j ≤ N → ∃ W, MES.runAt V I init order (b0 + j * inc) = .ok W)
    (hN : costOf I.cost (MES.initPool V I init) ≤ b0 + N * inc) (hf : N < fuel) :
    ∃ W, MES.iterated V I init order inc fuel b0 prev₀ = .ok W := by
  classical
  let r : Nat → List Pid := fun j => if h : j ≤ N then (hrun j h).choose else []
  have hr : ∀ j : Nat, j ≤ N → MES.runAt V I init order (b0 + j * inc) = .ok (r j) := by
    intro j hj
    have := (hrun j hj).choose_spec
    simp only [r, dif_pos hj]
    exact this
  exact iterated_terminates_partial (k := N) (r := r) hr hf
    (Or.inr (runAt_generous_exhaustive hm hord hne hN (hr N (le_refl N))))

/-- The former `iterated_terminates_FullStatement`, with the hypotheses it needs: with a positive
    increment some amount of fuel suffices. -/
theorem iterated_terminates
    (hm : ∀ i ∈ V.vs, 1 ≤ V.m i)
    (hord : ∀ T l, order T = .ok l → ∀ x ∈ l, x ∈ T)
    (hne : ∀ T, T ≠ [] → order T ≠ .ok [])
    (hinc : 0 < inc) (hrun : ∀ b, ∃ W, MES.runAt V I init order b = .ok W)
    (b0 : Rat) (prev₀ : List Pid) :
    ∃ N : Nat, ∀ fuel, N < fuel → ∃ W, MES.iterated V I init order inc fuel b0 prev₀ = .ok W := by
  obtain ⟨N, hN⟩ := exists_steps_past_bound b0 (costOf I.cost (MES.initPool V I init)) inc hinc
  exact ⟨N, fun fuel hf =>
    iterated_terminates_explicit hm hord hne (fun j _ => hrun _) (le_of_lt hN) hf⟩

/-- … in particular when the order function never raises -/
theorem iterated_terminates_total_order
    (hm : ∀ i ∈ V.vs, 1 ≤ V.m i)
    (hord : ∀ T l, order T = .ok l → ∀ x ∈ l, x ∈ T)
    (hne : ∀ T, T ≠ [] → order T ≠ .ok [])
    (htot : ∀ T, ∃ l, order T = .ok l)
    (hinc : 0 < inc) (b0 : Rat) (prev₀ : List Pid) :
    ∃ N : Nat, ∀ fuel, N < fuel → ∃ W, MES.iterated V I init order inc fuel b0 prev₀ = .ok W :=
  iterated_terminates hm hord hne hinc (MES.runAt_total htot) b0 prev₀

/-- Whatever the order function does (it may raise, as `refuse` does): with fuel `> N`, where
    `Σ cost ≤ b0 + N·inc`, an error of the loop is the error of an inner run at some try `k ≤ N`;
    the loop never runs out of fuel on its own. -/
theorem iterated_error_from_run {N fuel : Nat} {b0 : Rat} {prev₀ : List Pid} {e : Err}
    (hm : ∀ i ∈ V.vs, 1 ≤ V.m i)
    (hord : ∀ T l, order T = .ok l → ∀ x ∈ l, x ∈ T)
    (hne : ∀ T, T ≠ [] → order T ≠ .ok [])
    (hN : costOf I.cost (MES.initPool V I init) ≤ b0 + N * inc) (hf : N < fuel)
    (h : MES.iterated V I init order inc fuel b0 prev₀ = .error e) :
    ∃ k : Nat, k ≤ N ∧ MES.runAt V I init order (b0 + k * inc) = .error e := by
  rw [iterated_eq_loop] at h
  exact loop_error_of_stop N fuel b0 prev₀ e hf
    (fun W hW => Or.inr (runAt_generous_exhaustive hm hord hne hN hW)) h

/-! ### The same for the irresolute loop -/

theorem iteratedAll_terminates_explicit {N fuel : Nat} {b0 : Rat} {prev₀ : List (List Pid)}
    (hm : ∀ i ∈ V.vs, 1 ≤ V.m i)
    (hord : ∀ T l, order T = .ok l → ∀ x ∈ l, x ∈ T)
    (hne : ∀ T, T ≠ [] → order T ≠ .ok [])
    (hrun : ∀ j : Nat, j ≤ N → ∃ Ws, MES.runAllAt V I init order (b0 + j * inc) = .ok Ws)
    (hN : costOf I.cost (MES.initPool V I init) ≤ b0 + N * inc) (hf : N < fuel) :
    ∃ Ws, MES.iteratedAll V I init order inc fuel b0 prev₀ = .ok Ws := by
  classical
  let r : Nat → List (List Pid) := fun j => if h : j ≤ N then (hrun j h).choose else []
  have hr : ∀ j : Nat, j ≤ N → MES.runAllAt V I init order (b0 + j * inc) = .ok (r j) := by
    intro j hj
    have := (hrun j hj).choose_spec
    simp only [r, dif_pos hj]
    exact this
  obtain ⟨hnil, hall⟩ := runAllAt_generous_exhaustive hm hord hne hN (hr N (le_refl N))
  obtain ⟨W, hW⟩ := List.exists_mem_of_ne_nil _ hnil
  exact iteratedAll_terminates_partial (k := N) (r := r) hr hf (Or.inr ⟨W, hW, hall W hW⟩)

theorem iteratedAll_terminates
    (hm : ∀ i ∈ V.vs, 1 ≤ V.m i)
    (hord : ∀ T l, order T = .ok l → ∀ x ∈ l, x ∈ T)
    (hne : ∀ T, T ≠ [] → order T ≠ .ok [])
    (hinc : 0 < inc) (hrun : ∀ b, ∃ Ws, MES.runAllAt V I init order b = .ok Ws)
    (b0 : Rat) (prev₀ : List (List Pid)) :
    ∃ N : Nat, ∀ fuel, N < fuel → ∃ Ws, MES.iteratedAll V I init order inc fuel b0 prev₀ = .ok Ws := by
  obtain ⟨N, hN⟩ := exists_steps_past_bound b0 (costOf I.cost (MES.initPool V I init)) inc hinc
  exact ⟨N, fun fuel hf =>
    iteratedAll_terminates_explicit hm hord hne (fun j _ => hrun _) (le_of_lt hN) hf⟩

theorem iteratedAll_terminates_total_order
    (hm : ∀ i ∈ V.vs, 1 ≤ V.m i)
    (hord : ∀ T l, order T = .ok l → ∀ x ∈ l, x ∈ T)
    (hne : ∀ T, T ≠ [] → order T ≠ .ok [])
    (htot : ∀ T, ∃ l, order T = .ok l)
    (hinc : 0 < inc) (b0 : Rat) (prev₀ : List (List Pid)) :
    ∃ N : Nat, ∀ fuel, N < fuel → ∃ Ws, MES.iteratedAll V I init order inc fuel b0 prev₀ = .ok Ws :=
  iteratedAll_terminates hm hord hne hinc (MES.runAllAt_total htot) b0 prev₀

theorem iteratedAll_error_from_run {N fuel : Nat} {b0 : Rat} {prev₀ : List (List Pid)} {e : Err}
    (hm : ∀ i ∈ V.vs, 1 ≤ V.m i)
    (hord : ∀ T l, order T = .ok l → ∀ x ∈ l, x ∈ T)
    (hne : ∀ T, T ≠ [] → order T ≠ .ok [])
    (hN : costOf I.cost (MES.initPool V I init) ≤ b0 + N * inc) (hf : N < fuel)
    (h : MES.iteratedAll V I init order inc fuel b0 prev₀ = .error e) :
    ∃ k : Nat, k ≤ N ∧ MES.runAllAt V I init order (b0 + k * inc) = .error e := by
  rw [iteratedAll_eq_loop] at h
  refine loop_error_of_stop N fuel b0 prev₀ e hf (fun Ws hWs => Or.inr ?_) h
  obtain ⟨hnil, hall⟩ := runAllAt_generous_exhaustive hm hord hne hN hWs
  obtain ⟨W, hW⟩ := List.exists_mem_of_ne_nil _ hnil
  exact List.any_eq_true.mpr ⟨W, hW, hall W hW⟩

end

/-! ### The shipped tie-breaking rules -/

/-- for every shipped tie-breaking rule other than `refuse` (lexicographic, approval score, min/max cost,
    an explicit strict order) the iterated rule terminates — the only hypotheses left are multiplicities
    ≥ 1 and a positive increment -/
theorem iterated_terminates_tie {V : VCtx} {I : Inst} {init : List Pid} {t : Tie} (ht : t ≠ .refuse)
    (cost : Pid → Rat) (score : Pid → Nat) {inc : Rat}
    (hm : ∀ i ∈ V.vs, 1 ≤ V.m i) (hinc : 0 < inc) (b0 : Rat) (prev₀ : List Pid) :
    ∃ N : Nat, ∀ fuel, N < fuel →
      ∃ W, MES.iterated V I init (t.order cost score) inc fuel b0 prev₀ = .ok W :=
  iterated_terminates_total_order hm (Tie.order_mem t cost score) (Tie.order_ne_nil t cost score)
    (fun T => ⟨_, Tie.order_ok ht cost score T⟩) hinc b0 prev₀

theorem iteratedAll_terminates_tie {V : VCtx} {I : Inst} {init : List Pid} {t : Tie} (ht : t ≠ .refuse)
    (cost : Pid → Rat) (score : Pid → Nat) {inc : Rat}
    (hm : ∀ i ∈ V.vs, 1 ≤ V.m i) (hinc : 0 < inc) (b0 : Rat) (prev₀ : List (List Pid)) :
    ∃ N : Nat, ∀ fuel, N < fuel →
      ∃ Ws, MES.iteratedAll V I init (t.order cost score) inc fuel b0 prev₀ = .ok Ws :=
  iteratedAll_terminates_total_order hm (Tie.order_mem t cost score) (Tie.order_ne_nil t cost score)
    (fun T => ⟨_, Tie.order_ok ht cost score T⟩) hinc b0 prev₀

/-- explicit bound for the shipped rules: fuel `N + 1` where `Σ_{p ∈ pool} cost p ≤ b0 + N·inc` -/
theorem iterated_terminates_tie_explicit {V : VCtx} {I : Inst} {init : List Pid} {t : Tie}
    (ht : t ≠ .refuse) (cost : Pid → Rat) (score : Pid → Nat) {inc b0 : Rat} {N fuel : Nat}
    (hm : ∀ i ∈ V.vs, 1 ≤ V.m i)
    (hN : costOf I.cost (MES.initPool V I init) ≤ b0 + N * inc) (hf : N < fuel) (prev₀ : List Pid) :
    ∃ W, MES.iterated V I init (t.order cost score) inc fuel b0 prev₀ = .ok W :=
  iterated_terminates_explicit hm (Tie.order_mem t cost score) (Tie.order_ne_nil t cost score)
    (fun _ _ => MES.runAt_total (fun T => ⟨_, Tie.order_ok ht cost score T⟩) _) hN hf

/-! ### Non-vacuity: an election where exactly two tries are needed -/

/-- voter 0 (one copy) approves {1,2}; voter 1 (two copies) approves {2,3} -/
def tmV : VCtx :=
  ⟨[0, 1], fun i => i + 1, fun i p => if (i = 0 ∧ (p = 1 ∨ p = 2)) ∨ (i = 1 ∧ (p = 2 ∨ p = 3)) then 1 else 0⟩
/-- costs 1, 2, 3; budget 6 -/
def tmI : Inst := ⟨[1, 2, 3], fun p => (p : Rat), 6⟩

theorem tmV_mult : ∀ i ∈ tmV.vs, 1 ≤ tmV.m i := by
  intro i _
  show 1 ≤ i + 1
  omega

theorem idOrder_mem : ∀ T l, idOrder T = .ok l → ∀ x ∈ l, x ∈ T := by
  intro T l h x hx
  have : T = l := Except.ok.inj h
  rw [this]; exact hx

theorem idOrder_ne_nil : ∀ T, T ≠ [] → idOrder T ≠ .ok [] := by
  intro T hT h
  exact hT (Except.ok.inj h)

/-- the pool is everything, of total cost 6 = 1 + 1·5: the theorem promises that fuel 2 suffices … -/
example : ∃ W, MES.iterated tmV tmI [] idOrder 5 2 1 [] = .ok W :=
  iterated_terminates_explicit (N := 1) tmV_mult idOrder_mem idOrder_ne_nil
    (fun _ _ => MES.runAt_total (fun T => ⟨T, rfl⟩) _) (by decide +kernel) (by omega)

/-- … and it does: the first try (budget 1 per voter) buys only project 2, which is feasible but not
    exhaustive, the second (budget 6) buys everything … -/
example : MES.runAt tmV tmI [] idOrder 1 = .ok [2] := by decide +kernel
example : tmI.isFeasible [2] = true ∧ tmI.isExhaustiveOver (MES.initPool tmV tmI []) [2] = false := by
  decide +kernel
example : MES.iterated tmV tmI [] idOrder 5 2 1 [] = .ok [2, 1, 3] := by decide +kernel
/-- … while one try is not enough: the bound `N + 1 = 2` is attained -/
example : MES.iterated tmV tmI [] idOrder 5 1 1 [] = .error .fuel := by decide +kernel

example : ∀ p ∈ MES.initPool tmV tmI [], p ∈ [2, 1, 3] :=
  runAt_generous_contains_pool (order := idOrder) (b := 6) tmV_mult idOrder_mem idOrder_ne_nil
    (by decide +kernel) (by decide +kernel)

/-- the same election under the lexicographic rule, irresolute: one outcome, found at the second try -/
example : ∃ Ws, MES.iteratedAll tmV tmI [] (Tie.order .lexico tmI.cost (fun _ => 0)) 5 2 1 [[]] = .ok Ws :=
  iteratedAll_terminates_explicit (N := 1) tmV_mult (Tie.order_mem _ _ _) (Tie.order_ne_nil _ _ _)
    (fun _ _ => MES.runAllAt_total (fun T => ⟨_, Tie.order_ok (by decide) _ _ T⟩) _)
    (by decide +kernel) (by omega)

example : MES.iteratedAll tmV tmI [] (Tie.order .lexico tmI.cost (fun _ => 0)) 5 2 1 [[]] = .ok [[1, 2, 3]] := by
  decide +kernel

/-- with the increment 1 of the running example of `C09.lean` (pool cost 7, `b0 = 1`): fuel 7 is promised;
    the loop actually stops at the third try -/
example : ∃ W, MES.iterated itV itI [] idOrder 1 7 1 [] = .ok W :=
  iterated_terminates_explicit (N := 6) (fun i _ => le_refl (1 : Nat)) idOrder_mem idOrder_ne_nil
    (fun _ _ => MES.runAt_total (fun T => ⟨T, rfl⟩) _) (by decide +kernel) (by omega)

/-! ### FINDING: the hypotheses on the order function are needed -/

/-- one voter approving projects 1 and 2 -/
def cxV : VCtx := ⟨[0], fun _ => 1, fun _ p => if p = 1 ∨ p = 2 then 1 else 0⟩
/-- both cost 1; budget 5 -/
def cxI : Inst := ⟨[1, 2], fun _ => 1, 5⟩
/-- an order function that never raises but returns nothing -/
def nilOrder : List Pid → Except Err (List Pid) := fun _ => .ok []

theorem cx_pool : MES.initPool cxV cxI [] = [1, 2] := by decide +kernel
theorem cx_zero : MES.zeroCost cxV cxI [] = [] := by decide +kernel

/-- the two projects are indistinguishable -/
theorem cx_rho (b : Nat → Rat) : MES.rho cxV cxI.cost b 1 = MES.rho cxV cxI.cost b 2 := by
  unfold MES.rho MES.sups MES.supporters
  simp [cxV, cxI]

/-- … so at every budget either none or both are tied -/
theorem cx_tied (b : Rat) :
    MES.tied cxV cxI.cost (MES.initState cxV cxI [] b) = [] ∨
    MES.tied cxV cxI.cost (MES.initState cxV cxI [] b) = [1, 2] := by
  unfold MES.tied MES.best MES.affordable MES.initState
  simp only [cx_pool, List.filterMap_cons, List.filterMap_nil]
  rw [← cx_rho]
  cases MES.rho cxV cxI.cost (fun _ => b) 1 with
  | none => left; simp [minRat]
  | some r => right; simp [minRat]

/-- … and the run returns the empty outcome at EVERY per-voter budget -/
theorem cx_run (b : Rat) : MES.runAt cxV cxI [] nilOrder b = .ok [] := by
  unfold MES.runAt
  rw [cx_pool]
  show (MES.rule cxV cxI.cost).run (MES.orderIfTie nilOrder) 2 (MES.initState cxV cxI [] b) = .ok []
  rw [RoundRule.run]
  have hout : (MES.rule cxV cxI.cost).out (MES.initState cxV cxI [] b) = [] := by
    show ([] : List Pid) ++ MES.zeroCost cxV cxI [] = []
    rw [cx_zero]; rfl
  have htied : (MES.rule cxV cxI.cost).tied (MES.initState cxV cxI [] b) =
      MES.tied cxV cxI.cost (MES.initState cxV cxI [] b) := rfl
  rw [htied, hout]
  rcases cx_tied b with h | h
  · rw [h]; rfl
  · rw [h]; rfl

/-- the loop then never stops: every fuel runs out -/
theorem cx_diverges (fuel : Nat) : MES.iterated cxV cxI [] nilOrder 1 fuel 0 [] = .error .fuel :=
  iterated_diverges (V := cxV) (I := cxI) (init := []) (order := nilOrder) (inc := 1) (b0 := 0)
    (fun k => ⟨[], cx_run _, by decide +kernel, by decide +kernel⟩) fuel []

/-- FINDING.  The termination statement as it was first recorded (`iterated_terminates_FullStatement` of
    `C09.lean`: an arbitrary order function, assumed only never to make the inner run fail) is FALSE.
    The hypotheses `hord`/`hne` of `iterated_terminates` cannot be dropped.  (The shipped tie-breaking
    rules satisfy them, so this is a fact about the model's generality, not a defect of the library.) -/
theorem iterated_terminates_needs_order_hyps :
    ¬ (∀ (V : VCtx) (I : Inst) (init : List Pid) (order : List Pid → Except Err (List Pid)) (inc b0 : Rat)
        (prev₀ : List Pid), 0 < inc → (∀ b, ∃ W, MES.runAt V I init order b = .ok W) →
        ∃ N : Nat, ∀ fuel, N < fuel → ∃ W, MES.iterated V I init order inc fuel b0 prev₀ = .ok W) := by
  intro h
  obtain ⟨N, hN⟩ := h cxV cxI [] nilOrder 1 0 [] (by norm_num) (fun b => ⟨[], cx_run b⟩)
  obtain ⟨W, hW⟩ := hN (N + 1) (by omega)
  rw [cx_diverges] at hW
  cases hW

/-- the counterexample violates exactly `hne` -/
example : ¬ (∀ T, T ≠ [] → nilOrder T ≠ .ok []) := fun h => h [1] (by simp) rfl

end C09
end Pabu
