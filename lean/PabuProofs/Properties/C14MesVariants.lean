/-
  C14, last clause, for the OTHER ways the library runs the Method of Equal Shares
  (Properties/C14Mes.lean proves it for the resolute plain rule `MES.run`, empty initial allocation):

  * at a larger per-voter budget        `mesAt_EJR_*`         `MES.runAt … b0` with `budget / n ≤ b0`
  * irresolute                          `mes_irresolute_EJR_*` every allocation in `MES.runAll …`
                                        `mesAllAt_EJR_*`       … in `MES.runAllAt … b0`, `budget / n ≤ b0`
  * iterated (`voter_budget_increment`) `mes_iterated_EJR_*`   `MES.iterated … (budget / n) prev`
                                        `mes_iteratedAll_EJR_*` every allocation in `MES.iteratedAll …`
                                        `mes_iteratedLazy_EJR_x` the lazy implementation (C02Lazy)
  each in the variants  `_any_cost` (Cost_Sat ⇒ EJR up to any project), `_cardinality`
  (Cardinality_Sat ⇒ EJR, no surplus term), `_one_cardinality` (⇒ EJR up to any / up to one project) and `_x`
  (the form of `mes_EJR_x`).  All conclusions are about the ORIGINAL instance (its budget limit): a group that
  is large enough for `T` at budget `B` has `cost T ≤ |G| · B / n ≤ |G| · b0`, which is the only way the
  start budget enters `runAt_cost_bound` / `runAt_card_bound`; nothing goes the wrong way, BOTH clauses survive
  for the iterated rule (and the iterated outcome is, in addition, feasible for the original budget).

  How: (1) a run never reads the budget limit, so a run at `b0` IS the plain rule on the instance with budget
  limit `n · b0 ≥ B` (`MES.run_scaled`), and satisfying an EJR notion for a larger budget limit is stronger
  (`satisfies_budget_anti`: more groups are large enough); (2) every irresolute outcome is the name-sorted
  outcome of a resolute run under some strict order (`MES.runAllAt_realised`, the adapter to C08), and the
  notions do not depend on the order in which the allocation is listed (`satisfies_perm`); (3) the iterated
  rule returns the outcome of a run at `budget / n + k·inc` (`MES.iterated_share_is_runAt`).

  Remark (non-empty initial allocation): outside the rule's specification — Equal Shares ignores the cost of
  the initial allocation (DESIGN.md §10.4) — so no EJR statement is made; what IS preserved in every mode is
  `init ⊆ W` (`mes_variants_keep_init`).
-/
import PabuProofs.Lemmas.MesVariants
import PabuProofs.Properties.C14Mes
import PabuProofs.Properties.C02Lazy
namespace Pabu.JR
open Pabu List Pabu.MES Pabu.MesEJR

/-! ### the notions do not depend on the listing order of the allocation, and weaken with the budget limit -/

theorem missing_perm {W W' : List Pid} (h : W.Perm W') (T : List Pid) : missing W T = missing W' T := by
  unfold missing
  apply List.filter_congr
  intro p _
  rw [h.contains_eq]

theorem goodP_perm (E : Setting) (card : Bool) (k : Kind) (up : UpTo) {W W' : List Pid} (h : W.Perm W')
    (S : List Voter) (T : List Pid) : GoodP E card k up W S T → GoodP E card k up W' S T := by
  have hv : ∀ k' up' v, VoterOkP card k' up' W S T v → VoterOkP card k' up' W' S T v := by
    intro k' up' v hv
    unfold VoterOkP satV at hv ⊢
    rw [← missing_perm h T, ← MES.sumOver_perm v.u h]
    exact hv
  cases k with
  | core => rintro ⟨v, hvS, hok⟩; exact ⟨v, hvS, hv _ _ v hok⟩
  | ejr => rintro ⟨v, hvS, hok⟩; exact ⟨v, hvS, hv _ _ v hok⟩
  | strong => intro hall v hvS; exact hv _ _ v (hall v hvS)
  | pjr =>
    unfold GoodP
    simp only
    by_cases hc : card = true
    · rw [if_pos hc, if_pos hc, ← missing_perm h T, ← MES.sumOver_perm _ h]
      exact id
    · rw [if_neg hc, if_neg hc, ← missing_perm h T]
      have : sumOver (groupApproved W S) E.full = sumOver (groupApproved W' S) E.full :=
        MES.sumOver_perm _ (h.filter _)
      rw [this]
      exact id

/-- an allocation satisfies a notion whichever way it is listed -/
theorem satisfies_perm (E : Setting) (V : List Voter) (card : Bool) (k : Kind) (up : UpTo) {W W' : List Pid}
    (h : W.Perm W') : Satisfies E V card k up W → Satisfies E V card k up W' :=
  fun hs S hS T hT ha => goodP_perm E card k up h S T (hs S hS T hT ha)

/-- satisfying a notion for a larger budget limit is stronger: more groups are large enough -/
theorem satisfies_budget_anti (E : Setting) (B' : Rat) (hB : E.budget ≤ B') (V : List Voter) (card : Bool)
    (k : Kind) (up : UpTo) (W : List Pid) :
    Satisfies { E with budget := B' } V card k up W → Satisfies E V card k up W := by
  intro hs S hS T hT ha
  have hL : Large E S T → Large { E with budget := B' } S T := by
    intro hl
    unfold Large at hl ⊢
    have : (0 : Rat) ≤ (S.length : Rat) := Nat.cast_nonneg _
    have := mul_le_mul_of_nonneg_left hB this
    exact le_trans hl this
  have ha' : AdmP { E with budget := B' } card k S T := by
    cases k with
    | core => exact ⟨hL ha.1, ha.2⟩
    | strong => exact ⟨hL ha.1, ha.2⟩
    | ejr => exact ⟨hL ha.1, ha.2⟩
    | pjr => exact ⟨hL ha.1, ha.2⟩
  have hg := hs S hS T hT ha'
  cases k <;> exact hg

/-! ### a run at a per-voter budget `b0 ≥ budget / n` -/

/-- with no voters every notion holds: there is no non-empty group -/
theorem satisfies_no_voters (E : Setting) (card : Bool) (k : Kind) (up : UpTo) (W : List Pid) :
    Satisfies E [] card k up W := by
  intro S hS T _ ha
  have hS0 : S = [] := List.sublist_nil.mp hS
  cases k with
  | core => exact absurd hS0 ha.2
  | strong => exact absurd hS0 ha.2.1
  | ejr => exact absurd hS0 ha.2.1
  | pjr => exact absurd hS0 ha.2.1

/-- the transfer: what the plain rule guarantees on the instance with budget limit `n · b0` holds, for the
    original budget limit, for the run at `b0 ≥ budget / n` -/
theorem mesAt_of_plain (I : Inst) (P : List ((Pid → Bool) × Nat)) (byCost : Bool) (up : UpTo)
    (order : List Pid → Except Err (List Pid)) (W : List Pid) (b0 : Rat) (hm : ∀ e ∈ P, 1 ≤ e.2)
    (hb : I.budget / (numVoters (mesVCtx I.cost byCost P) : Nat) ≤ b0)
    (hrun : runAt (mesVCtx I.cost byCost P) I [] order b0 = .ok W)
    (plain : MES.run (mesVCtx I.cost byCost P)
        ⟨I.projects, I.cost, (numVoters (mesVCtx I.cost byCost P) : Nat) * b0⟩ [] order = .ok W →
      Satisfies (settingOf ⟨I.projects, I.cost, (numVoters (mesVCtx I.cost byCost P) : Nat) * b0⟩ byCost P)
        (expand (approvalVoters I.cost byCost P)) false .ejr up W) :
    Satisfies (settingOf I byCost P) (expand (approvalVoters I.cost byCost P)) false .ejr up W := by
  by_cases hn : 0 < numVoters (mesVCtx I.cost byCost P)
  · have hnq : (0 : Rat) < ((numVoters (mesVCtx I.cost byCost P) : Nat) : Rat) := by exact_mod_cast hn
    have hle : I.budget ≤ ((numVoters (mesVCtx I.cost byCost P) : Nat) : Rat) * b0 := by
      rw [div_le_iff₀ hnq] at hb
      linarith
    have h1 := plain (by rw [(run_scaled _ I [] order b0 hn).1]; exact hrun)
    exact satisfies_budget_anti (settingOf I byCost P) _ hle _ false .ejr up W h1
  · have hP : P = [] := by
      cases P with
      | nil => rfl
      | cons e r =>
        exfalso; apply hn
        rw [numVoters_mes]
        have := hm e (by simp)
        simp only [sumNat]
        omega
    subst hP
    exact satisfies_no_voters _ _ _ _ _

/-- **Cost_Sat, run at `b0 ≥ budget / n`: EJR up to any project** for the original budget limit -/
theorem mesAt_EJR_any_cost (I : Inst) (P : List ((Pid → Bool) × Nat)) (order : List Pid → Except Err (List Pid))
    (W : List Pid) (b0 : Rat) (hcost : ∀ p ∈ I.projects, 0 < I.cost p) (hB : 0 ≤ I.budget) (hnd : I.projects.Nodup)
    (hm : ∀ e ∈ P, 1 ≤ e.2)
    (hord : ∀ T l, order T = .ok l → ∀ x ∈ l, x ∈ T) (hne : ∀ T, T ≠ [] → order T ≠ .ok [])
    (hb : I.budget / (numVoters (mesVCtx I.cost true P) : Nat) ≤ b0)
    (hrun : runAt (mesVCtx I.cost true P) I [] order b0 = .ok W) :
    Satisfies (settingOf I true P) (expand (approvalVoters I.cost true P)) false .ejr .any W := by
  have hb0 : 0 ≤ b0 := le_trans (share_nonneg _ I hB) hb
  exact mesAt_of_plain I P true .any order W b0 hm hb hrun (fun h =>
    mes_EJR_any_cost ⟨I.projects, I.cost, _⟩ P order W hcost (mul_nonneg (Nat.cast_nonneg _) hb0) hnd hm
      hord hne h)

/-- **Cardinality_Sat, run at `b0 ≥ budget / n`: EJR** for the original budget limit -/
theorem mesAt_EJR_cardinality (I : Inst) (P : List ((Pid → Bool) × Nat)) (order : List Pid → Except Err (List Pid))
    (W : List Pid) (b0 : Rat) (hcost : ∀ p ∈ I.projects, 0 ≤ I.cost p) (hB : 0 ≤ I.budget) (hnd : I.projects.Nodup)
    (hm : ∀ e ∈ P, 1 ≤ e.2)
    (hord : ∀ T l, order T = .ok l → ∀ x ∈ l, x ∈ T) (hne : ∀ T, T ≠ [] → order T ≠ .ok [])
    (hb : I.budget / (numVoters (mesVCtx I.cost false P) : Nat) ≤ b0)
    (hrun : runAt (mesVCtx I.cost false P) I [] order b0 = .ok W) :
    Satisfies (settingOf I false P) (expand (approvalVoters I.cost false P)) false .ejr .none W := by
  have hb0 : 0 ≤ b0 := le_trans (share_nonneg _ I hB) hb
  exact mesAt_of_plain I P false .none order W b0 hm hb hrun (fun h =>
    mes_EJR_cardinality ⟨I.projects, I.cost, _⟩ P order W hcost (mul_nonneg (Nat.cast_nonneg _) hb0) hnd hm
      hord hne h)

/-- plain EJR under Cardinality_Sat gives the two relaxations (as in `mes_EJR_one_cardinality`) -/
theorem card_any_one_of_plain (I : Inst) (P : List ((Pid → Bool) × Nat)) (W : List Pid)
    (h : Satisfies (settingOf I false P) (expand (approvalVoters I.cost false P)) false .ejr .none W) :
    Satisfies (settingOf I false P) (expand (approvalVoters I.cost false P)) false .ejr .any W ∧
    Satisfies (settingOf I false P) (expand (approvalVoters I.cost false P)) false .ejr .one W := by
  have hany := plain_imp_any (settingOf I false P) _ false .ejr W (approvalVoters_nonneg I.cost P)
    (by intro p; show (0 : Rat) ≤ if false = true then I.cost p else 1; rw [if_neg (by simp)]; norm_num) h
  exact ⟨hany, any_imp_one (settingOf I false P) _ false .ejr W hany⟩

theorem mesAt_EJR_one_cardinality (I : Inst) (P : List ((Pid → Bool) × Nat))
    (order : List Pid → Except Err (List Pid))
    (W : List Pid) (b0 : Rat) (hcost : ∀ p ∈ I.projects, 0 ≤ I.cost p) (hB : 0 ≤ I.budget) (hnd : I.projects.Nodup)
    (hm : ∀ e ∈ P, 1 ≤ e.2)
    (hord : ∀ T l, order T = .ok l → ∀ x ∈ l, x ∈ T) (hne : ∀ T, T ≠ [] → order T ≠ .ok [])
    (hb : I.budget / (numVoters (mesVCtx I.cost false P) : Nat) ≤ b0)
    (hrun : runAt (mesVCtx I.cost false P) I [] order b0 = .ok W) :
    Satisfies (settingOf I false P) (expand (approvalVoters I.cost false P)) false .ejr .any W ∧
    Satisfies (settingOf I false P) (expand (approvalVoters I.cost false P)) false .ejr .one W :=
  card_any_one_of_plain I P W (mesAt_EJR_cardinality I P order W b0 hcost hB hnd hm hord hne hb hrun)

/-- the form of `mes_EJR_x` for a run at `b0 ≥ budget / n` -/
theorem mesAt_EJR_x (I : Inst) (P : List ((Pid → Bool) × Nat)) (order : List Pid → Except Err (List Pid))
    (W : List Pid) (byCost : Bool) (b0 : Rat)
    (hcost : ∀ p ∈ I.projects, 0 < I.cost p) (hB : 0 ≤ I.budget) (hnd : I.projects.Nodup)
    (hm : ∀ e ∈ P, 1 ≤ e.2)
    (hord : ∀ T l, order T = .ok l → ∀ x ∈ l, x ∈ T) (hne : ∀ T, T ≠ [] → order T ≠ .ok [])
    (hb : I.budget / (numVoters (mesVCtx I.cost byCost P) : Nat) ≤ b0)
    (hrun : runAt (mesVCtx I.cost byCost P) I [] order b0 = .ok W) :
    Satisfies (settingOf I byCost P) (expand (approvalVoters I.cost byCost P)) false .ejr
      (if byCost then .any else .one) W := by
  cases byCost with
  | true => exact mesAt_EJR_any_cost I P order W b0 hcost hB hnd hm hord hne hb hrun
  | false =>
    exact (mesAt_EJR_one_cardinality I P order W b0 (fun p hp => le_of_lt (hcost p hp)) hB hnd hm
      hord hne hb hrun).2

/-! ### the three lifts: irresolute, iterated, iterated irresolute

`G` is any property of allocations that (a) holds for the outcome of every resolute run at a budget
`≥ budget / n` under an order function meeting `hord`, `hne`, and (b) does not depend on the listing order. -/

section lifts
variable {V : VCtx} {I : Inst} {G : List Pid → Prop}

/-- the guarantee of the resolute runs at budgets `≥ budget / n` -/
def ResoluteGuarantee (V : VCtx) (I : Inst) (G : List Pid → Prop) : Prop :=
  ∀ (order : List Pid → Except Err (List Pid)) (b0 : Rat) (W : List Pid),
    (∀ T l, order T = .ok l → ∀ x ∈ l, x ∈ T) → (∀ T, T ≠ [] → order T ≠ .ok []) →
    I.budget / (numVoters V : Nat) ≤ b0 → runAt V I [] order b0 = .ok W → G W

theorem lift_irresolute (hG : ResoluteGuarantee V I G) (hperm : ∀ W W', W.Perm W' → G W → G W')
    (hnd : I.projects.Nodup) {order : List Pid → Except Err (List Pid)}
    (hord : ∀ T l, order T = .ok l → ∀ x ∈ l, x ∈ T) {b0 : Rat}
    (hb : I.budget / (numVoters V : Nat) ≤ b0) {L : List (List Pid)}
    (hL : runAllAt V I [] order b0 = .ok L) : ∀ W ∈ L, G W := by
  intro W' hW'
  obtain ⟨π, _, W, hW, rfl⟩ := runAllAt_realised hord hnd I.cost (fun _ => 0) hL W' hW'
  exact hperm W _ (Sorting.sortIds_perm W).symm
    (hG _ b0 W (Tie.order_mem _ _ _) (Tie.order_ne_nil _ _ _) hb hW)

theorem share_le_try (V : VCtx) (I : Inst) {inc : Rat} (hinc : 0 ≤ inc) (k : Nat) :
    I.budget / (numVoters V : Nat) ≤ I.budget / (numVoters V : Nat) + k * inc := by
  have : 0 ≤ (k : Rat) * inc := mul_nonneg (Nat.cast_nonneg _) hinc
  linarith

theorem lift_iterated (hG : ResoluteGuarantee V I G) (hin : InputOK V I [])
    {order : List Pid → Except Err (List Pid)}
    (hord : ∀ T l, order T = .ok l → ∀ x ∈ l, x ∈ T) (hne : ∀ T, T ≠ [] → order T ≠ .ok [])
    (hB : 0 ≤ I.budget) {inc : Rat} (hinc : 0 ≤ inc) {fuel : Nat} {prev W : List Pid}
    (hW : iterated V I [] order inc fuel (I.budget / (numVoters V : Nat)) prev = .ok W) :
    G W ∧ I.isFeasible W = true := by
  obtain ⟨k, hk, hf⟩ := iterated_share_is_runAt hin hord hB hW
  exact ⟨hG order _ W hord hne (share_le_try V I hinc k) hk, hf⟩

theorem lift_iteratedAll (hG : ResoluteGuarantee V I G) (hperm : ∀ W W', W.Perm W' → G W → G W')
    (hin : InputOK V I []) {order : List Pid → Except Err (List Pid)}
    (hord : ∀ T l, order T = .ok l → ∀ x ∈ l, x ∈ T)
    (hB : 0 ≤ I.budget) {inc : Rat} (hinc : 0 ≤ inc) {fuel : Nat} {prev Ws : List (List Pid)}
    (hW : iteratedAll V I [] order inc fuel (I.budget / (numVoters V : Nat)) prev = .ok Ws) :
    ∀ W ∈ Ws, G W ∧ I.isFeasible W = true := by
  obtain ⟨k, hk, hf⟩ := iteratedAll_share_is_runAllAt hin hord hB hW
  intro W hWs
  exact ⟨lift_irresolute hG hperm hin.proj_nodup hord (share_le_try V I hinc k) hk W hWs, hf W hWs⟩

end lifts

/-! ### the resolute guarantees, in the form the lifts take -/

theorem guarantee_any_cost (I : Inst) (P : List ((Pid → Bool) × Nat))
    (hcost : ∀ p ∈ I.projects, 0 < I.cost p) (hB : 0 ≤ I.budget) (hnd : I.projects.Nodup) (hm : ∀ e ∈ P, 1 ≤ e.2) :
    ResoluteGuarantee (mesVCtx I.cost true P) I
      (Satisfies (settingOf I true P) (expand (approvalVoters I.cost true P)) false .ejr .any) :=
  fun order b0 W hord hne hb hrun => mesAt_EJR_any_cost I P order W b0 hcost hB hnd hm hord hne hb hrun

theorem guarantee_cardinality (I : Inst) (P : List ((Pid → Bool) × Nat))
    (hcost : ∀ p ∈ I.projects, 0 ≤ I.cost p) (hB : 0 ≤ I.budget) (hnd : I.projects.Nodup) (hm : ∀ e ∈ P, 1 ≤ e.2) :
    ResoluteGuarantee (mesVCtx I.cost false P) I
      (Satisfies (settingOf I false P) (expand (approvalVoters I.cost false P)) false .ejr .none) :=
  fun order b0 W hord hne hb hrun => mesAt_EJR_cardinality I P order W b0 hcost hB hnd hm hord hne hb hrun

theorem guarantee_x (I : Inst) (P : List ((Pid → Bool) × Nat)) (byCost : Bool)
    (hcost : ∀ p ∈ I.projects, 0 < I.cost p) (hB : 0 ≤ I.budget) (hnd : I.projects.Nodup) (hm : ∀ e ∈ P, 1 ≤ e.2) :
    ResoluteGuarantee (mesVCtx I.cost byCost P) I
      (Satisfies (settingOf I byCost P) (expand (approvalVoters I.cost byCost P)) false .ejr
        (if byCost then .any else .one)) :=
  fun order b0 W hord hne hb hrun => mesAt_EJR_x I P order W byCost b0 hcost hB hnd hm hord hne hb hrun

/-! ### IRRESOLUTE: every allocation of the irresolute answer -/

/-- **irresolute, Cost_Sat: every returned allocation satisfies EJR up to any project.**  The order function only has
    to return members of the tied set (it is used to enumerate the branches, not to choose). -/
theorem mesAllAt_EJR_any_cost (I : Inst) (P : List ((Pid → Bool) × Nat)) (order : List Pid → Except Err (List Pid))
    (L : List (List Pid)) (b0 : Rat) (hcost : ∀ p ∈ I.projects, 0 < I.cost p) (hB : 0 ≤ I.budget)
    (hnd : I.projects.Nodup) (hm : ∀ e ∈ P, 1 ≤ e.2) (hord : ∀ T l, order T = .ok l → ∀ x ∈ l, x ∈ T)
    (hb : I.budget / (numVoters (mesVCtx I.cost true P) : Nat) ≤ b0)
    (hL : runAllAt (mesVCtx I.cost true P) I [] order b0 = .ok L) :
    ∀ W ∈ L, Satisfies (settingOf I true P) (expand (approvalVoters I.cost true P)) false .ejr .any W :=
  lift_irresolute (guarantee_any_cost I P hcost hB hnd hm) (fun _ _ h => satisfies_perm _ _ _ _ _ h) hnd hord hb hL

theorem mesAllAt_EJR_cardinality (I : Inst) (P : List ((Pid → Bool) × Nat)) (order : List Pid → Except Err (List Pid))
    (L : List (List Pid)) (b0 : Rat) (hcost : ∀ p ∈ I.projects, 0 ≤ I.cost p) (hB : 0 ≤ I.budget)
    (hnd : I.projects.Nodup) (hm : ∀ e ∈ P, 1 ≤ e.2) (hord : ∀ T l, order T = .ok l → ∀ x ∈ l, x ∈ T)
    (hb : I.budget / (numVoters (mesVCtx I.cost false P) : Nat) ≤ b0)
    (hL : runAllAt (mesVCtx I.cost false P) I [] order b0 = .ok L) :
    ∀ W ∈ L, Satisfies (settingOf I false P) (expand (approvalVoters I.cost false P)) false .ejr .none W :=
  lift_irresolute (guarantee_cardinality I P hcost hB hnd hm) (fun _ _ h => satisfies_perm _ _ _ _ _ h) hnd hord hb hL

theorem mesAllAt_EJR_x (I : Inst) (P : List ((Pid → Bool) × Nat)) (order : List Pid → Except Err (List Pid))
    (L : List (List Pid)) (byCost : Bool) (b0 : Rat) (hcost : ∀ p ∈ I.projects, 0 < I.cost p) (hB : 0 ≤ I.budget)
    (hnd : I.projects.Nodup) (hm : ∀ e ∈ P, 1 ≤ e.2) (hord : ∀ T l, order T = .ok l → ∀ x ∈ l, x ∈ T)
    (hb : I.budget / (numVoters (mesVCtx I.cost byCost P) : Nat) ≤ b0)
    (hL : runAllAt (mesVCtx I.cost byCost P) I [] order b0 = .ok L) :
    ∀ W ∈ L, Satisfies (settingOf I byCost P) (expand (approvalVoters I.cost byCost P)) false .ejr
      (if byCost then .any else .one) W :=
  lift_irresolute (guarantee_x I P byCost hcost hB hnd hm) (fun _ _ h => satisfies_perm _ _ _ _ _ h) hnd hord hb hL

/-- **`MES.runAll`, Cost_Sat ⇒ EJR up to any project, for every allocation returned** -/
theorem mes_irresolute_EJR_any_cost (I : Inst) (P : List ((Pid → Bool) × Nat))
    (order : List Pid → Except Err (List Pid)) (L : List (List Pid))
    (hcost : ∀ p ∈ I.projects, 0 < I.cost p) (hB : 0 ≤ I.budget) (hnd : I.projects.Nodup) (hm : ∀ e ∈ P, 1 ≤ e.2)
    (hord : ∀ T l, order T = .ok l → ∀ x ∈ l, x ∈ T)
    (hL : MES.runAll (mesVCtx I.cost true P) I [] order = .ok L) :
    ∀ W ∈ L, Satisfies (settingOf I true P) (expand (approvalVoters I.cost true P)) false .ejr .any W :=
  mesAllAt_EJR_any_cost I P order L _ hcost hB hnd hm hord (le_refl _) hL

/-- **`MES.runAll`, Cardinality_Sat ⇒ EJR, for every allocation returned** -/
theorem mes_irresolute_EJR_cardinality (I : Inst) (P : List ((Pid → Bool) × Nat))
    (order : List Pid → Except Err (List Pid)) (L : List (List Pid))
    (hcost : ∀ p ∈ I.projects, 0 ≤ I.cost p) (hB : 0 ≤ I.budget) (hnd : I.projects.Nodup) (hm : ∀ e ∈ P, 1 ≤ e.2)
    (hord : ∀ T l, order T = .ok l → ∀ x ∈ l, x ∈ T)
    (hL : MES.runAll (mesVCtx I.cost false P) I [] order = .ok L) :
    ∀ W ∈ L, Satisfies (settingOf I false P) (expand (approvalVoters I.cost false P)) false .ejr .none W :=
  mesAllAt_EJR_cardinality I P order L _ hcost hB hnd hm hord (le_refl _) hL

/-- **`MES.runAll`, Cardinality_Sat ⇒ EJR up to any / up to one project, for every allocation returned** -/
theorem mes_irresolute_EJR_one_cardinality (I : Inst) (P : List ((Pid → Bool) × Nat))
    (order : List Pid → Except Err (List Pid)) (L : List (List Pid))
    (hcost : ∀ p ∈ I.projects, 0 ≤ I.cost p) (hB : 0 ≤ I.budget) (hnd : I.projects.Nodup) (hm : ∀ e ∈ P, 1 ≤ e.2)
    (hord : ∀ T l, order T = .ok l → ∀ x ∈ l, x ∈ T)
    (hL : MES.runAll (mesVCtx I.cost false P) I [] order = .ok L) :
    ∀ W ∈ L, Satisfies (settingOf I false P) (expand (approvalVoters I.cost false P)) false .ejr .any W ∧
      Satisfies (settingOf I false P) (expand (approvalVoters I.cost false P)) false .ejr .one W :=
  fun W hW => card_any_one_of_plain I P W (mes_irresolute_EJR_cardinality I P order L hcost hB hnd hm hord hL W hW)

/-- **`mes_EJR_x` for the irresolute rule**: every allocation in `MES.runAll …` -/
theorem mes_irresolute_EJR_x (I : Inst) (P : List ((Pid → Bool) × Nat)) (order : List Pid → Except Err (List Pid))
    (L : List (List Pid)) (byCost : Bool)
    (hcost : ∀ p ∈ I.projects, 0 < I.cost p) (hB : 0 < I.budget) (hnd : I.projects.Nodup) (hm : ∀ e ∈ P, 1 ≤ e.2)
    (hord : ∀ T l, order T = .ok l → ∀ x ∈ l, x ∈ T)
    (hL : MES.runAll (mesVCtx I.cost byCost P) I [] order = .ok L) :
    ∀ W ∈ L, Satisfies (settingOf I byCost P) (expand (approvalVoters I.cost byCost P)) false .ejr
      (if byCost then .any else .one) W :=
  mesAllAt_EJR_x I P order L byCost _ hcost (le_of_lt hB) hnd hm hord (le_refl _) hL

/-! ### ITERATED (`voter_budget_increment`): the guarantees hold for the ORIGINAL budget limit -/

/-- **iterated, Cost_Sat ⇒ EJR up to any project** w.r.t. the original budget limit; the outcome is feasible for it -/
theorem mes_iterated_EJR_any_cost (I : Inst) (P : List ((Pid → Bool) × Nat)) (order : List Pid → Except Err (List Pid))
    (W prev : List Pid) (inc : Rat) (fuel : Nat)
    (hcost : ∀ p ∈ I.projects, 0 < I.cost p) (hB : 0 ≤ I.budget) (hnd : I.projects.Nodup) (hm : ∀ e ∈ P, 1 ≤ e.2)
    (hord : ∀ T l, order T = .ok l → ∀ x ∈ l, x ∈ T) (hne : ∀ T, T ≠ [] → order T ≠ .ok []) (hinc : 0 ≤ inc)
    (hrun : MES.iterated (mesVCtx I.cost true P) I [] order inc fuel
      (I.budget / (numVoters (mesVCtx I.cost true P) : Nat)) prev = .ok W) :
    Satisfies (settingOf I true P) (expand (approvalVoters I.cost true P)) false .ejr .any W ∧
      I.isFeasible W = true :=
  lift_iterated (guarantee_any_cost I P hcost hB hnd hm)
    (mes_inputOK I true P hm hnd (fun p hp => le_of_lt (hcost p hp))) hord hne hB hinc hrun

/-- **iterated, Cardinality_Sat ⇒ EJR** w.r.t. the original budget limit -/
theorem mes_iterated_EJR_cardinality (I : Inst) (P : List ((Pid → Bool) × Nat))
    (order : List Pid → Except Err (List Pid)) (W prev : List Pid) (inc : Rat) (fuel : Nat)
    (hcost : ∀ p ∈ I.projects, 0 ≤ I.cost p) (hB : 0 ≤ I.budget) (hnd : I.projects.Nodup) (hm : ∀ e ∈ P, 1 ≤ e.2)
    (hord : ∀ T l, order T = .ok l → ∀ x ∈ l, x ∈ T) (hne : ∀ T, T ≠ [] → order T ≠ .ok []) (hinc : 0 ≤ inc)
    (hrun : MES.iterated (mesVCtx I.cost false P) I [] order inc fuel
      (I.budget / (numVoters (mesVCtx I.cost false P) : Nat)) prev = .ok W) :
    Satisfies (settingOf I false P) (expand (approvalVoters I.cost false P)) false .ejr .none W ∧
      I.isFeasible W = true :=
  lift_iterated (guarantee_cardinality I P hcost hB hnd hm) (mes_inputOK I false P hm hnd hcost) hord hne hB hinc hrun

/-- **iterated, Cardinality_Sat ⇒ EJR up to any / up to one project** -/
theorem mes_iterated_EJR_one_cardinality (I : Inst) (P : List ((Pid → Bool) × Nat))
    (order : List Pid → Except Err (List Pid)) (W prev : List Pid) (inc : Rat) (fuel : Nat)
    (hcost : ∀ p ∈ I.projects, 0 ≤ I.cost p) (hB : 0 ≤ I.budget) (hnd : I.projects.Nodup) (hm : ∀ e ∈ P, 1 ≤ e.2)
    (hord : ∀ T l, order T = .ok l → ∀ x ∈ l, x ∈ T) (hne : ∀ T, T ≠ [] → order T ≠ .ok []) (hinc : 0 ≤ inc)
    (hrun : MES.iterated (mesVCtx I.cost false P) I [] order inc fuel
      (I.budget / (numVoters (mesVCtx I.cost false P) : Nat)) prev = .ok W) :
    Satisfies (settingOf I false P) (expand (approvalVoters I.cost false P)) false .ejr .any W ∧
    Satisfies (settingOf I false P) (expand (approvalVoters I.cost false P)) false .ejr .one W :=
  card_any_one_of_plain I P W
    (mes_iterated_EJR_cardinality I P order W prev inc fuel hcost hB hnd hm hord hne hinc hrun).1

/-- **`mes_EJR_x` for the iterated rule** -/
theorem mes_iterated_EJR_x (I : Inst) (P : List ((Pid → Bool) × Nat)) (order : List Pid → Except Err (List Pid))
    (W prev : List Pid) (byCost : Bool) (inc : Rat) (fuel : Nat)
    (hcost : ∀ p ∈ I.projects, 0 < I.cost p) (hB : 0 < I.budget) (hnd : I.projects.Nodup) (hm : ∀ e ∈ P, 1 ≤ e.2)
    (hord : ∀ T l, order T = .ok l → ∀ x ∈ l, x ∈ T) (hne : ∀ T, T ≠ [] → order T ≠ .ok []) (hinc : 0 ≤ inc)
    (hrun : MES.iterated (mesVCtx I.cost byCost P) I [] order inc fuel
      (I.budget / (numVoters (mesVCtx I.cost byCost P) : Nat)) prev = .ok W) :
    Satisfies (settingOf I byCost P) (expand (approvalVoters I.cost byCost P)) false .ejr
      (if byCost then .any else .one) W ∧ I.isFeasible W = true :=
  lift_iterated (guarantee_x I P byCost hcost (le_of_lt hB) hnd hm)
    (mes_inputOK I byCost P hm hnd (fun p hp => le_of_lt (hcost p hp))) hord hne (le_of_lt hB) hinc hrun

/-- **iterated and irresolute, Cost_Sat**: every allocation returned -/
theorem mes_iteratedAll_EJR_any_cost (I : Inst) (P : List ((Pid → Bool) × Nat))
    (order : List Pid → Except Err (List Pid)) (Ws prev : List (List Pid)) (inc : Rat) (fuel : Nat)
    (hcost : ∀ p ∈ I.projects, 0 < I.cost p) (hB : 0 ≤ I.budget) (hnd : I.projects.Nodup) (hm : ∀ e ∈ P, 1 ≤ e.2)
    (hord : ∀ T l, order T = .ok l → ∀ x ∈ l, x ∈ T) (hinc : 0 ≤ inc)
    (hrun : MES.iteratedAll (mesVCtx I.cost true P) I [] order inc fuel
      (I.budget / (numVoters (mesVCtx I.cost true P) : Nat)) prev = .ok Ws) :
    ∀ W ∈ Ws, Satisfies (settingOf I true P) (expand (approvalVoters I.cost true P)) false .ejr .any W ∧
      I.isFeasible W = true :=
  lift_iteratedAll (guarantee_any_cost I P hcost hB hnd hm) (fun _ _ h => satisfies_perm _ _ _ _ _ h)
    (mes_inputOK I true P hm hnd (fun p hp => le_of_lt (hcost p hp))) hord hB hinc hrun

/-- **iterated and irresolute, Cardinality_Sat**: every allocation returned satisfies EJR -/
theorem mes_iteratedAll_EJR_cardinality (I : Inst) (P : List ((Pid → Bool) × Nat))
    (order : List Pid → Except Err (List Pid)) (Ws prev : List (List Pid)) (inc : Rat) (fuel : Nat)
    (hcost : ∀ p ∈ I.projects, 0 ≤ I.cost p) (hB : 0 ≤ I.budget) (hnd : I.projects.Nodup) (hm : ∀ e ∈ P, 1 ≤ e.2)
    (hord : ∀ T l, order T = .ok l → ∀ x ∈ l, x ∈ T) (hinc : 0 ≤ inc)
    (hrun : MES.iteratedAll (mesVCtx I.cost false P) I [] order inc fuel
      (I.budget / (numVoters (mesVCtx I.cost false P) : Nat)) prev = .ok Ws) :
    ∀ W ∈ Ws, Satisfies (settingOf I false P) (expand (approvalVoters I.cost false P)) false .ejr .none W ∧
      I.isFeasible W = true :=
  lift_iteratedAll (guarantee_cardinality I P hcost hB hnd hm) (fun _ _ h => satisfies_perm _ _ _ _ _ h)
    (mes_inputOK I false P hm hnd hcost) hord hB hinc hrun

/-- **`mes_EJR_x` for the iterated irresolute rule** -/
theorem mes_iteratedAll_EJR_x (I : Inst) (P : List ((Pid → Bool) × Nat)) (order : List Pid → Except Err (List Pid))
    (Ws prev : List (List Pid)) (byCost : Bool) (inc : Rat) (fuel : Nat)
    (hcost : ∀ p ∈ I.projects, 0 < I.cost p) (hB : 0 < I.budget) (hnd : I.projects.Nodup) (hm : ∀ e ∈ P, 1 ≤ e.2)
    (hord : ∀ T l, order T = .ok l → ∀ x ∈ l, x ∈ T) (hinc : 0 ≤ inc)
    (hrun : MES.iteratedAll (mesVCtx I.cost byCost P) I [] order inc fuel
      (I.budget / (numVoters (mesVCtx I.cost byCost P) : Nat)) prev = .ok Ws) :
    ∀ W ∈ Ws, Satisfies (settingOf I byCost P) (expand (approvalVoters I.cost byCost P)) false .ejr
      (if byCost then .any else .one) W ∧ I.isFeasible W = true :=
  lift_iteratedAll (guarantee_x I P byCost hcost (le_of_lt hB) hnd hm) (fun _ _ h => satisfies_perm _ _ _ _ _ h)
    (mes_inputOK I byCost P hm hnd (fun p hp => le_of_lt (hcost p hp))) hord (le_of_lt hB) hinc hrun

/-- **the lazy implementation of the iterated rule** (what the library executes; `bin` = the binary-satisfaction
    shortcut): by `C02Lazy.iteratedLazy_eq_iterated` it returns what `MES.iterated` returns, for an order function
    that only depends on the SET of tied projects (every shipped rule: `Tie.order_perm_eq`) -/
theorem mes_iteratedLazy_EJR_x (I : Inst) (P : List ((Pid → Bool) × Nat)) (order : List Pid → Except Err (List Pid))
    (W prev : List Pid) (byCost bin : Bool) (inc : Rat) (fuel : Nat)
    (hcost : ∀ p ∈ I.projects, 0 < I.cost p) (hB : 0 < I.budget) (hnd : I.projects.Nodup) (hm : ∀ e ∈ P, 1 ≤ e.2)
    (hord : ∀ T l, order T = .ok l → ∀ x ∈ l, x ∈ T) (hne : ∀ T, T ≠ [] → order T ≠ .ok [])
    (hperm : ∀ l₁ l₂ : List Pid, l₁.Perm l₂ → order l₁ = order l₂) (hinc : 0 ≤ inc)
    (hrun : MESLazy.iteratedLazy (mesVCtx I.cost byCost P) I [] order bin inc fuel
      (I.budget / (numVoters (mesVCtx I.cost byCost P) : Nat)) prev = .ok W) :
    Satisfies (settingOf I byCost P) (expand (approvalVoters I.cost byCost P)) false .ejr
      (if byCost then .any else .one) W ∧ I.isFeasible W = true := by
  rw [(C02Lazy.iteratedLazy_eq_iterated _ I [] bin (mes_mult I.cost byCost P hm) hnd
    (fun p hp => le_of_lt (hcost p hp)) order hperm hord inc hinc fuel _
    (share_nonneg _ I (le_of_lt hB))).1 prev] at hrun
  exact mes_iterated_EJR_x I P order W prev byCost inc fuel hcost hB hnd hm hord hne hinc hrun

/-- `init ⊆ W` in every mode, for the profiles of this file (see `MES.variants_keep_init`) -/
theorem mes_variants_keep_init (I : Inst) (P : List ((Pid → Bool) × Nat)) (byCost : Bool) (init : List Pid)
    (order : List Pid → Except Err (List Pid)) (b0 inc : Rat)
    (hcost : ∀ p ∈ I.projects, 0 ≤ I.cost p) (hnd : I.projects.Nodup) (hm : ∀ e ∈ P, 1 ≤ e.2)
    (hinit : ∀ p ∈ init, p ∈ I.projects) (hinitnd : init.Nodup)
    (hord : ∀ T l, order T = .ok l → ∀ x ∈ l, x ∈ T) (hb0 : 0 ≤ b0) (hinc : 0 ≤ inc) :
    (∀ W, runAt (mesVCtx I.cost byCost P) I init order b0 = .ok W → ∀ p ∈ init, p ∈ W) ∧
    (∀ L, runAllAt (mesVCtx I.cost byCost P) I init order b0 = .ok L → ∀ W ∈ L, ∀ p ∈ init, p ∈ W) ∧
    (∀ fuel prev W, (∀ p ∈ init, p ∈ prev) →
      iterated (mesVCtx I.cost byCost P) I init order inc fuel b0 prev = .ok W → ∀ p ∈ init, p ∈ W) ∧
    (∀ fuel prev Ws, (∀ W ∈ prev, ∀ p ∈ init, p ∈ W) →
      iteratedAll (mesVCtx I.cost byCost P) I init order inc fuel b0 prev = .ok Ws →
      ∀ W ∈ Ws, ∀ p ∈ init, p ∈ W) :=
  variants_keep_init ⟨mes_mult I.cost byCost P hm, hnd, hinit, hinitnd, hcost⟩ hord hb0 hinc

/-! ### the hypotheses are satisfiable: a real tie, and an iterated run that takes two increments -/

/-- two voters approving the unit-cost projects 0 and 1, voter 0 also project 2; budget 1 (share 1/2): projects 0 and 1
    tie at price 1/2 per unit, whichever is bought exhausts both voters -/
def tieI : Inst := ⟨[0, 1, 2], fun _ => 1, 1⟩
def tieP : List ((Pid → Bool) × Nat) := [(fun _ => true, 1), (fun p => p != 2, 1)]
def tieOrder : List Pid → Except Err (List Pid) := Tie.lexico.order tieI.cost (fun _ => 0)

theorem tieEx_hyps :
    (∀ p ∈ tieI.projects, 0 < tieI.cost p) ∧ 0 < tieI.budget ∧ tieI.projects.Nodup ∧
    (∀ e ∈ tieP, 1 ≤ e.2) ∧ (∀ T l, tieOrder T = .ok l → ∀ x ∈ l, x ∈ T) ∧
    (∀ T, T ≠ [] → tieOrder T ≠ .ok []) := by
  refine ⟨?_, by norm_num [tieI], by decide, ?_, (tie_order_ok .lexico _ _ (by decide)).1,
    (tie_order_ok .lexico _ _ (by decide)).2⟩
  · intro p _
    show (0 : Rat) < 1
    norm_num
  · intro e he
    simp only [tieP, List.mem_cons, List.not_mem_nil, or_false] at he
    rcases he with rfl | rfl <;> simp

/-- two irresolute outcomes, under either measure; the resolute lexicographic run returns the first -/
theorem tieEx_run (byCost : Bool) :
    MES.runAll (mesVCtx tieI.cost byCost tieP) tieI [] tieOrder = .ok [[0], [1]] ∧
    MES.run (mesVCtx tieI.cost byCost tieP) tieI [] tieOrder = .ok [0] := by
  cases byCost <;> constructor <;> decide +kernel

/-- the two voters together are `{0}`-cohesive (cost 1, 1·2 ≤ 2·1) and `{0}` is disjoint from the second irresolute
    outcome `[1]`: the theorems are used on a cohesive group whose project was not bought -/
theorem tieEx_cohesive (byCost : Bool) :
    AdmP (settingOf tieI byCost tieP) false .ejr (expand (approvalVoters tieI.cost byCost tieP)) [0] := by
  refine ⟨?_, by simp [approvalVoters, expand, tieP], by simp, Or.inr ?_⟩
  · show costOf tieI.cost [0] * ((sumNat tieP (fun e => e.2) : Nat) : Rat) ≤ _
    norm_num [costOf, sumOver, sumNat, tieI, tieP, approvalVoters, expand, settingOf]
  · intro v hv p hp
    have hp0 : p = 0 := by simpa using hp
    subst hp0
    simp [approvalVoters, expand, tieP] at hv
    rcases hv with rfl | rfl <;> rfl

/-- … and both outcomes pass: EJR up to any project under Cost_Sat, EJR under Cardinality_Sat -/
theorem tieEx_conclusion :
    (∀ W ∈ [[0], [1]], Satisfies (settingOf tieI true tieP) (expand (approvalVoters tieI.cost true tieP)) false
      .ejr .any W) ∧
    (∀ W ∈ [[0], [1]], Satisfies (settingOf tieI false tieP) (expand (approvalVoters tieI.cost false tieP)) false
      .ejr .none W) := by
  obtain ⟨h1, h2, h3, h4, h5, _⟩ := tieEx_hyps
  exact ⟨mes_irresolute_EJR_any_cost _ _ _ _ h1 (le_of_lt h2) h3 h4 h5 (tieEx_run true).1,
    mes_irresolute_EJR_cardinality _ _ _ _ (fun p hp => le_of_lt (h1 p hp)) (le_of_lt h2) h3 h4 h5
      (tieEx_run false).1⟩

/-- two voters approving `{1, 2}` and `{2, 3}`, costs 2, 2, 3, budget 4 (share 2), increment 1/2 -/
def itI : Inst := ⟨[1, 2, 3], fun p => if p = 3 then 3 else 2, 4⟩
def itP : List ((Pid → Bool) × Nat) := [(fun p => p == 1 || p == 2, 1), (fun p => p == 2 || p == 3, 1)]
def itOrder : List Pid → Except Err (List Pid) := Tie.lexico.order itI.cost (fun _ => 0)

theorem itEx_hyps :
    (∀ p ∈ itI.projects, 0 < itI.cost p) ∧ 0 < itI.budget ∧ itI.projects.Nodup ∧
    (∀ e ∈ itP, 1 ≤ e.2) ∧ (∀ T l, itOrder T = .ok l → ∀ x ∈ l, x ∈ T) ∧
    (∀ T, T ≠ [] → itOrder T ≠ .ok []) := by
  refine ⟨?_, by norm_num [itI], by decide, ?_, (tie_order_ok .lexico _ _ (by decide)).1,
    (tie_order_ok .lexico _ _ (by decide)).2⟩
  · intro p _
    show (0 : Rat) < if p = 3 then 3 else 2
    split <;> norm_num
  · intro e he
    simp only [itP, List.mem_cons, List.not_mem_nil, or_false] at he
    rcases he with rfl | rfl <;> simp

/-- per-voter budgets 2 and 5/2 buy only project 2 (not exhaustive: project 1 would still fit); budget 3 buys `[2, 1]`,
    which exhausts the original budget: two increments, and the answer differs from the plain rule's `[2]` -/
theorem itEx_run (byCost : Bool) :
    runAt (mesVCtx itI.cost byCost itP) itI [] itOrder 2 = .ok [2] ∧
    runAt (mesVCtx itI.cost byCost itP) itI [] itOrder (5 / 2) = .ok [2] ∧
    runAt (mesVCtx itI.cost byCost itP) itI [] itOrder 3 = .ok [2, 1] ∧
    itI.isExhaustiveOver (initPool (mesVCtx itI.cost byCost itP) itI []) [2] = false ∧
    MES.run (mesVCtx itI.cost byCost itP) itI [] itOrder = .ok [2] ∧
    MES.iterated (mesVCtx itI.cost byCost itP) itI [] itOrder (1 / 2) 5
      (itI.budget / (numVoters (mesVCtx itI.cost byCost itP) : Nat)) [] = .ok [2, 1] := by
  cases byCost <;> refine ⟨?_, ?_, ?_, ?_, ?_, ?_⟩ <;> decide +kernel

/-- the iterated outcome passes for the original budget 4 -/
theorem itEx_conclusion :
    Satisfies (settingOf itI true itP) (expand (approvalVoters itI.cost true itP)) false .ejr .any [2, 1] ∧
    Satisfies (settingOf itI false itP) (expand (approvalVoters itI.cost false itP)) false .ejr .none [2, 1] ∧
    itI.isFeasible [2, 1] = true := by
  obtain ⟨h1, h2, h3, h4, h5, h6⟩ := itEx_hyps
  have ha := mes_iterated_EJR_any_cost _ _ _ _ _ _ _ h1 (le_of_lt h2) h3 h4 h5 h6 (by norm_num) (itEx_run true).2.2.2.2.2
  have hc := mes_iterated_EJR_cardinality _ _ _ _ _ _ _ (fun p hp => le_of_lt (h1 p hp)) (le_of_lt h2) h3 h4 h5 h6
    (by norm_num) (itEx_run false).2.2.2.2.2
  exact ⟨ha.1, hc.1, ha.2⟩

end Pabu.JR
