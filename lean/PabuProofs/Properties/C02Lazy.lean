/-
  C02 (fast paths) — "the answer does not depend on which internal fast path is used (binary
  satisfaction shortcut, lazy affordability updates, ballot multiplicities)".

  `PabuModel/MESLazy.lean` models a round of `mes_inner_algo` as the code performs it (stored
  affordabilities, visit in increasing stored order, permanent removal of unaffordable projects,
  early `break`, optional shared-satisfaction shortcut); `PabuModel/MES.lean` is the eager form.
  This file states that both return the same results.  Proofs: PabuProofs/Lemmas/MESLazy.lean.
  (Ballot multiplicities: PabuProofs/Properties/C06.lean / Lemmas/Expand.lean.)
-/
import PabuProofs.Lemmas.MESLazy
namespace Pabu.C02Lazy
open Pabu Pabu.MES Pabu.MESLazy

/-! ### Prices only go up as money is spent -/

/-- if every voter holds at most what she held before (both non-negative), a project that has a
    price now had one before, and the old price is not larger -/
theorem rho_mono {V : VCtx} {cost : Pid → Rat} {b b' : Nat → Rat} {p : Pid} {r' : Rat}
    (hb : ∀ i ∈ V.vs, 0 ≤ b i) (hb' : ∀ i ∈ V.vs, 0 ≤ b' i) (hm : ∀ i ∈ V.vs, 1 ≤ V.m i)
    (hle : ∀ i ∈ V.vs, b' i ≤ b i) (hc : 0 < cost p) (hr : rho V cost b' p = some r') :
    ∃ r, rho V cost b p = some r ∧ r ≤ r' :=
  MESLazy.rho_mono ⟨hb, hm⟩ ⟨hb', hm⟩ hle hc hr

/-- the same, read as antitonicity in the budgets: affordable with less money ⇒ affordable with
    more, at a price that is not larger -/
theorem rho_antitone_budget {V : VCtx} {cost : Pid → Rat} {b b' : Nat → Rat} {p : Pid}
    (hb : ∀ i ∈ V.vs, 0 ≤ b i) (hb' : ∀ i ∈ V.vs, 0 ≤ b' i) (hm : ∀ i ∈ V.vs, 1 ≤ V.m i)
    (hle : ∀ i ∈ V.vs, b' i ≤ b i) (hc : 0 < cost p) :
    (rho V cost b p = none → rho V cost b' p = none) ∧
      (∀ r', rho V cost b' p = some r' → ∃ r, rho V cost b p = some r ∧ r ≤ r') :=
  ⟨fun h => MESLazy.rho_none_mono ⟨hb, hm⟩ ⟨hb', hm⟩ hle hc h,
   fun _ hr => MESLazy.rho_mono ⟨hb, hm⟩ ⟨hb', hm⟩ hle hc hr⟩

/-- a project without a price never gets one again: unaffordable stays unaffordable -/
theorem unaffordable_forever {V : VCtx} {cost : Pid → Rat} {b b' : Nat → Rat} {p : Pid}
    (hb : ∀ i ∈ V.vs, 0 ≤ b i) (hb' : ∀ i ∈ V.vs, 0 ≤ b' i) (hm : ∀ i ∈ V.vs, 1 ≤ V.m i)
    (hle : ∀ i ∈ V.vs, b' i ≤ b i) (hc : 0 < cost p) (h : rho V cost b p = none) :
    rho V cost b' p = none :=
  MESLazy.rho_none_mono ⟨hb, hm⟩ ⟨hb', hm⟩ hle hc h

/-! ### The binary-satisfaction shortcut -/

/-- when all supporters of a project share one satisfaction value, the shortcut sweep (that value
    for every supporter) returns the price of the ordinary sweep -/
theorem rhoBinary_eq_rho {V : VCtx} (cost : Pid → Rat) (b : Nat → Rat) {p : Pid}
    (h : allSame V p = true) : rhoBinary V cost b p = rho V cost b p :=
  MESLazy.rhoBinary_eq_rho cost b h

/-- the price computation of the code (shortcut on or off, applicable or not) is `MES.rho` -/
theorem price_eq_rho (V : VCtx) (cost : Pid → Rat) (bin : Bool) (b : Nat → Rat) (p : Pid) :
    price V cost bin b p = rho V cost b p := MESLazy.price_eq_rho V cost bin b p

/-- … and every voter of the profile pays what she pays in the eager model -/
theorem payL_eq_pay {V : VCtx} (bin : Bool) (b : Nat → Rat) (t : Pid) (r : Rat) {i : Nat}
    (hi : i ∈ V.vs) : payL V bin b t r i = pay V b t r i := MESLazy.payL_eq_pay bin b t r hi

/-! ### The invariant of the lazy round: stored affordability ≤ true price -/

/-- the invariant, for a state -/
def Stale (V : VCtx) (cost : Pid → Rat) (s : LState) : Prop :=
  ∀ p ∈ s.pool, ∀ r, rho V cost s.b p = some r → s.aff p ≤ r

/-- it holds initially: `cost / total_sat ≤ ρ` because everybody pays at most `ρ·u` -/
theorem stale_le_rho_init (V : VCtx) (I : Inst) (init : List Pid) (b0 : Rat) (hb0 : 0 ≤ b0)
    (hm : ∀ i ∈ V.vs, 1 ≤ V.m i) : Stale V I.cost (initStateL V I init b0) := by
  intro p hp r hr
  have hp' := mem_initPool.mp hp
  exact initAff_le (V := V) (cost := I.cost) (b := fun _ => b0) ⟨fun _ _ => hb0, hm⟩
    hp'.2.2.2 hp'.2.2.1 hr

/-- it is preserved by the round itself (a stored value is left alone or replaced by the true
    price) … -/
theorem stale_le_rho_scan {V : VCtx} {cost : Pid → Rat} (bin : Bool) (s : LState)
    (hnd : s.pool.Nodup) (h : Stale V cost s) :
    ∀ p ∈ s.pool, ∀ r, rho V cost s.b p = some r → (scan V cost bin s).aff p ≤ r := by
  intro p hp r hr
  rcases (scan_inv (V := V) (cost := cost) bin s hnd h).aff p with h1 | ⟨_, h2⟩
  · rw [h1]; exact h p hp r hr
  · rw [hr] at h2; cases h2; exact le_refl _

/-- … and by the purchase that follows it (money only decreases, so prices only go up):
    the bisimulation `Rel`, which contains the invariant, is preserved -/
theorem stale_le_rho_buy {V : VCtx} {cost : Pid → Rat} {B : Rat} (hm : ∀ i ∈ V.vs, 1 ≤ V.m i)
    {ls : LState} {s : State} (h : Rel V cost B ls s) (bin : Bool) {t : Pid}
    (ht : t ∈ MES.tied V cost s) : Stale V cost (buyLazy V cost bin ls t) :=
  (h.buy hm bin ht).stale

/-- `stale_le_rho`: the three facts together -/
theorem stale_le_rho (V : VCtx) (I : Inst) (init : List Pid) (b0 : Rat) (hb0 : 0 ≤ b0)
    (hm : ∀ i ∈ V.vs, 1 ≤ V.m i) :
    Stale V I.cost (initStateL V I init b0) ∧
      (∀ (bin : Bool) (s : LState), s.pool.Nodup → Stale V I.cost s →
        ∀ p ∈ s.pool, ∀ r, rho V I.cost s.b p = some r → (scan V I.cost bin s).aff p ≤ r) ∧
      (∀ (bin : Bool) (B : Rat) (ls : LState) (s : State) (t : Pid), Rel V I.cost B ls s →
        t ∈ MES.tied V I.cost s → Stale V I.cost (buyLazy V I.cost bin ls t)) :=
  ⟨stale_le_rho_init V I init b0 hb0 hm,
   fun bin s hnd h => stale_le_rho_scan bin s hnd h,
   fun bin _ _ _ _ h ht => stale_le_rho_buy hm h bin ht⟩

/-! ### One lazy round computes the eager arg-min -/

/-- the eager state with the money, pool and allocation of a lazy state -/
def eager (s : LState) : State := ⟨s.b, s.pool, s.alloc⟩

/-- under the invariant (and a pool without repeats) the lazy round finds the same best price and
    ties the same projects as the eager round over the same pool (as sets, and as lists up to
    order); what it removes from the pool has no price; the stored values it leaves are still lower
    bounds.  (The projects skipped by the early `break` have true price ≥ stored > best.) -/
theorem scan_eq_argmin {V : VCtx} {cost : Pid → Rat} (bin : Bool) (s : LState)
    (hnd : s.pool.Nodup) (h : Stale V cost s) :
    (scan V cost bin s).best = MES.best V cost (eager s) ∧
      (∀ q, q ∈ tiedLazy V cost bin s ↔ q ∈ MES.tied V cost (eager s)) ∧
      (tiedLazy V cost bin s).Perm (MES.tied V cost (eager s)) ∧
      (∀ q ∈ (scan V cost bin s).dropped, q ∈ s.pool ∧ rho V cost s.b q = none) ∧
      (∀ p ∈ s.pool, ∀ r, rho V cost s.b p = some r → (scan V cost bin s).aff p ≤ r) := by
  have hmem := scan_mem_tied (V := V) (cost := cost) bin (ls := s) (s := eager s)
    (fun _ _ => rfl) (fun _ hq => hq) (fun q hq hn => absurd hq hn) hnd h
  refine ⟨(scan_best_eq (V := V) (cost := cost) bin (ls := s) (s := eager s)
      (fun _ _ => rfl) (fun _ hq => hq) (fun q hq hn => absurd hq hn) hnd h).symm, hmem, ?_, ?_,
    stale_le_rho_scan bin s hnd h⟩
  · exact (List.perm_ext_iff_of_nodup (tiedLazy_nodup bin hnd h)
      (tied_nodup (V := V) (cost := cost) (s := eager s) hnd)).mpr hmem
  · intro q hq
    obtain ⟨h1, h2⟩ := (scan_inv (V := V) (cost := cost) bin s hnd h).drop q hq
    exact ⟨mem_visit.mp h1, h2⟩

/-- the same against an eager state whose pool is larger by projects without a price (the shape
    the pools have along a run: the lazy run has removed them, the eager run keeps them) -/
theorem scan_eq_argmin_rel {V : VCtx} {cost : Pid → Rat} {B : Rat} {ls : LState} {s : State}
    (h : Rel V cost B ls s) (bin : Bool) :
    (scan V cost bin ls).best = MES.best V cost s ∧
      (∀ q, q ∈ tiedLazy V cost bin ls ↔ q ∈ MES.tied V cost s) ∧
      (tiedLazy V cost bin ls).Perm (MES.tied V cost s) :=
  ⟨(h.best_eq bin).symm, h.mem_tied bin, h.tied_perm bin⟩

/-! ### The bisimulation, explicitly -/

/-- what `Rel V cost B ls s` says -/
theorem rel_iff {V : VCtx} {cost : Pid → Rat} {B : Rat} {ls : LState} {s : State} :
    Rel V cost B ls s ↔
      (∀ i ∈ V.vs, ls.b i = s.b i) ∧ ls.alloc = s.alloc ∧
      (∀ q ∈ ls.pool, q ∈ s.pool) ∧ (∀ q ∈ s.pool, q ∉ ls.pool → rho V cost s.b q = none) ∧
      ls.pool.Nodup ∧ s.pool.Nodup ∧ Inv V cost B s ∧ Stale V cost ls :=
  ⟨fun h => ⟨h.bud, h.alloc, h.sub, h.gone, h.lnodup, h.nodup, h.inv, h.stale⟩,
   fun ⟨h1, h2, h3, h4, h5, h6, h7, h8⟩ => ⟨h1, h2, h3, h4, h5, h6, h7, h8⟩⟩

/-- it holds between the initial states -/
theorem rel_init (V : VCtx) (I : Inst) (init : List Pid) (b0 : Rat) (hb0 : 0 ≤ b0)
    (hm : ∀ i ∈ V.vs, 1 ≤ V.m i) (hproj : I.projects.Nodup)
    (hcost : ∀ p ∈ I.projects, 0 ≤ I.cost p) :
    Rel V I.cost (total V I init b0) (initStateL V I init b0) (initState V I init b0) :=
  MESLazy.rel_init V I init b0 hb0 hm hproj hcost

/-- related states return the same allocation and tie the same projects, and buying a tied project
    in both keeps them related -/
theorem rel_step {V : VCtx} {cost : Pid → Rat} {B : Rat} (hm : ∀ i ∈ V.vs, 1 ≤ V.m i)
    {ls : LState} {s : State} (h : Rel V cost B ls s) (bin : Bool) :
    (ruleLazy V cost bin).out ls = (rule V cost).out s ∧
      ((ruleLazy V cost bin).tied ls).Perm ((rule V cost).tied s) ∧
      ∀ t ∈ (rule V cost).tied s,
        Rel V cost B ((ruleLazy V cost bin).buy ls t) ((rule V cost).buy s t) :=
  ⟨h.alloc, h.tied_perm bin, fun _ ht => h.buy hm bin ht⟩

/-- the projects by which the pools differ are unaffordable now and for ever: with any smaller
    budgets they have no price either -/
theorem rel_gone_forever {V : VCtx} {cost : Pid → Rat} {B : Rat} (hm : ∀ i ∈ V.vs, 1 ≤ V.m i)
    {ls : LState} {s : State} (h : Rel V cost B ls s) {q : Pid} (hq : q ∈ s.pool)
    (hn : q ∉ ls.pool) (b' : Nat → Rat) (hb' : ∀ i ∈ V.vs, 0 ≤ b' i)
    (hle : ∀ i ∈ V.vs, b' i ≤ s.b i) : rho V cost b' q = none :=
  MESLazy.rho_none_mono ⟨h.inv.nonneg, hm⟩ ⟨hb', hm⟩ hle (h.inv.pool_pos q hq) (h.gone q hq hn)

/-! ### Whole runs -/

/-- **the lazy run is the eager run.**  For every tie-breaking function that only depends on the
    set of tied projects (invariant under permutation) and returns tied projects, shortcut on or
    off: the resolute lazy run returns exactly what `MES.run` returns (same allocation, same order,
    same error), and the irresolute lazy run returns exactly the canonical outcome list of
    `MES.runAll`. -/
theorem runLazy_eq_run (V : VCtx) (I : Inst) (init : List Pid) (bin : Bool)
    (hB : 0 ≤ I.budget) (hm : ∀ i ∈ V.vs, 1 ≤ V.m i) (hproj : I.projects.Nodup)
    (hcost : ∀ p ∈ I.projects, 0 ≤ I.cost p) (order : List Pid → Except Err (List Pid))
    (hperm : ∀ l₁ l₂ : List Pid, l₁.Perm l₂ → order l₁ = order l₂)
    (hmem : ∀ T l, order T = .ok l → ∀ x ∈ l, x ∈ T) :
    runLazy V I init order bin = MES.run V I init order ∧
      runAllLazy V I init order bin = MES.runAll V I init order :=
  runAtLazy_eq_runAt V I init bin _ (share_nonneg V I hB) hm hproj hcost order hperm hmem

/-- … in particular for every shipped tie-breaking rule (`Tie.order`, `refuse` included) -/
theorem runLazy_eq_run_tie (V : VCtx) (I : Inst) (init : List Pid) (bin : Bool)
    (hB : 0 ≤ I.budget) (hm : ∀ i ∈ V.vs, 1 ≤ V.m i) (hproj : I.projects.Nodup)
    (hcost : ∀ p ∈ I.projects, 0 ≤ I.cost p) (t : Tie) (score : Pid → Nat) :
    runLazy V I init (t.order I.cost score) bin = MES.run V I init (t.order I.cost score) ∧
      runAllLazy V I init (t.order I.cost score) bin = MES.runAll V I init (t.order I.cost score) :=
  runLazy_eq_run V I init bin hB hm hproj hcost _
    (fun _ _ h => Tie.order_perm_eq t I.cost score h) (Tie.order_mem t I.cost score)

/-- the same at any per-voter budget `b0 ≥ 0` -/
theorem runAtLazy_eq_runAt (V : VCtx) (I : Inst) (init : List Pid) (bin : Bool) (b0 : Rat)
    (hb0 : 0 ≤ b0) (hm : ∀ i ∈ V.vs, 1 ≤ V.m i) (hproj : I.projects.Nodup)
    (hcost : ∀ p ∈ I.projects, 0 ≤ I.cost p) (order : List Pid → Except Err (List Pid))
    (hperm : ∀ l₁ l₂ : List Pid, l₁.Perm l₂ → order l₁ = order l₂)
    (hmem : ∀ T l, order T = .ok l → ∀ x ∈ l, x ∈ T) :
    runAtLazy V I init order bin b0 = runAt V I init order b0 ∧
      runAllAtLazy V I init order bin b0 = runAllAt V I init order b0 :=
  MESLazy.runAtLazy_eq_runAt V I init bin b0 hb0 hm hproj hcost order hperm hmem

/-- … and for the iterated variant (`voter_budget_increment`), which restarts every iteration from
    the initial stored affordabilities -/
theorem iteratedLazy_eq_iterated (V : VCtx) (I : Inst) (init : List Pid) (bin : Bool)
    (hm : ∀ i ∈ V.vs, 1 ≤ V.m i) (hproj : I.projects.Nodup)
    (hcost : ∀ p ∈ I.projects, 0 ≤ I.cost p) (order : List Pid → Except Err (List Pid))
    (hperm : ∀ l₁ l₂ : List Pid, l₁.Perm l₂ → order l₁ = order l₂)
    (hmem : ∀ T l, order T = .ok l → ∀ x ∈ l, x ∈ T) (inc : Rat) (hinc : 0 ≤ inc)
    (fuel : Nat) (b0 : Rat) (hb0 : 0 ≤ b0) :
    (∀ prev, iteratedLazy V I init order bin inc fuel b0 prev =
        iterated V I init order inc fuel b0 prev) ∧
      (∀ prev, iteratedAllLazy V I init order bin inc fuel b0 prev =
        iteratedAll V I init order inc fuel b0 prev) :=
  MESLazy.iteratedLazy_eq_iterated V I init bin hm hproj hcost order hperm hmem inc hinc fuel b0 hb0

/-! ### The hypotheses are satisfiable, and the fast paths are really taken -/

/-- three voters; project 0 (cost 1) approved by all, project 1 (cost 1) by voter 0 only,
    project 2 (cost 10) by voter 2 only; budget 6, so everybody starts with 2 -/
def exV : VCtx :=
  ⟨[0, 1, 2], fun _ => 1, fun i p => if p = 0 ∨ (p = 1 ∧ i = 0) ∨ (p = 2 ∧ i = 2) then 1 else 0⟩
def exI : Inst := ⟨[0, 1, 2], fun p => if p = 2 then 10 else 1, 6⟩

/-- the input satisfies the hypotheses of `runLazy_eq_run` -/
example : 0 ≤ exI.budget ∧ (∀ i ∈ exV.vs, 1 ≤ exV.m i) ∧ exI.projects.Nodup ∧
    (∀ p ∈ exI.projects, 0 ≤ exI.cost p) := by
  refine ⟨by simp [exI], fun _ _ => le_refl _, by decide, ?_⟩
  intro p _
  simp only [exI]
  split <;> norm_num

/-- stored affordabilities 1/3, 1, 10: the first round prices project 0 at 1/3 and then BREAKS at
    project 1 (stored 1 > 1/3) although it is affordable — projects 1 and 2 are skipped -/
example : (scan exV exI.cost false (initStateL exV exI [] 2)).stopped = true ∧
    (scan exV exI.cost false (initStateL exV exI [] 2)).best = some (1/3) ∧
    tiedLazy exV exI.cost false (initStateL exV exI [] 2) = [0] ∧
    (scan exV exI.cost false (initStateL exV exI [] 2)).dropped = [] ∧
    visit (initStateL exV exI [] 2) = [0, 1, 2] ∧
    rho exV exI.cost (fun _ => 2) 1 = some 1 := by decide +kernel

/-- the second round prices project 1 and REMOVES project 2 from the pool for good -/
example : (scan exV exI.cost false (buyLazy exV exI.cost false (initStateL exV exI [] 2) 0)).dropped = [2] ∧
    tiedLazy exV exI.cost false (buyLazy exV exI.cost false (initStateL exV exI [] 2) 0) = [1] ∧
    (buyLazy exV exI.cost false (buyLazy exV exI.cost false (initStateL exV exI [] 2) 0) 1).pool = [] := by
  decide +kernel

/-- lazy and eager runs on it -/
example : runLazy exV exI [] (fun l => .ok l) false = .ok [0, 1] ∧
    runLazy exV exI [] (fun l => .ok l) true = .ok [0, 1] ∧
    MES.run exV exI [] (fun l => .ok l) = .ok [0, 1] := by decide +kernel

/-- two voters with cardinal satisfaction 2 for what they support -/
def exV2 : VCtx := ⟨[0, 1], fun _ => 1, fun i p => if p = 0 ∨ (p = 1 ∧ i = 0) then 2 else 0⟩
def exI2 : Inst := ⟨[0, 1], fun p => if p = 0 then 3 else 1, 4⟩

/-- the shortcut applies to both projects; with voter 1 too poor the sweep goes past the first
    supporter; the stored value 3/4 is strictly below the true price 1 (the invariant is not an
    equality) -/
example : allSame exV2 0 = true ∧ allSame exV2 1 = true ∧
    rhoBinary exV2 exI2.cost (fun i => if i = 0 then 2 else 1) 0 = some 1 ∧
    rho exV2 exI2.cost (fun i => if i = 0 then 2 else 1) 0 = some 1 ∧
    initAff exV2 exI2 0 = 3/4 := by decide +kernel

example : runLazy exV2 exI2 [] (fun l => .ok l) true = MES.run exV2 exI2 [] (fun l => .ok l) ∧
    runAllLazy exV2 exI2 [] (fun l => .ok l) true = MES.runAll exV2 exI2 [] (fun l => .ok l) ∧
    MES.run exV2 exI2 [] (fun l => .ok l) = .ok [1, 0] := by decide +kernel

end Pabu.C02Lazy
