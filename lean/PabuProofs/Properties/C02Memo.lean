/-
  C02 (the `budget / sat` memo of `MESVoter`) — the last fast path of Equal Shares that was tied by correspondence only.

  * `calls_transparent`   a memo whose key DETERMINES the arguments (`keyOf` injective — e.g. the key is the pair of all arguments)
                          is invisible: every call of every call sequence returns `f args`, whatever the table held before as long as
                          it was filled by the memo itself (`Sound`);
  * `mesVoter_memo`       instantiated with the regenerated key `(proj, self.budget)` (`Gen.C02.cacheLookupKey`, `cacheStoreKey`, the
                          same expression at both sites): along any sequence of (project, budget) requests of one voter the value
                          returned is `budget / sat(project)`, the sort key the supporter sweep of the model uses;
  * `project_only_key_stale`, `budget_only_key_stale`   keyed by the project alone (seeded change C01-r3A) or by the budget alone
                          (C02-A) the second request returns the first request's ratio — kernel-checked.
-/
import PabuModel.Memo
import Gen.C02
import Mathlib.Tactic.NormNum
import Mathlib.Algebra.Order.Field.Rat
namespace Pabu
namespace Memo

set_option linter.unusedSectionVars false
variable {α κ β : Type} [DecidableEq κ]

/-- every entry of the table was computed by `f` from arguments with that key -/
def Sound (keyOf : α → κ) (f : α → β) (t : Table κ β) : Prop :=
  ∀ e ∈ t, ∃ a, keyOf a = e.1 ∧ f a = e.2

theorem lookup_some {t : Table κ β} {k : κ} {v : β} (h : lookup t k = some v) : (k, v) ∈ t := by
  unfold lookup at h
  cases hf : t.find? (fun e => decide (e.1 = k)) with
  | none => rw [hf] at h; cases h
  | some e =>
    rw [hf] at h
    injection h with h
    have hk : e.1 = k := of_decide_eq_true (List.find?_some (p := fun (e : κ × β) => decide (e.1 = k)) hf)
    have hm := List.mem_of_find?_eq_some hf
    rw [← hk, ← h]
    exact hm

theorem call_spec {keyOf : α → κ} {f : α → β} (hinj : Function.Injective keyOf) {t : Table κ β}
    (ht : Sound keyOf f t) (a : α) : (call keyOf f t a).1 = f a ∧ Sound keyOf f (call keyOf f t a).2 := by
  unfold call
  cases hl : lookup t (keyOf a) with
  | some v =>
    obtain ⟨a', hk, hv⟩ := ht _ (lookup_some hl)
    have : a' = a := hinj hk
    subst this
    exact ⟨hv.symm, ht⟩
  | none =>
    refine ⟨rfl, ?_⟩
    intro e he
    rcases List.mem_cons.1 he with he | he
    · exact ⟨a, by rw [he], by rw [he]⟩
    · exact ht e he

/-- a memo under an injective key is transparent along every call sequence -/
theorem calls_transparent {keyOf : α → κ} {f : α → β} (hinj : Function.Injective keyOf) :
    ∀ (as : List α) (t : Table κ β), Sound keyOf f t → calls keyOf f t as = as.map f
  | [], _, _ => rfl
  | a :: as, t, ht => by
    obtain ⟨h1, h2⟩ := call_spec hinj ht a
    rw [calls, List.map_cons, h1, calls_transparent hinj as _ h2]

theorem sound_nil (keyOf : α → κ) (f : α → β) : Sound keyOf f ([] : Table κ β) := fun _ h => by cases h

/-- the key the library uses (regenerated from the source): the pair of both arguments, at the lookup and at the store alike -/
def mesKey (a : Pid × Rat) : Rat × Rat := Gen.C02.cacheLookupKey ((a.1 : Nat) : Rat) a.2

theorem mesKey_store (a : Pid × Rat) : Gen.C02.cacheStoreKey ((a.1 : Nat) : Rat) a.2 = mesKey a := rfl

theorem mesKey_injective : Function.Injective mesKey := by
  intro a b h
  unfold mesKey Gen.C02.cacheLookupKey at h
  injection h with h1 h2
  have : a.1 = b.1 := Nat.cast_injective h1
  exact Prod.ext this h2

/-- `MESVoter.budget_over_sat_project` along any sequence of requests (the budget changes between them, the table is kept):
    always `budget / sat(project)` -/
theorem mesVoter_memo (u : Pid → Rat) (requests : List (Pid × Rat)) :
    calls mesKey (budgetOverSat u) [] requests = requests.map (fun a => a.2 / u a.1) :=
  calls_transparent mesKey_injective requests [] (sound_nil _ _)

/-- keyed by the project alone: after the voter has paid (budget 4 → 1) the ratio of the first request comes back -/
theorem project_only_key_stale :
    calls (fun a : Pid × Rat => a.1) (budgetOverSat (fun _ => 2)) [] [(0, 4), (0, 1)] = [2, 2] ∧
    ([(0, 4), (0, 1)] : List (Pid × Rat)).map (budgetOverSat (fun _ => 2)) = [2, 1 / 2] := by
  constructor <;> decide +kernel

/-- keyed by the budget alone: the ratio computed for the first project is returned for every other project -/
theorem budget_only_key_stale :
    calls (fun a : Pid × Rat => a.2) (budgetOverSat (fun p => if p = 0 then 1 else 3)) [] [(0, 3), (1, 3)] = [3, 3] ∧
    ([(0, 3), (1, 3)] : List (Pid × Rat)).map (budgetOverSat (fun p => if p = 0 then 1 else 3)) = [3, 1] := by
  constructor <;> decide +kernel

end Memo
end Pabu
