/-
  C02 — the Method of Equal Shares selects exactly what its definition prescribes (model side).
  Only property theorems and satisfiability examples; proofs are in PabuProofs/Lemmas/MES.lean.
-/
import PabuProofs.Lemmas.MES
namespace Pabu.C02
open Pabu Pabu.MES

/-! ### The supporter sweep computes the textbook price -/

/-- the sweep over supporters sorted by `b/u` returns a price at which the supporters, each copy
    paying `min(b, ρ·u)`, cover the cost exactly -/
theorem sweep_exact (l : List Sup) (C D : Rat) (hw : ∀ s ∈ l, s.WF) (hsort : SortedRatio l)
    (hC : 0 < C) (haff : C ≤ budSum l) (hD : D = utilSum l) :
    ∃ rho, sweep C D l = some rho ∧ paySum rho l = C :=
  Pabu.sweep_exact l C D hw hsort hC haff hD

/-- … and it is positive and the least price at which they cover the cost -/
theorem sweep_least (l : List Sup) (C D : Rat) (hw : ∀ s ∈ l, s.WF) (hsort : SortedRatio l)
    (hC : 0 < C) (haff : C ≤ budSum l) (hD : D = utilSum l) :
    ∃ rho, sweep C D l = some rho ∧ paySum rho l = C ∧ 0 < rho ∧
      ∀ rho', C ≤ paySum rho' l → rho ≤ rho' :=
  Pabu.sweep_least l C D hw hsort hC haff hD

/-- the sort used before the sweep yields a permutation of the supporters sorted by `b/u`;
    the three sums do not depend on the order -/
theorem sort_sorted_perm (l : List Sup) (hw : ∀ s ∈ l, s.WF) :
    SortedRatio (sortLe ratioLe l) ∧ (sortLe ratioLe l).Perm l ∧
      (∀ r, paySum r (sortLe ratioLe l) = paySum r l) ∧
      budSum (sortLe ratioLe l) = budSum l ∧ utilSum (sortLe ratioLe l) = utilSum l :=
  ⟨sortLe_ratioLe_sorted l hw, sortLe_ratioLe_perm l,
   fun r => paySum_perm r (sortLe_ratioLe_perm l), budSum_perm (sortLe_ratioLe_perm l),
   utilSum_perm (sortLe_ratioLe_perm l)⟩

/-- the price of a project: its supporters cover the cost exactly, it is positive, and no smaller
    price covers the cost -/
theorem rho_exact_least {V : VCtx} {cost : Pid → Rat} {b : Nat → Rat} {p : Pid} {r : Rat}
    (hb : ∀ i ∈ V.vs, 0 ≤ b i) (hm : ∀ i ∈ V.vs, 1 ≤ V.m i) (hc : 0 < cost p)
    (hr : rho V cost b p = some r) :
    paySum r (sups V b p) = cost p ∧ 0 < r ∧ ∀ r', cost p ≤ paySum r' (sups V b p) → r ≤ r' :=
  rho_spec ⟨hb, hm⟩ hc hr

/-- a project has no price exactly when its supporters together hold less than its cost -/
theorem rho_none_iff {V : VCtx} {cost : Pid → Rat} {b : Nat → Rat} {p : Pid}
    (hb : ∀ i ∈ V.vs, 0 ≤ b i) (hm : ∀ i ∈ V.vs, 1 ≤ V.m i) (hc : 0 < cost p) :
    rho V cost b p = none ↔ budSum (sups V b p) < cost p :=
  MES.rho_none_iff ⟨hb, hm⟩ hc

/-! ### A round buys a project of least price; the run stops when nothing is affordable -/

/-- the projects tied in a round are exactly the pool projects with a price that no pool project
    undercuts -/
theorem tied_argmin {V : VCtx} {cost : Pid → Rat} {s : State} {t : Pid} :
    t ∈ tied V cost s ↔ t ∈ s.pool ∧ ∃ r, rho V cost s.b t = some r ∧
      ∀ q ∈ s.pool, ∀ r', rho V cost s.b q = some r' → r ≤ r' :=
  mem_tied_iff

/-- nothing is tied exactly when no pool project has a price -/
theorem tied_nil_iff {V : VCtx} {cost : Pid → Rat} {s : State} :
    tied V cost s = [] ↔ ∀ p ∈ s.pool, rho V cost s.b p = none :=
  MES.tied_nil_iff

/-- a successful resolute run (`method_of_equal_shares`, plain) is a run of the textbook
    procedure: there is a record `L` of rounds, each buying a tied project at the least price,
    from the initial state (everybody holds budget/n, supported zero-cost projects included) to a
    state whose allocation is the result; if the tie-breaking never returns an empty list, no
    remaining project has a price in that state -/
theorem run_textbook {V : VCtx} {I : Inst} {init : List Pid}
    {order : List Pid → Except Err (List Pid)}
    (hord : ∀ T l, order T = .ok l → ∀ x ∈ l, x ∈ T) {W : List Pid}
    (hW : MES.run V I init order = .ok W) :
    ∃ L s', Recorded V I.cost (initState V I init (I.budget / (numVoters V : Nat))) L s' ∧
      W = s'.alloc ∧
      W = init ++ zeroCost V I init ++ L.filterMap (fun it => it.selected) ∧
      ((∀ T, T ≠ [] → order T ≠ .ok []) → ∀ p ∈ s'.pool, rho V I.cost s'.b p = none) := by
  obtain ⟨L, s', _, hrec, hWa, hstop⟩ := runAt_recorded hord hW
  exact ⟨L, s', hrec, hWa, by rw [hWa, hrec.alloc]; rfl, hstop⟩

/-! ### Outcomes are feasible sets of projects -/

/-- every outcome of the pure resolute run: cost within budget (plus the initial projects),
    contains the initial projects, no repeats, only projects of the instance -/
theorem runP_outcome {V : VCtx} {I : Inst} {init : List Pid} (h : InputOK V I init)
    (hB : 0 ≤ I.budget) (ord : List Pid → List Pid) (hord : ∀ T, ∀ x ∈ ord T, x ∈ T) (n : Nat) :
    let W := (rule V I.cost).runP ord n (initState V I init (I.budget / (numVoters V : Nat)))
    costOf I.cost W ≤ I.budget + costOf I.cost init ∧
      (∀ p ∈ init, p ∈ W) ∧ W.Nodup ∧ ∀ p ∈ W, p ∈ I.projects := by
  intro W
  obtain ⟨h1, h2⟩ := runP_bounds h ord hord _ (share_nonneg V I hB) n
  exact ⟨le_trans h1 (by have := share_le_budget (numVoters V) I.budget hB; linarith), h2⟩

/-- the same for every outcome of the pure irresolute run -/
theorem runAllP_outcome {V : VCtx} {I : Inst} {init : List Pid} (h : InputOK V I init)
    (hB : 0 ≤ I.budget) (n : Nat) :
    ∀ W ∈ (rule V I.cost).runAllP n (initState V I init (I.budget / (numVoters V : Nat))),
    costOf I.cost W ≤ I.budget + costOf I.cost init ∧
      (∀ p ∈ init, p ∈ W) ∧ W.Nodup ∧ ∀ p ∈ W, p ∈ I.projects := by
  intro W hW
  obtain ⟨h1, h2⟩ := runAllP_bounds h _ (share_nonneg V I hB) n W hW
  exact ⟨le_trans h1 (by have := share_le_budget (numVoters V) I.budget hB; linarith), h2⟩

/-- the same for the `Except`-valued run executed by the driver, for any order function that
    returns elements of its argument (it may fail) -/
theorem run_outcome {V : VCtx} {I : Inst} {init : List Pid} (h : InputOK V I init)
    (hB : 0 ≤ I.budget) {order : List Pid → Except Err (List Pid)}
    (hord : ∀ T l, order T = .ok l → ∀ x ∈ l, x ∈ T) {W : List Pid}
    (hW : MES.run V I init order = .ok W) :
    costOf I.cost W ≤ I.budget + costOf I.cost init ∧
      (∀ p ∈ init, p ∈ W) ∧ W.Nodup ∧ ∀ p ∈ W, p ∈ I.projects := by
  obtain ⟨h1, h2⟩ := runAt_bounds h hord (share_nonneg V I hB) hW
  exact ⟨le_trans h1 (by have := share_le_budget (numVoters V) I.budget hB; linarith), h2⟩

theorem runAll_outcome {V : VCtx} {I : Inst} {init : List Pid} (h : InputOK V I init)
    (hB : 0 ≤ I.budget) {order : List Pid → Except Err (List Pid)}
    (hord : ∀ T l, order T = .ok l → ∀ x ∈ l, x ∈ T) {Ws : List (List Pid)}
    (hWs : MES.runAll V I init order = .ok Ws) :
    ∀ W ∈ Ws, costOf I.cost W ≤ I.budget + costOf I.cost init ∧
      (∀ p ∈ init, p ∈ W) ∧ W.Nodup ∧ ∀ p ∈ W, p ∈ I.projects := by
  intro W hW
  obtain ⟨h1, h2⟩ := runAllAt_bounds h hord (share_nonneg V I hB) hWs W hW
  exact ⟨le_trans h1 (by have := share_le_budget (numVoters V) I.budget hB; linarith), h2⟩

/-- with a tie-breaking rule that never fails, the driver's resolute run is the pure run -/
theorem run_eq_runP (V : VCtx) (I : Inst) (init : List Pid) (ord : List Pid → List Pid) :
    MES.run V I init (fun l => .ok (ord l)) =
      .ok ((rule V I.cost).runP (ordIfTie ord) (initPool V I init).length
        (initState V I init (I.budget / (numVoters V : Nat)))) :=
  runAt_eq_runP V I init ord _

/-! ### The hypotheses are satisfiable on non-trivial inputs -/

/-- two supporters with different ratios and multiplicities: sorted, well-formed, affordable -/
example : let l : List Sup := [⟨1, 2, 1⟩, ⟨3, 1, 2⟩]
    (∀ s ∈ l, s.WF) ∧ SortedRatio l ∧ (0:Rat) < 5 ∧ (5:Rat) ≤ budSum l := by
  intro l
  refine ⟨?_, ?_, by norm_num, ?_⟩
  · intro s hs
    simp only [l, List.mem_cons, List.not_mem_nil, or_false] at hs
    rcases hs with rfl | rfl <;> (unfold Sup.WF; norm_num)
  · unfold SortedRatio; simp only [l]
    refine List.pairwise_cons.mpr ⟨?_, by simp⟩
    intro t ht
    simp only [List.mem_cons, List.not_mem_nil, or_false] at ht
    subst ht; norm_num
  · simp only [l, budSum]; norm_num

/-- … and on it the sweep skips the poor supporter and returns the price 2, which covers 5 exactly -/
example : sweep 5 (utilSum [⟨1, 2, 1⟩, ⟨3, 1, 2⟩]) [⟨1, 2, 1⟩, ⟨3, 1, 2⟩] = some 2 ∧
    paySum 2 [⟨1, 2, 1⟩, ⟨3, 1, 2⟩] = 5 := by
  constructor
  · norm_num [sweep, utilSum]
  · norm_num [paySum]

def exV : VCtx := ⟨[0, 1, 2], fun i => i + 1, fun i p => if (i + p) % 2 = 0 then 1 else 0⟩
def exI : Inst := ⟨[0, 1, 2, 3], fun p => (p : Rat), 6⟩

/-- three voter entries with multiplicities 1,2,3, four projects (one of cost 0), one initial -/
example : InputOK exV exI [3] ∧ 0 ≤ exI.budget ∧
    (∀ T l, (fun l => (Except.ok l : Except Err (List Pid))) T = .ok l → ∀ x ∈ l, x ∈ T) := by
  refine ⟨⟨?_, by decide, by decide, by decide, ?_⟩, by simp [exI], ?_⟩
  · intro i _; simp [exV]
  · intro p _; simp [exI]
  · intro T l h x hx; cases h; exact hx

/-- on this input the run buys two projects after the initial and the zero-cost one -/
example : MES.run exV exI [3] (fun l => .ok l) = .ok [3, 0, 1, 2] := by decide +kernel

end Pabu.C02
