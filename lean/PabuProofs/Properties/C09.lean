/-
  C09 — exhaustion wrappers stay feasible, extend their base rule and stop correctly.

  Models: `Exhaustion.budgetIncrease` / `budgetIncreaseAll` (`exhaustion_by_budget_increase`),
  `Exhaustion.completion` / `completionAll` (`completion_by_rule_combination`) over an ARBITRARY base rule,
  and `MES.iterated` / `MES.iteratedAll` (iterated Method of Equal Shares).

  * `budgetIncrease_result` (+ converse `budgetIncrease_complete`): the result is the rule's outcome at the
    first try whose outcome is feasible and (`exhaustive_stop` and) exhaustive, or else the outcome of the
    try before the first infeasible one / before the budget bound is exceeded.
  * `budgetIncrease_feasible`: the result is feasible for the original instance.
  * `budgetIncrease_terminates`, `budgetIncrease_no_fuel_error`, `budgetIncrease_terminates_pos_step`:
    with a positive step the loop ends; `budgetIncrease_nonpositive_step_diverges`: with `step ≤ 0`,
    `exhaustive_stop = False` and an always-feasible rule EVERY fuel runs out (the Python loop does not
    terminate there).
  * the same for `budgetIncreaseAll`, `MES.iterated`, `MES.iteratedAll`
    (unconditional termination of the iterated Equal Shares: `Properties/C09Termination.lean`).
  * `completion_extends/_feasible/_exhaustive/_extends_first`, `completionAll_keeps_all/_covers/_feasible/
    _exhaustive`.

  The generic loop lemmas are in `PabuProofs/Lemmas/Wrappers.lean`.
-/
import PabuProofs.Lemmas.Wrappers
import Mathlib.Tactic.NormNum
import Mathlib.Tactic.IntervalCases

namespace Pabu
namespace C09
open Exhaustion Wrap

/-! ### W1–W3: `exhaustion_by_budget_increase`, resolute -/

section resolute
variable {rule : Rat → Except Err (List Pid)} {feas exh : List Pid → Bool} {stop : Bool}
  {step bound : Rat}

/-- W1. Characterisation of the result.  `r k` is the base rule's outcome at budget `B + k·step`
    (only needed for tries made: `k < fuel`, budget within the bound). -/
theorem budgetIncrease_result {fuel : Nat} {B : Rat} {prev₀ W : List Pid} {r : Nat → List Pid}
    (hr : ∀ k : Nat, k < fuel → B + k * step ≤ bound → rule (B + k * step) = .ok (r k))
    (h : budgetIncrease rule feas exh stop step bound fuel B prev₀ = .ok W) :
    ∃ k, k < fuel ∧
      (∀ j, j < k → B + j * step ≤ bound ∧ feas (r j) = true ∧ ¬ (stop = true ∧ exh (r j) = true)) ∧
      ((B + k * step ≤ bound ∧ feas (r k) = true ∧ (stop = true ∧ exh (r k) = true) ∧ W = r k) ∨
       (B + k * step ≤ bound ∧ feas (r k) = false ∧ W = prevOutcome prev₀ r k) ∨
       (bound < B + k * step ∧ W = prevOutcome prev₀ r k)) := by
  rw [budgetIncrease_eq_loop] at h
  obtain ⟨k, hk, hall, hstop⟩ := loop_result fuel B prev₀ W r
    (fun k hk ho => hr k hk (by simpa using ho)) h
  refine ⟨k, hk, ?_, ?_⟩
  · intro j hj
    have := hall j hj
    simpa [Continues] using this
  · simpa [StopsAt] using hstop

/-- converse of W1: a try `k < fuel` with these properties determines the result -/
theorem budgetIncrease_complete {fuel k : Nat} {B : Rat} {prev₀ W : List Pid} {r : Nat → List Pid}
    (hr : ∀ j : Nat, j ≤ k → B + j * step ≤ bound → rule (B + j * step) = .ok (r j))
    (hk : k < fuel)
    (hall : ∀ j, j < k → B + j * step ≤ bound ∧ feas (r j) = true ∧ ¬ (stop = true ∧ exh (r j) = true))
    (hstop : (B + k * step ≤ bound ∧ feas (r k) = true ∧ (stop = true ∧ exh (r k) = true) ∧ W = r k) ∨
       (B + k * step ≤ bound ∧ feas (r k) = false ∧ W = prevOutcome prev₀ r k) ∨
       (bound < B + k * step ∧ W = prevOutcome prev₀ r k)) :
    budgetIncrease rule feas exh stop step bound fuel B prev₀ = .ok W := by
  rw [budgetIncrease_eq_loop]
  apply loop_complete k fuel B prev₀ W r (fun j hj ho => hr j hj (by simpa using ho)) hk
  · intro j hj
    have := hall j hj
    simpa [Continues] using this
  · simpa [StopsAt] using hstop

/-- W2. The result is feasible (w.r.t. the ORIGINAL instance) whenever the initial allocation is. -/
theorem budgetIncrease_feasible {fuel : Nat} {B : Rat} {prev₀ W : List Pid}
    (hprev : feas prev₀ = true)
    (h : budgetIncrease rule feas exh stop step bound fuel B prev₀ = .ok W) : feas W = true := by
  rw [budgetIncrease_eq_loop] at h
  exact loop_inv (fun W => feas W = true) (fun c W _ hb => by simpa using hb) fuel B prev₀ W hprev h

/-- more generally any property of the initial allocation shared by all feasible outcomes of the rule -/
theorem budgetIncrease_inv (P : List Pid → Prop) {fuel : Nat} {B : Rat} {prev₀ W : List Pid}
    (hrule : ∀ c W, rule c = .ok W → feas W = true → P W) (hprev : P prev₀)
    (h : budgetIncrease rule feas exh stop step bound fuel B prev₀ = .ok W) : P W := by
  rw [budgetIncrease_eq_loop] at h
  exact loop_inv P (fun c W hr hb => hrule c W hr (by simpa using hb)) fuel B prev₀ W hprev h

/-- W3. If `N` steps pass the bound and the rule always returns an outcome, fuel `> N` gives a result. -/
theorem budgetIncrease_terminates {fuel N : Nat} {B : Rat} {prev₀ : List Pid}
    (hrule : ∀ c, ∃ W, rule c = .ok W) (hN : bound < B + N * step) (hf : N < fuel) :
    ∃ W, budgetIncrease rule feas exh stop step bound fuel B prev₀ = .ok W := by
  rw [budgetIncrease_eq_loop]
  exact loop_stops N fuel B prev₀ (fun k => (hrule (B + k * step)).choose)
    (fun j _ _ => (hrule (B + j * step)).choose_spec) hf (Or.inl (by simpa using hN))

/-- W3. … and whatever the rule does, an error of the wrapper is then an error of the rule itself:
    the wrapper never runs out of fuel on its own. -/
theorem budgetIncrease_no_fuel_error {fuel N : Nat} {B : Rat} {prev₀ : List Pid}
    (hrule : ∀ c, rule c ≠ .error .fuel) (hN : bound < B + N * step) (hf : N < fuel) :
    budgetIncrease rule feas exh stop step bound fuel B prev₀ ≠ .error .fuel := by
  rw [budgetIncrease_eq_loop]
  intro h
  obtain ⟨k, _, hk⟩ := loop_error N fuel B prev₀ .fuel hf (by simpa using hN) h
  exact hrule _ hk

/-- W3. With a positive step such an `N` exists (`⌈(bound − B)/step⌉ + 1` will do). -/
theorem budgetIncrease_terminates_pos_step (hs : 0 < step) (hrule : ∀ c, ∃ W, rule c = .ok W)
    (B : Rat) (prev₀ : List Pid) :
    ∃ N : Nat, ∀ fuel, N < fuel → ∃ W, budgetIncrease rule feas exh stop step bound fuel B prev₀ = .ok W := by
  obtain ⟨N, hN⟩ := exists_steps_past_bound B bound step hs
  exact ⟨N, fun fuel hf => budgetIncrease_terminates hrule hN hf⟩

/-- FINDING (excluded from the property by `0 < step`): with a non-positive step, `exhaustive_stop = False`,
    a rule whose outcomes are always feasible and `B ≤ bound`, no amount of fuel suffices — the Python
    `while` loop never ends. -/
theorem budgetIncrease_nonpositive_step_diverges (hs : step ≤ 0) {B : Rat} (hB : B ≤ bound)
    (hrule : ∀ c, ∃ W, rule c = .ok W ∧ feas W = true) (fuel : Nat) (prev₀ : List Pid) :
    budgetIncrease rule feas exh false step bound fuel B prev₀ = .error .fuel := by
  rw [budgetIncrease_eq_loop]
  apply loop_diverges
  intro k
  have hk : B + (k : Rat) * step ≤ bound := by
    have : (k : Rat) * step ≤ 0 := mul_nonpos_of_nonneg_of_nonpos (Nat.cast_nonneg k) hs
    linarith
  obtain ⟨W, hW, hf⟩ := hrule (B + k * step)
  exact ⟨by simpa using hk, W, hW, by simp [hf], by simp⟩

end resolute

/-! ### W4: `exhaustion_by_budget_increase`, irresolute -/

section irresolute
variable {rule : Rat → Except Err (List (List Pid))} {feas exh : List Pid → Bool} {stop : Bool}
  {step bound : Rat}

theorem budgetIncreaseAll_result {fuel : Nat} {B : Rat} {prev₀ Ws : List (List Pid)} {r : Nat → List (List Pid)}
    (hr : ∀ k : Nat, k < fuel → B + k * step ≤ bound → rule (B + k * step) = .ok (r k))
    (h : budgetIncreaseAll rule feas exh stop step bound fuel B prev₀ = .ok Ws) :
    ∃ k, k < fuel ∧
      (∀ j, j < k → B + j * step ≤ bound ∧ (∀ W ∈ r j, feas W = true) ∧
        ¬ (stop = true ∧ ∃ W ∈ r j, exh W = true)) ∧
      ((B + k * step ≤ bound ∧ (∀ W ∈ r k, feas W = true) ∧ (stop = true ∧ ∃ W ∈ r k, exh W = true) ∧ Ws = r k) ∨
       (B + k * step ≤ bound ∧ (∃ W ∈ r k, feas W = false) ∧ Ws = prevOutcome prev₀ r k) ∨
       (bound < B + k * step ∧ Ws = prevOutcome prev₀ r k)) := by
  rw [budgetIncreaseAll_eq_loop] at h
  obtain ⟨k, hk, hall, hstop⟩ := loop_result fuel B prev₀ Ws r
    (fun k hk ho => hr k hk (by simpa using ho)) h
  refine ⟨k, hk, ?_, ?_⟩
  · intro j hj
    have := hall j hj
    simpa [Continues] using this
  · simpa [StopsAt] using hstop

theorem budgetIncreaseAll_complete {fuel k : Nat} {B : Rat} {prev₀ Ws : List (List Pid)} {r : Nat → List (List Pid)}
    (hr : ∀ j : Nat, j ≤ k → B + j * step ≤ bound → rule (B + j * step) = .ok (r j))
    (hk : k < fuel)
    (hall : ∀ j, j < k → B + j * step ≤ bound ∧ (∀ W ∈ r j, feas W = true) ∧
        ¬ (stop = true ∧ ∃ W ∈ r j, exh W = true))
    (hstop : (B + k * step ≤ bound ∧ (∀ W ∈ r k, feas W = true) ∧ (stop = true ∧ ∃ W ∈ r k, exh W = true) ∧ Ws = r k) ∨
       (B + k * step ≤ bound ∧ (∃ W ∈ r k, feas W = false) ∧ Ws = prevOutcome prev₀ r k) ∨
       (bound < B + k * step ∧ Ws = prevOutcome prev₀ r k)) :
    budgetIncreaseAll rule feas exh stop step bound fuel B prev₀ = .ok Ws := by
  rw [budgetIncreaseAll_eq_loop]
  apply loop_complete k fuel B prev₀ Ws r (fun j hj ho => hr j hj (by simpa using ho)) hk
  · intro j hj
    have := hall j hj
    simpa [Continues] using this
  · simpa [StopsAt] using hstop

theorem budgetIncreaseAll_feasible {fuel : Nat} {B : Rat} {prev₀ Ws : List (List Pid)}
    (hprev : ∀ W ∈ prev₀, feas W = true)
    (h : budgetIncreaseAll rule feas exh stop step bound fuel B prev₀ = .ok Ws) : ∀ W ∈ Ws, feas W = true := by
  rw [budgetIncreaseAll_eq_loop] at h
  exact loop_inv (fun Ws => ∀ W ∈ Ws, feas W = true) (fun c W _ hb => by simpa using hb) fuel B prev₀ Ws hprev h

theorem budgetIncreaseAll_terminates {fuel N : Nat} {B : Rat} {prev₀ : List (List Pid)}
    (hrule : ∀ c, ∃ W, rule c = .ok W) (hN : bound < B + N * step) (hf : N < fuel) :
    ∃ Ws, budgetIncreaseAll rule feas exh stop step bound fuel B prev₀ = .ok Ws := by
  rw [budgetIncreaseAll_eq_loop]
  exact loop_stops N fuel B prev₀ (fun k => (hrule (B + k * step)).choose)
    (fun j _ _ => (hrule (B + j * step)).choose_spec) hf (Or.inl (by simpa using hN))

theorem budgetIncreaseAll_no_fuel_error {fuel N : Nat} {B : Rat} {prev₀ : List (List Pid)}
    (hrule : ∀ c, rule c ≠ .error .fuel) (hN : bound < B + N * step) (hf : N < fuel) :
    budgetIncreaseAll rule feas exh stop step bound fuel B prev₀ ≠ .error .fuel := by
  rw [budgetIncreaseAll_eq_loop]
  intro h
  obtain ⟨k, _, hk⟩ := loop_error N fuel B prev₀ .fuel hf (by simpa using hN) h
  exact hrule _ hk

theorem budgetIncreaseAll_terminates_pos_step (hs : 0 < step) (hrule : ∀ c, ∃ W, rule c = .ok W)
    (B : Rat) (prev₀ : List (List Pid)) :
    ∃ N : Nat, ∀ fuel, N < fuel →
      ∃ Ws, budgetIncreaseAll rule feas exh stop step bound fuel B prev₀ = .ok Ws := by
  obtain ⟨N, hN⟩ := exists_steps_past_bound B bound step hs
  exact ⟨N, fun fuel hf => budgetIncreaseAll_terminates hrule hN hf⟩

theorem budgetIncreaseAll_nonpositive_step_diverges (hs : step ≤ 0) {B : Rat} (hB : B ≤ bound)
    (hrule : ∀ c, ∃ Ws, rule c = .ok Ws ∧ ∀ W ∈ Ws, feas W = true) (fuel : Nat) (prev₀ : List (List Pid)) :
    budgetIncreaseAll rule feas exh false step bound fuel B prev₀ = .error .fuel := by
  rw [budgetIncreaseAll_eq_loop]
  apply loop_diverges
  intro k
  have hk : B + (k : Rat) * step ≤ bound := by
    have : (k : Rat) * step ≤ 0 := mul_nonpos_of_nonneg_of_nonpos (Nat.cast_nonneg k) hs
    linarith
  obtain ⟨Ws, hW, hf⟩ := hrule (B + k * step)
  exact ⟨by simpa using hk, Ws, hW, by simpa using hf, by simp⟩

end irresolute

/-! ### W5: `completion_by_rule_combination`, resolute -/

section completion
variable {exh : List Pid → Bool}

/-- a property preserved by every rule of the sequence is passed from the initial allocation to the result -/
theorem completion_inv (P : List Pid → Prop) :
    ∀ (rules : List (List Pid → Except Err (List Pid))) (init W : List Pid),
    (∀ r ∈ rules, ∀ cur W, P cur → r cur = .ok W → P W) → P init →
    completion exh rules init = .ok W → P W := by
  intro rules
  induction rules with
  | nil =>
    intro init W _ hp h
    rw [completion] at h
    simp only [Except.ok.injEq] at h
    exact h ▸ hp
  | cons r rs ih =>
    intro init W hrules hp h
    rw [completion] at h
    cases hr : r init with
    | error e => rw [hr] at h; simp at h
    | ok W' =>
      rw [hr] at h
      simp only at h
      have hp' : P W' := hrules r (by simp) init W' hp hr
      by_cases he : exh W' = true
      · rw [if_pos he] at h
        simp only [Except.ok.injEq] at h
        exact h ▸ hp'
      · rw [if_neg he] at h
        exact ih W' W (fun r' hr' => hrules r' (List.mem_cons_of_mem _ hr')) hp' h

/-- the result contains the initial allocation when every rule extends what it is started from -/
theorem completion_extends {rules : List (List Pid → Except Err (List Pid))} {init W : List Pid}
    (hext : ∀ r ∈ rules, ∀ cur W, r cur = .ok W → ∀ x ∈ cur, x ∈ W)
    (h : completion exh rules init = .ok W) : ∀ x ∈ init, x ∈ W :=
  completion_inv (fun W => ∀ x ∈ init, x ∈ W) rules init W
    (fun r hr cur W' hp hW x hx => hext r hr cur W' hW x (hp x hx)) (fun _ hx => hx) h

/-- the result is feasible when every rule, started from a feasible allocation, returns a feasible one -/
theorem completion_feasible {feas : List Pid → Bool} {rules : List (List Pid → Except Err (List Pid))}
    {init W : List Pid}
    (hfeas : ∀ r ∈ rules, ∀ cur W, feas cur = true → r cur = .ok W → feas W = true)
    (hinit : feas init = true)
    (h : completion exh rules init = .ok W) : feas W = true :=
  completion_inv (fun W => feas W = true) rules init W hfeas hinit h

/-- the result is exhaustive when the last rule of a non-empty sequence only returns exhaustive outcomes -/
theorem completion_exhaustive :
    ∀ (rules : List (List Pid → Except Err (List Pid))) (hne : rules ≠ []) (init W : List Pid),
    (∀ cur W, rules.getLast hne cur = .ok W → exh W = true) →
    completion exh rules init = .ok W → exh W = true := by
  intro rules
  induction rules with
  | nil => intro hne; exact absurd rfl hne
  | cons r rs ih =>
    intro hne init W hlast h
    rw [completion] at h
    cases hr : r init with
    | error e => rw [hr] at h; simp at h
    | ok W' =>
      rw [hr] at h
      simp only at h
      by_cases he : exh W' = true
      · rw [if_pos he] at h
        simp only [Except.ok.injEq] at h
        exact h ▸ he
      · rw [if_neg he] at h
        cases rs with
        | nil => exact absurd (hlast init W' (by simpa using hr)) he
        | cons r' rs' =>
          exact ih (by simp) W' W (by simpa [List.getLast_cons] using hlast) h

/-- the result is the outcome `W₁` of the first rule, extended by the later rules -/
theorem completion_extends_first {r : List Pid → Except Err (List Pid)}
    {rs : List (List Pid → Except Err (List Pid))} {init W₁ W : List Pid}
    (hext : ∀ r' ∈ rs, ∀ cur W, r' cur = .ok W → ∀ x ∈ cur, x ∈ W)
    (h1 : r init = .ok W₁)
    (h : completion exh (r :: rs) init = .ok W) : ∀ x ∈ W₁, x ∈ W := by
  rw [completion, h1] at h
  simp only at h
  by_cases he : exh W₁ = true
  · rw [if_pos he] at h
    simp only [Except.ok.injEq] at h
    subst h; exact fun _ hx => hx
  · rw [if_neg he] at h
    exact completion_extends hext h

/-- when the first rule's outcome is already exhaustive it is returned unchanged -/
theorem completion_first_exhaustive {r : List Pid → Except Err (List Pid)}
    {rs : List (List Pid → Except Err (List Pid))} {init W₁ : List Pid}
    (h1 : r init = .ok W₁) (he : exh W₁ = true) : completion exh (r :: rs) init = .ok W₁ := by
  rw [completion, h1]
  simp only
  rw [if_pos he]

end completion

/-! ### W6: `completion_by_rule_combination`, irresolute -/

section completionAll
variable {exh : List Pid → Bool}

abbrev AllRule := List Pid → Except Err (List (List Pid))

/-- every rule extends the allocation it is started from -/
def Extends (rules : List AllRule) : Prop :=
  ∀ r ∈ rules, ∀ cur ws, r cur = .ok ws → ∀ W ∈ ws, ∀ x ∈ cur, x ∈ W

/-- every rule returns at least one outcome -/
def NonEmpty (rules : List AllRule) : Prop :=
  ∀ r ∈ rules, ∀ cur ws, r cur = .ok ws → ws ≠ []

/-- one step: given that the remaining rules lose nothing, the step loses nothing -/
theorem completionAll_step {r : AllRule} {rs : List AllRule}
    (hcov : ∀ res allocs R, completionAll exh rs res allocs = .ok R →
      ∀ a, a ∈ res ∨ a ∈ allocs → ∃ W ∈ R, ∀ x ∈ a, x ∈ W)
    {res allocs R : List (List Pid)} (h : completionAll exh (r :: rs) res allocs = .ok R) :
    (∀ a ∈ res, ∃ W ∈ R, ∀ x ∈ a, x ∈ W) ∧
    (∀ a ∈ allocs, ∃ ws, r a = .ok ws ∧ ∀ w ∈ ws, ∃ W ∈ R, ∀ x ∈ w, x ∈ W) := by
  rw [completionAll] at h
  cases ho : outcomesFrom r allocs with
  | error e => rw [ho] at h; simp at h
  | ok outs =>
    rw [ho] at h
    simp only at h
    obtain ⟨ho1, _⟩ := outcomesFrom_ok ho
    by_cases hd : outs.filter (fun w => !exh w) = []
    · rw [if_pos hd] at h
      simp only [Except.ok.injEq] at h
      subst h
      constructor
      · intro a ha
        exact ⟨a, mem_addNew.mpr (Or.inl ha), fun _ hx => hx⟩
      · intro a ha
        obtain ⟨ws, hws, hsub⟩ := ho1 a ha
        refine ⟨ws, hws, fun w hw => ⟨w, mem_addNew.mpr (Or.inr ?_), fun _ hx => hx⟩⟩
        have hwo := hsub w hw
        have : exh w = true := by
          by_contra hne
          have : w ∈ outs.filter (fun w => !exh w) := List.mem_filter.mpr ⟨hwo, by simpa using hne⟩
          rw [hd] at this
          simp at this
        exact List.mem_filter.mpr ⟨hwo, this⟩
    · rw [if_neg hd] at h
      have hc := hcov _ _ _ h
      constructor
      · intro a ha
        exact hc a (Or.inl (mem_addNew.mpr (Or.inl ha)))
      · intro a ha
        obtain ⟨ws, hws, hsub⟩ := ho1 a ha
        refine ⟨ws, hws, fun w hw => hc w ?_⟩
        have hwo := hsub w hw
        by_cases he : exh w = true
        · exact Or.inl (mem_addNew.mpr (Or.inr (List.mem_filter.mpr ⟨hwo, he⟩)))
        · exact Or.inr (List.mem_filter.mpr ⟨hwo, by simpa using he⟩)

/-- nothing is dropped: every allocation already collected (`res`) or still to be completed (`allocs`)
    is contained in some returned allocation -/
theorem completionAll_covers : ∀ (rules : List AllRule), Extends rules → NonEmpty rules →
    ∀ res allocs R, completionAll exh rules res allocs = .ok R →
      ∀ a, a ∈ res ∨ a ∈ allocs → ∃ W ∈ R, ∀ x ∈ a, x ∈ W := by
  intro rules
  induction rules with
  | nil =>
    intro _ _ res allocs R h a ha
    rw [completionAll] at h
    simp only [Except.ok.injEq] at h
    subst h
    exact ⟨a, List.mem_append.mpr ha, fun _ hx => hx⟩
  | cons r rs ih =>
    intro hext hne res allocs R h a ha
    have hstep := completionAll_step
      (ih (fun r' hr' => hext r' (List.mem_cons_of_mem _ hr')) (fun r' hr' => hne r' (List.mem_cons_of_mem _ hr'))) h
    rcases ha with ha | ha
    · exact hstep.1 a ha
    · obtain ⟨ws, hws, hall⟩ := hstep.2 a ha
      have hnn := hne r (by simp) a ws hws
      obtain ⟨w, hw⟩ := List.exists_mem_of_ne_nil ws hnn
      obtain ⟨W, hW, hsub⟩ := hall w hw
      exact ⟨W, hW, fun x hx => hsub x (hext r (by simp) a ws hws w hw x hx)⟩

/-- W6. Every outcome `W₁` of the first rule on the initial allocation has a completion among the
    returned allocations. -/
theorem completionAll_keeps_all {r : AllRule} {rs : List AllRule} {init W₁ : List Pid}
    {ws₁ R : List (List Pid)}
    (hext : Extends rs) (hne : NonEmpty rs)
    (h1 : r init = .ok ws₁) (hW₁ : W₁ ∈ ws₁)
    (h : completionAll exh (r :: rs) [] [init] = .ok R) :
    ∃ W ∈ R, ∀ x ∈ W₁, x ∈ W := by
  obtain ⟨ws, hws, hall⟩ := (completionAll_step (completionAll_covers rs hext hne) h).2 init (by simp)
  rw [h1] at hws
  simp only [Except.ok.injEq] at hws
  subst hws
  exact hall W₁ hW₁

/-- … and hence contains the initial allocation too, when the first rule extends it -/
theorem completionAll_extends_init {rules : List AllRule} {init : List Pid} {R : List (List Pid)}
    (hext : Extends rules) (hne : NonEmpty rules)
    (h : completionAll exh rules [] [init] = .ok R) :
    ∃ W ∈ R, ∀ x ∈ init, x ∈ W :=
  completionAll_covers rules hext hne [] [init] R h init (by simp)

/-- a property preserved by every rule passes from `res`/`allocs` to every returned allocation -/
theorem completionAll_inv (P : List Pid → Prop) : ∀ (rules : List AllRule),
    (∀ r ∈ rules, ∀ cur ws, P cur → r cur = .ok ws → ∀ W ∈ ws, P W) →
    ∀ res allocs R, (∀ a ∈ res, P a) → (∀ a ∈ allocs, P a) →
    completionAll exh rules res allocs = .ok R → ∀ W ∈ R, P W := by
  intro rules
  induction rules with
  | nil =>
    intro _ res allocs R h1 h2 h W hW
    rw [completionAll] at h
    simp only [Except.ok.injEq] at h
    subst h
    rcases List.mem_append.mp hW with hW | hW
    · exact h1 W hW
    · exact h2 W hW
  | cons r rs ih =>
    intro hrules res allocs R h1 h2 h
    rw [completionAll] at h
    cases ho : outcomesFrom r allocs with
    | error e => rw [ho] at h; simp at h
    | ok outs =>
      rw [ho] at h
      simp only at h
      obtain ⟨_, ho2⟩ := outcomesFrom_ok ho
      have houts : ∀ w ∈ outs, P w := by
        intro w hw
        obtain ⟨a, ha, ws, hws, hwws⟩ := ho2 w hw
        exact hrules r (by simp) a ws (h2 a ha) hws w hwws
      have hres : ∀ a ∈ addNew res (outs.filter exh), P a := by
        intro a ha
        rcases mem_addNew.mp ha with ha | ha
        · exact h1 a ha
        · exact houts a (List.mem_filter.mp ha).1
      by_cases hd : outs.filter (fun w => !exh w) = []
      · rw [if_pos hd] at h
        simp only [Except.ok.injEq] at h
        subst h
        exact hres
      · rw [if_neg hd] at h
        exact ih (fun r' hr' => hrules r' (List.mem_cons_of_mem _ hr')) _ _ R hres
          (fun a ha => houts a (List.mem_filter.mp ha).1) h

/-- W6. Every returned allocation is feasible when the rules preserve feasibility. -/
theorem completionAll_feasible {feas : List Pid → Bool} {rules : List AllRule} {init : List Pid}
    {R : List (List Pid)}
    (hfeas : ∀ r ∈ rules, ∀ cur ws, feas cur = true → r cur = .ok ws → ∀ W ∈ ws, feas W = true)
    (hinit : feas init = true)
    (h : completionAll exh rules [] [init] = .ok R) : ∀ W ∈ R, feas W = true :=
  completionAll_inv (fun W => feas W = true) rules hfeas [] [init] R (by simp) (by simpa using hinit) h

/-- every returned allocation contains the initial one -/
theorem completionAll_extends {rules : List AllRule} {init : List Pid} {R : List (List Pid)}
    (hext : Extends rules)
    (h : completionAll exh rules [] [init] = .ok R) : ∀ W ∈ R, ∀ x ∈ init, x ∈ W :=
  completionAll_inv (fun W => ∀ x ∈ init, x ∈ W) rules
    (fun r hr cur ws hp hws W hW x hx => hext r hr cur ws hws W hW x (hp x hx)) [] [init] R
    (by simp) (by simp) h

/-- W6. When the last rule of a non-empty sequence only returns exhaustive outcomes (so the function
    returns through the "all exhaustive" branch), every returned allocation is exhaustive. -/
theorem completionAll_exhaustive : ∀ (rules : List AllRule) (hne : rules ≠ []),
    (∀ cur ws, rules.getLast hne cur = .ok ws → ∀ W ∈ ws, exh W = true) →
    ∀ res allocs R, (∀ a ∈ res, exh a = true) →
    completionAll exh rules res allocs = .ok R → ∀ W ∈ R, exh W = true := by
  intro rules
  induction rules with
  | nil => intro hne; exact absurd rfl hne
  | cons r rs ih =>
    intro hne hlast res allocs R hres h
    rw [completionAll] at h
    cases ho : outcomesFrom r allocs with
    | error e => rw [ho] at h; simp at h
    | ok outs =>
      rw [ho] at h
      simp only at h
      obtain ⟨_, ho2⟩ := outcomesFrom_ok ho
      have hres' : ∀ a ∈ addNew res (outs.filter exh), exh a = true := by
        intro a ha
        rcases mem_addNew.mp ha with ha | ha
        · exact hres a ha
        · exact (List.mem_filter.mp ha).2
      by_cases hd : outs.filter (fun w => !exh w) = []
      · rw [if_pos hd] at h
        simp only [Except.ok.injEq] at h
        subst h
        exact hres'
      · rw [if_neg hd] at h
        cases rs with
        | nil =>
          exfalso
          apply hd
          rw [List.filter_eq_nil_iff]
          intro w hw
          obtain ⟨a, _, ws, hws, hwws⟩ := ho2 w hw
          have := hlast a ws (by simpa using hws) w hwws
          simp [this]
        | cons r' rs' =>
          exact ih (by simp) (by simpa [List.getLast_cons] using hlast) _ _ R hres' h

/-- the branch itself: if no outcome of the first rule is left non-exhaustive the function returns at once,
    and all returned allocations are exhaustive outcomes of that rule -/
theorem completionAll_all_exhaustive_branch {r : AllRule} {rs : List AllRule} {allocs outs : List (List Pid)}
    (ho : outcomesFrom r allocs = .ok outs) (hall : ∀ w ∈ outs, exh w = true) :
    completionAll exh (r :: rs) [] allocs = .ok (addNew [] outs) ∧
    ∀ W ∈ addNew [] outs, exh W = true ∧ W ∈ outs := by
  have hf : outs.filter exh = outs := List.filter_eq_self.mpr hall
  have hd : outs.filter (fun w => !exh w) = [] := by
    rw [List.filter_eq_nil_iff]
    intro w hw
    simp [hall w hw]
  constructor
  · rw [completionAll, ho]
    simp only
    rw [if_pos hd, hf]
  · intro W hW
    rcases mem_addNew.mp hW with hW | hW
    · simp at hW
    · exact ⟨hall W hW, hW⟩

end completionAll

/-! ### W7: iterated Method of Equal Shares -/

section iterated
variable {V : VCtx} {I : Inst} {init : List Pid} {order : List Pid → Except Err (List Pid)} {inc : Rat}

/-- `r k` = outcome of Equal Shares with per-voter budget `b0 + k·inc` -/
theorem iterated_result {fuel : Nat} {b0 : Rat} {prev₀ W : List Pid} {r : Nat → List Pid}
    (hr : ∀ k : Nat, k < fuel → MES.runAt V I init order (b0 + k * inc) = .ok (r k))
    (h : MES.iterated V I init order inc fuel b0 prev₀ = .ok W) :
    ∃ k, k < fuel ∧
      (∀ j, j < k → I.isFeasible (r j) = true ∧ I.isExhaustiveOver (MES.initPool V I init) (r j) = false) ∧
      ((I.isFeasible (r k) = true ∧ I.isExhaustiveOver (MES.initPool V I init) (r k) = true ∧ W = r k) ∨
       (I.isFeasible (r k) = false ∧ W = prevOutcome prev₀ r k)) := by
  rw [iterated_eq_loop] at h
  obtain ⟨k, hk, hall, hstop⟩ := loop_result fuel b0 prev₀ W r (fun k hk _ => hr k hk) h
  refine ⟨k, hk, ?_, ?_⟩
  · intro j hj
    have := hall j hj
    simpa [Continues] using this
  · simpa [StopsAt] using hstop

theorem iterated_complete {fuel k : Nat} {b0 : Rat} {prev₀ W : List Pid} {r : Nat → List Pid}
    (hr : ∀ j : Nat, j ≤ k → MES.runAt V I init order (b0 + j * inc) = .ok (r j))
    (hk : k < fuel)
    (hall : ∀ j, j < k → I.isFeasible (r j) = true ∧ I.isExhaustiveOver (MES.initPool V I init) (r j) = false)
    (hstop : (I.isFeasible (r k) = true ∧ I.isExhaustiveOver (MES.initPool V I init) (r k) = true ∧ W = r k) ∨
       (I.isFeasible (r k) = false ∧ W = prevOutcome prev₀ r k)) :
    MES.iterated V I init order inc fuel b0 prev₀ = .ok W := by
  rw [iterated_eq_loop]
  apply loop_complete k fuel b0 prev₀ W r (fun j hj _ => hr j hj) hk
  · intro j hj
    have := hall j hj
    simpa [Continues] using this
  · simpa [StopsAt] using hstop

theorem iterated_feasible {fuel : Nat} {b0 : Rat} {prev₀ W : List Pid}
    (hprev : I.isFeasible prev₀ = true)
    (h : MES.iterated V I init order inc fuel b0 prev₀ = .ok W) : I.isFeasible W = true := by
  rw [iterated_eq_loop] at h
  exact loop_inv (fun W => I.isFeasible W = true) (fun c W _ hb => by simpa using hb) fuel b0 prev₀ W hprev h

/-- termination, partial: if the outcome at some per-voter budget `b0 + k·inc` is infeasible or exhaustive
    over the buyable projects (and the runs up to there return outcomes), fuel `k+1` suffices -/
theorem iterated_terminates_partial {fuel k : Nat} {b0 : Rat} {prev₀ : List Pid} {r : Nat → List Pid}
    (hr : ∀ j : Nat, j ≤ k → MES.runAt V I init order (b0 + j * inc) = .ok (r j))
    (hk : k < fuel)
    (hstop : I.isFeasible (r k) = false ∨ I.isExhaustiveOver (MES.initPool V I init) (r k) = true) :
    ∃ W, MES.iterated V I init order inc fuel b0 prev₀ = .ok W := by
  rw [iterated_eq_loop]
  apply loop_stops k fuel b0 prev₀ r (fun j hj _ => hr j hj) hk
  rcases hstop with h | h
  · exact Or.inr (Or.inl (by simp [h]))
  · exact Or.inr (Or.inr h)

/- The full termination statement — with a positive increment some per-voter budget makes the outcome
   exhaustive over the buyable projects, so some fuel suffices — is PROVED in
   `PabuProofs/Properties/C09Termination.lean`: `C09.iterated_terminates` (and `_explicit`: fuel `N + 1`
   when `Σ_{p ∈ initPool} cost p ≤ b0 + N·inc`; `_tie` for the shipped tie-breaking rules;
   `iteratedAll_terminates*` for the irresolute variant).  (The former
   `def iterated_terminates_FullStatement`, which put no condition on the order function, is replaced by
   those theorems; in that generality it is false: `C09.iterated_terminates_needs_order_hyps`.) -/

/-- the loop really can fail to stop: if every outcome is feasible and not exhaustive over the pool
    (for instance `inc = 0` and the first outcome is such), every fuel runs out -/
theorem iterated_diverges {b0 : Rat}
    (h : ∀ k : Nat, ∃ W, MES.runAt V I init order (b0 + k * inc) = .ok W ∧ I.isFeasible W = true ∧
      I.isExhaustiveOver (MES.initPool V I init) W = false) (fuel : Nat) (prev₀ : List Pid) :
    MES.iterated V I init order inc fuel b0 prev₀ = .error .fuel := by
  rw [iterated_eq_loop]
  apply loop_diverges
  intro k
  obtain ⟨W, h1, h2, h3⟩ := h k
  exact ⟨rfl, W, h1, by simp [h2], h3⟩

theorem iteratedAll_result {fuel : Nat} {b0 : Rat} {prev₀ Ws : List (List Pid)} {r : Nat → List (List Pid)}
    (hr : ∀ k : Nat, k < fuel → MES.runAllAt V I init order (b0 + k * inc) = .ok (r k))
    (h : MES.iteratedAll V I init order inc fuel b0 prev₀ = .ok Ws) :
    ∃ k, k < fuel ∧
      (∀ j, j < k → (∀ W ∈ r j, I.isFeasible W = true) ∧
        (∀ W ∈ r j, I.isExhaustiveOver (MES.initPool V I init) W = false)) ∧
      (((∀ W ∈ r k, I.isFeasible W = true) ∧
          (∃ W ∈ r k, I.isExhaustiveOver (MES.initPool V I init) W = true) ∧ Ws = r k) ∨
       ((∃ W ∈ r k, I.isFeasible W = false) ∧ Ws = prevOutcome prev₀ r k)) := by
  rw [iteratedAll_eq_loop] at h
  obtain ⟨k, hk, hall, hstop⟩ := loop_result fuel b0 prev₀ Ws r (fun k hk _ => hr k hk) h
  refine ⟨k, hk, ?_, ?_⟩
  · intro j hj
    have := hall j hj
    simpa [Continues] using this
  · simpa [StopsAt] using hstop

theorem iteratedAll_feasible {fuel : Nat} {b0 : Rat} {prev₀ Ws : List (List Pid)}
    (hprev : ∀ W ∈ prev₀, I.isFeasible W = true)
    (h : MES.iteratedAll V I init order inc fuel b0 prev₀ = .ok Ws) : ∀ W ∈ Ws, I.isFeasible W = true := by
  rw [iteratedAll_eq_loop] at h
  exact loop_inv (fun Ws => ∀ W ∈ Ws, I.isFeasible W = true) (fun c W _ hb => by simpa using hb)
    fuel b0 prev₀ Ws hprev h

theorem iteratedAll_terminates_partial {fuel k : Nat} {b0 : Rat} {prev₀ : List (List Pid)}
    {r : Nat → List (List Pid)}
    (hr : ∀ j : Nat, j ≤ k → MES.runAllAt V I init order (b0 + j * inc) = .ok (r j))
    (hk : k < fuel)
    (hstop : (∃ W ∈ r k, I.isFeasible W = false) ∨
      (∃ W ∈ r k, I.isExhaustiveOver (MES.initPool V I init) W = true)) :
    ∃ Ws, MES.iteratedAll V I init order inc fuel b0 prev₀ = .ok Ws := by
  rw [iteratedAll_eq_loop]
  apply loop_stops k fuel b0 prev₀ r (fun j hj _ => hr j hj) hk
  rcases hstop with h | h
  · exact Or.inr (Or.inl (by simpa using h))
  · exact Or.inr (Or.inr (by simpa using h))

end iterated

/-! ### Non-vacuity: concrete base rules -/

/-- a base rule given by a table: budget < 2 ↦ [1]; < 3 ↦ [1,2]; else [1,2,3] -/
def tableRule : Rat → Except Err (List Pid) := fun b =>
  if b < 2 then .ok [1] else if b < 3 then .ok [1, 2] else .ok [1, 2, 3]
/-- feasible for the original instance: at most two projects -/
def feas2 (W : List Pid) : Bool := decide (W.length ≤ 2)
def exhNever (_ : List Pid) : Bool := false
def exhTwo (W : List Pid) : Bool := decide (W.length = 2)
/-- outcomes at budgets 1, 3/2, 2, 5/2, 3, … -/
def rTab : Nat → List Pid := fun k => if k < 2 then [1] else if k < 4 then [1, 2] else [1, 2, 3]

theorem tableRule_total : ∀ c, ∃ W, tableRule c = .ok W := by
  intro c
  unfold tableRule
  split_ifs <;> exact ⟨_, rfl⟩

theorem tableRule_rTab : ∀ k : Nat, k < 6 → tableRule (1 + (k : Rat) * (1 / 2)) = .ok (rTab k) := by
  intro k hk
  interval_cases k <;> decide +kernel

/-- stop by infeasibility: budgets 1, 3/2, 2, 5/2 are fine, budget 3 gives three projects ⇒ the outcome
    at 5/2 is returned (try k = 4, case (b)) -/
example : budgetIncrease tableRule feas2 exhNever true (1 / 2) 10 6 1 [] = .ok [1, 2] := by decide +kernel

example : ∃ k : Nat, k < 6 ∧
    (∀ j : Nat, j < k → 1 + (j : Rat) * (1 / 2) ≤ 10 ∧ feas2 (rTab j) = true ∧ ¬ (true = true ∧ exhNever (rTab j) = true)) ∧
    ((1 + (k : Rat) * (1 / 2) ≤ 10 ∧ feas2 (rTab k) = true ∧ (true = true ∧ exhNever (rTab k) = true) ∧ [1, 2] = rTab k) ∨
     (1 + (k : Rat) * (1 / 2) ≤ 10 ∧ feas2 (rTab k) = false ∧ [1, 2] = prevOutcome [] rTab k) ∨
     (10 < 1 + (k : Rat) * (1 / 2) ∧ [1, 2] = prevOutcome [] rTab k)) :=
  budgetIncrease_result (fun k hk _ => tableRule_rTab k hk) (by decide +kernel)

/-- stop by exhaustiveness: the first outcome with two projects (budget 2, try k = 2, case (a)) -/
example : budgetIncrease tableRule feas2 exhTwo true (1 / 2) 10 6 1 [] = .ok [1, 2] := by decide +kernel
/-- … not taken with `exhaustive_stop = False` when the bound comes first (bound 7/4: tries 1, 3/2; case (c)) -/
example : budgetIncrease tableRule feas2 exhTwo false (1 / 2) (7 / 4) 6 1 [] = .ok [1] := by decide +kernel

/-- the same via the converse: try 2 is the first that stops -/
example : budgetIncrease tableRule feas2 exhTwo true (1 / 2) 10 6 1 [] = .ok [1, 2] :=
  budgetIncrease_complete (k := 2) (r := rTab) (fun j hj _ => tableRule_rTab j (by omega)) (by omega)
    (by intro j hj; interval_cases j <;> refine ⟨by norm_num, by decide, by decide⟩)
    (Or.inl ⟨by norm_num, by decide, by decide, by decide⟩)

example : feas2 [1, 2] = true :=
  budgetIncrease_feasible (rule := tableRule) (exh := exhNever) (stop := true) (step := 1 / 2) (bound := 10)
    (fuel := 6) (B := 1) (prev₀ := []) (by decide) (by decide +kernel)

/-- 19 steps of 1/2 from 1 pass the bound 10, so fuel 20 suffices -/
example : ∃ W, budgetIncrease tableRule (fun _ => true) exhNever true (1 / 2) 10 20 1 [] = .ok W :=
  budgetIncrease_terminates (N := 19) tableRule_total (by norm_num) (by omega)

/-- FINDING: step 0, `exhaustive_stop = False`, constant feasible outcome: every fuel runs out -/
example (fuel : Nat) : budgetIncrease (fun _ => .ok [1]) (fun _ => true) exhTwo false 0 10 fuel 1 [] = .error .fuel :=
  budgetIncrease_nonpositive_step_diverges (le_refl 0) (by norm_num) (fun _ => ⟨[1], rfl, rfl⟩) fuel []

/-- FINDING, negative step -/
example (fuel : Nat) :
    budgetIncrease tableRule (fun _ => true) exhTwo false (-1) 10 fuel 1 [] = .error .fuel :=
  budgetIncrease_nonpositive_step_diverges (by norm_num) (by norm_num)
    (fun c => by obtain ⟨W, hW⟩ := tableRule_total c; exact ⟨W, hW, rfl⟩) fuel []

/-- irresolute table: budget < 2 ↦ {[1],[2]}; else {[1,2],[1,3,4]} (one infeasible outcome) -/
def tableRuleAll : Rat → Except Err (List (List Pid)) := fun b =>
  if b < 2 then .ok [[1], [2]] else .ok [[1, 2], [1, 3, 4]]

example : budgetIncreaseAll tableRuleAll feas2 exhTwo true 1 10 6 1 [[]] = .ok [[1], [2]] := by decide +kernel

example : ∀ W ∈ [[1], [2]], feas2 W = true :=
  budgetIncreaseAll_feasible (rule := tableRuleAll) (exh := exhTwo) (stop := true) (step := 1) (bound := 10)
    (fuel := 6) (B := 1) (prev₀ := [[]]) (by decide) (by decide +kernel)

/-! completion: rule A adds project 1, rule B adds project 2; exhaustive = contains 2 -/

def ruleA : List Pid → Except Err (List Pid) := fun cur => .ok (cur ++ [1])
def ruleB : List Pid → Except Err (List Pid) := fun cur => .ok (cur ++ [2])
def exhHas2 (W : List Pid) : Bool := W.contains 2

example : completion exhHas2 [ruleA, ruleB] [5] = .ok [5, 1, 2] := by decide

theorem rulesAB_extend : ∀ r ∈ [ruleA, ruleB], ∀ cur W, r cur = .ok W → ∀ x ∈ cur, x ∈ W := by
  intro r hr cur W h x hx
  simp only [List.mem_cons, List.not_mem_nil, or_false] at hr
  rcases hr with rfl | rfl <;>
    (simp only [ruleA, ruleB, Except.ok.injEq] at h; subst h; exact List.mem_append_left _ hx)

example : ∀ x ∈ [5], x ∈ [5, 1, 2] :=
  completion_extends (exh := exhHas2) rulesAB_extend (by decide : completion exhHas2 [ruleA, ruleB] [5] = .ok [5, 1, 2])

example : exhHas2 [5, 1, 2] = true :=
  completion_exhaustive [ruleA, ruleB] (by simp) [5] [5, 1, 2]
    (by
      intro cur W h
      simp only [List.getLast_cons, List.getLast_singleton, ne_eq, List.cons_ne_self, not_false_eq_true,
        ruleB, Except.ok.injEq] at h
      subst h
      simp [exhHas2])
    (by decide)

example : ∀ x ∈ [5, 1], x ∈ [5, 1, 2] :=
  completion_extends_first (exh := exhHas2) (r := ruleA) (rs := [ruleB]) (init := [5])
    (fun r' hr' => rulesAB_extend r' (List.mem_cons_of_mem _ hr')) rfl (by decide)

/-! irresolute completion: rule A returns two outcomes (one exhaustive), rule B completes the other -/

def ruleAAll : AllRule := fun cur => .ok [cur ++ [1], cur ++ [2]]
def ruleBAll : AllRule := fun cur => .ok [cur ++ [3]]
def exhHas23 (W : List Pid) : Bool := W.contains 2 || W.contains 3

example : completionAll exhHas23 [ruleAAll, ruleBAll] [] [[]] = .ok [[2], [1, 3]] := by decide

theorem ruleBAll_extends : Extends [ruleBAll] := by
  intro r hr cur ws h W hW x hx
  simp only [List.mem_cons, List.not_mem_nil, or_false] at hr
  subst hr
  simp only [ruleBAll, Except.ok.injEq] at h
  subst h
  simp only [List.mem_cons, List.not_mem_nil, or_false] at hW
  subst hW
  exact List.mem_append_left _ hx

theorem ruleBAll_nonEmpty : NonEmpty [ruleBAll] := by
  intro r hr cur ws h
  simp only [List.mem_cons, List.not_mem_nil, or_false] at hr
  subst hr
  simp only [ruleBAll, Except.ok.injEq] at h
  subst h
  simp

/-- the non-exhaustive first outcome `[1]` is kept and completed to `[1,3]` -/
example : ∃ W ∈ [[2], [1, 3]], ∀ x ∈ [1], x ∈ W :=
  completionAll_keeps_all (exh := exhHas23) (r := ruleAAll) (rs := [ruleBAll]) (init := []) (W₁ := [1])
    ruleBAll_extends ruleBAll_nonEmpty rfl (by simp) (by decide)

example : ∀ W ∈ [[2], [1, 3]], exhHas23 W = true :=
  completionAll_exhaustive [ruleAAll, ruleBAll] (by simp)
    (by
      intro cur ws h W hW
      simp only [List.getLast_cons, List.getLast_singleton, ne_eq, List.cons_ne_self, not_false_eq_true,
        ruleBAll, Except.ok.injEq] at h
      subst h
      simp only [List.mem_cons, List.not_mem_nil, or_false] at hW
      subst hW
      simp [exhHas23])
    [] [[]] [[2], [1, 3]] (by simp) (by decide)

/-! iterated Equal Shares: two voters (approving {1,2} and {2,3}), budget 4 -/

def itV : VCtx :=
  ⟨[0, 1], fun _ => 1, fun i p => if (i = 0 ∧ (p = 1 ∨ p = 2)) ∨ (i = 1 ∧ (p = 2 ∨ p = 3)) then 1 else 0⟩
/-- costs 2, 2, 3 -/
def itI : Inst := ⟨[1, 2, 3], fun p => if p = 3 then 3 else 2, 4⟩
/-- costs 2, 2, 2 -/
def itI2 : Inst := ⟨[1, 2, 3], fun _ => 2, 4⟩
def idOrder : List Pid → Except Err (List Pid) := fun l => .ok l
def rIt : Nat → List Pid := fun k => if k < 2 then [2] else if k < 3 then [2, 1] else [2, 1, 3]
def rIt2 : Nat → List Pid := fun k => if k < 2 then [2] else [2, 1, 3]

theorem itI_runs : ∀ k : Nat, k < 4 → MES.runAt itV itI [] idOrder (1 + (k : Rat) * 1) = .ok (rIt k) := by
  intro k hk
  interval_cases k <;> decide +kernel

theorem itI2_runs : ∀ k : Nat, k < 4 → MES.runAt itV itI2 [] idOrder (1 + (k : Rat) * 1) = .ok (rIt2 k) := by
  intro k hk
  interval_cases k <;> decide +kernel

/-- per-voter budgets 1, 2 buy only project 2; budget 3 buys {2,1}, which is exhaustive: returned -/
example : MES.iterated itV itI [] idOrder 1 4 1 [] = .ok [2, 1] := by decide +kernel

example : ∃ k : Nat, k < 4 ∧
    (∀ j : Nat, j < k → itI.isFeasible (rIt j) = true ∧ itI.isExhaustiveOver (MES.initPool itV itI []) (rIt j) = false) ∧
    ((itI.isFeasible (rIt k) = true ∧ itI.isExhaustiveOver (MES.initPool itV itI []) (rIt k) = true ∧ [2, 1] = rIt k) ∨
     (itI.isFeasible (rIt k) = false ∧ [2, 1] = prevOutcome [] rIt k)) :=
  iterated_result (fun k hk => itI_runs k hk) (by decide +kernel)

/-- with all costs 2, per-voter budget 3 buys all three projects (cost 6 > 4): the previous outcome is returned -/
example : MES.iterated itV itI2 [] idOrder 1 4 1 [] = .ok [2] := by decide +kernel

example : ∃ W, MES.iterated itV itI2 [] idOrder 1 4 1 [] = .ok W :=
  iterated_terminates_partial (k := 2) (r := rIt2) (fun j hj => itI2_runs j (by omega)) (by omega)
    (Or.inl (by decide +kernel))

example : itI2.isFeasible [2] = true :=
  iterated_feasible (V := itV) (init := []) (order := idOrder) (inc := 1) (fuel := 4) (b0 := 1) (prev₀ := [])
    (by decide +kernel) (by decide +kernel)

end C09
end Pabu
