/-
  C08 — irresolute outcomes are exactly the outcomes of all strict tie-breaking orders
  (model side).  Proofs are in PabuProofs/Lemmas/{RoundRule,RoundRuleExcept,Tie}.lean.

  Vocabulary.  For a round rule `R` (Equal Shares, greedy, Phragmén), fuel `n`, initial state `s₀`:
  * `R.runPi π n s₀`    the resolute outcome when every tie is broken by the strict order `π`;
  * `R.runAllP n s₀`    the outcomes of all branches of the irresolute run;
  * `R.run order n s₀`, `R.runAll order n s₀`   the `Except`-valued runs the driver executes with
    the tie-breaking function `order` (`Tie.order t cost score`);
  * `canonOutcomes`     name-sort each outcome and drop repeats (the end of the irresolute code).

  "sound" = the outcome of every strict order is among the irresolute outcomes;
  "complete" = every irresolute outcome is the outcome of some strict order over all projects.
-/
import PabuProofs.Lemmas.Tie
namespace Pabu.C08
open Pabu Pabu.TieL

/-! ### Generic statements (any well-formed round rule) -/

section Generic
variable {σ : Type}

/-- (sound) for every order `π` containing the pool, the resolute outcome under `π` is one of
    the irresolute outcomes -/
theorem irresolute_sound (R : RoundRule σ) (hR : R.WF) (π : List Pid) (n : Nat) (s₀ : σ)
    (hπ : ∀ x ∈ R.pool s₀, x ∈ π) : R.runPi π n s₀ ∈ R.runAllP n s₀ :=
  R.runPi_mem_runAllP hR π n s₀ hπ

/-- (complete) every irresolute outcome is the resolute outcome under a strict order: for every
    duplicate-free list `P` of projects containing the pool there is an arrangement `π` of `P`
    whose resolute outcome it is -/
theorem irresolute_complete (R : RoundRule σ) (hR : R.WF) (n : Nat) (s₀ : σ) (P : List Pid)
    (hP : P.Nodup) (hpool : ∀ x ∈ R.pool s₀, x ∈ P) :
    ∀ W ∈ R.runAllP n s₀, ∃ π : List Pid, π.Perm P ∧ R.runPi π n s₀ = W :=
  fun W hW => R.runAllP_realised_perm hR n s₀ W hW P hP hpool

/-- (complete, suffix form) … namely a duplicate-free order over pool projects followed by
    anything -/
theorem irresolute_complete_suffix (R : RoundRule σ) (hR : R.WF) (n : Nat) (s₀ : σ) :
    ∀ W ∈ R.runAllP n s₀, ∃ l : List Pid, l.Nodup ∧ (∀ x ∈ l, x ∈ R.pool s₀) ∧
      ∀ rest, R.runPi (l ++ rest) n s₀ = W :=
  fun W hW => R.runAllP_realised hR n s₀ W hW

/-- (no duplicates) the canonicalisation returns a duplicate-free list whose members are exactly
    the name-sorted members of its input -/
theorem irresolute_nodup (Ls : List (List Pid)) :
    (canonOutcomes Ls).Nodup ∧ ∀ W, W ∈ canonOutcomes Ls ↔ ∃ W0 ∈ Ls, W = sortIds W0 :=
  ⟨canonOutcomes_nodup Ls, fun _ => mem_canonOutcomes_iff⟩

/-- what the driver executes, resolute, permutation rule: the run is `runPi π` -/
theorem run_perm_rule (R : RoundRule σ) (hR : R.WF) (π : List Pid) (cost : Pid → Rat)
    (score : Pid → Nat) (n : Nat) (s₀ : σ) (hπ : ∀ x ∈ R.pool s₀, x ∈ π) :
    R.run (Tie.order (.perm π) cost score) n s₀ = .ok (R.runPi π n s₀) :=
  R.run_eq_runPi hR π _ (fun _ hT => Tie.order_perm_head π cost score hT) n s₀ hπ

/-- what the driver executes, resolute, any rule (even `refuse`, when it does not raise): the
    outcome is one of the pure irresolute outcomes -/
theorem run_any_rule_mem (R : RoundRule σ) (t : Tie) (cost : Pid → Rat) (score : Pid → Nat)
    (n : Nat) (s₀ : σ) (W : List Pid) (h : R.run (Tie.order t cost score) n s₀ = .ok W) :
    W ∈ R.runAllP n s₀ :=
  R.run_mem_runAllP _ (Tie.order_mem t cost score) (Tie.order_ne_nil t cost score) n s₀ W h

/-- what the driver executes, irresolute, any rule but `refuse`: it does not fail and returns,
    without repeats, exactly the name-sorted pure irresolute outcomes -/
theorem runAll_any_rule (R : RoundRule σ) {t : Tie} (ht : t ≠ .refuse) (cost : Pid → Rat)
    (score : Pid → Nat) (n : Nat) (s₀ : σ) :
    ∃ L, (R.runAll (Tie.order t cost score) n s₀).map canonOutcomes = .ok L ∧ L.Nodup ∧
      ∀ W, W ∈ L ↔ ∃ W0 ∈ R.runAllP n s₀, W = sortIds W0 := by
  rw [Tie.order_ok_fun ht]
  exact R.runAll_canon _ (Tie.ord_perm t cost score) n s₀

/-- … and before the canonicalisation it returns exactly (as a set) the pure irresolute outcomes -/
theorem runAll_any_rule_raw (R : RoundRule σ) {t : Tie} (ht : t ≠ .refuse) (cost : Pid → Rat)
    (score : Pid → Nat) (n : Nat) (s₀ : σ) :
    ∃ L, R.runAll (Tie.order t cost score) n s₀ = .ok L ∧ ∀ W, W ∈ L ↔ W ∈ R.runAllP n s₀ := by
  rw [Tie.order_ok_fun ht]
  exact R.runAll_mem_iff _ (Tie.ord_perm t cost score) n s₀

/-- the three rules are well-formed round rules: tied projects are in the pool, and the pool
    after buying a tied project is contained in the old pool minus that project -/
theorem rules_wf (V : VCtx) (cost : Pid → Rat) (tsat : List Pid → Rat) (I : Inst)
    (C : Phragmen.Ctx) :
    (MES.rule V cost).WF ∧ (Greedy.rule tsat I).WF ∧ (Phragmen.rule C).WF :=
  ⟨mes_rule_wf V cost, greedy_rule_wf tsat I, phragmen_rule_wf C⟩

end Generic

/-! ### Greedy (general path) -/

section Greedy
open Greedy
variable (tsat : List Pid → Rat) (I : Inst) (init : List Pid)

theorem greedy_pool_sub : ∀ x ∈ (rule tsat I).pool (initState I init), x ∈ I.projects := by
  intro x hx
  have hx' : x ∈ (sortIds I.projects).filter _ := hx
  exact Sorting.mem_sortIds.mp (List.mem_filter.mp hx').1

/-- the resolute driver run under a permutation rule is `runPi π` -/
theorem greedy_general_perm (π : List Pid) (hπ : ∀ x ∈ I.projects, x ∈ π) (cost : Pid → Rat)
    (score : Pid → Nat) :
    general tsat I init (Tie.order (.perm π) cost score) =
      .ok ((rule tsat I).runPi π (initState I init).feasible.length (initState I init)) :=
  run_perm_rule _ (greedy_rule_wf tsat I) π cost score _ _
    (fun x hx => hπ x (greedy_pool_sub tsat I init x hx))

/-- the irresolute driver run with any rule but `refuse` succeeds, returns no allocation twice,
    and returns exactly the name-sorted outcomes of the branches -/
theorem greedy_irresolute_nodup {t : Tie} (ht : t ≠ .refuse) (cost : Pid → Rat)
    (score : Pid → Nat) :
    ∃ L, generalAll tsat I init (Tie.order t cost score) = .ok L ∧ L.Nodup ∧
      ∀ W, W ∈ L ↔ ∃ W0 ∈ (rule tsat I).runAllP (initState I init).feasible.length
        (initState I init), W = sortIds W0 :=
  runAll_any_rule (rule tsat I) ht cost score _ _

/-- (sound) the resolute outcome under every strict order over the projects is returned by the
    irresolute run -/
theorem greedy_irresolute_sound {t : Tie} (ht : t ≠ .refuse) (cost cost' : Pid → Rat)
    (score score' : Pid → Nat) {L : List (List Pid)}
    (hL : generalAll tsat I init (Tie.order t cost score) = .ok L)
    (π : List Pid) (hπ : ∀ x ∈ I.projects, x ∈ π) :
    ∃ W, general tsat I init (Tie.order (.perm π) cost' score') = .ok W ∧ sortIds W ∈ L := by
  obtain ⟨L', hL', _, hmem⟩ := greedy_irresolute_nodup tsat I init ht cost score
  have : L = L' := Except.ok.inj (hL.symm.trans hL')
  subst this
  refine ⟨_, greedy_general_perm tsat I init π hπ cost' score', (hmem _).mpr ⟨_, ?_, rfl⟩⟩
  exact irresolute_sound _ (greedy_rule_wf tsat I) π _ _
    (fun x hx => hπ x (greedy_pool_sub tsat I init x hx))

/-- (in particular) the resolute outcome under any shipped rule is returned by the irresolute run -/
theorem greedy_resolute_mem {t : Tie} (ht : t ≠ .refuse) (cost cost' : Pid → Rat)
    (score score' : Pid → Nat) {L : List (List Pid)}
    (hL : generalAll tsat I init (Tie.order t cost score) = .ok L)
    (t' : Tie) {W : List Pid} (hW : general tsat I init (Tie.order t' cost' score') = .ok W) :
    sortIds W ∈ L := by
  obtain ⟨L', hL', _, hmem⟩ := greedy_irresolute_nodup tsat I init ht cost score
  have : L = L' := Except.ok.inj (hL.symm.trans hL')
  subst this
  exact (hmem _).mpr ⟨W, run_any_rule_mem _ t' cost' score' _ _ W hW, rfl⟩

/-- (complete) every allocation returned by the irresolute run is the (name-sorted) resolute
    outcome under some strict order over all projects -/
theorem greedy_irresolute_complete {t : Tie} (ht : t ≠ .refuse) (cost cost' : Pid → Rat)
    (score score' : Pid → Nat) {L : List (List Pid)}
    (hL : generalAll tsat I init (Tie.order t cost score) = .ok L) (hP : I.projects.Nodup) :
    ∀ W' ∈ L, ∃ π : List Pid, π.Perm I.projects ∧
      ∃ W, general tsat I init (Tie.order (.perm π) cost' score') = .ok W ∧ W' = sortIds W := by
  obtain ⟨L', hL', _, hmem⟩ := greedy_irresolute_nodup tsat I init ht cost score
  have : L = L' := Except.ok.inj (hL.symm.trans hL')
  subst this
  intro W' hW'
  obtain ⟨W0, hW0, rfl⟩ := (hmem W').mp hW'
  obtain ⟨π, hπ, hrun⟩ := irresolute_complete _ (greedy_rule_wf tsat I) _ _ I.projects hP
    (greedy_pool_sub tsat I init) W0 hW0
  refine ⟨π, hπ, W0, ?_, rfl⟩
  rw [greedy_general_perm tsat I init π (fun x hx => hπ.mem_iff.mpr hx) cost' score', hrun]

end Greedy

/-! ### Sequential Phragmén -/

section Phragmen
open Phragmen
variable (C : Ctx) (projects init : List Pid) (loads : Nat → Rat)

theorem phragmen_pool_sub :
    ∀ x ∈ (rule C).pool (initState C projects init loads), x ∈ projects := by
  intro x hx
  have hx' : x ∈ (sortIds projects).filter _ := hx
  exact Sorting.mem_sortIds.mp (List.mem_filter.mp hx').1

theorem phragmen_run_perm (π : List Pid) (hπ : ∀ x ∈ projects, x ∈ π) (cost : Pid → Rat)
    (score : Pid → Nat) :
    Phragmen.run C projects init loads (Tie.order (.perm π) cost score) =
      .ok ((rule C).runPi π (initState C projects init loads).pool.length
        (initState C projects init loads)) :=
  run_perm_rule _ (phragmen_rule_wf C) π cost score _ _
    (fun x hx => hπ x (phragmen_pool_sub C projects init loads x hx))

theorem phragmen_irresolute_nodup {t : Tie} (ht : t ≠ .refuse) (cost : Pid → Rat)
    (score : Pid → Nat) :
    ∃ L, Phragmen.runAll C projects init loads (Tie.order t cost score) = .ok L ∧ L.Nodup ∧
      ∀ W, W ∈ L ↔ ∃ W0 ∈ (rule C).runAllP (initState C projects init loads).pool.length
        (initState C projects init loads), W = sortIds W0 :=
  runAll_any_rule (rule C) ht cost score _ _

theorem phragmen_irresolute_sound {t : Tie} (ht : t ≠ .refuse) (cost cost' : Pid → Rat)
    (score score' : Pid → Nat) {L : List (List Pid)}
    (hL : Phragmen.runAll C projects init loads (Tie.order t cost score) = .ok L)
    (π : List Pid) (hπ : ∀ x ∈ projects, x ∈ π) :
    ∃ W, Phragmen.run C projects init loads (Tie.order (.perm π) cost' score') = .ok W ∧
      sortIds W ∈ L := by
  obtain ⟨L', hL', _, hmem⟩ := phragmen_irresolute_nodup C projects init loads ht cost score
  have : L = L' := Except.ok.inj (hL.symm.trans hL')
  subst this
  refine ⟨_, phragmen_run_perm C projects init loads π hπ cost' score', (hmem _).mpr ⟨_, ?_, rfl⟩⟩
  exact irresolute_sound _ (phragmen_rule_wf C) π _ _
    (fun x hx => hπ x (phragmen_pool_sub C projects init loads x hx))

theorem phragmen_resolute_mem {t : Tie} (ht : t ≠ .refuse) (cost cost' : Pid → Rat)
    (score score' : Pid → Nat) {L : List (List Pid)}
    (hL : Phragmen.runAll C projects init loads (Tie.order t cost score) = .ok L)
    (t' : Tie) {W : List Pid}
    (hW : Phragmen.run C projects init loads (Tie.order t' cost' score') = .ok W) :
    sortIds W ∈ L := by
  obtain ⟨L', hL', _, hmem⟩ := phragmen_irresolute_nodup C projects init loads ht cost score
  have : L = L' := Except.ok.inj (hL.symm.trans hL')
  subst this
  exact (hmem _).mpr ⟨W, run_any_rule_mem _ t' cost' score' _ _ W hW, rfl⟩

theorem phragmen_irresolute_complete {t : Tie} (ht : t ≠ .refuse) (cost cost' : Pid → Rat)
    (score score' : Pid → Nat) {L : List (List Pid)}
    (hL : Phragmen.runAll C projects init loads (Tie.order t cost score) = .ok L)
    (hP : projects.Nodup) :
    ∀ W' ∈ L, ∃ π : List Pid, π.Perm projects ∧
      ∃ W, Phragmen.run C projects init loads (Tie.order (.perm π) cost' score') = .ok W ∧
        W' = sortIds W := by
  obtain ⟨L', hL', _, hmem⟩ := phragmen_irresolute_nodup C projects init loads ht cost score
  have : L = L' := Except.ok.inj (hL.symm.trans hL')
  subst this
  intro W' hW'
  obtain ⟨W0, hW0, rfl⟩ := (hmem W').mp hW'
  obtain ⟨π, hπ, hrun⟩ := irresolute_complete _ (phragmen_rule_wf C) _ _ projects hP
    (phragmen_pool_sub C projects init loads) W0 hW0
  refine ⟨π, hπ, W0, ?_, rfl⟩
  rw [phragmen_run_perm C projects init loads π (fun x hx => hπ.mem_iff.mpr hx) cost' score', hrun]

end Phragmen

/-! ### Equal Shares (the rule is only consulted on a real tie: `orderIfTie`) -/

section MES
open MES
variable (V : VCtx) (I : Inst) (init : List Pid) (b0 : Rat)

theorem mes_pool_sub : ∀ x ∈ (rule V I.cost).pool (initState V I init b0), x ∈ I.projects := by
  intro x hx
  have hx' : x ∈ initPool V I init := hx
  exact (mem_initPool.mp hx').1

theorem mes_runAt_perm (π : List Pid) (hπ : ∀ x ∈ I.projects, x ∈ π) (cost : Pid → Rat)
    (score : Pid → Nat) :
    runAt V I init (Tie.order (.perm π) cost score) b0 =
      .ok ((rule V I.cost).runPi π (initPool V I init).length (initState V I init b0)) :=
  (rule V I.cost).run_eq_runPi (mes_rule_wf V I.cost) π _
    (orderIfTie_head π _ (fun _ hT => Tie.order_perm_head π cost score hT)) _ _
    (fun x hx => hπ x (mes_pool_sub V I init b0 x hx))

theorem mes_irresolute_nodup {t : Tie} (ht : t ≠ .refuse) (cost : Pid → Rat) (score : Pid → Nat) :
    ∃ L, runAllAt V I init (Tie.order t cost score) b0 = .ok L ∧ L.Nodup ∧
      ∀ W, W ∈ L ↔ ∃ W0 ∈ (rule V I.cost).runAllP (initPool V I init).length
        (initState V I init b0), W = sortIds W0 := by
  unfold runAllAt
  rw [Tie.order_ok_fun ht, orderIfTie_ok]
  exact (rule V I.cost).runAll_canon _ (ordIfTie_perm (Tie.ord_perm t cost score)) _ _

theorem mes_irresolute_sound {t : Tie} (ht : t ≠ .refuse) (cost cost' : Pid → Rat)
    (score score' : Pid → Nat) {L : List (List Pid)}
    (hL : runAllAt V I init (Tie.order t cost score) b0 = .ok L)
    (π : List Pid) (hπ : ∀ x ∈ I.projects, x ∈ π) :
    ∃ W, runAt V I init (Tie.order (.perm π) cost' score') b0 = .ok W ∧ sortIds W ∈ L := by
  obtain ⟨L', hL', _, hmem⟩ := mes_irresolute_nodup V I init b0 ht cost score
  have : L = L' := Except.ok.inj (hL.symm.trans hL')
  subst this
  refine ⟨_, mes_runAt_perm V I init b0 π hπ cost' score', (hmem _).mpr ⟨_, ?_, rfl⟩⟩
  exact irresolute_sound _ (mes_rule_wf V I.cost) π _ _
    (fun x hx => hπ x (mes_pool_sub V I init b0 x hx))

theorem mes_resolute_mem {t : Tie} (ht : t ≠ .refuse) (cost cost' : Pid → Rat)
    (score score' : Pid → Nat) {L : List (List Pid)}
    (hL : runAllAt V I init (Tie.order t cost score) b0 = .ok L)
    (t' : Tie) {W : List Pid} (hW : runAt V I init (Tie.order t' cost' score') b0 = .ok W) :
    sortIds W ∈ L := by
  obtain ⟨L', hL', _, hmem⟩ := mes_irresolute_nodup V I init b0 ht cost score
  have : L = L' := Except.ok.inj (hL.symm.trans hL')
  subst this
  refine (hmem _).mpr ⟨W, ?_, rfl⟩
  exact (rule V I.cost).run_mem_runAllP _ (orderIfTie_mem (Tie.order_mem t' cost' score'))
    (orderIfTie_ne_nil (Tie.order_ne_nil t' cost' score')) _ _ W hW

theorem mes_irresolute_complete {t : Tie} (ht : t ≠ .refuse) (cost cost' : Pid → Rat)
    (score score' : Pid → Nat) {L : List (List Pid)}
    (hL : runAllAt V I init (Tie.order t cost score) b0 = .ok L) (hP : I.projects.Nodup) :
    ∀ W' ∈ L, ∃ π : List Pid, π.Perm I.projects ∧
      ∃ W, runAt V I init (Tie.order (.perm π) cost' score') b0 = .ok W ∧ W' = sortIds W := by
  obtain ⟨L', hL', _, hmem⟩ := mes_irresolute_nodup V I init b0 ht cost score
  have : L = L' := Except.ok.inj (hL.symm.trans hL')
  subst this
  intro W' hW'
  obtain ⟨W0, hW0, rfl⟩ := (hmem W').mp hW'
  obtain ⟨π, hπ, hrun⟩ := irresolute_complete _ (mes_rule_wf V I.cost) _ _ I.projects hP
    (mes_pool_sub V I init b0) W0 hW0
  refine ⟨π, hπ, W0, ?_, rfl⟩
  rw [mes_runAt_perm V I init b0 π (fun x hx => hπ.mem_iff.mpr hx) cost' score', hrun]

/-- `method_of_equal_shares` (plain) is `runAt`/`runAllAt` at the per-voter share budget/n, so
    the four statements above are statements about `MES.run` and `MES.runAll` -/
theorem mes_run_is_runAt (order : List Pid → Except Err (List Pid)) :
    MES.run V I init order = runAt V I init order (I.budget / (numVoters V : Nat)) ∧
    MES.runAll V I init order = runAllAt V I init order (I.budget / (numVoters V : Nat)) :=
  ⟨rfl, rfl⟩

end MES

/-! ### The hypotheses are satisfiable and the statements are not vacuous -/

def gI : Inst := ⟨[2, 0, 1], fun _ => 1, 2⟩
def gsat : List Pid → Rat := fun l => (l.length : Nat)

/-- greedy, three unit-cost projects with the same marginal satisfaction, budget 2:
    three irresolute outcomes; the order 2 < 1 < 0 realises {1, 2} -/
example : Greedy.generalAll gsat gI [] (Tie.order .lexico gI.cost (fun _ => 0)) =
      .ok [[0, 1], [0, 2], [1, 2]] ∧
    Greedy.general gsat gI [] (Tie.order (.perm [2, 1, 0]) gI.cost (fun _ => 0)) = .ok [2, 1] ∧
    gI.projects.Nodup ∧ (∀ x ∈ gI.projects, x ∈ [2, 1, 0]) ∧ Tie.lexico ≠ Tie.refuse := by
  refine ⟨by decide +kernel, by decide +kernel, by decide, by decide, by decide⟩

def pC : Phragmen.Ctx := ⟨[0, 1], fun _ => 1, fun _ _ => true, fun _ => 1, 1⟩

/-- Phragmén, two voters approving both unit-cost projects, budget 1: two irresolute outcomes -/
example : Phragmen.runAll pC [1, 0] [] (fun _ => 0) (Tie.order .minCost pC.cost (fun _ => 0)) =
      .ok [[0], [1]] ∧
    Phragmen.run pC [1, 0] [] (fun _ => 0) (Tie.order (.perm [1, 0]) pC.cost (fun _ => 0)) =
      .ok [1] := by
  refine ⟨by decide +kernel, by decide +kernel⟩

def mV : VCtx := ⟨[0, 1], fun _ => 1, fun _ _ => 1⟩
def mI : Inst := ⟨[1, 0], fun _ => 1, 1⟩

/-- Equal Shares, two voters with utility 1 for both unit-cost projects, budget 1: two irresolute
    outcomes -/
example : MES.runAll mV mI [] (Tie.order .maxCost mI.cost (fun _ => 0)) = .ok [[0], [1]] ∧
    MES.run mV mI [] (Tie.order (.perm [1, 0]) mI.cost (fun _ => 0)) = .ok [1] := by
  refine ⟨by decide +kernel, by decide +kernel⟩

end Pabu.C08
