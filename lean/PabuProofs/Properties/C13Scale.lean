/-
  C13, the scaling clause — "the set of projects selected does not change when all costs and the
  budget are multiplied by the same positive factor" (model side).  Proofs: PabuProofs/Lemmas/Scale.lean.

  `scaleI k I` is the instance with every cost and the budget multiplied by `k`; `scaleV μ V` the
  Equal-Shares voters with every utility multiplied by `μ`.  The shipped satisfaction measures are
  homogeneous in (costs, budget): degree 1 for `Cost_Sat`, `Effort_Sat` (`factor = k`), degree 0 for
  all the others (`factor = 1`) — `sat_scale`.  No hypothesis besides `0 < k` (and `0 < μ`) is
  needed anywhere: the statements hold for all inputs of the model, whatever the signs of costs,
  budgets and utilities, and for every tie-breaking function, errors included.
-/
import PabuProofs.Lemmas.Scale
import PabuModel.Expand
namespace Pabu.C13
open Pabu Pabu.Scale

/-! ### Tie-breaking -/

/-- every shipped tie-breaking rule returns the same order (or the same refusal) when all costs
    are multiplied by `k > 0` -/
theorem tie_order_scale (t : Tie) (cost : Pid → Rat) (score : Pid → Nat) {k : Rat} (hk : 0 < k) :
    Tie.order t (fun p => k * cost p) score = Tie.order t cost score :=
  Scale.tie_order_scale t cost score hk

/-! ### Equal Shares -/

/-- the price of a project scales by `k / μ` when money and costs are multiplied by `k` and
    utilities by `μ` (so the projects tied for the least price are the same) -/
theorem mes_rho_scale {k μ : Rat} (hk : 0 < k) (hμ : 0 < μ) (V : VCtx) (cost : Pid → Rat)
    (b : Nat → Rat) (p : Pid) :
    MES.rho (scaleV μ V) (fun q => k * cost q) (fun i => k * b i) p =
      (MES.rho V cost b p).map (fun r => r * (k / μ)) :=
  Scale.MES.rho_scale hk hμ V cost b p

/-- one round: same tied set, payments × `k`, the purchase commutes with the scaling -/
theorem mes_round_scale {k μ : Rat} (hk : 0 < k) (hμ : 0 < μ) (V : VCtx) (cost : Pid → Rat)
    (s : MES.State) (t : Pid) :
    MES.tied (scaleV μ V) (fun q => k * cost q) (Scale.scaleS k s) = MES.tied V cost s ∧
      (∀ r i, MES.pay (scaleV μ V) (fun j => k * s.b j) t (r * (k / μ)) i = k * MES.pay V s.b t r i) ∧
      MES.buy (scaleV μ V) (fun q => k * cost q) (Scale.scaleS k s) t =
        Scale.scaleS k (MES.buy V cost s t) :=
  ⟨Scale.MES.tied_scale hk hμ V cost s, fun r i => Scale.MES.pay_scale hk hμ V s.b t r i,
   Scale.MES.buy_scale hk hμ V cost s t⟩

/-- **mes_scale**: Equal Shares (plain), resolute and irresolute, any tie-breaking function -/
theorem mes_scale {k μ : Rat} (hk : 0 < k) (hμ : 0 < μ) (V : VCtx) (I : Inst) (init : List Pid)
    (order : List Pid → Except Err (List Pid)) :
    MES.run (scaleV μ V) (scaleI k I) init order = MES.run V I init order ∧
      MES.runAll (scaleV μ V) (scaleI k I) init order = MES.runAll V I init order :=
  Scale.MES.run_scale hk hμ V I init order

/-- … at a given per-voter budget (× `k`) -/
theorem mes_scale_at {k μ : Rat} (hk : 0 < k) (hμ : 0 < μ) (V : VCtx) (I : Inst) (init : List Pid)
    (order : List Pid → Except Err (List Pid)) (b0 : Rat) :
    MES.runAt (scaleV μ V) (scaleI k I) init order (k * b0) = MES.runAt V I init order b0 ∧
      MES.runAllAt (scaleV μ V) (scaleI k I) init order (k * b0) = MES.runAllAt V I init order b0 :=
  Scale.MES.runAt_scale hk hμ V I init order b0

/-- … and the iterated variant (`voter_budget_increment`; start budget and increment × `k`) -/
theorem mes_scale_iterated {k μ : Rat} (hk : 0 < k) (hμ : 0 < μ) (V : VCtx) (I : Inst)
    (init : List Pid) (order : List Pid → Except Err (List Pid)) (inc : Rat) (fuel : Nat) (b0 : Rat) :
    (∀ prev, MES.iterated (scaleV μ V) (scaleI k I) init order (k * inc) fuel (k * b0) prev =
      MES.iterated V I init order inc fuel b0 prev) ∧
    (∀ prev, MES.iteratedAll (scaleV μ V) (scaleI k I) init order (k * inc) fuel (k * b0) prev =
      MES.iteratedAll V I init order inc fuel b0 prev) :=
  Scale.MES.iterated_scale hk hμ V I init order inc fuel b0

/-! ### Phragmén -/

/-- the purchase instants scale by `k` -/
theorem phragmen_newMax_scale (k : Rat) (C : Phragmen.Ctx) (s : Phragmen.State) (p : Pid) :
    Phragmen.newMax (Scale.Phragmen.scaleC k C) (Scale.Phragmen.scaleS k s) p =
      (Phragmen.newMax C s p).map (fun x => k * x) :=
  Scale.Phragmen.newMax_scale k C s p

/-- **phragmen_scale**: costs, budget and initial loads × `k` -/
theorem phragmen_scale {k : Rat} (hk : 0 < k) (C : Phragmen.Ctx) (projects init : List Pid)
    (loads : Nat → Rat) (order : List Pid → Except Err (List Pid)) :
    Phragmen.run (Scale.Phragmen.scaleC k C) projects init (fun i => k * loads i) order =
        Phragmen.run C projects init loads order ∧
      Phragmen.runAll (Scale.Phragmen.scaleC k C) projects init (fun i => k * loads i) order =
        Phragmen.runAll C projects init loads order :=
  Scale.Phragmen.run_scale hk C projects init loads order

/-! ### Greedy welfare -/

/-- **greedy_scale** (general path): costs and budget × `k`, total satisfaction × `μ` -/
theorem greedy_scale {k μ : Rat} (hk : 0 < k) (hμ : 0 < μ) (tsat : List Pid → Rat) (I : Inst)
    (init : List Pid) (order : List Pid → Except Err (List Pid)) :
    Greedy.general (fun l => μ * tsat l) (scaleI k I) init order = Greedy.general tsat I init order ∧
      Greedy.generalAll (fun l => μ * tsat l) (scaleI k I) init order =
        Greedy.generalAll tsat I init order :=
  Scale.Greedy.general_scale hk hμ tsat I init order

/-- **greedy_additive_scale** (additive fast path): scores × `μ` -/
theorem greedy_additive_scale {k μ : Rat} (hk : 0 < k) (hμ : 0 < μ) (score : Pid → Rat) (I : Inst)
    (init : List Pid) (order : List Pid → Except Err (List Pid)) :
    Greedy.additive (fun q => μ * score q) (scaleI k I) init order =
      Greedy.additive score I init order :=
  Scale.Greedy.additive_scale hk hμ score I init order

/-! ### The measures are homogeneous -/

/-- the three normalisers: the cheapest-first count and the best score do not change, the best
    cost scales by `k` -/
theorem normalisers_scale {k : Rat} (hk : 0 < k) (cost : Pid → Rat) (score : Pid → Rat)
    (l : List Pid) (B : Rat) :
    maxCardinality (fun p => k * cost p) l (k * B) = maxCardinality cost l B ∧
      maxCostSpec (fun p => k * cost p) l (k * B) = k * maxCostSpec cost l B ∧
      maxScoreSpec (fun p => k * cost p) score l (k * B) = maxScoreSpec cost score l B :=
  ⟨maxCardinality_scale hk cost l B, maxCostSpec_scale hk cost l B, maxScoreSpec_scale hk cost score l B⟩

/-- **sat_scale**: `sat_project` and `sat` of every shipped measure are multiplied by
    `factor μm k` (`k` for `Cost_Sat`, `Effort_Sat`; `1` for all the others) -/
theorem sat_scale {k : Rat} (hk : 0 < k) (μm : Measure) (I : Inst) (P : Profile) (b : Ballot) :
    (∀ p, satProject μm (scaleI k I) P b p = factor μm k * satProject μm I P b p) ∧
      (∀ l, sat μm (scaleI k I) P b l = factor μm k * sat μm I P b l) :=
  ⟨satProject_scale hk μm I P b, Scale.sat_scale hk μm I P b⟩

theorem factor_values (k : Rat) :
    factor .cost k = k ∧ factor .effort k = k ∧ factor .cardinality k = 1 ∧
      factor .relCardinality k = 1 ∧ factor .relCost k = 1 ∧ factor .relCostApprox k = 1 ∧
      factor .addCardinal k = 1 ∧ factor .addCardinalRel k = 1 ∧ factor .borda k = 1 ∧
      factor .cc k = 1 :=
  ⟨rfl, rfl, rfl, rfl, rfl, rfl, rfl, rfl, rfl, rfl⟩

/-! ### Whole elections: (instance, profile, measure, tie-breaking rule) -/

/-- the voters the driver builds for the scaled instance are the scaled voters -/
theorem ofProfile_scale {k : Rat} (hk : 0 < k) (μm : Measure) (I : Inst) (P : Profile) :
    VCtx.ofProfile μm (scaleI k I) P = scaleV (factor μm k) (VCtx.ofProfile μm I P) := by
  unfold VCtx.ofProfile scaleV
  congr 1
  funext i p
  show (match P[i]? with | some e => satProject μm (scaleI k I) P e.1 p | none => 0) =
    factor μm k * (match P[i]? with | some e => satProject μm I P e.1 p | none => 0)
  cases P[i]? with
  | none => show (0 : Rat) = factor μm k * 0; rw [mul_zero]
  | some e => exact satProject_scale hk μm I P e.1 p

theorem totalSatOf_scale {k : Rat} (hk : 0 < k) (μm : Measure) (I : Inst) (P : Profile) :
    totalSatOf μm (scaleI k I) P = fun l => factor μm k * totalSatOf μm I P l := by
  funext l
  unfold totalSatOf
  rw [← sumOver_mul_left]
  congr 1; funext e
  rw [Scale.sat_scale hk]; ring

theorem profitOf_scale {k : Rat} (hk : 0 < k) (μm : Measure) (I : Inst) (P : Profile) :
    profitOf μm (scaleI k I) P = fun p => factor μm k * profitOf μm I P p := by
  funext p
  unfold profitOf
  rw [← sumOver_mul_left]
  congr 1; funext e
  rw [satProject_scale hk]; ring

/-- **Equal Shares on an election**: every shipped measure, every shipped tie-breaking rule
    (keyed on the scaled costs), resolute and irresolute -/
theorem mes_scale_election {k : Rat} (hk : 0 < k) (μm : Measure) (I : Inst) (P : Profile)
    (init : List Pid) (t : Tie) :
    MES.run (VCtx.ofProfile μm (scaleI k I) P) (scaleI k I) init
        (Tie.order t (scaleI k I).cost P.approvalScore) =
      MES.run (VCtx.ofProfile μm I P) I init (Tie.order t I.cost P.approvalScore) ∧
    MES.runAll (VCtx.ofProfile μm (scaleI k I) P) (scaleI k I) init
        (Tie.order t (scaleI k I).cost P.approvalScore) =
      MES.runAll (VCtx.ofProfile μm I P) I init (Tie.order t I.cost P.approvalScore) := by
  rw [ofProfile_scale hk, show (scaleI k I).cost = fun p => k * I.cost p from rfl,
    Scale.tie_order_scale t I.cost P.approvalScore hk]
  exact mes_scale hk (factor_pos μm hk) _ I init _

/-- **greedy welfare on an election**: general path (resolute, irresolute) and additive path -/
theorem greedy_scale_election {k : Rat} (hk : 0 < k) (μm : Measure) (I : Inst) (P : Profile)
    (init : List Pid) (t : Tie) :
    Greedy.general (totalSatOf μm (scaleI k I) P) (scaleI k I) init
        (Tie.order t (scaleI k I).cost P.approvalScore) =
      Greedy.general (totalSatOf μm I P) I init (Tie.order t I.cost P.approvalScore) ∧
    Greedy.generalAll (totalSatOf μm (scaleI k I) P) (scaleI k I) init
        (Tie.order t (scaleI k I).cost P.approvalScore) =
      Greedy.generalAll (totalSatOf μm I P) I init (Tie.order t I.cost P.approvalScore) ∧
    Greedy.additive (profitOf μm (scaleI k I) P) (scaleI k I) init
        (Tie.order t (scaleI k I).cost P.approvalScore) =
      Greedy.additive (profitOf μm I P) I init (Tie.order t I.cost P.approvalScore) := by
  rw [totalSatOf_scale hk, profitOf_scale hk, show (scaleI k I).cost = fun p => k * I.cost p from rfl,
    Scale.tie_order_scale t I.cost P.approvalScore hk]
  exact ⟨(greedy_scale hk (factor_pos μm hk) _ I init _).1,
    (greedy_scale hk (factor_pos μm hk) _ I init _).2,
    greedy_additive_scale hk (factor_pos μm hk) _ I init _⟩

/-- **Phragmén on an election** (initial loads × `k`; the default loads are 0) -/
theorem phragmen_scale_election {k : Rat} (hk : 0 < k) (I : Inst) (P : Profile) (init : List Pid)
    (loads : Nat → Rat) (t : Tie) :
    Phragmen.run (Phragmen.Ctx.ofProfile (scaleI k I) P) I.projects init (fun i => k * loads i)
        (Tie.order t (scaleI k I).cost P.approvalScore) =
      Phragmen.run (Phragmen.Ctx.ofProfile I P) I.projects init loads
        (Tie.order t I.cost P.approvalScore) ∧
    Phragmen.runAll (Phragmen.Ctx.ofProfile (scaleI k I) P) I.projects init (fun i => k * loads i)
        (Tie.order t (scaleI k I).cost P.approvalScore) =
      Phragmen.runAll (Phragmen.Ctx.ofProfile I P) I.projects init loads
        (Tie.order t I.cost P.approvalScore) := by
  rw [show (scaleI k I).cost = fun p => k * I.cost p from rfl,
    Scale.tie_order_scale t I.cost P.approvalScore hk]
  exact phragmen_scale hk (Phragmen.Ctx.ofProfile I P) I.projects init loads _

/-! ### The hypotheses are satisfiable; the statements are not vacuous (λ = 10/7) -/

def exI : Inst := ⟨[0, 1, 2, 3], fun p => (p : Rat) + 1, 7⟩
def exP : Profile := [(.app [0, 1], 2), (.app [1, 2], 1), (.app [0, 3], 1), (.app [2, 3], 3)]

example : (0 : Rat) < 10 / 7 := by norm_num

/-- Equal Shares with `Cost_Sat` (utilities scale with the costs) and the `max_cost` rule on the
    instance scaled by 10/7 (costs 10/7, 20/7, 30/7, 40/7, budget 10): same non-trivial outcome -/
example :
    MES.run (VCtx.ofProfile .cost (scaleI (10 / 7) exI) exP) (scaleI (10 / 7) exI) []
        (Tie.order .maxCost (scaleI (10 / 7) exI).cost exP.approvalScore) = .ok [3, 1] ∧
      MES.run (VCtx.ofProfile .cost exI exP) exI [] (Tie.order .maxCost exI.cost exP.approvalScore) =
        .ok [3, 1] := by
  constructor <;> decide +kernel

/-- … with `Cardinality_Sat` (utilities do not scale) -/
example :
    MES.runAll (VCtx.ofProfile .cardinality (scaleI (10 / 7) exI) exP) (scaleI (10 / 7) exI) []
        (Tie.order .minCost (scaleI (10 / 7) exI).cost exP.approvalScore) = .ok [[0, 1, 2]] ∧
      MES.runAll (VCtx.ofProfile .cardinality exI exP) exI []
        (Tie.order .minCost exI.cost exP.approvalScore) = .ok [[0, 1, 2]] := by
  constructor <;> decide +kernel

/-- greedy (`Relative_Cost_Sat`, brute-force normaliser) and Phragmén on the same pair -/
example :
    Greedy.general (totalSatOf .relCost (scaleI (10 / 7) exI) exP) (scaleI (10 / 7) exI) []
        (Tie.order .lexico (scaleI (10 / 7) exI).cost exP.approvalScore) =
      Greedy.general (totalSatOf .relCost exI exP) exI [] (Tie.order .lexico exI.cost exP.approvalScore) ∧
    Phragmen.run (Phragmen.Ctx.ofProfile (scaleI (10 / 7) exI) exP) exI.projects []
        (fun i => 10 / 7 * (fun _ => 0) i) (Tie.order .lexico (scaleI (10 / 7) exI).cost exP.approvalScore) =
      .ok [0, 2, 1] := by
  constructor
  · exact (greedy_scale_election (by norm_num) .relCost exI exP [] .lexico).1
  · decide +kernel

end Pabu.C13
