/-
  C17 (validation clause) — the Counter arithmetic every multiprofile inherits, for ALL counters (any keys, any integer
  counts, zero and negative ones included), and the re-validating wrapper of `_wrap_methods`.

  * `get_add`, `get_sub`, `get_union`, `get_inter`, `get_pos`, `get_neg`: the operators are pointwise —
    `max 0 (a[x] + b[x])`, `max 0 (a[x] - b[x])`, `max 0 (max a[x] b[x])`, `max 0 (min a[x] b[x])`, … — and their results
    have distinct keys and positive counts only (`*_nodup`, `*_positive`);
  * `*_support`: where the keys of a result come from.  `&`, unary `+` and unary `-` only return keys of `self`;
    `+` and `|` also return keys of the OPERAND with a positive count, and `-` returns keys of the operand with a
    NEGATIVE count (`sub_support`);
  * `*_valid`: with both operands holding only ballots of the right type, so does the result;
    `inter_valid_left`, `sub_valid_of_nonneg`: what can be said when only `self` is known to be valid;
    `sub_not_closed`: a valid multiprofile minus a plain Counter that maps a wrong-typed ballot to -1 holds that ballot —
    "the result of `-` only holds ballots of self" is FALSE;
  * `wrapped_sound`, `wrapped_refuses`, `wrapped_total`: the wrapper returns exactly the results all of whose keys are valid
    and raises TypeError otherwise; `unwrapped_sub_admits_intruder`: without the re-validation (seeded change C17-r6A) a
    validated multiprofile ends up holding a ballot of the wrong type, on the input the wrapper refuses.
-/
import PabuModel.CounterArith
import Mathlib.Tactic.Linarith
import Mathlib.Order.Basic
namespace Pabu
namespace CounterArith

set_option linter.unusedSectionVars false
variable {α : Type} [DecidableEq α]

/-! ### basic facts -/

theorem keepPos_eq_some {x : α} {m : Int} {p : α × Int} : keepPos x m = some p ↔ 0 < m ∧ p = (x, m) := by
  unfold keepPos
  by_cases h : 0 < m
  · rw [if_pos h]
    constructor
    · intro e; injection e with e; exact ⟨h, e.symm⟩
    · rintro ⟨_, rfl⟩; rfl
  · rw [if_neg h]
    constructor
    · intro e; cases e
    · rintro ⟨h', _⟩; exact absurd h' h

theorem mem_keys {c : Counter α} {x : α} : x ∈ keys c ↔ ∃ n, (x, n) ∈ c := by
  unfold keys
  rw [List.mem_map]
  constructor
  · rintro ⟨⟨y, n⟩, h, rfl⟩; exact ⟨n, h⟩
  · rintro ⟨n, h⟩; exact ⟨(x, n), h, rfl⟩

theorem has_eq_true {c : Counter α} {x : α} : has c x = true ↔ x ∈ keys c := by
  unfold has
  rw [List.any_eq_true, mem_keys]
  constructor
  · rintro ⟨⟨y, n⟩, h, hy⟩
    have : y = x := of_decide_eq_true hy
    subst this; exact ⟨n, h⟩
  · rintro ⟨n, h⟩; exact ⟨(x, n), h, decide_eq_true rfl⟩

theorem has_eq_false {c : Counter α} {x : α} : has c x = false ↔ x ∉ keys c := by
  rw [← has_eq_true, Bool.not_eq_true]

theorem get_of_not_mem {c : Counter α} {x : α} (h : x ∉ keys c) : get c x = 0 := by
  unfold get
  have : c.find? (fun e => decide (e.1 = x)) = none := by
    rw [List.find?_eq_none]
    intro e he hx
    exact h (mem_keys.2 ⟨e.2, by have : e.1 = x := of_decide_eq_true hx; rw [← this]; exact he⟩)
  rw [this]

theorem get_of_mem {c : Counter α} {x : α} {n : Int} (hnd : (keys c).Nodup) (h : (x, n) ∈ c) : get c x = n := by
  induction c with
  | nil => cases h
  | cons e c ih =>
    unfold get
    rw [List.find?_cons]
    by_cases hx : e.1 = x
    · rw [decide_eq_true hx]
      rcases List.mem_cons.1 h with h | h
      · rw [← h]
      · exfalso
        have hnd' : e.1 ∉ keys c := (List.nodup_cons.1 hnd).1
        exact hnd' (hx ▸ mem_keys.2 ⟨n, h⟩)
    · rw [decide_eq_false hx]
      rcases List.mem_cons.1 h with h | h
      · exact absurd (by rw [← h]) hx
      · exact ih (List.nodup_cons.1 hnd).2 h

theorem get_pos_mem {c : Counter α} {x : α} (h : get c x ≠ 0) : x ∈ keys c := by
  by_contra hx
  exact h (get_of_not_mem hx)

/-- a counter with distinct keys is determined at `x` by whether it has an entry for `x` -/
theorem get_eq_of_entries {c : Counter α} {x : α} {v : Int} (hnd : (keys c).Nodup)
    (h1 : ∀ n, (x, n) ∈ c → n = v) (h2 : x ∉ keys c → v = 0) : get c x = v := by
  by_cases hx : x ∈ keys c
  · obtain ⟨n, hn⟩ := mem_keys.1 hx
    rw [get_of_mem hnd hn, h1 n hn]
  · rw [get_of_not_mem hx, h2 hx]

/-! ### the two halves of a binary operator -/

/-- first loop: the entries of `self`, with a new count `f key count`, kept when positive -/
def first (f : α → Int → Int) (a : Counter α) : Counter α := a.filterMap (fun e => keepPos e.1 (f e.1 e.2))

/-- second loop: the entries of `other` whose key is not in `self` and whose count passes `q`, stored as `g count` -/
def second (q : Int → Bool) (g : Int → Int) (a b : Counter α) : Counter α :=
  b.filterMap (fun e => if !has a e.1 && q e.2 then some (e.1, g e.2) else none)

theorem mem_first {f : α → Int → Int} {a : Counter α} {x : α} {m : Int} :
    (x, m) ∈ first f a ↔ ∃ n, (x, n) ∈ a ∧ 0 < f x n ∧ m = f x n := by
  unfold first
  rw [List.mem_filterMap]
  constructor
  · rintro ⟨⟨y, n⟩, h, hk⟩
    obtain ⟨hp, he⟩ := keepPos_eq_some.1 hk
    injection he with e1 e2
    subst e1
    exact ⟨n, h, hp, e2⟩
  · rintro ⟨n, h, hp, rfl⟩
    exact ⟨(x, n), h, keepPos_eq_some.2 ⟨hp, rfl⟩⟩

theorem mem_second {q : Int → Bool} {g : Int → Int} {a b : Counter α} {x : α} {m : Int} :
    (x, m) ∈ second q g a b ↔ ∃ n, (x, n) ∈ b ∧ x ∉ keys a ∧ q n = true ∧ m = g n := by
  unfold second
  rw [List.mem_filterMap]
  constructor
  · rintro ⟨⟨y, n⟩, h, hk⟩
    by_cases hc : (!has a y && q n) = true
    · rw [if_pos hc] at hk
      injection hk with hk
      injection hk with e1 e2
      subst e1
      rw [Bool.and_eq_true, Bool.not_eq_true', has_eq_false] at hc
      exact ⟨n, h, hc.1, hc.2, e2.symm⟩
    · rw [if_neg hc] at hk; cases hk
  · rintro ⟨n, h, hx, hq, rfl⟩
    refine ⟨(x, n), h, ?_⟩
    have hc : (!has a x && q n) = true := by
      rw [Bool.and_eq_true, Bool.not_eq_true', has_eq_false]; exact ⟨hx, hq⟩
    show (if (!has a x && q n) = true then some (x, g n) else none) = some (x, g n)
    rw [if_pos hc]

theorem keys_first_sublist (f : α → Int → Int) (a : Counter α) : (keys (first f a)).Sublist (keys a) := by
  induction a with
  | nil => exact List.Sublist.refl _
  | cons e a ih =>
    unfold first keys
    rw [List.filterMap_cons]
    cases hk : keepPos e.1 (f e.1 e.2) with
    | none => exact List.Sublist.cons _ ih
    | some p =>
      obtain ⟨_, hp⟩ := keepPos_eq_some.1 hk
      rw [List.map_cons, List.map_cons, hp]
      exact List.Sublist.cons_cons _ ih

theorem keys_second_sublist (q : Int → Bool) (g : Int → Int) (a b : Counter α) :
    (keys (second q g a b)).Sublist (keys b) := by
  induction b with
  | nil => exact List.Sublist.refl _
  | cons e b ih =>
    unfold second keys
    rw [List.filterMap_cons]
    by_cases hc : (!has a e.1 && q e.2) = true
    · rw [if_pos hc, List.map_cons, List.map_cons]
      exact List.Sublist.cons_cons _ ih
    · rw [if_neg hc]
      exact List.Sublist.cons _ ih

theorem keys_nil_nodup : (keys ([] : Counter α)).Nodup := List.nodup_nil

theorem keys_append (c d : Counter α) : keys (c ++ d) = keys c ++ keys d := by
  unfold keys; rw [List.map_append]

theorem binop_nodup {f : α → Int → Int} {q : Int → Bool} {g : Int → Int} {a b : Counter α}
    (ha : (keys a).Nodup) (hb : (keys b).Nodup) : (keys (first f a ++ second q g a b)).Nodup := by
  rw [keys_append, List.nodup_append]
  refine ⟨(keys_first_sublist f a).nodup ha, (keys_second_sublist q g a b).nodup hb, ?_⟩
  intro x hx1 y hx2 hxy
  subst hxy
  have h1 : x ∈ keys a := (keys_first_sublist f a).subset hx1
  obtain ⟨m, hm⟩ := mem_keys.1 hx2
  obtain ⟨_, _, hna, _⟩ := mem_second.1 hm
  exact hna h1

/-- the value of a binary operator at `x`, for operands with distinct keys -/
theorem get_binop {f : α → Int → Int} {q : Int → Bool} {g : Int → Int} {a b : Counter α}
    (ha : (keys a).Nodup) (hb : (keys b).Nodup) (x : α) (v : Int)
    (hin : x ∈ keys a → v = max 0 (f x (get a x)))
    (hout : x ∉ keys a → v = if q (get b x) = true ∧ x ∈ keys b then g (get b x) else 0) :
    get (first f a ++ second q g a b) x = v := by
  apply get_eq_of_entries (binop_nodup ha hb)
  · intro n hn
    rcases List.mem_append.1 hn with h | h
    · obtain ⟨k, hk, hp, rfl⟩ := mem_first.1 h
      rw [hin (mem_keys.2 ⟨k, hk⟩), get_of_mem ha hk]
      omega
    · obtain ⟨k, hk, hna, hq, rfl⟩ := mem_second.1 h
      rw [hout hna, get_of_mem hb hk, if_pos ⟨hq, mem_keys.2 ⟨k, hk⟩⟩]
  · intro hx
    rw [keys_append, List.mem_append, not_or] at hx
    by_cases hxa : x ∈ keys a
    · obtain ⟨k, hk⟩ := mem_keys.1 hxa
      rw [hin hxa, get_of_mem ha hk]
      have : ¬ 0 < f x k := fun hp => hx.1 (mem_keys.2 ⟨f x k, mem_first.2 ⟨k, hk, hp, rfl⟩⟩)
      omega
    · rw [hout hxa]
      by_cases hc : q (get b x) = true ∧ x ∈ keys b
      · exfalso
        obtain ⟨k, hk⟩ := mem_keys.1 hc.2
        rw [get_of_mem hb hk] at hc
        exact hx.2 (mem_keys.2 ⟨g k, mem_second.2 ⟨k, hk, hxa, hc.1, rfl⟩⟩)
      · rw [if_neg hc]

theorem add_eq (a b : Counter α) :
    add a b = first (fun x n => n + get b x) a ++ second (fun n => decide (0 < n)) (fun n => n) a b := rfl

theorem sub_eq (a b : Counter α) :
    sub a b = first (fun x n => n - get b x) a ++ second (fun n => decide (n < 0)) (fun n => 0 - n) a b := rfl

theorem union_eq (a b : Counter α) :
    union a b = first (fun x n => if n < get b x then get b x else n) a ++ second (fun n => decide (0 < n)) (fun n => n) a b := rfl

theorem inter_eq (a b : Counter α) : inter a b = first (fun x n => if n < get b x then n else get b x) a := rfl

theorem pos_eq (a : Counter α) : pos a = first (fun _ n => n) a := rfl

/-! ### the operators are pointwise -/

theorem get_add {a b : Counter α} (ha : (keys a).Nodup) (hb : (keys b).Nodup) (x : α) :
    get (add a b) x = max 0 (get a x + get b x) := by
  rw [add_eq]
  apply get_binop ha hb
  · intro _; rfl
  · intro hx
    rw [get_of_not_mem hx]
    by_cases hc : decide (0 < get b x) = true ∧ x ∈ keys b
    · rw [if_pos hc]; have := of_decide_eq_true hc.1; omega
    · rw [if_neg hc]
      by_cases hb' : x ∈ keys b
      · have : ¬ 0 < get b x := fun h => hc ⟨decide_eq_true h, hb'⟩
        omega
      · rw [get_of_not_mem hb']; rfl

theorem get_sub {a b : Counter α} (ha : (keys a).Nodup) (hb : (keys b).Nodup) (x : α) :
    get (sub a b) x = max 0 (get a x - get b x) := by
  rw [sub_eq]
  apply get_binop ha hb
  · intro _; rfl
  · intro hx
    rw [get_of_not_mem hx]
    by_cases hc : decide (get b x < 0) = true ∧ x ∈ keys b
    · rw [if_pos hc]; have := of_decide_eq_true hc.1; omega
    · rw [if_neg hc]
      by_cases hb' : x ∈ keys b
      · have : ¬ get b x < 0 := fun h => hc ⟨decide_eq_true h, hb'⟩
        omega
      · rw [get_of_not_mem hb']; rfl

theorem get_union {a b : Counter α} (ha : (keys a).Nodup) (hb : (keys b).Nodup) (x : α) :
    get (union a b) x = max 0 (max (get a x) (get b x)) := by
  rw [union_eq]
  apply get_binop ha hb
  · intro _
    show max 0 (max (get a x) (get b x)) = max 0 (if get a x < get b x then get b x else get a x)
    split <;> omega
  · intro hx
    rw [get_of_not_mem hx]
    by_cases hc : decide (0 < get b x) = true ∧ x ∈ keys b
    · rw [if_pos hc]; have := of_decide_eq_true hc.1; omega
    · rw [if_neg hc]
      by_cases hb' : x ∈ keys b
      · have : ¬ 0 < get b x := fun h => hc ⟨decide_eq_true h, hb'⟩
        omega
      · rw [get_of_not_mem hb']; rfl

theorem first_eq_append_nil (f : α → Int → Int) (a b : Counter α) :
    first f a = first f a ++ second (fun _ => false) (fun n => n) a b := by
  have : second (fun _ => false) (fun n => n) a b = [] := by
    unfold second
    rw [List.filterMap_eq_nil_iff]
    intro e _
    rw [Bool.and_false]
    rfl
  rw [this, List.append_nil]

theorem get_inter {a b : Counter α} (ha : (keys a).Nodup) (hb : (keys b).Nodup) (x : α) :
    get (inter a b) x = max 0 (min (get a x) (get b x)) := by
  rw [inter_eq, first_eq_append_nil _ a b]
  apply get_binop ha hb
  · intro _
    show max 0 (min (get a x) (get b x)) = max 0 (if get a x < get b x then get a x else get b x)
    split <;> omega
  · intro hx
    rw [get_of_not_mem hx, if_neg (fun h => by cases h.1)]
    omega

theorem get_pos {a : Counter α} (ha : (keys a).Nodup) (x : α) : get (pos a) x = max 0 (get a x) := by
  rw [pos_eq, first_eq_append_nil _ a ([] : Counter α)]
  apply get_binop ha keys_nil_nodup
  · intro _; rfl
  · intro hx
    rw [get_of_not_mem hx, if_neg (fun h => by cases h.1)]
    rfl

theorem neg_eq_sub_nil (a : Counter α) : neg a = sub ([] : Counter α) a := by
  unfold neg sub
  rw [List.filterMap_nil, List.nil_append]
  induction a with
  | nil => rfl
  | cons e a ih =>
    rw [List.filterMap_cons, List.filterMap_cons, ih]
    have hh : has ([] : Counter α) e.1 = false := rfl
    rw [hh]
    by_cases h : e.2 < 0
    · rw [if_pos h, decide_eq_true h]; rfl
    · rw [if_neg h, decide_eq_false h]; rfl

theorem get_neg {a : Counter α} (ha : (keys a).Nodup) (x : α) : get (neg a) x = max 0 (0 - get a x) := by
  rw [neg_eq_sub_nil, get_sub keys_nil_nodup ha, get_of_not_mem (by intro h; cases h)]

/-! ### results have distinct keys and positive counts -/

theorem add_nodup {a b : Counter α} (ha : (keys a).Nodup) (hb : (keys b).Nodup) : (keys (add a b)).Nodup := by rw [add_eq]; exact binop_nodup ha hb
theorem sub_nodup {a b : Counter α} (ha : (keys a).Nodup) (hb : (keys b).Nodup) : (keys (sub a b)).Nodup := by rw [sub_eq]; exact binop_nodup ha hb
theorem union_nodup {a b : Counter α} (ha : (keys a).Nodup) (hb : (keys b).Nodup) : (keys (union a b)).Nodup := by rw [union_eq]; exact binop_nodup ha hb
theorem inter_nodup {a b : Counter α} (ha : (keys a).Nodup) : (keys (inter a b)).Nodup := by rw [inter_eq]; exact (keys_first_sublist _ a).nodup ha

theorem add_positive (a b : Counter α) : ∀ e ∈ add a b, 0 < e.2 := by
  rintro ⟨x, m⟩ h
  rw [add_eq] at h
  rcases List.mem_append.1 h with h | h
  · obtain ⟨_, _, hp, rfl⟩ := mem_first.1 h; exact hp
  · obtain ⟨n, _, _, hq, rfl⟩ := mem_second.1 h; exact of_decide_eq_true hq

theorem sub_positive (a b : Counter α) : ∀ e ∈ sub a b, 0 < e.2 := by
  rintro ⟨x, m⟩ h
  rw [sub_eq] at h
  rcases List.mem_append.1 h with h | h
  · obtain ⟨_, _, hp, rfl⟩ := mem_first.1 h; exact hp
  · obtain ⟨n, _, _, hq, rfl⟩ := mem_second.1 h
    have := of_decide_eq_true hq
    show 0 < 0 - n
    omega

theorem union_positive (a b : Counter α) : ∀ e ∈ union a b, 0 < e.2 := by
  rintro ⟨x, m⟩ h
  rw [union_eq] at h
  rcases List.mem_append.1 h with h | h
  · obtain ⟨_, _, hp, rfl⟩ := mem_first.1 h; exact hp
  · obtain ⟨n, _, _, hq, rfl⟩ := mem_second.1 h; exact of_decide_eq_true hq

theorem inter_positive (a b : Counter α) : ∀ e ∈ inter a b, 0 < e.2 := by
  rintro ⟨x, m⟩ h
  rw [inter_eq] at h
  obtain ⟨_, _, hp, rfl⟩ := mem_first.1 h; exact hp

/-! ### where the keys of a result come from -/

theorem add_support {a b : Counter α} {x : α} (h : x ∈ keys (add a b)) :
    x ∈ keys a ∨ ∃ n, (x, n) ∈ b ∧ 0 < n := by
  obtain ⟨m, hm⟩ := mem_keys.1 h
  rw [add_eq] at hm
  rcases List.mem_append.1 hm with h | h
  · obtain ⟨n, hn, _, _⟩ := mem_first.1 h; exact Or.inl (mem_keys.2 ⟨n, hn⟩)
  · obtain ⟨n, hn, _, hq, _⟩ := mem_second.1 h; exact Or.inr ⟨n, hn, of_decide_eq_true hq⟩

/-- `a - b` holds keys of `a`, and the keys of `b` that `a` lacks and `b` maps to a NEGATIVE count -/
theorem sub_support {a b : Counter α} {x : α} (h : x ∈ keys (sub a b)) :
    x ∈ keys a ∨ ∃ n, (x, n) ∈ b ∧ n < 0 := by
  obtain ⟨m, hm⟩ := mem_keys.1 h
  rw [sub_eq] at hm
  rcases List.mem_append.1 hm with h | h
  · obtain ⟨n, hn, _, _⟩ := mem_first.1 h; exact Or.inl (mem_keys.2 ⟨n, hn⟩)
  · obtain ⟨n, hn, _, hq, _⟩ := mem_second.1 h; exact Or.inr ⟨n, hn, of_decide_eq_true hq⟩

theorem union_support {a b : Counter α} {x : α} (h : x ∈ keys (union a b)) :
    x ∈ keys a ∨ ∃ n, (x, n) ∈ b ∧ 0 < n := by
  obtain ⟨m, hm⟩ := mem_keys.1 h
  rw [union_eq] at hm
  rcases List.mem_append.1 hm with h | h
  · obtain ⟨n, hn, _, _⟩ := mem_first.1 h; exact Or.inl (mem_keys.2 ⟨n, hn⟩)
  · obtain ⟨n, hn, _, hq, _⟩ := mem_second.1 h; exact Or.inr ⟨n, hn, of_decide_eq_true hq⟩

theorem inter_support {a b : Counter α} {x : α} (h : x ∈ keys (inter a b)) : x ∈ keys a ∧ x ∈ keys b := by
  obtain ⟨m, hm⟩ := mem_keys.1 h
  rw [inter_eq] at hm
  obtain ⟨n, hn, hp, _⟩ := mem_first.1 hm
  refine ⟨mem_keys.2 ⟨n, hn⟩, get_pos_mem ?_⟩
  intro h0
  rw [h0] at hp
  split at hp <;> omega

theorem pos_support {a : Counter α} {x : α} (h : x ∈ keys (pos a)) : x ∈ keys a :=
  (keys_first_sublist _ a).subset (by rw [← pos_eq]; exact h)

theorem neg_support {a : Counter α} {x : α} (h : x ∈ keys (neg a)) : x ∈ keys a := by
  rw [neg_eq_sub_nil] at h
  rcases sub_support h with h | ⟨n, hn, _⟩
  · cases h
  · exact mem_keys.2 ⟨n, hn⟩

/-! ### ballots of the right type -/

section valid
variable (valid : α → Bool)

theorem add_valid {a b : Counter α} (ha : ∀ x ∈ keys a, valid x = true) (hb : ∀ x ∈ keys b, valid x = true) :
    ∀ x ∈ keys (add a b), valid x = true := by
  intro x h
  rcases add_support h with h | ⟨n, hn, _⟩
  · exact ha x h
  · exact hb x (mem_keys.2 ⟨n, hn⟩)

theorem sub_valid {a b : Counter α} (ha : ∀ x ∈ keys a, valid x = true) (hb : ∀ x ∈ keys b, valid x = true) :
    ∀ x ∈ keys (sub a b), valid x = true := by
  intro x h
  rcases sub_support h with h | ⟨n, hn, _⟩
  · exact ha x h
  · exact hb x (mem_keys.2 ⟨n, hn⟩)

theorem union_valid {a b : Counter α} (ha : ∀ x ∈ keys a, valid x = true) (hb : ∀ x ∈ keys b, valid x = true) :
    ∀ x ∈ keys (union a b), valid x = true := by
  intro x h
  rcases union_support h with h | ⟨n, hn, _⟩
  · exact ha x h
  · exact hb x (mem_keys.2 ⟨n, hn⟩)

/-- `&`, whatever the operand holds -/
theorem inter_valid_left {a b : Counter α} (ha : ∀ x ∈ keys a, valid x = true) : ∀ x ∈ keys (inter a b), valid x = true :=
  fun x h => ha x (inter_support h).1

theorem pos_valid {a : Counter α} (ha : ∀ x ∈ keys a, valid x = true) : ∀ x ∈ keys (pos a), valid x = true :=
  fun x h => ha x (pos_support h)

theorem neg_valid {a : Counter α} (ha : ∀ x ∈ keys a, valid x = true) : ∀ x ∈ keys (neg a), valid x = true :=
  fun x h => ha x (neg_support h)

/-- `-` only returns keys of `self` when the operand has no negative count (e.g. when it is itself the result of an operator) -/
theorem sub_valid_of_nonneg {a b : Counter α} (ha : ∀ x ∈ keys a, valid x = true) (hb : ∀ e ∈ b, 0 ≤ e.2) :
    ∀ x ∈ keys (sub a b), valid x = true := by
  intro x h
  rcases sub_support h with h | ⟨n, hn, hneg⟩
  · exact ha x h
  · have := hb (x, n) hn
    simp only at this
    omega

/-- and not otherwise: a valid counter minus `{7: -1}` holds 7 -/
theorem sub_not_closed :
    ∃ (a b : Counter Nat) (valid : Nat → Bool), (∀ x ∈ keys a, valid x = true) ∧ (keys a).Nodup ∧ (keys b).Nodup ∧
      ¬ ∀ x ∈ keys (sub a b), valid x = true := by
  refine ⟨[(0, 2)], [(7, -1)], fun x => decide (x < 5), ?_, ?_, ?_, ?_⟩
  · intro x hx
    have : x = 0 := by simpa [keys] using hx
    subst this; rfl
  · decide
  · decide
  · intro h
    have h7 : (7 : Nat) ∈ keys (sub ([(0, 2)] : Counter Nat) [(7, -1)]) := by decide
    have := h 7 h7
    revert this
    decide

/-! ### the wrapper of `_wrap_methods` -/

theorem wrapped_sound {op : Counter α → Counter α → Counter α} {a b r : Counter α}
    (h : wrapped valid op a b = .ok r) : r = op a b ∧ ∀ x ∈ keys r, valid x = true := by
  unfold wrapped validate at h
  by_cases hv : (keys (op a b)).all valid = true
  · rw [if_pos hv] at h
    injection h with h
    subst h
    exact ⟨rfl, fun x hx => List.all_eq_true.1 hv x hx⟩
  · rw [if_neg hv] at h; cases h

theorem wrapped_refuses {op : Counter α → Counter α → Counter α} {a b : Counter α}
    (h : ∃ x ∈ keys (op a b), valid x = false) : wrapped valid op a b = .error .type := by
  unfold wrapped validate
  rw [if_neg]
  intro hv
  obtain ⟨x, hx, hf⟩ := h
  have := List.all_eq_true.1 hv x hx
  rw [hf] at this
  cases this

theorem wrapped_ok {op : Counter α → Counter α → Counter α} {a b : Counter α}
    (h : ∀ x ∈ keys (op a b), valid x = true) : wrapped valid op a b = .ok (op a b) := by
  unfold wrapped validate
  rw [if_pos (List.all_eq_true.2 h)]

/-- with operands of the right type the four wrapped operators return (they never raise), and return the plain result -/
theorem wrapped_total {a b : Counter α} (ha : ∀ x ∈ keys a, valid x = true) (hb : ∀ x ∈ keys b, valid x = true) :
    wrapped valid add a b = .ok (add a b) ∧ wrapped valid sub a b = .ok (sub a b) ∧
    wrapped valid union a b = .ok (union a b) ∧ wrapped valid inter a b = .ok (inter a b) :=
  ⟨wrapped_ok valid (add_valid valid ha hb), wrapped_ok valid (sub_valid valid ha hb),
   wrapped_ok valid (union_valid valid ha hb), wrapped_ok valid (inter_valid_left valid ha)⟩

end valid

/-- Without the re-validation, `validated_multiprofile - Counter({wrong_typed_ballot: -1})` is a multiprofile that holds the
    wrong-typed ballot; the wrapper refuses exactly this input.  (Seeded change C17-r6A, as a statement about the model.) -/
theorem unwrapped_sub_admits_intruder :
    ∃ (a b : Counter Nat) (valid : Nat → Bool), (∀ x ∈ keys a, valid x = true) ∧
      (∃ r, unwrapped sub a b = .ok r ∧ ∃ x ∈ keys r, valid x = false) ∧
      wrapped valid sub a b = .error .type := by
  refine ⟨[(0, 2)], [(7, -1)], fun x => decide (x < 5), ?_, ⟨sub [(0, 2)] [(7, -1)], rfl, 7, by decide, by decide⟩, by decide⟩
  intro x hx
  have : x = 0 := by simpa [keys] using hx
  subst this; rfl

/-! ### non-vacuity: the pointwise laws on a concrete pair with zero and negative counts -/

example : add ([(1, 2), (2, -3), (3, 0)] : Counter Nat) [(2, 5), (4, 1), (5, -2), (1, -2)] = [(2, 2), (4, 1)] := by decide
example : sub ([(1, 2), (2, -3), (3, 0)] : Counter Nat) [(2, 5), (4, 1), (5, -2), (1, -2)] = [(1, 4), (5, 2)] := by decide
example : union ([(1, 2), (2, -3), (3, 0)] : Counter Nat) [(2, 5), (4, 1), (5, -2), (1, -2)] = [(1, 2), (2, 5), (4, 1)] := by decide
example : inter ([(1, 2), (2, 3), (3, 0)] : Counter Nat) [(2, 5), (4, 1), (1, 1)] = [(1, 1), (2, 3)] := by decide
example : neg ([(1, 2), (2, -3), (3, 0)] : Counter Nat) = [(2, 3)] ∧ pos ([(1, 2), (2, -3), (3, 0)] : Counter Nat) = [(1, 2)] := by decide

end CounterArith
end Pabu
