/-
  C06 — profiles and multiprofiles are interchangeable (model side).
  A voter ENTRY with multiplicity `m` behaves exactly like `m` identical voters of multiplicity 1:
  `Profile.expand` replaces every entry `(b, m)` by `m` copies `(b, 1)` (a list profile);
  `expandV` / `Phragmen.expandC` do the same to the voter contexts of the rules, and
  `VCtx.ofProfile μ I P.expand` / `Phragmen.Ctx.ofProfile I P.expand` are the contexts the driver
  builds for the list profile.  Proofs are in PabuProofs/Lemmas/Expand.lean.

  E1  counts, approval scores, every satisfaction measure            (`*_expand`)
  E2  supporter lists and the Equal Shares price                      (`price_expand`, `rho_*`)
  E3  Equal Shares: one round and whole runs                          (`multi_eq_expand*`, `mes_*`)
  E4  sequential Phragmén                                             (`phragmen_*`)
  E5  greedy and the welfare maximiser                                (`greedy_*`, `welfare_*`)
-/
import PabuProofs.Lemmas.Expand
import PabuModel.MaxWelfare
namespace Pabu.C06
open Pabu Pabu.Expand

/-! ### E1 — counts, scores, satisfaction measures -/

/-- the expansion is a list profile: every multiplicity is 1, and its ballots are exactly the
    ballots of the entries with positive multiplicity -/
theorem expand_is_list (P : Profile) :
    (∀ e ∈ P.expand, e.2 = 1) ∧
      ∀ b k, (b, k) ∈ P.expand ↔ k = 1 ∧ ∃ m, (b, m) ∈ P ∧ 0 < m :=
  ⟨expand_mult_one P, fun _ _ => mem_expand⟩

/-- number of voters: length of the list profile = sum of the multiplicities -/
theorem numBallots_expand (P : Profile) :
    P.expand.numBallots = P.numBallots ∧ P.expand.length = P.numBallots :=
  ⟨Pabu.numBallots_expand P, length_expand P⟩

/-- approval score of every project (also what the approval-score tie-breaking sees) -/
theorem approvalScore_expand (P : Profile) (p : Pid) :
    P.expand.approvalScore p = P.approvalScore p := Pabu.approvalScore_expand P p

/-- the denominator of `Effort_Sat` counts voters, not entries -/
theorem effortDenominator_expand (P : Profile) (p : Pid) :
    effortDenominator P.expand p = effortDenominator P p := Pabu.effortDenominator_expand P p

/-- every measure assigns the same value to a ballot and a project on `P` and on `P.expand` -/
theorem satProject_expand (μ : Measure) (I : Inst) (P : Profile) (b : Ballot) (p : Pid) :
    satProject μ I P.expand b p = satProject μ I P b p := Pabu.satProject_expand μ I P b p

/-- every measure assigns the same value to a ballot and a project set on `P` and on `P.expand` -/
theorem sat_expand (μ : Measure) (I : Inst) (P : Profile) (b : Ballot) (l : List Pid) :
    sat μ I P.expand b l = sat μ I P b l := Pabu.sat_expand μ I P b l

/-- total satisfaction: Σ multiplicity × sat over the entries = Σ 1 × sat over the copies -/
theorem totalSat_expand (μ : Measure) (I : Inst) (P : Profile) (l : List Pid) :
    sumOver P.expand (fun e => ((e.2 : Nat) : Rat) * sat μ I P.expand e.1 l) =
      sumOver P (fun e => ((e.2 : Nat) : Rat) * sat μ I P e.1 l) :=
  congrFun (totalSatOf_expand μ I P) l

/-- the same for any per-ballot quantity that does not look at the profile -/
theorem weightedSum_expand (f : Ballot → Rat) (P : Profile) :
    sumOver P.expand (fun e => ((e.2 : Nat) : Rat) * f e.1) =
      sumOver P (fun e => ((e.2 : Nat) : Rat) * f e.1) := totalSat_expand_indep f P

/-- every shipped tie-breaking rule orders tied projects identically for `P` and `P.expand` -/
theorem tieOrder_expand (t : Tie) (cost : Pid → Rat) (P : Profile) :
    t.order cost P.expand.approvalScore = t.order cost P.approvalScore := by
  rw [approvalScore_expand_fun]

/-! ### E2 — supporter lists and the price of a project -/

/-- money held, utility, and the payment at EVERY price are the same for entries and copies -/
theorem sums_expandSups (l : List Sup) :
    budSum (expandSups l) = budSum l ∧ utilSum (expandSups l) = utilSum l ∧
      ∀ r, paySum r (expandSups l) = paySum r l :=
  ⟨budSum_expandSups l, utilSum_expandSups l, fun r => paySum_expandSups r l⟩

/-- well-formedness and ratio-sortedness survive the expansion; copies have multiplicity 1 -/
theorem shape_expandSups (l : List Sup) :
    ((∀ s ∈ l, s.WF) → ∀ t ∈ expandSups l, t.WF) ∧ (SortedRatio l → SortedRatio (expandSups l)) ∧
      (∀ t ∈ expandSups l, t.m = 1) :=
  ⟨expandSups_wf, expandSups_sorted, expandSups_mult_one⟩

/-- `price_expand`: the sweep over the sorted copies returns the price of the sweep over the
    sorted entries (well-formed supporters, positive cost, affordable) -/
theorem price_expand (l : List Sup) (C : Rat) (hw : ∀ s ∈ l, s.WF) (hC : 0 < C)
    (haff : C ≤ budSum l) :
    sweep C (utilSum (expandSups l)) (sortLe ratioLe (expandSups l)) =
      sweep C (utilSum l) (sortLe ratioLe l) := Pabu.price_expand l C hw hC haff

/-- … which is the least price at which the entries (with multiplicity) cover the cost -/
theorem price_expand_least (l : List Sup) (C : Rat) (hw : ∀ s ∈ l, s.WF) (hC : 0 < C)
    (haff : C ≤ budSum l) :
    ∃ r, sweep C (utilSum (expandSups l)) (sortLe ratioLe (expandSups l)) = some r ∧
      paySum r l = C ∧ 0 < r ∧ ∀ r', C ≤ paySum r' l → r ≤ r' :=
  Pabu.price_expand_least l C hw hC haff

/-- "unaffordable" is the same on entries and copies (no hypotheses) -/
theorem unaffordable_expand (l : List Sup) (C : Rat) :
    budSum (expandSups l) < C ↔ budSum l < C := by rw [budSum_expandSups]

/-- the supporters of `p` in `expandV V` are (a rearrangement of) the copies of its supporter
    entries in `V` -/
theorem sups_expandV (V : VCtx) (b : Nat → Rat) (p : Pid) :
    (MES.sups (expandV V) (expandBudget V b) p).Perm (expandSups (MES.sups V b p)) :=
  MES.sups_copies (MES.copies_expandV V) (MES.budgetCopies_expand V b) p

/-- `MES.rho`: the price of a project (or "not affordable") is the same in `V` with budgets `b`
    and in `expandV V` with the copied budgets -/
theorem rho_expand (V : VCtx) (cost : Pid → Rat) (b : Nat → Rat) (p : Pid)
    (hb : ∀ i ∈ V.vs, 0 ≤ b i) (hm : ∀ i ∈ V.vs, 1 ≤ V.m i) (hc : 0 < cost p) :
    MES.rho (expandV V) cost (expandBudget V b) p = MES.rho V cost b p :=
  MES.rho_copies (MES.copies_expandV V) (MES.budgetCopies_expand V b) ⟨hb, hm⟩ hc

/-- the same for ANY context `V'` made of single copies of the entries of `V` (whatever the
    indices of the copies and their order) whose budgets are those of their entries -/
theorem rho_copies {V V' : VCtx} {e : Nat → Nat} (h : MES.Copies V V' e) {b b' : Nat → Rat}
    (hbb : ∀ c ∈ V'.vs, b' c = b (e c)) (hb : ∀ i ∈ V.vs, 0 ≤ b i) (hm : ∀ i ∈ V.vs, 1 ≤ V.m i)
    {cost : Pid → Rat} {p : Pid} (hc : 0 < cost p) :
    MES.rho V' cost b' p = MES.rho V cost b p :=
  MES.rho_copies h hbb ⟨hb, hm⟩ hc

/-! ### E3 — Equal Shares: one round, whole runs -/

theorem stateCopies_expand {V : VCtx} {cost : Pid → Rat} {s : MES.State}
    (hb : ∀ i ∈ V.vs, 0 ≤ s.b i) (hp : ∀ p ∈ s.pool, 0 < cost p) :
    MES.StateCopies V (expandV V) (entryIn V.m V.vs) cost s (MES.expandState V s) :=
  ⟨⟨hb, hp⟩, MES.budgetCopies_expand V s.b, rfl, rfl⟩

/-- one round, selection: same pool and same prices, hence the same tied projects and the same
    best price -/
theorem tied_expand (V : VCtx) (cost : Pid → Rat) (s : MES.State)
    (hm : ∀ i ∈ V.vs, 1 ≤ V.m i) (hb : ∀ i ∈ V.vs, 0 ≤ s.b i) (hp : ∀ p ∈ s.pool, 0 < cost p) :
    MES.tied (expandV V) cost (MES.expandState V s) = MES.tied V cost s ∧
      MES.best (expandV V) cost (MES.expandState V s) = MES.best V cost s :=
  ⟨MES.tied_copies (MES.copies_expandV V) hm (stateCopies_expand hb hp),
   MES.best_copies (MES.copies_expandV V) hm (stateCopies_expand hb hp)⟩

/-- one round, purchase: every copy pays what its entry pays, … -/
theorem pay_expand (V : VCtx) (b : Nat → Rat) (t : Pid) (r : Rat) (c : Nat) :
    MES.pay (expandV V) (expandBudget V b) t r c = MES.pay V b t r (entryIn V.m V.vs c) := rfl

/-- … so buying commutes with expansion: budgets of the copies stay those of their entries,
    pool and allocation stay equal -/
theorem buy_expand (V : VCtx) (cost : Pid → Rat) (s : MES.State) (t : Pid)
    (hm : ∀ i ∈ V.vs, 1 ≤ V.m i) (hb : ∀ i ∈ V.vs, 0 ≤ s.b i) (hp : ∀ p ∈ s.pool, 0 < cost p)
    (ht : t ∈ s.pool) :
    (∀ c ∈ (expandV V).vs, (MES.buy (expandV V) cost (MES.expandState V s) t).b c =
        (MES.buy V cost s t).b (entryIn V.m V.vs c)) ∧
      (MES.buy (expandV V) cost (MES.expandState V s) t).pool = (MES.buy V cost s t).pool ∧
      (MES.buy (expandV V) cost (MES.expandState V s) t).alloc = (MES.buy V cost s t).alloc := by
  have h := MES.buy_copies (MES.copies_expandV V) hm (stateCopies_expand hb hp) ht
  exact ⟨h.b, h.pool, h.alloc⟩

/-- `multi_eq_expand`: from copied states, the resolute pure run on the copies returns the
    allocation of the run on the entries — any fuel, any order function that picks among the
    tied projects -/
theorem multi_eq_expand (V : VCtx) (cost : Pid → Rat) (ord : List Pid → List Pid)
    (hord : ∀ T, ∀ x ∈ ord T, x ∈ T) (n : Nat) (s : MES.State)
    (hm : ∀ i ∈ V.vs, 1 ≤ V.m i) (hb : ∀ i ∈ V.vs, 0 ≤ s.b i) (hp : ∀ p ∈ s.pool, 0 < cost p) :
    (MES.rule (expandV V) cost).runP ord n (MES.expandState V s) = (MES.rule V cost).runP ord n s :=
  MES.runP_copies (MES.copies_expandV V) hm cost ord hord n (stateCopies_expand hb hp)

/-- … and the irresolute pure run returns the same list of allocations -/
theorem multi_eq_expand_all (V : VCtx) (cost : Pid → Rat) (n : Nat) (s : MES.State)
    (hm : ∀ i ∈ V.vs, 1 ≤ V.m i) (hb : ∀ i ∈ V.vs, 0 ≤ s.b i) (hp : ∀ p ∈ s.pool, 0 < cost p) :
    (MES.rule (expandV V) cost).runAllP n (MES.expandState V s) = (MES.rule V cost).runAllP n s :=
  MES.runAllP_copies (MES.copies_expandV V) hm cost n (stateCopies_expand hb hp)

/-- the runs the driver executes (`method_of_equal_shares`, resolute and irresolute, outcome or
    error) are the same on `expandV V` and on `V` -/
theorem mes_run_expand (V : VCtx) (I : Inst) (init : List Pid)
    (order : List Pid → Except Err (List Pid))
    (hord : ∀ T l, order T = .ok l → ∀ x ∈ l, x ∈ T)
    (hm : ∀ i ∈ V.vs, 1 ≤ V.m i) (hB : 0 ≤ I.budget) :
    MES.run (expandV V) I init order = MES.run V I init order ∧
      MES.runAll (expandV V) I init order = MES.runAll V I init order :=
  ⟨MES.run_copies (MES.copies_expandV V) hm I hB init hord,
   MES.runAll_copies (MES.copies_expandV V) hm I hB init hord⟩

/-- the same for any context made of single copies (`MES.Copies`), at any non-negative initial
    per-voter budget, and for the iterated variants -/
theorem mes_run_copies {V V' : VCtx} {e : Nat → Nat} (h : MES.Copies V V' e) (I : Inst)
    (init : List Pid) (order : List Pid → Except Err (List Pid))
    (hord : ∀ T l, order T = .ok l → ∀ x ∈ l, x ∈ T) (hm : ∀ i ∈ V.vs, 1 ≤ V.m i) :
    (0 ≤ I.budget → MES.run V' I init order = MES.run V I init order ∧
        MES.runAll V' I init order = MES.runAll V I init order) ∧
      (∀ b0, 0 ≤ b0 → MES.runAt V' I init order b0 = MES.runAt V I init order b0 ∧
        MES.runAllAt V' I init order b0 = MES.runAllAt V I init order b0) ∧
      (∀ inc f b0 prev, 0 ≤ inc → 0 ≤ b0 →
        MES.iterated V' I init order inc f b0 prev = MES.iterated V I init order inc f b0 prev) ∧
      (∀ inc f b0 prev, 0 ≤ inc → 0 ≤ b0 →
        MES.iteratedAll V' I init order inc f b0 prev =
          MES.iteratedAll V I init order inc f b0 prev) :=
  ⟨fun hB => ⟨MES.run_copies h hm I hB init hord, MES.runAll_copies h hm I hB init hord⟩,
   fun _ hb0 => ⟨MES.runAt_copies h hm I init hord hb0, MES.runAllAt_copies h hm I init hord hb0⟩,
   fun _ f b0 prev hinc hb0 => MES.iterated_copies h hm I init hord hinc f b0 prev hb0,
   fun _ f b0 prev hinc hb0 => MES.iteratedAll_copies h hm I init hord hinc f b0 prev hb0⟩

/-- Equal Shares on a profile: the list profile `P.expand` and the multiprofile `P` give the
    same outcome (or the same error) — every measure `μ`, every shipped tie-breaking rule
    (which is handed the respective profile's approval scores), resolute and irresolute -/
theorem mes_profile (μ : Measure) (I : Inst) (P : Profile) (init : List Pid) (t : Tie)
    (hm : ∀ e ∈ P, 1 ≤ e.2) (hB : 0 ≤ I.budget) :
    MES.run (VCtx.ofProfile μ I P.expand) I init (t.order I.cost P.expand.approvalScore) =
        MES.run (VCtx.ofProfile μ I P) I init (t.order I.cost P.approvalScore) ∧
      MES.runAll (VCtx.ofProfile μ I P.expand) I init (t.order I.cost P.expand.approvalScore) =
        MES.runAll (VCtx.ofProfile μ I P) I init (t.order I.cost P.approvalScore) := by
  rw [tieOrder_expand]
  exact ⟨MES.run_copies (MES.copies_ofProfile μ I P) (ofProfile_mult hm) I hB init
      (tieOrder_mem t I.cost _),
    MES.runAll_copies (MES.copies_ofProfile μ I P) (ofProfile_mult hm) I hB init
      (tieOrder_mem t I.cost _)⟩

/-- … and so do the iterated variants (budget increment `inc ≥ 0`, any fuel) -/
theorem mes_profile_iterated (μ : Measure) (I : Inst) (P : Profile) (init : List Pid) (t : Tie)
    (hm : ∀ e ∈ P, 1 ≤ e.2) (inc : Rat) (hinc : 0 ≤ inc) (f : Nat) (b0 : Rat) (hb0 : 0 ≤ b0) :
    (∀ prev, MES.iterated (VCtx.ofProfile μ I P.expand) I init
        (t.order I.cost P.expand.approvalScore) inc f b0 prev =
      MES.iterated (VCtx.ofProfile μ I P) I init (t.order I.cost P.approvalScore) inc f b0 prev) ∧
    (∀ prev, MES.iteratedAll (VCtx.ofProfile μ I P.expand) I init
        (t.order I.cost P.expand.approvalScore) inc f b0 prev =
      MES.iteratedAll (VCtx.ofProfile μ I P) I init (t.order I.cost P.approvalScore) inc f b0 prev) := by
  rw [tieOrder_expand]
  exact ⟨fun prev => MES.iterated_copies (MES.copies_ofProfile μ I P) (ofProfile_mult hm) I init
      (tieOrder_mem t I.cost _) hinc f b0 prev hb0,
    fun prev => MES.iteratedAll_copies (MES.copies_ofProfile μ I P) (ofProfile_mult hm) I init
      (tieOrder_mem t I.cost _) hinc f b0 prev hb0⟩

/-- the number of voters (the divisor of the initial budget) is the same -/
theorem mes_numVoters (μ : Measure) (I : Inst) (P : Profile) :
    MES.numVoters (VCtx.ofProfile μ I P.expand) = MES.numVoters (VCtx.ofProfile μ I P) ∧
      MES.numVoters (expandV (VCtx.ofProfile μ I P)) = MES.numVoters (VCtx.ofProfile μ I P) :=
  ⟨MES.numVoters_copies (MES.copies_ofProfile μ I P), MES.numVoters_copies (MES.copies_expandV _)⟩

/-! ### E4 — sequential Phragmén -/

theorem phragmen_stateCopies_expand (C : Phragmen.Ctx) (s : Phragmen.State) :
    Phragmen.StateCopies (Phragmen.expandC C) (entryIn C.m C.vs) s (Phragmen.expandState C s) :=
  ⟨Phragmen.loadCopies_expand C s.load, rfl, rfl, rfl⟩

/-- approval score, weighted load sum and hence the new maximum load of every project agree
    between entries with multiplicity and copies carrying their entry's load -/
theorem phragmen_newMax_expand (C : Phragmen.Ctx) (s : Phragmen.State) (p : Pid) :
    Phragmen.score (Phragmen.expandC C) p = Phragmen.score C p ∧
      sumOver (Phragmen.supporters (Phragmen.expandC C) p)
          (fun c => ((Phragmen.expandC C).m c : Rat) * (Phragmen.expandState C s).load c) =
        sumOver (Phragmen.supporters C p) (fun i => (C.m i : Rat) * s.load i) ∧
      Phragmen.newMax (Phragmen.expandC C) (Phragmen.expandState C s) p = Phragmen.newMax C s p :=
  ⟨Phragmen.score_copies (Phragmen.copies_expandC C) p,
   Phragmen.loadSum_copies (Phragmen.copies_expandC C) (Phragmen.loadCopies_expand C s.load) p,
   Phragmen.newMax_copies (Phragmen.copies_expandC C) (phragmen_stateCopies_expand C s) p⟩

/-- one round: same tied projects; buying keeps the loads of the copies equal to those of their
    entries (and pool, allocation, money spent equal) -/
theorem phragmen_round_expand (C : Phragmen.Ctx) (s : Phragmen.State) (t : Pid) :
    Phragmen.tied (Phragmen.expandC C) (Phragmen.expandState C s) = Phragmen.tied C s ∧
      Phragmen.buy (Phragmen.expandC C) (Phragmen.expandState C s) t =
        Phragmen.expandState C (Phragmen.buy C s t) := by
  refine ⟨Phragmen.tied_copies (Phragmen.copies_expandC C) (phragmen_stateCopies_expand C s), ?_⟩
  have hn := Phragmen.newMax_copies (Phragmen.copies_expandC C) (phragmen_stateCopies_expand C s) t
  unfold Phragmen.buy
  rw [hn]
  rfl

/-- `phragmen_multi_eq_expand`: pure runs from copied states return the same allocation(s) —
    any fuel, ANY order function, no hypothesis on the multiplicities -/
theorem phragmen_multi_eq_expand (C : Phragmen.Ctx) (ord : List Pid → List Pid) (n : Nat)
    (s : Phragmen.State) :
    (Phragmen.rule (Phragmen.expandC C)).runP ord n (Phragmen.expandState C s) =
        (Phragmen.rule C).runP ord n s ∧
      (Phragmen.rule (Phragmen.expandC C)).runAllP n (Phragmen.expandState C s) =
        (Phragmen.rule C).runAllP n s :=
  ⟨Phragmen.runP_copies (Phragmen.copies_expandC C) ord n (phragmen_stateCopies_expand C s),
   Phragmen.runAllP_copies (Phragmen.copies_expandC C) n (phragmen_stateCopies_expand C s)⟩

/-- the runs the driver executes (`sequential_phragmen`, outcome or error) -/
theorem phragmen_run_expand (C : Phragmen.Ctx) (projects init : List Pid) (loads : Nat → Rat)
    (order : List Pid → Except Err (List Pid)) :
    Phragmen.run (Phragmen.expandC C) projects init (Phragmen.expandLoad C loads) order =
        Phragmen.run C projects init loads order ∧
      Phragmen.runAll (Phragmen.expandC C) projects init (Phragmen.expandLoad C loads) order =
        Phragmen.runAll C projects init loads order :=
  ⟨Phragmen.run_copies (Phragmen.copies_expandC C) projects init
     (Phragmen.loadCopies_expand C loads) order,
   Phragmen.runAll_copies (Phragmen.copies_expandC C) projects init
     (Phragmen.loadCopies_expand C loads) order⟩

/-- Phragmén on a profile: list profile and multiprofile give the same outcome (or error) for
    every shipped tie-breaking rule, when every voter starts with the load of its entry
    (in particular with the default initial load 0) -/
theorem phragmen_profile (I : Inst) (P : Profile) (init : List Pid) (t : Tie)
    (loads loads' : Nat → Rat) (hl : ∀ c, c < P.expand.length → loads' c = loads (P.entryOf c)) :
    Phragmen.run (Phragmen.Ctx.ofProfile I P.expand) I.projects init loads'
        (t.order I.cost P.expand.approvalScore) =
      Phragmen.run (Phragmen.Ctx.ofProfile I P) I.projects init loads
        (t.order I.cost P.approvalScore) ∧
    Phragmen.runAll (Phragmen.Ctx.ofProfile I P.expand) I.projects init loads'
        (t.order I.cost P.expand.approvalScore) =
      Phragmen.runAll (Phragmen.Ctx.ofProfile I P) I.projects init loads
        (t.order I.cost P.approvalScore) := by
  rw [tieOrder_expand]
  have hl' : Phragmen.LoadCopies (Phragmen.Ctx.ofProfile I P.expand) P.entryOf loads loads' :=
    fun c hc => hl c (List.mem_range.mp hc)
  exact ⟨Phragmen.run_copies (Phragmen.copies_ofProfile I P) I.projects init hl' _,
    Phragmen.runAll_copies (Phragmen.copies_ofProfile I P) I.projects init hl' _⟩

/-! ### E5 — greedy and the welfare maximiser -/

/-- `greedy_multi_eq_expand`: the total-satisfaction function of `P.expand` IS the one of `P`,
    so every greedy run (general path; resolute and irresolute; any tie-breaking) is literally
    the same -/
theorem greedy_multi_eq_expand (μ : Measure) (I : Inst) (P : Profile) (init : List Pid)
    (order : List Pid → Except Err (List Pid)) :
    totalSatOf μ I P.expand = totalSatOf μ I P ∧
      Greedy.general (totalSatOf μ I P.expand) I init order =
        Greedy.general (totalSatOf μ I P) I init order ∧
      Greedy.generalAll (totalSatOf μ I P.expand) I init order =
        Greedy.generalAll (totalSatOf μ I P) I init order := by
  rw [totalSatOf_expand]; exact ⟨rfl, rfl, rfl⟩

/-- the additive fast path of greedy: same project scores, same run -/
theorem greedy_additive_expand (μ : Measure) (I : Inst) (P : Profile) (init : List Pid)
    (order : List Pid → Except Err (List Pid)) :
    profitOf μ I P.expand = profitOf μ I P ∧
      Greedy.additive (profitOf μ I P.expand) I init order =
        Greedy.additive (profitOf μ I P) I init order := by
  rw [profitOf_expand]; exact ⟨rfl, rfl⟩

/-- greedy on a profile with the shipped tie-breaking rules -/
theorem greedy_profile (μ : Measure) (I : Inst) (P : Profile) (init : List Pid) (t : Tie) :
    Greedy.general (totalSatOf μ I P.expand) I init (t.order I.cost P.expand.approvalScore) =
        Greedy.general (totalSatOf μ I P) I init (t.order I.cost P.approvalScore) ∧
      Greedy.generalAll (totalSatOf μ I P.expand) I init (t.order I.cost P.expand.approvalScore) =
        Greedy.generalAll (totalSatOf μ I P) I init (t.order I.cost P.approvalScore) ∧
      Greedy.additive (profitOf μ I P.expand) I init (t.order I.cost P.expand.approvalScore) =
        Greedy.additive (profitOf μ I P) I init (t.order I.cost P.approvalScore) := by
  rw [tieOrder_expand, totalSatOf_expand, profitOf_expand]; exact ⟨rfl, rfl, rfl⟩

/-- the welfare maximiser: same profit function, hence the same primal/dual outcome, the same
    optimum value and the same set of optima -/
theorem welfare_expand (μ : Measure) (I : Inst) (P : Profile) (init enum : List Pid) :
    MaxWelfare.primalDual I (profitOf μ I P.expand) init enum =
        MaxWelfare.primalDual I (profitOf μ I P) init enum ∧
      MaxWelfare.optValue I (profitOf μ I P.expand) init = MaxWelfare.optValue I (profitOf μ I P) init ∧
      MaxWelfare.allOptima I (profitOf μ I P.expand) init = MaxWelfare.allOptima I (profitOf μ I P) init := by
  rw [profitOf_expand]; exact ⟨rfl, rfl, rfl⟩

/-- the project scores written over voter contexts (as the driver computes them) agree between
    the contexts of `P.expand`, of `expandV`, and of `P` -/
theorem score_ctx_expand (μ : Measure) (I : Inst) (P : Profile) :
    VCtx.score (VCtx.ofProfile μ I P.expand) = VCtx.score (VCtx.ofProfile μ I P) ∧
      VCtx.score (expandV (VCtx.ofProfile μ I P)) = VCtx.score (VCtx.ofProfile μ I P) :=
  ⟨MES.score_copies (MES.copies_ofProfile μ I P), MES.score_copies (MES.copies_expandV _)⟩

/-! ### Non-vacuity: a multiplicity-3 entry that gets capped -/

/-- two entries: three voters approving {0,1} and one voter approving {1} -/
def exP : Profile := [(.app [0, 1], 3), (.app [1], 1)]
def exI : Inst := { projects := [0, 1], cost := fun p => if p = 0 then 3 else 9 / 2, budget := 8 }
def exV : VCtx := VCtx.ofProfile .cardinality exI exP

/-- budgets after project 0 was bought at price 1: the three copies hold 1 each, the single voter 2 -/
def exB : Nat → Rat := fun i => if i = 0 then 1 else 2

/-- hypotheses of the theorems hold on the example -/
example : (∀ e ∈ exP, 1 ≤ e.2) ∧ 0 ≤ exI.budget ∧ (∀ i ∈ exV.vs, 1 ≤ exV.m i) ∧
    (∀ i ∈ exV.vs, 0 ≤ exB i) ∧ 0 < exI.cost 1 := by
  refine ⟨by decide, by decide +kernel, ofProfile_mult (by decide), ?_, by decide +kernel⟩
  intro i _
  unfold exB
  by_cases h : i = 0
  · rw [if_pos h]; decide +kernel
  · rw [if_neg h]; decide +kernel

/-- the list profile has four voters; the voter contexts have 4 resp. 2 entries -/
example : exP.expand = [(.app [0, 1], 1), (.app [0, 1], 1), (.app [0, 1], 1), (.app [1], 1)] ∧
    (expandV exV).vs = [0, 1, 2, 3] ∧ (VCtx.ofProfile .cardinality exI exP.expand).vs = [0, 1, 2, 3] ∧
    exV.vs = [0, 1] ∧ (List.range 4).map exP.entryOf = [0, 0, 0, 1] := by decide +kernel

/-- price of project 1 (cost 9/2) under budgets 1,1,1 | 2: the multiplicity-3 entry is capped
    (each copy pays all of its 1 < ρ·u = 3/2), the single voter pays 3/2; same price on the
    entries, on `expandV`, and on the context of the list profile -/
example : MES.rho exV exI.cost exB 1 = some (3 / 2) ∧
    MES.rho (expandV exV) exI.cost (expandBudget exV exB) 1 = some (3 / 2) ∧
    MES.rho (VCtx.ofProfile .cardinality exI exP.expand) exI.cost (fun c => exB (exP.entryOf c)) 1
      = some (3 / 2) ∧
    MES.pay exV exB 1 (3 / 2) 0 = 1 ∧ MES.pay exV exB 1 (3 / 2) 1 = 3 / 2 ∧
    (List.range 4).map (MES.pay (expandV exV) (expandBudget exV exB) 1 (3 / 2)) = [1, 1, 1, 3 / 2] := by
  decide +kernel

/-- the whole run (lexicographic tie-breaking): both select project 0 then project 1 -/
example :
    (match MES.run exV exI [] (Tie.lexico.order exI.cost exP.approvalScore) with
      | .ok W => some W | .error _ => none) = some [0, 1] ∧
    (match MES.run (VCtx.ofProfile .cardinality exI exP.expand) exI []
        (Tie.lexico.order exI.cost exP.expand.approvalScore) with
      | .ok W => some W | .error _ => none) = some [0, 1] ∧
    (match MES.run (expandV exV) exI [] (Tie.lexico.order exI.cost exP.approvalScore) with
      | .ok W => some W | .error _ => none) = some [0, 1] := by decide +kernel

/-- the recorded run on the multiprofile shows the capping: after the second purchase the
    multiplicity-3 entry holds 0 -/
example :
    (match MES.trace exV exI.cost (Tie.lexico.order exI.cost exP.approvalScore)
        (MES.initPool exV exI []).length (MES.initState exV exI [] (exI.budget / (MES.numVoters exV : Nat))) with
      | .error _ => none
      | .ok L => some (L.map (fun it => (it.before, it.selected, it.rho, it.after)))) =
    some [([2, 2], some 0, some 1, [1, 2]),
          ([1, 2], some 1, some (3 / 2), [0, 1 / 2]),
          ([0, 1 / 2], none, none, [])] := by decide +kernel

/-- Phragmén and greedy on the same example -/
example :
    (match Phragmen.run (Phragmen.Ctx.ofProfile exI exP.expand) exI.projects [] (fun _ => 0)
        (Tie.lexico.order exI.cost exP.expand.approvalScore) with
      | .ok W => some W | .error _ => none) =
    (match Phragmen.run (Phragmen.Ctx.ofProfile exI exP) exI.projects [] (fun _ => 0)
        (Tie.lexico.order exI.cost exP.approvalScore) with
      | .ok W => some W | .error _ => none) ∧
    (match Phragmen.run (Phragmen.Ctx.ofProfile exI exP) exI.projects [] (fun _ => 0)
        (Tie.lexico.order exI.cost exP.approvalScore) with
      | .ok W => some W | .error _ => none) = some [0, 1] ∧
    totalSatOf .effort exI exP.expand [0, 1] = 15 / 2 ∧ totalSatOf .effort exI exP [0, 1] = 15 / 2 := by
  decide +kernel

end Pabu.C06
