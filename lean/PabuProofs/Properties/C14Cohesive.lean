/-
  C14 (cohesive groups) — `cohesive_groups(instance, profile)` of pabutools/analysis/cohesiveness.py enumerates exactly the
  (group, project set) pairs that pass the cohesiveness test, and the EJR-type checkers are a single loop over it.
-/
import PabuProofs.Lemmas.JRCohesive
namespace Pabu.JR
open Pabu List

/-- membership in the enumeration ⇔ the cohesiveness predicate: the group is a sub-list of the profile's entries, the
    project set a sub-list of the instance, and the pair passes `is_cohesive_approval` / `is_cohesive_cardinal`
    (large enough with the summed multiplicities, both non-empty, unanimous for approval ballots) -/
theorem cohesiveGroups_spec (E : Setting) (M : List (Voter × Nat)) (card : Bool) (D : List (Voter × Nat)) (T : List Pid) :
    (D, T) ∈ cohesiveGroups E M card ↔
      D <+ M ∧ T <+ E.projects ∧ adm E card .ejr (groupSize D) (members D) T = true :=
  mem_cohesiveGroups E M card D T

/-- the same for the enumeration over tagged entries (what the driver command `cohesive` prints) -/
theorem cohesiveGroupsBy_spec {α : Type} (E : Setting) (card : Bool) (vo : α → Voter × Nat) (M : List α)
    (D : List α) (T : List Pid) :
    (D, T) ∈ cohesiveGroupsBy E card vo M ↔
      D <+ M ∧ T <+ E.projects ∧ adm E card .ejr (groupSize (D.map vo)) (members (D.map vo)) T = true :=
  mem_cohesiveGroupsBy E card vo M D T

/-- … which is the untagged enumeration, pair by pair in the same order -/
theorem cohesiveGroupsBy_forget {α : Type} (E : Setting) (card : Bool) (vo : α → Voter × Nat) (M : List α) :
    (cohesiveGroupsBy E card vo M).map (fun x => (x.1.map vo, x.2)) = cohesiveGroups E (M.map vo) card :=
  cohesiveGroupsBy_map E card vo M

/-- for a list profile (every multiplicity 1) the predicate is the textbook one: `cost(T)·n ≤ |S|·budget`, `S` and `T`
    non-empty, every member of `S` approves all of `T` (cardinal ballots: the claimed scores are the group's minima, so
    nothing more is required) -/
theorem cohesiveGroups_spec_list (E : Setting) (M : List (Voter × Nat)) (card : Bool) (h1 : ∀ e ∈ M, e.2 = 1)
    (D : List (Voter × Nat)) (T : List Pid) :
    (D, T) ∈ cohesiveGroups E M card ↔ D <+ M ∧ T <+ E.projects ∧ AdmP E card .ejr (members D) T := by
  rw [cohesiveGroups_spec]
  constructor
  · rintro ⟨hD, hT, ha⟩
    refine ⟨hD, hT, ?_⟩
    have hs := groupSize_eq_length_members D (fun e he => h1 e (hD.subset he))
    rw [hs] at ha
    exact (adm_iff E card .ejr (members D) T).mp ha
  · rintro ⟨hD, hT, ha⟩
    refine ⟨hD, hT, ?_⟩
    have hs := groupSize_eq_length_members D (fun e he => h1 e (hD.subset he))
    rw [hs]
    exact (adm_iff E card .ejr (members D) T).mpr ha

/-- the strong-EJR / EJR / PJR checkers (all `up_to_func` variants, approval and cardinal) are one loop over the
    enumeration of cohesive groups: they answer `true` exactly when every enumerated pair is good -/
theorem checker_eq_all_cohesiveGroups (E : Setting) (M : List (Voter × Nat)) (card : Bool) (k : Kind) (hk : k ≠ .core)
    (up : UpTo) (W : List Pid) :
    checker E M card k up W = (cohesiveGroups E M card).all (fun x => good E card k up W (members x.1) x.2) := by
  unfold checker
  have : adm E card k = adm E card .ejr := by
    funext size S T
    exact adm_noncore E card k hk size S T
  rw [this]
  exact forGroups_eq_all_cohesiveGroups E M card _

/-! ### a concrete election: budget 4, projects 0 (cost 2) and 1 (cost 3); ballots {0}, {0,1}, and {1} twice -/

def exCoh : Setting := { n := 4, budget := 4, cost := fun c => if c = 0 then 2 else 3, projects := [0, 1], full := fun _ => 1 }

def exV (l : List Pid) : Voter := { app := fun p => l.contains p, u := fun p => if l.contains p then 1 else 0 }

def exCohM : List (Nat × (Voter × Nat)) := [(0, (exV [0], 1)), (1, (exV [0, 1], 1)), (2, (exV [1], 2))]

/-- exactly two cohesive pairs: entries {1, 2} (three voters) for project 1, entries {0, 1} for project 0 -/
theorem exCoh_groups :
    (cohesiveGroupsBy exCoh false (fun x => x.2) exCohM).map (fun x => (x.1.map (fun y => y.1), x.2)) =
      [([1, 2], [1]), ([0, 1], [0])] := by
  decide +kernel

example : ([(exV [0], 1), (exV [0, 1], 1)], [0]) ∈ cohesiveGroups exCoh (exCohM.map (fun x => x.2)) false := by
  rw [cohesiveGroups_spec]
  refine ⟨by simp [exCohM], by simp [exCoh], by decide +kernel⟩

end Pabu.JR
