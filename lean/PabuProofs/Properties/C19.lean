/-
  C19 — rule comparison returns exactly the best outcomes among the compared rules.

  Model: `Composition.welfareCmp` (`social_welfare_comparison`), `Composition.popularityCmp`
  (`popularity_comparison`), over ARBITRARY satisfaction functions.

  * `welfareCmp_spec`: the result is exactly the set of input outcomes of maximal total satisfaction;
    `welfareCmp_nodup`, `welfareCmp_ne_nil`, `welfareCmp_subset`.
  * `popularityCmp_spec`: exactly the input outcomes of maximal support, where (`support_eq`,
    `mem_favourites_iff`) the support of `r` is the number of voters, with multiplicity, for whom `r`
    attains their maximal satisfaction among the distinct outcomes (indifferent voters support all their
    top outcomes); `popularityCmp_nodup`, `popularityCmp_ne_nil`, `popularityCmp_subset`.
  * robustness: duplicates and the order of the compared outcomes do not matter
    (`welfareCmp_distinct`, `popularityCmp_distinct`, `welfareCmp_perm`, `popularityCmp_perm`, and the
    common generalisation `welfareCmp_congr` / `popularityCmp_congr`).
-/
import PabuProofs.Lemmas.Wrappers
import Mathlib.Tactic.NormNum

namespace Pabu
namespace C19
open Composition Wrap

theorem mem_distinct {rs : List (List Pid)} {r : List Pid} : r ∈ distinct rs ↔ r ∈ rs := mem_dedup_iff

theorem distinct_nodup (rs : List (List Pid)) : (distinct rs).Nodup := dedup_nodup rs

theorem distinct_idem (rs : List (List Pid)) : distinct (distinct rs) = distinct rs := dedup_idem rs

/-! ### favourites / argmax -/

/-- `favourites s rs` = the members of `rs` on which `s` is maximal -/
theorem mem_favourites_iff (s : List Pid → Rat) (rs : List (List Pid)) (r : List Pid) :
    r ∈ favourites s rs ↔ r ∈ rs ∧ ∀ r' ∈ rs, s r' ≤ s r := by
  unfold favourites
  cases hm : maxRat (rs.map s) with
  | none =>
    have : rs = [] := by simpa using maxRat_none.mp hm
    subst this; simp
  | some mx =>
    obtain ⟨hmem, hle⟩ := maxRat_some hm
    obtain ⟨r0, hr0, rfl⟩ := List.mem_map.mp hmem
    simp only [List.mem_filter, decide_eq_true_eq]
    constructor
    · rintro ⟨hr, he⟩
      refine ⟨hr, fun r' hr' => ?_⟩
      rw [he]
      exact hle _ (List.mem_map.mpr ⟨r', hr', rfl⟩)
    · rintro ⟨hr, hall⟩
      exact ⟨hr, le_antisymm (hle _ (List.mem_map.mpr ⟨r, hr, rfl⟩)) (hall r0 hr0)⟩

theorem favourites_ne_nil (s : List Pid → Rat) {rs : List (List Pid)} (h : rs ≠ []) : favourites s rs ≠ [] := by
  cases hm : maxRat (rs.map s) with
  | none => exact absurd (by simpa using maxRat_none.mp hm) h
  | some mx =>
    obtain ⟨hmem, hle⟩ := maxRat_some hm
    obtain ⟨r0, hr0, rfl⟩ := List.mem_map.mp hmem
    have : r0 ∈ favourites s rs :=
      (mem_favourites_iff s rs r0).mpr ⟨hr0, fun r' hr' => hle _ (List.mem_map.mpr ⟨r', hr', rfl⟩)⟩
    exact List.ne_nil_of_mem this

theorem favourites_nodup (s : List Pid → Rat) {rs : List (List Pid)} (h : rs.Nodup) : (favourites s rs).Nodup := by
  unfold favourites
  cases maxRat (rs.map s) with
  | none => simp
  | some mx => exact h.filter _

/-! ### K1: social-welfare comparison -/

theorem welfareCmp_eq_favourites (tsat : List Pid → Rat) (rs : List (List Pid)) :
    welfareCmp tsat rs = favourites tsat (distinct rs) := rfl

/-- K1. The result is exactly the input outcomes whose total satisfaction is maximal. -/
theorem welfareCmp_spec (tsat : List Pid → Rat) (rs : List (List Pid)) (r : List Pid) :
    r ∈ welfareCmp tsat rs ↔ r ∈ rs ∧ ∀ r' ∈ rs, tsat r' ≤ tsat r := by
  rw [welfareCmp_eq_favourites, mem_favourites_iff, mem_distinct]
  constructor
  · rintro ⟨h1, h2⟩; exact ⟨h1, fun r' hr' => h2 r' (mem_distinct.mpr hr')⟩
  · rintro ⟨h1, h2⟩; exact ⟨h1, fun r' hr' => h2 r' (mem_distinct.mp hr')⟩

theorem welfareCmp_nodup (tsat : List Pid → Rat) (rs : List (List Pid)) : (welfareCmp tsat rs).Nodup :=
  favourites_nodup tsat (distinct_nodup rs)

theorem welfareCmp_ne_nil (tsat : List Pid → Rat) {rs : List (List Pid)} (h : rs ≠ []) :
    welfareCmp tsat rs ≠ [] :=
  favourites_ne_nil tsat (fun e => h (dedup_eq_nil.mp e))

/-- every returned allocation is (literally) one of the compared outcomes -/
theorem welfareCmp_subset (tsat : List Pid → Rat) (rs : List (List Pid)) :
    ∀ r ∈ welfareCmp tsat rs, r ∈ rs :=
  fun r hr => ((welfareCmp_spec tsat rs r).mp hr).1

/-! ### K2: popularity comparison -/

/-- the support of `r` is the number of voters (with multiplicity) for whom `r` is one of the outcomes in
    `rs` of maximal satisfaction; an indifferent voter supports all of her top outcomes -/
theorem support_eq (voters : List ((List Pid → Rat) × Nat)) (rs : List (List Pid)) (r : List Pid) :
    support voters rs r =
      sumNat voters (fun v => if r ∈ rs ∧ ∀ r' ∈ rs, v.1 r' ≤ v.1 r then v.2 else 0) := by
  unfold support
  apply sumNat_congr
  intro v _
  by_cases h : r ∈ rs ∧ ∀ r' ∈ rs, v.1 r' ≤ v.1 r
  · rw [if_pos h, if_pos]
    rw [List.contains_iff_mem]
    exact (mem_favourites_iff v.1 rs r).mpr h
  · rw [if_neg h, if_neg]
    rw [List.contains_iff_mem]
    exact fun hc => h ((mem_favourites_iff v.1 rs r).mp hc)

/-- the support only depends on the SET of compared outcomes -/
theorem support_congr (voters : List ((List Pid → Rat) × Nat)) {rs rs' : List (List Pid)}
    (h : ∀ x, x ∈ rs ↔ x ∈ rs') (r : List Pid) : support voters rs r = support voters rs' r := by
  rw [support_eq, support_eq]
  apply sumNat_congr
  intro v _
  have hiff : (r ∈ rs ∧ ∀ r' ∈ rs, v.1 r' ≤ v.1 r) ↔ (r ∈ rs' ∧ ∀ r' ∈ rs', v.1 r' ≤ v.1 r) := by
    constructor
    · rintro ⟨h1, h2⟩; exact ⟨(h r).mp h1, fun r' hr' => h2 r' ((h r').mpr hr')⟩
    · rintro ⟨h1, h2⟩; exact ⟨(h r).mpr h1, fun r' hr' => h2 r' ((h r').mp hr')⟩
  by_cases hp : r ∈ rs ∧ ∀ r' ∈ rs, v.1 r' ≤ v.1 r
  · rw [if_pos hp, if_pos (hiff.mp hp)]
  · rw [if_neg hp, if_neg (fun hq => hp (hiff.mpr hq))]

/-- K2. The result is exactly the input outcomes of maximal support. -/
theorem popularityCmp_spec (voters : List ((List Pid → Rat) × Nat)) (rs : List (List Pid)) (r : List Pid) :
    r ∈ popularityCmp voters rs ↔
      r ∈ rs ∧ ∀ r' ∈ rs, support voters (distinct rs) r' ≤ support voters (distinct rs) r := by
  unfold popularityCmp
  simp only [List.mem_filter, beq_iff_eq, mem_distinct]
  constructor
  · rintro ⟨hr, he⟩
    refine ⟨hr, fun r' hr' => ?_⟩
    rw [he]
    exact maxNat_ge (List.mem_map.mpr ⟨r', mem_distinct.mpr hr', rfl⟩)
  · rintro ⟨hr, hall⟩
    refine ⟨hr, le_antisymm (maxNat_ge (List.mem_map.mpr ⟨r, mem_distinct.mpr hr, rfl⟩)) ?_⟩
    have hne : (distinct rs).map (support voters (distinct rs)) ≠ [] := by
      intro e
      have := List.map_eq_nil_iff.mp e
      exact List.ne_nil_of_mem (mem_distinct.mpr hr) this
    obtain ⟨r0, hr0, he⟩ := List.mem_map.mp (maxNat_mem hne)
    rw [← he]
    exact hall r0 (mem_distinct.mp hr0)

theorem popularityCmp_nodup (voters : List ((List Pid → Rat) × Nat)) (rs : List (List Pid)) :
    (popularityCmp voters rs).Nodup :=
  (distinct_nodup rs).filter _

theorem popularityCmp_subset (voters : List ((List Pid → Rat) × Nat)) (rs : List (List Pid)) :
    ∀ r ∈ popularityCmp voters rs, r ∈ rs :=
  fun r hr => ((popularityCmp_spec voters rs r).mp hr).1

theorem popularityCmp_ne_nil (voters : List ((List Pid → Rat) × Nat)) {rs : List (List Pid)} (h : rs ≠ []) :
    popularityCmp voters rs ≠ [] := by
  have hne : (distinct rs).map (support voters (distinct rs)) ≠ [] := by
    intro e
    exact h (dedup_eq_nil.mp (List.map_eq_nil_iff.mp e))
  obtain ⟨r0, hr0, he⟩ := List.mem_map.mp (maxNat_mem hne)
  have : r0 ∈ popularityCmp voters rs := by
    rw [popularityCmp_spec]
    refine ⟨mem_distinct.mp hr0, fun r' hr' => ?_⟩
    rw [he]
    exact maxNat_ge (List.mem_map.mpr ⟨r', mem_distinct.mpr hr', rfl⟩)
  exact List.ne_nil_of_mem this

/-! ### K3: duplicates and order of the compared outcomes are irrelevant -/

theorem welfareCmp_distinct (tsat : List Pid → Rat) (rs : List (List Pid)) :
    welfareCmp tsat (distinct rs) = welfareCmp tsat rs := by
  unfold welfareCmp
  rw [distinct_idem]

theorem popularityCmp_distinct (voters : List ((List Pid → Rat) × Nat)) (rs : List (List Pid)) :
    popularityCmp voters (distinct rs) = popularityCmp voters rs := by
  unfold popularityCmp
  rw [distinct_idem]

/-- two lists of outcomes with the same members give the same result up to order -/
theorem welfareCmp_congr (tsat : List Pid → Rat) {rs rs' : List (List Pid)} (h : ∀ x, x ∈ rs ↔ x ∈ rs') :
    (welfareCmp tsat rs).Perm (welfareCmp tsat rs') := by
  rw [List.perm_ext_iff_of_nodup (welfareCmp_nodup tsat rs) (welfareCmp_nodup tsat rs')]
  intro r
  rw [welfareCmp_spec, welfareCmp_spec]
  constructor
  · rintro ⟨h1, h2⟩; exact ⟨(h r).mp h1, fun r' hr' => h2 r' ((h r').mpr hr')⟩
  · rintro ⟨h1, h2⟩; exact ⟨(h r).mpr h1, fun r' hr' => h2 r' ((h r').mp hr')⟩

theorem welfareCmp_perm (tsat : List Pid → Rat) {rs rs' : List (List Pid)} (h : rs.Perm rs') :
    (welfareCmp tsat rs).Perm (welfareCmp tsat rs') :=
  welfareCmp_congr tsat (fun _ => h.mem_iff)

theorem popularityCmp_congr (voters : List ((List Pid → Rat) × Nat)) {rs rs' : List (List Pid)}
    (h : ∀ x, x ∈ rs ↔ x ∈ rs') :
    (popularityCmp voters rs).Perm (popularityCmp voters rs') := by
  rw [List.perm_ext_iff_of_nodup (popularityCmp_nodup voters rs) (popularityCmp_nodup voters rs')]
  have hd : ∀ x, x ∈ distinct rs ↔ x ∈ distinct rs' := fun x => by
    rw [mem_distinct, mem_distinct]; exact h x
  intro r
  rw [popularityCmp_spec, popularityCmp_spec]
  constructor
  · rintro ⟨h1, h2⟩
    refine ⟨(h r).mp h1, fun r' hr' => ?_⟩
    rw [← support_congr voters hd, ← support_congr voters hd]
    exact h2 r' ((h r').mpr hr')
  · rintro ⟨h1, h2⟩
    refine ⟨(h r).mpr h1, fun r' hr' => ?_⟩
    rw [support_congr voters hd, support_congr voters hd]
    exact h2 r' ((h r').mp hr')

theorem popularityCmp_perm (voters : List ((List Pid → Rat) × Nat)) {rs rs' : List (List Pid)}
    (h : rs.Perm rs') : (popularityCmp voters rs).Perm (popularityCmp voters rs') :=
  popularityCmp_congr voters (fun _ => h.mem_iff)

/-- when two compared rules return the same outcome it is returned once -/
theorem welfareCmp_count_le_one (tsat : List Pid → Rat) (rs : List (List Pid)) (r : List Pid) :
    (welfareCmp tsat rs).count r ≤ 1 :=
  List.nodup_iff_count_le_one.mp (welfareCmp_nodup tsat rs) r

/-! ### Non-vacuity: concrete comparisons with ties -/

/-- four rule outcomes, one duplicated; total satisfaction = number of projects: two distinct winners -/
example : welfareCmp (fun l => (l.length : Rat)) [[1, 2], [3], [1, 2], [2, 4]] = [[1, 2], [2, 4]] := by
  decide +kernel

example : [2, 4] ∈ welfareCmp (fun l => (l.length : Rat)) [[1, 2], [3], [1, 2], [2, 4]] :=
  (welfareCmp_spec _ _ _).mpr ⟨by simp, by
    intro r' hr'
    simp only [List.mem_cons, List.not_mem_nil, or_false] at hr'
    rcases hr' with rfl | rfl | rfl | rfl <;> norm_num⟩

/-- voters: 2 × "likes project 1", 1 × "likes project 3", 1 × indifferent.  Outcomes `[1,2]`, `[3]`, `[1,4]`:
    supports 3, 2, 3 — the indifferent voter supports all three, `[1,2]` and `[1,4]` tie. -/
def exVoters : List ((List Pid → Rat) × Nat) :=
  [(fun l => if l.contains 1 then 1 else 0, 2), (fun l => if l.contains 3 then 1 else 0, 1), (fun _ => 0, 1)]

example : (favourites (fun _ => 0) [[1, 2], [3], [1, 4]]) = [[1, 2], [3], [1, 4]] := by decide +kernel

example : [[1, 2], [3], [1, 4]].map (support exVoters [[1, 2], [3], [1, 4]]) = [3, 2, 3] := by decide +kernel

example : popularityCmp exVoters [[1, 2], [3], [1, 2], [1, 4]] = [[1, 2], [1, 4]] := by decide +kernel

/-- the order of the rules only changes the order of the result -/
example : popularityCmp exVoters [[1, 4], [3], [1, 2]] = [[1, 4], [1, 2]] := by decide +kernel

example : (popularityCmp exVoters [[1, 2], [3], [1, 2], [1, 4]]).Perm (popularityCmp exVoters [[1, 4], [3], [1, 2]]) :=
  popularityCmp_congr exVoters (fun x => by simp only [List.mem_cons, List.not_mem_nil, or_false]; tauto)

end C19
end Pabu
