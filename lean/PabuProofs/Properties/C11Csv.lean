/-
  C11, text layer — the `csv` writer and reader as `pabutools/election/pabulib.py` configures them
  (model: PabuModel/Csv.lean) are inverse to each other on every list of rows whose fields satisfy `FieldOK`,
  both exclusions of `FieldOK` are necessary, and with the row-level theorem `parse_write` (Properties/C11)
  this gives the round trip of `election_as_pabulib_string` / `parse_pabulib_from_string` on the TEXT.
-/
import PabuProofs.Lemmas.Csv
import PabuProofs.Properties.C11
namespace Pabu.Csv
open Pabu.Pabulib

/-- reading what was written gives the rows back, without an error: for ALL rows (any number of rows, of
    fields, empty rows, rows holding one empty field, any characters) whose fields are at most
    `csv.field_size_limit()` long and contain `\r` only together with `;`, `"` or `\n` -/
theorem read_write {rows : List (List Str)} (hok : RowsOK rows = true) : csvReadE (csvWrite rows) = (rows, none) :=
  csvReadL_csvWrite hok

theorem read_write_rows {rows : List (List Str)} (hok : RowsOK rows = true) : csvRead (csvWrite rows) = rows := by
  rw [csvRead, read_write hok]

/-- the same for every value of the field size limit -/
theorem read_write_limit {lim : Nat} {rows : List (List Str)} (hok : RowsOKL lim rows = true) :
    csvReadL lim (csvWrite rows) = (rows, none) :=
  csvReadL_csvWrite hok

/-- QUOTE_MINIMAL: a field without `;`, `"`, `\n` is written verbatim, every other field between quotes with
    its quotes doubled -/
theorem quote_minimal (f : Str) :
    (needsQuote f = false → writeField f = f) ∧
    (needsQuote f = true → writeField f = '"' :: (doubleQuotes f ++ ['"'])) := by
  constructor <;> intro h <;> simp [writeField, h]

/-- a written row is its written fields separated by `;`, except that the row holding one empty field is `""`
    (the empty row is the empty line) -/
theorem writeRow_shape (row : List Str) :
    writeRow row = if row = [[]] then ['"', '"'] else joinC ';' (row.map writeField) := by
  have hj : ∀ l : List Str, writeFields l = joinC ';' (l.map writeField) := by
    intro l
    induction l with
    | nil => rfl
    | cons f fs ih =>
      cases fs with
      | nil => rfl
      | cons g r => rw [writeFields, ih]; rfl
  unfold writeRow
  rw [hj]

/-- for ALL texts: the only exception the reader can raise is "field larger than field limit" (the "new-line
    character seen in unquoted field" error of `_csv.c` is unreachable on the lines of `io.StringIO(…, newline="")`) -/
theorem reader_error_only_field_limit {lim : Nat} {text : List Char} {e : CsvErr}
    (h : (csvReadL lim text).2 = some e) : e = .fieldLimit :=
  csvReadL_error h

/-! ### `FieldOK` cannot be weakened -/

/-- a `\r` in a field that nothing else gets quoted: the writer emits it bare and the reader ends the row there -/
theorem rows_ok_necessary_cr :
    RowsOK [[s!!"a\rb"]] = false ∧ csvWrite [[s!!"a\rb"]] = s!!"a\rb\n" ∧
    csvReadE (csvWrite [[s!!"a\rb"]]) = ([[s!!"a"], [s!!"b"]], none) := by decide

/-- … but together with a character that gets the field quoted it is carried -/
example : RowsOK [[s!!"a\r\nb", s!!"\r;"]] = true ∧
    csvReadE (csvWrite [[s!!"a\r\nb", s!!"\r;"]]) = ([[s!!"a\r\nb", s!!"\r;"]], none) := by decide

/-- a field one character longer than the limit: `_csv.Error`, no row is delivered -/
theorem rows_ok_necessary_limit (lim : Nat) :
    RowsOKL lim [[List.replicate (lim + 1) 'a']] = false ∧
    csvReadL lim (csvWrite [[List.replicate (lim + 1) 'a']]) = ([], some .fieldLimit) := by
  constructor
  · simp [RowsOKL, FieldOK]
  · have hw : csvWrite [[List.replicate (lim + 1) 'a']] = List.replicate (lim + 1) 'a' ++ ['\n'] := by
      have hq : needsQuote (List.replicate (lim + 1) 'a') = false := by
        simp only [needsQuote, List.any_eq_false]
        intro c hc
        rw [List.eq_of_mem_replicate hc]
        decide
      have hne : ¬ ([List.replicate (lim + 1) 'a'] = [[]]) := by simp [List.replicate_succ]
      simp [csvWrite, writeRow, hne, writeFields, writeField, hq]
    have hinit : ({} : RSt) = ⟨.startRecord, [], [], 0, []⟩ := rfl
    rw [hw, csvReadL, hinit, run_limit]
    rfl

/-- the empty row and the row holding one empty field are written differently and both read back -/
theorem empty_row_vs_empty_field :
    csvWrite [[], [[]], [[], []]] = s!!"\n\"\"\n;\n" ∧
    csvReadE (s!!"\n\"\"\n;\n") = ([[], [[]], [[], []]], none) := by decide

/-! ### what the reader does with text no writer produced (the corners of the state machine) -/

example : csvReadE (s!!"a\"b;\"c\"d;\"e\"\"f\";\"g;\nh\"\r\n\r\"i") =
    ([[s!!"a\"b", s!!"cd", s!!"e\"f", s!!"g;\nh"], [], [s!!"i"]], none) := by decide

/-! ### the former reading `csv.reader(file_content.splitlines(), delimiter=";")`

It lost every line break inside a quoted field and ended a row at each of the line boundaries of
`str.splitlines`, none of which the writer quotes except `\n`. -/

theorem splitlines_reading_loses_newline :
    RowsOK [[s!!"two\nlines"]] = true ∧
    csvReadSplitlines (csvWrite [[s!!"two\nlines"]]) = ([[s!!"twolines"]], none) := by decide

theorem splitlines_reading_splits_rows :
    RowsOK [[['a', Char.ofNat 0x0c, 'b'], ['c', Char.ofNat 0x2028, 'd']]] = true ∧
    csvReadSplitlines (csvWrite [[['a', Char.ofNat 0x0c, 'b'], ['c', Char.ofNat 0x2028, 'd']]]) =
      ([[s!!"a"], [s!!"b", s!!"c"], [s!!"d"]], none) := by decide

/-! ### the whole file -/

/-- writing a well-formed election to TEXT and parsing the text yields the election in normal form -/
theorem parse_write_text {e : Election} (hw : WF e) (hf : RowsOK (writeRows e) = true) :
    parseText (writeText e) = .ok (norm e) := by
  unfold parseText writeText
  rw [read_write hf]
  simp only
  rw [parse_write hw]

/-- the second round trip through text is the identity -/
theorem round_trip_twice_text {e : Election} (hw : WF e)
    (hN : normLimits e.vtype e.projects.length e.budget e.limits = e.limits)
    (hf : RowsOK (writeRows (norm e)) = true) :
    parseText (writeText (norm e)) = .ok (norm e) := by
  unfold parseText writeText
  rw [read_write hf]
  simp only
  rw [round_trip_twice hw hN]

/-- when the reader raises after having delivered some rows: a section line waiting for its header gets the
    reader's error, an exception of an earlier row comes first -/
example : parseBroken [[s!!"META"]] .fieldLimit = .csv .fieldLimit := by decide
example : parseBroken [[s!!"META"], [s!!"key", s!!"value"], [s!!"x"]] .fieldLimit = .parse .index := by decide

/-! ### non-vacuity: separators, quotes and line breaks inside names and values -/

def exTextProjects : Map ProjData :=
  [(s!!"p\n1", { cost := 5, cats := [], targets := [], md := [(s!!"name", s!!"say \"hi\"; bye")] }),
   (s!!"q;r", { cost := 7 / 2, cats := [['a', Char.ofNat 0x0c, 'b']], targets := [], md := [] })]

def exText : Election :=
  { vtype := .approval, budget := 10, md := [(s!!"description", s!!"two\r\nlines")], projects := exTextProjects,
    votes := [{ ballot := .app [s!!"p\n1", s!!"q;r"], md := [(s!!"district", s!!"\"north\"")] },
              { ballot := .app [s!!"q;r"], md := [] }],
    limits := {} }

theorem wf_exText : WF exText := by decide
theorem rowsOK_exText : RowsOK (writeRows exText) = true := by decide +kernel
example : parseText (writeText exText) = .ok (norm exText) := parse_write_text wf_exText rowsOK_exText

theorem rowsOK_exApproval : RowsOK (writeRows Pabulib.exApproval) = true := by decide +kernel
example : parseText (writeText Pabulib.exApproval) = .ok (norm Pabulib.exApproval) :=
  parse_write_text Pabulib.wf_exApproval rowsOK_exApproval
example : parseText (writeText (norm Pabulib.exApproval)) = .ok (norm Pabulib.exApproval) :=
  round_trip_twice_text Pabulib.wf_exApproval Pabulib.exApproval_limits_normal (by decide +kernel)

/-- the PROJECTS block of `exText` as text -/
example : csvWrite (writeProjectRows exText.projects) =
    s!!"\"p\n1\";5;\"say \"\"hi\"\"; bye\";None\n\"q;r\";7/2;None;a" ++ Char.ofNat 0x0c :: s!!"b\n" := by decide +kernel

end Pabu.Csv
