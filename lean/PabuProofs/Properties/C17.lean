/-
  C17 — election containers keep their type, metadata and ballot validation.
  Table model: PabuModel.Containers; rows regenerated from the class sources: Gen.Containers.
-/
import PabuModel.Containers
import Gen.Containers
namespace Pabu.Containers
open Pabu.Gen

/-- every deriving method of the builtin base of every container class is re-wrapped or defined by the class itself,
    its constructor copies and keeps the attributes, and copy / pickle reconstruct it with its attributes -/
theorem closure : ∀ r ∈ containerRows, r.rowClosed = true := by decide

/-- every primitive of the builtin base that can store a new ballot in a profile is overridden by a validating method
    (and `as_multiprofile` passes every legal limit on) -/
theorem validated : ∀ r ∈ containerRows, r.rowValidated = true := by decide

/-- ballot constructors keep the name and meta they are given and copy them from a ballot -/
theorem ballot_keeps_name_meta : ∀ r ∈ containerRows, r.ballotOk = true := by decide

/-- one step of a closed class keeps class and attributes -/
theorem step_preserve (r : ClassRow) (h : r.rowClosed = true) (o : Obj) (op : OpKind)
    (hop : ∀ m, op = .deriving m → m ∈ r.base.deriving)
    (ho : o.cls = some r.name ∧ o.attrs = true) :
    (step r o op).cls = some r.name ∧ (step r o op).attrs = true := by
  unfold ClassRow.rowClosed at h
  simp only [Bool.and_eq_true] at h
  obtain ⟨⟨⟨⟨hall, hctor⟩, hcopies⟩, hpickle⟩, hcopy⟩ := h
  cases op with
  | «deriving» m =>
    have hm : r.closed m = true := List.all_eq_true.1 hall m (hop m rfl)
    have h2 : (r.closed m && r.ctorOk) = true := by rw [hm, hctor]; rfl
    have e : step r o (.deriving m) = o := by
      show (if o.cls = some r.name then (if (r.closed m && r.ctorOk) = true then o else lost) else o) = o
      rw [if_pos ho.1, if_pos h2]
    rw [e]; exact ho
  | inplace m => exact ho
  | mutate m wt =>
    have e : step r o (.mutate m wt) = o ∨ step r o (.mutate m wt) = { o with valid := o.valid && wt } := by
      show (if o.cls = some r.name then
          (if r.base.inserting.contains m = true then
            (if r.validating.contains m = true then o else { o with valid := o.valid && wt }) else o) else o) = o ∨ _
      rw [if_pos ho.1]
      by_cases h1 : r.base.inserting.contains m = true
      · rw [if_pos h1]
        by_cases h2 : r.validating.contains m = true
        · rw [if_pos h2]; left; rfl
        · rw [if_neg h2]; right
          show (if o.cls = some r.name then
            (if r.base.inserting.contains m = true then
              (if r.validating.contains m = true then o else { o with valid := o.valid && wt }) else o) else o) = _
          rw [if_pos ho.1, if_pos h1, if_neg h2]
      · rw [if_neg h1]; left; rfl
    rcases e with e | e
    · rw [e]; exact ho
    · rw [e]; exact ⟨ho.1, ho.2⟩
  | copy =>
    have e : step r o .copy = o := by
      show (if o.cls = some r.name then (if r.copySafe = true then o else lost) else o) = o
      rw [if_pos ho.1, if_pos hcopy]
    rw [e]; exact ho
  | pickle =>
    have e : step r o .pickle = o := by
      show (if o.cls = some r.name then (if r.pickleSafe = true then o else lost) else o) = o
      rw [if_pos ho.1, if_pos hpickle]
    rw [e]; exact ho
  | construct =>
    have h2 : (r.ctorCopies && r.ctorOk) = true := by rw [hcopies, hctor]; rfl
    have e : step r o .construct = o := by
      show (if o.cls = some r.name then (if (r.ctorCopies && r.ctorOk) = true then o else lost) else o) = o
      rw [if_pos ho.1, if_pos h2]
    rw [e]; exact ho

/-- any sequence of operations on an object of a closed class (deriving steps drawn from the builtin's deriving
    methods) ends with an object of the same class carrying the source's attributes -/
theorem ops_preserve (r : ClassRow) (h : r.rowClosed = true) (ops : List OpKind)
    (hops : ∀ op ∈ ops, ∀ m, op = .deriving m → m ∈ r.base.deriving) (o : Obj)
    (ho : o.cls = some r.name ∧ o.attrs = true) :
    (runOps r o ops).cls = some r.name ∧ (runOps r o ops).attrs = true := by
  unfold runOps
  induction ops generalizing o with
  | nil => exact ho
  | cons op ops ih =>
    rw [List.foldl_cons]
    apply ih (fun op' h' => hops op' (List.mem_cons_of_mem _ h'))
    exact step_preserve r h o op (hops op (by simp)) ho

/-- if every inserting primitive validates, a valid profile stays valid whatever is thrown at it -/
theorem valid_preserved (r : ClassRow) (h : r.base.inserting.all r.validating.contains = true)
    (ops : List OpKind) (o : Obj) (ho : o.valid = true) : (runOps r o ops).valid = true := by
  unfold runOps
  induction ops generalizing o with
  | nil => exact ho
  | cons op ops ih =>
    rw [List.foldl_cons]
    apply ih
    cases op with
    | «deriving» m =>
      simp only [step]
      by_cases h1 : o.cls = some r.name
      · rw [if_pos h1]
        by_cases h2 : (r.closed m && r.ctorOk) = true
        · rw [if_pos h2]; exact ho
        · rw [if_neg h2]; rfl
      · rw [if_neg h1]; exact ho
    | inplace m => exact ho
    | mutate m wt =>
      simp only [step]
      by_cases h1 : o.cls = some r.name
      · rw [if_pos h1]
        by_cases h2 : r.base.inserting.contains m = true
        · rw [if_pos h2]
          have hm : m ∈ r.base.inserting := by simpa using h2
          have hv : r.validating.contains m = true := List.all_eq_true.1 h m hm
          rw [if_pos hv]; exact ho
        · rw [if_neg h2]; exact ho
      · rw [if_neg h1]; exact ho
    | copy =>
      simp only [step]
      by_cases h1 : o.cls = some r.name
      · rw [if_pos h1]
        by_cases h2 : r.copySafe = true
        · rw [if_pos h2]; exact ho
        · rw [if_neg h2]; rfl
      · rw [if_neg h1]; exact ho
    | pickle =>
      simp only [step]
      by_cases h1 : o.cls = some r.name
      · rw [if_pos h1]
        by_cases h2 : r.pickleSafe = true
        · rw [if_pos h2]; exact ho
        · rw [if_neg h2]; rfl
      · rw [if_neg h1]; exact ho
    | construct =>
      simp only [step]
      by_cases h1 : o.cls = some r.name
      · rw [if_pos h1]
        by_cases h2 : (r.ctorCopies && r.ctorOk) = true
        · rw [if_pos h2]; exact ho
        · rw [if_neg h2]; rfl
      · rw [if_neg h1]; exact ho

/-- the two together, for the classes of the library: every container class is closed, so every operation sequence
    preserves class and attributes; every profile class validates, so validity is preserved -/
theorem containers_preserve (r : ClassRow) (hr : r ∈ containerRows) (ops : List OpKind)
    (hops : ∀ op ∈ ops, ∀ m, op = .deriving m → m ∈ r.base.deriving) :
    (runOps r { cls := some r.name, attrs := true, valid := true } ops).cls = some r.name ∧
    (runOps r { cls := some r.name, attrs := true, valid := true } ops).attrs = true :=
  ops_preserve r (closure r hr) ops hops _ ⟨rfl, rfl⟩

theorem profiles_stay_valid (r : ClassRow) (hr : r ∈ containerRows)
    (hrole : r.role = .listProfile ∨ r.role = .multiProfile) (ops : List OpKind) :
    (runOps r { cls := some r.name, attrs := true, valid := true } ops).valid = true := by
  apply valid_preserved r _ ops _ rfl
  have hv := validated r hr
  unfold ClassRow.rowValidated at hv
  rcases hrole with h | h
  · rw [h] at hv; simp only [Bool.and_eq_true] at hv; exact hv.1
  · rw [h] at hv; exact hv

/-! non-vacuity: a concrete sequence on the approval profile row, and sensitivity: a row without the `__pos__`
    wrapper (the unrepaired multiprofile) is not closed and loses class and attributes -/
example : ∃ r ∈ containerRows, r.name = "ApprovalProfile" ∧
    (runOps r { cls := some r.name, attrs := true, valid := true }
      [.deriving "__add__", .mutate "__iadd__" false, .pickle, .deriving "__getitem__", .construct, .copy]).valid = true := by
  decide

def unrepairedMulti : ClassRow :=
  { name := "M", base := .counter, role := .multiProfile,
    wrapped := ["__add__", "__sub__", "__and__", "__or__", "__ror__", "copy"], ownMethods := ["__reduce__"],
    inherited := [], validating := [], ctorCopies := true, ctorKeeps := true, metaDefaultOk := true,
    asMultiComplete := true }

example : unrepairedMulti.rowClosed = false ∧
    (runOps unrepairedMulti { cls := some "M", attrs := true, valid := true } [.deriving "__pos__"]).cls = none ∧
    (runOps unrepairedMulti { cls := some "M", attrs := true, valid := true } [.mutate "setdefault" false]).valid = false := by
  decide

end Pabu.Containers
