/-
  C04 — the welfare maximiser returns an optimum (primal/dual knapsack path).

  * `Knap.solve_optimal`: on items sorted by efficiency (profit/weight, descending) with positive weights,
    non-negative profits and a non-negative capacity, the value returned by the branch-and-bound equals the
    maximum profit over all sub-lists of the index range that fit the capacity, and the returned index list
    (if any) is such a sub-list attaining it.
  * `MaxWelfare.primalDual_*`: the allocation returned by `max_additive_utilitarian_welfare_primal_dual_scheme`
    is feasible, extends the initial allocation, has no duplicates, and its welfare equals the brute-force
    optimum `optValue` over all feasible allocations extending the initial one — for ALL real profits: total
    satisfactions may be negative (cardinal ballots with negative scores).  Only projects of positive cost and
    non-negative profit are handed to the knapsack; `dropNegative` is why that loses nothing: dropping the
    projects of negative profit from a feasible extension keeps it feasible (costs ≥ 0) and does not lower
    its welfare.  (The first version of these theorems carried the hypothesis `∀ p, 0 ≤ profit p`; the code was
    wrong exactly where it failed — defect D45, `PabuProofs/Mutants/C04.lean`.)

  The supporting lemmas (`bound`, `pd_mono`, `pd_complete`, `pd_sound`, split index facts, sorting, the
  index <-> project transfer) are in `PabuProofs/Lemmas/Knapsack.lean` and `PabuProofs/Lemmas/KnapsackLift.lean`.
-/
import PabuProofs.Lemmas.KnapsackLift
import Mathlib.Tactic.NormNum
import Mathlib.Tactic.IntervalCases
namespace Pabu

namespace Knap

/-- Optimality of the primal/dual branch-and-bound over index sub-lists:
    (1) no sub-list of the index range that fits the capacity has more profit than the returned value;
    (2) some such sub-list attains it;
    (3) if a list is returned, it is a sub-list of the index range (strictly increasing, hence duplicate-free,
        all indices valid), fits the capacity and has exactly the returned value;
    (4) if no list is returned the value is 0 (attained by the empty set);
    (5) the value is the brute-force optimum `optSpec`. -/
theorem solve_optimal (items : Array Item) (cap : Rat) (h : Sorted items) (hcap : 0 ≤ cap) :
    (∀ s ∈ sublists (List.range items.size), sumOver s (pw items) ≤ cap →
        sumOver s (pp items) ≤ (solve items cap).1) ∧
    (∃ s ∈ sublists (List.range items.size), sumOver s (pw items) ≤ cap ∧
        sumOver s (pp items) = (solve items cap).1) ∧
    (∀ S, (solve items cap).2 = some S →
        S ∈ sublists (List.range items.size) ∧ sumOver S (pw items) ≤ cap ∧
          sumOver S (pp items) = (solve items cap).1) ∧
    ((solve items cap).2 = none → (solve items cap).1 = 0) ∧
    (solve items cap).1 = optSpec items cap :=
  ⟨fun s hs hw => solve_ge_list items h cap s hs hw, solve_attained items cap hcap,
   fun S hS => solve_some items cap S hS, fun hS => solve_none items cap hS,
   solve_eq_optSpec items h cap hcap⟩

/-- The same upper bound over arbitrary index sets given as indicators `Nat → Bool`. -/
theorem solve_optimal_indicator (items : Array Item) (cap : Rat) (h : Sorted items)
    (Y : Nat → Bool) (hY : weightY items Y ≤ cap) : profitY items Y ≤ (solve items cap).1 :=
  solve_ge items h cap Y hY

/-- The returned list is sound without any hypothesis on the items (no sortedness needed):
    strictly increasing valid indices, fits the capacity, value as recorded. -/
theorem solve_sound (items : Array Item) (cap : Rat) (S : List Nat) (hS : (solve items cap).2 = some S) :
    S.Pairwise (· < ·) ∧ S.Nodup ∧ (∀ i ∈ S, i < items.size) ∧
      sumOver S (pw items) ≤ cap ∧ sumOver S (pp items) = (solve items cap).1 := by
  have := solve_incOK items cap
  unfold IncOK at this
  rw [hS] at this
  obtain ⟨h1, h2, h3, h4⟩ := this
  exact ⟨h1, h1.imp (fun h => Nat.ne_of_lt h), h2, h4, h3⟩

/-! non-vacuity: a concrete sorted item array (efficiencies 3/2 > 4/3 > 5/4 > 6/5), capacity 7 -/
example : Sorted #[⟨2, 3⟩, ⟨3, 4⟩, ⟨4, 5⟩, ⟨5, 6⟩] ∧ (0 : Rat) ≤ 7 := by
  refine ⟨⟨?_, ?_, ?_⟩, by norm_num⟩
  · intro i hi
    simp only [List.size_toArray, List.length_cons, List.length_nil] at hi
    interval_cases i <;> simp [pw, Array.getD]
  · intro i hi
    simp only [List.size_toArray, List.length_cons, List.length_nil] at hi
    interval_cases i <;> simp [pp, Array.getD]
  · intro i j hij hj
    simp only [List.size_toArray, List.length_cons, List.length_nil] at hj
    interval_cases j <;> interval_cases i <;> simp [pe, pp, pw, Array.getD] <;> norm_num

end Knap

namespace MaxWelfare
open Knap

variable (I : Inst) (profit : Pid → Rat) (init enum : List Pid)

/-- C01 for this rule: the returned allocation respects the budget limit. -/
theorem primalDual_feasible
    (hcost : ∀ p ∈ I.projects, 0 ≤ I.cost p)
    (hinit : I.isFeasible init = true) (hperm : enum.Perm I.projects) (hnd : enum.Nodup) :
    I.isFeasible (primalDual I profit init enum) = true :=
  PDHyp.feasible ⟨hcost, hinit, hperm, hnd⟩

/-- The returned allocation starts with the initial allocation (unconditionally). -/
theorem primalDual_contains_init : init <+: primalDual I profit init enum :=
  init_prefix I profit init enum

/-- The returned allocation has no duplicates if the initial one has none. -/
theorem primalDual_nodup
    (hcost : ∀ p ∈ I.projects, 0 ≤ I.cost p)
    (hinit : I.isFeasible init = true) (hperm : enum.Perm I.projects) (hnd : enum.Nodup)
    (hinitnd : init.Nodup) :
    (primalDual I profit init enum).Nodup :=
  PDHyp.nodup ⟨hcost, hinit, hperm, hnd⟩ hinitnd

/-- Projects of negative profit are never needed: from a feasible extension `init ++ s` of the initial
    allocation, dropping the projects of negative profit gives again a candidate extension that is feasible,
    contains only projects of non-negative profit and has at least the same welfare.  (Costs ≥ 0 is needed:
    with a negative cost, dropping a project could break the budget.) -/
theorem dropNegative
    (hcost : ∀ p ∈ I.projects, 0 ≤ I.cost p)
    (hinit : I.isFeasible init = true) (hperm : enum.Perm I.projects) (hnd : enum.Nodup)
    (s : List Pid) (hs : s ∈ sublists (I.projects.filter (fun p => !init.contains p)))
    (hf : I.isFeasible (init ++ s) = true) :
    s.filter (fun p => decide (0 ≤ profit p)) ∈ sublists (I.projects.filter (fun p => !init.contains p)) ∧
    (∀ x ∈ s.filter (fun p => decide (0 ≤ profit p)), 0 ≤ profit x) ∧
    I.isFeasible (init ++ s.filter (fun p => decide (0 ≤ profit p))) = true ∧
    sumOver s profit ≤ sumOver (s.filter (fun p => decide (0 ≤ profit p))) profit :=
  PDHyp.dropNeg (profit := profit) ⟨hcost, hinit, hperm, hnd⟩ hs hf

/-- Optimality: the welfare of the returned allocation equals the maximum of the welfare over all feasible
    allocations `init ++ s`, `s` a sub-list of the projects outside `init`. -/
theorem primalDual_optimal
    (hcost : ∀ p ∈ I.projects, 0 ≤ I.cost p)
    (hinit : I.isFeasible init = true) (hperm : enum.Perm I.projects) (hnd : enum.Nodup) :
    sumOver (primalDual I profit init enum) profit = optValue I profit init :=
  PDHyp.optimal ⟨hcost, hinit, hperm, hnd⟩

/-- ... spelled out without `optValue`: every feasible extension of `init` has at most that welfare. -/
theorem primalDual_dominates
    (hcost : ∀ p ∈ I.projects, 0 ≤ I.cost p)
    (hinit : I.isFeasible init = true) (hperm : enum.Perm I.projects) (hnd : enum.Nodup)
    (s : List Pid) (hs : s ∈ sublists (I.projects.filter (fun p => !init.contains p)))
    (hf : I.isFeasible (init ++ s) = true) :
    sumOver (init ++ s) profit ≤ sumOver (primalDual I profit init enum) profit := by
  have H : PDHyp I profit init enum := ⟨hcost, hinit, hperm, hnd⟩
  rw [H.value, sumOver_append]
  have := H.upper hs hf
  linarith

/-- The returned allocation is, up to the order of its elements, one of the welfare-maximal feasible
    allocations enumerated by the irresolute specification `allOptima`. -/
theorem primalDual_in_allOptima
    (hcost : ∀ p ∈ I.projects, 0 ≤ I.cost p)
    (hinit : I.isFeasible init = true) (hperm : enum.Perm I.projects) (hnd : enum.Nodup) :
    ∃ a ∈ allOptima I profit init, a.Perm (primalDual I profit init enum) := by
  have H : PDHyp I profit init enum := ⟨hcost, hinit, hperm, hnd⟩
  refine ⟨init ++ pdAdded I profit init enum, ?_, H.added_perm⟩
  unfold allOptima
  refine List.mem_filter.mpr ⟨List.mem_filter.mpr ⟨?_, ?_⟩, ?_⟩
  · exact List.mem_map.mpr ⟨_, (mem_sublists _ _).mpr List.filter_sublist, rfl⟩
  · have := H.feasible
    unfold Inst.isFeasible Inst.totalCost costOf at this ⊢
    rw [sumOver_perm H.added_perm I.cost]; exact this
  · apply decide_eq_true
    rw [sumOver_perm H.added_perm profit]; exact H.optimal

/-! non-vacuity: 6 projects (one zero-cost with positive profit, one zero-cost with zero profit, one of
    positive cost with NEGATIVE profit, one zero-cost with negative profit), fractional cost and profit,
    a non-empty feasible initial allocation, a non-identity enumeration -/
example : ∃ (I : Inst) (profit : Pid → Rat) (init enum : List Pid),
    (∀ p ∈ I.projects, 0 ≤ I.cost p) ∧ (∃ p ∈ I.projects, profit p < 0 ∧ 0 < I.cost p) ∧
    (∃ p ∈ I.projects, profit p < 0 ∧ I.cost p = 0) ∧
    I.isFeasible init = true ∧ enum.Perm I.projects ∧ enum.Nodup ∧ init.Nodup ∧
    init ≠ [] ∧ enum ≠ I.projects := by
  refine ⟨⟨[0, 1, 2, 3, 4, 5], fun p => match p with | 0 => 0 | 1 => 5/2 | 2 => 3 | 3 => 0 | 4 => 4 | _ => 0, 7⟩,
    fun p => match p with | 0 => 2 | 1 => 7/3 | 2 => 4 | 3 => 0 | 4 => -3/2 | _ => -1, [2], [3, 1, 5, 4, 0, 2], ?_⟩
  refine ⟨?_, ⟨4, by decide, by norm_num, by norm_num⟩, ⟨5, by decide, by norm_num, by norm_num⟩, ?_,
    by decide, by decide, by decide, by decide, by decide⟩
  · intro p hp
    simp only [List.mem_cons, List.not_mem_nil, or_false] at hp
    rcases hp with rfl | rfl | rfl | rfl | rfl | rfl <;> norm_num
  · simp [Inst.isFeasible, Inst.totalCost, costOf, sumOver]; norm_num

end MaxWelfare
end Pabu
