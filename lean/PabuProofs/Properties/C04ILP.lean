/-
  C04 (ILP path) and C15 (MIP helper) — the ENCODING and the enumeration LOOP of
  `max_additive_utilitarian_welfare_ilp_scheme`, `max_budget_allocation_cost` and the normaliser of
  `Additive_Cardinal_Relative_Sat` are correct for every instance, under one hypothesis about the solver:

      `SolverSpec solve`:  an answer `some a` is a feasible point of the program it was given with the largest
      objective value among all feasible points, and `none` is given only for an infeasible program.

  (`OracleSpec ask` = every call satisfies `SolverSpec`; the k-th `optimize()` call may answer differently.)

  * `ilp_resolute_optimal`       the resolute answer is feasible, has welfare `optValue`, and is (up to order) an
                                 element of the brute-force specification `MaxWelfare.allOptima`;
  * `cuts_exclude_exactly`       a 0/1 assignment satisfies both integer cuts for `S` iff its support is not `S`;
    `second_cut_redundant`       the second cut holds for exactly the assignments for which the first one holds;
  * `ilp_irresolute_all_optima`  the loop never runs out of fuel `2^n`, calls the solver exactly `#optima + 1 ≤ 2^n + 1`
                                 times, and returns exactly the optima of `allOptima`, each once, no two of them with
                                 the same set of projects; `pushNew_never_skips`: under the hypothesis the test
                                 `if previous_partial_alloc not in all_partial_allocs` always succeeds;
  * `maxCostILP_eq`, `maxScoreILP_eq`, `maxCountILP_eq`  the helpers return the brute-force optima
                                 `maxCostSpec`, `maxScoreSpec`, `maxCardinality` of Properties/C15.lean;
  * `bruteSolve_satisfies_spec`  the hypothesis is satisfiable (exhaustive search), and the model runs (examples).

  Modelled, not verified (runtime points, see DESIGN §5 C04): the code re-imposes the solver's FLOAT
  `objective_value` (`== opt_value`) and hands the solver double-precision coefficients; the model is exact.
-/
import PabuProofs.Lemmas.WelfareILP
namespace Pabu
namespace WelfareILP
open Pabu.Election

/-! ### resolute call -/

/-- Under `SolverSpec`, for a duplicate-free instance and a feasible initial allocation, the resolute ILP call returns
    an allocation `W` (the variables at one, then the initial allocation) that is feasible, whose welfare is the
    brute-force optimum, and that is — up to the order of its elements — a member of `allOptima`. -/
theorem ilp_resolute_optimal (solve : Program → Option Assignment) (hs : SolverSpec solve) (I : Inst)
    (score : Pid → Rat) (init : List Pid) (hnd : I.projects.Nodup) (hinit : I.isFeasible init = true) :
    ∃ W, resolute solve I score init = .ok W ∧ I.isFeasible W = true ∧
      sumOver W score = MaxWelfare.optValue I score init ∧
      ∃ o ∈ MaxWelfare.allOptima I score init, o.Perm W := by
  obtain ⟨a, ha, hfa, hval, hmem⟩ := base_solve_spec hs I score init hnd hinit
  have hres : resolute solve I score init = .ok (partialAlloc (freeVars I init) a ++ init) := by
    unfold resolute
    by_cases hemp : (freeVars I init).isEmpty = true
    · rw [if_pos hemp, List.isEmpty_iff.1 hemp]; rfl
    · rw [if_neg hemp, ha]
  refine ⟨partialAlloc (freeVars I init) a ++ init, hres, ?_, ?_, ?_⟩
  · unfold Inst.isFeasible Inst.totalCost at hfa ⊢
    rw [costOf_perm I.cost List.perm_append_comm]
    exact hfa
  · rw [hval, sumOver_append]
    unfold baseProgram
    rw [knap_objective]
    ring
  · refine ⟨init ++ partialAlloc (freeVars I init) a, ?_, List.perm_append_comm⟩
    rw [allOptima_eq_map]
    exact List.mem_map.2 ⟨_, hmem, rfl⟩

/-! ### the integer cuts -/

/-- For a duplicate-free variable list and a sub-list `S` of it: an assignment satisfies BOTH cuts added for `S`
    iff the list of its variables at one is not `S`. -/
theorem cuts_exclude_exactly (vars S : List Pid) (hv : vars.Nodup) (hS : S.Sublist vars) (a : Assignment) :
    ((cut1 vars S).sat a = true ∧ (cut2 vars S).sat a = true) ↔ partialAlloc vars a ≠ S := by
  have h := cuts_sat_iff_filter a (indicator S) vars
  rw [filter_indicator hS hv] at h
  exact h

/-- the same without any hypothesis on duplicates, in terms of sets: both cuts hold iff
    "the variable of `p` is at one ⇔ `p ∈ S`" fails for some variable -/
theorem cuts_exclude_exactly_set (vars S : List Pid) (hS : ∀ p ∈ S, p ∈ vars) (a : Assignment) :
    ((cut1 vars S).sat a = true ∧ (cut2 vars S).sat a = true) ↔ ¬ (∀ p ∈ vars, (a p = true ↔ p ∈ S)) :=
  cuts_sat_iff_set a vars S hS

/-- The second cut is redundant: it is satisfied by exactly the assignments that satisfy the first
    (its left-hand side is `|S|` minus the left-hand side of the first). No hypothesis at all. -/
theorem second_cut_redundant (vars S : List Pid) (a : Assignment) : (cut2 vars S).sat a = (cut1 vars S).sat a :=
  cut2_sat_eq_cut1 a vars S

/-- the first cut alone already excludes exactly `S` -/
theorem first_cut_excludes_exactly (vars S : List Pid) (hv : vars.Nodup) (hS : S.Sublist vars) (a : Assignment) :
    (cut1 vars S).sat a = true ↔ partialAlloc vars a ≠ S := by
  rw [← cuts_exclude_exactly vars S hv hS a, second_cut_redundant, and_self]

/-! ### irresolute call -/

theorem sublist_eq_of_perm {s t vars : List Pid} (hv : vars.Nodup) (hs : s.Sublist vars) (ht : t.Sublist vars)
    (h : s.Perm t) : s = t :=
  calc s = vars.filter (indicator s) := (filter_indicator hs hv).symm
    _ = vars.filter (indicator t) := by
        apply List.filter_congr
        intro p _
        apply Bool.eq_iff_iff.2
        rw [indicator_eq_true, indicator_eq_true]
        exact h.mem_iff
    _ = t := filter_indicator ht hv

/-- Under `OracleSpec`, for a duplicate-free instance and a feasible initial allocation, the irresolute ILP call
    * terminates: the fuel `2^n` (n = number of projects outside the initial allocation) is never exhausted, and the
      solver is called exactly `(number of optima) + 1 ≤ 2^n + 1` times (not at all when n = 0);
    * returns `L.map (· ++ init)` where `L` (the partial allocations in discovery order) has no duplicates, no two of
      its members have the same set of projects, and `L.map (init ++ ·)` is a permutation of `allOptima`:
      every welfare-maximal feasible allocation extending `init` is returned exactly once. -/
theorem ilp_irresolute_all_optima (ask : Oracle) (hask : OracleSpec ask) (I : Inst) (score : Pid → Rat)
    (init : List Pid) (hnd : I.projects.Nodup) (hinit : I.isFeasible init = true) :
    ∃ L : List (List Pid),
      (irresoluteRun ask I score init).result = .ok L ∧
      irresolute ask I score init = .ok (L.map (fun s => s ++ init)) ∧
      L.Nodup ∧
      L.Pairwise (fun s t => ¬ (s ++ init).Perm (t ++ init)) ∧
      (L.map (fun s => init ++ s)).Perm (MaxWelfare.allOptima I score init) ∧
      (irresoluteRun ask I score init).programs.length =
        (if (freeVars I init).isEmpty then 0 else (MaxWelfare.allOptima I score init).length + 1) ∧
      (irresoluteRun ask I score init).programs.length ≤ 2 ^ (freeVars I init).length + 1 := by
  obtain ⟨L, hL1, hL2, hL3⟩ := irresoluteRunFuel_spec ask hask I score init hnd hinit
    (2 ^ (freeVars I init).length) (optSupports_length_le I score init)
  have hLnd : L.Nodup := hL2.nodup_iff.2 (optSupports_nodup I score init hnd)
  have hv := freeVars_nodup I init hnd
  refine ⟨L, hL1, ?_, hLnd, ?_, ?_, ?_, ?_⟩
  · unfold irresolute
    have : (irresoluteRun ask I score init).result = .ok L := hL1
    rw [this]
    rfl
  · apply hLnd.imp_of_mem
    intro s t hs ht hne hperm
    apply hne
    have hs' := optSupports_sublist I score init s (hL2.mem_iff.1 hs)
    have ht' := optSupports_sublist I score init t (hL2.mem_iff.1 ht)
    exact sublist_eq_of_perm hv hs' ht' ((List.perm_append_right_iff init).1 hperm)
  · rw [allOptima_eq_map]
    exact hL2.map _
  · rw [allOptima_eq_map, List.length_map]
    exact hL3
  · have h1 : (irresoluteRun ask I score init).programs.length = expectedCalls I score init := hL3
    rw [h1]
    have := optSupports_length_le I score init
    unfold expectedCalls
    split <;> omega

/-- the same for a fixed solver -/
theorem ilp_irresolute_all_optima_fixed (solve : Program → Option Assignment) (hs : SolverSpec solve) (I : Inst)
    (score : Pid → Rat) (init : List Pid) (hnd : I.projects.Nodup) (hinit : I.isFeasible init = true) :
    ∃ L : List (List Pid),
      irresolute (fun _ => solve) I score init = .ok (L.map (fun s => s ++ init)) ∧ L.Nodup ∧
      (L.map (fun s => init ++ s)).Perm (MaxWelfare.allOptima I score init) := by
  obtain ⟨L, _, h2, h3, _, h5, _⟩ := ilp_irresolute_all_optima (fun _ => solve) (fun _ => hs) I score init hnd hinit
  exact ⟨L, h2, h3, h5⟩

/-! ### the solver is only trusted on programs that have variables

  python-mip refuses a model without variables ("Model has no variables. Nothing to optimize.", status OTHER, `x = None`)
  although the empty assignment is a feasible, optimal point of it: the bundled solver does NOT satisfy `SolverSpec` on
  variable-free programs.  Since the code returns the initial allocation without calling the solver when no project is
  left to decide (fix c7ce4cf, D46), the theorems above hold under the weaker `SolverSpecNE` / `OracleSpecNE`, which say
  nothing about such programs. -/

theorem ilp_resolute_optimal_NE (solve : Program → Option Assignment) (hs : SolverSpecNE solve) (I : Inst)
    (score : Pid → Rat) (init : List Pid) (hnd : I.projects.Nodup) (hinit : I.isFeasible init = true) :
    ∃ W, resolute solve I score init = .ok W ∧ I.isFeasible W = true ∧
      sumOver W score = MaxWelfare.optValue I score init ∧
      ∃ o ∈ MaxWelfare.allOptima I score init, o.Perm W := by
  rw [← resolute_patch]
  exact ilp_resolute_optimal (patch solve) (patch_spec hs) I score init hnd hinit

theorem ilp_irresolute_all_optima_NE (ask : Oracle) (hask : OracleSpecNE ask) (I : Inst) (score : Pid → Rat)
    (init : List Pid) (hnd : I.projects.Nodup) (hinit : I.isFeasible init = true) :
    ∃ L : List (List Pid),
      (irresoluteRun ask I score init).result = .ok L ∧
      irresolute ask I score init = .ok (L.map (fun s => s ++ init)) ∧
      L.Nodup ∧
      L.Pairwise (fun s t => ¬ (s ++ init).Perm (t ++ init)) ∧
      (L.map (fun s => init ++ s)).Perm (MaxWelfare.allOptima I score init) ∧
      (irresoluteRun ask I score init).programs.length =
        (if (freeVars I init).isEmpty then 0 else (MaxWelfare.allOptima I score init).length + 1) ∧
      (irresoluteRun ask I score init).programs.length ≤ 2 ^ (freeVars I init).length + 1 := by
  have h := ilp_irresolute_all_optima (fun k => patch (ask k)) (fun k => patch_spec (hask k)) I score init hnd hinit
  have e : irresoluteRun (fun k => patch (ask k)) I score init = irresoluteRun ask I score init :=
    irresoluteRunFuel_patch ask I score init _
  unfold irresolute at h ⊢
  rw [e] at h
  exact h

/-- no project left to decide: both calls return the initial allocation WHATEVER the solver does — it is not called -/
theorem ilp_no_free_project (solve : Program → Option Assignment) (ask : Oracle) (I : Inst) (score : Pid → Rat)
    (init : List Pid) (hfree : freeVars I init = []) :
    resolute solve I score init = .ok init ∧ irresolute ask I score init = .ok [init] ∧
      (irresoluteRun ask I score init).programs = [] := by
  have hemp : (freeVars I init).isEmpty = true := List.isEmpty_iff.2 hfree
  refine ⟨?_, ?_, ?_⟩
  · unfold resolute; rw [if_pos hemp]
  · unfold irresolute irresoluteRun irresoluteRunFuel; rw [if_pos hemp]; rfl
  · unfold irresoluteRun irresoluteRunFuel; rw [if_pos hemp]

/-- What the membership test `if previous_partial_alloc not in all_partial_allocs` does: under the invariant of the
    loop and `SolverSpec`, the support of every answer to a program with the cuts is NOT yet in the list, so the
    test always succeeds and the new allocation is appended.  (The test compares lists; both sides are filters of
    `p_vars`, so list equality is set equality.  Without the hypothesis — a solver returning an excluded point — the
    test skips the duplicate but the loop then adds the same cuts again and does not make progress.) -/
theorem pushNew_never_skips {solve : Program → Option Assignment} (hs : SolverSpec solve) {vars : List Pid}
    {Opt : List (List Pid)} {P : Program} {prev : List Pid} {all : List (List Pid)}
    (inv : LoopInv vars Opt P prev all) (a : Assignment) (ha : solve (P.addCuts prev) = some a) :
    pushNew all (partialAlloc P.vars a) = all ++ [partialAlloc P.vars a] := by
  apply pushNew_of_not_mem
  obtain ⟨b, hb⟩ := inv.hform
  have hfa := ((hs (P.addCuts prev)).1 a ha).1
  have h := addCuts_feasible_iff P a b
  rw [inv.hvars, ← hb] at h
  obtain ⟨h1, h2⟩ := h.1 hfa
  obtain ⟨_, h3⟩ := (inv.hfeas a).1 h1
  rw [inv.hvars]
  intro hmem
  exact h3 _ hmem h2 rfl

/-! ### the helpers of `pabutools/election/instance.py` and the normaliser of `Additive_Cardinal_Relative_Sat` -/

/-- `max_budget_allocation_cost(projects, budget)` returns the brute-force maximum `maxCostSpec` of C15 -/
theorem maxCostILP_eq (solve : Program → Option Assignment) (hs : SolverSpec solve) (cost : Pid → Rat)
    (l : List Pid) (hl : l.Nodup) (budget : Rat) (hb : 0 ≤ budget) :
    maxCostILP solve cost l budget = .ok (maxCostSpec cost l budget) := by
  unfold maxCostILP
  apply knapILP_eq hs cost cost hl budget
  · exact maxCostSpec_attained cost l budget hb
  · exact maxCostSpec_upper cost l budget

/-- the same program with an arbitrary objective (the normaliser of `Additive_Cardinal_Relative_Sat`: objective =
    the ballot's scores) returns `maxScoreSpec` -/
theorem maxScoreILP_eq (solve : Program → Option Assignment) (hs : SolverSpec solve) (cost score : Pid → Rat)
    (l : List Pid) (hl : l.Nodup) (budget : Rat) (hb : 0 ≤ budget) :
    knapILP solve cost score l budget = .ok (maxScoreSpec cost score l budget) := by
  apply knapILP_eq hs cost score hl budget
  · exact maxScoreSpec_attained cost score l budget hb
  · exact maxScoreSpec_upper cost score l budget

/-- objective "number of projects": the ILP optimum is the cheapest-first count `maxCardinality` that
    `max_budget_allocation_cardinality` computes (non-negative costs) -/
theorem maxCountILP_eq (solve : Program → Option Assignment) (hs : SolverSpec solve) (cost : Pid → Rat)
    (l : List Pid) (hl : l.Nodup) (budget : Rat) (hb : 0 ≤ budget) (hnn : ∀ p ∈ l, 0 ≤ cost p) :
    maxCountILP solve cost l budget = .ok ((maxCardinality cost l budget : Nat) : Rat) := by
  unfold maxCountILP
  apply knapILP_eq hs cost (fun _ => 1) hl budget
  · obtain ⟨s, h1, h2, h3⟩ := maxCardinality_attained cost l budget hb
    refine ⟨s, h1, h2, ?_⟩
    rw [sumOver_const, ← h3]
    ring
  · intro s h1 h2
    have := maxCardinality_upper cost l budget hnn s h1 h2
    rw [sumOver_const]
    have h : (s.length : Rat) ≤ ((maxCardinality cost l budget : Nat) : Rat) := by exact_mod_cast this
    linarith

/-! ### non-vacuity -/

/-- the oracle hypothesis is satisfiable: exhaustive search over the assignments of the mentioned variables -/
theorem bruteSolve_satisfies_spec : SolverSpec bruteSolve ∧ OracleSpec (fun _ => bruteSolve) :=
  ⟨bruteSolve_spec, fun _ => bruteSolve_spec⟩

/-- six projects, fractional costs, a non-empty initial allocation: four welfare-maximal allocations -/
def exInst : Inst :=
  { projects := [0, 1, 2, 3, 4, 5],
    cost := fun p => if p = 2 then 2 else if p = 3 then 1 / 2 else if p = 4 then 1 / 2 else 1,
    budget := 3 }

def exScore : Pid → Rat := fun p => if p = 2 then 4 else if p = 3 then 1 else if p = 4 then 1 else if p = 5 then 7 / 3 else 2

example : exInst.projects.Nodup := by decide
example : exInst.isFeasible [5] = true := by decide +kernel

/-- the model, run with the brute-force solver: the four optima in discovery order … -/
example : irresolute (fun _ => bruteSolve) exInst exScore [5]
    = .ok [[2, 5], [1, 3, 4, 5], [0, 3, 4, 5], [0, 1, 5]] := by decide +kernel

/-- … five programs were posed (four optima + the final infeasible one) … -/
example : (irresoluteRun (fun _ => bruteSolve) exInst exScore [5]).programs.length = 5 := by decide +kernel

/-- … which are the optima of the brute-force specification -/
example : MaxWelfare.allOptima exInst exScore [5] = [[5, 2], [5, 1, 3, 4], [5, 0, 3, 4], [5, 0, 1]] := by
  decide +kernel

example : resolute bruteSolve exInst exScore [5] = .ok [2, 5] := by decide +kernel

/-- the helpers on 1/3 + 1/3 under budget 2/3 (exactly 2/3) -/
example : maxCostILP bruteSolve (fun _ => 1 / 3) [0, 1, 2] (2 / 3) = .ok (2 / 3) := by decide +kernel
example : maxCountILP bruteSolve (fun _ => 1 / 3) [0, 1, 2] (2 / 3) = .ok 2 := by decide +kernel

/-- the cuts for S = [0, 2] over the variables [0, 1, 2]: satisfied by the support [0], violated by [0, 2] -/
example : (cut1 [0, 1, 2] [0, 2]).sat (indicator [0]) = true ∧ (cut1 [0, 1, 2] [0, 2]).sat (indicator [0, 2]) = false ∧
    (cut2 [0, 1, 2] [0, 2]).sat (indicator [0]) = true ∧ (cut2 [0, 1, 2] [0, 2]).sat (indicator [0, 2]) = false := by
  decide +kernel

end WelfareILP
end Pabu
