/-
  C10 — satisfaction measures compute their documented formulas exactly.
  `sat`/`satProject` of `PabuModel.Sat`: additivity, the empty collection, independence of the order of the
  collection, the closed form of every measure's per-project value, optimality of the normalisers.
-/
import PabuModel.Sat
import PabuProofs.Lemmas.Election
import Mathlib.Tactic.NormNum
namespace Pabu.C10
open Pabu.Election

/-! ### additivity, empty set, order independence -/

/-- additive measures are exactly the sum of their per-project values -/
theorem sat_additive (μ : Measure) (h : μ.isAdditive = true) (I : Inst) (P : Profile) (b : Ballot) (l : List Pid) :
    sat μ I P b l = sumOver l (satProject μ I P b) := by
  cases μ <;> first | rfl | (simp [Measure.isAdditive] at h)

/-- every measure gives 0 to the empty collection -/
theorem sat_nil (μ : Measure) (I : Inst) (P : Profile) (b : Ballot) : sat μ I P b [] = 0 := by
  cases μ <;> try rfl
  cases b <;> simp [sat, ccCard]

/-- one step of the Chamberlin–Courant loop on cardinal ballots -/
def ccStep (b : Ballot) (r : Rat) (p : Pid) : Rat := if b.mem p ∧ b.score p > r then b.score p else r

theorem ccCard_cons (b : Ballot) (r : Rat) (p : Pid) (ps : List Pid) :
    ccCard b r (p :: ps) = ccCard b (ccStep b r p) ps := by
  rw [ccCard, ccStep]
  by_cases h : b.mem p = true ∧ b.score p > r
  · rw [if_pos h, if_pos h]
  · rw [if_neg h, if_neg h]

/-- the running maximum does not depend on the order of two consecutive projects -/
theorem ccStep_comm (b : Ballot) (r : Rat) (p q : Pid) : ccStep b (ccStep b r p) q = ccStep b (ccStep b r q) p := by
  unfold ccStep
  by_cases hp : b.mem p = true <;> by_cases hq : b.mem q = true <;>
    (simp only [hp, hq, true_and, false_and, if_false, Bool.false_eq_true]
     all_goals (try split_ifs)
     all_goals (first | rfl | linarith))

theorem ccCard_perm (b : Ballot) {l₁ l₂ : List Pid} (h : l₁.Perm l₂) (r : Rat) : ccCard b r l₁ = ccCard b r l₂ := by
  induction h generalizing r with
  | nil => rfl
  | cons x _ ih => rw [ccCard_cons, ccCard_cons, ih]
  | swap x y l => rw [ccCard_cons, ccCard_cons, ccCard_cons, ccCard_cons, ccStep_comm]
  | trans _ _ ih₁ ih₂ => exact (ih₁ r).trans (ih₂ r)

/-- the value of the loop: the start value or the score of a listed ballot project, and an upper bound of them -/
theorem ccCard_spec (b : Ballot) (r : Rat) (l : List Pid) :
    r ≤ ccCard b r l ∧ (∀ p ∈ l, b.mem p = true → b.score p ≤ ccCard b r l) ∧
    (ccCard b r l = r ∨ ∃ p ∈ l, b.mem p = true ∧ ccCard b r l = b.score p) := by
  induction l generalizing r with
  | nil => exact ⟨le_refl _, by simp, Or.inl rfl⟩
  | cons x xs ih =>
    rw [ccCard_cons]
    obtain ⟨h1, h2, h3⟩ := ih (ccStep b r x)
    have hstep : r ≤ ccStep b r x ∧ (b.mem x = true → b.score x ≤ ccStep b r x) ∧
        (ccStep b r x = r ∨ (b.mem x = true ∧ ccStep b r x = b.score x)) := by
      unfold ccStep
      by_cases hc : b.mem x = true ∧ b.score x > r
      · rw [if_pos hc]; exact ⟨le_of_lt hc.2, fun _ => le_refl _, Or.inr ⟨hc.1, rfl⟩⟩
      · rw [if_neg hc]
        refine ⟨le_refl _, fun hm => ?_, Or.inl rfl⟩
        exact not_lt.1 (fun hlt => hc ⟨hm, hlt⟩)
    refine ⟨le_trans hstep.1 h1, ?_, ?_⟩
    · intro p hp hm
      rcases List.mem_cons.1 hp with rfl | hp
      · exact le_trans (hstep.2.1 hm) h1
      · exact h2 p hp hm
    · rcases h3 with h3 | ⟨p, hp, hm, h3⟩
      · rcases hstep.2.2 with h4 | ⟨hm, h4⟩
        · exact Or.inl (h3.trans h4)
        · exact Or.inr ⟨x, List.mem_cons_self .., hm, h3.trans h4⟩
      · exact Or.inr ⟨p, List.mem_cons_of_mem _ hp, hm, h3⟩

/-- every measure depends on the collection of projects only up to its order -/
theorem sat_perm (μ : Measure) (I : Inst) (P : Profile) (b : Ballot) {l₁ l₂ : List Pid} (h : l₁.Perm l₂) :
    sat μ I P b l₁ = sat μ I P b l₂ := by
  by_cases ha : μ.isAdditive = true
  · rw [sat_additive μ ha, sat_additive μ ha]
    exact sumOver_perm h _
  · cases μ <;> simp [Measure.isAdditive] at ha
    cases b with
    | card c => exact ccCard_perm _ h 0
    | app a =>
      simp only [sat]
      have : (l₁.any (Ballot.app a).mem) = (l₂.any (Ballot.app a).mem) := by
        rw [Bool.eq_iff_iff, List.any_eq_true, List.any_eq_true]
        exact ⟨fun ⟨x, hx, hm⟩ => ⟨x, h.mem_iff.1 hx, hm⟩, fun ⟨x, hx, hm⟩ => ⟨x, h.mem_iff.2 hx, hm⟩⟩
      rw [this]
    | ord a =>
      simp only [sat]
      have : (l₁.any (Ballot.ord a).mem) = (l₂.any (Ballot.ord a).mem) := by
        rw [Bool.eq_iff_iff, List.any_eq_true, List.any_eq_true]
        exact ⟨fun ⟨x, hx, hm⟩ => ⟨x, h.mem_iff.1 hx, hm⟩, fun ⟨x, hx, hm⟩ => ⟨x, h.mem_iff.2 hx, hm⟩⟩
      rw [this]

/-- "depends only on the set of projects": two duplicate-free collections with the same members -/
theorem sat_set_ext (μ : Measure) (I : Inst) (P : Profile) (b : Ballot) {l₁ l₂ : List Pid}
    (h₁ : l₁.Nodup) (h₂ : l₂.Nodup) (h : ∀ p, p ∈ l₁ ↔ p ∈ l₂) : sat μ I P b l₁ = sat μ I P b l₂ :=
  sat_perm μ I P b ((List.perm_ext_iff_of_nodup h₁ h₂).2 h)

/-! ### documented closed forms of the per-project values -/

theorem ballot_mem_iff (b : Ballot) (p : Pid) : b.mem p = true ↔ p ∈ b.projects := by
  unfold Ballot.mem
  exact List.contains_iff_mem

theorem satProject_cardinality (I : Inst) (P : Profile) (b : Ballot) (p : Pid) :
    satProject .cardinality I P b p = if b.mem p then 1 else 0 := rfl

theorem satProject_cost (I : Inst) (P : Profile) (b : Ballot) (p : Pid) :
    satProject .cost I P b p = if b.mem p then I.cost p else 0 := by
  simp only [satProject, memI]
  by_cases h : b.mem p = true
  · rw [if_pos h, if_pos h]; ring
  · rw [if_neg h, if_neg h]; ring

theorem rel_form (N x : Rat) (m : Bool) :
    (if N = 0 then 0 else (if m = true then 1 else 0) * x / N) = if m = true ∧ N ≠ 0 then x / N else 0 := by
  by_cases hn : N = 0
  · simp [hn]
  · by_cases h : m = true
    · rw [if_neg hn, if_pos h, if_pos ⟨h, hn⟩]; ring
    · rw [if_neg hn, if_neg h, if_neg (fun hc => h hc.1)]; simp

theorem rel_card_form (N : Rat) (m : Bool) :
    (if N = 0 then 0 else (if m = true then 1 else 0) / N) = if m = true ∧ N ≠ 0 then 1 / N else 0 := by
  by_cases hn : N = 0
  · simp [hn]
  · by_cases h : m = true
    · rw [if_neg hn, if_pos h, if_pos ⟨h, hn⟩]
    · rw [if_neg hn, if_neg h, if_neg (fun hc => h hc.1)]; simp

theorem effort_form (d : Nat) (x : Rat) (m : Bool) :
    (if d = 0 then 0 else (if m = true then 1 else 0) * (x / ((d : Nat) : Rat))) =
      if m = true ∧ d ≠ 0 then x / ((d : Nat) : Rat) else 0 := by
  by_cases hn : d = 0
  · simp [hn]
  · by_cases h : m = true
    · rw [if_neg hn, if_pos h, if_pos ⟨h, hn⟩]; ring
    · rw [if_neg hn, if_neg h, if_neg (fun hc => h hc.1)]; simp

/-- relative cardinality: 1 / (largest number of ballot projects that fit) for ballot projects -/
theorem satProject_relCardinality (I : Inst) (P : Profile) (b : Ballot) (p : Pid) :
    satProject .relCardinality I P b p =
      if b.mem p = true ∧ maxCardinality I.cost b.projects I.budget ≠ 0
      then 1 / ((maxCardinality I.cost b.projects I.budget : Nat) : Rat) else 0 := by
  refine (rel_card_form ((maxCardinality I.cost b.projects I.budget : Nat) : Rat) (b.mem p)).trans ?_
  simp only [ne_eq, Nat.cast_eq_zero]

/-- relative cost: cost / (largest cost of a feasible set of ballot projects) for ballot projects -/
theorem satProject_relCost (I : Inst) (P : Profile) (b : Ballot) (p : Pid) :
    satProject .relCost I P b p =
      if b.mem p = true ∧ maxCostSpec I.cost b.projects I.budget ≠ 0
      then I.cost p / maxCostSpec I.cost b.projects I.budget else 0 :=
  rel_form (maxCostSpec I.cost b.projects I.budget) (I.cost p) (b.mem p)

/-- the approximate normaliser is min(total cost of the ballot, budget) -/
theorem normaliser_relCostApprox (I : Inst) (b : Ballot) :
    normaliser .relCostApprox I b = min (costOf I.cost b.projects) I.budget := by
  simp only [normaliser]
  by_cases h : costOf I.cost b.projects ≤ I.budget
  · rw [if_pos h, min_eq_left h]
  · rw [if_neg h, min_eq_right (le_of_lt (not_le.1 h))]

theorem satProject_relCostApprox (I : Inst) (P : Profile) (b : Ballot) (p : Pid) :
    satProject .relCostApprox I P b p =
      if b.mem p = true ∧ min (costOf I.cost b.projects) I.budget ≠ 0
      then I.cost p / min (costOf I.cost b.projects) I.budget else 0 := by
  rw [← normaliser_relCostApprox]
  exact rel_form (normaliser .relCostApprox I b) (I.cost p) (b.mem p)

/-- effort: cost shared among the voters (with multiplicity) whose ballot contains the project -/
theorem satProject_effort (I : Inst) (P : Profile) (b : Ballot) (p : Pid) :
    satProject .effort I P b p =
      if b.mem p = true ∧ P.approvalScore p ≠ 0 then I.cost p / ((P.approvalScore p : Nat) : Rat) else 0 :=
  effort_form (P.approvalScore p) (I.cost p) (b.mem p)

theorem satProject_addCardinal (I : Inst) (P : Profile) (b : Ballot) (p : Pid) :
    satProject .addCardinal I P b p = b.score p := rfl

theorem satProject_addCardinalRel (I : Inst) (P : Profile) (b : Ballot) (p : Pid) :
    satProject .addCardinalRel I P b p =
      if maxScoreSpec I.cost b.score I.projects I.budget = 0 then 0
      else b.score p / maxScoreSpec I.cost b.score I.projects I.budget := rfl

/-- Borda: number of ballot projects ranked below `p` -/
theorem satProject_borda (I : Inst) (P : Profile) (l : List Pid) (p : Pid) :
    satProject .borda I P (.ord l) p = if p ∈ l then ((l.length - indexOf l p - 1 : Nat) : Rat) else 0 := by
  simp only [satProject, bordaScore]
  by_cases h : p ∈ l
  · rw [if_pos h, if_pos (List.contains_iff_mem.2 h)]
  · rw [if_neg h, if_neg (fun hc => h (List.contains_iff_mem.1 hc))]

/-- Chamberlin–Courant on approval ballots: 1 iff some listed project is approved -/
theorem sat_cc_app (I : Inst) (P : Profile) (a l : List Pid) :
    sat .cc I P (.app a) l = if ∃ p ∈ l, p ∈ a then 1 else 0 := by
  simp only [sat]
  by_cases h : ∃ p ∈ l, p ∈ a
  · rw [if_pos h, if_pos]
    obtain ⟨p, hp, hpa⟩ := h
    exact List.any_eq_true.2 ⟨p, hp, (ballot_mem_iff _ _).2 hpa⟩
  · rw [if_neg h, if_neg]
    intro hc
    obtain ⟨p, hp, hm⟩ := List.any_eq_true.1 hc
    exact h ⟨p, hp, (ballot_mem_iff (.app a) p).1 hm⟩

/-- Chamberlin–Courant on cardinal ballots: the largest score of a listed ballot project, at least 0 -/
theorem sat_cc_card (I : Inst) (P : Profile) (c : List (Pid × Rat)) (l : List Pid) :
    0 ≤ sat .cc I P (.card c) l ∧
    (∀ p ∈ l, (Ballot.card c).mem p = true → (Ballot.card c).score p ≤ sat .cc I P (.card c) l) ∧
    (sat .cc I P (.card c) l = 0 ∨
      ∃ p ∈ l, (Ballot.card c).mem p = true ∧ sat .cc I P (.card c) l = (Ballot.card c).score p) :=
  ccCard_spec (.card c) 0 l

/-! ### the normalisers are the true optima over feasible sub-lists of the ballot -/

theorem normaliser_relCardinality_optimal (I : Inst) (b : Ballot) (hnn : ∀ p ∈ b.projects, 0 ≤ I.cost p)
    (hb : 0 ≤ I.budget) :
    (∃ s : List Pid, s.Sublist b.projects ∧ costOf I.cost s ≤ I.budget ∧
        normaliser .relCardinality I b = (s.length : Rat)) ∧
    (∀ s : List Pid, s.Sublist b.projects → costOf I.cost s ≤ I.budget →
        (s.length : Rat) ≤ normaliser .relCardinality I b) := by
  simp only [normaliser]
  constructor
  · obtain ⟨s, h1, h2, h3⟩ := maxCardinality_attained I.cost b.projects I.budget hb
    exact ⟨s, h1, h2, by rw [h3]⟩
  · intro s h1 h2
    exact Nat.cast_le.2 (maxCardinality_upper I.cost b.projects I.budget hnn s h1 h2)

theorem normaliser_relCost_optimal (I : Inst) (b : Ballot) (hb : 0 ≤ I.budget) :
    (∃ s : List Pid, s.Sublist b.projects ∧ costOf I.cost s ≤ I.budget ∧ normaliser .relCost I b = costOf I.cost s) ∧
    (∀ s : List Pid, s.Sublist b.projects → costOf I.cost s ≤ I.budget → costOf I.cost s ≤ normaliser .relCost I b) :=
  ⟨maxCostSpec_attained I.cost b.projects I.budget hb, maxCostSpec_upper I.cost b.projects I.budget⟩

theorem normaliser_addCardinalRel_optimal (I : Inst) (b : Ballot) (hb : 0 ≤ I.budget) :
    (∃ s : List Pid, s.Sublist I.projects ∧ costOf I.cost s ≤ I.budget ∧
        normaliser .addCardinalRel I b = sumOver s b.score) ∧
    (∀ s : List Pid, s.Sublist I.projects → costOf I.cost s ≤ I.budget →
        sumOver s b.score ≤ normaliser .addCardinalRel I b) :=
  ⟨maxScoreSpec_attained I.cost b.score I.projects I.budget hb, maxScoreSpec_upper I.cost b.score I.projects I.budget⟩

/-! ### concrete inputs -/

/-- projects 0, 1, 2 cost 1/3, 1/3, 1; budget 2/3 -/
def exI : Inst := { projects := [0, 1, 2], cost := fun p => if p = 2 then 1 else 1 / 3, budget := 2 / 3 }
def exApp : Ballot := .app [0, 1, 2]
def exCard : Ballot := .card [(0, 3), (2, 1 / 2), (1, 0)]
def exP : Profile := [(exApp, 2), (.app [2], 1)]

example : Measure.isAdditive .relCost = true := rfl
example : [2, 0, 1].Perm [0, 1, 2] := by decide
example : (0 : Rat) ≤ exI.budget := by norm_num [exI]
example : ∀ p ∈ exApp.projects, 0 ≤ exI.cost p := by
  intro p _
  simp only [exI]
  split_ifs <;> norm_num
example := sat_perm .relCost exI exP exApp (show [2, 0, 1].Perm [0, 1, 2] by decide)
example := normaliser_relCost_optimal exI exApp (by norm_num [exI])
-- the relative-cost normaliser is exactly 2/3 (D9), so projects 0 and 1 together give satisfaction 1
example : normaliser .relCost exI exApp = 2 / 3 := by decide +kernel
example : sat .relCost exI exP exApp [0, 1] = 1 := by decide +kernel
example : sat .relCost exI exP exApp [1, 0] = sat .relCost exI exP exApp [0, 1] := by decide +kernel
example : satProject .effort exI exP exApp 2 = 1 / 3 := by decide +kernel
example : normaliser .relCardinality exI exApp = 2 := by decide +kernel
example : sat .cc exI exP exCard [1, 2, 0] = 3 ∧ sat .cc exI exP exCard [1] = 0 ∧ sat .cc exI exP exCard [] = 0 := by
  decide +kernel
example : satProject .borda exI exP (.ord [2, 0, 1]) 2 = 2 ∧ sat .borda exI exP (.ord [2, 0]) [0, 1, 2] = 1 := by
  decide +kernel

end Pabu.C10
