/-
  C03 (analytics of the additive fast path) — `greedy_utilitarian_welfare(..., analytics=True)` on the resolute fast path
  returns its selection with a `GreedyWelfareAllocationDetails` object.  Model: `Greedy.passTrace`, `Greedy.additiveDetails`.

  * `passTrace_keys`        the pass meets every project once, in the order it was given;
  * `passTrace_valid`       the record is a valid record of the documented pass (`ValidTrace`): a project is taken iff its cost is
                            at most what is left, and what is left afterwards is what was left before minus its cost;
  * `passTrace_selected`    the projects recorded as taken are exactly the projects the rule returns (`Greedy.pass`), in order;
  * `passTrace_nonneg`      a recorded remaining budget is never negative (given a non-negative start);
  * `passTrace_conservation` budget at the start = cost of the projects taken + what is left at the end;
  * `lookup_isSome_iff`     for distinct projects: a project has a remaining budget recorded iff the rule selected it;
  * `additiveDetails_spec`  the details list has one entry per project outside the initial allocation, in the order of the
                            tie-breaking rule, each with the density as score, and `remaining_budget` set exactly for the selected
                            projects — the same projects the call returns after the initial allocation (`additive_eq`).
-/
import PabuModel.Greedy
import PabuProofs.Lemmas.Greedy
import Mathlib.Tactic.Linarith
namespace Pabu
namespace Greedy
open GreedyAux

/-! ### the recorded pass -/

theorem passTrace_keys (cost : Pid → Rat) : ∀ (rem : Rat) (ps : List Pid), (passTrace cost rem ps).map Prod.fst = ps
  | _, [] => rfl
  | rem, p :: ps => by
    rw [passTrace]
    by_cases h : cost p ≤ rem
    · rw [if_pos h, List.map_cons, passTrace_keys cost (rem - cost p) ps]
    · rw [if_neg h, List.map_cons, passTrace_keys cost rem ps]

/-- a valid record of the pass started with `rem`: taken iff it fits, and the money left is updated by the cost -/
def ValidTrace (cost : Pid → Rat) : Rat → List (Pid × Option Rat) → Prop
  | _, [] => True
  | rem, (p, some r) :: t => cost p ≤ rem ∧ r = rem - cost p ∧ ValidTrace cost r t
  | rem, (p, none) :: t => rem < cost p ∧ ValidTrace cost rem t

theorem passTrace_valid (cost : Pid → Rat) : ∀ (rem : Rat) (ps : List Pid), ValidTrace cost rem (passTrace cost rem ps)
  | _, [] => trivial
  | rem, p :: ps => by
    rw [passTrace]
    by_cases h : cost p ≤ rem
    · rw [if_pos h]
      exact ⟨h, rfl, passTrace_valid cost (rem - cost p) ps⟩
    · rw [if_neg h]
      exact ⟨lt_of_not_ge h, passTrace_valid cost rem ps⟩

/-- the projects of the entries that were taken -/
def taken (t : List (Pid × Option Rat)) : List Pid := t.filterMap (fun e => e.2.map (fun _ => e.1))

theorem passTrace_selected (cost : Pid → Rat) : ∀ (rem : Rat) (ps : List Pid), taken (passTrace cost rem ps) = pass cost rem ps
  | _, [] => rfl
  | rem, p :: ps => by
    rw [passTrace, pass]
    by_cases h : cost p ≤ rem
    · rw [if_pos h, if_pos h]
      unfold taken
      rw [List.filterMap_cons]
      show p :: taken (passTrace cost (rem - cost p) ps) = _
      rw [passTrace_selected cost (rem - cost p) ps]
    · rw [if_neg h, if_neg h]
      unfold taken
      rw [List.filterMap_cons]
      show taken (passTrace cost rem ps) = _
      exact passTrace_selected cost rem ps

theorem passTrace_nonneg (cost : Pid → Rat) : ∀ (rem : Rat) (ps : List Pid), 0 ≤ rem →
    ∀ e ∈ passTrace cost rem ps, ∀ r, e.2 = some r → 0 ≤ r
  | _, [], _ => fun e he => by cases he
  | rem, p :: ps, hrem => by
    intro e he r hr
    rw [passTrace] at he
    by_cases h : cost p ≤ rem
    · rw [if_pos h] at he
      rcases List.mem_cons.1 he with he | he
      · subst he
        injection hr with hr
        rw [← hr]; linarith
      · exact passTrace_nonneg cost (rem - cost p) ps (by linarith) e he r hr
    · rw [if_neg h] at he
      rcases List.mem_cons.1 he with he | he
      · subst he; cases hr
      · exact passTrace_nonneg cost rem ps hrem e he r hr

/-- what is left after the whole pass -/
def finalRemaining (cost : Pid → Rat) : Rat → List Pid → Rat
  | rem, [] => rem
  | rem, p :: ps => if cost p ≤ rem then finalRemaining cost (rem - cost p) ps else finalRemaining cost rem ps

theorem passTrace_conservation (cost : Pid → Rat) : ∀ (rem : Rat) (ps : List Pid),
    rem = costOf cost (pass cost rem ps) + finalRemaining cost rem ps
  | _, [] => by simp [pass, finalRemaining, costOf, sumOver]
  | rem, p :: ps => by
    rw [pass, finalRemaining]
    by_cases h : cost p ≤ rem
    · rw [if_pos h, if_pos h]
      have ih := passTrace_conservation cost (rem - cost p) ps
      unfold costOf at ih ⊢
      rw [sumOver]
      linarith
    · rw [if_neg h, if_neg h]
      exact passTrace_conservation cost rem ps

theorem lookup_cons_ne {e : Pid × Option Rat} {t : List (Pid × Option Rat)} {p : Pid} (h : e.1 ≠ p) :
    lookupTrace (e :: t) p = lookupTrace t p := by
  unfold lookupTrace
  rw [List.find?_cons]
  have : (e.1 == p) = false := by
    rw [beq_eq_false_iff_ne]; exact h
  rw [this]

theorem lookup_cons_eq {e : Pid × Option Rat} {t : List (Pid × Option Rat)} : lookupTrace (e :: t) e.1 = e.2 := by
  unfold lookupTrace
  rw [List.find?_cons]
  have : (e.1 == e.1) = true := beq_self_eq_true _
  rw [this]

/-- for distinct projects: a remaining budget is recorded for `p` iff the pass took `p` -/
theorem lookup_isSome_iff (cost : Pid → Rat) : ∀ (rem : Rat) (ps : List Pid), ps.Nodup → ∀ p,
    (lookupTrace (passTrace cost rem ps) p).isSome = true ↔ p ∈ pass cost rem ps
  | _, [], _, p => by
    constructor
    · intro h; cases h
    · intro h; cases h
  | rem, q :: ps, hnd, p => by
    obtain ⟨hq, hnd'⟩ := List.nodup_cons.1 hnd
    rw [passTrace, pass]
    by_cases h : cost q ≤ rem
    · rw [if_pos h, if_pos h]
      by_cases hp : q = p
      · subst hp
        rw [show lookupTrace ((q, some (rem - cost q)) :: passTrace cost (rem - cost q) ps) q = some (rem - cost q) from lookup_cons_eq]
        exact ⟨fun _ => List.mem_cons_self, fun _ => rfl⟩
      · rw [lookup_cons_ne (e := (q, some (rem - cost q))) hp, lookup_isSome_iff cost (rem - cost q) ps hnd' p, List.mem_cons]
        exact ⟨Or.inr, fun h' => h'.resolve_left (fun e => hp e.symm)⟩
    · rw [if_neg h, if_neg h]
      by_cases hp : q = p
      · subst hp
        rw [show lookupTrace ((q, none) :: passTrace cost rem ps) q = none from lookup_cons_eq]
        constructor
        · intro h'; cases h'
        · intro h'
          exfalso
          have : q ∈ ps := pass_subset cost ps rem q h'
          exact hq this
      · rw [lookup_cons_ne (e := (q, none)) hp]
        exact lookup_isSome_iff cost rem ps hnd' p

/-! ### the details object -/

/-- the call and its details, side by side: same tie-broken list, same pass -/
theorem additive_eq (score : Pid → Rat) (I : Inst) (init : List Pid) (order : List Pid → Except Err (List Pid))
    (ps : List Pid) (h : order ((sortIds I.projects).filter (fun p => !init.contains p)) = .ok ps) :
    additive score I init order = .ok (init ++ pass I.cost (I.budget - costOf I.cost init)
      (sortLe (fun a b => ERat.le (density score I.cost b) (density score I.cost a)) ps)) := by
  unfold additive; rw [h]

/-- `details.projects`: one entry per project the tie-breaking rule returned, in that order, with the density as score, and a
    remaining budget recorded exactly for the projects the call selects after the initial allocation -/
theorem additiveDetails_spec (score : Pid → Rat) (I : Inst) (init : List Pid) (order : List Pid → Except Err (List Pid))
    (ps : List Pid) (h : order ((sortIds I.projects).filter (fun p => !init.contains p)) = .ok ps) (hnd : ps.Nodup) :
    ∃ ds, additiveDetails score I init order = .ok ds ∧
      ds.map ProjectDetails.project = ps ∧
      (∀ d ∈ ds, d.score = density score I.cost d.project) ∧
      (∀ d ∈ ds, d.remaining.isSome = true ↔
        d.project ∈ pass I.cost (I.budget - costOf I.cost init)
          (sortLe (fun a b => ERat.le (density score I.cost b) (density score I.cost a)) ps)) ∧
      (∀ d ∈ ds, ∀ r, d.remaining = some r → 0 ≤ I.budget - costOf I.cost init → 0 ≤ r) := by
  unfold additiveDetails
  rw [h]
  refine ⟨_, rfl, ?_, ?_, ?_, ?_⟩
  · rw [List.map_map]
    show List.map (fun p => p) ps = ps
    exact List.map_id'' (fun _ => rfl) ps
  · intro d hd
    obtain ⟨p, _, rfl⟩ := List.mem_map.1 hd
    rfl
  · intro d hd
    obtain ⟨p, _, rfl⟩ := List.mem_map.1 hd
    exact lookup_isSome_iff I.cost _ _ ((sortLe_perm _ ps).nodup_iff.2 hnd) p
  · intro d hd r hr h0
    obtain ⟨p, _, rfl⟩ := List.mem_map.1 hd
    simp only at hr
    unfold lookupTrace at hr
    cases hf : (passTrace I.cost (I.budget - costOf I.cost init)
        (sortLe (fun a b => ERat.le (density score I.cost b) (density score I.cost a)) ps)).find? (fun e => e.1 == p) with
    | none => rw [hf] at hr; cases hr
    | some e =>
      rw [hf] at hr
      exact passTrace_nonneg I.cost _ _ h0 e (List.mem_of_find?_eq_some hf) r hr

/-! ### non-vacuity -/

/-- budget 5, costs 2, 3, 4 in tie order: the first two are taken (3 and 0 left), the third is discarded -/
example : passTrace (fun p => (p : Rat) + 2) 5 [0, 1, 2] = [(0, some 3), (1, some 0), (2, none)] := by decide +kernel

end Greedy
end Pabu
