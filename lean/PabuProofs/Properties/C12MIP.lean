/-
  C12 (search) — the mixed-integer program `priceable()` hands to the solver ENCODES the definition of a (stable) price
  system, up to the limits of its big-M constant `INF = 10·budget`, which are stated exactly:

   * `encoding_sound`        every point of the program (x ∈ {0,1}) is an exact price system for W = {c | x_c = 1}:
                             `Price.Exact`, hence accepted by the validator; W is feasible, exhaustive when asked, equal to
                             the given allocation when one is given;
   * `encoding_complete_partial`  an exact price system whose numbers fit under the big-M constants is a point of the program
                             with exactly that x, b, p;
   * `encoding_complete`     when no selected project has more than 10 supporters (in particular: at most 10 voters) every
                             priceable allocation is found: the voter budget can be capped at the budget limit;
   * `encoding_complete_FullStatement_false`  without such a bound the statement is FALSE for the code's `INF`
                             (13 voters, costs 1 and 10, budget 11): `priceable()` answers "infeasible" for a priceable
                             allocation; `expensive_project_counterexample`: so it does whenever some unselected project costs
                             more than 10 × the budget limit;
   * `searched_iff_given`, `nonEmpty_clause_*`  what the "prevent empty allocation" constraint adds.

  Only the solver itself (CBC: does it decide feasibility of THIS program correctly) stays trusted; that the program
  in this file is the one the library builds is checked constraint by constraint by harness/props/C12_mip.py.
-/
import PabuProofs.Lemmas.PriceMIP
import PabuProofs.Properties.C12
namespace Pabu.PriceMIP
open Pabu Pabu.Price

/-- what the encoding assumes about the election and the allocation (C12's quantifier: integer costs and budget) -/
structure WellFormed (X : Input) (exhaustive : Bool) : Prop where
  /-- `W` is listed within the instance, in the instance's order -/
  within : WithinInstance X
  costNonneg : ∀ c ∈ X.C, 0 ≤ X.cost c
  /-- the program writes `total + cost(c) > budget` as `≥ budget + 1` -/
  intBudget : exhaustive = true → ∃ k : Int, X.budget = k
  intCost : exhaustive = true → ∀ c ∈ X.C, ∃ k : Int, X.cost c = k
  budgetPos : exhaustive = true → 1 ≤ X.budget
  /-- the second inequality of C3 needs `cost(c) ≤ INF` for unselected projects -/
  affordable : ∀ c ∈ X.NW, X.cost c ≤ 10 * X.budget

/-- the call asks about this price system: the allocation is searched or given as `X.W`, the voter budget is free or fixed
    to `X.b`, the payments are free or fixed to those of `X` -/
structure Asks (cfg : Cfg) (X : Input) : Prop where
  given : ∀ W', cfg.given = some W' → W' = X.W
  fixB : ∀ vb, cfg.fixB = some vb → vb = X.b
  fixP : ∀ pf, cfg.fixP = some pf → ∀ ai ∈ voters (ofInput X), ∀ c ∈ X.C, pf ai.2 c = (pointOf X).p ai.2 c

/-- SOUNDNESS.  A point that satisfies the variable domains and all constraints of the program is an exact (stable) price
    system for `W = {c ∈ C | x_c = 1}` with voter budget `b` and payments `p`; the validator accepts it; `W` is feasible,
    exhaustive when asked, the given allocation when one was given; a fixed voter budget is respected. -/
theorem encoding_sound (E : Elec) (cfg : Cfg) (pt : Point) (h : sat E cfg pt = true) :
    Exact (toInput E pt) cfg.stable cfg.exhaustive ∧
    validate (toInput E pt) cfg.stable cfg.exhaustive = true ∧
    (toInput E pt).total ≤ E.budget ∧
    (cfg.exhaustive = true → ∀ c ∈ (toInput E pt).NW, ¬ ((toInput E pt).total + E.cost c ≤ E.budget)) ∧
    (∀ c ∈ E.C, pt.x c = 0 ∨ pt.x c = 1) ∧
    (∀ W, cfg.given = some W → (toInput E pt).W = E.C.filter (fun c => W.contains c)) ∧
    (∀ vb, cfg.fixB = some vb → (toInput E pt).b = vb) := by
  have F := (sat_iff E cfg pt).mp h
  have Ex := feasible_exact E cfg pt F
  refine ⟨Ex, validate_complete _ _ _ Ex, Ex.feasible, Ex.exhaust, F.bnd_x, ?_, F.fixb⟩
  intro W hW
  show E.C.filter (fun c => decide (pt.x c = 1)) = E.C.filter (fun c => W.contains c)
  apply List.filter_congr
  intro c hc
  rw [F.fixx W hW c hc]
  by_cases hw : W.contains c = true
  · rw [if_pos hw, hw]; simp
  · rw [if_neg hw]
    have : W.contains c = false := by simpa using hw
    rw [this]; simp

/-- COMPLETENESS, bounds explicit.  An exact price system for a well-formed election whose supporters' leftovers (plain) /
    stability amounts (stable) of every SELECTED project sum to at most `cost + 10·budget` is a point of the program, with
    `x` the indicator of `W`, `b` the voter budget and `p` the payments. -/
theorem encoding_complete_partial (X : Input) (cfg : Cfg) (Ex : Exact X cfg.stable cfg.exhaustive)
    (wf : WellFormed X cfg.exhaustive) (asks : Asks cfg X) (hb0 : 0 ≤ X.b)
    (hne : cfg.exhaustive = false → cfg.given = none → X.budget ≤ (X.N.length : Rat) * X.b)
    (hbd : Bounded X cfg.stable) :
    sat (ofInput X) cfg (pointOf X) = true ∧
    (∀ c, (pointOf X).x c = if X.W.contains c then 1 else 0) ∧ (pointOf X).b = X.b := by
  refine ⟨(sat_iff _ _ _).mpr ?_, fun _ => rfl, rfl⟩
  exact exact_feasible X cfg Ex wf.within wf.costNonneg hb0 (fun he => ⟨wf.intBudget he, wf.intCost he⟩) wf.budgetPos
    wf.affordable hne hbd asks.given asks.fixB asks.fixP

/-- COMPLETENESS for elections in which no selected project has more than 10 supporters: whenever `W` has an exact price
    system (with `b·n ≥ budget` in the searched non-exhaustive mode, where the program demands it), the program has a point
    with exactly that `x` and those payments — the voter budget capped at the budget limit. -/
theorem encoding_complete (X : Input) (cfg : Cfg) (Ex : Exact X cfg.stable cfg.exhaustive)
    (wf : WellFormed X cfg.exhaustive) (asks : Asks cfg X) (hfb : cfg.fixB = none) (hb0 : 0 ≤ X.b)
    (hne : cfg.exhaustive = false → cfg.given = none → X.budget ≤ (X.N.length : Rat) * X.b)
    (hsmall : ∀ c ∈ X.W, ((X.N.filter (fun v => v.app c)).length : Rat) ≤ 10) :
    ∃ pt, sat (ofInput X) cfg pt = true ∧ (∀ c, pt.x c = if X.W.contains c then 1 else 0) ∧
      (∀ i, pt.p i = (pointOf X).p i) ∧ pt.b ≤ X.budget := by
  have hWC := mem_W_C X wf.within
  have htot0 : 0 ≤ X.total := so_nonneg _ _ (fun c hc => wf.costNonneg c (hWC c hc))
  have hbud0 : 0 ≤ X.budget := le_trans htot0 Ex.feasible
  have Ex' := capB_exact X cfg.stable cfg.exhaustive Ex wf.within
  have wf' : WellFormed (capB X) cfg.exhaustive :=
    { within := wf.within, costNonneg := wf.costNonneg, intBudget := wf.intBudget, intCost := wf.intCost,
      budgetPos := wf.budgetPos, affordable := wf.affordable }
  have asks' : Asks cfg (capB X) :=
    { given := asks.given, fixB := fun vb h => (by rw [hfb] at h; cases h), fixP := asks.fixP }
  have h := encoding_complete_partial (capB X) cfg Ex' wf' asks' (capB_b_nonneg X hb0 hbud0)
    (fun he hg => capB_nonEmpty X hbud0 (hne he hg))
    (capB_bounded X cfg.stable cfg.exhaustive Ex wf.within wf.costNonneg hb0 hsmall)
  exact ⟨pointOf (capB X), h.1, h.2.1, fun _ => rfl, capB_b_le_budget X⟩

/-- … in particular for every election with at most 10 voters (C12's quantifier has at most 4) -/
theorem encoding_complete_small_profile (X : Input) (cfg : Cfg) (Ex : Exact X cfg.stable cfg.exhaustive)
    (wf : WellFormed X cfg.exhaustive) (asks : Asks cfg X) (hfb : cfg.fixB = none) (hb0 : 0 ≤ X.b)
    (hne : cfg.exhaustive = false → cfg.given = none → X.budget ≤ (X.N.length : Rat) * X.b)
    (hn : X.N.length ≤ 10) :
    ∃ pt, sat (ofInput X) cfg pt = true ∧ (∀ c, pt.x c = if X.W.contains c then 1 else 0) ∧
      (∀ i, pt.p i = (pointOf X).p i) ∧ pt.b ≤ X.budget := by
  apply encoding_complete X cfg Ex wf asks hfb hb0 hne
  intro c _
  have h1 : (X.N.filter (fun v => v.app c)).length ≤ X.N.length := List.length_filter_le _ _
  have h2 : (X.N.filter (fun v => v.app c)).length ≤ 10 := le_trans h1 hn
  exact_mod_cast h2

/-- search = definition, for small profiles: with an allocation given (or searched with the exhaustiveness requirement) the
    program is feasible for `x = indicator of W` exactly when `W` has a (stable) price system -/
theorem encoding_iff_small (X : Input) (cfg : Cfg) (wf : WellFormed X cfg.exhaustive) (hg : cfg.given = some X.W)
    (hfb : cfg.fixB = none) (hfp : cfg.fixP = none) (hN : X.N ≠ []) (hn : X.N.length ≤ 10) :
    (∃ pt, sat (ofInput X) cfg pt = true) ↔
    (∃ (b : Rat) (pay : Nat → Pid → Rat),
      Exact { X with b := b, N := (voters (ofInput X)).map (fun ai => { app := ai.1, pay := pay ai.2 }) } cfg.stable cfg.exhaustive) := by
  constructor
  · rintro ⟨pt, h⟩
    have hs := encoding_sound (ofInput X) cfg pt h
    refine ⟨pt.b, pt.p, ?_⟩
    have hW : (toInput (ofInput X) pt).W = X.W := by
      rw [hs.2.2.2.2.2.1 X.W hg]
      exact wf.within.symm
    have : toInput (ofInput X) pt
        = { X with b := pt.b, N := (voters (ofInput X)).map (fun ai => { app := ai.1, pay := pt.p ai.2 }) } := by
      show ({ C := X.C, cost := X.cost, budget := X.budget, W := (toInput (ofInput X) pt).W, N := _, b := pt.b } : Input) = _
      rw [hW]
    rw [← this]
    exact hs.1
  · rintro ⟨b, pay, Ex⟩
    let Y : Input := { X with b := b, N := (voters (ofInput X)).map (fun ai => { app := ai.1, pay := pay ai.2 }) }
    have happs : (ofInput Y) = ofInput X := by
      show ({ C := X.C, cost := X.cost, budget := X.budget, apps := Y.N.map (fun v => v.app) } : Elec) = _
      have : Y.N.map (fun v => v.app) = X.N.map (fun v => v.app) := by
        show ((voters (ofInput X)).map (fun ai => ({ app := ai.1, pay := pay ai.2 } : PVoter))).map (fun v => v.app) = _
        rw [List.map_map]
        show (voters (ofInput X)).map (fun ai => ai.1) = _
        unfold voters ofInput
        simp
      rw [this]; rfl
    have hlen : Y.N.length = X.N.length := by
      show ((voters (ofInput X)).map _).length = _
      rw [List.length_map]; unfold voters ofInput; simp
    have hYN : Y.N ≠ [] := by
      intro h0
      have : Y.N.length = 0 := by rw [h0]; rfl
      rw [hlen] at this
      exact hN (List.length_eq_zero_iff.mp this)
    have wfY : WellFormed Y cfg.exhaustive :=
      { within := wf.within, costNonneg := wf.costNonneg, intBudget := wf.intBudget, intCost := wf.intCost,
        budgetPos := wf.budgetPos, affordable := wf.affordable }
    have asksY : Asks cfg Y :=
      { given := fun W' h => (by rw [hg] at h; cases h; rfl), fixB := fun vb h => (by rw [hfb] at h; cases h),
        fixP := fun pf h => (by rw [hfp] at h; cases h) }
    obtain ⟨pt, hpt, _⟩ := encoding_complete_small_profile Y cfg Ex wfY asksY hfb
      (exact_b_nonneg Y _ _ Ex hYN) (fun _ h => by rw [hg] at h; cases h) (by rw [hlen]; exact hn)
    rw [happs] at hpt
    exact ⟨pt, hpt⟩

/-! ### the unbounded statement is false for `INF = 10·budget` -/

/-- completeness without a bound on the number of supporters (everything else as in `encoding_complete`) -/
def encoding_complete_FullStatement : Prop :=
  ∀ (X : Input) (cfg : Cfg), Exact X cfg.stable cfg.exhaustive → WellFormed X cfg.exhaustive → Asks cfg X →
    cfg.fixB = none → 0 ≤ X.b → (cfg.exhaustive = false → cfg.given = none → X.budget ≤ (X.N.length : Rat) * X.b) →
    ∃ pt, sat (ofInput X) cfg pt = true ∧ ∀ c, pt.x c = if X.W.contains c then 1 else 0

/-- one voter is the only supporter of project 1 … -/
def vD : PVoter := { app := fun c => c == 1, pay := fun c => if c = 1 then 10 else 0 }
/-- … one supporter of project 0 pays for it … -/
def vA1 : PVoter := { app := fun c => c == 0, pay := fun c => if c = 0 then 1 else 0 }
/-- … and eleven more supporters of project 0 pay nothing -/
def vA0 : PVoter := { app := fun c => c == 0, pay := fun _ => 0 }

/-- 13 voters, projects 0 (cost 1) and 1 (cost 10), budget 11, both selected, voter budget 10 -/
def X13 : Input :=
  { C := [0, 1], cost := fun c => if c = 0 then 1 else 10, budget := 11, W := [0, 1],
    N := [vD, vA1, vA0, vA0, vA0, vA0, vA0, vA0, vA0, vA0, vA0, vA0, vA0], b := 10 }

/-- `[0, 1]` is a price system by definition, plain and stable, exhaustive or not … -/
theorem X13_exact (s e : Bool) : Exact X13 s e := by
  rw [← exact_iff]
  cases s <;> cases e <;> decide +kernel

theorem X13_wellFormed (e : Bool) : WellFormed X13 e :=
  { within := (by unfold WithinInstance; decide),
    costNonneg := by
      intro c _
      show (0 : Rat) ≤ if c = 0 then 1 else 10
      split <;> norm_num,
    intBudget := fun _ => ⟨11, by norm_num [X13]⟩,
    intCost := by
      intro _ c _
      show ∃ k : Int, (if c = 0 then (1 : Rat) else 10) = k
      by_cases h : c = 0
      · exact ⟨1, by rw [if_pos h]; norm_num⟩
      · exact ⟨10, by rw [if_neg h]; norm_num⟩,
    budgetPos := fun _ => by norm_num [X13],
    affordable := by
      intro c hc
      have : X13.NW = [] := by decide
      rw [this] at hc
      cases hc }

/-- … but the program `priceable()` builds for it has NO point (the supporters of project 0 keep 12·10 − 1 = 119 > 1 + 110):
    the library answers "infeasible" for a priceable allocation (replayed on the real `priceable()`: INFEASIBLE in all
    four modes, and in the searched exhaustive mode). -/
theorem X13_infeasible (s e : Bool) (given : Option (List Pid)) (pt : Point)
    (h : sat (ofInput X13) { stable := s, exhaustive := e, given := given } pt = true)
    (hx0 : pt.x 0 = 1) (hx1 : pt.x 1 = 1) : False := by
  have F := (sat_iff _ _ _).mp h
  have hb := bigM_selected_bound (ofInput X13) _ pt F (by decide) 0 1 (by decide) (by decide) hx0 hx1 0 (by decide) (by decide)
  have hlen : (supp (ofInput X13) 0).length = 12 := by decide
  rw [hlen] at hb
  have h1 : (ofInput X13).cost 1 = 10 := by norm_num [ofInput, X13]
  have h2 : (ofInput X13).cost 0 = 1 := by norm_num [ofInput, X13]
  have h3 : INF (ofInput X13) = 110 := by norm_num [INF, ofInput, X13]
  rw [h1, h2, h3] at hb
  norm_num at hb

/-- the unbounded completeness statement is false -/
theorem encoding_complete_FullStatement_false : ¬ encoding_complete_FullStatement := by
  intro H
  obtain ⟨pt, hs, hx⟩ := H X13 { stable := false, exhaustive := true, given := some [0, 1] } (X13_exact false true)
    (X13_wellFormed true)
    { given := fun W' h => (by cases h; rfl), fixB := fun vb h => (by cases h), fixP := fun pf h => (by cases h) }
    rfl (by norm_num [X13]) (fun h => by cases h)
  have hx0 : pt.x 0 = 1 := by rw [hx 0]; rfl
  have hx1 : pt.x 1 = 1 := by rw [hx 1]; rfl
  exact X13_infeasible false true _ pt hs hx0 hx1

/-- one voter, project 0 (cost 1, approved, selected) and project 1 (cost 11 > 10 × budget, not selected), budget 1 -/
def XBig : Input :=
  { C := [0, 1], cost := fun c => if c = 0 then 1 else 11, budget := 1, W := [0],
    N := [{ app := fun c => c == 0, pay := fun c => if c = 0 then 1 else 0 }], b := 1 }

theorem XBig_exact (s e : Bool) : Exact XBig s e := by
  rw [← exact_iff]
  cases s <;> cases e <;> decide +kernel

/-- a project that costs more than 10 × the budget limit makes the program infeasible whenever it is not selected — although
    it can never be selected and does not stand in the way of a price system (replayed on the real `priceable()`: INFEASIBLE) -/
theorem expensive_project_counterexample (cfg : Cfg) (pt : Point) (h : sat (ofInput XBig) cfg pt = true) (hx : pt.x 1 = 0) :
    False := by
  have F := (sat_iff _ _ _).mp h
  have h1 := feasible_unselected_cost (ofInput XBig) cfg pt F 1 (by decide) hx
  have h2 : (ofInput XBig).cost 1 = 11 := by norm_num [ofInput, XBig]
  have h3 : INF (ofInput XBig) = 10 := by norm_num [INF, ofInput, XBig]
  rw [h2, h3] at h1
  norm_num at h1

/-- the integrality hypothesis of `WellFormed` is needed: one voter, projects 0 and 1 (cost 1 each), budget 3/2 — `{0}` is
    exhaustive (1 + 1 > 3/2) and priceable, but the program writes exhaustiveness as `total + cost ≥ budget + 1` -/
def XFrac : Input :=
  { C := [0, 1], cost := fun _ => 1, budget := 3 / 2, W := [0],
    N := [{ app := fun c => c == 0, pay := fun c => if c = 0 then 1 else 0 }], b := 1 }

theorem XFrac_exact (s : Bool) : Exact XFrac s true := by
  rw [← exact_iff]
  cases s <;> decide +kernel

theorem fractional_budget_counterexample (s : Bool) (given : Option (List Pid)) (pt : Point)
    (h : sat (ofInput XFrac) { stable := s, exhaustive := true, given := given } pt = true) (hx : pt.x 1 = 0) : False := by
  have F := (sat_iff _ _ _).mp h
  have hC : (ofInput XFrac).C = [0, 1] := rfl
  have h0 := F.c0b rfl 1 (by rw [hC]; simp)
  have ht : tot (ofInput XFrac) pt = 1 * pt.x 0 + (1 * pt.x 1 + 0) := rfl
  have hc : (ofInput XFrac).cost 1 = 1 := rfl
  have hb : (ofInput XFrac).budget = 3 / 2 := rfl
  rw [ht, hc, hb, hx] at h0
  rcases F.bnd_x 0 (by rw [hC]; simp) with h | h <;> rw [h] at h0 <;> norm_num at h0

/-! ### the "prevent empty allocation" constraint `b · n ≥ budget` (searched, not exhaustive) -/

/-- the searched program is the program for the given allocation `W = {c | x_c = 1}` plus — when exhaustiveness is not
    required — the requirement `b·n ≥ budget`: relative to the definition of a price system the search adds exactly this
    lower bound on the voter budget, and nothing else -/
theorem searched_iff_given (E : Elec) (cfg : Cfg) (pt : Point) (hg : cfg.given = none) :
    sat E cfg pt = true ↔
      sat E { cfg with given := some (toInput E pt).W } pt = true ∧ (cfg.exhaustive = false → E.budget ≤ (nv E : Rat) * pt.b) := by
  rw [sat_iff, sat_iff]
  constructor
  · intro F
    refine ⟨{ bnd_b := F.bnd_b, bnd_p := F.bnd_p, bnd_x := F.bnd_x, bnd_r := F.bnd_r, bnd_m := F.bnd_m, fixb := F.fixb,
              fixp := F.fixp, fixx := ?_, c0a := F.c0a, c0b := F.c0b, nonEmpty := fun _ h => (by cases h), c1 := F.c1,
              c2 := F.c2, c3a := F.c3a, c3b := F.c3b, c4 := F.c4, rdef := F.rdef, c5 := F.c5, m1 := F.m1, m2 := F.m2,
              s5 := F.s5 }, fun he => F.nonEmpty he hg⟩
    intro W hW c hc
    have hW' : W = (toInput E pt).W := by
      have : some (toInput E pt).W = some W := hW
      exact (Option.some.inj this).symm
    rw [hW']
    rcases F.bnd_x c hc with h0 | h1
    · have : ¬ ((toInput E pt).W.contains c = true) := by
        rw [toInput_contains]; intro hh; rw [h0] at hh; norm_num at hh
      rw [if_neg this]; exact h0
    · have : (toInput E pt).W.contains c = true := (toInput_contains E pt c).mpr ⟨hc, h1⟩
      rw [if_pos this]; exact h1
  · rintro ⟨F, hne⟩
    exact { bnd_b := F.bnd_b, bnd_p := F.bnd_p, bnd_x := F.bnd_x, bnd_r := F.bnd_r, bnd_m := F.bnd_m, fixb := F.fixb,
            fixp := F.fixp, fixx := fun W h => (by rw [hg] at h; cases h), c0a := F.c0a, c0b := F.c0b,
            nonEmpty := fun he _ => hne he, c1 := F.c1, c2 := F.c2, c3a := F.c3a, c3b := F.c3b, c4 := F.c4, rdef := F.rdef,
            c5 := F.c5, m1 := F.m1, m2 := F.m2, s5 := F.s5 }

/-- when it does prevent the empty allocation: if some project that costs less than the budget limit is approved by every
    voter, no point of the searched, non-exhaustive, plain program selects nothing -/
theorem nonEmpty_clause_prevents_empty (E : Elec) (cfg : Cfg) (pt : Point) (h : sat E cfg pt = true)
    (hs : cfg.stable = false) (he : cfg.exhaustive = false) (hg : cfg.given = none)
    (c : Pid) (hc : c ∈ E.C) (hall : ∀ ai ∈ voters E, ai.1 c = true) (hcost : E.cost c < E.budget) :
    ∃ c' ∈ E.C, pt.x c' = 1 := by
  have F := (sat_iff _ _ _).mp h
  by_contra hnone
  have hx0 : ∀ c' ∈ E.C, pt.x c' = 0 := by
    intro c' hc'
    rcases F.bnd_x c' hc' with h0 | h1
    · exact h0
    · exact absurd ⟨c', hc', h1⟩ hnone
  have hsp : ∀ ai ∈ voters E, spentP E pt ai.2 = 0 := by
    intro ai hai
    unfold spentP
    apply so_zero_of
    intro c' hc'
    have h1 := F.bnd_p ai hai c' hc'
    have h2 := F.c4 ai hai c' hc'
    rw [hx0 c' hc'] at h2
    linarith
  have hsupp : supp E c = voters E := by
    unfold supp
    exact List.filter_eq_self.mpr hall
  have h5 := F.c5 hs c hc
  rw [hx0 c hc, hsupp] at h5
  have hr : sumOver (voters E) (fun ai => pt.r ai.2) = sumOver (voters E) (fun _ => pt.b) := by
    apply so_congr
    intro ai hai
    rw [F.rdef hs ai hai, hsp ai hai]; ring
  rw [hr, Price.sumOver_const] at h5
  have hn : (voters E).length = nv E := by unfold voters nv; simp
  rw [hn] at h5
  have := F.nonEmpty he hg
  linarith

/-- … but it does not always: two voters, project 0 (cost 3) approved by the first only, budget 4 — the point that selects
    NOTHING, with voter budget 2, satisfies the searched program although `{0}` is affordable -/
def EEmpty : Elec := { C := [0], cost := fun _ => 3, budget := 4, apps := [fun c => c == 0, fun _ => false] }

theorem nonEmpty_clause_allows_empty :
    sat EEmpty { stable := false, exhaustive := false, given := none }
      { b := 2, p := fun _ _ => 0, x := fun _ => 0, r := fun _ => 2, m := fun _ => 0 } = true := by
  decide +kernel

/-- and it excludes NON-empty allocations that are priceable by definition: two voters, projects 0 and 1 (cost 1 each), budget
    10, voter 0 approves 0, voter 1 approves 1; `{0}` with voter budget 1 is a price system … -/
def XExcl : Input :=
  { C := [0, 1], cost := fun _ => 1, budget := 10, W := [0],
    N := [{ app := fun c => c == 0, pay := fun c => if c = 0 then 1 else 0 }, { app := fun c => c == 1, pay := fun _ => 0 }],
    b := 1 }

theorem XExcl_exact : Exact XExcl false false := by
  rw [← exact_iff]; decide +kernel

/-- … accepted when the allocation is given … -/
theorem XExcl_given_sat :
    sat (ofInput XExcl) { stable := false, exhaustive := false, given := some [0] } (pointOf XExcl) = true := by
  decide +kernel

/-- … but no point of the searched program leaves project 1 out (in particular none selects exactly `{0}`): voter 1 may keep at
    most `cost(1) = 1`, so `b·n ≤ 2 < 10` -/
theorem nonEmpty_clause_excludes_priceable (pt : Point)
    (h : sat (ofInput XExcl) { stable := false, exhaustive := false, given := none } pt = true)
    (hx1 : pt.x 1 = 0) : False := by
  have F := (sat_iff _ _ _).mp h
  have hv : voters (ofInput XExcl) = [(fun c => c == 0, 0), (fun c => c == 1, 1)] := rfl
  have hm1 : ((fun c => c == 1, 1) : (Pid → Bool) × Nat) ∈ voters (ofInput XExcl) := by rw [hv]; simp
  have hC : (ofInput XExcl).C = [0, 1] := rfl
  have h5 := F.c5 rfl 1 (by rw [hC]; simp)
  have hsupp : supp (ofInput XExcl) 1 = [(fun c => c == 1, 1)] := by
    unfold supp; rw [hv]; rfl
  rw [hsupp, hx1] at h5
  have hr := F.rdef rfl _ hm1
  have hp0 : pt.p 1 0 = 0 := F.c1 _ hm1 0 (by rw [hC]; simp) rfl
  have hp1 : pt.p 1 1 = 0 := by
    have h1 := F.bnd_p _ hm1 1 (by rw [hC]; simp)
    have h2 := F.c4 _ hm1 1 (by rw [hC]; simp)
    rw [hx1] at h2
    have h1' : 0 ≤ pt.p 1 1 := h1
    have h2' : pt.p 1 1 ≤ 0 * INF (ofInput XExcl) := h2
    linarith
  have hsp : spentP (ofInput XExcl) pt 1 = 0 := by
    unfold spentP; rw [hC]
    show pt.p 1 0 + (pt.p 1 1 + 0) = 0
    rw [hp0, hp1]; ring
  have hne := F.nonEmpty rfl rfl
  have hcost : (ofInput XExcl).cost 1 = 1 := rfl
  have hbud : (ofInput XExcl).budget = 10 := rfl
  have hnv : ((nv (ofInput XExcl) : Nat) : Rat) = 2 := by
    have : nv (ofInput XExcl) = 2 := rfl
    rw [this]; norm_num
  rw [hbud, hnv] at hne
  have h5' : pt.r 1 + 0 ≤ 1 + 0 * INF (ofInput XExcl) := by
    rw [hcost] at h5; exact h5
  have hr' : pt.r 1 = pt.b - spentP (ofInput XExcl) pt 1 := hr
  rw [hsp] at hr'
  linarith

/-! ### the hypotheses are satisfiable: the election of C12.lean (two voters share project 0, project 1 stays out) -/

/-- a feasible point ⇒ an exact price system that the validator accepts -/
example : Exact (toInput (ofInput (exInput 1 1 1)) (pointOf (exInput 1 1 1))) true true ∧
    validate (toInput (ofInput (exInput 1 1 1)) (pointOf (exInput 1 1 1))) true true = true :=
  let h := encoding_sound (ofInput (exInput 1 1 1)) { stable := true, exhaustive := true, given := some [0] }
    (pointOf (exInput 1 1 1)) (by decide +kernel)
  ⟨h.1, h.2.1⟩

theorem exInput_wellFormed (e : Bool) : WellFormed (exInput 1 1 1) e :=
  { within := (by unfold WithinInstance; decide),
    costNonneg := by
      intro c _
      show (0 : Rat) ≤ if c = 0 then 2 else 3
      split <;> norm_num,
    intBudget := fun _ => ⟨4, by norm_num [exInput]⟩,
    intCost := by
      intro _ c _
      show ∃ k : Int, (if c = 0 then (2 : Rat) else 3) = k
      by_cases h : c = 0
      · exact ⟨2, by rw [if_pos h]; norm_num⟩
      · exact ⟨3, by rw [if_neg h]; norm_num⟩,
    budgetPos := fun _ => by norm_num [exInput],
    affordable := by
      intro c _
      show (if c = 0 then (2 : Rat) else 3) ≤ 10 * 4
      split <;> norm_num }

/-- an exact price system ⇒ a feasible point (through `encoding_complete_small_profile`, all hypotheses discharged) -/
example : ∃ pt, sat (ofInput (exInput 1 1 1)) { stable := true, exhaustive := true, given := some [0] } pt = true ∧
    (∀ c, pt.x c = if (exInput 1 1 1).W.contains c then 1 else 0) ∧ (∀ i, pt.p i = (pointOf (exInput 1 1 1)).p i) ∧
    pt.b ≤ (exInput 1 1 1).budget :=
  encoding_complete_small_profile (exInput 1 1 1) { stable := true, exhaustive := true, given := some [0] } exInput_stable
    (exInput_wellFormed true)
    { given := fun W' h => (by cases h; rfl), fixB := fun vb h => (by cases h), fixP := fun pf h => (by cases h) }
    rfl (by norm_num [exInput]) (fun h => by cases h) (by decide)

/-- the executable test agrees on the concrete point -/
example : sat (ofInput (exInput 1 1 1)) { stable := false, exhaustive := true, given := none } (pointOf (exInput 1 1 1)) = true := by
  decide +kernel

/-- … and rejects a point that overpays -/
example : sat (ofInput (exInput 1 (3 / 2) 1)) { stable := false, exhaustive := true, given := none }
    (pointOf (exInput 1 (3 / 2) 1)) = false := by
  decide +kernel

end Pabu.PriceMIP
