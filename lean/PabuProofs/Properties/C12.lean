/-
  C12 — the price-system validator is sound and complete up to its rounding tolerance.
  (The completeness of the MIP search against the definition is tested against an exact LP oracle by the
  harness, not proved: it depends on the CBC solver.)
-/
import PabuProofs.Lemmas.Price
import PabuModel.MES
namespace Pabu.Price
open Pabu

/-- `round(x, 2)` differs from `x` by at most half a cent -/
theorem round2_close' (x : Rat) : |round2 x - x| ≤ 1 / 200 := round2_close x

/-- `round(·, 2)` is monotone -/
theorem round2_mono' {x y : Rat} (h : x ≤ y) : round2 x ≤ round2 y := round2_mono h

/-- completeness: a pair that meets every condition exactly is accepted -/
theorem validate_complete (X : Input) (stable exhaustive : Bool) (E : Exact X stable exhaustive) :
    validate X stable exhaustive = true := by
  unfold validate
  simp only [Bool.and_eq_true, Bool.or_eq_true, Bool.not_eq_true']
  refine ⟨⟨⟨⟨⟨⟨⟨(c0a_iff X).mpr E.feasible, ?_⟩, (c1_iff X).mpr E.approved⟩, ?_⟩, ?_⟩, ?_⟩, ?_⟩, ?_⟩
  · cases exhaustive with
    | false => left; rfl
    | true => right; exact (c0b_iff X).mpr (E.exhaust rfl)
  · rw [cNeg_iff]
    intro v hv c hc
    have h := roundCmp_nonneg (E.nonneg v hv c hc)
    linarith
  · rw [c2_iff]
    intro v hv
    have := roundCmp_nonpos (E.within v hv)
    linarith
  · rw [c3_iff]
    intro c hc
    exact roundCmp_eq_zero (E.selected c hc)
  · rw [c4_iff]
    intro c hc
    exact roundCmp_eq_zero (E.unselected c hc)
  · cases stable with
    | false =>
      show c5 X = true
      rw [c5_iff]
      intro c hc
      have := roundCmp_nonpos (E.noMoney rfl c hc)
      linarith
    | true =>
      show s5 X = true
      rw [s5_iff]
      intro c hc
      have := roundCmp_nonpos (E.stab rfl c hc)
      linarith

/-- soundness with a margin: if some condition is violated by `δ > 1/100` the pair is rejected -/
theorem validate_sound_gap (δ : Rat) (hδ : 1 / 100 < δ) (X : Input) (stable exhaustive : Bool)
    (B : BrokenBy δ X stable exhaustive) : validate X stable exhaustive = false := by
  rw [← Bool.not_eq_true]
  intro hv
  unfold validate at hv
  simp only [Bool.and_eq_true, Bool.or_eq_true, Bool.not_eq_true'] at hv
  obtain ⟨⟨⟨⟨⟨⟨⟨h0, hb⟩, h1⟩, hn⟩, h2⟩, h3⟩, h4⟩, h5⟩ := hv
  cases B with
  | c0a h => exact absurd ((c0a_iff X).mp h0) (not_le.mpr h)
  | c0b he h =>
    rcases hb with hb | hb
    · rw [he] at hb; cases hb
    · obtain ⟨c, hc, hle⟩ := h
      exact (c0b_iff X).mp hb c hc hle
  | c1 h =>
    obtain ⟨v, hv, c, hc, ha, hp⟩ := h
    exact hp ((c1_iff X).mp h1 v hv c hc ha)
  | neg h =>
    obtain ⟨v, hv, c, hc, hp⟩ := h
    exact (cNeg_iff X).mp hn v hv c hc (roundCmp_neg_of_gap (by linarith))
  | c2 h =>
    obtain ⟨v, hv, hp⟩ := h
    exact (c2_iff X).mp h2 v hv (roundCmp_pos_of_gap (by linarith))
  | c3 h =>
    obtain ⟨c, hc, hp⟩ := h
    have hz := (c3_iff X).mp h3 c hc
    rcases le_abs'.mp hp with h' | h'
    · have := roundCmp_neg_of_gap (x := paidFor X c) (y := X.cost c) (by linarith)
      linarith
    · have := roundCmp_pos_of_gap (x := paidFor X c) (y := X.cost c) (by linarith)
      linarith
  | c4 h =>
    obtain ⟨c, hc, hp⟩ := h
    have hz := (c4_iff X).mp h4 c hc
    rcases le_abs'.mp hp with h' | h'
    · have := roundCmp_neg_of_gap (x := paidFor X c) (y := 0) (by linarith)
      linarith
    · have := roundCmp_pos_of_gap (x := paidFor X c) (y := 0) (by linarith)
      linarith
  | c5 hs h =>
    obtain ⟨c, hc, hp⟩ := h
    rw [hs] at h5
    exact (c5_iff X).mp h5 c hc (roundCmp_pos_of_gap (by linarith))
  | s5 hs h =>
    obtain ⟨c, hc, hp⟩ := h
    rw [hs] at h5
    exact (s5_iff X).mp h5 c hc (roundCmp_pos_of_gap (by linarith))

/-- the form stated in the property: a violation by at least 0.1 is always rejected -/
theorem validate_sound_margin (X : Input) (stable exhaustive : Bool)
    (B : BrokenBy (1 / 10) X stable exhaustive) : validate X stable exhaustive = false :=
  validate_sound_gap (1 / 10) (by norm_num) X stable exhaustive B

/-! ### the repaired comparison (`round_cmp` rounds the difference): sharp tolerance, no boundary effect -/

/-- sharp soundness: the validator's real tolerance is half a cent — a violation by more than 1/200 is rejected -/
theorem validate_sound_half_cent (δ : Rat) (hδ : 1 / 200 < δ) (X : Input) (stable exhaustive : Bool)
    (B : BrokenBy δ X stable exhaustive) : validate X stable exhaustive = false := by
  rw [← Bool.not_eq_true]
  intro hv
  unfold validate at hv
  simp only [Bool.and_eq_true, Bool.or_eq_true, Bool.not_eq_true'] at hv
  obtain ⟨⟨⟨⟨⟨⟨⟨h0, hb⟩, h1⟩, hn⟩, h2⟩, h3⟩, h4⟩, h5⟩ := hv
  cases B with
  | c0a h => exact absurd ((c0a_iff X).mp h0) (not_le.mpr h)
  | c0b he h =>
    rcases hb with hb | hb
    · rw [he] at hb; cases hb
    · obtain ⟨c, hc, hle⟩ := h
      exact (c0b_iff X).mp hb c hc hle
  | c1 h =>
    obtain ⟨v, hv, c, hc, ha, hp⟩ := h
    exact hp ((c1_iff X).mp h1 v hv c hc ha)
  | neg h =>
    obtain ⟨v, hv, c, hc, hp⟩ := h
    exact (cNeg_iff X).mp hn v hv c hc (roundCmp_neg_of_lt (by linarith))
  | c2 h =>
    obtain ⟨v, hv, hp⟩ := h
    exact (c2_iff X).mp h2 v hv (roundCmp_pos_of_gt (by linarith))
  | c3 h =>
    obtain ⟨c, hc, hp⟩ := h
    have hz := roundCmp_eq_zero_imp ((c3_iff X).mp h3 c hc)
    linarith
  | c4 h =>
    obtain ⟨c, hc, hp⟩ := h
    have hz := roundCmp_eq_zero_imp ((c4_iff X).mp h4 c hc)
    rw [sub_zero] at hz
    linarith
  | c5 hs h =>
    obtain ⟨c, hc, hp⟩ := h
    rw [hs] at h5
    exact (c5_iff X).mp h5 c hc (roundCmp_pos_of_gt (by linarith))
  | s5 hs h =>
    obtain ⟨c, hc, hp⟩ := h
    rw [hs] at h5
    exact (s5_iff X).mp h5 c hc (roundCmp_pos_of_gt (by linarith))

/-- every tolerance-checked condition holds up to an error below `ε` (the exact-valued conditions C0a, C0b, C1 hold):
    what a floating-point solver returns for a price system — each quantity a rounding error away from its exact value -/
structure Within (ε : Rat) (X : Input) (stable exhaustive : Bool) : Prop where
  feasible : X.total ≤ X.budget
  exhaust : exhaustive = true → ∀ c ∈ X.NW, ¬ (X.total + X.cost c ≤ X.budget)
  approved : ∀ v ∈ X.N, ∀ c ∈ X.C, v.app c = false → v.pay c = 0
  nonneg : ∀ v ∈ X.N, ∀ c ∈ X.C, -ε < v.pay c
  within : ∀ v ∈ X.N, spent X v < X.b + ε
  selected : ∀ c ∈ X.W, |paidFor X c - X.cost c| < ε
  unselected : ∀ c ∈ X.NW, |paidFor X c| < ε
  noMoney : stable = false → ∀ c ∈ X.NW, leftoverOf X c < X.cost c + ε
  stab : stable = true → ∀ c ∈ X.NW, stableOf X c < X.cost c + ε

/-- an exact price system is within every positive tolerance -/
theorem within_of_exact (ε : Rat) (hε : 0 < ε) (X : Input) (stable exhaustive : Bool) (E : Exact X stable exhaustive) :
    Within ε X stable exhaustive :=
  { feasible := E.feasible, exhaust := E.exhaust, approved := E.approved,
    nonneg := fun v hv c hc => by linarith [E.nonneg v hv c hc],
    within := fun v hv => by linarith [E.within v hv],
    selected := fun c hc => by rw [E.selected c hc, sub_self, abs_zero]; exact hε,
    unselected := fun c hc => by rw [E.unselected c hc, abs_zero]; exact hε,
    noMoney := fun hs c hc => by linarith [E.noMoney hs c hc],
    stab := fun hs c hc => by linarith [E.stab hs c hc] }

/-- completeness with a tolerance, wherever the numbers lie: a pair that meets every condition up to an error below half
    a cent is accepted.  (False for the former `round(a, 2) - round(b, 2)`: a voter budget 2.375 − 4·10⁻¹⁶ and a voter
    spending 2.375 straddle the rounding boundary and compared as 2.37 < 2.38 — `straddle_former_formula` below.) -/
theorem validate_complete_within (ε : Rat) (hε : ε ≤ 1 / 200) (X : Input) (stable exhaustive : Bool)
    (E : Within ε X stable exhaustive) : validate X stable exhaustive = true := by
  unfold validate
  simp only [Bool.and_eq_true, Bool.or_eq_true, Bool.not_eq_true']
  refine ⟨⟨⟨⟨⟨⟨⟨(c0a_iff X).mpr E.feasible, ?_⟩, (c1_iff X).mpr E.approved⟩, ?_⟩, ?_⟩, ?_⟩, ?_⟩, ?_⟩
  · cases exhaustive with
    | false => left; rfl
    | true => right; exact (c0b_iff X).mpr (E.exhaust rfl)
  · rw [cNeg_iff]
    intro v hv c hc hneg
    have := roundCmp_neg_imp hneg
    linarith [E.nonneg v hv c hc]
  · rw [c2_iff]
    intro v hv hpos
    have := roundCmp_pos_imp hpos
    linarith [E.within v hv]
  · rw [c3_iff]
    intro c hc
    exact roundCmp_eq_zero_of_close (lt_of_lt_of_le (E.selected c hc) hε)
  · rw [c4_iff]
    intro c hc
    exact roundCmp_eq_zero_of_close (by rw [sub_zero]; exact lt_of_lt_of_le (E.unselected c hc) hε)
  · cases stable with
    | false =>
      show c5 X = true
      rw [c5_iff]
      intro c hc hpos
      have := roundCmp_pos_imp hpos
      linarith [E.noMoney rfl c hc]
    | true =>
      show s5 X = true
      rw [s5_iff]
      intro c hc hpos
      have := roundCmp_pos_imp hpos
      linarith [E.stab rfl c hc]

/-- the witness of the defect: 2.375 and 2.375 − 10⁻¹⁵ compare as equal … -/
theorem straddle_equal : roundCmp (19 / 8) (19 / 8 - 1 / 10 ^ 15) = 0 ∧ roundCmp (19 / 8 - 1 / 10 ^ 15) (19 / 8) = 0 :=
  ⟨roundCmp_eq_zero_of_close (by rw [abs_lt]; constructor <;> norm_num),
   roundCmp_eq_zero_of_close (by rw [abs_lt]; constructor <;> norm_num)⟩

/-- … whereas the former formula `round(a, 2) - round(b, 2)` told them apart by a whole cent -/
theorem straddle_former_formula : round2 (19 / 8) - round2 (19 / 8 - 1 / 10 ^ 15) = 1 / 100 := by
  decide +kernel

/-- a stable price system is a price system -/
theorem stable_implies_plain (X : Input) (exhaustive : Bool) (E : Exact X true exhaustive) :
    Exact X false exhaustive :=
  { feasible := E.feasible, exhaust := E.exhaust, approved := E.approved, nonneg := E.nonneg, within := E.within,
    selected := E.selected, unselected := E.unselected,
    noMoney := fun _ c hc => le_trans (leftoverOf_le_stableOf X c) (E.stab rfl c hc),
    stab := fun h => by cases h }

/-- the same on the validator itself: whatever it accepts as stable it accepts as plain -/
theorem validate_stable_implies_plain (X : Input) (exhaustive : Bool) (h : validate X true exhaustive = true) :
    validate X false exhaustive = true := by
  unfold validate at h ⊢
  simp only [Bool.and_eq_true] at h ⊢
  refine ⟨h.1, ?_⟩
  have h5 : s5 X = true := h.2
  show c5 X = true
  rw [c5_iff]
  rw [s5_iff] at h5
  intro c hc hpos
  apply h5 c hc
  have := roundCmp_mono (leftoverOf_le_stableOf X c) (le_refl (X.cost c))
  linarith

/-- an allocation is (stable-)priceable for the ballots `apps` when some voter budget and payment functions
    form a (stable) price system -/
def Priceable (C : List Pid) (cost : Pid → Rat) (budget : Rat) (W : List Pid) (apps : List (Pid → Bool))
    (stable exhaustive : Bool) : Prop :=
  ∃ (b : Rat) (N : List PVoter), N.map (fun v => v.app) = apps ∧
    Exact { C := C, cost := cost, budget := budget, W := W, N := N, b := b } stable exhaustive

/-- an allocation that costs more than the budget limit has no price system (condition C0a) … -/
theorem infeasible_not_priceable (C : List Pid) (cost : Pid → Rat) (budget : Rat) (W : List Pid)
    (apps : List (Pid → Bool)) (stable exhaustive : Bool) (h : budget < costOf cost W) :
    ¬ Priceable C cost budget W apps stable exhaustive := by
  rintro ⟨b, N, _, E⟩
  exact absurd E.feasible (not_le.mpr h)

/-- … and the validator rejects every pair offered for it -/
theorem infeasible_rejected (X : Input) (stable exhaustive : Bool) (h : X.budget < X.total) :
    validate X stable exhaustive = false :=
  validate_sound_gap 1 (by norm_num) X stable exhaustive (BrokenBy.c0a h)

/-- counting form of "infeasible allocations are never priceable": a price system with voter budget `b` pays for
    `W` out of the voters' `n · b`, so an allocation costing more than that has no price system with that budget -/
theorem priceable_total_le_money (X : Input) (stable exhaustive : Bool) (E : Exact X stable exhaustive)
    (hW : X.W.Sublist X.C) : X.total ≤ (X.N.length : Rat) * X.b :=
  exact_total_le_money X stable exhaustive E hW

/- Equal Shares outcomes are priceable (without the exhaustiveness requirement) when utilities are positive exactly on
   the approved projects: proved as `mes_priceable` (`trace_is_price_system`, `mes_priceable_tie`, `mes_priceable_cost_sat`)
   in PabuProofs/Properties/C12Mes.lean; the zero-utility corner (finding K1) is `mes_priceable_zero_cost_counterexample`
   there.  (The former `def mes_priceable_FullStatement` is replaced by those theorems.) -/

/-! ### the hypotheses are satisfiable: two voters share the cost of one project; a second project stays out -/

def exInput (b : Rat) (p1 p2 : Rat) : Input :=
  { C := [0, 1], cost := fun c => if c = 0 then 2 else 3, budget := 4, W := [0],
    N := [{ app := fun c => c = 0, pay := fun c => if c = 0 then p1 else 0 },
          { app := fun _ => true, pay := fun c => if c = 0 then p2 else 0 }],
    b := b }

theorem exInput_plain : Exact (exInput 1 1 1) false true := by
  rw [← exact_iff]; decide +kernel

theorem exInput_stable : Exact (exInput 1 1 1) true true := by
  rw [← exact_iff]; decide +kernel

example : BrokenBy (1 / 10) (exInput 1 (11 / 10) 1) false true :=
  BrokenBy.c2 ⟨_, List.mem_cons_self, by norm_num [spent, exInput, sumOver]⟩

example : Priceable [0, 1] (fun c => if c = 0 then 2 else 3) 4 [0] [fun c => c = 0, fun _ => true] false true :=
  ⟨1, (exInput 1 1 1).N, rfl, exInput_plain⟩

example : (exInput 1 1 1).W.Sublist (exInput 1 1 1).C := by decide

example : Within (1 / 200) (exInput 1 1 1) true true := within_of_exact _ (by norm_num) _ _ _ exInput_stable

/-- a perturbed system (a voter budget 10⁻¹⁵ short, a payment 10⁻¹⁵ over) is within the tolerance, not exact -/
example : Within (1 / 200) (exInput (1 - 1 / 10 ^ 15) 1 (1 + 1 / 10 ^ 15)) false true ∧
    ¬ Exact (exInput (1 - 1 / 10 ^ 15) 1 (1 + 1 / 10 ^ 15)) false true := by
  constructor
  · refine ⟨?_, ?_, ?_, ?_, ?_, ?_, ?_, ?_, ?_⟩
    · decide +kernel
    · intro _; rw [← c0b_iff]; decide +kernel
    · rw [← c1_iff]; decide +kernel
    · intro v hv c hc
      have : ∀ v ∈ (exInput (1 - 1 / 10 ^ 15) 1 (1 + 1 / 10 ^ 15)).N, ∀ c ∈ (exInput (1 - 1 / 10 ^ 15) 1 (1 + 1 / 10 ^ 15)).C,
          0 ≤ v.pay c := by rw [← eNeg_iff]; decide +kernel
      linarith [this v hv c hc]
    · intro v hv
      simp only [exInput, List.mem_cons, List.mem_nil_iff, or_false] at hv
      rcases hv with rfl | rfl <;> norm_num [spent, exInput, sumOver]
    · intro c hc
      simp only [exInput, List.mem_cons, List.mem_nil_iff, or_false] at hc
      subst hc
      norm_num [paidFor, exInput, sumOver, abs_lt]
    · intro c hc
      have hc' : c = 1 := by
        have : c ∈ [1] := hc
        simpa using this
      subst hc'
      norm_num [paidFor, exInput, sumOver]
    · intro _ c hc
      have hc' : c = 1 := by
        have : c ∈ [1] := hc
        simpa using this
      subst hc'
      norm_num [leftoverOf, leftover, spent, exInput, sumOver]
    · intro h; cases h
  · intro E
    have := E.within _ (List.mem_cons_of_mem _ List.mem_cons_self)
    norm_num [spent, exInput, sumOver] at this

end Pabu.Price
