/-
  C12 — the price-system validator is sound and complete up to its rounding tolerance.
  (The completeness of the MIP search against the definition is tested against an exact LP oracle by the
  harness, not proved: it depends on the CBC solver.)
-/
import PabuProofs.Lemmas.Price
import PabuModel.MES
namespace Pabu.Price
open Pabu

/-- `round(x, 2)` differs from `x` by at most half a cent -/
theorem round2_close' (x : Rat) : |round2 x - x| ≤ 1 / 200 := round2_close x

/-- `round(·, 2)` is monotone -/
theorem round2_mono' {x y : Rat} (h : x ≤ y) : round2 x ≤ round2 y := round2_mono h

/-- completeness: a pair that meets every condition exactly is accepted -/
theorem validate_complete (X : Input) (stable exhaustive : Bool) (E : Exact X stable exhaustive) :
    validate X stable exhaustive = true := by
  unfold validate
  simp only [Bool.and_eq_true, Bool.or_eq_true, Bool.not_eq_true']
  refine ⟨⟨⟨⟨⟨⟨⟨(c0a_iff X).mpr E.feasible, ?_⟩, (c1_iff X).mpr E.approved⟩, ?_⟩, ?_⟩, ?_⟩, ?_⟩, ?_⟩
  · cases exhaustive with
    | false => left; rfl
    | true => right; exact (c0b_iff X).mpr (E.exhaust rfl)
  · rw [cNeg_iff]
    intro v hv c hc
    have h := round2_mono (E.nonneg v hv c hc)
    unfold roundCmp
    linarith
  · rw [c2_iff]
    intro v hv
    have := roundCmp_nonpos (E.within v hv)
    linarith
  · rw [c3_iff]
    intro c hc
    exact roundCmp_eq_zero (E.selected c hc)
  · rw [c4_iff]
    intro c hc
    exact roundCmp_eq_zero (E.unselected c hc)
  · cases stable with
    | false =>
      show c5 X = true
      rw [c5_iff]
      intro c hc
      have := roundCmp_nonpos (E.noMoney rfl c hc)
      linarith
    | true =>
      show s5 X = true
      rw [s5_iff]
      intro c hc
      have := roundCmp_nonpos (E.stab rfl c hc)
      linarith

/-- soundness with a margin: if some condition is violated by `δ > 1/100` the pair is rejected -/
theorem validate_sound_gap (δ : Rat) (hδ : 1 / 100 < δ) (X : Input) (stable exhaustive : Bool)
    (B : BrokenBy δ X stable exhaustive) : validate X stable exhaustive = false := by
  rw [← Bool.not_eq_true]
  intro hv
  unfold validate at hv
  simp only [Bool.and_eq_true, Bool.or_eq_true, Bool.not_eq_true'] at hv
  obtain ⟨⟨⟨⟨⟨⟨⟨h0, hb⟩, h1⟩, hn⟩, h2⟩, h3⟩, h4⟩, h5⟩ := hv
  cases B with
  | c0a h => exact absurd ((c0a_iff X).mp h0) (not_le.mpr h)
  | c0b he h =>
    rcases hb with hb | hb
    · rw [he] at hb; cases hb
    · obtain ⟨c, hc, hle⟩ := h
      exact (c0b_iff X).mp hb c hc hle
  | c1 h =>
    obtain ⟨v, hv, c, hc, ha, hp⟩ := h
    exact hp ((c1_iff X).mp h1 v hv c hc ha)
  | neg h =>
    obtain ⟨v, hv, c, hc, hp⟩ := h
    exact (cNeg_iff X).mp hn v hv c hc (roundCmp_neg_of_gap (by linarith))
  | c2 h =>
    obtain ⟨v, hv, hp⟩ := h
    exact (c2_iff X).mp h2 v hv (roundCmp_pos_of_gap (by linarith))
  | c3 h =>
    obtain ⟨c, hc, hp⟩ := h
    have hz := (c3_iff X).mp h3 c hc
    rcases le_abs'.mp hp with h' | h'
    · have := roundCmp_neg_of_gap (x := paidFor X c) (y := X.cost c) (by linarith)
      linarith
    · have := roundCmp_pos_of_gap (x := paidFor X c) (y := X.cost c) (by linarith)
      linarith
  | c4 h =>
    obtain ⟨c, hc, hp⟩ := h
    have hz := (c4_iff X).mp h4 c hc
    rcases le_abs'.mp hp with h' | h'
    · have := roundCmp_neg_of_gap (x := paidFor X c) (y := 0) (by linarith)
      linarith
    · have := roundCmp_pos_of_gap (x := paidFor X c) (y := 0) (by linarith)
      linarith
  | c5 hs h =>
    obtain ⟨c, hc, hp⟩ := h
    rw [hs] at h5
    exact (c5_iff X).mp h5 c hc (roundCmp_pos_of_gap (by linarith))
  | s5 hs h =>
    obtain ⟨c, hc, hp⟩ := h
    rw [hs] at h5
    exact (s5_iff X).mp h5 c hc (roundCmp_pos_of_gap (by linarith))

/-- the form stated in the property: a violation by at least 0.1 is always rejected -/
theorem validate_sound_margin (X : Input) (stable exhaustive : Bool)
    (B : BrokenBy (1 / 10) X stable exhaustive) : validate X stable exhaustive = false :=
  validate_sound_gap (1 / 10) (by norm_num) X stable exhaustive B

/-- a stable price system is a price system -/
theorem stable_implies_plain (X : Input) (exhaustive : Bool) (E : Exact X true exhaustive) :
    Exact X false exhaustive :=
  { feasible := E.feasible, exhaust := E.exhaust, approved := E.approved, nonneg := E.nonneg, within := E.within,
    selected := E.selected, unselected := E.unselected,
    noMoney := fun _ c hc => le_trans (leftoverOf_le_stableOf X c) (E.stab rfl c hc),
    stab := fun h => by cases h }

/-- the same on the validator itself: whatever it accepts as stable it accepts as plain -/
theorem validate_stable_implies_plain (X : Input) (exhaustive : Bool) (h : validate X true exhaustive = true) :
    validate X false exhaustive = true := by
  unfold validate at h ⊢
  simp only [Bool.and_eq_true] at h ⊢
  refine ⟨h.1, ?_⟩
  have h5 : s5 X = true := h.2
  show c5 X = true
  rw [c5_iff]
  rw [s5_iff] at h5
  intro c hc hpos
  apply h5 c hc
  have := round2_mono (leftoverOf_le_stableOf X c)
  unfold roundCmp at hpos ⊢
  linarith

/-- an allocation is (stable-)priceable for the ballots `apps` when some voter budget and payment functions
    form a (stable) price system -/
def Priceable (C : List Pid) (cost : Pid → Rat) (budget : Rat) (W : List Pid) (apps : List (Pid → Bool))
    (stable exhaustive : Bool) : Prop :=
  ∃ (b : Rat) (N : List PVoter), N.map (fun v => v.app) = apps ∧
    Exact { C := C, cost := cost, budget := budget, W := W, N := N, b := b } stable exhaustive

/-- an allocation that costs more than the budget limit has no price system (condition C0a) … -/
theorem infeasible_not_priceable (C : List Pid) (cost : Pid → Rat) (budget : Rat) (W : List Pid)
    (apps : List (Pid → Bool)) (stable exhaustive : Bool) (h : budget < costOf cost W) :
    ¬ Priceable C cost budget W apps stable exhaustive := by
  rintro ⟨b, N, _, E⟩
  exact absurd E.feasible (not_le.mpr h)

/-- … and the validator rejects every pair offered for it -/
theorem infeasible_rejected (X : Input) (stable exhaustive : Bool) (h : X.budget < X.total) :
    validate X stable exhaustive = false :=
  validate_sound_gap 1 (by norm_num) X stable exhaustive (BrokenBy.c0a h)

/-- counting form of "infeasible allocations are never priceable": a price system with voter budget `b` pays for
    `W` out of the voters' `n · b`, so an allocation costing more than that has no price system with that budget -/
theorem priceable_total_le_money (X : Input) (stable exhaustive : Bool) (E : Exact X stable exhaustive)
    (hW : X.W.Sublist X.C) : X.total ≤ (X.N.length : Rat) * X.b :=
  exact_total_le_money X stable exhaustive E hW

/- Equal Shares outcomes are priceable (without the exhaustiveness requirement) when utilities are positive exactly on
   the approved projects: proved as `mes_priceable` (`trace_is_price_system`, `mes_priceable_tie`, `mes_priceable_cost_sat`)
   in PabuProofs/Properties/C12Mes.lean; the zero-utility corner (finding K1) is `mes_priceable_zero_cost_counterexample`
   there.  (The former `def mes_priceable_FullStatement` is replaced by those theorems.) -/

/-! ### the hypotheses are satisfiable: two voters share the cost of one project; a second project stays out -/

def exInput (b : Rat) (p1 p2 : Rat) : Input :=
  { C := [0, 1], cost := fun c => if c = 0 then 2 else 3, budget := 4, W := [0],
    N := [{ app := fun c => c = 0, pay := fun c => if c = 0 then p1 else 0 },
          { app := fun _ => true, pay := fun c => if c = 0 then p2 else 0 }],
    b := b }

theorem exInput_plain : Exact (exInput 1 1 1) false true := by
  rw [← exact_iff]; decide +kernel

theorem exInput_stable : Exact (exInput 1 1 1) true true := by
  rw [← exact_iff]; decide +kernel

example : BrokenBy (1 / 10) (exInput 1 (11 / 10) 1) false true :=
  BrokenBy.c2 ⟨_, List.mem_cons_self, by norm_num [spent, exInput, sumOver]⟩

example : Priceable [0, 1] (fun c => if c = 0 then 2 else 3) 4 [0] [fun c => c = 0, fun _ => true] false true :=
  ⟨1, (exInput 1 1 1).N, rfl, exInput_plain⟩

example : (exInput 1 1 1).W.Sublist (exInput 1 1 1).C := by decide

end Pabu.Price
