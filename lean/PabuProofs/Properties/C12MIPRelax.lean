/-
  C12 (search with a relaxation) — the mixed-integer program `priceable(..., stable=True, relaxation=R)` hands to the solver
  ENCODES "the allocation has a price system that is stable w.r.t. the relaxed costs `R.get_relaxed_cost`", for the five
  classes MinMul, MinAdd, MinAddVector, MinAddVectorPositive, MinAddOffset, and its objective is the number `R.get_beta`
  reports — within the domain each class declares for its β-variables and the limits of the big-M constant `INF = 10·budget`,
  which are stated exactly:

   * `relaxed_encoding_sound`     every point of the program (x ∈ {0,1}) is a price system for W = {c | x_c = 1} that is stable
                                  w.r.t. the relaxed cost `rcOf` = what `get_beta` + `get_relaxed_cost` compute from that very
                                  point (`rcOf_mul` … `rcOf_off`: the shapes `rcMinMul`, `rcMinAdd`, … of PabuModel.Price):
                                  `Price.ExactRelaxed`, hence accepted by the relaxed validator (`validateRelaxed_complete`);
                                  W is feasible, exhaustive when asked; the β-variables lie in the class's domain;
   * `relaxed_encoding_complete_partial`  a relaxed price system with parameters (β, βv) in the class's domain whose numbers fit
                                  under the big-M constants is a point of the program with exactly that x, b, p, β, βv;
   * `relaxed_encoding_complete`  the big-M bound met by capping the voter budget: enough that for every selected project
                                  (#supporters)·budget ≤ relaxed cost + 10·budget; `…_of_rc_nonneg`, `…_mul`, `…_vec`,
                                  `…_vecpos`: at most 10 supporters per selected project suffice for these classes;
   * `relaxed_encoding_complete_FullStatement_false`  without the bound the statement is FALSE (2 voters, MinAdd, every project
                                  selected: the definition allows β = −INF, every point of the program has β ≥ −INF + 1);
   * `objective_eq_getBeta`       the objective value of a point is what `get_beta` reports (β / Σβ_c / β_global);
   * `relaxed_optimum_spec`       under the explicit solver hypothesis `RSolverSpec` (status OPTIMAL ⇒ an objective-minimal point of
                                  the program given) the returned β is attained by a relaxed stable price system and is the LEAST
                                  `get_beta` value over all relaxed stable price systems of the election that respect the call
                                  (given allocation / fixed b, p), lie in the class's domain and fit under the big-M constants;
                                  `relaxed_infeasible_spec`: status INFEASIBLE ⇒ there is none;
   * `rsolverSpec_satisfiable`    the solver hypothesis is not contradictory.

  Only the solver's answer stays trusted; that the program in PabuModel/PriceMIPRelax.lean is the one the library builds
  (variables with bounds and types, every row, objective sense and coefficients) is checked by harness/props/C12_mip.py.
-/
import PabuProofs.Lemmas.PriceMIPRelax
import PabuProofs.Properties.C12MIP
import PabuProofs.Properties.C12Relax
namespace Pabu.PriceMIP
open Pabu Pabu.Price

/-! ### the relaxed cost of a point is the shape of the class at the point's β -/

theorem rcOf_mul (E : Elec) (rp : RPoint) : rcOf E .mul rp = rcMinMul E.cost rp.beta := rfl
theorem rcOf_add (E : Elec) (rp : RPoint) : rcOf E .add rp = rcMinAdd E.cost rp.beta := rfl
theorem rcOf_vec (E : Elec) (rp : RPoint) : rcOf E .vec rp = rcMinAddVector E.cost rp.betac := rfl
theorem rcOf_vecpos (E : Elec) (rp : RPoint) : rcOf E .vecpos rp = rcMinAddVector E.cost rp.betac := rfl
theorem rcOf_off (E : Elec) (rp : RPoint) : rcOf E .off rp = rcMinAddOffset E.cost rp.beta rp.betac := rfl

/-- the costs the validator reads are those of the election -/
theorem toInput_cost (E : Elec) (pt : Point) : (toInput E pt).cost = E.cost := rfl

/-- SOUNDNESS.  A point that satisfies the variable domains and all rows of the relaxed program is a price system for
    `W = {c ∈ C | x_c = 1}` (voter budget `b`, payments `p`) that is stable with respect to the relaxed costs computed from the
    point's own β by `get_beta` / `get_relaxed_cost`; `validate_price_system(…, relaxation=R)` accepts it; `W` is feasible,
    exhaustive when asked, the given allocation when one was given; the β-variables lie in the class's declared domain. -/
theorem relaxed_encoding_sound (E : Elec) (R : Relax) (cfg : Cfg) (rp : RPoint) (h : rsat E R cfg rp = true) :
    ExactRelaxed (toInput E rp.base) (rcOf E R rp) cfg.stable cfg.exhaustive ∧
    exactRelaxed (toInput E rp.base) (rcOf E R rp) cfg.stable cfg.exhaustive = true ∧
    validateRelaxed (toInput E rp.base) (rcOf E R rp) cfg.stable cfg.exhaustive = true ∧
    (toInput E rp.base).total ≤ E.budget ∧
    (cfg.exhaustive = true → ∀ c ∈ (toInput E rp.base).NW, ¬ ((toInput E rp.base).total + E.cost c ≤ E.budget)) ∧
    (∀ c ∈ E.C, rp.base.x c = 0 ∨ rp.base.x c = 1) ∧
    (∀ W, cfg.given = some W → (toInput E rp.base).W = E.C.filter (fun c => W.contains c)) ∧
    (∀ vb, cfg.fixB = some vb → (toInput E rp.base).b = vb) ∧
    Domain E R rp.base.x rp.beta rp.betac := by
  obtain ⟨F, hD⟩ := (rsat_iff E R cfg rp).mp h
  have Ex := feasibleR_exactRelaxed E cfg rp.base (rcOf E R rp) F
  refine ⟨Ex, (exactRelaxed_iff _ _ _ _).mpr Ex, validateRelaxed_complete _ _ _ _ Ex, Ex.feasible, Ex.exhaust, F.core.bnd_x, ?_,
    F.core.fixb, hD⟩
  intro W hW
  show E.C.filter (fun c => decide (rp.base.x c = 1)) = E.C.filter (fun c => W.contains c)
  apply List.filter_congr
  intro c hc
  rw [F.core.fixx W hW c hc]
  by_cases hw : W.contains c = true
  · rw [if_pos hw, hw]; simp
  · rw [if_neg hw]
    have : W.contains c = false := by simpa using hw
    rw [this]; simp

/-- … in particular, with `stable=True`, for each class in its own words -/
theorem relaxed_encoding_sound_mul (E : Elec) (cfg : Cfg) (rp : RPoint) (h : rsat E .mul cfg rp = true) :
    ExactRelaxed (toInput E rp.base) (rcMinMul (toInput E rp.base).cost rp.beta) cfg.stable cfg.exhaustive ∧ 0 ≤ rp.beta :=
  let s := relaxed_encoding_sound E .mul cfg rp h
  ⟨s.1, s.2.2.2.2.2.2.2.2⟩

theorem relaxed_encoding_sound_add (E : Elec) (cfg : Cfg) (rp : RPoint) (h : rsat E .add cfg rp = true) :
    ExactRelaxed (toInput E rp.base) (rcMinAdd (toInput E rp.base).cost rp.beta) cfg.stable cfg.exhaustive ∧ -(INF E) ≤ rp.beta :=
  let s := relaxed_encoding_sound E .add cfg rp h
  ⟨s.1, s.2.2.2.2.2.2.2.2⟩

/-- MinAddVector: additionally β_c = 0 on the selected projects and |β_c| ≤ budget on the others -/
theorem relaxed_encoding_sound_vec (E : Elec) (cfg : Cfg) (rp : RPoint) (h : rsat E .vec cfg rp = true) :
    ExactRelaxed (toInput E rp.base) (rcMinAddVector (toInput E rp.base).cost rp.betac) cfg.stable cfg.exhaustive ∧
    (∀ c ∈ E.C, rp.base.x c = 1 → rp.betac c = 0) ∧
    (∀ c ∈ E.C, rp.base.x c = 0 → -E.budget ≤ rp.betac c ∧ rp.betac c ≤ E.budget) := by
  have s := relaxed_encoding_sound E .vec cfg rp h
  have hD : ∀ c ∈ E.C, -(INF E) ≤ rp.betac c ∧ rp.betac c ≤ (1 - rp.base.x c) * E.budget ∧
      (rp.base.x c - 1) * E.budget ≤ rp.betac c := s.2.2.2.2.2.2.2.2
  refine ⟨s.1, ?_, ?_⟩
  · intro c hc hx
    obtain ⟨_, h1, h2⟩ := hD c hc
    rw [hx] at h1 h2
    linarith
  · intro c hc hx
    obtain ⟨_, h1, h2⟩ := hD c hc
    rw [hx] at h1 h2
    constructor <;> linarith

theorem relaxed_encoding_sound_vecpos (E : Elec) (cfg : Cfg) (rp : RPoint) (h : rsat E .vecpos cfg rp = true) :
    ExactRelaxed (toInput E rp.base) (rcMinAddVector (toInput E rp.base).cost rp.betac) cfg.stable cfg.exhaustive ∧
    (∀ c ∈ E.C, 0 ≤ rp.betac c) :=
  let s := relaxed_encoding_sound E .vecpos cfg rp h
  ⟨s.1, s.2.2.2.2.2.2.2.2⟩

theorem relaxed_encoding_sound_off (E : Elec) (cfg : Cfg) (rp : RPoint) (h : rsat E .off cfg rp = true) :
    ExactRelaxed (toInput E rp.base) (rcMinAddOffset (toInput E rp.base).cost rp.beta rp.betac) cfg.stable cfg.exhaustive ∧
    -(INF E) ≤ rp.beta ∧ (∀ c ∈ E.C, 0 ≤ rp.betac c) ∧ sumOver E.C rp.betac ≤ budgetFraction * E.budget :=
  let s := relaxed_encoding_sound E .off cfg rp h
  ⟨s.1, s.2.2.2.2.2.2.2.2⟩

/-! ### completeness -/

/-- COMPLETENESS, bounds explicit.  A price system of a well-formed election that is stable w.r.t. the relaxed costs of class `R`
    at parameters `(β, βv)` lying in the class's declared domain, and whose supporters' stability amounts of every SELECTED
    project sum to at most `relaxed cost + 10·budget`, is a point of the program, with `x` the indicator of `W`, `b` the voter
    budget, `p` the payments and exactly these β-values; `get_beta` reports `β` (`Σ βv` for the vector classes). -/
theorem relaxed_encoding_complete_partial (X : Input) (cfg : Cfg) (R : Relax) (β : Rat) (βv : Pid → Rat)
    (Ex : ExactRelaxed X (rcK R X.cost β βv) cfg.stable cfg.exhaustive)
    (wf : WellFormed X cfg.exhaustive) (asks : Asks cfg X) (hb0 : 0 ≤ X.b)
    (hne : cfg.exhaustive = false → cfg.given = none → X.budget ≤ (X.N.length : Rat) * X.b)
    (hdom : Domain (ofInput X) R (pointOf X).x β βv)
    (hbd : BoundedR X cfg.stable (rcK R X.cost β βv)) :
    rsat (ofInput X) R cfg (rpointOf X β βv) = true ∧
    (∀ c, (rpointOf X β βv).base.x c = if X.W.contains c then 1 else 0) ∧ (rpointOf X β βv).base.b = X.b ∧
    getBeta (ofInput X) R (rpointOf X β βv) = betaK R X.C β βv := by
  refine ⟨(rsat_iff _ _ _ _).mpr ⟨?_, hdom⟩, fun _ => rfl, rfl, rfl⟩
  exact exactRelaxed_feasibleR X cfg (rcK R X.cost β βv) Ex wf.within wf.costNonneg hb0
    (fun he => ⟨wf.intBudget he, wf.intCost he⟩) wf.budgetPos wf.affordable hne hbd asks.given asks.fixB asks.fixP

/-- COMPLETENESS with the big-M bound discharged by capping the voter budget at the budget limit: it is enough that, for every
    selected project, (number of supporters)·budget ≤ relaxed cost + 10·budget (plain rows, `stable=False`: at most 10
    supporters).  The point has exactly that `x`, those payments and those β-values. -/
theorem relaxed_encoding_complete (X : Input) (cfg : Cfg) (R : Relax) (β : Rat) (βv : Pid → Rat)
    (Ex : ExactRelaxed X (rcK R X.cost β βv) cfg.stable cfg.exhaustive)
    (wf : WellFormed X cfg.exhaustive) (asks : Asks cfg X) (hfb : cfg.fixB = none) (hb0 : 0 ≤ X.b)
    (hne : cfg.exhaustive = false → cfg.given = none → X.budget ≤ (X.N.length : Rat) * X.b)
    (hdom : Domain (ofInput X) R (pointOf X).x β βv)
    (hplain : cfg.stable = false → ∀ c ∈ X.W, ((X.N.filter (fun v => v.app c)).length : Rat) ≤ 10)
    (hstab : cfg.stable = true → ∀ c ∈ X.W,
      ((X.N.filter (fun v => v.app c)).length : Rat) * X.budget ≤ rcK R X.cost β βv c + 10 * X.budget) :
    ∃ rp, rsat (ofInput X) R cfg rp = true ∧ (∀ c, rp.base.x c = if X.W.contains c then 1 else 0) ∧
      (∀ i, rp.base.p i = (pointOf X).p i) ∧ rp.base.b ≤ X.budget ∧ rp.beta = β ∧ rp.betac = βv ∧
      getBeta (ofInput X) R rp = betaK R X.C β βv := by
  have hWC := mem_W_C X wf.within
  have htot0 : 0 ≤ X.total := so_nonneg _ _ (fun c hc => wf.costNonneg c (hWC c hc))
  have hbud0 : 0 ≤ X.budget := le_trans htot0 Ex.feasible
  have Ex' := capB_exactRelaxed X (rcK R X.cost β βv) cfg.stable cfg.exhaustive Ex wf.within
  have wf' : WellFormed (capB X) cfg.exhaustive :=
    { within := wf.within, costNonneg := wf.costNonneg, intBudget := wf.intBudget, intCost := wf.intCost,
      budgetPos := wf.budgetPos, affordable := wf.affordable }
  have asks' : Asks cfg (capB X) :=
    { given := asks.given, fixB := fun vb h => (by rw [hfb] at h; cases h), fixP := asks.fixP }
  have h := relaxed_encoding_complete_partial (capB X) cfg R β βv Ex' wf' asks' (capB_b_nonneg X hb0 hbud0)
    (fun he hg => capB_nonEmpty X hbud0 (hne he hg)) hdom
    (capB_boundedR X (rcK R X.cost β βv) cfg.stable cfg.exhaustive Ex wf.within wf.costNonneg hb0 hplain hstab)
  exact ⟨rpointOf (capB X) β βv, h.1, h.2.1, fun _ => rfl, capB_b_le_budget X, rfl, rfl, h.2.2.2⟩

/-- … whenever the relaxed costs of the selected projects are non-negative and no selected project has more than 10 supporters -/
theorem relaxed_encoding_complete_of_rc_nonneg (X : Input) (cfg : Cfg) (R : Relax) (β : Rat) (βv : Pid → Rat)
    (Ex : ExactRelaxed X (rcK R X.cost β βv) cfg.stable cfg.exhaustive)
    (wf : WellFormed X cfg.exhaustive) (asks : Asks cfg X) (hfb : cfg.fixB = none) (hb0 : 0 ≤ X.b)
    (hne : cfg.exhaustive = false → cfg.given = none → X.budget ≤ (X.N.length : Rat) * X.b)
    (hdom : Domain (ofInput X) R (pointOf X).x β βv)
    (hrc : ∀ c ∈ X.W, 0 ≤ rcK R X.cost β βv c)
    (hsmall : ∀ c ∈ X.W, ((X.N.filter (fun v => v.app c)).length : Rat) ≤ 10) :
    ∃ rp, rsat (ofInput X) R cfg rp = true ∧ (∀ c, rp.base.x c = if X.W.contains c then 1 else 0) ∧
      (∀ i, rp.base.p i = (pointOf X).p i) ∧ rp.base.b ≤ X.budget ∧ rp.beta = β ∧ rp.betac = βv ∧
      getBeta (ofInput X) R rp = betaK R X.C β βv := by
  have hWC := mem_W_C X wf.within
  have htot0 : 0 ≤ X.total := so_nonneg _ _ (fun c hc => wf.costNonneg c (hWC c hc))
  have hbud0 : 0 ≤ X.budget := le_trans htot0 Ex.feasible
  apply relaxed_encoding_complete X cfg R β βv Ex wf asks hfb hb0 hne hdom (fun _ => hsmall)
  intro _ c hc
  have h1 := hsmall c hc
  have h2 := hrc c hc
  have h3 : ((X.N.filter (fun v => v.app c)).length : Rat) * X.budget ≤ 10 * X.budget := mul_le_mul_of_nonneg_right h1 hbud0
  linarith

/-- MinMul: β ≥ 0 is the class's domain, the relaxed costs `cost·β` are non-negative -/
theorem relaxed_encoding_complete_mul (X : Input) (cfg : Cfg) (β : Rat)
    (Ex : ExactRelaxed X (rcMinMul X.cost β) cfg.stable cfg.exhaustive)
    (wf : WellFormed X cfg.exhaustive) (asks : Asks cfg X) (hfb : cfg.fixB = none) (hb0 : 0 ≤ X.b)
    (hne : cfg.exhaustive = false → cfg.given = none → X.budget ≤ (X.N.length : Rat) * X.b)
    (hβ : 0 ≤ β) (hsmall : ∀ c ∈ X.W, ((X.N.filter (fun v => v.app c)).length : Rat) ≤ 10) :
    ∃ rp, rsat (ofInput X) .mul cfg rp = true ∧ (∀ c, rp.base.x c = if X.W.contains c then 1 else 0) ∧
      (∀ i, rp.base.p i = (pointOf X).p i) ∧ rp.base.b ≤ X.budget ∧ rp.beta = β := by
  obtain ⟨rp, h1, h2, h3, h4, h5, _⟩ := relaxed_encoding_complete_of_rc_nonneg X cfg .mul β (fun _ => 0) Ex wf asks hfb hb0 hne hβ
    (fun c hc => mul_nonneg (wf.costNonneg c (mem_W_C X wf.within c hc)) hβ) hsmall
  exact ⟨rp, h1, h2, h3, h4, h5⟩

/-- MinAddVectorPositive: β_c ≥ 0 is the class's domain -/
theorem relaxed_encoding_complete_vecpos (X : Input) (cfg : Cfg) (βv : Pid → Rat)
    (Ex : ExactRelaxed X (rcMinAddVector X.cost βv) cfg.stable cfg.exhaustive)
    (wf : WellFormed X cfg.exhaustive) (asks : Asks cfg X) (hfb : cfg.fixB = none) (hb0 : 0 ≤ X.b)
    (hne : cfg.exhaustive = false → cfg.given = none → X.budget ≤ (X.N.length : Rat) * X.b)
    (hβ : ∀ c ∈ X.C, 0 ≤ βv c) (hsmall : ∀ c ∈ X.W, ((X.N.filter (fun v => v.app c)).length : Rat) ≤ 10) :
    ∃ rp, rsat (ofInput X) .vecpos cfg rp = true ∧ (∀ c, rp.base.x c = if X.W.contains c then 1 else 0) ∧
      (∀ i, rp.base.p i = (pointOf X).p i) ∧ rp.base.b ≤ X.budget ∧ rp.betac = βv ∧
      getBeta (ofInput X) .vecpos rp = sumOver X.C βv := by
  obtain ⟨rp, h1, h2, h3, h4, _, h6, h7⟩ := relaxed_encoding_complete_of_rc_nonneg X cfg .vecpos 0 βv Ex wf asks hfb hb0 hne hβ
    (fun c hc => by
      have hc' := mem_W_C X wf.within c hc
      have h1 := wf.costNonneg c hc'
      have h2 := hβ c hc'
      show 0 ≤ X.cost c + βv c
      linarith) hsmall
  exact ⟨rp, h1, h2, h3, h4, h6, h7⟩

/-- MinAddVector: the class's domain (β_c = 0 on the selected projects, |β_c| ≤ budget on the others) makes the relaxed cost of a
    selected project its cost -/
theorem relaxed_encoding_complete_vec (X : Input) (cfg : Cfg) (βv : Pid → Rat)
    (Ex : ExactRelaxed X (rcMinAddVector X.cost βv) cfg.stable cfg.exhaustive)
    (wf : WellFormed X cfg.exhaustive) (asks : Asks cfg X) (hfb : cfg.fixB = none) (hb0 : 0 ≤ X.b)
    (hne : cfg.exhaustive = false → cfg.given = none → X.budget ≤ (X.N.length : Rat) * X.b)
    (hsel : ∀ c ∈ X.W, βv c = 0) (hun : ∀ c ∈ X.NW, -X.budget ≤ βv c ∧ βv c ≤ X.budget)
    (hsmall : ∀ c ∈ X.W, ((X.N.filter (fun v => v.app c)).length : Rat) ≤ 10) :
    ∃ rp, rsat (ofInput X) .vec cfg rp = true ∧ (∀ c, rp.base.x c = if X.W.contains c then 1 else 0) ∧
      (∀ i, rp.base.p i = (pointOf X).p i) ∧ rp.base.b ≤ X.budget ∧ rp.betac = βv ∧
      getBeta (ofInput X) .vec rp = sumOver X.C βv := by
  have hWC := mem_W_C X wf.within
  have htot0 : 0 ≤ X.total := so_nonneg _ _ (fun c hc => wf.costNonneg c (hWC c hc))
  have hbud0 : 0 ≤ X.budget := le_trans htot0 Ex.feasible
  have hdom : Domain (ofInput X) .vec (pointOf X).x 0 βv := by
    intro c hc
    have hc' : c ∈ X.C := hc
    show -(X.budget * 10) ≤ βv c ∧ βv c ≤ (1 - (if X.W.contains c then 1 else 0)) * X.budget ∧
      ((if X.W.contains c then 1 else 0) - 1) * X.budget ≤ βv c
    by_cases h : X.W.contains c = true
    · rw [if_pos h, hsel c (by simpa using h)]
      refine ⟨?_, ?_, ?_⟩ <;> linarith
    · rw [if_neg h]
      obtain ⟨h1, h2⟩ := hun c (mem_NW_of X c hc' h)
      refine ⟨?_, ?_, ?_⟩ <;> linarith
  obtain ⟨rp, h1, h2, h3, h4, _, h6, h7⟩ := relaxed_encoding_complete_of_rc_nonneg X cfg .vec 0 βv Ex wf asks hfb hb0 hne hdom
    (fun c hc => by
      have h1 := wf.costNonneg c (hWC c hc)
      show 0 ≤ X.cost c + βv c
      rw [hsel c hc]; linarith) hsmall
  exact ⟨rp, h1, h2, h3, h4, h6, h7⟩

/-! ### the objective and the optimum -/

/-- the solver hypothesis is satisfiable (classically: answer OPTIMAL with a minimal point if one exists, INFEASIBLE if the
    program has no point, OTHER otherwise) -/
theorem rsolverSpec_satisfiable : ∃ solve : RProgram → RAnswer, RSolverSpec solve := by
  classical
  refine ⟨fun P =>
    if h : ∃ a, P.sat a = true ∧ ∀ b : RPoint, P.sat b = true → P.objective a ≤ P.objective b then RAnswer.optimal (Classical.choose h)
    else if ∀ b : RPoint, P.sat b = false then RAnswer.infeasible else RAnswer.other, ?_⟩
  intro P
  constructor
  · intro a ha
    by_cases h : ∃ a, P.sat a = true ∧ ∀ b : RPoint, P.sat b = true → P.objective a ≤ P.objective b
    · simp only [dif_pos h] at ha
      have : Classical.choose h = a := by injection ha
      rw [← this]
      exact Classical.choose_spec h
    · simp only [dif_neg h] at ha
      by_cases h2 : ∀ b : RPoint, P.sat b = false
      · rw [if_pos h2] at ha; cases ha
      · rw [if_neg h2] at ha; cases ha
  · intro hn
    by_cases h : ∃ a, P.sat a = true ∧ ∀ b : RPoint, P.sat b = true → P.objective a ≤ P.objective b
    · simp only [dif_pos h] at hn; cases hn
    · simp only [dif_neg h] at hn
      by_cases h2 : ∀ b : RPoint, P.sat b = false
      · exact h2
      · rw [if_neg h2] at hn; cases hn

/-- THE RETURNED β.  Assume only that the solver, when it reports OPTIMAL, returns an objective-minimal point of the program it
    was given (`RSolverSpec`).  Then for the point `rp` returned for the program of `priceable(…, relaxation=R)`:
     (a) `rp` read as (allocation, voter budget, payments) is a price system that is stable w.r.t. the relaxed costs
         `get_relaxed_cost` computes from `rp`'s own β; the relaxed validator accepts it; the β-variables lie in the class's domain;
     (b) the objective value at `rp` is the number `get_beta` reports;
     (c) that number is the LEAST one: every price system `X` of the same election that respects the call (`Asks`: the given
         allocation, a hard-coded voter budget / payments), is stable w.r.t. the relaxed costs of ANY parameters `(β, βv)` in the
         class's domain and fits under the big-M constants (`BoundedR`) has `get_beta`-value ≥ the returned one. -/
theorem relaxed_optimum_spec (solve : RProgram → RAnswer) (hS : RSolverSpec solve) (E : Elec) (R : Relax) (cfg : Cfg) (rp : RPoint)
    (h : solve (rprogram E R cfg) = RAnswer.optimal rp) :
    (ExactRelaxed (toInput E rp.base) (rcOf E R rp) cfg.stable cfg.exhaustive ∧
      validateRelaxed (toInput E rp.base) (rcOf E R rp) cfg.stable cfg.exhaustive = true ∧
      Domain E R rp.base.x rp.beta rp.betac) ∧
    (rprogram E R cfg).objective rp = getBeta E R rp ∧
    (∀ (X : Input) (β : Rat) (βv : Pid → Rat), ofInput X = E →
      ExactRelaxed X (rcK R X.cost β βv) cfg.stable cfg.exhaustive → WellFormed X cfg.exhaustive → Asks cfg X → 0 ≤ X.b →
      (cfg.exhaustive = false → cfg.given = none → X.budget ≤ (X.N.length : Rat) * X.b) →
      Domain (ofInput X) R (pointOf X).x β βv → BoundedR X cfg.stable (rcK R X.cost β βv) →
      getBeta E R rp ≤ betaK R X.C β βv) := by
  obtain ⟨hsat, hmin⟩ := (hS (rprogram E R cfg)).1 rp h
  have hs := relaxed_encoding_sound E R cfg rp hsat
  refine ⟨⟨hs.1, hs.2.2.1, hs.2.2.2.2.2.2.2.2⟩, objective_eq_getBeta E R cfg rp, ?_⟩
  intro X β βv hE Ex wf asks hb0 hne hdom hbd
  have hc := relaxed_encoding_complete_partial X cfg R β βv Ex wf asks hb0 hne hdom hbd
  subst hE
  have := hmin (rpointOf X β βv) hc.1
  rw [objective_eq_getBeta, objective_eq_getBeta, hc.2.2.2] at this
  exact this

/-- … with the big-M bound replaced by the supporters-count condition of `relaxed_encoding_complete` (voter budget free) -/
theorem relaxed_optimum_least_small (solve : RProgram → RAnswer) (hS : RSolverSpec solve) (E : Elec) (R : Relax) (cfg : Cfg)
    (rp : RPoint) (h : solve (rprogram E R cfg) = RAnswer.optimal rp) (hfb : cfg.fixB = none)
    (X : Input) (β : Rat) (βv : Pid → Rat) (hE : ofInput X = E)
    (Ex : ExactRelaxed X (rcK R X.cost β βv) cfg.stable cfg.exhaustive) (wf : WellFormed X cfg.exhaustive) (asks : Asks cfg X)
    (hb0 : 0 ≤ X.b) (hne : cfg.exhaustive = false → cfg.given = none → X.budget ≤ (X.N.length : Rat) * X.b)
    (hdom : Domain (ofInput X) R (pointOf X).x β βv)
    (hplain : cfg.stable = false → ∀ c ∈ X.W, ((X.N.filter (fun v => v.app c)).length : Rat) ≤ 10)
    (hstab : cfg.stable = true → ∀ c ∈ X.W,
      ((X.N.filter (fun v => v.app c)).length : Rat) * X.budget ≤ rcK R X.cost β βv c + 10 * X.budget) :
    getBeta E R rp ≤ betaK R X.C β βv := by
  obtain ⟨_, hmin⟩ := (hS (rprogram E R cfg)).1 rp h
  obtain ⟨rp', h1, _, _, _, _, _, h7⟩ := relaxed_encoding_complete X cfg R β βv Ex wf asks hfb hb0 hne hdom hplain hstab
  subst hE
  have := hmin rp' h1
  rw [objective_eq_getBeta, objective_eq_getBeta, h7] at this
  exact this

/-- status INFEASIBLE: no price system of the election that respects the call is stable w.r.t. the relaxed costs of any
    parameters in the class's domain and fits under the big-M constants -/
theorem relaxed_infeasible_spec (solve : RProgram → RAnswer) (hS : RSolverSpec solve) (E : Elec) (R : Relax) (cfg : Cfg)
    (h : solve (rprogram E R cfg) = RAnswer.infeasible)
    (X : Input) (β : Rat) (βv : Pid → Rat) (hE : ofInput X = E)
    (Ex : ExactRelaxed X (rcK R X.cost β βv) cfg.stable cfg.exhaustive) (wf : WellFormed X cfg.exhaustive) (asks : Asks cfg X)
    (hb0 : 0 ≤ X.b) (hne : cfg.exhaustive = false → cfg.given = none → X.budget ≤ (X.N.length : Rat) * X.b)
    (hdom : Domain (ofInput X) R (pointOf X).x β βv) (hbd : BoundedR X cfg.stable (rcK R X.cost β βv)) : False := by
  have hno := (hS (rprogram E R cfg)).2 h
  have hc := relaxed_encoding_complete_partial X cfg R β βv Ex wf asks hb0 hne hdom hbd
  subst hE
  have := hno (rpointOf X β βv)
  have h1 : (rprogram (ofInput X) R cfg).sat (rpointOf X β βv) = true := hc.1
  rw [h1] at this
  cases this

/-! ### monotone sanity: the neutral relaxation -/

/-- MinMul at β = 1: the relaxed rows are the plain rows — a point of the relaxed program with β = 1 is a point of the plain one -/
theorem rsat_mul_one (E : Elec) (cfg : Cfg) (rp : RPoint) (h : rsat E .mul cfg rp = true) (hβ : rp.beta = 1) :
    sat E cfg rp.base = true := by
  obtain ⟨F, _⟩ := (rsat_iff E .mul cfg rp).mp h
  rw [sat_iff, ← feasibleR_cost_iff]
  refine ⟨F.core, ?_⟩
  intro hs c hc
  have := F.s5 hs c hc
  have hrc : rcOf E .mul rp c = E.cost c := by
    show E.cost c * rp.beta = E.cost c
    rw [hβ]; ring
  rw [hrc] at this
  exact this

/-- … and conversely every point of the plain stable program is a point of the MinMul program with β = 1: whenever the plain
    stable search has a solution, an objective-minimal answer of the relaxed search has β ≤ 1 -/
theorem sat_rsat_mul_one (E : Elec) (cfg : Cfg) (pt : Point) (h : sat E cfg pt = true) :
    rsat E .mul cfg { base := pt, beta := 1, betac := fun _ => 0 } = true := by
  rw [rsat_iff]
  have F := (feasibleR_cost_iff E cfg pt).mpr ((sat_iff E cfg pt).mp h)
  refine ⟨⟨F.core, ?_⟩, ?_⟩
  · intro hs c hc
    have := F.s5 hs c hc
    have hrc : rcOf E .mul { base := pt, beta := 1, betac := fun _ => 0 } c = E.cost c := by
      show E.cost c * 1 = E.cost c
      ring
    rw [hrc]
    exact this
  · show (0 : Rat) ≤ 1
    norm_num

theorem relaxed_optimum_le_neutral_mul (solve : RProgram → RAnswer) (hS : RSolverSpec solve) (E : Elec) (cfg : Cfg) (rp : RPoint)
    (h : solve (rprogram E .mul cfg) = RAnswer.optimal rp) (pt : Point) (hpt : sat E cfg pt = true) : rp.beta ≤ 1 := by
  obtain ⟨_, hmin⟩ := (hS (rprogram E .mul cfg)).1 rp h
  have := hmin _ (sat_rsat_mul_one E cfg pt hpt)
  rw [objective_eq_getBeta, objective_eq_getBeta] at this
  exact this

/-! ### the unbounded statement is false -/

/-- completeness without the big-M bound (everything else as in `relaxed_encoding_complete`, the conclusion weakened to "some
    point with that allocation reports a β at most the given one" — what matters for the optimum) -/
def relaxed_encoding_complete_FullStatement : Prop :=
  ∀ (X : Input) (cfg : Cfg) (R : Relax) (β : Rat) (βv : Pid → Rat),
    ExactRelaxed X (rcK R X.cost β βv) cfg.stable cfg.exhaustive → WellFormed X cfg.exhaustive → Asks cfg X → cfg.fixB = none →
    0 ≤ X.b → (cfg.exhaustive = false → cfg.given = none → X.budget ≤ (X.N.length : Rat) * X.b) →
    Domain (ofInput X) R (pointOf X).x β βv →
    ∃ rp, rsat (ofInput X) R cfg rp = true ∧ (∀ c, rp.base.x c = if X.W.contains c then 1 else 0) ∧
      getBeta (ofInput X) R rp ≤ betaK R X.C β βv

/-- two voters, project 0 (cost 3, approved and paid by voter 0), project 1 (cost 1, approved and paid by voter 1), budget 4, both
    selected, voter budget 3 -/
def XDeg : Input :=
  { C := [0, 1], cost := fun c => if c = 0 then 3 else 1, budget := 4, W := [0, 1],
    N := [{ app := fun c => c == 0, pay := fun c => if c = 0 then 3 else 0 },
          { app := fun c => c == 1, pay := fun c => if c = 1 then 1 else 0 }],
    b := 3 }

/-- every project is selected: the pair is a price system that is stable w.r.t. ANY relaxed costs; in particular MinAdd's with
    β = −INF = −40, the least value its domain allows -/
theorem XDeg_exactRelaxed (rc : Pid → Rat) : ExactRelaxed XDeg rc true true := by
  rw [← exactRelaxed_iff]
  have h : exactRelaxed XDeg rc true true = exactRelaxed XDeg XDeg.cost true true :=
    exactRelaxed_congr XDeg rc XDeg.cost true true (fun c hc => by
      have : XDeg.NW = [] := by decide
      rw [this] at hc
      cases hc)
  rw [h]
  decide +kernel

theorem XDeg_wellFormed : WellFormed XDeg true :=
  { within := (by unfold WithinInstance; decide),
    costNonneg := by
      intro c _
      show (0 : Rat) ≤ if c = 0 then 3 else 1
      split <;> norm_num,
    intBudget := fun _ => ⟨4, by norm_num [XDeg]⟩,
    intCost := by
      intro _ c _
      show ∃ k : Int, (if c = 0 then (3 : Rat) else 1) = k
      by_cases h : c = 0
      · exact ⟨3, by rw [if_pos h]; norm_num⟩
      · exact ⟨1, by rw [if_neg h]; norm_num⟩,
    budgetPos := fun _ => by norm_num [XDeg],
    affordable := by
      intro c hc
      have : XDeg.NW = [] := by decide
      rw [this] at hc
      cases hc }

/-- … but every point of the MinAdd program that selects both projects has β ≥ −39: voter 0 alone pays the 3 of project 0, so
    the common voter budget is ≥ 3; voter 1 spends at most 1, keeps ≥ 2, and the relaxed S5 row of the SELECTED project 1 reads
    `m_1 ≤ 1 + β + INF` (replayed on the real library: `priceable(…, relaxation=MinAdd)` returns β = −39, not −40) -/
theorem XDeg_beta_bound (e : Bool) (given : Option (List Pid)) (rp : RPoint)
    (h : rsat (ofInput XDeg) .add { stable := true, exhaustive := e, given := given } rp = true)
    (hx0 : rp.base.x 0 = 1) (hx1 : rp.base.x 1 = 1) : -39 ≤ rp.beta := by
  obtain ⟨F, _⟩ := (rsat_iff _ _ _ _).mp h
  have hv : voters (ofInput XDeg) = [(fun c => c == 0, 0), (fun c => c == 1, 1)] := rfl
  have hm0 : ((fun c => c == 0, 0) : (Pid → Bool) × Nat) ∈ voters (ofInput XDeg) := by rw [hv]; simp
  have hm1 : ((fun c => c == 1, 1) : (Pid → Bool) × Nat) ∈ voters (ofInput XDeg) := by rw [hv]; simp
  have hC : (ofInput XDeg).C = [0, 1] := rfl
  have hc0 : (0 : Pid) ∈ (ofInput XDeg).C := by rw [hC]; simp
  have hc1 : (1 : Pid) ∈ (ofInput XDeg).C := by rw [hC]; simp
  have hINF : INF (ofInput XDeg) = 40 := by norm_num [INF, ofInput, XDeg]
  -- project 0 is paid in full, by voter 0 alone
  have h3b := F.core.c3b 0 hc0
  rw [hx0] at h3b
  have hpaid0 : paidP (ofInput XDeg) rp.base 0 = rp.base.p 0 0 + (rp.base.p 1 0 + 0) := rfl
  have hp10 : rp.base.p 1 0 = 0 := F.core.c1 _ hm1 0 hc0 rfl
  have hcost0 : (ofInput XDeg).cost 0 = 3 := rfl
  rw [hpaid0, hp10, hcost0] at h3b
  -- so the voter budget is at least 3
  have h2 := F.core.c2 _ hm0
  have hsp0 : spentP (ofInput XDeg) rp.base 0 = rp.base.p 0 0 + (rp.base.p 0 1 + 0) := rfl
  have hp01 : 0 ≤ rp.base.p 0 1 := F.core.bnd_p _ hm0 1 hc1
  have h2' : rp.base.p 0 0 + (rp.base.p 0 1 + 0) ≤ rp.base.b := by rw [← hsp0]; exact h2
  -- voter 1 spends at most 1
  have h3a := F.core.c3a 1 hc1
  have hpaid1 : paidP (ofInput XDeg) rp.base 1 = rp.base.p 0 1 + (rp.base.p 1 1 + 0) := rfl
  have hcost1 : (ofInput XDeg).cost 1 = 1 := rfl
  rw [hpaid1, hcost1] at h3a
  have hsp1 : spentP (ofInput XDeg) rp.base 1 = rp.base.p 1 0 + (rp.base.p 1 1 + 0) := rfl
  have hm2 := F.core.m2 rfl _ hm1
  have hm2' : rp.base.b - (rp.base.p 1 0 + (rp.base.p 1 1 + 0)) ≤ rp.base.m 1 := by rw [← hsp1]; exact hm2
  -- the relaxed S5 row of project 1
  have h5 := F.s5 rfl 1 hc1
  have hsupp : supp (ofInput XDeg) 1 = [(fun c => c == 1, 1)] := by
    unfold supp; rw [hv]; rfl
  rw [hsupp, hx1, hINF] at h5
  have h5' : rp.base.m 1 + 0 ≤ (1 + rp.beta) + 1 * 40 := h5
  linarith

/-- the unbounded completeness statement is false -/
theorem relaxed_encoding_complete_FullStatement_false : ¬ relaxed_encoding_complete_FullStatement := by
  intro H
  obtain ⟨rp, hs, hx, hβ⟩ := H XDeg { stable := true, exhaustive := true, given := some [0, 1] } .add (-40) (fun _ => 0)
    (XDeg_exactRelaxed _) XDeg_wellFormed
    { given := fun W' h => (by cases h; rfl), fixB := fun vb h => (by cases h), fixP := fun pf h => (by cases h) }
    rfl (by norm_num [XDeg]) (fun h => by cases h)
    (by show -((4 : Rat) * 10) ≤ -40; norm_num)
  have hx0 : rp.base.x 0 = 1 := by rw [hx 0]; rfl
  have hx1 : rp.base.x 1 = 1 := by rw [hx 1]; rfl
  have hb := XDeg_beta_bound true _ rp hs hx0 hx1
  have hβ' : rp.beta ≤ -40 := hβ
  linarith

/-- the point of the program that attains −39 (so −39 is what an objective-optimal solver returns for this allocation) -/
theorem XDeg_attains : rsat (ofInput XDeg) .add { stable := true, exhaustive := true, given := some [0, 1] }
    (rpointOf XDeg (-39) (fun _ => 0)) = true := by
  decide +kernel

/-! ### the hypotheses are satisfiable: the election of C12.lean (two voters share project 0, project 1 stays out) -/

/-- MinMul, β = 1/3 (C12Relax.exInput_minMul_third): the executable test accepts the encoding point … -/
theorem exInput_rsat_mul : rsat (ofInput (exInput 1 1 1)) .mul { stable := true, exhaustive := true, given := some [0] }
    (rpointOf (exInput 1 1 1) (1 / 3) (fun _ => 0)) = true := by
  decide +kernel

/-- … a smaller β is possible with another price system (voter budget 4/3, payments 4/3 and 2/3: β = 2/9, the value CBC returns) -/
theorem exInput_rsat_mul_better : rsat (ofInput (exInput 1 1 1)) .mul { stable := true, exhaustive := true, given := some [0] }
    (rpointOf (exInput (4 / 3) (4 / 3) (2 / 3)) (2 / 9) (fun _ => 0)) = true := by
  decide +kernel

/-- MinAdd, β = −2 (C12Relax.exInput_minAdd_minus_two) -/
theorem exInput_rsat_add : rsat (ofInput (exInput 1 1 1)) .add { stable := true, exhaustive := true, given := some [0] }
    (rpointOf (exInput 1 1 1) (-2) (fun _ => 0)) = true := by
  decide +kernel

/-- the other three classes on the same price system: β_1 = −2 (MinAddVector), β ≡ 0 (MinAddVectorPositive; the pair is stable),
    β = −21/10 with β_1 = 1/10 = budget/40 (MinAddOffset) -/
example : rsat (ofInput (exInput 1 1 1)) .vec { stable := true, exhaustive := true, given := some [0] }
    (rpointOf (exInput 1 1 1) 0 (fun c => if c = 1 then -2 else 0)) = true := by
  decide +kernel

example : rsat (ofInput (exInput 1 1 1)) .vecpos { stable := true, exhaustive := true, given := none }
    (rpointOf (exInput 1 1 1) 0 (fun _ => 0)) = true := by
  decide +kernel

example : rsat (ofInput (exInput 1 1 1)) .off { stable := true, exhaustive := true, given := some [0] }
    (rpointOf (exInput 1 1 1) (-21 / 10) (fun c => if c = 1 then 1 / 10 else 0)) = true := by
  decide +kernel

/-- … and rejects a β that is too small -/
example : rsat (ofInput (exInput 1 1 1)) .mul { stable := true, exhaustive := true, given := some [0] }
    (rpointOf (exInput 1 1 1) (1 / 4) (fun _ => 0)) = false := by
  decide +kernel

/-- soundness applied: a feasible point ⇒ a relaxed price system that the relaxed validator accepts, with the relaxed cost
    `cost·β` of MinMul -/
example : ExactRelaxed (toInput (ofInput (exInput 1 1 1)) (pointOf (exInput 1 1 1))) (rcMinMul (exInput 1 1 1).cost (1 / 3)) true true ∧
    validateRelaxed (toInput (ofInput (exInput 1 1 1)) (pointOf (exInput 1 1 1))) (rcMinMul (exInput 1 1 1).cost (1 / 3)) true true = true :=
  let h := relaxed_encoding_sound (ofInput (exInput 1 1 1)) .mul { stable := true, exhaustive := true, given := some [0] }
    (rpointOf (exInput 1 1 1) (1 / 3) (fun _ => 0)) exInput_rsat_mul
  ⟨h.1, h.2.2.1⟩

example : ExactRelaxed (toInput (ofInput (exInput 1 1 1)) (pointOf (exInput 1 1 1))) (rcMinAdd (exInput 1 1 1).cost (-2)) true true :=
  (relaxed_encoding_sound_add (ofInput (exInput 1 1 1)) { stable := true, exhaustive := true, given := some [0] }
    (rpointOf (exInput 1 1 1) (-2) (fun _ => 0)) exInput_rsat_add).1

/-- completeness applied, all hypotheses discharged: MinMul through `relaxed_encoding_complete_mul` … -/
example : ∃ rp, rsat (ofInput (exInput 1 1 1)) .mul { stable := true, exhaustive := true, given := some [0] } rp = true ∧
    (∀ c, rp.base.x c = if (exInput 1 1 1).W.contains c then 1 else 0) ∧ (∀ i, rp.base.p i = (pointOf (exInput 1 1 1)).p i) ∧
    rp.base.b ≤ (exInput 1 1 1).budget ∧ rp.beta = 1 / 3 :=
  relaxed_encoding_complete_mul (exInput 1 1 1) { stable := true, exhaustive := true, given := some [0] } (1 / 3) exInput_minMul_third
    (exInput_wellFormed true)
    { given := fun W' h => (by cases h; rfl), fixB := fun vb h => (by cases h), fixP := fun pf h => (by cases h) }
    rfl (by norm_num [exInput]) (fun h => by cases h) (by norm_num) (by decide)

/-- … MinAdd through `relaxed_encoding_complete` (2 supporters · budget 4 ≤ (2 − 2) + 40) -/
example : ∃ rp, rsat (ofInput (exInput 1 1 1)) .add { stable := true, exhaustive := true, given := some [0] } rp = true ∧
    (∀ c, rp.base.x c = if (exInput 1 1 1).W.contains c then 1 else 0) ∧ (∀ i, rp.base.p i = (pointOf (exInput 1 1 1)).p i) ∧
    rp.base.b ≤ (exInput 1 1 1).budget ∧ rp.beta = -2 ∧ rp.betac = (fun _ => 0) ∧
    getBeta (ofInput (exInput 1 1 1)) .add rp = -2 :=
  relaxed_encoding_complete (exInput 1 1 1) { stable := true, exhaustive := true, given := some [0] } .add (-2) (fun _ => 0)
    exInput_minAdd_minus_two (exInput_wellFormed true)
    { given := fun W' h => (by cases h; rfl), fixB := fun vb h => (by cases h), fixP := fun pf h => (by cases h) }
    rfl (by norm_num [exInput]) (fun h => by cases h)
    (by show -((4 : Rat) * 10) ≤ -2; norm_num) (fun h => by cases h)
    (by
      intro _ c hc
      have hc' : c = 0 := by
        have : c ∈ [0] := hc
        simpa using this
      subst hc'
      have hlen : ((exInput 1 1 1).N.filter (fun v => v.app 0)).length = 2 := by decide
      rw [hlen]
      norm_num [rcK, rcMinAdd, exInput])

/-- the hypotheses of `relaxed_optimum_spec` (c) hold for this price system: `BoundedR` -/
example : BoundedR (exInput 1 1 1) true (rcK .mul (exInput 1 1 1).cost (1 / 3) (fun _ => 0)) :=
  { plain := fun h => (by cases h),
    stab := by
      intro _ c hc
      have hc' : c = 0 := by
        have : c ∈ [0] := hc
        simpa using this
      subst hc'
      norm_num [rcK, rcMinMul, exInput, stableOf, leftover, maxPayment, spent, sumOver, maxRat, List.filter] }

end Pabu.PriceMIP
