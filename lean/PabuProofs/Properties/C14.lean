/-
  C14 — the proportionality checkers decide their definitions, and the definitions form the known lattice
  core ⇒ EJR ⇒ PJR,  strong ⇒ plain ⇒ up-to-any ⇒ up-to-one.
  "Equal Shares satisfies EJR up to one / any" is stated here and proved in Properties/C14Mes.lean.
-/
import PabuProofs.Lemmas.JR
import PabuModel.MES
namespace Pabu.JR
open Pabu List

/-- every one of the ten checkers (core / strong-EJR / EJR / PJR with the `up_to_func` variants, approval
    and cardinal), run on entries (ballot, multiplicity), answers as the definition over all groups of
    individual voters of the expanded profile -/
theorem checker_eq_definition' (E : Setting) (M : List (Voter × Nat)) (card : Bool) (k : Kind) (up : UpTo) (W : List Pid)
    (hB : 0 ≤ E.budget) (hpos : ∀ e ∈ M, 1 ≤ e.2) :
    checker E M card k up W = definition E M card k up W :=
  checker_eq_definition E M card k up W hB hpos

/-- … i.e. it returns `true` exactly when the allocation satisfies the notion -/
theorem checker_decides (E : Setting) (M : List (Voter × Nat)) (card : Bool) (k : Kind) (up : UpTo) (W : List Pid)
    (hB : 0 ≤ E.budget) (hpos : ∀ e ∈ M, 1 ≤ e.2) :
    checker E M card k up W = true ↔ Satisfies E (expand M) card k up W :=
  checker_iff_satisfies E M card k up W hB hpos

/-- hence Profile and MultiProfile give the same answer: any two entry lists that stand for the same voters -/
theorem checker_profile_eq_multiprofile (E : Setting) (M M' : List (Voter × Nat)) (card : Bool) (k : Kind) (up : UpTo)
    (W : List Pid) (hB : 0 ≤ E.budget) (hpos : ∀ e ∈ M, 1 ≤ e.2) (hpos' : ∀ e ∈ M', 1 ≤ e.2)
    (h : expand M = expand M') : checker E M card k up W = checker E M' card k up W := by
  rw [checker_eq_definition E M card k up W hB hpos, checker_eq_definition E M' card k up W hB hpos']
  unfold definition
  rw [h]

/-! ### the implication lattice, on the definitions -/

/-- core ⇒ EJR (same surplus variant; approval and cardinal) -/
theorem core_imp_EJR (E : Setting) (V : List Voter) (card : Bool) (up : UpTo) (W : List Pid)
    (h : Satisfies E V card .core up W) : Satisfies E V card .ejr up W := by
  intro S hS T hT ha
  obtain ⟨hl, hne, _, _⟩ := ha
  obtain ⟨v, hv, hok⟩ := h S hS T hT ⟨hl, hne⟩
  refine ⟨v, hv, ?_⟩
  unfold VoterOkP at hok ⊢
  have hthr : threshold card .ejr S T v ≤ threshold card .core S T v := by
    show (if card = true then sumOver T (minOver S) else satV v T) ≤ satV v T
    by_cases hc : card = true
    · rw [if_pos hc]
      exact sumOver_le T _ _ (fun p _ => minOver_le S v hv p)
    · rw [if_neg hc]
  linarith

/-- strong EJR ⇒ EJR -/
theorem strong_imp_plain (E : Setting) (V : List Voter) (card : Bool) (up : UpTo) (W : List Pid)
    (h : Satisfies E V card .strong up W) : Satisfies E V card .ejr .none W := by
  intro S hS T hT ha
  have hg := h S hS T hT ha
  obtain ⟨_, hne, _, _⟩ := ha
  cases S with
  | nil => exact absurd rfl hne
  | cons v r => exact ⟨v, by simp, hg v (by simp)⟩

/-- plain ⇒ up to any project, when satisfactions are non-negative -/
theorem plain_imp_any (E : Setting) (V : List Voter) (card : Bool) (k : Kind) (W : List Pid)
    (hu : ∀ v ∈ V, ∀ p, 0 ≤ v.u p) (hfull : ∀ p, 0 ≤ E.full p)
    (h : Satisfies E V card k .none W) : Satisfies E V card k .any W := by
  intro S hS T hT ha
  apply goodP_mono E card k .none .any W S T _ _ _ (h S hS T hT ha)
  · intro v hv
    apply surplus_none_le_any
    intro x hx
    obtain ⟨p, _, rfl⟩ := List.mem_map.mp hx
    exact hu v (hS.subset hv) p
  · apply surplus_none_le_any
    intro x hx
    obtain ⟨p, _, rfl⟩ := List.mem_map.mp hx
    exact maxOver_nonneg S p (fun v hv => hu v (hS.subset hv) p)
  · apply surplus_none_le_any
    intro x hx
    obtain ⟨p, _, rfl⟩ := List.mem_map.mp hx
    exact hfull p

/-- up to any project ⇒ up to one project -/
theorem any_imp_one (E : Setting) (V : List Voter) (card : Bool) (k : Kind) (W : List Pid)
    (h : Satisfies E V card k .any W) : Satisfies E V card k .one W := by
  intro S hS T hT ha
  exact goodP_mono E card k .any .one W S T (fun _ _ => surplus_any_le_one _) (surplus_any_le_one _) (surplus_any_le_one _)
    (h S hS T hT ha)

/-- EJR ⇒ PJR for approval ballots under a measure whose per-project value does not depend on the voter
    (`u v p = full p` if `v` approves `p`, else 0 — Cost_Sat, Cardinality_Sat), same surplus variant -/
theorem EJR_imp_PJR (E : Setting) (V : List Voter) (up : UpTo) (W : List Pid)
    (hu : ∀ v ∈ V, ∀ p, v.u p = if v.app p = true then E.full p else 0) (hfull : ∀ p, 0 ≤ E.full p)
    (h : Satisfies E V false .ejr up W) : Satisfies E V false .pjr up W := by
  intro S hS T hT ha
  obtain ⟨v, hv, hok⟩ := h S hS T hT ha
  obtain ⟨_, _, _, hun⟩ := ha
  have hun' : ∀ w ∈ S, ∀ p ∈ T, w.app p = true := by
    rcases hun with hc | hc
    · cases hc
    · exact hc
  have hvV : v ∈ V := hS.subset hv
  have huT : ∀ p ∈ T, v.u p = E.full p := fun p hp => by rw [hu v hvV p, if_pos (hun' v hv p hp)]
  unfold VoterOkP at hok
  have h1 : threshold false .ejr S T v = sumOver T E.full := by
    show (if false = true then sumOver T (minOver S) else satV v T) = sumOver T E.full
    rw [if_neg (by simp)]
    exact sumOver_congr T _ _ huT
  have h2 : (missing W T).map v.u = (missing W T).map E.full := by
    apply List.map_congr_left
    intro p hp
    exact huT p (List.mem_of_mem_filter hp)
  have h3 := satV_le_groupApproved E.full hfull S v hv (hu v hvV) W
  rw [goodP_pjr_app]
  rw [h1, h2] at hok
  linarith

/-- EJR ⇒ PJR for cardinal ballots (additive scores), same surplus variant -/
theorem EJR_imp_PJR_cardinal (E : Setting) (V : List Voter) (up : UpTo) (W : List Pid)
    (h : Satisfies E V true .ejr up W) : Satisfies E V true .pjr up W := by
  intro S hS T hT ha
  obtain ⟨v, hv, hok⟩ := h S hS T hT ha
  unfold VoterOkP at hok
  have h1 : threshold true .ejr S T v = sumOver T (minOver S) := rfl
  have h2 : satV v W ≤ sumOver W (maxOver S) := sumOver_le W _ _ (fun p _ => le_maxOver S v hv p)
  have h3 := surplus_map_mono up (missing W T) v.u (maxOver S) (fun p _ => le_maxOver S v hv p)
  rw [goodP_pjr_card]
  rw [h1] at hok
  linarith

/-- cardinal EJR quantifies over all score vectors α the group can claim (every member scores `p ∈ T` at least
    `α p`); checking the pointwise-largest one, `α = min over the group`, as the library does, decides it -/
theorem alpha_max_suffices (E : Setting) (V : List Voter) (up : UpTo) (W : List Pid) :
    Satisfies E V true .ejr up W ↔
      ∀ S, S <+ V → ∀ T, T <+ E.projects → ∀ α : Pid → Rat, Large E S T → S ≠ [] → T ≠ [] →
        (∀ v ∈ S, ∀ p ∈ T, α p ≤ v.u p) →
        ∃ v ∈ S, sumOver T α ≤ satV v W + surplus up ((missing W T).map v.u) := by
  constructor
  · intro h S hS T hT α hl hne hT0 hα
    obtain ⟨v, hv, hok⟩ := h S hS T hT ⟨hl, hne, hT0, Or.inl rfl⟩
    refine ⟨v, hv, ?_⟩
    unfold VoterOkP at hok
    have h1 : threshold true .ejr S T v = sumOver T (minOver S) := rfl
    rw [h1] at hok
    have h2 : sumOver T α ≤ sumOver T (minOver S) :=
      sumOver_le T _ _ (fun p hp => le_minOver S hne p (α p) (fun v hv => hα v hv p hp))
    linarith
  · intro h S hS T hT ha
    obtain ⟨hl, hne, hT0, _⟩ := ha
    obtain ⟨v, hv, hok⟩ := h S hS T hT (minOver S) hl hne hT0 (fun v hv p _ => minOver_le S v hv p)
    exact ⟨v, hv, hok⟩

/-- the whole chain on the library's answers: whenever a checker says yes, the weaker ones say yes -/
theorem checker_lattice (E : Setting) (M : List (Voter × Nat)) (card : Bool) (W : List Pid)
    (hB : 0 ≤ E.budget) (hpos : ∀ e ∈ M, 1 ≤ e.2)
    (hu : ∀ v ∈ expand M, ∀ p, 0 ≤ v.u p) (hfull : ∀ p, 0 ≤ E.full p) (k : Kind) :
    (checker E M card k .none W = true → checker E M card k .any W = true) ∧
    (checker E M card k .any W = true → checker E M card k .one W = true) ∧
    (checker E M card .core .none W = true → checker E M card .ejr .none W = true) ∧
    (checker E M card .strong .none W = true → checker E M card .ejr .none W = true) := by
  simp only [checker_iff_satisfies E M card _ _ W hB hpos]
  exact ⟨plain_imp_any E _ card k W hu hfull, any_imp_one E _ card k W, core_imp_EJR E _ card .none W,
    strong_imp_plain E _ card .none W⟩

/-! ### Equal Shares (stated here; proved, with the hypotheses on the tie-breaking function it needs, in C14Mes) -/

/-- the voters of an approval profile under `Cost_Sat` (`byCost = true`) or `Cardinality_Sat` -/
def approvalVoters (cost : Pid → Rat) (byCost : Bool) (P : List ((Pid → Bool) × Nat)) : List (Voter × Nat) :=
  P.map (fun e => ({ app := e.1, u := fun p => if e.1 p = true then (if byCost then cost p else 1) else 0 }, e.2))

def mesVCtx (cost : Pid → Rat) (byCost : Bool) (P : List ((Pid → Bool) × Nat)) : VCtx :=
  { vs := List.range P.length, m := fun i => (P[i]?.map Prod.snd).getD 0,
    u := fun i p => match P[i]? with
      | some e => if e.1 p = true then (if byCost then cost p else 1) else 0
      | none => 0 }

def settingOf (I : Inst) (byCost : Bool) (P : List ((Pid → Bool) × Nat)) : Setting :=
  { n := sumNat P (fun e => e.2), budget := I.budget, cost := I.cost, projects := I.projects,
    full := fun p => if byCost then I.cost p else 1 }

/-- Equal Shares with cost satisfaction satisfies EJR up to any project, with cardinality satisfaction EJR up
    to one project (positive costs, positive budget, at least one voter) -/
def mes_EJR_x_FullStatement : Prop :=
  ∀ (I : Inst) (P : List ((Pid → Bool) × Nat)) (order : List Pid → Except Err (List Pid)) (W : List Pid) (byCost : Bool),
    (∀ p ∈ I.projects, 0 < I.cost p) → 0 < I.budget → I.projects.Nodup → (∀ e ∈ P, 1 ≤ e.2) → P ≠ [] →
    MES.run (mesVCtx I.cost byCost P) I [] order = .ok W →
    Satisfies (settingOf I byCost P) (expand (approvalVoters I.cost byCost P)) false .ejr
      (if byCost then .any else .one) W

/-! ### the hypotheses are satisfiable: three voters, two of them (one entry of multiplicity 2) agree on project 0 -/

def exSetting : Setting :=
  { n := 3, budget := 3, cost := fun p => if p = 0 then 2 else 1, projects := [0, 1], full := fun p => if p = 0 then 2 else 1 }

def exA : Voter := { app := fun p => p = 0, u := fun p => if p = 0 then 2 else 0 }
def exB : Voter := { app := fun p => p = 1, u := fun p => if p = 1 then 1 else 0 }

def exM : List (Voter × Nat) := [(exA, 2), (exB, 1)]

example : 0 ≤ exSetting.budget ∧ (∀ e ∈ exM, 1 ≤ e.2) := by
  constructor
  · norm_num [exSetting]
  · intro e he; simp [exM] at he; rcases he with rfl | rfl <;> simp

/-- the entry (exA, 2) is `{0}`-cohesive (2·3 ≤ 2·3) and (exB, 1) is `{1}`-cohesive (1·3 ≤ 1·3), so EJR fails for `[0]` and holds for `[0, 1]` -/
theorem ex_checker_values :
    checker exSetting exM false .ejr .none [0] = false ∧ checker exSetting exM false .ejr .none [0, 1] = true := by
  constructor <;> decide +kernel

theorem ex_not_satisfies : ¬ Satisfies exSetting (expand exM) false .ejr .none [0] := by
  rw [← checker_decides exSetting exM false .ejr .none [0] (by norm_num [exSetting])
    (by intro e he; simp [exM] at he; rcases he with rfl | rfl <;> simp)]
  rw [ex_checker_values.1]
  simp

theorem ex_satisfies : Satisfies exSetting (expand exM) false .ejr .none [0, 1] := by
  rw [← checker_decides exSetting exM false .ejr .none [0, 1] (by norm_num [exSetting])
    (by intro e he; simp [exM] at he; rcases he with rfl | rfl <;> simp)]
  exact ex_checker_values.2

end Pabu.JR
