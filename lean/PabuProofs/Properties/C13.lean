/-
  C13 — outcomes are a function of the election alone (model side; the presentation clauses:
  enumeration order of tied / candidate sets (the hash-seed clause), insertion order of the
  projects, order of the voters).  Proofs are in PabuProofs/Lemmas/Tie.lean.

  Not covered by this file: the scaling clause of C13 (costs and budget × λ) and the welfare
  maximiser.
-/
import PabuProofs.Lemmas.Tie
import PabuModel.Sat
namespace Pabu.C13
open Pabu Pabu.TieL

/-! ### Enumeration order of tied sets (the hash-seed clause) -/

/-- the tie-breaking order of a set of tied projects does not depend on the order in which the
    set was enumerated: every rule (including `refuse`), every cost and score table -/
theorem order_enum_irrelevant (t : Tie) (cost : Pid → Rat) (score : Pid → Nat)
    {l₁ l₂ : List Pid} (h : l₁.Perm l₂) : Tie.order t cost score l₁ = Tie.order t cost score l₂ :=
  Tie.order_perm_eq t cost score h

/-- … because the name sort that precedes the stable key sort returns the same list -/
theorem sortIds_enum_irrelevant {l₁ l₂ : List Pid} (h : l₁.Perm l₂) : sortIds l₁ = sortIds l₂ :=
  Sorting.sortIds_unique h

/-- … also through Equal Shares' "only ask on a real tie" wrapper -/
theorem orderIfTie_enum_irrelevant (t : Tie) (cost : Pid → Rat) (score : Pid → Nat)
    {l₁ l₂ : List Pid} (h : l₁.Perm l₂) :
    MES.orderIfTie (Tie.order t cost score) l₁ = MES.orderIfTie (Tie.order t cost score) l₂ :=
  orderIfTie_perm_eq (fun _ _ h => Tie.order_perm_eq t cost score h) _ _ h

/-- whole runs: replace the tied-set computation of a round rule by ANY enumeration `enum` of
    the same sets (one permutation per state: this is what a hash seed chooses); the resolute and
    the irresolute `Except` runs under every tie-breaking rule are unchanged, errors included -/
theorem run_enum_irrelevant {σ : Type} (R : RoundRule σ) (enum : σ → List Pid)
    (henum : ∀ s, (enum s).Perm (R.tied s)) (t : Tie) (cost : Pid → Rat) (score : Pid → Nat)
    (n : Nat) (s : σ) :
    (R.withTied enum).run (Tie.order t cost score) n s = R.run (Tie.order t cost score) n s ∧
    (R.withTied enum).runAll (Tie.order t cost score) n s =
      R.runAll (Tie.order t cost score) n s :=
  ⟨R.run_withTied enum henum _ (fun _ _ h => Tie.order_perm_eq t cost score h)
      (Tie.order_mem t cost score) n s,
   R.runAll_withTied enum henum _ (fun _ _ h => Tie.order_perm_eq t cost score h)
      (Tie.order_mem t cost score) n s⟩

/-- the same for Equal Shares, whose runs consult the rule through `orderIfTie` -/
theorem run_enum_irrelevant_ifTie {σ : Type} (R : RoundRule σ) (enum : σ → List Pid)
    (henum : ∀ s, (enum s).Perm (R.tied s)) (t : Tie) (cost : Pid → Rat) (score : Pid → Nat)
    (n : Nat) (s : σ) :
    (R.withTied enum).run (MES.orderIfTie (Tie.order t cost score)) n s =
      R.run (MES.orderIfTie (Tie.order t cost score)) n s ∧
    (R.withTied enum).runAll (MES.orderIfTie (Tie.order t cost score)) n s =
      R.runAll (MES.orderIfTie (Tie.order t cost score)) n s :=
  ⟨R.run_withTied enum henum _
      (orderIfTie_perm_eq (fun _ _ h => Tie.order_perm_eq t cost score h))
      (MES.orderIfTie_mem (Tie.order_mem t cost score)) n s,
   R.runAll_withTied enum henum _
      (orderIfTie_perm_eq (fun _ _ h => Tie.order_perm_eq t cost score h))
      (MES.orderIfTie_mem (Tie.order_mem t cost score)) n s⟩

/-! ### Insertion order of the projects -/

/-- the candidate pools are built from the name-sorted projects -/
theorem initPool_perm (V : VCtx) {ps ps' : List Pid} (h : ps.Perm ps') (c : Pid → Rat) (B : Rat)
    (init : List Pid) :
    MES.initPool V ⟨ps, c, B⟩ init = MES.initPool V ⟨ps', c, B⟩ init ∧
      MES.zeroCost V ⟨ps, c, B⟩ init = MES.zeroCost V ⟨ps', c, B⟩ init := by
  unfold MES.initPool MES.zeroCost
  simp only [Sorting.sortIds_unique h, and_self]

theorem initState_perm (V : VCtx) {ps ps' : List Pid} (h : ps.Perm ps') (c : Pid → Rat) (B : Rat)
    (init : List Pid) (loads : Nat → Rat) (C : Phragmen.Ctx) (b0 : Rat) :
    MES.initState V ⟨ps, c, B⟩ init b0 = MES.initState V ⟨ps', c, B⟩ init b0 ∧
      Greedy.initState ⟨ps, c, B⟩ init = Greedy.initState ⟨ps', c, B⟩ init ∧
      Phragmen.initState C ps init loads = Phragmen.initState C ps' init loads := by
  unfold MES.initState Greedy.initState Phragmen.initState
  rw [(initPool_perm V h c B init).1, (initPool_perm V h c B init).2]
  simp only [Sorting.sortIds_unique h, and_self]

/-- Equal Shares (plain; resolute and irresolute; any tie-breaking function) -/
theorem perm_projects_mes (V : VCtx) {ps ps' : List Pid} (h : ps.Perm ps') (c : Pid → Rat)
    (B : Rat) (init : List Pid) (order : List Pid → Except Err (List Pid)) :
    MES.run V ⟨ps, c, B⟩ init order = MES.run V ⟨ps', c, B⟩ init order ∧
      MES.runAll V ⟨ps, c, B⟩ init order = MES.runAll V ⟨ps', c, B⟩ init order := by
  unfold MES.run MES.runAll MES.runAt MES.runAllAt
  rw [(initPool_perm V h c B init).1, (initState_perm V h c B init (fun _ => 0) ⟨[], fun _ => 0,
    fun _ _ => false, c, B⟩ _).1]
  exact ⟨rfl, rfl⟩

/-- greedy (general path, resolute and irresolute, and the additive fast path) -/
theorem perm_projects_greedy (tsat : List Pid → Rat) (score : Pid → Rat) {ps ps' : List Pid}
    (h : ps.Perm ps') (c : Pid → Rat) (B : Rat) (init : List Pid)
    (order : List Pid → Except Err (List Pid)) :
    Greedy.general tsat ⟨ps, c, B⟩ init order = Greedy.general tsat ⟨ps', c, B⟩ init order ∧
      Greedy.generalAll tsat ⟨ps, c, B⟩ init order =
        Greedy.generalAll tsat ⟨ps', c, B⟩ init order ∧
      Greedy.additive score ⟨ps, c, B⟩ init order =
        Greedy.additive score ⟨ps', c, B⟩ init order := by
  have hs : Greedy.initState ⟨ps, c, B⟩ init = Greedy.initState ⟨ps', c, B⟩ init :=
    (initState_perm ⟨[], fun _ => 0, fun _ _ => 0⟩ h c B init (fun _ => 0)
      ⟨[], fun _ => 0, fun _ _ => false, c, B⟩ 0).2.1
  refine ⟨?_, ?_, ?_⟩
  · unfold Greedy.general; rw [hs]; rfl
  · unfold Greedy.generalAll; rw [hs]; rfl
  · unfold Greedy.additive
    show (match order ((sortIds ps).filter _) with | .error e => _ | .ok l => _) =
      (match order ((sortIds ps').filter _) with | .error e => _ | .ok l => _)
    rw [Sorting.sortIds_unique h]

/-- Phragmén -/
theorem perm_projects_phragmen (C : Phragmen.Ctx) {ps ps' : List Pid} (h : ps.Perm ps')
    (init : List Pid) (loads : Nat → Rat) (order : List Pid → Except Err (List Pid)) :
    Phragmen.run C ps init loads order = Phragmen.run C ps' init loads order ∧
      Phragmen.runAll C ps init loads order = Phragmen.runAll C ps' init loads order := by
  have hs : Phragmen.initState C ps init loads = Phragmen.initState C ps' init loads :=
    (initState_perm ⟨[], fun _ => 0, fun _ _ => 0⟩ h C.cost C.budget init loads C 0).2.2
  unfold Phragmen.run Phragmen.runAll
  rw [hs]
  exact ⟨rfl, rfl⟩

/-! ### Order of the voters -/

/-- the basic sums do not depend on the order of the summands -/
theorem sumOver_perm {α : Type} (f : α → Rat) {l l' : List α} (h : l.Perm l') :
    sumOver l f = sumOver l' f := TieL.sumOver_perm f h

theorem sumNat_perm {α : Type} (f : α → Nat) {l l' : List α} (h : l.Perm l') :
    sumNat l f = sumNat l' f := TieL.sumNat_perm f h

/-- Equal Shares: total satisfaction, number of voters, and the three sums over the supporters
    of a project -/
theorem mes_sums_perm {vs vs' : List Nat} (h : vs.Perm vs') (m : Nat → Nat)
    (u : Nat → Pid → Rat) (b : Nat → Rat) (p : Pid) :
    MES.totalSat ⟨vs, m, u⟩ p = MES.totalSat ⟨vs', m, u⟩ p ∧
      MES.numVoters ⟨vs, m, u⟩ = MES.numVoters ⟨vs', m, u⟩ ∧
      budSum (MES.sups ⟨vs, m, u⟩ b p) = budSum (MES.sups ⟨vs', m, u⟩ b p) ∧
      utilSum (MES.sups ⟨vs, m, u⟩ b p) = utilSum (MES.sups ⟨vs', m, u⟩ b p) ∧
      ∀ r, paySum r (MES.sups ⟨vs, m, u⟩ b p) = paySum r (MES.sups ⟨vs', m, u⟩ b p) :=
  ⟨mes_totalSat_perm h m u p, mes_numVoters_perm h m u, budSum_perm (mes_sups_perm h m u b p),
   utilSum_perm (mes_sups_perm h m u b p), fun r => paySum_perm r (mes_sups_perm h m u b p)⟩

/-- Equal Shares: the price of a project (non-negative money, multiplicities ≥ 1, positive cost) -/
theorem mes_rho_perm_voters {vs vs' : List Nat} (h : vs.Perm vs') {m : Nat → Nat}
    {u : Nat → Pid → Rat} {cost : Pid → Rat} {b : Nat → Rat} {p : Pid}
    (hb : ∀ i ∈ vs, 0 ≤ b i) (hm : ∀ i ∈ vs, 1 ≤ m i) (hc : 0 < cost p) :
    MES.rho ⟨vs', m, u⟩ cost b p = MES.rho ⟨vs, m, u⟩ cost b p :=
  mes_rho_perm h ⟨hb, hm⟩ hc

/-- Phragmén: approval score and the load a purchase would create -/
theorem phragmen_sums_perm {vs vs' : List Nat} (h : vs.Perm vs') (m : Nat → Nat)
    (app : Nat → Pid → Bool) (cost : Pid → Rat) (B : Rat) (s : Phragmen.State) (p : Pid) :
    Phragmen.score ⟨vs, m, app, cost, B⟩ p = Phragmen.score ⟨vs', m, app, cost, B⟩ p ∧
      Phragmen.newMax ⟨vs, m, app, cost, B⟩ s p = Phragmen.newMax ⟨vs', m, app, cost, B⟩ s p :=
  ⟨phragmen_score_perm h m app cost B p, phragmen_newMax_perm h m app cost B s p⟩

/-- the approval score used as a tie-breaking key -/
theorem approvalScore_perm {P P' : Profile} (h : P.Perm P') (p : Pid) :
    P.approvalScore p = P'.approvalScore p := TieL.sumNat_perm _ h

/-- **perm_voters, Phragmén**: whole runs, resolute and irresolute, any tie-breaking function -/
theorem perm_voters_phragmen {vs vs' : List Nat} (h : vs.Perm vs') (m : Nat → Nat)
    (app : Nat → Pid → Bool) (cost : Pid → Rat) (B : Rat) (projects init : List Pid)
    (loads : Nat → Rat) (order : List Pid → Except Err (List Pid)) :
    Phragmen.run ⟨vs, m, app, cost, B⟩ projects init loads order =
        Phragmen.run ⟨vs', m, app, cost, B⟩ projects init loads order ∧
      Phragmen.runAll ⟨vs, m, app, cost, B⟩ projects init loads order =
        Phragmen.runAll ⟨vs', m, app, cost, B⟩ projects init loads order := by
  unfold Phragmen.run Phragmen.runAll
  rw [phragmen_rule_perm h m app cost B]
  exact ⟨rfl, rfl⟩

/-- **perm_voters, Equal Shares** (plain): whole runs, resolute and irresolute, every
    tie-breaking rule; multiplicities ≥ 1, costs and budget non-negative -/
theorem perm_voters_mes {vs vs' : List Nat} (h : vs.Perm vs') (m : Nat → Nat)
    (u : Nat → Pid → Rat) (I : Inst) (init : List Pid)
    (hm : ∀ i ∈ vs, 1 ≤ m i) (hcost : ∀ p ∈ I.projects, 0 ≤ I.cost p) (hB : 0 ≤ I.budget)
    (t : Tie) (cost : Pid → Rat) (score : Pid → Nat) :
    MES.run ⟨vs', m, u⟩ I init (Tie.order t cost score) =
        MES.run ⟨vs, m, u⟩ I init (Tie.order t cost score) ∧
      MES.runAll ⟨vs', m, u⟩ I init (Tie.order t cost score) =
        MES.runAll ⟨vs, m, u⟩ I init (Tie.order t cost score) := by
  unfold MES.run MES.runAll
  rw [← mes_numVoters_perm h m u]
  exact mes_runAt_perm_voters h m u I init _ hm hcost (MES.share_nonneg ⟨vs, m, u⟩ I hB) _
    (fun _ _ h => Tie.order_perm_eq t cost score h) (Tie.order_mem t cost score)

/-- … and at any per-voter budget `b0 ≥ 0` (what the iterated variant calls) -/
theorem perm_voters_mes_at {vs vs' : List Nat} (h : vs.Perm vs') (m : Nat → Nat)
    (u : Nat → Pid → Rat) (I : Inst) (init : List Pid) (b0 : Rat)
    (hm : ∀ i ∈ vs, 1 ≤ m i) (hcost : ∀ p ∈ I.projects, 0 ≤ I.cost p) (hb0 : 0 ≤ b0)
    (t : Tie) (cost : Pid → Rat) (score : Pid → Nat) :
    MES.runAt ⟨vs', m, u⟩ I init (Tie.order t cost score) b0 =
        MES.runAt ⟨vs, m, u⟩ I init (Tie.order t cost score) b0 ∧
      MES.runAllAt ⟨vs', m, u⟩ I init (Tie.order t cost score) b0 =
        MES.runAllAt ⟨vs, m, u⟩ I init (Tie.order t cost score) b0 :=
  mes_runAt_perm_voters h m u I init b0 hm hcost hb0 _
    (fun _ _ h => Tie.order_perm_eq t cost score h) (Tie.order_mem t cost score)

/-- satisfaction of a ballot does not depend on the order of the profile (only `Effort_Sat`
    looks at the profile at all) -/
theorem sat_perm (μ : Measure) (I : Inst) {P P' : Profile} (h : P.Perm P') (b : Ballot)
    (l : List Pid) : sat μ I P b l = sat μ I P' b l := by
  have hden : effortDenominator P = effortDenominator P' := by
    funext p; exact approvalScore_perm h p
  have hsp : satProject μ I P b = satProject μ I P' b := by
    funext p; cases μ <;> simp only [satProject, hden]
  cases μ <;> simp only [sat] <;> rw [hsp]

/-- **perm_voters, greedy**: the rule sees the voters only through the total-satisfaction
    function, which is a multiplicity-weighted sum over the profile entries -/
theorem perm_voters_greedy (μ : Measure) (I : Inst) {P P' : Profile} (h : P.Perm P')
    (init : List Pid) (order : List Pid → Except Err (List Pid)) :
    let tsat : Profile → List Pid → Rat :=
      fun P l => sumOver P (fun e => ((e.2 : Nat) : Rat) * sat μ I P e.1 l)
    tsat P = tsat P' ∧
      Greedy.general (tsat P) I init order = Greedy.general (tsat P') I init order ∧
      Greedy.generalAll (tsat P) I init order = Greedy.generalAll (tsat P') I init order := by
  intro tsat
  have ht : tsat P = tsat P' := by
    funext l
    show sumOver P (fun e => ((e.2 : Nat) : Rat) * sat μ I P e.1 l) =
      sumOver P' (fun e => ((e.2 : Nat) : Rat) * sat μ I P' e.1 l)
    have : (fun e : Ballot × Nat => ((e.2 : Nat) : Rat) * sat μ I P e.1 l) =
        (fun e => ((e.2 : Nat) : Rat) * sat μ I P' e.1 l) := by
      funext e; rw [sat_perm μ I h]
    rw [this]
    exact TieL.sumOver_perm _ h
  exact ⟨ht, by rw [ht], by rw [ht]⟩

/-- **perm_voters, Equal Shares, iterated variant** (`voter_budget_increment`), resolute and
    irresolute, for a non-negative increment and start budget -/
theorem perm_voters_mes_iterated {vs vs' : List Nat} (h : vs.Perm vs') (m : Nat → Nat)
    (u : Nat → Pid → Rat) (I : Inst) (init : List Pid)
    (hm : ∀ i ∈ vs, 1 ≤ m i) (hcost : ∀ p ∈ I.projects, 0 ≤ I.cost p)
    (t : Tie) (cost : Pid → Rat) (score : Pid → Nat) (inc b0 : Rat) (hinc : 0 ≤ inc)
    (hb0 : 0 ≤ b0) (fuel : Nat) :
    (∀ prev, MES.iterated ⟨vs', m, u⟩ I init (Tie.order t cost score) inc fuel b0 prev =
      MES.iterated ⟨vs, m, u⟩ I init (Tie.order t cost score) inc fuel b0 prev) ∧
    (∀ prev, MES.iteratedAll ⟨vs', m, u⟩ I init (Tie.order t cost score) inc fuel b0 prev =
      MES.iteratedAll ⟨vs, m, u⟩ I init (Tie.order t cost score) inc fuel b0 prev) :=
  mes_iterated_perm_voters h m u I init hm hcost _
    (fun _ _ h => Tie.order_perm_eq t cost score h) (Tie.order_mem t cost score) inc hinc fuel b0 hb0

/-! ### The hypotheses are satisfiable; the statements are not vacuous -/

/-- six equal-cost projects enumerated in two different orders: the `min_cost` rule returns the
    same order for both (this is the input family on which the library's hash-seed defect shows) -/
example : [3, 1, 5, 0, 4, 2].Perm [0, 1, 2, 3, 4, 5] ∧
    Tie.order .minCost (fun _ => 7) (fun _ => 0) [3, 1, 5, 0, 4, 2] = .ok [0, 1, 2, 3, 4, 5] ∧
    Tie.order .minCost (fun _ => 7) (fun _ => 0) [0, 1, 2, 3, 4, 5] = .ok [0, 1, 2, 3, 4, 5] := by
  refine ⟨by decide, by decide +kernel, by decide +kernel⟩

/-- a permuted voter list with multiplicities ≥ 1, non-negative costs and budget; the run is the
    same and not trivial -/
example : [0, 1, 2].Perm [2, 0, 1] ∧ (∀ i ∈ [0, 1, 2], 1 ≤ (fun i => i + 1) i) ∧
    MES.run ⟨[2, 0, 1], fun i => i + 1, fun i p => if (i + p) % 2 = 0 then 1 else 0⟩
      ⟨[0, 1, 2, 3], fun p => (p : Rat), 6⟩ [3] (Tie.order .lexico (fun _ => 0) (fun _ => 0)) =
      .ok [3, 0, 1, 2] := by
  refine ⟨by decide, by intro i _; simp, by decide +kernel⟩

end Pabu.C13
