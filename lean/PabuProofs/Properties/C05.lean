/-
  C05 — sequential Phragmén selects exactly what its definition prescribes.

  Model: PabuModel.Phragmen (`run`, `runAll`: the functions the driver runs).
  Supporting lemmas: PabuProofs.Lemmas.Phragmen.

  The money process.  All voters earn money at rate 1; voter entry `i` (counted `m i` times) has paid for
  its last purchase at time `load i`, so at time `x` it holds `x − load i` (negative balances are possible
  when the initial loads are unequal).  A project `p` with at least one supporter is purchasable at the
  instant `x` at which its supporters' balances add up to its cost; then their balances are reset to 0,
  i.e. their loads become `x`.  The next purchase is an undecided project with the earliest instant
  (`IsEarliest`); the process stops when no project is left or a project purchasable at that instant
  would exceed the budget (`Stops`).  Unsupported projects have instant +∞ (`none`).

  Vocabulary (PabuProofs.Lemmas.Phragmen): `IsEarliest`, `IsNext`, `Stops`, `SpecRun` (resolute, with
  tie-breaking), `SpecRunAny` (irresolute), `expand` (multiplicities as copies), `instOf`.
-/
import PabuProofs.Lemmas.Phragmen
import Mathlib.Tactic.NormNum
namespace Pabu
namespace C05
open GreedyAux Phragmen

/-! ### The purchase instant -/

/-- `newMax p = x` iff `p` has a supporter and the supporters' balances `x − loadᵢ` (with multiplicities)
    add up to exactly the cost of `p` -/
theorem purchase_instant_balances (C : Ctx) (s : State) (p : Pid) (x : Rat) :
    newMax C s p = some x ↔
      score C p ≠ 0 ∧ sumOver (supporters C p) (fun i => (C.m i : Rat) * (x - s.load i)) = C.cost p :=
  newMax_eq_some_iff_balances C s p x

/-- the same in the load formulation: `x · score = Σ mᵢ·loadᵢ + cost p` -/
theorem purchase_instant (C : Ctx) (s : State) (p : Pid) (x : Rat) :
    newMax C s p = some x ↔
      score C p ≠ 0 ∧
      x * ((score C p : Nat) : Rat) = sumOver (supporters C p) (fun i => (C.m i : Rat) * s.load i) + C.cost p :=
  newMax_eq_some_iff C s p x

/-- a project is never purchasable (instant +∞) iff nobody supports it -/
theorem never_purchasable_iff (C : Ctx) (s : State) (p : Pid) : newMax C s p = none ↔ score C p = 0 :=
  newMax_eq_none_iff C s p

/-- the state after a purchase: the project joins the allocation, its cost is spent, it leaves the pool,
    every supporter's load becomes the purchase instant, nobody else's load changes -/
theorem purchase_effect (C : Ctx) (s : State) (t : Pid) :
    (buy C s t).alloc = s.alloc ++ [t] ∧ (buy C s t).spent = s.spent + C.cost t ∧
    (buy C s t).pool = s.pool.filter (fun q => q != t) ∧
    (∀ x, newMax C s t = some x → ∀ i, C.app i t = true → (buy C s t).load i = x) ∧
    (∀ i, C.app i t = false → (buy C s t).load i = s.load i) ∧
    (newMax C s t = none → ∀ i, (buy C s t).load i = s.load i) :=
  ⟨rfl, rfl, rfl, fun x hx i hi => buy_load_supporter C s t x hx i hi,
   fun i hi => buy_load_other C s t i hi, fun hx i => buy_load_unsupported C s t hx i⟩

/-! ### Which project is bought, and when the process stops -/

/-- the model's candidates of a round are exactly the projects that may be bought next -/
theorem bought_is_next (C : Ctx) (s : State) (t : Pid) : t ∈ (rule C).tied s ↔ IsNext C s t :=
  mem_tied_iff_isNext C s t

theorem stops_iff (C : Ctx) (s : State) : (rule C).tied s = [] ↔ Stops C s :=
  tied_eq_nil_iff_stops C s

/-! ### Runs -/

/-- Resolute executable run, any tie-breaking that returns a permutation of the tied projects or raises:
    the result is a valid allocation and is the one the definition builds from the initial state. -/
theorem run_follows_definition (C : Ctx) (projects init : List Pid) (loads : Nat → Rat) (hinit : init.Nodup)
    (hsub : ∀ p ∈ init, p ∈ projects) (hcost : costOf C.cost init ≤ C.budget)
    (order : List Pid → Except Err (List Pid)) (hord : ∀ T l, order T = .ok l → l.Perm T)
    (W : List Pid) (h : run C projects init loads order = .ok W) :
    ValidOutcome (instOf C projects) init W ∧ SpecRun C order (initState C projects init loads) W :=
  ⟨run_valid C projects init loads hinit hsub hcost order (fun T l hl => perm_mem_ne (hord T l hl)) W h,
   run_refines_spec_aux C order (fun T l hl => perm_mem_ne (hord T l hl)) _ _ W (le_refl _) h⟩

theorem run_follows_definition_tie (C : Ctx) (projects init : List Pid) (loads : Nat → Rat) (hinit : init.Nodup)
    (hsub : ∀ p ∈ init, p ∈ projects) (hcost : costOf C.cost init ≤ C.budget)
    (t : Tie) (sc : Pid → Nat) (W : List Pid) (h : run C projects init loads (t.order C.cost sc) = .ok W) :
    ValidOutcome (instOf C projects) init W ∧
      SpecRun C (t.order C.cost sc) (initState C projects init loads) W :=
  run_follows_definition C projects init loads hinit hsub hcost _ (Tie_order_perm t C.cost sc) W h

/-- with a total tie-breaking function the resolute run always returns -/
theorem run_returns (C : Ctx) (projects init : List Pid) (loads : Nat → Rat) (t : Tie) (ht : t ≠ .refuse)
    (sc : Pid → Nat) : ∃ W, run C projects init loads (t.order C.cost sc) = .ok W := by
  refine ⟨(rule C).runP (fun T => sortKey (t.key C.cost sc) (sortIds T))
    (initState C projects init loads).pool.length (initState C projects init loads), ?_⟩
  unfold run
  exact run_eq_runP _ _ (fun T => sortKey (t.key C.cost sc) (sortIds T)) rfl
    (fun T => by unfold Tie.order; rw [if_neg (fun h => ht h.1)]) _ _

/-- Irresolute pure run = exactly the allocations the irresolute definition can build. -/
theorem runAllP_iff_spec (C : Ctx) (s : State) (n : Nat) (hn : s.pool.length ≤ n) (W : List Pid) :
    W ∈ (rule C).runAllP n s ↔ SpecRunAny C s W :=
  ⟨runAllP_sound_aux C n s hn W, fun h => runAllP_complete_aux C s W h n hn⟩

/-- Irresolute executable run: the returned list is exactly the set of name-sorted allocations the
    irresolute definition can build; each is valid. -/
theorem runAll_follows_definition (C : Ctx) (projects init : List Pid) (loads : Nat → Rat) (hinit : init.Nodup)
    (hsub : ∀ p ∈ init, p ∈ projects) (hcost : costOf C.cost init ≤ C.budget)
    (order : List Pid → Except Err (List Pid)) (hord : ∀ T l, order T = .ok l → l.Perm T)
    (Ws : List (List Pid)) (h : runAll C projects init loads order = .ok Ws) :
    (∀ W ∈ Ws, ValidOutcome (instOf C projects) init W) ∧
    (∀ W, W ∈ Ws ↔ ∃ W', SpecRunAny C (initState C projects init loads) W' ∧ W = sortIds W') := by
  refine ⟨runAll_valid C projects init loads hinit hsub hcost order
    (fun T l hl => (perm_mem_ne (hord T l hl)).1) Ws h, ?_⟩
  intro W
  unfold runAll at h
  cases hr : (rule C).runAll order (initState C projects init loads).pool.length
      (initState C projects init loads) with
  | error e => rw [hr] at h; simp [Except.map] at h
  | ok ls =>
    rw [hr] at h
    simp only [Except.map] at h
    rw [← Except.ok.inj h, mem_canonOutcomes_iff]
    have hiff := runAll_mem_iff (rule C) order (fun T l hl x => (hord T l hl).mem_iff) _ _ ls hr
    constructor
    · intro ⟨W', h1, h2⟩
      exact ⟨W', (runAllP_iff_spec C _ _ (le_refl _) W').mp ((hiff W').mp h1), h2⟩
    · intro ⟨W', h1, h2⟩
      exact ⟨W', (hiff W').mpr ((runAllP_iff_spec C _ _ (le_refl _) W').mpr h1), h2⟩

theorem runAll_follows_definition_tie (C : Ctx) (projects init : List Pid) (loads : Nat → Rat)
    (hinit : init.Nodup) (hsub : ∀ p ∈ init, p ∈ projects) (hcost : costOf C.cost init ≤ C.budget)
    (t : Tie) (sc : Pid → Nat) (Ws : List (List Pid))
    (h : runAll C projects init loads (t.order C.cost sc) = .ok Ws) :
    (∀ W ∈ Ws, ValidOutcome (instOf C projects) init W) ∧
    (∀ W, W ∈ Ws ↔ ∃ W', SpecRunAny C (initState C projects init loads) W' ∧ W = sortIds W') :=
  runAll_follows_definition C projects init loads hinit hsub hcost _ (Tie_order_perm t C.cost sc) Ws h

/-- the initial state: undecided = projects outside the initial allocation that cost at most the whole
    budget (the implementation's convention), in name order; spending = cost of the initial allocation -/
theorem initial_state (C : Ctx) (projects init : List Pid) (loads : Nat → Rat) :
    (initState C projects init loads).load = loads ∧ (initState C projects init loads).alloc = init ∧
    (initState C projects init loads).spent = costOf C.cost init ∧
    ∀ p, p ∈ (initState C projects init loads).pool ↔ p ∈ projects ∧ p ∉ init ∧ C.cost p ≤ C.budget := by
  refine ⟨rfl, rfl, rfl, ?_⟩
  intro p
  unfold initState
  simp only [List.mem_filter, mem_sortIds, Bool.and_eq_true, Bool.not_eq_true', decide_eq_true_eq]
  constructor
  · intro ⟨h1, h2, h3⟩
    refine ⟨h1, ?_, h3⟩
    intro hm
    rw [List.contains_iff_mem.mpr hm] at h2
    exact Bool.noConfusion h2
  · intro ⟨h1, h2, h3⟩
    refine ⟨h1, ?_, h3⟩
    cases hc : init.contains p with
    | false => rfl
    | true => exact absurd (List.contains_iff_mem.mp hc) h2

/-! ### Multiplicities count as that many identical voters -/

theorem multiplicity_is_copies (C : Ctx) (projects init : List Pid) (loads : Nat → Rat)
    (order : List Pid → Except Err (List Pid)) :
    run (expand C) projects init loads order = run C projects init loads order ∧
    runAll (expand C) projects init loads order = runAll C projects init loads order :=
  ⟨run_expand C projects init loads order, runAll_expand C projects init loads order⟩

/-! ### The hypotheses are satisfiable on a concrete non-trivial input

  three ballot entries {0,1} ×2, {1,2} ×1, {} ×1; costs 2,3,5 and an unsupported project 3 of cost 1;
  budget 6; unequal initial loads; initial allocation [3]. -/

def exC : Ctx :=
  { vs := [0, 1, 2], m := fun i => if i = 0 then 2 else 1,
    app := fun i p => (i == 0 && (p == 0 || p == 1)) || (i == 1 && (p == 1 || p == 2)),
    cost := fun p => if p = 0 then 2 else if p = 1 then 3 else if p = 2 then 5 else 1, budget := 6 }

example : ([3] : List Pid).Nodup ∧ (∀ p ∈ ([3] : List Pid), p ∈ [0, 1, 2, 3]) ∧ costOf exC.cost [3] ≤ exC.budget := by
  refine ⟨by decide, by decide, ?_⟩
  simp [exC, costOf, sumOver]

example (t : Tie) (sc : Pid → Nat) : ∀ T l, t.order exC.cost sc T = .ok l → l.Perm T :=
  Tie_order_perm t exC.cost sc

example : ∃ W, run exC [0, 1, 2, 3] [3] (fun i => if i = 1 then 1 / 2 else 0)
    (Tie.lexico.order exC.cost (fun _ => 0)) = .ok W :=
  run_returns exC _ _ _ Tie.lexico (by decide) _

end C05
end Pabu

#print axioms Pabu.C05.purchase_instant_balances
#print axioms Pabu.C05.purchase_instant
#print axioms Pabu.C05.purchase_effect
#print axioms Pabu.C05.bought_is_next
#print axioms Pabu.C05.stops_iff
#print axioms Pabu.C05.run_follows_definition
#print axioms Pabu.C05.run_follows_definition_tie
#print axioms Pabu.C05.run_returns
#print axioms Pabu.C05.runAllP_iff_spec
#print axioms Pabu.C05.runAll_follows_definition
#print axioms Pabu.C05.initial_state
#print axioms Pabu.C05.multiplicity_is_copies
