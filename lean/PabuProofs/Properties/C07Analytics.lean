/-
  C07 (analytics part) — what is computed FROM the recorded Equal Shares run: the project details of
  the iterations, `calculate_project_loss`, `calculate_effective_support` (model:
  PabuModel/MESAnalytics.lean).  Only property theorems and satisfiability examples; proofs are in
  PabuProofs/Lemmas/MESAnalytics.lean.
-/
import PabuProofs.Lemmas.MESAnalytics
import Mathlib.Tactic.NormNum
namespace Pabu.C07A
open Pabu Pabu.MES Pabu.MESLazy Pabu.MESAnalytics

/-! ### Project loss -/

/-- every record of `projectLoss` is a `_create_project_loss` record over a prefix of the iterations
    handed over: of the selected project (money at the start of its iteration, purchases before it)
    or of another project (money at the end of a selecting iteration, purchases up to it) -/
theorem projectLoss_records (V : VCtx) (L' : List (Iteration × List Pid × List Pid)) (x : Loss)
    (hx : x ∈ projectLoss V L') :
    ∃ pre e post, L' = pre ++ e :: post ∧
      ((∃ t, e.1.selected = some t ∧ x = mkLoss V t e.1.before (pre.map Prod.fst)) ∨
       (∃ t q, e.1.selected = some t ∧ x = mkLoss V q e.1.after (pre.map Prod.fst ++ [e.1]))) := by
  obtain ⟨pre, e, post, h1, h2⟩ := mem_lossGo V L' [] x hx
  refine ⟨pre, e, post, h1, ?_⟩
  simpa using h2

/-- **loss_conservation**: take the record `L` of a run (`MES.trace`) from per-voter money `b0` and
    hand its selecting iterations to `projectLoss`, with ANY project details (pool / discarded
    lists) attached.  For every record emitted — of a selected project, of a discarded one, of one
    left over after the last purchase — the supporters' budget plus everything listed in
    `budget_lost` is exactly the money the supporters of that project started with
    (Σ multiplicity × b0 over its supporters). -/
theorem loss_conservation {V : VCtx} {I : Inst} {init : List Pid}
    {order : List Pid → Except Err (List Pid)}
    (hord : ∀ T l, order T = .ok l → ∀ x ∈ l, x ∈ T) {b0 : Rat} {n : Nat} {L : List Iteration}
    (hL : trace V I.cost order n (initState V I init b0) = .ok L)
    (L' : List (Iteration × List Pid × List Pid)) (hL' : L'.map Prod.fst = selecting L) :
    ∀ x ∈ projectLoss V L',
      x.supportersBudget + x.total =
        sumOver (supporters V x.project) (fun i => (V.m i : Rat) * b0) := by
  intro x hx
  obtain ⟨s', hrec, _⟩ := trace_recorded hord _ _ L hL
  obtain ⟨pre, e, post, hsplit, hcase⟩ := projectLoss_records V L' x hx
  have hsel : L = pre.map Prod.fst ++ e.1 ::
      (post.map Prod.fst ++ [⟨budgets V s'.b, none, none, []⟩]) := by
    have h1 := selecting_split hrec
    rw [← hL', hsplit] at h1
    rw [h1]; simp
  have hstart : ∀ p, sumOver V.vs (fun i => if 0 < V.u i p then (V.m i : Rat) *
      (initState V I init b0).b i else 0) = sumOver (supporters V p) (fun i => (V.m i : Rat) * b0) :=
    fun p => (sumOver_supporters V p (fun i => (V.m i : Rat) * b0)).symm
  rcases hcase with ⟨t, ht, rfl⟩ | ⟨t, q, ht, rfl⟩
  · rw [mkLoss_total]
    exact (conserve_prefix hrec t _ _ _ hsel).trans (hstart t)
  · rw [mkLoss_total]
    exact (conserve_after hrec q hsel ht).trans (hstart q)

/-- the same for the iterations as `traceL` records them, when their budgets and selections are
    those of the eager record (the driver checks this equality on every case) -/
theorem loss_conservation_details {V : VCtx} {I : Inst} {init : List Pid}
    {order : List Pid → Except Err (List Pid)}
    (hord : ∀ T l, order T = .ok l → ∀ x ∈ l, x ∈ T) {b0 : Rat} {n : Nat} {L : List Iteration}
    (hL : trace V I.cost order n (initState V I init b0) = .ok L)
    (D : List Details) (hD : D.map Details.toIteration = L) :
    ∀ x ∈ projectLossOfDetails V D,
      x.supportersBudget + x.total =
        sumOver (supporters V x.project) (fun i => (V.m i : Rat) * b0) := by
  apply loss_conservation hord hL
  rw [← hD]
  unfold selecting
  rw [List.map_map, List.filter_map]
  rfl

/-- **loss_only_supporters**: `budget_lost` of a record lists exactly the projects bought in the
    iterations handed to it that share a supporter with the project, each with what the common
    supporters spent in that iteration (weighted by multiplicity) -/
theorem loss_only_supporters (V : VCtx) (p : Pid) (money : List Rat) (earlier : List Iteration)
    (q : Pid) (x : Rat) : (q, x) ∈ (mkLoss V p money earlier).budgetLost ↔
      ∃ it ∈ earlier, it.selected = some q ∧ (∃ i ∈ V.vs, 0 < V.u i p ∧ 0 < V.u i q) ∧
        x = lostTo V p q it :=
  mem_budgetLost V p money earlier q x

/-- in the records `projectLoss` emits, a listed project was bought in an earlier (or, for the extra
    records, the same) iteration of the list handed over and shares a supporter with the project -/
theorem loss_only_earlier (V : VCtx) (L' : List (Iteration × List Pid × List Pid)) (x : Loss)
    (hx : x ∈ projectLoss V L') (q : Pid) (y : Rat) (hq : (q, y) ∈ x.budgetLost) :
    (∃ e ∈ L', e.1.selected = some q) ∧ ∃ i ∈ V.vs, 0 < V.u i x.project ∧ 0 < V.u i q := by
  obtain ⟨pre, e, post, hsplit, hcase⟩ := projectLoss_records V L' x hx
  rcases hcase with ⟨t, _, rfl⟩ | ⟨t, q', _, rfl⟩
  · obtain ⟨it, hit, hsel, hsh, _⟩ := (mem_budgetLost V t _ _ q y).mp hq
    obtain ⟨e', he', rfl⟩ := List.mem_map.mp hit
    exact ⟨⟨e', by rw [hsplit]; simp [he'], hsel⟩, hsh⟩
  · obtain ⟨it, hit, hsel, hsh, _⟩ := (mem_budgetLost V q' _ _ q y).mp hq
    rcases List.mem_append.mp hit with hit | hit
    · obtain ⟨e', he', rfl⟩ := List.mem_map.mp hit
      exact ⟨⟨e', by rw [hsplit]; simp [he'], hsel⟩, hsh⟩
    · have : it = e.1 := by simpa using hit
      subst this
      exact ⟨⟨e, by rw [hsplit]; simp, hsel⟩, hsh⟩

/-! ### Effective support -/

/-- `int(cover / cost * 100)` is the floor of that number -/
theorem pct_spec (c cost : Rat) :
    ((pct c cost : Int) : Rat) ≤ c / cost * 100 ∧ c / cost * 100 < ((pct c cost : Int) : Rat) + 1 := by
  unfold pct
  have h := Rat.lt_floor_add_one (c / cost * 100)
  push_cast at h
  exact ⟨Rat.floor_le _, h⟩

/-- one round reports at least 100 exactly when the supporters could cover the cost -/
theorem pct_ge_100_iff (c cost : Rat) (hc : 0 < cost) : 100 ≤ pct c cost ↔ cost ≤ c := by
  unfold pct
  rw [Rat.le_floor_iff]
  constructor
  · intro h
    have h1 : (1 : Rat) ≤ c / cost := by
      have : ((100 : Int) : Rat) = 100 := by norm_num
      rw [this] at h; linarith
    exact (one_le_div₀ hc).mp h1
  · intro h
    have h1 : (1 : Rat) ≤ c / cost := (one_le_div₀ hc).mpr h
    have : ((100 : Int) : Rat) = 100 := by norm_num
    rw [this]; linarith

/-- **effectiveSupport_picked_ge_100** -/
theorem effectiveSupport_picked_ge_100 (V : VCtx) (I : Inst) (init : List Pid)
    (order : List Pid → Except Err (List Pid)) (b0 : Rat) (p : Pid) (e : Int)
    (h : effectiveSupport V I init order b0 p true = .ok e) : 100 ≤ e := by
  unfold effectiveSupport at h
  cases hr : effRaw V I init order b0 p with
  | error err => rw [hr] at h; cases h
  | ok e0 =>
    rw [hr] at h
    have := Except.ok.inj h
    rw [← this]
    unfold atLeast100
    rw [if_pos rfl]
    exact le_max_right _ _

/-- **effectiveSupport_monotone**: the running maximum only grows — it is at least its start value,
    at least the value of every round, extending the run can only increase it, and it is attained
    (the start value or the value of some round) -/
theorem effectiveSupport_monotone (V : VCtx) (cost : Pid → Rat) (p : Pid) (acc : Int)
    (L L' : List Iteration) :
    acc ≤ effFold V cost p acc L ∧
      (∀ it ∈ L, effOfIter V cost p it ≤ effFold V cost p acc L) ∧
      effFold V cost p acc L ≤ effFold V cost p acc (L ++ L') ∧
      (effFold V cost p acc L = acc ∨ ∃ it ∈ L, effFold V cost p acc L = effOfIter V cost p it) := by
  refine ⟨effFold_ge_acc V cost p L acc, effFold_ge_iter V cost p L acc, ?_,
    effFold_attained V cost p L acc⟩
  rw [effFold_append]
  exact effFold_ge_acc V cost p L' _

/-- the value reported is never negative, and picking can only raise it -/
theorem effectiveSupport_nonneg (V : VCtx) (I : Inst) (init : List Pid)
    (order : List Pid → Except Err (List Pid)) (b0 : Rat) (p : Pid) (picked : Bool) (e : Int)
    (h : effectiveSupport V I init order b0 p picked = .ok e) : 0 ≤ e := by
  unfold effectiveSupport at h
  cases hr : effRaw V I init order b0 p with
  | error err => rw [hr] at h; cases h
  | ok e0 =>
    rw [hr] at h
    have he := Except.ok.inj h
    have h0 : 0 ≤ e0 := by
      unfold effRaw at hr
      by_cases hp : (initPool V I init).contains p = true
      · rw [if_pos hp] at hr
        cases ht : trace V I.cost order (initPool V I init).length
            (skipState (initState V I init b0) p) with
        | error err => rw [ht] at hr; cases hr
        | ok L =>
          rw [ht] at hr
          have := Except.ok.inj hr
          rw [← this]
          exact effFold_ge_acc V I.cost p L 0
      · rw [if_neg hp] at hr
        have := Except.ok.inj hr
        rw [← this]
    rw [← he]
    unfold atLeast100
    by_cases hpk : picked = true
    · rw [if_pos hpk]; exact le_trans h0 (le_max_left _ _)
    · rw [if_neg hpk]; exact h0

/-- a project outside the pool of Equal Shares has effective support 0 (100 if it was picked) -/
theorem effectiveSupport_outside_pool (V : VCtx) (I : Inst) (init : List Pid)
    (order : List Pid → Except Err (List Pid)) (b0 : Rat) (p : Pid) (picked : Bool)
    (hp : p ∉ initPool V I init) :
    effectiveSupport V I init order b0 p picked = .ok (if picked = true then 100 else 0) := by
  unfold effectiveSupport effRaw
  have : ¬ (initPool V I init).contains p = true := by simpa using hp
  rw [if_neg this]
  unfold atLeast100
  dsimp only
  by_cases hpk : picked = true
  · rw [if_pos hpk, if_pos hpk]; rfl
  · rw [if_neg hpk, if_neg hpk]

/-! ### Project details: `discarded` -/

/-- **discarded_iff_unaffordable**: in one round of the real (lazy) loop from state `s`, a project is
    marked as discarded exactly if the loop looks at it (`reached`: the prefix of the visiting order
    walked before the `break`) and its supporters hold less than its cost -/
theorem discarded_iff_unaffordable (V : VCtx) (cost : Pid → Rat) (bin : Bool) (s : LState) (p : Pid) :
    p ∈ (scan V cost bin s).dropped ↔
      p ∈ reached V cost bin s ∧ budSum (sups V s.b p) < cost p := by
  rw [dropped_eq_filter]
  simp only [List.mem_filter, decide_eq_true_eq]

/-- the projects looked at are a prefix of the visiting order (pool sorted by stored affordability) -/
theorem reached_is_prefix (V : VCtx) (cost : Pid → Rat) (bin : Bool) (s : LState) :
    reached V cost bin s <+: visit s := reached_prefix V cost bin s

/-- in a round that ties nothing (the last recorded iteration) the loop never breaks: a project of
    the pool is discarded iff its supporters hold less than its cost -/
theorem discarded_terminal_iff (V : VCtx) (cost : Pid → Rat) (bin : Bool) (s : LState)
    (h : tiedLazy V cost bin s = []) (p : Pid) :
    p ∈ (scan V cost bin s).dropped ↔ p ∈ s.pool ∧ budSum (sups V s.b p) < cost p := by
  rw [discarded_iff_unaffordable, reached_all V cost bin s h, mem_visit]

/-- … and under the run's invariants (no negative money, multiplicities ≥ 1, positive costs in the
    pool) that is every project of the pool: the last iteration discards everything left -/
theorem terminal_all_discarded {V : VCtx} {cost : Pid → Rat} (bin : Bool) (s : LState)
    (hb : ∀ i ∈ V.vs, 0 ≤ s.b i) (hm : ∀ i ∈ V.vs, 1 ≤ V.m i) (hc : ∀ p ∈ s.pool, 0 < cost p)
    (h : tiedLazy V cost bin s = []) : ∀ p ∈ s.pool, p ∈ (scan V cost bin s).dropped := by
  intro p hp
  rw [discarded_terminal_iff V cost bin s h]
  refine ⟨hp, ?_⟩
  by_contra haff
  have hnb := scan_noBreak V cost bin s
  have hbest : (scan V cost bin s).best = none := by
    by_contra hbn
    exact hnb.2 hbn h
  have hpr : price V cost bin s.b p = none := by
    unfold scan at hbest
    exact foldl_no_price bin (visit s) (acc0 s) ⟨fun _ => by simp [acc0], fun hb' => absurd rfl hb'⟩
      hbest p (mem_visit.mpr hp) haff
  rw [price_eq_rho] at hpr
  exact haff ((rho_none_iff ⟨hb, hm⟩ (hc p hp)).mp hpr)

/-- link to the eager model: a discarded project has no price (`MES.rho … = none`) -/
theorem discarded_rho_none {V : VCtx} {cost : Pid → Rat} (bin : Bool) (s : LState)
    (hb : ∀ i ∈ V.vs, 0 ≤ s.b i) (hm : ∀ i ∈ V.vs, 1 ≤ V.m i) (p : Pid) (hc : 0 < cost p)
    (h : p ∈ (scan V cost bin s).dropped) : rho V cost s.b p = none ∧ p ∈ s.pool := by
  obtain ⟨h1, h2⟩ := (discarded_iff_unaffordable V cost bin s p).mp h
  exact ⟨(rho_none_iff ⟨hb, hm⟩ hc).mpr h2, mem_visit.mp ((reached_prefix V cost bin s).subset h1)⟩

/-- on the recorded details: a project an iteration lists as discarded is in the pool of that
    iteration and the money its supporters hold at the start of the iteration (with multiplicity,
    read off the recorded budgets) is less than its cost -/
theorem traceL_discarded {V : VCtx} {cost : Pid → Rat} {order : List Pid → Except Err (List Pid)}
    (bin : Bool) (n : Nat) (s : LState) (D : List Details)
    (hD : traceL V cost order bin n s = .ok D) :
    ∀ d ∈ D, ∀ p ∈ d.discarded, p ∈ d.pool ∧ supBudget V p d.before < cost p := by
  intro d hd p hp
  obtain ⟨s', h1, h2, h3, _⟩ := traceL_details bin n s D hD d hd
  rw [h2] at hp
  obtain ⟨hr, hu⟩ := (discarded_iff_unaffordable V cost bin s' p).mp hp
  refine ⟨by rw [h1]; exact mem_visit.mp ((reached_prefix V cost bin s').subset hr), ?_⟩
  rw [h3, supBudget_budgets, ← sumOver_supporters]
  have : budSum (sups V s'.b p) = sumOver (supporters V p) (fun i => (V.m i : Rat) * s'.b i) := by
    rw [sups_eq]
    induction supporters V p with
    | nil => rfl
    | cons i is ih => simp only [List.map_cons, budSum, sumOver, ih]
  rw [← this]; exact hu

/-! ### The hypotheses are satisfiable and the statements are not vacuous -/

def exV : VCtx := ⟨[0, 1, 2], fun i => i + 1,
  fun i p => if p = 4 then (if i = 2 then 1 else 0) else if (i + p) % 2 = 0 then 1 else 0⟩
def exI : Inst := ⟨[0, 1, 2, 3, 4], fun p => if p = 4 then 3 else if p = 3 then 5 / 2 else (p : Rat), 6⟩
def exOrder : List Pid → Except Err (List Pid) := fun l => .ok l

/-- the order function satisfies the hypothesis of `loss_conservation` -/
example : ∀ T l, exOrder T = .ok l → ∀ x ∈ l, x ∈ T := by
  intro T l h x hx; cases h; exact hx

/-- three voter entries with multiplicities 1,2,3 and one unit of money each; pool 1,2,3,4 handed
    over in the set order 4,3,1,2.  Project 3 (cost 5/2, its supporters hold 2) is unaffordable from
    the start but is NOT marked as discarded in the first two iterations: the loop walks 1, 2, 4 and
    breaks on 4, whose stored affordability 1 exceeds the best price 1/2, before reaching 3 … -/
example : reached exV exI.cost false (initStateA exV exI [] 1 [4, 3, 1, 2] none) = [1, 2, 4] ∧
    visit (initStateA exV exI [] 1 [4, 3, 1, 2] none) = [1, 2, 4, 3] ∧
    budSum (sups exV (fun _ => 1) 3) < exI.cost 3 := by
  decide +kernel

/-- … and the recorded details: two purchases, then the last iteration discards what is left -/
example : (match details exV exI [] exOrder false 1 [4, 3, 1, 2] with
    | .error _ => none
    | .ok D => some (D.map (fun d : Details => (d.pool, d.discarded, d.priced, d.selected)))) =
    some [([4, 3, 1, 2], [], [1, 2], some 1), ([4, 3, 2], [], [2], some 2),
          ([4, 3], [4, 3], [], none)] := by
  decide +kernel

/-- the loss records on this input (last component: supporters' budget + total lost = initial money
    of the supporters): project 4, left over after the last purchase, shares entry 2 with project 2
    and lost 3/2 to it; project 3 shares entry 1 with project 1 -/
example : (match details exV exI [] exOrder false 1 [4, 3, 1, 2] with
    | .error _ => none
    | .ok D => some ((projectLossOfDetails exV D).map
        (fun x : Loss => (x.project, x.supportersBudget, x.supportersBudget + x.total)))) =
    some [(1, 2, 2), (2, 4, 4), (4, 3 / 2, 3), (3, 1, 2)] ∧
  (match details exV exI [] exOrder false 1 [4, 3, 1, 2] with
    | .error _ => none
    | .ok D => some ((projectLossOfDetails exV D).map (fun x : Loss => x.budgetLost))) =
    some [[], [], [(2, 3 / 2)], [(1, 1)]] := by
  decide +kernel

/-- effective supports on this input: 0 (zero cost, picked, outside the pool), 1 and 2 are picked
    (≥ 100); 3 and 4 are not picked and stay below 100 -/
example : effectiveSupports exV exI [] exOrder 1 [0, 1, 2] =
    .ok [(0, 100), (1, 200), (2, 100), (3, 40), (4, 50)] := by
  decide +kernel

end Pabu.C07A
