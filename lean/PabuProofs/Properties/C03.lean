/-
  C03 — the greedy welfare rule follows its definition and exhausts the budget.

  Model: PabuModel.Greedy (`general`, `generalAll`, `additive`; these are the functions the driver runs).
  Supporting lemmas: PabuProofs.Lemmas.Greedy.

  Vocabulary (PabuProofs.Lemmas.Greedy):
  * `WFInput I init`      — projects duplicate-free, costs ≥ 0, `init` duplicate-free ⊆ projects, cost init ≤ budget
  * `ValidOutcome I init W` — `W` duplicate-free, ⊆ projects, ⊇ init, cost W ≤ budget  (the C01 facts)
  * `Exhaustive I W`      — `∀ p ∈ projects, p ∉ W → budget < cost W + cost p`  (⇒ `I.isExhaustive W = true`)
  * `IsBest tsat I A t`   — `t` is an undecided project that fits after `A` and has the largest marginal
                            satisfaction per unit of cost among the undecided projects that fit (+∞ for cost 0)
  * `SpecRun tsat I order A W` — `W` is built from `A` by repeatedly adding the first project, in the order
                            `order`, of the best next projects, until nothing fits
  * `SpecRunAny tsat I A W` — same, adding any best next project (irresolute)
-/
import PabuProofs.Lemmas.Greedy
import Mathlib.Tactic.NormNum
namespace Pabu
namespace C03
open GreedyAux Greedy

/-! ### General path -/

/-- Resolute general path, any tie-breaking function that returns a permutation of the tied projects or
    raises: every returned allocation is valid, exhaustive, and is the one built by the definition. -/
theorem general_follows_definition (tsat : List Pid → Rat) (I : Inst) (init : List Pid) (hwf : WFInput I init)
    (order : List Pid → Except Err (List Pid)) (hord : ∀ T l, order T = .ok l → l.Perm T)
    (W : List Pid) (h : general tsat I init order = .ok W) :
    ValidOutcome I init W ∧ Exhaustive I W ∧ I.isExhaustive W = true ∧ SpecRun tsat I order init W := by
  have hord' : ∀ T l, order T = .ok l → (∀ x ∈ l, x ∈ T) ∧ (T ≠ [] → l ≠ []) :=
    fun T l hl => perm_mem_ne (hord T l hl)
  have hg := general_good tsat I init hwf order hord' W h
  refine ⟨hg.1, hg.2, hg.2.isExhaustive, ?_⟩
  exact run_refines_spec_aux tsat I init hwf.cost_nonneg order hord' _ _ W
    (inv_init I init hwf.init_nodup hwf.init_sub hwf.init_cost) (le_refl _) h

/-- the same for the shipped tie-breaking rules (`refuse` raises, so there is no `W`) -/
theorem general_follows_definition_tie (tsat : List Pid → Rat) (I : Inst) (init : List Pid) (hwf : WFInput I init)
    (t : Tie) (sc : Pid → Nat) (W : List Pid) (h : general tsat I init (t.order I.cost sc) = .ok W) :
    ValidOutcome I init W ∧ Exhaustive I W ∧ I.isExhaustive W = true ∧
      SpecRun tsat I (t.order I.cost sc) init W :=
  general_follows_definition tsat I init hwf _ (Tie_order_perm t I.cost sc) W h

/-- pure resolute run with fuel ≥ number of initially fitting projects (any `ord` returning a non-empty
    sub-list of a non-empty tied list): valid and exhaustive -/
theorem runP_exhaustive (tsat : List Pid → Rat) (I : Inst) (init : List Pid) (hwf : WFInput I init)
    (ord : List Pid → List Pid) (hord : ∀ T, ∀ x ∈ ord T, x ∈ T) (hne : ∀ T, T ≠ [] → ord T ≠ [])
    (n : Nat) (hn : (initState I init).feasible.length ≤ n) :
    ValidOutcome I init ((rule tsat I).runP ord n (initState I init)) ∧
      Exhaustive I ((rule tsat I).runP ord n (initState I init)) :=
  runP_good tsat I init hwf ord hord hne n hn

/-- pure irresolute run with enough fuel: every outcome is valid and exhaustive -/
theorem runAllP_exhaustive (tsat : List Pid → Rat) (I : Inst) (init : List Pid) (hwf : WFInput I init)
    (n : Nat) (hn : (initState I init).feasible.length ≤ n) :
    ∀ W ∈ (rule tsat I).runAllP n (initState I init), ValidOutcome I init W ∧ Exhaustive I W :=
  runAllP_good tsat I init hwf n hn

/-- with a total tie-breaking function the resolute general path always returns -/
theorem general_returns (tsat : List Pid → Rat) (I : Inst) (init : List Pid) (t : Tie) (ht : t ≠ .refuse)
    (sc : Pid → Nat) : ∃ W, general tsat I init (t.order I.cost sc) = .ok W := by
  refine ⟨(rule tsat I).runP (fun T => sortKey (t.key I.cost sc) (sortIds T))
    (initState I init).feasible.length (initState I init), ?_⟩
  unfold general
  exact run_eq_runP _ _ (fun T => sortKey (t.key I.cost sc) (sortIds T)) rfl
    (fun T => by unfold Tie.order; rw [if_neg (fun h => ht h.1)]) _ _

/-- "At the moment it is bought": in every round the candidates of the model are exactly the best next
    projects (state invariant `Inv` holds of every reachable state: `inv_init`, `inv_buy`). -/
theorem bought_is_best (tsat : List Pid → Rat) (I : Inst) (init : List Pid) (s : State) (hs : Inv I init s)
    (t : Pid) : t ∈ (rule tsat I).tied s ↔ IsBest tsat I s.alloc t :=
  mem_tied_iff_isBest tsat hs t

/-- …and in terms of the state alone: a tied project still fits and maximises the marginal density -/
theorem bought_is_argmax (tsat : List Pid → Rat) (I : Inst) (s : State) (t : Pid)
    (ht : t ∈ (rule tsat I).tied s) :
    t ∈ s.feasible ∧ ∀ q ∈ s.feasible,
      ERat.le (marginal tsat I.cost s.alloc q) (marginal tsat I.cost s.alloc t) = true :=
  tied_spec tsat I.cost s t ht

/-- the round rule stops exactly when nothing fits any more -/
theorem stops_iff_nothing_fits (tsat : List Pid → Rat) (I : Inst) (s : State) :
    (rule tsat I).tied s = [] ↔ s.feasible = [] := tied_eq_nil_iff tsat I.cost s

/-- Irresolute pure run = exactly the allocations the irresolute definition can build. -/
theorem runAllP_iff_spec (tsat : List Pid → Rat) (I : Inst) (init : List Pid) (hwf : WFInput I init)
    (n : Nat) (hn : (initState I init).feasible.length ≤ n) (W : List Pid) :
    W ∈ (rule tsat I).runAllP n (initState I init) ↔ SpecRunAny tsat I init W := by
  have hinv := inv_init I init hwf.init_nodup hwf.init_sub hwf.init_cost
  constructor
  · exact runAllP_sound_aux tsat I init hwf.cost_nonneg n _ hinv hn W
  · intro h
    exact runAllP_complete_aux tsat I init hwf.cost_nonneg init W h n _ hinv rfl hn

/-- every allocation the irresolute definition can build is valid and exhaustive -/
theorem spec_outcome_good (tsat : List Pid → Rat) (I : Inst) (init : List Pid) (hwf : WFInput I init)
    (W : List Pid) (h : SpecRunAny tsat I init W) : ValidOutcome I init W ∧ Exhaustive I W :=
  runAllP_good tsat I init hwf _ (le_refl _) W ((runAllP_iff_spec tsat I init hwf _ (le_refl _) W).mpr h)

/-- Irresolute executable run (`generalAll`): the returned list is exactly the set of name-sorted
    allocations the irresolute definition can build; each is valid and exhaustive. -/
theorem generalAll_follows_definition (tsat : List Pid → Rat) (I : Inst) (init : List Pid) (hwf : WFInput I init)
    (order : List Pid → Except Err (List Pid)) (hord : ∀ T l, order T = .ok l → l.Perm T)
    (Ws : List (List Pid)) (h : generalAll tsat I init order = .ok Ws) :
    (∀ W ∈ Ws, ValidOutcome I init W ∧ Exhaustive I W ∧ I.isExhaustive W = true) ∧
    (∀ W, W ∈ Ws ↔ ∃ W', SpecRunAny tsat I init W' ∧ W = sortIds W') := by
  have hgood := generalAll_good tsat I init hwf order (fun T l hl => (perm_mem_ne (hord T l hl)).1) Ws h
  refine ⟨fun W hW => ⟨(hgood W hW).1, (hgood W hW).2, (hgood W hW).2.isExhaustive⟩, ?_⟩
  intro W
  unfold generalAll at h
  cases hr : (rule tsat I).runAll order (initState I init).feasible.length (initState I init) with
  | error e => rw [hr] at h; simp [Except.map] at h
  | ok ls =>
    rw [hr] at h
    simp only [Except.map] at h
    rw [← Except.ok.inj h, mem_canonOutcomes_iff]
    have hiff := runAll_mem_iff (rule tsat I) order (fun T l hl x => (hord T l hl).mem_iff) _ _ ls hr
    constructor
    · intro ⟨W', h1, h2⟩
      exact ⟨W', (runAllP_iff_spec tsat I init hwf _ (le_refl _) W').mp ((hiff W').mp h1), h2⟩
    · intro ⟨W', h1, h2⟩
      exact ⟨W', (hiff W').mpr ((runAllP_iff_spec tsat I init hwf _ (le_refl _) W').mpr h1), h2⟩

theorem generalAll_follows_definition_tie (tsat : List Pid → Rat) (I : Inst) (init : List Pid) (hwf : WFInput I init)
    (t : Tie) (sc : Pid → Nat) (Ws : List (List Pid)) (h : generalAll tsat I init (t.order I.cost sc) = .ok Ws) :
    (∀ W ∈ Ws, ValidOutcome I init W ∧ Exhaustive I W ∧ I.isExhaustive W = true) ∧
    (∀ W, W ∈ Ws ↔ ∃ W', SpecRunAny tsat I init W' ∧ W = sortIds W') :=
  generalAll_follows_definition tsat I init hwf _ (Tie_order_perm t I.cost sc) Ws h

/-! ### Additive fast path -/

/-- the single pass: duplicate-free, within the remaining budget, and no skipped project fits at the end -/
theorem pass_spec (cost : Pid → Rat) (l : List Pid) (rem : Rat) (hl : l.Nodup) (hrem : 0 ≤ rem)
    (hc : ∀ p ∈ l, 0 ≤ cost p) :
    (pass cost rem l).Nodup ∧ (∀ p ∈ pass cost rem l, p ∈ l) ∧ costOf cost (pass cost rem l) ≤ rem ∧
      ∀ p ∈ l, p ∉ pass cost rem l → rem < costOf cost (pass cost rem l) + cost p :=
  ⟨pass_nodup cost l rem hl, pass_subset cost l rem, pass_cost_le cost l rem hrem, pass_exhaustive cost l rem hc⟩

/-- Additive fast path: every returned allocation is valid and exhaustive. -/
theorem additive_exhaustive (score : Pid → Rat) (I : Inst) (init : List Pid) (hwf : WFInput I init)
    (order : List Pid → Except Err (List Pid)) (hord : ∀ T l, order T = .ok l → l.Perm T)
    (W : List Pid) (h : additive score I init order = .ok W) :
    ValidOutcome I init W ∧ Exhaustive I W ∧ I.isExhaustive W = true := by
  have := additive_good score I init hwf order hord W h
  exact ⟨this.1, this.2, this.2.isExhaustive⟩

theorem additive_exhaustive_tie (score : Pid → Rat) (I : Inst) (init : List Pid) (hwf : WFInput I init)
    (t : Tie) (sc : Pid → Nat) (W : List Pid) (h : additive score I init (t.order I.cost sc) = .ok W) :
    ValidOutcome I init W ∧ Exhaustive I W ∧ I.isExhaustive W = true :=
  additive_exhaustive score I init hwf _ (Tie_order_perm t I.cost sc) W h

/-- For an additive satisfaction (`AdditiveSat tsat score`: adding `p` to any allocation gains `score p`;
    instances `additiveSat_sumOver`, `additiveSat_voters`) with non-negative scores and a consistent tie-breaking (every tied list is
    returned in one fixed strict order `lt`), both paths return, and they select the same set. -/
theorem additive_eq_general (tsat : List Pid → Rat) (score : Pid → Rat) (htsat : AdditiveSat tsat score) (I : Inst) (init : List Pid) (hwf : WFInput I init)
    (hscore : ∀ p ∈ I.projects, 0 ≤ score p)
    (order : List Pid → Except Err (List Pid)) (ord : List Pid → List Pid) (lt : Pid → Pid → Prop)
    (hasym : ∀ a b, lt a b → lt b a → False)
    (hordP : ∀ T : List Pid, T.Nodup → (ord T).Perm T ∧ (ord T).Pairwise lt)
    (horder : ∀ T, order T = .ok (ord T)) :
    ∃ Wa Wg, additive score I init order = .ok Wa ∧
      general tsat I init order = .ok Wg ∧ Wa.Perm Wg :=
  Greedy.additive_eq_general tsat score htsat I init hwf hscore order ord lt hasym hordP horder

/-- …in particular for every shipped tie-breaking rule that does not raise -/
theorem additive_eq_general_tie (tsat : List Pid → Rat) (score : Pid → Rat) (htsat : AdditiveSat tsat score) (I : Inst) (init : List Pid) (hwf : WFInput I init)
    (hscore : ∀ p ∈ I.projects, 0 ≤ score p) (t : Tie) (ht : t ≠ .refuse) (sc : Pid → Nat) :
    ∃ Wa Wg, additive score I init (t.order I.cost sc) = .ok Wa ∧
      general tsat I init (t.order I.cost sc) = .ok Wg ∧ Wa.Perm Wg :=
  Greedy.additive_eq_general_tie tsat score htsat I init hwf hscore t ht sc

/-- same set ⇒ same name-sorted list (what the library returns is compared as a set) -/
theorem perm_sortIds_eq {Wa Wg : List Pid} (h : Wa.Perm Wg) (hnd : Wg.Nodup) : sortIds Wa = sortIds Wg := by
  have hp : (sortIds Wa).Perm (sortIds Wg) := ((sortLe_perm _ Wa).trans h).trans (sortLe_perm _ Wg).symm
  have hs : ∀ W : List Pid, W.Nodup → (sortIds W).Pairwise (fun a b => a < b) := by
    intro W hW
    have := (tie_order_sorted (fun _ => 0) W hW).2
    have h2 : sortKey (fun _ : Pid => (0 : Rat)) (sortIds W) = sortIds W := by
      have : ∀ l : List Pid, sortKey (fun _ : Pid => (0 : Rat)) l = l := by
        intro l
        induction l with
        | nil => rfl
        | cons x xs ih =>
          have e : sortKey (fun _ : Pid => (0 : Rat)) (x :: xs)
              = insertLe (fun a b => decide ((fun _ : Pid => (0 : Rat)) a ≤ (fun _ : Pid => (0 : Rat)) b)) x
                  (sortKey (fun _ : Pid => (0 : Rat)) xs) := rfl
          rw [e, ih]
          cases xs with
          | nil => rfl
          | cons y ys => simp [insertLe]
      exact this _
    rw [h2] at this
    refine this.imp ?_
    intro a b hab
    unfold tieLt at hab
    rcases hab with h | h
    · exact absurd h (lt_irrefl _)
    · exact h.2
  exact List.Perm.eq_of_pairwise (le := fun a b : Pid => a < b)
    (fun a b _ _ h1 h2 => absurd h1 (Nat.lt_asymm h2)) (hs Wa (h.nodup_iff.mpr hnd)) (hs Wg hnd) hp

/-! ### The hypotheses are satisfiable on a concrete non-trivial input

  projects 0,1,2,3 with costs 2,3,0,5 (project 2 is free, project 3 never fits), budget 4,
  additive scores 3,4,0,1.  The model returns `[2, 0]` on the general path and `[0, 2]` on the fast path
  (`#eval`), the same set. -/

def exI : Inst := ⟨[0, 1, 2, 3], fun p => if p = 0 then 2 else if p = 1 then 3 else if p = 2 then 0 else 5, 4⟩
def exScore : Pid → Rat := fun p => if p = 0 then 3 else if p = 1 then 4 else if p = 2 then 0 else 1

theorem exI_wf (init : List Pid) (h1 : init.Nodup) (h2 : ∀ p ∈ init, p ∈ exI.projects)
    (h3 : costOf exI.cost init ≤ exI.budget) : WFInput exI init where
  projects_nodup := by decide
  cost_nonneg := by
    intro p hp
    simp only [exI, List.mem_cons, List.not_mem_nil, or_false] at hp
    rcases hp with rfl | rfl | rfl | rfl <;> simp [exI]
  init_nodup := h1
  init_sub := h2
  init_cost := h3

example : WFInput exI [] := exI_wf [] (by decide) (by decide) (by simp [exI, costOf, sumOver])
example : WFInput exI [2] := exI_wf [2] (by decide) (by decide) (by simp [exI, costOf, sumOver])

example : ∀ p ∈ exI.projects, 0 ≤ exScore p := by
  intro p hp
  simp only [exI, List.mem_cons, List.not_mem_nil, or_false] at hp
  rcases hp with rfl | rfl | rfl | rfl <;> simp [exScore]

/-- the tie-breaking hypothesis of the general theorems holds of every shipped rule -/
example (t : Tie) (sc : Pid → Nat) : ∀ T l, t.order exI.cost sc T = .ok l → l.Perm T :=
  Tie_order_perm t exI.cost sc

/-- the hypotheses of `additive_eq_general` hold of the lexicographic rule -/
example : ∀ T : List Pid, T.Nodup →
    (sortKey (Tie.lexico.key exI.cost (fun _ => 0)) (sortIds T)).Perm T ∧
    (sortKey (Tie.lexico.key exI.cost (fun _ => 0)) (sortIds T)).Pairwise
      (tieLt (Tie.lexico.key exI.cost (fun _ => 0))) :=
  fun T hT => tie_order_sorted _ T hT

example : ∃ Wa Wg, additive exScore exI [] (Tie.lexico.order exI.cost (fun _ => 0)) = .ok Wa ∧
    general (fun l => sumOver l exScore) exI [] (Tie.lexico.order exI.cost (fun _ => 0)) = .ok Wg ∧ Wa.Perm Wg :=
  additive_eq_general_tie _ exScore (additiveSat_sumOver exScore) exI []
    (exI_wf [] (by decide) (by decide) (by simp [exI, costOf, sumOver]))
    (by
      intro p hp
      simp only [exI, List.mem_cons, List.not_mem_nil, or_false] at hp
      rcases hp with rfl | rfl | rfl | rfl <;> simp [exScore])
    Tie.lexico (by decide) (fun _ => 0)

end C03
end Pabu

#print axioms Pabu.C03.general_follows_definition
#print axioms Pabu.C03.general_follows_definition_tie
#print axioms Pabu.C03.general_returns
#print axioms Pabu.C03.runP_exhaustive
#print axioms Pabu.C03.runAllP_exhaustive
#print axioms Pabu.C03.bought_is_best
#print axioms Pabu.C03.runAllP_iff_spec
#print axioms Pabu.C03.generalAll_follows_definition
#print axioms Pabu.C03.additive_exhaustive
#print axioms Pabu.C03.additive_eq_general
#print axioms Pabu.C03.additive_eq_general_tie
#print axioms Pabu.C03.perm_sortIds_eq
