/-
  C12 (relaxations) — `validate_price_system(..., stable=True, relaxation=R)` with the five relaxations of
  pabutools/analysis/priceability_relaxation.py.  The relaxation replaces the cost on the right-hand side of the
  stability condition S5 by a relaxed cost `rc c` (`MinMul`: cost·β, `MinAdd`: cost+β, `MinAddVector(Positive)`:
  cost+β_c, `MinAddOffset`: cost+β+β_c) and nothing else.
  * with the neutral β (1, 0, ≡0) the relaxed validator IS the validator;
  * a larger relaxed cost accepts more (monotonicity), on the definition and on the validator;
  * a non-positive additive β / a multiplicative β ≤ 1 gives a stable, hence plain, price system;
  * the relaxed validator is complete and sound up to the same rounding margins as the plain one.
  (That the β returned by the MIP search is the optimum is checked against an exact rational LP oracle by the harness,
  not proved: it depends on the CBC solver.)
-/
import PabuProofs.Lemmas.PriceRelax
import PabuProofs.Properties.C12
namespace Pabu.Price
open Pabu

/-! ### the neutral relaxation -/

/-- the relaxed validator reads the relaxed costs on the unselected projects only -/
theorem validateRelaxed_congr (X : Input) (rc rc' : Pid → Rat) (stable exhaustive : Bool)
    (h : ∀ c ∈ X.NW, rc c = rc' c) : validateRelaxed X rc stable exhaustive = validateRelaxed X rc' stable exhaustive := by
  unfold validateRelaxed
  rw [s5R_congr X rc rc' h]

theorem exactRelaxed_congr (X : Input) (rc rc' : Pid → Rat) (stable exhaustive : Bool)
    (h : ∀ c ∈ X.NW, rc c = rc' c) : exactRelaxed X rc stable exhaustive = exactRelaxed X rc' stable exhaustive := by
  unfold exactRelaxed
  rw [es5R_congr X rc rc' h]

/-- relaxed cost = cost: the relaxed validator is the validator -/
theorem validateRelaxed_eq_validate (X : Input) (rc : Pid → Rat) (stable exhaustive : Bool)
    (h : ∀ c ∈ X.NW, rc c = X.cost c) : validateRelaxed X rc stable exhaustive = validate X stable exhaustive := by
  rw [validateRelaxed_congr X rc X.cost stable exhaustive h]
  rfl

/-- … and the relaxed definition is the definition -/
theorem exactRelaxed_eq_exact (X : Input) (rc : Pid → Rat) (stable exhaustive : Bool)
    (h : ∀ c ∈ X.NW, rc c = X.cost c) : exactRelaxed X rc stable exhaustive = exact X stable exhaustive := by
  rw [exactRelaxed_congr X rc X.cost stable exhaustive h]
  rfl

/-- `MinMul` with β = 1 -/
theorem validateRelaxed_minMul_one (X : Input) (stable exhaustive : Bool) :
    validateRelaxed X (rcMinMul X.cost 1) stable exhaustive = validate X stable exhaustive :=
  validateRelaxed_eq_validate X _ stable exhaustive (fun c _ => by unfold rcMinMul; ring)

/-- `MinAdd` with β = 0 -/
theorem validateRelaxed_minAdd_zero (X : Input) (stable exhaustive : Bool) :
    validateRelaxed X (rcMinAdd X.cost 0) stable exhaustive = validate X stable exhaustive :=
  validateRelaxed_eq_validate X _ stable exhaustive (fun c _ => by unfold rcMinAdd; ring)

/-- `MinAddVector` / `MinAddVectorPositive` with β ≡ 0 on the unselected projects -/
theorem validateRelaxed_minAddVector_zero (X : Input) (βv : Pid → Rat) (stable exhaustive : Bool)
    (h : ∀ c ∈ X.NW, βv c = 0) :
    validateRelaxed X (rcMinAddVector X.cost βv) stable exhaustive = validate X stable exhaustive :=
  validateRelaxed_eq_validate X _ stable exhaustive (fun c hc => by unfold rcMinAddVector; rw [h c hc]; ring)

/-- `MinAddOffset` with β = 0 and β_c ≡ 0 on the unselected projects -/
theorem validateRelaxed_minAddOffset_zero (X : Input) (βv : Pid → Rat) (stable exhaustive : Bool)
    (h : ∀ c ∈ X.NW, βv c = 0) :
    validateRelaxed X (rcMinAddOffset X.cost 0 βv) stable exhaustive = validate X stable exhaustive :=
  validateRelaxed_eq_validate X _ stable exhaustive (fun c hc => by unfold rcMinAddOffset; rw [h c hc]; ring)

/-- without `stable` the relaxation is not read at all (condition C5 keeps the true cost) -/
theorem validateRelaxed_plain (X : Input) (rc : Pid → Rat) (exhaustive : Bool) :
    validateRelaxed X rc false exhaustive = validate X false exhaustive := rfl

/-! ### monotonicity -/

/-- a pointwise larger relaxed cost accepts more: on the definition … -/
theorem exactRelaxed_mono (X : Input) (rc rc' : Pid → Rat) (stable exhaustive : Bool)
    (h : ∀ c ∈ X.NW, rc c ≤ rc' c) (E : ExactRelaxed X rc stable exhaustive) : ExactRelaxed X rc' stable exhaustive :=
  { feasible := E.feasible, exhaust := E.exhaust, approved := E.approved, nonneg := E.nonneg, within := E.within,
    selected := E.selected, unselected := E.unselected, noMoney := E.noMoney,
    stab := fun hs c hc => le_trans (E.stab hs c hc) (h c hc) }

/-- … on the executable definition … -/
theorem exactRelaxed_mono_bool (X : Input) (rc rc' : Pid → Rat) (stable exhaustive : Bool)
    (h : ∀ c ∈ X.NW, rc c ≤ rc' c) (E : exactRelaxed X rc stable exhaustive = true) :
    exactRelaxed X rc' stable exhaustive = true :=
  (exactRelaxed_iff X rc' stable exhaustive).mpr
    (exactRelaxed_mono X rc rc' stable exhaustive h ((exactRelaxed_iff X rc stable exhaustive).mp E))

/-- … and on the validator itself (`round(·, 2)` is monotone) -/
theorem validateRelaxed_mono (X : Input) (rc rc' : Pid → Rat) (stable exhaustive : Bool)
    (h : ∀ c ∈ X.NW, rc c ≤ rc' c) (hv : validateRelaxed X rc stable exhaustive = true) :
    validateRelaxed X rc' stable exhaustive = true := by
  cases stable with
  | false => exact hv
  | true =>
    rw [validateRelaxed_stable_iff] at hv ⊢
    refine ⟨hv.1, ?_⟩
    have h5 := (s5R_iff X rc).mp hv.2
    rw [s5R_iff]
    intro c hc hpos
    apply h5 c hc
    have := roundCmp_mono (le_refl (stableOf X c)) (h c hc)
    linarith

/-! ### a relaxation that does not relax -/

/-- a price system that is stable w.r.t. relaxed costs not above the true costs is stable -/
theorem stable_of_relaxed_le (X : Input) (rc : Pid → Rat) (exhaustive : Bool) (h : ∀ c ∈ X.NW, rc c ≤ X.cost c)
    (E : ExactRelaxed X rc true exhaustive) : Exact X true exhaustive :=
  (exactRelaxed_cost_iff X true exhaustive).mp (exactRelaxed_mono X rc X.cost true exhaustive h E)

/-- `MinAdd` with β ≤ 0 -/
theorem stable_of_relaxed_nonpos (X : Input) (β : Rat) (exhaustive : Bool) (hβ : β ≤ 0)
    (E : ExactRelaxed X (rcMinAdd X.cost β) true exhaustive) : Exact X true exhaustive :=
  stable_of_relaxed_le X _ exhaustive (fun c _ => by unfold rcMinAdd; linarith) E

/-- `MinMul` with β ≤ 1 (non-negative costs) -/
theorem stable_of_relaxed_minMul (X : Input) (β : Rat) (exhaustive : Bool) (hβ : β ≤ 1)
    (hcost : ∀ c ∈ X.NW, 0 ≤ X.cost c) (E : ExactRelaxed X (rcMinMul X.cost β) true exhaustive) : Exact X true exhaustive :=
  stable_of_relaxed_le X _ exhaustive
    (fun c hc => by unfold rcMinMul; nlinarith [hcost c hc]) E

/-- `MinAddVector` with β_c ≤ 0 on the unselected projects -/
theorem stable_of_relaxed_minAddVector (X : Input) (βv : Pid → Rat) (exhaustive : Bool) (hβ : ∀ c ∈ X.NW, βv c ≤ 0)
    (E : ExactRelaxed X (rcMinAddVector X.cost βv) true exhaustive) : Exact X true exhaustive :=
  stable_of_relaxed_le X _ exhaustive (fun c hc => by unfold rcMinAddVector; linarith [hβ c hc]) E

/-- `MinAddOffset` with β + β_c ≤ 0 on the unselected projects -/
theorem stable_of_relaxed_minAddOffset (X : Input) (β : Rat) (βv : Pid → Rat) (exhaustive : Bool)
    (hβ : ∀ c ∈ X.NW, β + βv c ≤ 0)
    (E : ExactRelaxed X (rcMinAddOffset X.cost β βv) true exhaustive) : Exact X true exhaustive :=
  stable_of_relaxed_le X _ exhaustive (fun c hc => by unfold rcMinAddOffset; linarith [hβ c hc]) E

/-- … hence (with `stable_implies_plain`) the allocation is priceable in the plain sense -/
theorem priceable_of_relaxed_nonpos (X : Input) (β : Rat) (exhaustive : Bool) (hβ : β ≤ 0)
    (E : ExactRelaxed X (rcMinAdd X.cost β) true exhaustive) : Exact X false exhaustive :=
  stable_implies_plain X exhaustive (stable_of_relaxed_nonpos X β exhaustive hβ E)

theorem priceable_of_relaxed_minMul (X : Input) (β : Rat) (exhaustive : Bool) (hβ : β ≤ 1)
    (hcost : ∀ c ∈ X.NW, 0 ≤ X.cost c) (E : ExactRelaxed X (rcMinMul X.cost β) true exhaustive) : Exact X false exhaustive :=
  stable_implies_plain X exhaustive (stable_of_relaxed_minMul X β exhaustive hβ hcost E)

/-- conversely a stable price system is stable for every relaxation that does not lower the costs
    (`MinMul` β ≥ 1, `MinAdd` β ≥ 0, `MinAddVectorPositive`, …): the optimum of the relaxed search is at most the neutral β -/
theorem relaxed_of_stable (X : Input) (rc : Pid → Rat) (exhaustive : Bool) (h : ∀ c ∈ X.NW, X.cost c ≤ rc c)
    (E : Exact X true exhaustive) : ExactRelaxed X rc true exhaustive :=
  exactRelaxed_mono X X.cost rc true exhaustive h ((exactRelaxed_cost_iff X true exhaustive).mpr E)

/-! ### the relaxed validator is complete and sound up to the rounding tolerance -/

/-- completeness: a pair that meets every condition exactly (S5 with the relaxed costs) is accepted -/
theorem validateRelaxed_complete (X : Input) (rc : Pid → Rat) (stable exhaustive : Bool)
    (E : ExactRelaxed X rc stable exhaustive) : validateRelaxed X rc stable exhaustive = true := by
  cases stable with
  | false =>
    -- the relaxation is not read: this is `validate_complete`
    rw [validateRelaxed_plain]
    exact validate_complete X false exhaustive
      ⟨E.feasible, E.exhaust, E.approved, E.nonneg, E.within, E.selected, E.unselected, E.noMoney, fun h => by cases h⟩
  | true =>
    -- the shared conjuncts come from `validate_complete` for the plain notion; C5 there follows from S5 only through the
    -- costs, so take them from the plain validator of the SAME pair with its last conjunct dropped
    rw [validateRelaxed_stable_iff]
    constructor
    · simp only [Bool.and_eq_true, Bool.or_eq_true, Bool.not_eq_true']
      refine ⟨⟨⟨⟨⟨⟨(c0a_iff X).mpr E.feasible, ?_⟩, (c1_iff X).mpr E.approved⟩, ?_⟩, ?_⟩, ?_⟩, ?_⟩
      · cases exhaustive with
        | false => left; rfl
        | true => right; exact (c0b_iff X).mpr (E.exhaust rfl)
      · rw [cNeg_iff]
        intro v hv c hc
        have h := roundCmp_nonneg (E.nonneg v hv c hc)
        linarith
      · rw [c2_iff]
        intro v hv
        have := roundCmp_nonpos (E.within v hv)
        linarith
      · rw [c3_iff]
        intro c hc
        exact roundCmp_eq_zero (E.selected c hc)
      · rw [c4_iff]
        intro c hc
        exact roundCmp_eq_zero (E.unselected c hc)
    · rw [s5R_iff]
      intro c hc
      have := roundCmp_nonpos (E.stab rfl c hc)
      linarith

/-- soundness with a margin: if some condition is violated by `δ > 1/100` the pair is rejected -/
theorem validateRelaxed_sound_gap (δ : Rat) (hδ : 1 / 100 < δ) (X : Input) (rc : Pid → Rat) (stable exhaustive : Bool)
    (B : BrokenByRelaxed δ X rc stable exhaustive) : validateRelaxed X rc stable exhaustive = false := by
  cases stable with
  | false =>
    rw [validateRelaxed_plain]
    exact validate_sound_gap δ hδ X false exhaustive ((brokenByRelaxed_plain_iff δ X rc exhaustive).mp B)
  | true =>
    rw [← Bool.not_eq_true]
    intro hv
    rw [validateRelaxed_stable_iff] at hv
    obtain ⟨hc, h5⟩ := hv
    cases B with
    | s5 _ h =>
      obtain ⟨c, hcm, hp⟩ := h
      exact (s5R_iff X rc).mp h5 c hcm (roundCmp_pos_of_gap (by linarith))
    | c5 hs _ => cases hs
    | c0a h =>
      simp only [Bool.and_eq_true] at hc
      exact absurd ((c0a_iff X).mp hc.1.1.1.1.1.1) (not_le.mpr h)
    | c0b he h =>
      simp only [Bool.and_eq_true, Bool.or_eq_true, Bool.not_eq_true'] at hc
      obtain ⟨⟨⟨⟨⟨⟨_, hb⟩, _⟩, _⟩, _⟩, _⟩, _⟩ := hc
      rcases hb with hb | hb
      · rw [he] at hb; cases hb
      · obtain ⟨c, hcm, hle⟩ := h
        exact (c0b_iff X).mp hb c hcm hle
    | c1 h =>
      simp only [Bool.and_eq_true] at hc
      obtain ⟨v, hv, c, hcm, ha, hp⟩ := h
      exact hp ((c1_iff X).mp hc.1.1.1.1.2 v hv c hcm ha)
    | neg h =>
      simp only [Bool.and_eq_true] at hc
      obtain ⟨v, hv, c, hcm, hp⟩ := h
      exact (cNeg_iff X).mp hc.1.1.1.2 v hv c hcm (roundCmp_neg_of_gap (by linarith))
    | c2 h =>
      simp only [Bool.and_eq_true] at hc
      obtain ⟨v, hv, hp⟩ := h
      exact (c2_iff X).mp hc.1.1.2 v hv (roundCmp_pos_of_gap (by linarith))
    | c3 h =>
      simp only [Bool.and_eq_true] at hc
      obtain ⟨c, hcm, hp⟩ := h
      have hz := (c3_iff X).mp hc.1.2 c hcm
      rcases le_abs'.mp hp with h' | h'
      · have := roundCmp_neg_of_gap (x := paidFor X c) (y := X.cost c) (by linarith)
        linarith
      · have := roundCmp_pos_of_gap (x := paidFor X c) (y := X.cost c) (by linarith)
        linarith
    | c4 h =>
      simp only [Bool.and_eq_true] at hc
      obtain ⟨c, hcm, hp⟩ := h
      have hz := (c4_iff X).mp hc.2 c hcm
      rcases le_abs'.mp hp with h' | h'
      · have := roundCmp_neg_of_gap (x := paidFor X c) (y := 0) (by linarith)
        linarith
      · have := roundCmp_pos_of_gap (x := paidFor X c) (y := 0) (by linarith)
        linarith

/-- the form stated in the property: a violation by at least 0.1 is always rejected -/
theorem validateRelaxed_sound_margin (X : Input) (rc : Pid → Rat) (stable exhaustive : Bool)
    (B : BrokenByRelaxed (1 / 10) X rc stable exhaustive) : validateRelaxed X rc stable exhaustive = false :=
  validateRelaxed_sound_gap (1 / 10) (by norm_num) X rc stable exhaustive B

/-! ### the hypotheses are satisfiable: the election of `exInput` (project 0 of cost 2 bought by both voters at 1 each,
     project 1 of cost 3 approved by the second voter, whose largest payment is 1) — the smallest multiplicative
     relaxation that keeps the pair stable is β = 1/3, the smallest additive one β = -2 -/

theorem exInput_minMul_third : ExactRelaxed (exInput 1 1 1) (rcMinMul (exInput 1 1 1).cost (1 / 3)) true true := by
  rw [← exactRelaxed_iff]; decide +kernel

theorem exInput_minMul_quarter_fails : ¬ ExactRelaxed (exInput 1 1 1) (rcMinMul (exInput 1 1 1).cost (1 / 4)) true true := by
  rw [← exactRelaxed_iff]; decide +kernel

theorem exInput_minAdd_minus_two : ExactRelaxed (exInput 1 1 1) (rcMinAdd (exInput 1 1 1).cost (-2)) true true := by
  rw [← exactRelaxed_iff]; decide +kernel

example : Exact (exInput 1 1 1) true true :=
  stable_of_relaxed_minMul _ (1 / 3) true (by norm_num) (fun c _ => by unfold exInput; dsimp only; split <;> norm_num)
    exInput_minMul_third

example : Exact (exInput 1 1 1) false true := priceable_of_relaxed_nonpos _ (-2) true (by norm_num) exInput_minAdd_minus_two

example : validateRelaxed (exInput 1 1 1) (rcMinMul (exInput 1 1 1).cost (1 / 3)) true true = true :=
  validateRelaxed_complete _ _ true true exInput_minMul_third

/-- the relaxed cost of project 1 lowered to 1/2 (MinAddVector with β₁ = -5/2): S5 is broken by 1/2 ≥ 1/10 -/
example : BrokenByRelaxed (1 / 10) (exInput 1 1 1) (rcMinAddVector (exInput 1 1 1).cost (fun c => if c = 1 then -5 / 2 else 0)) true true :=
  BrokenByRelaxed.s5 rfl ⟨1, by decide, by
    norm_num [rcMinAddVector, exInput, stableOf, leftover, maxPayment, spent, sumOver, maxRat, List.filter]⟩

end Pabu.Price
