/-
  C12 ← C07 — outcomes of the Method of Equal Shares are priceable, and the payments recorded by
  the run are a price system the validator accepts (model side).
  Proofs: PabuProofs/Lemmas/PriceMes.lean (per-condition lemmas on `MES.Recorded`).

  Setting: an approval election given as a list profile (`n` voters, voter `i` approves `p` iff
  `app i p`; the validator is defined per voter), no initial projects, plain Equal Shares with any
  additive utilities `u`.  Payment functions: `paid L i p` = the money voter `i` lost in the
  recorded round(s) that selected `p` (0 if `p` was never selected); voter budget `budget / n`.

  Hypotheses the proof forces (and nothing else):
    * `0 < u i p ↔ app i p`  on the projects of the instance — utilities are positive exactly on
      the approved projects (needed for C1 one way, for C5 the other way);
    * costs ≥ 0 and budget ≥ 0 — POSITIVE costs are NOT needed: a supported zero-cost project is
      bought up front for free (C3 holds with all payments 0);
    * the tie-breaking function returns elements of the tied set and never returns the empty list
      on a non-empty tied set (every shipped rule: `Tie.order_mem`, `Tie.order_ne_nil`).
  With a cost-proportional utility (`Cost_Sat`) the first hypothesis says exactly "every approved
  project has positive cost" (`mes_priceable_cost_sat`); at the excluded point — an approved project
  of cost 0 — the statement is FALSE: `mes_priceable_zero_cost_counterexample`.
-/
import PabuProofs.Lemmas.PriceMes
import PabuProofs.Lemmas.Tie
import PabuProofs.Properties.C12
namespace Pabu.Price
open Pabu Pabu.MES Pabu.PriceMes

/-- **the recorded run is a price system**: if the record `L` of the resolute run succeeds, then the
    voter budget `budget / n` with the recorded payments `paid L` satisfies every condition of
    `validate_price_system` exactly (plain variant, exhaustiveness not required) for the outcome
    `zero-cost projects ++ recorded selections`, and that outcome is what `MES.run` returns -/
theorem trace_is_price_system {I : Inst} {n : Nat} {u : Nat → Pid → Rat} {app : Nat → Pid → Bool}
    {order : List Pid → Except Err (List Pid)}
    (hord : ∀ T l, order T = .ok l → ∀ x ∈ l, x ∈ T) (hne : ∀ T, T ≠ [] → order T ≠ .ok [])
    (hproj : I.projects.Nodup) (hcost : ∀ p ∈ I.projects, 0 ≤ I.cost p) (hB : 0 ≤ I.budget)
    (hpos : ∀ i, i < n → ∀ p ∈ I.projects, (0 < u i p ↔ app i p = true))
    {L : List Iteration}
    (hL : trace (listV n u) I.cost order (initPool (listV n u) I []).length
      (initState (listV n u) I [] (I.budget / (n : Nat))) = .ok L) :
    MES.run (listV n u) I [] order = .ok (zeroCost (listV n u) I [] ++ selections L) ∧
      Exact (inputOf I n app L (zeroCost (listV n u) I [] ++ selections L) (I.budget / (n : Nat)))
        false false := by
  obtain ⟨s', hrec, hstop⟩ := trace_recorded hord _ _ L hL
  have hnil := tied_nil_iff.mp (hstop (le_refl _) hne)
  have halloc : s'.alloc = zeroCost (listV n u) I [] ++ selections L := by rw [hrec.alloc]; rfl
  constructor
  · unfold MES.run runAt
    rw [numVoters_listV, trace_run hord, hL]
    rfl
  · rw [← halloc]
    exact recorded_exact hproj hcost (div_nonneg hB (Nat.cast_nonneg _))
      (share_le_budget n I.budget hB) hpos hrec hnil

/-- **mes_priceable**: every outcome of plain Equal Shares on an approval list profile is
    priceable — the recorded payments with voter budget `budget / n` are a price system, and
    `validate_price_system` accepts them -/
theorem mes_priceable {I : Inst} {n : Nat} {u : Nat → Pid → Rat} {app : Nat → Pid → Bool}
    {order : List Pid → Except Err (List Pid)}
    (hord : ∀ T l, order T = .ok l → ∀ x ∈ l, x ∈ T) (hne : ∀ T, T ≠ [] → order T ≠ .ok [])
    (hproj : I.projects.Nodup) (hcost : ∀ p ∈ I.projects, 0 ≤ I.cost p) (hB : 0 ≤ I.budget)
    (hpos : ∀ i, i < n → ∀ p ∈ I.projects, (0 < u i p ↔ app i p = true))
    {W : List Pid} (hW : MES.run (listV n u) I [] order = .ok W) :
    ∃ L, trace (listV n u) I.cost order (initPool (listV n u) I []).length
        (initState (listV n u) I [] (I.budget / (n : Nat))) = .ok L ∧
      W = zeroCost (listV n u) I [] ++ selections L ∧
      Exact (inputOf I n app L W (I.budget / (n : Nat))) false false ∧
      validate (inputOf I n app L W (I.budget / (n : Nat))) false false = true ∧
      Priceable I.projects I.cost I.budget W ((List.range n).map app) false false := by
  have hW' : runAt (listV n u) I [] order (I.budget / (n : Nat)) = .ok W := by
    have h := hW
    unfold MES.run at h
    rw [numVoters_listV] at h
    exact h
  obtain ⟨L, s', hL, _, _, _⟩ := runAt_recorded hord hW'
  obtain ⟨hrun, hE⟩ := trace_is_price_system (app := app) hord hne hproj hcost hB hpos hL
  have hWeq : W = zeroCost (listV n u) I [] ++ selections L := by
    rw [hW] at hrun; exact Except.ok.inj hrun
  rw [← hWeq] at hE
  refine ⟨L, hL, hWeq, hE, validate_complete _ false false hE, ?_⟩
  refine ⟨I.budget / (n : Nat), (inputOf I n app L W (I.budget / (n : Nat))).N, ?_, hE⟩
  show ((List.range n).map (fun i => (⟨app i, paid L i⟩ : PVoter))).map (fun v => v.app) = _
  rw [List.map_map]
  rfl

theorem range_map_getD {α : Type} (l : List α) (d : α) :
    (List.range l.length).map (fun i => l.getD i d) = l := by
  apply List.ext_getElem
  · simp
  · intro i h1 h2
    simp [List.getD, h2]

/-- the statement in the form of the earlier `def mes_priceable_FullStatement` (ballots as a list of
    approval functions), for every shipped tie-breaking rule.  (That `def` quantified over ALL order
    functions; the proof needs the order function to return members of the tied set and a non-empty
    list on a non-empty tied set — otherwise the run may stop early and the recorded payments with
    `b = budget / n` violate C5 — so the shipped rule is a parameter here.) -/
theorem mes_priceable_tie (I : Inst) (apps : List (Pid → Bool)) (u : Nat → Pid → Rat)
    (t : Tie) (tcost : Pid → Rat) (score : Pid → Nat) (W : List Pid)
    (hB : 0 ≤ I.budget) (hproj : I.projects.Nodup) (hcost : ∀ p ∈ I.projects, 0 ≤ I.cost p)
    (hpos : ∀ i (h : i < apps.length) p, p ∈ I.projects → (0 < u i p ↔ apps[i] p = true))
    (hW : MES.run { vs := List.range apps.length, m := fun _ => 1, u := u } I []
      (Tie.order t tcost score) = .ok W) :
    Priceable I.projects I.cost I.budget W apps false false := by
  have hpos' : ∀ i, i < apps.length → ∀ p ∈ I.projects,
      (0 < u i p ↔ (fun i => apps.getD i (fun _ => false)) i p = true) := by
    intro i hi p hp
    have := hpos i hi p hp
    simp only [List.getD, List.getElem?_eq_getElem hi, Option.getD_some]
    exact this
  obtain ⟨L, _, _, _, _, hP⟩ := mes_priceable (n := apps.length) (u := u)
    (app := fun i => apps.getD i (fun _ => false))
    (Tie.order_mem t tcost score) (Tie.order_ne_nil t tcost score) hproj hcost hB hpos' hW
  rw [range_map_getD] at hP
  exact hP

/-- with the cost-proportional utility of `Cost_Sat` (`u i p = cost p` on approved projects, 0
    elsewhere) the positivity hypothesis is: every approved project has positive cost -/
theorem mes_priceable_cost_sat {I : Inst} {n : Nat} {app : Nat → Pid → Bool}
    {order : List Pid → Except Err (List Pid)}
    (hord : ∀ T l, order T = .ok l → ∀ x ∈ l, x ∈ T) (hne : ∀ T, T ≠ [] → order T ≠ .ok [])
    (hproj : I.projects.Nodup) (hcost : ∀ p ∈ I.projects, 0 ≤ I.cost p) (hB : 0 ≤ I.budget)
    (happ : ∀ i, i < n → ∀ p ∈ I.projects, app i p = true → 0 < I.cost p)
    {W : List Pid}
    (hW : MES.run (listV n (fun i p => if app i p = true then I.cost p else 0)) I [] order = .ok W) :
    Priceable I.projects I.cost I.budget W ((List.range n).map app) false false := by
  have hpos : ∀ i, i < n → ∀ p ∈ I.projects,
      (0 < (fun i p => if app i p = true then I.cost p else 0) i p ↔ app i p = true) := by
    intro i hi p hp
    by_cases ha : app i p = true
    · simp only [if_pos ha]; exact ⟨fun _ => ha, fun _ => happ i hi p hp ha⟩
    · simp only [if_neg ha]; exact ⟨fun h => absurd h (lt_irrefl 0), fun h => absurd h ha⟩
  obtain ⟨L, _, _, _, _, hP⟩ := mes_priceable hord hne hproj hcost hB hpos hW
  exact hP

/-! ### The excluded point: an approved project of cost 0 under a cost-proportional utility -/

/-- projects a = 0 (cost 2), z = 1 (cost 0); budget 4 -/
def cexI : Inst := ⟨[0, 1], fun p => if p = 0 then 2 else 0, 4⟩

/-- voter 0 approves {a}, voter 1 approves {z} -/
def cexApp : Nat → Pid → Bool := fun i p => decide (p = i)

/-- `Cost_Sat`: the utility of an approved project is its cost -/
def cexU : Nat → Pid → Rat := fun i p => if cexApp i p = true then cexI.cost p else 0

/-- the record of the run on this election -/
def cexL : List Iteration :=
  match trace (listV 2 cexU) cexI.cost (fun l => .ok l) (initPool (listV 2 cexU) cexI []).length
      (initState (listV 2 cexU) cexI [] (cexI.budget / (2 : Nat))) with
  | .ok L => L
  | .error _ => []

/-- **the negation at the excluded point**, kernel-checked: the election satisfies every hypothesis
    of `mes_priceable` except positivity at the approved zero-cost project `z` (`u 1 z = 0`); Equal
    Shares returns `[a]`; the recorded payments are rejected by the exact conditions and by the
    validator; and NO price system exists for `[a]` at all: `z`'s supporter pays nothing (C1, C4), so
    keeps their whole budget `b`, which must be ≤ cost z = 0 (C5), while `a`'s only supporter must
    pay 2 ≤ b (C3, C2) -/
theorem mes_priceable_zero_cost_counterexample :
    (cexI.projects.Nodup ∧ (∀ p ∈ cexI.projects, 0 ≤ cexI.cost p) ∧ 0 ≤ cexI.budget ∧
      cexApp 1 1 = true ∧ cexU 1 1 = 0) ∧
    MES.run (listV 2 cexU) cexI [] (fun l => .ok l) = .ok [0] ∧
    exact (inputOf cexI 2 cexApp cexL [0] (cexI.budget / (2 : Nat))) false false = false ∧
    validate (inputOf cexI 2 cexApp cexL [0] (cexI.budget / (2 : Nat))) false false = false ∧
    ¬ Priceable cexI.projects cexI.cost cexI.budget [0] ((List.range 2).map cexApp) false false := by
  refine ⟨⟨by decide, ?_, by decide +kernel, by decide, by decide +kernel⟩, by decide +kernel,
    by decide +kernel, by decide +kernel, ?_⟩
  · intro p hp
    have : p = 0 ∨ p = 1 := by simpa [cexI] using hp
    rcases this with rfl | rfl <;> decide +kernel
  · rintro ⟨b, N, hN, E⟩
    have hNW : ∀ X : Input, X.C = [0, 1] → X.W = [0] → 1 ∈ X.NW := by
      intro X h1 h2; unfold Input.NW; rw [h1, h2]; decide
    replace hN : N.map (fun v => v.app) = [cexApp 0, cexApp 1] := hN
    cases N with
    | nil => simp at hN
    | cons v0 N1 =>
      cases N1 with
      | nil => simp at hN
      | cons v1 N2 =>
        cases N2 with
        | cons _ _ => simp at hN
        | nil =>
          obtain ⟨a0, p0⟩ := v0
          obtain ⟨a1, p1⟩ := v1
          have h0 : a0 = cexApp 0 := by
            have := congrArg (fun l => l[0]?) hN
            simpa using this
          have h1 : a1 = cexApp 1 := by
            have := congrArg (fun l => l[1]?) hN
            simpa using this
          subst h0 h1
          -- C1: voter 0 pays nothing for z, voter 1 pays nothing for a
          have c1a : p0 1 = 0 := E.approved ⟨cexApp 0, p0⟩ (by simp) 1 (by simp [cexI]) rfl
          have c1b : p1 0 = 0 := E.approved ⟨cexApp 1, p1⟩ (by simp) 0 (by simp [cexI]) rfl
          -- C4: nothing is paid for z
          have c4 : p0 1 + (p1 1 + 0) = 0 := E.unselected 1 (hNW _ rfl rfl)
          -- C3: a is paid for
          have c3 : p0 0 + (p1 0 + 0) = 2 := E.selected 0 (by simp)
          -- C2: voter 0 stays within b
          have c2 : p0 0 + (p0 1 + 0) ≤ b := E.within ⟨cexApp 0, p0⟩ (by simp)
          -- C5: z's supporter holds at most cost z = 0
          have c5 : (b - (p1 0 + (p1 1 + 0))) + 0 ≤ 0 := E.noMoney rfl 1 (hNW _ rfl rfl)
          linarith

/-! ### The hypotheses are satisfiable on a non-trivial input -/

def exI' : Inst := ⟨[0, 1, 2, 3], fun p => if p = 3 then 0 else (p : Rat) + 1, 5⟩
def exApp' : Nat → Pid → Bool := fun i p => (i + p) % 2 == 0 || p == 3
def exU' : Nat → Pid → Rat := fun i p => if exApp' i p = true then 1 else 0

/-- three voters, four projects (one approved project of cost 0, bought up front; two projects are
    left out although their supporters still hold money), `Cardinality_Sat` utilities: every
    hypothesis of `mes_priceable` holds … -/
example : exI'.projects.Nodup ∧ (∀ p ∈ exI'.projects, 0 ≤ exI'.cost p) ∧ 0 ≤ exI'.budget ∧
    (∀ i, i < 3 → ∀ p ∈ exI'.projects, (0 < exU' i p ↔ exApp' i p = true)) ∧
    MES.run (listV 3 exU') exI' [] (Tie.order .lexico exI'.cost (fun _ => 0)) = .ok [3, 0] := by
  refine ⟨by decide, ?_, by decide +kernel, ?_, by decide +kernel⟩
  · intro p hp
    have : p = 0 ∨ p = 1 ∨ p = 2 ∨ p = 3 := by simpa [exI'] using hp
    rcases this with rfl | rfl | rfl | rfl <;> decide +kernel
  · intro i _ p _
    unfold exU'
    by_cases h : exApp' i p = true
    · rw [if_pos h]; exact ⟨fun _ => h, fun _ => one_pos⟩
    · rw [if_neg h]; exact ⟨fun h' => absurd h' (lt_irrefl 0), fun h' => absurd h' h⟩

/-- … and the validator (rounded and exact) accepts the recorded payments, computed directly -/
example :
    (match trace (listV 3 exU') exI'.cost (Tie.order .lexico exI'.cost (fun _ => 0))
        (initPool (listV 3 exU') exI' []).length
        (initState (listV 3 exU') exI' [] (exI'.budget / (3 : Nat))) with
     | .ok L => validate (inputOf exI' 3 exApp' L [3, 0] (exI'.budget / (3 : Nat))) false false &&
         exact (inputOf exI' 3 exApp' L [3, 0] (exI'.budget / (3 : Nat))) false false
     | .error _ => false) = true := by decide +kernel

end Pabu.Price
