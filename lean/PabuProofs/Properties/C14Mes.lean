/-
  C14, last clause — "Outcomes of the Method of Equal Shares with cost satisfaction always pass EJR-up-to-any and
  with cardinality satisfaction EJR-up-to-one, under the same satisfaction measure" — as theorems about the models
  `MES.run` (PabuModel/MES.lean) and `JR.definition` / `JR.Satisfies` (PabuModel/JR.lean, Lemmas/JR.lean).

  * `mes_EJR_any_cost`          Cost_Sat        ⇒ EJR up to any project
  * `mes_EJR_cardinality`       Cardinality_Sat ⇒ EJR (no surplus term at all; zero-cost projects allowed)
  * `mes_EJR_one_cardinality`   Cardinality_Sat ⇒ EJR up to one project (corollary)
  * `mes_EJR_x`                 the statement `mes_EJR_x_FullStatement` of Properties/C14.lean, with the two
                                hypotheses on the tie-breaking function it lacks
  * `mes_EJR_x_needs_order`     without those hypotheses `mes_EJR_x_FullStatement` is false
  Multiprofiles (entries with multiplicities) are covered; a list profile is the case of all multiplicities 1.
-/
import PabuProofs.Lemmas.MesEJR
import PabuProofs.Properties.C14
namespace Pabu.JR
open Pabu List Pabu.MES Pabu.MesEJR

/-! ### the profile as the run and as the checker see it -/

/-- whether entry `i` of the profile approves `p` -/
def appAt (P : List ((Pid → Bool) × Nat)) (i : Nat) (p : Pid) : Bool :=
  (P[i]?.map (fun e => e.1 p)).getD false

/-- entry `i` of the profile as a checker entry, written with the utilities and multiplicities of the run -/
def entryAt (cost : Pid → Rat) (byCost : Bool) (P : List ((Pid → Bool) × Nat)) (i : Nat) : Voter × Nat :=
  ({ app := appAt P i, u := (mesVCtx cost byCost P).u i }, (mesVCtx cost byCost P).m i)

theorem approvalVoters_eq (cost : Pid → Rat) (byCost : Bool) (P : List ((Pid → Bool) × Nat)) :
    approvalVoters cost byCost P = (List.range P.length).map (entryAt cost byCost P) := by
  apply List.ext_getElem
  · simp [approvalVoters]
  · intro i h1 h2
    have hi : i < P.length := by simpa [approvalVoters] using h1
    simp [approvalVoters, entryAt, mesVCtx, List.getElem?_eq_getElem hi]
    funext p
    simp [appAt, List.getElem?_eq_getElem hi]

theorem mes_u_eq (cost : Pid → Rat) (byCost : Bool) (P : List ((Pid → Bool) × Nat)) (i : Nat) (p : Pid) :
    (mesVCtx cost byCost P).u i p = if appAt P i p = true then (if byCost = true then cost p else 1) else 0 := by
  unfold mesVCtx appAt
  simp only
  split <;> simp [*]

theorem sumNat_map {α β : Type} (f : α → β) (g : β → Nat) : ∀ l : List α,
    sumNat (l.map f) g = sumNat l (fun x => g (f x))
  | [] => rfl
  | x :: xs => by simp only [List.map_cons, sumNat, sumNat_map f g xs]

theorem numVoters_mes (cost : Pid → Rat) (byCost : Bool) (P : List ((Pid → Bool) × Nat)) :
    numVoters (mesVCtx cost byCost P) = sumNat P (fun e => e.2) := by
  have h1 : sumNat (approvalVoters cost byCost P) (fun e => e.2) = sumNat P (fun e => e.2) := by
    unfold approvalVoters; rw [sumNat_map]
  rw [← h1, approvalVoters_eq, sumNat_map]
  rfl

theorem mes_mult (cost : Pid → Rat) (byCost : Bool) (P : List ((Pid → Bool) × Nat)) (hm : ∀ e ∈ P, 1 ≤ e.2) :
    ∀ i ∈ (mesVCtx cost byCost P).vs, 1 ≤ (mesVCtx cost byCost P).m i := by
  intro i hi
  have hi' : i < P.length := by simpa [mesVCtx] using hi
  have : (mesVCtx cost byCost P).m i = P[i].2 := by simp [mesVCtx, List.getElem?_eq_getElem hi']
  rw [this]
  exact hm _ (List.getElem_mem hi')

theorem mes_inputOK (I : Inst) (byCost : Bool) (P : List ((Pid → Bool) × Nat)) (hm : ∀ e ∈ P, 1 ≤ e.2)
    (hnd : I.projects.Nodup) (hcost : ∀ p ∈ I.projects, 0 ≤ I.cost p) :
    InputOK (mesVCtx I.cost byCost P) I [] :=
  ⟨mes_mult I.cost byCost P hm, hnd, by simp, by simp, hcost⟩

theorem groupSize_entries (cost : Pid → Rat) (byCost : Bool) (P : List ((Pid → Bool) × Nat)) (G : List Nat) :
    groupSize (G.map (entryAt cost byCost P)) = gsize (mesVCtx cost byCost P) G := by
  unfold groupSize gsize
  rw [sumNat_map]
  rfl

/-! ### from groups of entries of the run to the definition -/

/-- It is enough to find, in every cohesive group of distinct entries (size = summed multiplicities), one entry that
    gets its due: then the outcome satisfies the EJR variant for all groups of individual voters. -/
theorem satisfies_of_entry_groups (I : Inst) (P : List ((Pid → Bool) × Nat)) (byCost : Bool) (up : UpTo)
    (W : List Pid) (hB : 0 ≤ I.budget) (hm : ∀ e ∈ P, 1 ≤ e.2)
    (key : ∀ G : List Nat, G <+ List.range P.length → G ≠ [] → ∀ T, T <+ I.projects → T ≠ [] →
      costOf I.cost T * ((sumNat P (fun e => e.2) : Nat) : Rat) ≤
        ((gsize (mesVCtx I.cost byCost P) G : Nat) : Rat) * I.budget →
      (∀ i ∈ G, ∀ p ∈ T, appAt P i p = true) →
      ∃ j ∈ G, sumOver T ((mesVCtx I.cost byCost P).u j) ≤ sumOver W ((mesVCtx I.cost byCost P).u j) +
        surplus up ((missing W T).map ((mesVCtx I.cost byCost P).u j))) :
    Satisfies (settingOf I byCost P) (expand (approvalVoters I.cost byCost P)) false .ejr up W := by
  have hpos : ∀ e ∈ approvalVoters I.cost byCost P, 1 ≤ e.2 := by
    intro e he
    unfold approvalVoters at he
    obtain ⟨e0, he0, rfl⟩ := List.mem_map.mp he
    exact hm e0 he0
  rw [← checker_iff_satisfies (settingOf I byCost P) _ false .ejr up W hB hpos]
  unfold checker
  rw [forGroups_iff]
  intro D hD T hT hadm
  rw [approvalVoters_eq] at hD
  obtain ⟨G, hG, rfl⟩ := List.sublist_map_iff.mp hD
  have hadm' : ((largeEnough (settingOf I byCost P) (groupSize (G.map (entryAt I.cost byCost P))) T = true ∧
      (!(members (G.map (entryAt I.cost byCost P))).isEmpty) = true) ∧ (!T.isEmpty) = true) ∧
      unanimous (members (G.map (entryAt I.cost byCost P))) T = true := by
    simpa [adm, Bool.and_eq_true] using hadm
  obtain ⟨⟨⟨hlarge, hSne⟩, hTne⟩, hun⟩ := hadm'
  have hGne : G ≠ [] := by
    intro h; subst h; simp [members] at hSne
  have hTne' : T ≠ [] := (isEmpty_false_iff T).mp hTne
  unfold largeEnough at hlarge
  rw [decide_eq_true_eq, groupSize_entries] at hlarge
  have hun' := (unanimous_iff _ _).mp hun
  obtain ⟨j, hj, hok⟩ := key G hG hGne T hT hTne' hlarge (by
    intro i hi p hp
    exact hun' (entryAt I.cost byCost P i).1
      (List.mem_map.mpr ⟨entryAt I.cost byCost P i, List.mem_map.mpr ⟨i, hi, rfl⟩, rfl⟩) p hp)
  show (members (G.map (entryAt I.cost byCost P))).any
    (voterOk false .ejr up W (members (G.map (entryAt I.cost byCost P))) T) = true
  rw [List.any_eq_true]
  refine ⟨(entryAt I.cost byCost P j).1,
    List.mem_map.mpr ⟨entryAt I.cost byCost P j, List.mem_map.mpr ⟨j, hj, rfl⟩, rfl⟩, ?_⟩
  rw [voterOk_iff]
  exact hok

/-- a sub-list of the projects sums to at most the outcome when it is contained in it -/
theorem sat_le_of_subset {T W : List Pid} (f : Pid → Rat) (hTnd : T.Nodup) (hsub : ∀ p ∈ T, p ∈ W)
    (hf : ∀ p ∈ W, 0 ≤ f p) : sumOver T f ≤ sumOver W f :=
  sumOver_subset_nodup f hTnd hsub hf

theorem missing_nil_iff (W T : List Pid) : missing W T = [] ↔ ∀ p ∈ T, p ∈ W := by
  unfold missing
  rw [List.filter_eq_nil_iff]
  simp

/-! ### Cost_Sat: EJR up to any project -/

/-- **Equal Shares with Cost_Sat satisfies EJR up to any project** (positive costs; the tie-breaking function
    returns members of the tied set and a non-empty list on a non-empty set). -/
theorem mes_EJR_any_cost (I : Inst) (P : List ((Pid → Bool) × Nat)) (order : List Pid → Except Err (List Pid))
    (W : List Pid) (hcost : ∀ p ∈ I.projects, 0 < I.cost p) (hB : 0 ≤ I.budget) (hnd : I.projects.Nodup)
    (hm : ∀ e ∈ P, 1 ≤ e.2)
    (hord : ∀ T l, order T = .ok l → ∀ x ∈ l, x ∈ T) (hne : ∀ T, T ≠ [] → order T ≠ .ok [])
    (hrun : MES.run (mesVCtx I.cost true P) I [] order = .ok W) :
    Satisfies (settingOf I true P) (expand (approvalVoters I.cost true P)) false .ejr .any W := by
  apply satisfies_of_entry_groups I P true .any W hB hm
  intro G hG hGne T hT hTne hlarge hun
  have hin := mes_inputOK I true P hm hnd (fun p hp => le_of_lt (hcost p hp))
  have hvs : ∀ i ∈ G, i ∈ (mesVCtx I.cost true P).vs := fun i hi => hG.subset hi
  have hGnd : G.Nodup := List.nodup_range.sublist hG
  have hg : 0 < gsize (mesVCtx I.cost true P) G :=
    sumNat_pos _ G hGne (fun i hi => hin.mult i (hvs i hi))
  have hn : 0 < numVoters (mesVCtx I.cost true P) := by
    obtain ⟨i0, hi0⟩ := List.exists_mem_of_ne_nil G hGne
    exact sumNat_pos _ _ (List.ne_nil_of_mem (hvs i0 hi0)) hin.mult
  have hnq : (0 : Rat) < ((numVoters (mesVCtx I.cost true P) : Nat) : Rat) := by exact_mod_cast hn
  have hb0 := share_nonneg (mesVCtx I.cost true P) I hB
  obtain ⟨_, _, hWnd, hWsub⟩ := runAt_bounds hin hord hb0 hrun
  have hTnd : T.Nodup := hnd.sublist hT
  have hTsub : ∀ p ∈ T, p ∈ I.projects := fun p hp => hT.subset hp
  have hcoh : costOf I.cost T ≤ ((gsize (mesVCtx I.cost true P) G : Nat) : Rat) *
      (I.budget / (numVoters (mesVCtx I.cost true P) : Nat)) := by
    rw [← numVoters_mes I.cost true P] at hlarge
    rw [← mul_div_assoc, le_div_iff₀ hnq]
    exact hlarge
  have hunn : ∀ i ∈ G, ∀ p ∈ I.projects, 0 ≤ (mesVCtx I.cost true P).u i p := by
    intro i _ p hp
    rw [mes_u_eq]
    by_cases ha : appAt P i p = true
    · rw [if_pos ha, if_pos rfl]; exact le_of_lt (hcost p hp)
    · rw [if_neg ha]
  have huT : ∀ i ∈ G, ∀ p ∈ T, (mesVCtx I.cost true P).u i p = I.cost p := by
    intro i hi p hp
    rw [mes_u_eq, if_pos (hun i hi p hp), if_pos rfl]
  have hmapT : ∀ j ∈ G, (missing W T).map ((mesVCtx I.cost true P).u j) = (missing W T).map I.cost := by
    intro j hj
    apply List.map_congr_left
    intro p hp
    exact huT j hj p (List.mem_of_mem_filter hp)
  by_cases hmiss : missing W T = []
  · -- `T ⊆ W`: every member already has its due
    obtain ⟨j, hj⟩ := List.exists_mem_of_ne_nil G hGne
    refine ⟨j, hj, ?_⟩
    rw [hmiss]
    have h0 : surplus .any (List.map ((mesVCtx I.cost true P).u j) []) = 0 := by
      simp [surplus, minRat]
    rw [h0, add_zero]
    exact sat_le_of_subset _ hTnd ((missing_nil_iff W T).mp hmiss) (fun p hp => hunn j hj p (hWsub p hp))
  · -- the project of `T \ W` the surplus term speaks about
    have hne' : (missing W T).map I.cost ≠ [] := by simpa using hmiss
    obtain ⟨m, hmin, hmem, _⟩ := minRat_spec _ hne'
    obtain ⟨c, hcm, rfl⟩ := List.mem_map.mp hmem
    have hcT : c ∈ T := List.mem_of_mem_filter hcm
    have hcW : c ∉ W := by
      have := (List.mem_filter.mp hcm).2
      simpa using this
    obtain ⟨i0, hi0⟩ := List.exists_mem_of_ne_nil G hGne
    have hsup0 : i0 ∈ supporters (mesVCtx I.cost true P) c :=
      mem_supporters.mpr ⟨hvs i0 hi0, by rw [huT i0 hi0 c hcT]; exact hcost c (hTsub c hcT)⟩
    have hcpool : c ∈ initPool (mesVCtx I.cost true P) I [] :=
      mem_initPool.mpr ⟨hTsub c hcT, by simp, totalSat_pos hin.mult hsup0, hcost c (hTsub c hcT)⟩
    obtain ⟨j, hj, hlt⟩ := runAt_cost_bound hin hord hne hb0 hrun G hGnd hvs hg T
      (fun p hp => le_of_lt (hcost p (hTsub p hp))) hcoh hunn huT c hcT hcpool hcW
    refine ⟨j, hj, ?_⟩
    have hs : surplus .any ((missing W T).map ((mesVCtx I.cost true P).u j)) = I.cost c := by
      rw [hmapT j hj]
      show (minRat ((missing W T).map I.cost)).getD 0 = I.cost c
      rw [hmin]; rfl
    have hsT : sumOver T ((mesVCtx I.cost true P).u j) = costOf I.cost T :=
      sumOver_eq _ _ T (huT j hj)
    rw [hs, hsT]
    linarith

/-! ### Cardinality_Sat: EJR, hence EJR up to one project -/

/-- **Equal Shares with Cardinality_Sat satisfies EJR** — with no surplus term (costs ≥ 0; supported zero-cost
    projects are always selected). -/
theorem mes_EJR_cardinality (I : Inst) (P : List ((Pid → Bool) × Nat)) (order : List Pid → Except Err (List Pid))
    (W : List Pid) (hcost : ∀ p ∈ I.projects, 0 ≤ I.cost p) (hB : 0 ≤ I.budget) (hnd : I.projects.Nodup)
    (hm : ∀ e ∈ P, 1 ≤ e.2)
    (hord : ∀ T l, order T = .ok l → ∀ x ∈ l, x ∈ T) (hne : ∀ T, T ≠ [] → order T ≠ .ok [])
    (hrun : MES.run (mesVCtx I.cost false P) I [] order = .ok W) :
    Satisfies (settingOf I false P) (expand (approvalVoters I.cost false P)) false .ejr .none W := by
  apply satisfies_of_entry_groups I P false .none W hB hm
  intro G hG hGne T hT hTne hlarge hun
  have hin := mes_inputOK I false P hm hnd hcost
  have hvs : ∀ i ∈ G, i ∈ (mesVCtx I.cost false P).vs := fun i hi => hG.subset hi
  have hGnd : G.Nodup := List.nodup_range.sublist hG
  have hg : 0 < gsize (mesVCtx I.cost false P) G :=
    sumNat_pos _ G hGne (fun i hi => hin.mult i (hvs i hi))
  have hn : 0 < numVoters (mesVCtx I.cost false P) := by
    obtain ⟨i0, hi0⟩ := List.exists_mem_of_ne_nil G hGne
    exact sumNat_pos _ _ (List.ne_nil_of_mem (hvs i0 hi0)) hin.mult
  have hnq : (0 : Rat) < ((numVoters (mesVCtx I.cost false P) : Nat) : Rat) := by exact_mod_cast hn
  have hb0 := share_nonneg (mesVCtx I.cost false P) I hB
  obtain ⟨_, _, hWnd, hWsub⟩ := runAt_bounds hin hord hb0 hrun
  have hTnd : T.Nodup := hnd.sublist hT
  have hTsub : ∀ p ∈ T, p ∈ I.projects := fun p hp => hT.subset hp
  have hcoh : costOf I.cost T ≤ ((gsize (mesVCtx I.cost false P) G : Nat) : Rat) *
      (I.budget / (numVoters (mesVCtx I.cost false P) : Nat)) := by
    rw [← numVoters_mes I.cost false P] at hlarge
    rw [← mul_div_assoc, le_div_iff₀ hnq]
    exact hlarge
  have hu : ∀ i ∈ G, ∀ p, (mesVCtx I.cost false P).u i p = if appAt P i p = true then 1 else 0 := by
    intro i _ p
    rw [mes_u_eq]
    simp
  have hunn : ∀ i ∈ G, ∀ p, 0 ≤ (mesVCtx I.cost false P).u i p := by
    intro i hi p
    rw [hu i hi p]
    by_cases ha : appAt P i p = true
    · rw [if_pos ha]; norm_num
    · rw [if_neg ha]
  have h0 : ∀ l : List Rat, surplus .none l = 0 := fun _ => rfl
  by_cases hmiss : missing W T = []
  · obtain ⟨j, hj⟩ := List.exists_mem_of_ne_nil G hGne
    refine ⟨j, hj, ?_⟩
    rw [h0, add_zero]
    exact sat_le_of_subset _ hTnd ((missing_nil_iff W T).mp hmiss) (fun p _ => hunn j hj p)
  · have hex : ∃ p ∈ T, p ∉ W := by
      by_contra hcon
      push Not at hcon
      exact hmiss ((missing_nil_iff W T).mpr hcon)
    obtain ⟨j, hj, hle⟩ := runAt_card_bound hin hord hne hb0 hrun G hGnd hvs hg T hTnd hTsub hcoh
      (appAt P) hu hun hex
    refine ⟨j, hj, ?_⟩
    rw [h0, add_zero]
    have hsT : sumOver T ((mesVCtx I.cost false P).u j) = (T.length : Rat) := by
      rw [← sumOver_one]
      apply sumOver_eq
      intro p hp
      rw [hu j hj p, if_pos (hun j hj p hp)]
    rw [hsT]
    exact hle

theorem approvalVoters_nonneg (cost : Pid → Rat) (P : List ((Pid → Bool) × Nat)) :
    ∀ v ∈ expand (approvalVoters cost false P), ∀ p, 0 ≤ v.u p := by
  intro v hv p
  have hmem : ∃ e ∈ approvalVoters cost false P, v = e.1 := by
    generalize approvalVoters cost false P = M at hv
    induction M with
    | nil => simp [expand] at hv
    | cons e r ih =>
      rw [expand_cons, List.mem_append] at hv
      rcases hv with hv | hv
      · exact ⟨e, by simp, (List.mem_replicate.mp hv).2⟩
      · obtain ⟨e', he', hve⟩ := ih hv
        exact ⟨e', by simp [he'], hve⟩
  obtain ⟨e, he, rfl⟩ := hmem
  unfold approvalVoters at he
  obtain ⟨e0, _, rfl⟩ := List.mem_map.mp he
  show 0 ≤ (if e0.1 p = true then (if false = true then cost p else 1) else 0 : Rat)
  by_cases ha : e0.1 p = true
  · rw [if_pos ha, if_neg (by simp)]; norm_num
  · rw [if_neg ha]

/-- **Equal Shares with Cardinality_Sat satisfies EJR up to one project** (and up to any project). -/
theorem mes_EJR_one_cardinality (I : Inst) (P : List ((Pid → Bool) × Nat)) (order : List Pid → Except Err (List Pid))
    (W : List Pid) (hcost : ∀ p ∈ I.projects, 0 ≤ I.cost p) (hB : 0 ≤ I.budget) (hnd : I.projects.Nodup)
    (hm : ∀ e ∈ P, 1 ≤ e.2)
    (hord : ∀ T l, order T = .ok l → ∀ x ∈ l, x ∈ T) (hne : ∀ T, T ≠ [] → order T ≠ .ok [])
    (hrun : MES.run (mesVCtx I.cost false P) I [] order = .ok W) :
    Satisfies (settingOf I false P) (expand (approvalVoters I.cost false P)) false .ejr .any W ∧
    Satisfies (settingOf I false P) (expand (approvalVoters I.cost false P)) false .ejr .one W := by
  have h := mes_EJR_cardinality I P order W hcost hB hnd hm hord hne hrun
  have hany := plain_imp_any (settingOf I false P) _ false .ejr W (approvalVoters_nonneg I.cost P)
    (by intro p; show (0 : Rat) ≤ if false = true then I.cost p else 1; rw [if_neg (by simp)]; norm_num) h
  exact ⟨hany, any_imp_one (settingOf I false P) _ false .ejr W hany⟩

/-! ### the statement of Properties/C14.lean -/

/-- `mes_EJR_x_FullStatement` with the hypotheses on the tie-breaking function made explicit -/
theorem mes_EJR_x (I : Inst) (P : List ((Pid → Bool) × Nat)) (order : List Pid → Except Err (List Pid))
    (W : List Pid) (byCost : Bool)
    (hcost : ∀ p ∈ I.projects, 0 < I.cost p) (hB : 0 < I.budget) (hnd : I.projects.Nodup)
    (hm : ∀ e ∈ P, 1 ≤ e.2)
    (hord : ∀ T l, order T = .ok l → ∀ x ∈ l, x ∈ T) (hne : ∀ T, T ≠ [] → order T ≠ .ok [])
    (hrun : MES.run (mesVCtx I.cost byCost P) I [] order = .ok W) :
    Satisfies (settingOf I byCost P) (expand (approvalVoters I.cost byCost P)) false .ejr
      (if byCost then .any else .one) W := by
  cases byCost with
  | true => exact mes_EJR_any_cost I P order W hcost (le_of_lt hB) hnd hm hord hne hrun
  | false =>
    exact (mes_EJR_one_cardinality I P order W (fun p hp => le_of_lt (hcost p hp)) (le_of_lt hB) hnd hm
      hord hne hrun).2

/-- every shipped tie-breaking rule except `refuse` meets the two hypotheses -/
theorem tie_order_ok (t : Tie) (cost : Pid → Rat) (score : Pid → Nat) (ht : t ≠ .refuse) :
    (∀ T l, t.order cost score T = .ok l → ∀ x ∈ l, x ∈ T) ∧
    (∀ T, T ≠ [] → t.order cost score T ≠ .ok []) := by
  have hperm : ∀ T : List Pid, (sortKey (t.key cost score) (sortIds T)).Perm T := fun T =>
    (sortLe_perm _ _).trans (sortLe_perm _ _)
  have hok : ∀ T, t.order cost score T = .ok (sortKey (t.key cost score) (sortIds T)) := by
    intro T
    unfold Tie.order
    rw [if_neg (fun h => ht h.1)]
  constructor
  · intro T l hl x hx
    rw [hok T] at hl
    cases hl
    exact (hperm T).mem_iff.mp hx
  · intro T hT hl
    rw [hok T] at hl
    have h := Except.ok.inj hl
    have := (hperm T).length_eq
    rw [h] at this
    exact hT (List.eq_nil_of_length_eq_zero this.symm)

/-! ### the hypotheses are satisfiable, and the two on the tie-breaking function are needed -/

/-- two voters, three projects: voter 0 approves everything, voter 1 only the expensive project 2 -/
def mesExI : Inst := ⟨[0, 1, 2], fun p => if p = 2 then 3 else 1, 4⟩
def mesExP : List ((Pid → Bool) × Nat) := [(fun _ => true, 1), (fun p => p == 2, 1)]
def mesExOrder : List Pid → Except Err (List Pid) := Tie.lexico.order mesExI.cost (fun _ => 0)

theorem mesEx_hyps :
    (∀ p ∈ mesExI.projects, 0 < mesExI.cost p) ∧ 0 < mesExI.budget ∧ mesExI.projects.Nodup ∧
    (∀ e ∈ mesExP, 1 ≤ e.2) ∧ (∀ T l, mesExOrder T = .ok l → ∀ x ∈ l, x ∈ T) ∧
    (∀ T, T ≠ [] → mesExOrder T ≠ .ok []) := by
  refine ⟨?_, by norm_num [mesExI], by decide, ?_, (tie_order_ok .lexico _ _ (by decide)).1,
    (tie_order_ok .lexico _ _ (by decide)).2⟩
  · intro p _
    show (0 : Rat) < if p = 2 then 3 else 1
    split <;> norm_num
  · intro e he
    simp only [mesExP, List.mem_cons, List.not_mem_nil, or_false] at he
    rcases he with rfl | rfl <;> simp

/-- with Cost_Sat the run first buys the jointly supported project 2 (price 1/2 per unit), after which voter 0 can
    afford neither 0 nor 1; with Cardinality_Sat it buys 0 and 1 -/
theorem mesEx_run :
    MES.run (mesVCtx mesExI.cost true mesExP) mesExI [] mesExOrder = .ok [2] ∧
    MES.run (mesVCtx mesExI.cost false mesExP) mesExI [] mesExOrder = .ok [0, 1] := by
  constructor <;> decide +kernel

/-- voter 0 alone is `{0, 1}`-cohesive (cost 2, 2·2 ≤ 1·4), and `{0, 1}` is disjoint from the Cost_Sat outcome `[2]`:
    the theorem is used on a genuinely cohesive group whose projects were not bought -/
theorem mesEx_cohesive (byCost : Bool) :
    ∃ S T, S <+ expand (approvalVoters mesExI.cost byCost mesExP) ∧ T <+ (settingOf mesExI byCost mesExP).projects ∧
      AdmP (settingOf mesExI byCost mesExP) false .ejr S T ∧ T = [0, 1] := by
  refine ⟨(expand (approvalVoters mesExI.cost byCost mesExP)).take 1, [0, 1], List.take_sublist _ _, ?_, ?_, rfl⟩
  · show [0, 1] <+ [0, 1, 2]
    decide
  · refine ⟨?_, ?_, by simp, Or.inr ?_⟩
    · show costOf mesExI.cost [0, 1] * ((sumNat mesExP (fun e => e.2) : Nat) : Rat) ≤ _
      norm_num [costOf, sumOver, sumNat, mesExI, mesExP, approvalVoters, expand, settingOf]
    · simp [approvalVoters, expand, mesExP]
    · intro v hv p _
      simp [approvalVoters, expand, mesExP] at hv
      subst hv
      rfl

/-- … so the conclusions hold on it: `[2]` passes EJR up to any project under Cost_Sat, `[0, 1]` EJR under Cardinality_Sat -/
theorem mesEx_conclusion :
    Satisfies (settingOf mesExI true mesExP) (expand (approvalVoters mesExI.cost true mesExP)) false .ejr .any [2] ∧
    Satisfies (settingOf mesExI false mesExP) (expand (approvalVoters mesExI.cost false mesExP)) false .ejr .none
      [0, 1] := by
  obtain ⟨h1, h2, h3, h4, h5, h6⟩ := mesEx_hyps
  exact ⟨mes_EJR_any_cost _ _ _ _ h1 (le_of_lt h2) h3 h4 h5 h6 mesEx_run.1,
    mes_EJR_cardinality _ _ _ _ (fun p hp => le_of_lt (h1 p hp)) (le_of_lt h2) h3 h4 h5 h6 mesEx_run.2⟩

/-- `mes_EJR_x_FullStatement` (Properties/C14.lean) quantifies over every tie-breaking function; it is false for one
    that answers a tie with the empty list: one voter approving two unit-cost projects, budget 2 — the run stops with
    nothing bought although the voter is `{0, 1}`-cohesive.  Hence the two hypotheses `hord`, `hne` of `mes_EJR_x`. -/
theorem mes_EJR_x_needs_order : ¬ mes_EJR_x_FullStatement := by
  intro h
  have hs := h ⟨[0, 1], fun _ => 1, 2⟩ [(fun _ => true, 1)] (fun _ => .ok []) [] false
    (by intro p _; norm_num) (by norm_num) (by decide) (by intro e he; simp at he; subst he; simp) (by simp)
    (by decide +kernel)
  rw [← checker_iff_satisfies _ _ _ _ _ _ (by norm_num [settingOf])
    (by intro e he; simp [approvalVoters] at he; subst he; simp)] at hs
  have hc : checker (settingOf ⟨[0, 1], fun _ => 1, 2⟩ false [(fun _ => true, 1)])
      (approvalVoters (fun _ => 1) false [(fun _ => true, 1)]) false .ejr .one [] = false := by decide +kernel
  have hs' : checker (settingOf ⟨[0, 1], fun _ => 1, 2⟩ false [(fun _ => true, 1)])
      (approvalVoters (fun _ => 1) false [(fun _ => true, 1)]) false .ejr .one [] = true := hs
  rw [hc] at hs'
  cases hs'

end Pabu.JR
