/-
  C12 ← C07, for the OTHER ways the library runs the Method of Equal Shares (Properties/C12Mes.lean:
  `mes_priceable`, the resolute plain rule): the outcomes are priceable, with the payments recorded
  by a run as the price system.

  Setting of `mes_priceable`: approval list profile of `n` voters, `app i p`, additive utilities `u`
  positive exactly on the approved projects, no initial projects.

  * `mesAt_priceable`              a run at ANY per-voter budget `b0 ≥ 0` whose outcome is feasible:
                                   the recorded payments with voter budget `b0` are an `Exact` price system.
                                   (`Exact` / `validate_price_system` put NO upper bound on the voter
                                   budget — the only place the budget limit enters is C0a "cost W ≤
                                   budget limit", and C0b when exhaustiveness is asked — so `n · b0` may
                                   exceed the budget limit as long as the outcome itself is feasible.)
  * `mes_irresolute_priceable`     every allocation in `MES.runAll …`: it is the name-sorted outcome of the
                                   resolute run under some strict order `π` (C08), and that run's payments,
                                   voter budget `budget / n`, are a price system for it.
  * `mes_iterated_priceable`       the iterated rule (`voter_budget_increment`): the outcome is the
                                   FEASIBLE outcome of the run at `b' = budget / n + k·inc`, so it is
                                   priceable with voter budget `b'`; moreover `budget ≤ n · b'`, which
                                   is the clause `b · n ≥ budget limit` the library's MIP search adds
                                   when it searches for the allocation (priceability.py:333).
  * `mes_iteratedAll_priceable`    both together.
  The conclusion `Priceable I.projects I.cost I.budget W apps false false` is always about the ORIGINAL
  instance.
-/
import PabuProofs.Lemmas.MesVariants
import PabuProofs.Properties.C12Mes
namespace Pabu.Price
open Pabu Pabu.MES Pabu.PriceMes

/-! ### `Exact` does not depend on the listing order of the allocation; the budget limit only enters C0a/C0b -/

theorem Exact.perm_W {X : Input} {stable exhaustive : Bool} (E : Exact X stable exhaustive) {W' : List Pid}
    (h : X.W.Perm W') : Exact { X with W := W' } stable exhaustive := by
  have htot : Input.total { X with W := W' } = X.total := by
    unfold Input.total costOf
    exact (MES.sumOver_perm X.cost h).symm
  have hNW : Input.NW { X with W := W' } = X.NW := by
    unfold Input.NW
    apply List.filter_congr
    intro c _
    show (!W'.contains c) = !X.W.contains c
    rw [h.contains_eq]
  refine ⟨?_, ?_, E.approved, E.nonneg, E.within, ?_, ?_, ?_, ?_⟩
  · rw [htot]; exact E.feasible
  · intro he c hc
    rw [hNW] at hc
    rw [htot]
    exact E.exhaust he c hc
  · intro c hc
    exact E.selected c (h.mem_iff.mpr hc)
  · intro c hc
    rw [hNW] at hc
    exact E.unselected c hc
  · intro hs c hc
    rw [hNW] at hc
    exact E.noMoney hs c hc
  · intro hs c hc
    rw [hNW] at hc
    exact E.stab hs c hc

/-- without the exhaustiveness requirement the budget limit is only read by C0a -/
theorem Exact.change_budget {X : Input} {stable : Bool} (E : Exact X stable false) (B' : Rat)
    (h : X.total ≤ B') : Exact { X with budget := B' } stable false :=
  ⟨h, (fun he => by cases he), E.approved, E.nonneg, E.within, E.selected, E.unselected, E.noMoney, E.stab⟩

/-! ### a run at any per-voter budget with a feasible outcome -/

/-- **priceable at any start budget.**  If the resolute run at the per-voter budget `b0 ≥ 0` returns `W` and `W` is
    feasible for the instance, the payments recorded by the run with voter budget `b0` are a price system for `W`
    (exact conditions, hence accepted by the validator) -/
theorem mesAt_priceable {I : Inst} {n : Nat} {u : Nat → Pid → Rat} {app : Nat → Pid → Bool}
    {order : List Pid → Except Err (List Pid)}
    (hord : ∀ T l, order T = .ok l → ∀ x ∈ l, x ∈ T) (hne : ∀ T, T ≠ [] → order T ≠ .ok [])
    (hproj : I.projects.Nodup) (hcost : ∀ p ∈ I.projects, 0 ≤ I.cost p) {b0 : Rat} (hb0 : 0 ≤ b0)
    (hpos : ∀ i, i < n → ∀ p ∈ I.projects, (0 < u i p ↔ app i p = true))
    {W : List Pid} (hW : runAt (listV n u) I [] order b0 = .ok W) (hfeas : I.isFeasible W = true) :
    ∃ L, trace (listV n u) I.cost order (initPool (listV n u) I []).length
        (initState (listV n u) I [] b0) = .ok L ∧
      W = zeroCost (listV n u) I [] ++ selections L ∧
      Exact (inputOf I n app L W b0) false false ∧
      validate (inputOf I n app L W b0) false false = true ∧
      Priceable I.projects I.cost I.budget W ((List.range n).map app) false false := by
  obtain ⟨L, s', hL, hrec, hWs, hstop⟩ := runAt_recorded hord hW
  -- the same run on the instance whose budget limit is `n · b0`
  have hE' : Exact (inputOf ⟨I.projects, I.cost, (n : Rat) * b0⟩ n app L s'.alloc b0) false false :=
    recorded_exact (I := ⟨I.projects, I.cost, (n : Rat) * b0⟩) hproj hcost hb0 (le_refl _) hpos hrec (hstop hne)
  have hf : costOf I.cost W ≤ I.budget := by
    unfold Inst.isFeasible Inst.totalCost at hfeas
    exact of_decide_eq_true hfeas
  have hE : Exact (inputOf I n app L W b0) false false := by
    rw [hWs]
    exact hE'.change_budget I.budget (by rw [← hWs]; exact hf)
  refine ⟨L, hL, ?_, hE, validate_complete _ false false hE, ?_⟩
  · rw [hWs, hrec.alloc]; rfl
  · refine ⟨b0, (inputOf I n app L W b0).N, ?_, hE⟩
    show ((List.range n).map (fun i => (⟨app i, paid L i⟩ : PVoter))).map (fun v => v.app) = _
    rw [List.map_map]
    rfl

/-! ### irresolute -/

/-- every allocation returned by the irresolute run at `b0`, when feasible, is priceable: it is the name-sorted
    outcome of the resolute run under some strict order `π`, whose recorded payments are a price system for it -/
theorem mesAllAt_priceable {I : Inst} {n : Nat} {u : Nat → Pid → Rat} {app : Nat → Pid → Bool}
    {order : List Pid → Except Err (List Pid)}
    (hord : ∀ T l, order T = .ok l → ∀ x ∈ l, x ∈ T)
    (hproj : I.projects.Nodup) (hcost : ∀ p ∈ I.projects, 0 ≤ I.cost p) {b0 : Rat} (hb0 : 0 ≤ b0)
    (hpos : ∀ i, i < n → ∀ p ∈ I.projects, (0 < u i p ↔ app i p = true))
    {Ls : List (List Pid)} (hLs : runAllAt (listV n u) I [] order b0 = .ok Ls) :
    ∀ W ∈ Ls, I.isFeasible W = true →
      ∃ (π : List Pid) (W0 : List Pid) (L : List Iteration), π.Perm I.projects ∧
        runAt (listV n u) I [] (Tie.order (.perm π) I.cost (fun _ => 0)) b0 = .ok W0 ∧ W = sortIds W0 ∧
        trace (listV n u) I.cost (Tie.order (.perm π) I.cost (fun _ => 0)) (initPool (listV n u) I []).length
          (initState (listV n u) I [] b0) = .ok L ∧
        Exact (inputOf I n app L W b0) false false ∧
        validate (inputOf I n app L W b0) false false = true ∧
        Priceable I.projects I.cost I.budget W ((List.range n).map app) false false := by
  intro W hWL hfeas
  obtain ⟨π, hπ, W0, hW0, rfl⟩ := runAllAt_realised hord hproj I.cost (fun _ => 0) hLs W hWL
  have hperm : (sortIds W0).Perm W0 := Sorting.sortIds_perm W0
  have hfeas0 : I.isFeasible W0 = true := by
    unfold Inst.isFeasible Inst.totalCost costOf at hfeas ⊢
    rw [← MES.sumOver_perm I.cost hperm]
    exact hfeas
  obtain ⟨L, hL, _, hE, _, _⟩ := mesAt_priceable (app := app) (Tie.order_mem _ _ _) (Tie.order_ne_nil _ _ _)
    hproj hcost hb0 hpos hW0 hfeas0
  have hE' : Exact (inputOf I n app L (sortIds W0) b0) false false := hE.perm_W hperm.symm
  refine ⟨π, W0, L, hπ, hW0, rfl, hL, hE', validate_complete _ false false hE', b0,
    (inputOf I n app L (sortIds W0) b0).N, ?_, hE'⟩
  show ((List.range n).map (fun i => (⟨app i, paid L i⟩ : PVoter))).map (fun v => v.app) = _
  rw [List.map_map]
  rfl

theorem listV_inputOK {I : Inst} (n : Nat) (u : Nat → Pid → Rat) (hproj : I.projects.Nodup)
    (hcost : ∀ p ∈ I.projects, 0 ≤ I.cost p) : InputOK (listV n u) I [] :=
  ⟨fun _ _ => le_refl 1, hproj, fun p hp => by simp at hp, List.nodup_nil, hcost⟩

/-- **irresolute Equal Shares is priceable**: every allocation in `MES.runAll …` (hypotheses of `mes_priceable`; the
    order function only has to return members of the tied set), voter budget `budget / n` -/
theorem mes_irresolute_priceable {I : Inst} {n : Nat} {u : Nat → Pid → Rat} {app : Nat → Pid → Bool}
    {order : List Pid → Except Err (List Pid)}
    (hord : ∀ T l, order T = .ok l → ∀ x ∈ l, x ∈ T)
    (hproj : I.projects.Nodup) (hcost : ∀ p ∈ I.projects, 0 ≤ I.cost p) (hB : 0 ≤ I.budget)
    (hpos : ∀ i, i < n → ∀ p ∈ I.projects, (0 < u i p ↔ app i p = true))
    {Ls : List (List Pid)} (hLs : MES.runAll (listV n u) I [] order = .ok Ls) :
    ∀ W ∈ Ls,
      ∃ (π : List Pid) (W0 : List Pid) (L : List Iteration), π.Perm I.projects ∧
        MES.run (listV n u) I [] (Tie.order (.perm π) I.cost (fun _ => 0)) = .ok W0 ∧ W = sortIds W0 ∧
        trace (listV n u) I.cost (Tie.order (.perm π) I.cost (fun _ => 0)) (initPool (listV n u) I []).length
          (initState (listV n u) I [] (I.budget / (n : Nat))) = .ok L ∧
        Exact (inputOf I n app L W (I.budget / (n : Nat))) false false ∧
        validate (inputOf I n app L W (I.budget / (n : Nat))) false false = true ∧
        Priceable I.projects I.cost I.budget W ((List.range n).map app) false false := by
  intro W hW
  have hok := listV_inputOK (I := I) n u hproj hcost
  have hLs' : runAllAt (listV n u) I [] order (I.budget / (numVoters (listV n u) : Nat)) = .ok Ls := hLs
  have hfeas := runAllAt_share_feasible hok hord hB hLs' W hW
  rw [numVoters_listV] at hLs'
  obtain ⟨π, W0, L, hπ, hW0, hWeq, hL, hE, hv, hP⟩ := mesAllAt_priceable (app := app) hord hproj hcost
    (div_nonneg hB (Nat.cast_nonneg _)) hpos hLs' W hW hfeas
  refine ⟨π, W0, L, hπ, ?_, hWeq, hL, hE, hv, hP⟩
  unfold MES.run
  rw [numVoters_listV]
  exact hW0

/-! ### iterated -/

/-- **iterated Equal Shares is priceable** for the original instance: the outcome is the feasible outcome of the run
    at the per-voter budget `b' = budget / n + k·inc` of some try, the payments recorded by that run with voter
    budget `b'` are a price system for it, and `budget ≤ n · b'` -/
theorem mes_iterated_priceable {I : Inst} {n : Nat} {u : Nat → Pid → Rat} {app : Nat → Pid → Bool}
    {order : List Pid → Except Err (List Pid)}
    (hord : ∀ T l, order T = .ok l → ∀ x ∈ l, x ∈ T) (hne : ∀ T, T ≠ [] → order T ≠ .ok [])
    (hproj : I.projects.Nodup) (hcost : ∀ p ∈ I.projects, 0 ≤ I.cost p) (hB : 0 ≤ I.budget)
    (hpos : ∀ i, i < n → ∀ p ∈ I.projects, (0 < u i p ↔ app i p = true))
    {inc : Rat} (hinc : 0 ≤ inc) {fuel : Nat} {prev W : List Pid}
    (hW : MES.iterated (listV n u) I [] order inc fuel (I.budget / (n : Nat)) prev = .ok W) :
    ∃ (k : Nat) (L : List Iteration),
      runAt (listV n u) I [] order (I.budget / (n : Nat) + k * inc) = .ok W ∧
      trace (listV n u) I.cost order (initPool (listV n u) I []).length
        (initState (listV n u) I [] (I.budget / (n : Nat) + k * inc)) = .ok L ∧
      Exact (inputOf I n app L W (I.budget / (n : Nat) + k * inc)) false false ∧
      validate (inputOf I n app L W (I.budget / (n : Nat) + k * inc)) false false = true ∧
      Priceable I.projects I.cost I.budget W ((List.range n).map app) false false ∧
      (0 < n → I.budget ≤ (n : Rat) * (I.budget / (n : Nat) + k * inc)) := by
  have hok := listV_inputOK (I := I) n u hproj hcost
  have hW' : MES.iterated (listV n u) I [] order inc fuel (I.budget / (numVoters (listV n u) : Nat)) prev = .ok W := by
    rw [numVoters_listV]; exact hW
  obtain ⟨k, hk, hf⟩ := iterated_share_is_runAt hok hord hB hW'
  rw [numVoters_listV] at hk
  have hkinc : 0 ≤ (k : Rat) * inc := mul_nonneg (Nat.cast_nonneg _) hinc
  have hb' : 0 ≤ I.budget / (n : Nat) + k * inc := add_nonneg (div_nonneg hB (Nat.cast_nonneg _)) hkinc
  obtain ⟨L, hL, _, hE, hv, hP⟩ := mesAt_priceable (app := app) hord hne hproj hcost hb' hpos hk hf
  refine ⟨k, L, hk, hL, hE, hv, hP, ?_⟩
  intro hn
  have hnq : (0 : Rat) < (n : Rat) := by exact_mod_cast hn
  have : (n : Rat) * (I.budget / (n : Nat)) = I.budget := by field_simp
  nlinarith

/-- **iterated irresolute Equal Shares is priceable**: every allocation returned -/
theorem mes_iteratedAll_priceable {I : Inst} {n : Nat} {u : Nat → Pid → Rat} {app : Nat → Pid → Bool}
    {order : List Pid → Except Err (List Pid)}
    (hord : ∀ T l, order T = .ok l → ∀ x ∈ l, x ∈ T)
    (hproj : I.projects.Nodup) (hcost : ∀ p ∈ I.projects, 0 ≤ I.cost p) (hB : 0 ≤ I.budget)
    (hpos : ∀ i, i < n → ∀ p ∈ I.projects, (0 < u i p ↔ app i p = true))
    {inc : Rat} (hinc : 0 ≤ inc) {fuel : Nat} {prev Ws : List (List Pid)}
    (hW : MES.iteratedAll (listV n u) I [] order inc fuel (I.budget / (n : Nat)) prev = .ok Ws) :
    ∃ k : Nat, runAllAt (listV n u) I [] order (I.budget / (n : Nat) + k * inc) = .ok Ws ∧
      ∀ W ∈ Ws, I.isFeasible W = true ∧
        Priceable I.projects I.cost I.budget W ((List.range n).map app) false false := by
  have hok := listV_inputOK (I := I) n u hproj hcost
  have hW' : MES.iteratedAll (listV n u) I [] order inc fuel (I.budget / (numVoters (listV n u) : Nat)) prev =
      .ok Ws := by
    rw [numVoters_listV]; exact hW
  obtain ⟨k, hk, hf⟩ := iteratedAll_share_is_runAllAt hok hord hB hW'
  rw [numVoters_listV] at hk
  have hkinc : 0 ≤ (k : Rat) * inc := mul_nonneg (Nat.cast_nonneg _) hinc
  have hb' : 0 ≤ I.budget / (n : Nat) + k * inc := add_nonneg (div_nonneg hB (Nat.cast_nonneg _)) hkinc
  refine ⟨k, hk, fun W hWs => ⟨hf W hWs, ?_⟩⟩
  obtain ⟨_, _, _, _, _, _, _, _, _, hP⟩ := mesAllAt_priceable (app := app) hord hproj hcost hb' hpos hk W hWs
    (hf W hWs)
  exact hP

/-! ### The hypotheses are satisfiable: a real tie, and an iterated run that takes two increments -/

/-- two voters approving the unit-cost projects 0 and 1, voter 0 also project 2; budget 1 -/
def tieI : Inst := ⟨[0, 1, 2], fun _ => 1, 1⟩
def tieApp : Nat → Pid → Bool := fun i p => p != 2 || i == 0
def tieU : Nat → Pid → Rat := fun i p => if tieApp i p = true then 1 else 0

theorem tieEx_hyps : tieI.projects.Nodup ∧ (∀ p ∈ tieI.projects, 0 ≤ tieI.cost p) ∧ 0 ≤ tieI.budget ∧
    (∀ i, i < 2 → ∀ p ∈ tieI.projects, (0 < tieU i p ↔ tieApp i p = true)) := by
  refine ⟨by decide, fun p _ => by show (0 : Rat) ≤ 1; norm_num, by norm_num [tieI], ?_⟩
  intro i _ p _
  unfold tieU
  by_cases h : tieApp i p = true
  · rw [if_pos h]; exact ⟨fun _ => h, fun _ => one_pos⟩
  · rw [if_neg h]; exact ⟨fun h' => absurd h' (lt_irrefl 0), fun h' => absurd h' h⟩

/-- projects 0 and 1 tie: two irresolute outcomes -/
theorem tieEx_run : MES.runAll (listV 2 tieU) tieI [] (Tie.order .lexico tieI.cost (fun _ => 0)) = .ok [[0], [1]] := by
  decide +kernel

/-- … both priceable -/
example : ∀ W ∈ [[0], [1]], Priceable tieI.projects tieI.cost tieI.budget W ((List.range 2).map tieApp) false false := by
  obtain ⟨h1, h2, h3, h4⟩ := tieEx_hyps
  intro W hW
  obtain ⟨_, _, _, _, _, _, _, _, _, hP⟩ :=
    mes_irresolute_priceable (app := tieApp) (Tie.order_mem _ _ _) h1 h2 h3 h4 tieEx_run W hW
  exact hP

/-- two voters approving `{1, 2}` and `{2, 3}`, costs 2, 2, 3, budget 4 (share 2), increment 1/2 -/
def itI : Inst := ⟨[1, 2, 3], fun p => if p = 3 then 3 else 2, 4⟩
def itApp : Nat → Pid → Bool := fun i p => (i == 0 && (p == 1 || p == 2)) || (i == 1 && (p == 2 || p == 3))
def itU : Nat → Pid → Rat := fun i p => if itApp i p = true then 1 else 0

theorem itEx_hyps : itI.projects.Nodup ∧ (∀ p ∈ itI.projects, 0 ≤ itI.cost p) ∧ 0 ≤ itI.budget ∧
    (∀ i, i < 2 → ∀ p ∈ itI.projects, (0 < itU i p ↔ itApp i p = true)) := by
  refine ⟨by decide, ?_, by norm_num [itI], ?_⟩
  · intro p _
    show (0 : Rat) ≤ if p = 3 then 3 else 2
    split <;> norm_num
  · intro i _ p _
    unfold itU
    by_cases h : itApp i p = true
    · rw [if_pos h]; exact ⟨fun _ => h, fun _ => one_pos⟩
    · rw [if_neg h]; exact ⟨fun h' => absurd h' (lt_irrefl 0), fun h' => absurd h' h⟩

/-- budgets 2, 5/2 buy `[2]` (not exhaustive), budget 3 buys `[2, 1]`: two increments; `n · b' = 6 > 4 = budget` -/
theorem itEx_run :
    runAt (listV 2 itU) itI [] (Tie.order .lexico itI.cost (fun _ => 0)) 2 = .ok [2] ∧
    runAt (listV 2 itU) itI [] (Tie.order .lexico itI.cost (fun _ => 0)) (5 / 2) = .ok [2] ∧
    runAt (listV 2 itU) itI [] (Tie.order .lexico itI.cost (fun _ => 0)) 3 = .ok [2, 1] ∧
    MES.iterated (listV 2 itU) itI [] (Tie.order .lexico itI.cost (fun _ => 0)) (1 / 2) 5
      (itI.budget / (2 : Nat)) [] = .ok [2, 1] := by
  refine ⟨?_, ?_, ?_, ?_⟩ <;> decide +kernel

example : Priceable itI.projects itI.cost itI.budget [2, 1] ((List.range 2).map itApp) false false := by
  obtain ⟨h1, h2, h3, h4⟩ := itEx_hyps
  obtain ⟨_, _, _, _, _, _, hP, _⟩ := mes_iterated_priceable (app := itApp) (Tie.order_mem _ _ _)
    (Tie.order_ne_nil _ _ _) h1 h2 h3 h4 (by norm_num) itEx_run.2.2.2
  exact hP

/-- … and the price system the theorem speaks about (recorded payments, voter budget 3, so `n · b' = 6 > 4`),
    computed directly, passes the validator and the exact conditions -/
example :
    (match trace (listV 2 itU) itI.cost (Tie.order .lexico itI.cost (fun _ => 0))
        (initPool (listV 2 itU) itI []).length (initState (listV 2 itU) itI [] 3) with
     | .ok L => validate (inputOf itI 2 itApp L [2, 1] 3) false false &&
         exact (inputOf itI 2 itApp L [2, 1] 3) false false
     | .error _ => false) = true := by decide +kernel

end Pabu.Price
