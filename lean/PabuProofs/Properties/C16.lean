/-
  C16 — multiprofiles are faithful multisets of ballots.
  Model: PabuModel.Multi (canonical `freeze`, counter as association list, `ofList/append/extend`).
-/
import PabuProofs.Lemmas.Multi
namespace Pabu.Multi
open Pabu

/-- the same ballot built in another insertion order: approvals permuted; score assignments with distinct
    keys permuted; a ranking *is* its order, so only the identical ranking counts -/
def Reordered : Raw → Raw → Prop
  | .app l₁, .app l₂ => l₁.Perm l₂
  | .card l₁, .card l₂ => l₁.Perm l₂ ∧ (l₁.map Prod.fst).Nodup
  | .ord l₁, .ord l₂ => l₁ = l₂
  | _, _ => False

/-- equal frozen ballots ⇔ equal content (approved set, final score mapping, ranking): freezing neither merges
    different ballots nor separates equal ones.  This is what `==` and `hash` of frozen ballots must implement. -/
theorem freeze_eq_iff (r₁ r₂ : Raw) : freeze r₁ = freeze r₂ ↔ SameContent r₁ r₂ := by
  cases r₁ with
  | app l₁ =>
    cases r₂ with
    | app l₂ =>
      simp only [freeze, SameContent, Ballot.app.injEq]
      constructor
      · intro h x; rw [← mem_freezeApp (l := l₁), ← mem_freezeApp (l := l₂), h]
      · exact freezeApp_ext
    | card l₂ => simp [freeze, SameContent]
    | ord l₂ => simp [freeze, SameContent]
  | card l₁ =>
    cases r₂ with
    | app l₂ => simp [freeze, SameContent]
    | card l₂ =>
      simp only [freeze, SameContent, Ballot.card.injEq]
      constructor
      · intro h k; rw [← getScore_freezeCard, ← getScore_freezeCard, h]
      · exact freezeCard_ext
    | ord l₂ => simp [freeze, SameContent]
  | ord l₁ =>
    cases r₂ with
    | app l₂ => simp [freeze, SameContent]
    | card l₂ => simp [freeze, SameContent]
    | ord l₂ => simp [freeze, SameContent]

/-- the same content inserted in any order gives the same frozen ballot (hence the same hash key) -/
theorem freeze_perm (r₁ r₂ : Raw) (h : Reordered r₁ r₂) : freeze r₁ = freeze r₂ := by
  rw [freeze_eq_iff]
  cases r₁ with
  | app l₁ =>
    cases r₂ with
    | app l₂ => exact fun x => h.mem_iff
    | card l₂ => exact h
    | ord l₂ => exact h
  | card l₁ =>
    cases r₂ with
    | app l₂ => exact h
    | card l₂ =>
      obtain ⟨hp, hn⟩ := h
      have hn₂ : (l₂.map Prod.fst).Nodup := (hp.map Prod.fst).nodup_iff.1 hn
      intro k
      cases h₁ : lastScore l₁ k with
      | none =>
        cases h₂ : lastScore l₂ k with
        | none => rfl
        | some v =>
          have := (lastScore_eq_some_iff hn k v).2 (hp.mem_iff.2 ((lastScore_eq_some_iff hn₂ k v).1 h₂))
          rw [h₁] at this; exact absurd this (by simp)
      | some v =>
        exact ((lastScore_eq_some_iff hn₂ k v).2 (hp.mem_iff.1 ((lastScore_eq_some_iff hn k v).1 h₁))).symm
    | ord l₂ => exact h
  | ord l₁ =>
    cases r₂ with
    | app l₂ => exact h
    | card l₂ => exact h
    | ord l₂ => exact congrArg firstOcc h

/-- freezing preserves the content: approved set, score mapping, ranking -/
theorem freeze_content (r : Raw) :
    match r, freeze r with
    | .app l, .app f => (∀ x, x ∈ f ↔ x ∈ l) ∧ f.Pairwise (· < ·)
    | .card l, .card f => (∀ k, getScore f k = lastScore l k) ∧ f.Pairwise (fun a b => a.1 < b.1)
    | .ord l, .ord f => f = firstOcc l
    | _, _ => False := by
  cases r with
  | app l => exact ⟨fun x => mem_freezeApp, sorted_freezeApp l⟩
  | card l => exact ⟨getScore_freezeCard l, sorted_freezeCard l⟩
  | ord l => rfl

/-- after converting any list profile and any sequence of appends / extends the multiprofile `M` reports the
    number of voters, has one entry per distinct ballot, and the multiplicity of every ballot is the number of
    voters whose frozen ballot equals it (by `freeze_eq_iff`: the voters with the same content) -/
theorem counter_history (init : List Raw) (ops : List Op) :
    Faithful (run init ops) ((init ++ votersOf ops).map freeze) := by
  unfold run
  have h0 : Faithful (ofList (init.map freeze)) (init.map freeze) := by
    have := faithful_extend faithful_nil (init.map freeze)
    simpa [ofList] using this
  suffices H : ∀ (M : Counter) (V : List Raw), Faithful M (V.map freeze) →
      Faithful (ops.foldl step M) ((V ++ votersOf ops).map freeze) from H _ _ h0
  induction ops with
  | nil => intro M V h; simpa [votersOf] using h
  | cons op ops ih =>
    intro M V h
    have hstep : Faithful (step M op) ((V ++ op.voters).map freeze) := by
      cases op with
      | append r =>
        have := faithful_append h (freeze r)
        simpa [step, Op.voters] using this
      | extend rs =>
        have := faithful_extend h (rs.map freeze)
        simpa [step, Op.voters] using this
    have := ih (step M op) (V ++ op.voters) hstep
    simpa [votersOf, List.flatMap_cons, List.append_assoc] using this

/-- the three numbers of the property, spelled out -/
theorem counter_history_counts (init : List Raw) (ops : List Op) :
    total (run init ops) = (init ++ votersOf ops).length ∧
    (keys (run init ops)).Nodup ∧
    (∀ r, mult (run init ops) (freeze r) = countEq (freeze r) ((init ++ votersOf ops).map freeze)) ∧
    (∀ b, b ∈ keys (run init ops) ↔ ∃ r ∈ init ++ votersOf ops, freeze r = b) := by
  have h := counter_history init ops
  refine ⟨by simpa using h.total_eq, h.nodup, fun r => h.mult_eq _, fun b => ?_⟩
  rw [h.mem_iff, List.mem_map]

/-! non-vacuity: two voters with the same approvals / scores in different insertion orders, one other voter,
    an append and an extend -/
example : Reordered (.app [3, 1, 2]) (.app [2, 3, 1]) := by
  show [3, 1, 2].Perm [2, 3, 1]
  decide
example : Reordered (.card [(2, 1), (0, 5)]) (.card [(0, 5), (2, 1)]) := by
  refine ⟨?_, by decide⟩
  exact List.Perm.swap _ _ _
example : freeze (.app [3, 1, 2, 3]) = .app [1, 2, 3] := by decide
example : keys (run [.app [3, 1], .app [1, 3]] [.append (.app [2]), .extend [.app [3, 1, 1], .app []]])
    = [.app [1, 3], .app [2], .app []] := by decide
example : (run [.app [3, 1], .app [1, 3]] [.append (.app [2]), .extend [.app [3, 1, 1], .app []]]).map Prod.snd
    = [3, 1, 1] := by decide

end Pabu.Multi
