/-
  C11 — Pabulib files parse to the election they describe and round-trip losslessly (row level).
-/
import PabuProofs.Lemmas.Pabulib
import Mathlib.Tactic.NormNum
namespace Pabu.Pabulib

/-- writing a well-formed election and parsing the rows back yields the election in normal form -/
theorem parse_write {e : Election} (hw : WF e) : parseRows (writeRows e) = .ok (norm e) :=
  parseRows_writeRows hw

/-- the same through the `String` front end of the driver -/
theorem parse_write_strings {e : Election} (hw : WF e) : parse (write e) = .ok (norm e) :=
  parse_write_string hw

/-- repeating the round trip changes nothing further -/
theorem norm_idem {e : Election} (hw : WF e) : norm (norm e) = norm e := norm_norm hw

/-- the result of a round trip is again a well-formed election (limits in the parser's normal form) … -/
theorem norm_wf {e : Election} (hw : WF e)
    (hN : normLimits e.vtype e.projects.length e.budget e.limits = e.limits) : WF (norm e) := wf_norm hw hN

/-- … so writing it and parsing it again yields the same election: the second round trip is the identity -/
theorem round_trip_twice {e : Election} (hw : WF e)
    (hN : normLimits e.vtype e.projects.length e.budget e.limits = e.limits) :
    parseRows (writeRows (norm e)) = .ok (norm e) := second_round_trip hw hN

/-- each PROJECTS row the writer makes reads back as exactly that project: name, exact cost, categories,
    targets, metadata (with the two derived columns) -/
theorem parse_describes_project {K : List Str} {np : Str × ProjData} (acc : Map ProjData)
    (hK : GoodHeader K np) (hw : WFProject np) (hfresh : aget np.1 acc = none) :
    parseProjectRow K (projectRow K np) acc = .ok (ains np.1 (normProj np).2 acc) :=
  parseProjectRow_projectRow acc hK hw hfresh

/-- each VOTES row the writer makes reads back as exactly that ballot (type, content, order / points) with
    its voter metadata and the `voter_id` the writer filled in -/
theorem parse_describes_vote {K : List Str} {iv : Nat × Vote} {vt : VoteType} {md : Map Str} {ps ps' : Map ProjData}
    (hK : GoodVHeader K iv.2) (hw : WFVote vt ps iv) (hvt : aget kVoteType md = some vt.name)
    (hps : ∀ n, (aget n ps).isSome = true → (aget n ps').isSome = true ∧ CleanName n) :
    parseVoteRow K (voteRow K iv) md ps' = .ok (normVote iv) :=
  parseVoteRow_voteRow hK hw hvt hps

/-- the header the writer emits is a good header for each of its projects / votes -/
theorem written_headers_good {e : Election} (hw : WF e) :
    (∀ np ∈ e.projects, GoodHeader (projectKeys e.projects) np) ∧
    (∀ iv ∈ enumFrom 0 e.votes, GoodVHeader (voteKeys e.votes) iv.2) := by
  refine ⟨fun np hnp => goodHeader_projectKeys hw.projects hnp, fun iv hiv => ?_⟩
  apply goodVHeader_voteKeys _ (mem_enumFrom_snd hiv)
  intro v hv
  obtain ⟨jv, hjv, rfl⟩ := exists_enumFrom 0 hv
  exact (hw.votes jv hjv).md

/-- the numbers: `mpq(str(q)) = q`, `int(str(i)) = i` for the model's codec -/
theorem number_codec (q : Rat) (i : Int) : readRat (showRat q) = .ok q ∧ readPyInt (showInt i) = .ok i :=
  ⟨readRat_showRat q, readPyInt_showInt i⟩

/-- the limits read back are the written ones in the parser's normal form, and that form is stable -/
theorem limits_roundtrip {e : Election} (hw : WF e) :
    readLimits (metaOf e) = .ok e.limits ∧
    normLimits e.vtype e.projects.length e.budget (norm e).limits = (norm e).limits :=
  ⟨readLimits_metaOf hw, normLimits_idem _ _ _ _⟩

/-! non-vacuity: one well-formed election per vote type -/

def exProjects : Map ProjData :=
  [(s!!"10", { cost := 61 / 2, cats := [s!!"education", s!!"sport"], targets := [], md := [(s!!"name", s!!"Plac; \"Nowy\"")] }),
   (s!!"2", { cost := 20, cats := [], targets := [s!!"seniors"], md := [(s!!"name", s!!"B"), (s!!"votes", s!!"14")] }),
   (s!!"p 3", { cost := 0, cats := [], targets := [], md := [] })]

def exApproval : Election :=
  { vtype := .approval, budget := 100, md := [(s!!"country", s!!"Poland"), (s!!"edition", s!!"3")], projects := exProjects,
    votes := [{ ballot := .app [s!!"10", s!!"2"], md := [(s!!"sex", s!!"F"), (s!!"voter_id", s!!"5642")] },
              { ballot := .app [], md := [(s!!"district", s!!"x, y")] },
              { ballot := .app [s!!"10", s!!"2"], md := [] }],
    limits := { maxLen := some 2, maxCost := some 50 } }

def exCumulative : Election :=
  { vtype := .cumulative, budget := 1000 / 3, md := [], projects := exProjects,
    votes := [{ ballot := .card [(s!!"10", 1 / 3), (s!!"p 3", 2)], md := [(s!!"age", s!!"33")] },
              { ballot := .card [], md := [] }],
    limits := { maxScore := some 3, maxTotal := some 7 } }

def exScoring : Election :=
  { vtype := .scoring, budget := 51195, md := [(s!!"default_score", s!!"0")], projects := exProjects,
    votes := [{ ballot := .card [(s!!"2", -1), (s!!"p 3", 5 / 2)], md := [] }],
    limits := { minLen := some 0 } }

def exOrdinal : Election :=
  { vtype := .ordinal, budget := 7, md := [(s!!"scoring_fn", s!!"Borda")], projects := exProjects,
    votes := [{ ballot := .ord [s!!"p 3", s!!"10"], md := [(s!!"voter_id", s!!"v1")] },
              { ballot := .ord [s!!"2", s!!"p 3", s!!"10"], md := [(s!!"voter_id", s!!"v2")] }],
    limits := { minLen := some 3, maxLen := some 3 } }

theorem wf_exApproval : WF exApproval := by decide
theorem wf_exCumulative : WF exCumulative := by decide
theorem wf_exScoring : WF exScoring := by decide
theorem wf_exOrdinal : WF exOrdinal := by decide

example : parseRows (writeRows exApproval) = .ok (norm exApproval) := parse_write wf_exApproval
example : parseRows (writeRows exCumulative) = .ok (norm exCumulative) := parse_write wf_exCumulative
example : parseRows (writeRows exScoring) = .ok (norm exScoring) := parse_write wf_exScoring
example : parseRows (writeRows exOrdinal) = .ok (norm exOrdinal) := parse_write wf_exOrdinal
example : norm (norm exCumulative) = norm exCumulative := norm_idem wf_exCumulative
theorem exApproval_limits_normal :
    normLimits exApproval.vtype exApproval.projects.length exApproval.budget exApproval.limits = exApproval.limits := by
  simp [exApproval, exProjects, normLimits, dropIf]
  norm_num

example : parseRows (writeRows (norm exApproval)) = .ok (norm exApproval) :=
  round_trip_twice wf_exApproval exApproval_limits_normal

example : ∀ np ∈ exApproval.projects, GoodHeader (projectKeys exApproval.projects) np :=
  (written_headers_good wf_exApproval).1

end Pabu.Pabulib
