/-
  C07 — the recorded Equal Shares run is an exact, valid price system (model side).
  Only property theorems and satisfiability examples; proofs are in PabuProofs/Lemmas/MES.lean.
-/
import PabuProofs.Lemmas.MES
namespace Pabu.C07
open Pabu Pabu.MES

/-! ### One purchase -/

/-- only supporters of the bought project pay -/
theorem only_supporters_pay (V : VCtx) (b : Nat → Rat) (t : Pid) (r : Rat) (i : Nat)
    (h : ¬ 0 < V.u i t) : pay V b t r i = 0 :=
  pay_nonsupporter V b t r i h

/-- nobody pays more than they hold (and nobody is paid) -/
theorem no_overdraft (V : VCtx) (b : Nat → Rat) (t : Pid) (r : Rat) (i : Nat)
    (hb : 0 ≤ b i) (hr : 0 ≤ r) : 0 ≤ pay V b t r i ∧ pay V b t r i ≤ b i :=
  ⟨pay_nonneg V b t r i hb hr, pay_le V b t r i hb⟩

/-- every supporter pays min(own money, ρ × own utility) for the one common ρ -/
theorem common_price (V : VCtx) (b : Nat → Rat) (t : Pid) (r : Rat) (i : Nat)
    (h : 0 < V.u i t) : pay V b t r i = min (b i) (r * V.u i t) :=
  pay_supporter V b t r i h

/-- at the price `rho` computes, the payments weighted by multiplicity add up exactly to the cost -/
theorem payments_cover_cost {V : VCtx} {cost : Pid → Rat} {b : Nat → Rat} {t : Pid} {r : Rat}
    (hb : ∀ i ∈ V.vs, 0 ≤ b i) (hm : ∀ i ∈ V.vs, 1 ≤ V.m i) (hc : 0 < cost t)
    (hr : rho V cost b t = some r) :
    sumOver V.vs (fun i => (V.m i : Rat) * pay V b t r i) = cost t :=
  pay_total ⟨hb, hm⟩ hc hr

/-- conservation and no overdraft for one purchase: money held (with multiplicity) + money spent
    stays `B`, budgets stay non-negative, pool projects keep positive cost -/
theorem buy_conserves {V : VCtx} {cost : Pid → Rat} {B : Rat} (hm : ∀ i ∈ V.vs, 1 ≤ V.m i)
    {s : State} {t : Pid} (ht : t ∈ tied V cost s) (h : Inv V cost B s) :
    Inv V cost B (buy V cost s t) :=
  buy_inv hm ht h

/-! ### The recorded run -/

/-- all voters start with the same amount … -/
theorem trace_first {V : VCtx} {I : Inst} {init : List Pid}
    {order : List Pid → Except Err (List Pid)}
    (hord : ∀ T l, order T = .ok l → ∀ x ∈ l, x ∈ T) {b0 : Rat} {n : Nat} {L : List Iteration}
    (hL : trace V I.cost order n (initState V I init b0) = .ok L) :
    ∃ it rest, L = it :: rest ∧ it.before = V.vs.map (fun _ => b0) := by
  obtain ⟨s', hrec, _⟩ := trace_recorded hord _ _ L hL
  exact hrec.head

/-- … adding up to the budget limit -/
theorem start_total (V : VCtx) (I : Inst) (hn : 0 < numVoters V) :
    sumOver V.vs (fun i => (V.m i : Rat) * (I.budget / (numVoters V : Nat))) = I.budget := by
  rw [sumOver_const_mul]; exact share_total V I hn

/-- consecutive iterations chain: the money after round k is the money before round k+1 -/
theorem trace_chain {V : VCtx} {cost : Pid → Rat} {order : List Pid → Except Err (List Pid)}
    (hord : ∀ T l, order T = .ok l → ∀ x ∈ l, x ∈ T) {n : Nat} {s : State} {L : List Iteration}
    (hL : trace V cost order n s = .ok L) :
    L.IsChain (fun a b => a.after = b.before) ∧
      ∀ (k : Nat) (hk : k + 1 < L.length), L[k].after = L[k + 1].before := by
  obtain ⟨s', hrec, _⟩ := trace_recorded hord _ _ L hL
  exact ⟨hrec.isChain, List.isChain_iff_getElem.mp hrec.isChain⟩

/-- every recorded round: the budgets before are non-negative; the recorded ρ is the price of the
    selected project under them, positive and least; the budgets after are those before minus the
    payments `pay`; the payments weighted by multiplicity add up exactly to the cost
    (shape of `pay`: `only_supporters_pay`, `no_overdraft`, `common_price`) -/
theorem trace_rounds {V : VCtx} {I : Inst} {init : List Pid} (h : InputOK V I init)
    {order : List Pid → Except Err (List Pid)}
    (hord : ∀ T l, order T = .ok l → ∀ x ∈ l, x ∈ T) {b0 : Rat} (hb0 : 0 ≤ b0) {n : Nat}
    {L : List Iteration} (hL : trace V I.cost order n (initState V I init b0) = .ok L) :
    ∀ it ∈ L, ∀ t, it.selected = some t → ∃ (b : Nat → Rat) (r : Rat),
      (∀ i ∈ V.vs, 0 ≤ b i) ∧ 0 < r ∧ it.rho = some r ∧ rho V I.cost b t = some r ∧
      it.before = V.vs.map b ∧ it.after = V.vs.map (fun i => b i - pay V b t r i) ∧
      sumOver V.vs (fun i => (V.m i : Rat) * pay V b t r i) = I.cost t ∧
      (∀ r', I.cost t ≤ sumOver V.vs (fun i => (V.m i : Rat) * pay V b t r' i) → r ≤ r') :=
  MES.trace_rounds h hord hb0 hL

/-- after the last round no remaining supported project can be paid by its supporters: the last
    entry selects nothing and every project of the initial pool was either selected in some round
    or costs more than its supporters hold at the end -/
theorem trace_terminal {V : VCtx} {I : Inst} {init : List Pid} (h : InputOK V I init)
    {order : List Pid → Except Err (List Pid)}
    (hord : ∀ T l, order T = .ok l → ∀ x ∈ l, x ∈ T)
    (hne : ∀ T, T ≠ [] → order T ≠ .ok []) {b0 : Rat} (hb0 : 0 ≤ b0)
    {L : List Iteration}
    (hL : trace V I.cost order (initPool V I init).length (initState V I init b0) = .ok L) :
    ∃ b : Nat → Rat, (∀ i ∈ V.vs, 0 ≤ b i) ∧ L.getLast? = some ⟨V.vs.map b, none, none, []⟩ ∧
      ∀ p ∈ initPool V I init,
        some p ∈ L.map (fun it => it.selected) ∨ budSum (sups V b p) < I.cost p :=
  MES.trace_terminal h hord hne hb0 hL

/-- the stop condition of a round, on a single state -/
theorem stop_condition {V : VCtx} {cost : Pid → Rat} {s : State}
    (hb : ∀ i ∈ V.vs, 0 ≤ s.b i) (hm : ∀ i ∈ V.vs, 1 ≤ V.m i) (hc : ∀ p ∈ s.pool, 0 < cost p)
    (h : tied V cost s = []) : ∀ p ∈ s.pool, budSum (sups V s.b p) < cost p := by
  intro p hp
  exact (rho_none_iff ⟨hb, hm⟩ (hc p hp)).mp (tied_nil_iff.mp h p hp)

/-- requesting details never changes the outcome: the resolute run fails exactly when the record
    fails, and otherwise returns the initial allocation followed by the recorded selections -/
theorem trace_outcome {V : VCtx} {cost : Pid → Rat} {order : List Pid → Except Err (List Pid)}
    (hord : ∀ T l, order T = .ok l → ∀ x ∈ l, x ∈ T) (n : Nat) (s : State) :
    (rule V cost).run (orderIfTie order) n s =
      match trace V cost order n s with
      | .error e => .error e
      | .ok L => .ok (s.alloc ++ L.filterMap (fun it => it.selected)) :=
  trace_run hord n s

/-- money is conserved along the whole record: in the state the record stops in, money held plus
    the cost of everything bought equals the money handed out plus the cost of the initial projects -/
theorem trace_conservation {V : VCtx} {I : Inst} {init : List Pid} (h : InputOK V I init)
    {order : List Pid → Except Err (List Pid)}
    (hord : ∀ T l, order T = .ok l → ∀ x ∈ l, x ∈ T) {b0 : Rat} (hb0 : 0 ≤ b0) {n : Nat}
    {L : List Iteration} (hL : trace V I.cost order n (initState V I init b0) = .ok L) :
    ∃ b : Nat → Rat, (∀ i ∈ V.vs, 0 ≤ b i) ∧ L.getLast? = some ⟨V.vs.map b, none, none, []⟩ ∧
      sumOver V.vs (fun i => (V.m i : Rat) * b i) +
        costOf I.cost (init ++ zeroCost V I init ++ L.filterMap (fun it => it.selected)) =
      (numVoters V : Rat) * b0 + costOf I.cost init := by
  obtain ⟨s', hrec, _⟩ := trace_recorded hord _ _ L hL
  have hgood := hrec.good h.mult
    (good_init V I init b0 hb0 h.proj_nodup h.init_sub h.init_nodup h.cost_nonneg)
  refine ⟨s'.b, hgood.1.nonneg, hrec.last, ?_⟩
  have := hgood.1.conserve
  rw [hrec.alloc] at this
  exact this

/-! ### The hypotheses are satisfiable on a non-trivial input -/

def exV : VCtx := ⟨[0, 1, 2], fun i => i + 1, fun i p => if (i + p) % 2 = 0 then 1 else 0⟩
def exI : Inst := ⟨[0, 1, 2, 3], fun p => (p : Rat), 6⟩

/-- three voter entries with multiplicities 1,2,3, four projects (one of cost 0), one initial;
    the identity order function never fails and never returns an empty list on a non-empty set -/
example : InputOK exV exI [3] ∧ 0 ≤ exI.budget / (numVoters exV : Nat) ∧ 0 < numVoters exV ∧
    (∀ T l, (fun l => (Except.ok l : Except Err (List Pid))) T = .ok l → ∀ x ∈ l, x ∈ T) ∧
    (∀ T, T ≠ [] → (fun l => (Except.ok l : Except Err (List Pid))) T ≠ .ok []) := by
  refine ⟨⟨?_, by decide, by decide, by decide, ?_⟩, ?_, by decide, ?_, ?_⟩
  · intro i _; simp [exV]
  · intro p _; simp [exI]
  · exact share_nonneg exV exI (by simp [exI])
  · intro T l h x hx; cases h; exact hx
  · intro T hT h; exact hT (Except.ok.inj h)

/-- the record of the run on this input: two purchases at price 1/2, then the stop entry -/
example : (match trace exV exI.cost (fun l => .ok l) (initPool exV exI [3]).length
      (initState exV exI [3] (exI.budget / (numVoters exV : Nat))) with
    | .error _ => none
    | .ok L => some (L.map (fun it => (it.before, it.selected, it.rho, it.after)))) =
    some [([1, 1, 1], some 1, some (1 / 2), [1, 1 / 2, 1]),
          ([1, 1 / 2, 1], some 2, some (1 / 2), [1 / 2, 1 / 2, 1 / 2]),
          ([1 / 2, 1 / 2, 1 / 2], none, none, [])] := by decide +kernel

end Pabu.C07
