/-
  C01 — every rule outcome is a feasible set of distinct instance projects (model side).
  One theorem per rule model the driver executes: whenever the rule returns an allocation `W` it has no
  duplicates, contains only projects of the instance, contains the initial allocation, and its total
  cost is within the budget limit.  "Returns normally": for every shipped tie-breaking rule except the
  refusing one the tie order is total, and the resolute runs return `.ok`.
  Proofs are in PabuProofs/Lemmas/{MES,Greedy,Phragmen,KnapsackLift}.lean.
-/
import PabuProofs.Properties.C02
import PabuProofs.Properties.C03
import PabuProofs.Properties.C04
import PabuProofs.Properties.C05
namespace Pabu.C01
open Pabu Pabu.GreedyAux

/-- every shipped tie-breaking rule (and every permutation rule) returns, when it returns, a
    permutation of the tied projects: members of the tied set, non-empty when the set is -/
theorem tie_order_ok (t : Tie) (cost : Pid → Rat) (score : Pid → Nat) (T l : List Pid)
    (h : t.order cost score T = .ok l) : l.Perm T ∧ (∀ x ∈ l, x ∈ T) ∧ (T ≠ [] → l ≠ []) :=
  ⟨Tie_order_perm t cost score T l h, perm_mem_ne (Tie_order_perm t cost score T l h)⟩

/-- only the refusing rule can raise -/
theorem tie_order_total (t : Tie) (ht : t ≠ .refuse) (cost : Pid → Rat) (score : Pid → Nat) (T : List Pid) :
    ∃ l, t.order cost score T = .ok l := by
  unfold Tie.order
  rw [if_neg (fun h => ht h.1)]
  exact ⟨_, rfl⟩

/-! ### Equal Shares (initial allocation empty) -/

theorem mes_resolute {V : VCtx} {I : Inst} (h : MES.InputOK V I []) (hB : 0 ≤ I.budget) (t : Tie) (score : Pid → Nat)
    {W : List Pid} (hW : MES.run V I [] (t.order I.cost score) = .ok W) :
    W.Nodup ∧ (∀ p ∈ W, p ∈ I.projects) ∧ costOf I.cost W ≤ I.budget := by
  obtain ⟨h1, _, h3, h4⟩ := C02.run_outcome h hB (fun T l hl => (tie_order_ok t I.cost score T l hl).2.1) hW
  refine ⟨h3, h4, ?_⟩
  simpa [costOf, sumOver] using h1

theorem mes_irresolute {V : VCtx} {I : Inst} (h : MES.InputOK V I []) (hB : 0 ≤ I.budget) (t : Tie) (score : Pid → Nat)
    {Ws : List (List Pid)} (hWs : MES.runAll V I [] (t.order I.cost score) = .ok Ws) :
    ∀ W ∈ Ws, W.Nodup ∧ (∀ p ∈ W, p ∈ I.projects) ∧ costOf I.cost W ≤ I.budget := by
  intro W hW
  obtain ⟨h1, _, h3, h4⟩ := C02.runAll_outcome h hB (fun T l hl => (tie_order_ok t I.cost score T l hl).2.1) hWs W hW
  refine ⟨h3, h4, ?_⟩
  simpa [costOf, sumOver] using h1

/-! ### Greedy (any feasible initial allocation, any satisfaction function) -/

theorem greedy_general (tsat : List Pid → Rat) (I : Inst) (init : List Pid) (hwf : WFInput I init) (t : Tie) (score : Pid → Nat)
    (W : List Pid) (h : Greedy.general tsat I init (t.order I.cost score) = .ok W) : ValidOutcome I init W :=
  (Greedy.general_good tsat I init hwf _ (fun T l hl => (tie_order_ok t I.cost score T l hl).2) W h).1

theorem greedy_general_irresolute (tsat : List Pid → Rat) (I : Inst) (init : List Pid) (hwf : WFInput I init) (t : Tie)
    (score : Pid → Nat) (Ws : List (List Pid)) (h : Greedy.generalAll tsat I init (t.order I.cost score) = .ok Ws) :
    ∀ W ∈ Ws, ValidOutcome I init W :=
  fun W hW => (Greedy.generalAll_good tsat I init hwf _ (fun T l hl => (tie_order_ok t I.cost score T l hl).2.1) Ws h W hW).1

theorem greedy_additive (sc : Pid → Rat) (I : Inst) (init : List Pid) (hwf : WFInput I init) (t : Tie) (score : Pid → Nat)
    (W : List Pid) (h : Greedy.additive sc I init (t.order I.cost score) = .ok W) : ValidOutcome I init W :=
  (Greedy.additive_good sc I init hwf _ (fun T l hl => (tie_order_ok t I.cost score T l hl).1) W h).1

/-! ### Sequential Phragmén (any feasible initial allocation, any initial loads) -/

theorem phragmen_resolute (C : Phragmen.Ctx) (projects init : List Pid) (loads : Nat → Rat) (hinit : init.Nodup)
    (hsub : ∀ p ∈ init, p ∈ projects) (hcost : costOf C.cost init ≤ C.budget) (t : Tie) (score : Pid → Nat)
    (W : List Pid) (h : Phragmen.run C projects init loads (t.order C.cost score) = .ok W) :
    ValidOutcome (Phragmen.instOf C projects) init W :=
  Phragmen.run_valid C projects init loads hinit hsub hcost _ (fun T l hl => (tie_order_ok t C.cost score T l hl).2) W h

theorem phragmen_irresolute (C : Phragmen.Ctx) (projects init : List Pid) (loads : Nat → Rat) (hinit : init.Nodup)
    (hsub : ∀ p ∈ init, p ∈ projects) (hcost : costOf C.cost init ≤ C.budget) (t : Tie) (score : Pid → Nat)
    (Ws : List (List Pid)) (h : Phragmen.runAll C projects init loads (t.order C.cost score) = .ok Ws) :
    ∀ W ∈ Ws, ValidOutcome (Phragmen.instOf C projects) init W :=
  Phragmen.runAll_valid C projects init loads hinit hsub hcost _ (fun T l hl => (tie_order_ok t C.cost score T l hl).2.1) Ws h

/-! ### Welfare maximiser, primal/dual path (always returns; any enumeration order of the instance; any real
    profits — total satisfactions may be negative) -/

theorem maxwelfare_primalDual (I : Inst) (profit : Pid → Rat) (init enum : List Pid)
    (hcost : ∀ p ∈ I.projects, 0 ≤ I.cost p)
    (hinit : I.isFeasible init = true) (hperm : enum.Perm I.projects) (hnd : enum.Nodup) (hinitnd : init.Nodup) :
    (MaxWelfare.primalDual I profit init enum).Nodup ∧ init <+: MaxWelfare.primalDual I profit init enum ∧
      I.isFeasible (MaxWelfare.primalDual I profit init enum) = true :=
  ⟨MaxWelfare.primalDual_nodup I profit init enum hcost hinit hperm hnd hinitnd,
   MaxWelfare.primalDual_contains_init I profit init enum,
   MaxWelfare.primalDual_feasible I profit init enum hcost hinit hperm hnd⟩

/-! ### The hypotheses are satisfiable -/

example : WFInput ⟨[0, 1, 2], fun p => (p : Rat), 2⟩ [0] := by
  refine ⟨by decide, ?_, by decide, by decide, ?_⟩
  · intro p _; simp
  · simp [costOf, sumOver]

example : (Tie.minCost).order (fun p => if p = 2 then 1 else 2) (fun _ => 0) [2, 0, 1] = .ok [2, 0, 1] := by decide +kernel

end Pabu.C01
