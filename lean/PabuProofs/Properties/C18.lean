/-
  C18 — election and outcome statistics equal their textbook definitions (model side).
  Entries are (value, multiplicity); `expand` lists every voter once.
-/
import PabuProofs.Lemmas.Stats
namespace Pabu.Stats
open Pabu

/-- `mean_generator` over (value, multiplicity) entries: the streaming update
    `n += 1; mean += (x − mean)/n` yields Σ m·x / Σ m, and 0 when Σ m = 0. -/
theorem meanGen_eq (xs : Entries) :
    meanGen xs = if totalMult xs = 0 then 0 else weightedSum xs / ((totalMult xs : Nat) : Rat) :=
  meanGen_eq' xs

/-- the same with each voter counted once: the arithmetic mean of the expanded list -/
theorem meanGen_eq_expand (xs : Entries) :
    meanGen xs = if (expand xs).length = 0 then 0
      else sumOver (expand xs) id / (((expand xs).length : Nat) : Rat) := by
  rw [meanGen_eq, totalMult_eq_length, weightedSum_eq_sum]

example : meanGen [(1, 2), (5/2, 0), (3, 1)] = 5 / 3 := by
  rw [meanGen_eq]; simp [totalMult, weightedSum, sumNat, sumOver]; norm_num

/-- the cumulative formula of `gini_coefficient`, evaluated on an ascending list with positive sum,
    is Σᵢ Σⱼ |xᵢ − xⱼ| / (2·n·Σx) -/
theorem giniFormula_sorted_eq_pairwise (xs : List Rat) (hs : xs.Pairwise (· ≤ ·)) (hpos : 0 < sumOver xs id) :
    (((xs.length : Nat) : Rat) + 1 - 2 * cumFrom xs.length 0 xs / sumOver xs id) / ((xs.length : Nat) : Rat)
      = pairAbs xs / (2 * ((xs.length : Nat) : Rat) * sumOver xs id) := by
  have h := cumFrom_eq 0 xs
  rw [Nat.zero_add] at h
  rw [h]
  exact gini_sorted_eq_pairwise xs hs hpos

/-- `gini_coefficient` (which sorts its argument) equals the pairwise definition on every vector of
    non-negative rationals with positive sum, in any order -/
theorem giniCum_eq_pairwise (xs : List Rat) (hnn : ∀ x ∈ xs, 0 ≤ x) (hpos : 0 < sumOver xs id) :
    giniCum xs = pairAbs xs / (2 * ((xs.length : Nat) : Rat) * sumOver xs id) := by
  unfold giniCum
  rw [allNul_false_of_pos xs hnn hpos]
  simp only [Bool.false_eq_true, if_false]
  have hp := sortRat_perm xs
  have hlen : xs.length = (sortRat xs).length := hp.length_eq.symm
  have hsum : sumOver xs id = sumOver (sortRat xs) id := (sumOver_perm hp id).symm
  have hc := cumFrom_eq 0 (sortRat xs)
  rw [Nat.zero_add] at hc
  have hpos' : 0 < sumOver (sortRat xs) id := by rw [← hsum]; exact hpos
  have h := gini_sorted_eq_pairwise (sortRat xs) (sortRat_sorted xs) hpos'
  rw [hlen, hc, hsum, h]
  unfold giniPairwise
  rw [pairAbs_perm hp]

/-- and it is 0 on an all-zero vector (where the pairwise quotient would be 0/0) -/
theorem giniCum_zero (xs : List Rat) (h : ∀ x ∈ xs, x = 0) : giniCum xs = 0 := by
  unfold giniCum; rw [allNul_of_zero xs h]; simp

/-- `gini_coefficient_of_satisfaction`: the pairwise Gini coefficient over the voters, each counted once -/
theorem giniSat_eq (xs : Entries) (hnn : ∀ x ∈ expand xs, 0 ≤ x) (hpos : 0 < sumOver (expand xs) id) :
    giniSat xs = .ok (giniPairwise (expand xs)) := by
  unfold giniSat gini
  have : (expand xs).any (fun v => decide (v < 0)) = false := by
    rw [List.any_eq_false]
    intro x hx
    have := hnn x hx
    simp only [decide_eq_true_eq, not_lt]; exact this
  rw [this]
  simp only [Bool.false_eq_true, if_false]
  rw [giniCum_eq_pairwise _ hnn hpos]; rfl

example : giniCum [3, 1, 0, 4] = 7 / 16 ∧ (∀ x ∈ ([3, 1, 0, 4] : List Rat), 0 ≤ x) ∧
    0 < sumOver ([3, 1, 0, 4] : List Rat) id := by
  refine ⟨?_, ?_, ?_⟩
  · rw [giniCum_eq_pairwise]
    · simp [pairAbs, sumOver]; norm_num [abs_of_nonneg, abs_of_nonpos]
    · intro x hx; simp at hx; rcases hx with rfl | rfl | rfl | rfl <;> norm_num
    · simp [sumOver]; norm_num
  · intro x hx; simp at hx; rcases hx with rfl | rfl | rfl | rfl <;> norm_num
  · simp [sumOver]; norm_num

/-- `satisfaction_histogram`: with at least one bin and non-negative satisfactions
    * every voter falls in exactly one bin `< bins` (`binOf` is a function with values `< bins`),
    * the bin counts add up to the number of voters and the shares to 1,
    * a satisfaction `≥ max_satisfaction` goes to the last bin,
    * a satisfaction `< max_satisfaction` goes to the bin `k` with `k−1 < sat·(bins−1)/max ≤ k`. -/
theorem hist_partition (bins : Nat) (mx : Rat) (xs : Entries) (hb : 0 < bins) (hs : ∀ e ∈ xs, 0 ≤ e.1) :
    (∀ e ∈ xs, binOf bins mx e.1 < bins) ∧
    sumNat (List.range bins) (histCount bins mx xs) = totalMult xs ∧
    (0 < totalMult xs → sumOver (hist bins mx xs) id = 1) ∧
    (∀ s, mx ≤ s → binOf bins mx s = bins - 1) ∧
    (∀ s k, 0 ≤ s → s < mx →
      (binOf bins mx s = k ↔
        ((k : Rat) - 1 < s * ((bins - 1 : Nat) : Rat) / mx ∧ s * ((bins - 1 : Nat) : Rat) / mx ≤ (k : Rat)))) :=
  ⟨fun e he => binOf_lt bins mx e.1 hb (hs e he), histCount_sum bins mx xs hb hs,
   fun ht => hist_sum bins mx xs hb hs ht, fun s h => binOf_last bins mx s h,
   fun s k h0 h1 => binOf_char bins mx s k h0 h1⟩

/-- the number of voters counted in bin `k` is the number of expanded voters whose bin is `k` -/
theorem histCount_eq_count (bins : Nat) (mx : Rat) (xs : Entries) (k : Nat) :
    histCount bins mx xs k = (expand xs).countP (fun s => decide (binOf bins mx s = k)) := by
  rw [countP_expand]; unfold histCount; simp only [decide_eq_true_eq]

theorem binOf_of_bounds (bins : Nat) (mx s : Rat) (k : Nat) (hs : 0 ≤ s) (hlt : s < mx)
    (h1 : (k : Rat) - 1 < s * ((bins - 1 : Nat) : Rat) / mx) (h2 : s * ((bins - 1 : Nat) : Rat) / mx ≤ (k : Rat)) :
    binOf bins mx s = k := (binOf_char bins mx s k hs hlt).mpr ⟨h1, h2⟩

/-- non-vacuity: 4 bins, normaliser 2; satisfaction 1 lies strictly inside bin 2 (1·3/2 = 3/2),
    0 lies on the boundary of bin 0, 2 reaches the normaliser -/
example : hist 4 2 [(1, 2), (0, 1), (2, 1), (1, 1)] = [1/5, 0, 3/5, 1/5] ∧
    (∀ e ∈ ([(1, 2), (0, 1), (2, 1), (1, 1)] : Entries), 0 ≤ e.1) ∧
    0 < totalMult [(1, 2), (0, 1), (2, 1), (1, 1)] := by
  have b1 : binOf 4 2 1 = 2 := binOf_of_bounds 4 2 1 2 (by norm_num) (by norm_num) (by norm_num) (by norm_num)
  have b0 : binOf 4 2 0 = 0 := binOf_of_bounds 4 2 0 0 (by norm_num) (by norm_num) (by norm_num) (by norm_num)
  have b2 : binOf 4 2 2 = 3 := binOf_last 4 2 2 (by norm_num)
  refine ⟨?_, ?_, ?_⟩
  · simp [hist, histCount, totalMult, sumNat, List.range, List.range.loop, b1, b0, b2]
    norm_num
  · intro e he; simp at he; rcases he with rfl | rfl | rfl | rfl <;> norm_num
  · simp [totalMult, sumNat]

/-- `percent_positive_satisfaction` (repaired): share of the voters, each counted once, whose
    satisfaction is positive -/
theorem percentPositive_eq (xs : Entries) :
    percentPositive xs =
      (((expand xs).countP (fun s => decide (0 < s)) : Nat) : Rat) / (((expand xs).length : Nat) : Rat) := by
  unfold percentPositive posCount
  rw [countP_expand, totalMult_eq_length]
  simp only [decide_eq_true_eq]

example : percentPositive [(1, 2), (0, 3)] = 2 / 5 := by
  simp [percentPositive, posCount, totalMult, sumNat]

/-- approval score of a project = number of voters (each once) whose ballot contains it -/
theorem approvalScore_eq_count (P : Profile) (p : Pid) :
    P.approvalScore p = (expand P).countP (fun b => b.mem p) := by
  rw [countP_expand]; rfl

/-- `votes_count_by_project` (repaired) = number of voters (each once) whose ballot lists the project -/
theorem votesCount_eq_count (P : Profile) (p : Pid) :
    votesCount P p = (expand P).countP (fun b => b.mem p) := by
  rw [countP_expand]; rfl

/-- total score of a project = Σ over voters (each once) whose ballot contains it of their score -/
theorem totalScore_eq_sum (P : Profile) (p : Pid) :
    totalScore P p = sumOver (expand P) (fun b => if b.mem p then b.score p else 0) := by
  rw [sumOver_expand]
  unfold totalScore
  apply sumOver_congr
  intro e _
  by_cases h : e.1.mem p = true
  · rw [if_pos h, if_pos h]; ring
  · rw [if_neg h, if_neg h]; ring

/-- `voter_flow_matrix` (repaired), off the diagonal = number of voters (each once) listing both projects -/
theorem voterFlow_eq_count (P : Profile) (a b : Pid) (h : a ≠ b) :
    voterFlow P a b = (expand P).countP (fun v => decide (v.mem a = true ∧ v.mem b = true)) := by
  unfold voterFlow
  rw [if_neg h, countP_expand]
  simp only [decide_eq_true_eq]

/-- average ballot length / cost and average satisfaction are arithmetic means over the voters -/
theorem avgBallotLength_eq (P : Profile) :
    avgBallotLength P = if (expand (lenEntries P)).length = 0 then 0
      else sumOver (expand (lenEntries P)) id / (((expand (lenEntries P)).length : Nat) : Rat) :=
  meanGen_eq_expand _

theorem avgSat_eq (μ : Measure) (I : Inst) (P : Profile) (W : List Pid) :
    avgSat (satEntries μ I P W) = if totalMult (satEntries μ I P W) = 0 then 0
      else weightedSum (satEntries μ I P W) / ((totalMult (satEntries μ I P W) : Nat) : Rat) :=
  meanGen_eq _

/-- profiles and multiprofiles are interchangeable for these statistics: they depend only on the
    multiset of voters (`expand`), not on how voters are grouped into entries -/
theorem meanGen_of_perm (xs ys : Entries) (h : (expand xs).Perm (expand ys)) : meanGen xs = meanGen ys := by
  rw [meanGen_eq_expand, meanGen_eq_expand, sumOver_perm h, h.length_eq]

theorem percentPositive_of_perm (xs ys : Entries) (h : (expand xs).Perm (expand ys)) :
    percentPositive xs = percentPositive ys := by
  rw [percentPositive_eq, percentPositive_eq, h.countP_eq, h.length_eq]

theorem hist_of_perm (bins : Nat) (mx : Rat) (xs ys : Entries) (h : (expand xs).Perm (expand ys)) :
    hist bins mx xs = hist bins mx ys := by
  unfold hist
  rw [totalMult_eq_length, totalMult_eq_length, h.length_eq]
  apply List.map_congr_left
  intro k _
  rw [histCount_eq_count, histCount_eq_count, h.countP_eq]

example : (expand ([(1, 2), (0, 1)] : Entries)).Perm (expand ([(1, 1), (0, 1), (1, 1)] : Entries)) := by
  simp [expand]; decide

end Pabu.Stats

namespace Pabu.Stats

/-- on a list profile (all multiplicities 1) the implementation's per-entry count IS the per-voter count -/
theorem votesCountEntries_eq_of_list (P : Profile) (h : ∀ e ∈ P, e.2 = 1) (p : Pid) :
    votesCountEntries P p = votesCount P p := by
  unfold votesCountEntries votesCount
  induction P with
  | nil => rfl
  | cons e P ih =>
    have he : e.2 = 1 := h e (by simp)
    have ih' := ih (fun x hx => h x (by simp [hx]))
    simp only [sumNat, he]
    rw [ih']

theorem voterFlowEntries_eq_of_list (P : Profile) (h : ∀ e ∈ P, e.2 = 1) (a b : Pid) :
    voterFlowEntries P a b = voterFlow P a b := by
  unfold voterFlowEntries voterFlow
  by_cases hab : a = b
  · rw [if_pos hab, if_pos hab]
    induction P with
    | nil => rfl
    | cons e P ih =>
      have he : e.2 = 1 := h e (by simp)
      have ih' := ih (fun x hx => h x (by simp [hx]))
      simp only [sumNat, he]
      rw [ih']
  · rw [if_neg hab, if_neg hab]
    induction P with
    | nil => rfl
    | cons e P ih =>
      have he : e.2 = 1 := h e (by simp)
      have ih' := ih (fun x hx => h x (by simp [hx]))
      simp only [sumNat, he]
      rw [ih']

/-- the known finding, kernel-checked: on a multiprofile the per-entry count differs from the number of voters -/
example : votesCountEntries [(.app [0], 3)] 0 = 1 ∧ votesCount [(.app [0], 3)] 0 = 3 := by decide

end Pabu.Stats
