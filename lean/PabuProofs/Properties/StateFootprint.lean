/-
  StateFootprint — the library keeps no state that survives a call, apart from a reviewed list (C13, C20).
  Tables regenerated from the sources on every run: Gen.State (harness/translate_state.py).

  C13 says an outcome is a function of the election alone (calling twice, in any process history, gives the same
  answer) and C20 that reused objects answer like fresh copies.  Both are statements about histories; what can make an
  answer depend on the history is state that outlives a call: module-level or class-level containers, `global`
  rebinding, memoising decorators, mutable default arguments, and attributes written on `self` outside the
  constructors (lazy caches).  The theorems below are kernel-checked facts about the *current* sources: the first four
  kinds do not occur at all, and every write of the fifth kind is one of the reviewed ones listed here, each with the
  reason it cannot leak into an answer.
-/
import Gen.State
namespace Pabu.StateFootprint
open Pabu.Gen.State

/-- reviewed writes to attributes of `self` / the class outside constructors:
    * `_saved_beta` of the four relaxation classes: the documented result slot of a relaxation object the CALLER creates
      and passes to `priceable`; `priceable` overwrites it before any read (C12 runs the relaxed search on fresh and on
      reused relaxation objects);
    * `_wrap_methods` (`setattr(cls, …)`): class decoration executed once at import time, it installs the type-preserving
      wrappers of C17 and stores no data;
    * `AdditiveSatisfaction.scores[project]`: memo of `func(instance, profile, ballot, project, precomputed)`, all of which
      are fixed at construction of the measure object (a measure is bound to one ballot; C02–C04 run reused and
      in-place-extended satisfaction profiles against fresh ones);
    * `MESVoter.budget_over_sat_map[(project, budget)]`: keyed by the current budget, lives in a `MESVoter` created inside
      one call of the rule. -/
def reviewedSelfWrites : List (String × String × String × String × String) := [
  ("pabutools/analysis/priceability_relaxation.py", "MinAdd", "get_beta", "_saved_beta", "assign"),
  ("pabutools/analysis/priceability_relaxation.py", "MinAddOffset", "get_beta", "_saved_beta", "assign"),
  ("pabutools/analysis/priceability_relaxation.py", "MinAddVector", "get_beta", "_saved_beta", "assign"),
  ("pabutools/analysis/priceability_relaxation.py", "MinMul", "get_beta", "_saved_beta", "assign"),
  ("pabutools/election/ballot/approvalballot.py", "ApprovalBallot", "_wrap_methods", "method", "setattr"),
  ("pabutools/election/ballot/ballot.py", "FrozenBallot", "_wrap_methods", "name", "setattr"),
  ("pabutools/election/ballot/cardinalballot.py", "CardinalBallot", "_wrap_methods", "name", "setattr"),
  ("pabutools/election/ballot/cumulativeballot.py", "CumulativeBallot", "_wrap_methods", "name", "setattr"),
  ("pabutools/election/ballot/ordinalballot.py", "OrdinalBallot", "_wrap_methods", "name", "setattr"),
  ("pabutools/election/instance.py", "Instance", "_wrap_methods", "name", "setattr"),
  ("pabutools/election/profile/approvalprofile.py", "ApprovalMultiProfile", "_wrap_methods", "name", "setattr"),
  ("pabutools/election/profile/approvalprofile.py", "ApprovalProfile", "_wrap_methods", "name", "setattr"),
  ("pabutools/election/profile/cardinalprofile.py", "CardinalMultiProfile", "_wrap_methods", "name", "setattr"),
  ("pabutools/election/profile/cardinalprofile.py", "CardinalProfile", "_wrap_methods", "name", "setattr"),
  ("pabutools/election/profile/cumulativeprofile.py", "CumulativeMultiProfile", "_wrap_methods", "name", "setattr"),
  ("pabutools/election/profile/cumulativeprofile.py", "CumulativeProfile", "_wrap_methods", "name", "setattr"),
  ("pabutools/election/profile/ordinalprofile.py", "OrdinalMultiProfile", "_wrap_methods", "name", "setattr"),
  ("pabutools/election/profile/ordinalprofile.py", "OrdinalProfile", "_wrap_methods", "name", "setattr"),
  ("pabutools/election/satisfaction/additivesatisfaction.py", "AdditiveSatisfaction", "get_project_sat", "scores", "subscript"),
  ("pabutools/election/satisfaction/satisfactionprofile.py", "SatisfactionMultiProfile", "_wrap_methods", "name", "setattr"),
  ("pabutools/election/satisfaction/satisfactionprofile.py", "SatisfactionProfile", "_wrap_methods", "name", "setattr"),
  ("pabutools/rules/budgetallocation.py", "BudgetAllocation", "_wrap_methods", "method", "setattr"),
  ("pabutools/rules/mes/mes_rule.py", "MESVoter", "budget_over_sat_project", "budget_over_sat_map", "subscript")
]

theorem no_process_state : processState = [] := by decide
theorem no_global_rebinding : globalStmts = [] := by decide
theorem no_memo_decorators : memoDecorators = [] := by decide
theorem no_mutable_defaults : mutableDefaults = [] := by decide

/-- every write to an attribute of `self` / the class outside the constructors is a reviewed one -/
theorem self_writes_reviewed : ∀ w ∈ selfWrites, w ∈ reviewedSelfWrites := by decide

/-- the whole footprint in one statement -/
theorem footprint_clean :
    processState = [] ∧ globalStmts = [] ∧ memoDecorators = [] ∧ mutableDefaults = [] ∧
      ∀ w ∈ selfWrites, w ∈ reviewedSelfWrites :=
  ⟨no_process_state, no_global_rebinding, no_memo_decorators, no_mutable_defaults, self_writes_reviewed⟩

/-! sensitivity: a per-profile memo written by a query method, or a class-level cache, is NOT in the reviewed list -/
example : ("pabutools/election/profile/approvalprofile.py", "AbstractApprovalProfile", "approval_score", "_scores", "subscript")
    ∉ reviewedSelfWrites := by decide
example : ("pabutools/election/instance.py", "Instance", "get_project", "_name_index", "subscript") ∉ reviewedSelfWrites := by decide
example : selfWrites.length ≥ 20 := by decide

end Pabu.StateFootprint
