/-
  C15 — instance predicates agree with brute force over subsets.
  The model functions (`PabuModel.Election`) are characterised by quantified statements over sub-lists.
-/
import PabuProofs.Lemmas.Election
import Mathlib.Tactic.NormNum
namespace Pabu.C15
open Pabu.Election

/-- `is_feasible`: exactly "total cost within the budget" -/
theorem isFeasible_iff (I : Inst) (l : List Pid) : I.isFeasible l = true ↔ costOf I.cost l ≤ I.budget := by
  unfold Inst.isFeasible Inst.totalCost
  exact decide_eq_true_iff

/-- `is_exhaustive(projects, available)`: no available project outside `l` fits on top of `l` -/
theorem isExhaustiveOver_iff (I : Inst) (avail l : List Pid) :
    I.isExhaustiveOver avail l = true ↔ ∀ p ∈ avail, p ∉ l → I.budget < I.cost p + costOf I.cost l := by
  unfold Inst.isExhaustiveOver Inst.totalCost
  rw [List.all_eq_true]
  constructor
  · intro h p hp hnot
    have := h p hp
    rw [Bool.or_eq_true] at this
    rcases this with h1 | h1
    · exact absurd (List.contains_iff_mem.1 h1) hnot
    · rw [Bool.not_eq_true', decide_eq_false_iff_not] at h1
      exact not_le.1 h1
  · intro h p hp
    rw [Bool.or_eq_true]
    by_cases hm : p ∈ l
    · exact Or.inl (List.contains_iff_mem.2 hm)
    · refine Or.inr ?_
      rw [Bool.not_eq_true', decide_eq_false_iff_not]
      exact not_le.2 (h p hp hm)

theorem isExhaustive_iff (I : Inst) (l : List Pid) :
    I.isExhaustive l = true ↔ ∀ p ∈ I.projects, p ∉ l → I.budget < I.cost p + costOf I.cost l :=
  isExhaustiveOver_iff I I.projects l

/-- `budget_allocations()` yields exactly the feasible sub-lists … -/
theorem budgetAllocations_spec (I : Inst) (x : List Pid) :
    x ∈ I.budgetAllocations ↔ x.Sublist I.projects ∧ costOf I.cost x ≤ I.budget := by
  unfold Inst.budgetAllocations
  rw [List.mem_filter, mem_sublists, isFeasible_iff]

/-- … each exactly once -/
theorem budgetAllocations_nodup (I : Inst) (h : I.projects.Nodup) : I.budgetAllocations.Nodup := by
  unfold Inst.budgetAllocations
  exact (sublists_nodup I.projects h).filter _

/-- `is_trivial()`: everything fits, or no single project fits -/
theorem isTrivial_iff (I : Inst) :
    I.isTrivial = true ↔ (costOf I.cost I.projects ≤ I.budget ∨ ∀ p ∈ I.projects, I.budget < I.cost p) := by
  unfold Inst.isTrivial Inst.totalCost
  rw [Bool.or_eq_true, decide_eq_true_iff]
  apply or_congr Iff.rfl
  cases h : minRat (I.projects.map I.cost) with
  | none =>
    have hnil : I.projects = [] := by
      have := minRat_eq_none.1 h
      exact List.map_eq_nil_iff.1 this
    simp [hnil]
  | some c =>
    simp only [decide_eq_true_iff]
    constructor
    · intro hlt p hp
      exact lt_of_lt_of_le hlt (minRat_le h _ (List.mem_map.2 ⟨p, hp, rfl⟩))
    · intro hall
      obtain ⟨p, hp, rfl⟩ := List.mem_map.1 (minRat_mem h)
      exact hall p hp

/-- with non-negative costs, "no single project fits" is "no non-empty sub-list is feasible" -/
theorem no_project_fits_iff (I : Inst) (hnn : ∀ p ∈ I.projects, 0 ≤ I.cost p) :
    (∀ p ∈ I.projects, I.budget < I.cost p) ↔
      ∀ l : List Pid, l.Sublist I.projects → l ≠ [] → ¬ costOf I.cost l ≤ I.budget := by
  constructor
  · intro h l hl hne hfeas
    cases l with
    | nil => exact hne rfl
    | cons p l' =>
      have hp : p ∈ I.projects := hl.subset (List.mem_cons_self ..)
      have hrest : 0 ≤ costOf I.cost l' :=
        sumOver_nonneg _ _ (fun q hq => hnn q (hl.subset (List.mem_cons_of_mem _ hq)))
      rw [costOf_cons] at hfeas
      have := h p hp
      linarith
  · intro h p hp
    have := h [p] (List.singleton_sublist.2 hp) (by simp)
    rw [costOf_cons, costOf_nil] at this
    have h2 := not_le.1 this
    linarith

/-- with non-negative costs, "everything fits" is "every sub-list is feasible" -/
theorem all_fit_iff (I : Inst) (hnn : ∀ p ∈ I.projects, 0 ≤ I.cost p) :
    costOf I.cost I.projects ≤ I.budget ↔ ∀ l : List Pid, l.Sublist I.projects → costOf I.cost l ≤ I.budget := by
  constructor
  · intro h l hl
    exact le_trans (sumOver_sublist_le hl I.cost hnn) h
  · intro h
    exact h _ (List.Sublist.refl _)

/-- C15, triviality: an instance is trivial exactly when every sub-list is feasible or no non-empty one is -/
theorem isTrivial_iff_all_or_none (I : Inst) (hnn : ∀ p ∈ I.projects, 0 ≤ I.cost p) :
    I.isTrivial = true ↔
      ((∀ l : List Pid, l.Sublist I.projects → costOf I.cost l ≤ I.budget) ∨
       (∀ l : List Pid, l.Sublist I.projects → l ≠ [] → ¬ costOf I.cost l ≤ I.budget)) := by
  rw [isTrivial_iff, all_fit_iff I hnn, no_project_fits_iff I hnn]

/-- C15/C10, cheapest-first count = size of a largest feasible sub-list (non-negative costs and budget) -/
theorem maxCardinality_optimal (cost : Pid → Rat) (l : List Pid) (budget : Rat)
    (hnn : ∀ p ∈ l, 0 ≤ cost p) (hb : 0 ≤ budget) :
    (∃ s : List Pid, s.Sublist l ∧ costOf cost s ≤ budget ∧ s.length = maxCardinality cost l budget) ∧
    (∀ s : List Pid, s.Sublist l → costOf cost s ≤ budget → s.length ≤ maxCardinality cost l budget) :=
  ⟨maxCardinality_attained cost l budget hb, maxCardinality_upper cost l budget hnn⟩

/-- the brute-force maximum cost is attained by a feasible sub-list and bounds every feasible sub-list -/
theorem maxCostSpec_spec (cost : Pid → Rat) (l : List Pid) (budget : Rat) (hb : 0 ≤ budget) :
    (∃ s : List Pid, s.Sublist l ∧ costOf cost s ≤ budget ∧ maxCostSpec cost l budget = costOf cost s) ∧
    (∀ s : List Pid, s.Sublist l → costOf cost s ≤ budget → costOf cost s ≤ maxCostSpec cost l budget) :=
  ⟨maxCostSpec_attained cost l budget hb, maxCostSpec_upper cost l budget⟩

theorem maxScoreSpec_spec (cost score : Pid → Rat) (l : List Pid) (budget : Rat) (hb : 0 ≤ budget) :
    (∃ s : List Pid, s.Sublist l ∧ costOf cost s ≤ budget ∧ maxScoreSpec cost score l budget = sumOver s score) ∧
    (∀ s : List Pid, s.Sublist l → costOf cost s ≤ budget → sumOver s score ≤ maxScoreSpec cost score l budget) :=
  ⟨maxScoreSpec_attained cost score l budget hb, maxScoreSpec_upper cost score l budget⟩

/-! ### concrete inputs -/

/-- three projects costing 2, 3 and 1/2, budget 2 -/
def exInst : Inst :=
  { projects := [0, 1, 2], cost := fun p => if p = 0 then 2 else if p = 1 then 3 else 1 / 2, budget := 2 }

theorem exInst_nonneg : ∀ p ∈ exInst.projects, 0 ≤ exInst.cost p := by
  intro p hp
  simp only [exInst, List.mem_cons, List.not_mem_nil, or_false] at hp
  rcases hp with rfl | rfl | rfl <;> norm_num [exInst]

example : exInst.projects.Nodup := by decide
example : (0 : Rat) ≤ exInst.budget := by norm_num [exInst]
example := isTrivial_iff_all_or_none exInst exInst_nonneg
example := maxCardinality_optimal exInst.cost exInst.projects exInst.budget exInst_nonneg (by norm_num [exInst])
example := budgetAllocations_nodup exInst (by decide)

-- budget 2, costs 2 and 3: exactly the cheapest project fits, the instance is not trivial (D18)
example : ({ projects := [0, 1], cost := fun p => if p = 0 then 2 else 3, budget := 2 } : Inst).isTrivial = false := by
  decide +kernel
example : exInst.isFeasible [0] = true ∧ exInst.isFeasible [0, 2] = false ∧ exInst.isExhaustive [0] = true := by
  decide +kernel
example : exInst.budgetAllocations = [[], [2], [0]] := by decide +kernel
example : maxCardinality exInst.cost exInst.projects (5 / 2) = 2 := by decide +kernel
-- 1/3 + 1/3 under budget 2/3 is exactly 2/3 (D9)
example : maxCostSpec (fun _ => 1 / 3) [0, 1] (2 / 3) = 2 / 3 := by decide +kernel

end Pabu.C15
