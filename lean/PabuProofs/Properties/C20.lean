/-
  C20 — rules and analyses leave their inputs untouched.
  Effect model: PabuModel.Effects; write summary regenerated from the sources: Gen.Effects.
-/
import PabuModel.Effects
import Gen.Effects
namespace Pabu.Effects
open Pabu.Gen

/-- no public entry point contains a statement that may write to a caller's argument, except the documented
    `final_budget` override -/
theorem no_caller_visible_write : ∀ e ∈ effectSummary, e.clean = true := by decide

theorem applyWrites_frame (ws : List WriteSite) (env : Env) (p : String) (h : ∀ w ∈ ws, w.param ≠ p) :
    applyWrites ws env p = env p := by
  unfold applyWrites
  induction ws generalizing env with
  | nil => rfl
  | cons w ws ih =>
    rw [List.foldl_cons, ih (bump env w.param) (fun w' h' => h w' (List.mem_cons_of_mem _ h'))]
    unfold bump
    have : p ≠ w.param := fun e => h w (by simp) e.symm
    rw [if_neg this]

/-- frame: a parameter that no write site of the entry point names keeps its version across the call -/
theorem frame (e : EntryEffects) (env : Env) (p : String) (h : ∀ w ∈ e.writes, w.param ≠ p) :
    call e env p = env p := applyWrites_frame e.writes env p h

/-- an entry point whose visible summary is empty leaves every argument untouched, except the allow-listed one -/
theorem frame_clean (e : EntryEffects) (he : e.clean = true) (env : Env) (p : String)
    (hp : ∀ k, (e.name, p, k) ∉ allowed) : call e env p = env p := by
  apply frame
  intro w hw hwp
  unfold EntryEffects.clean EntryEffects.visible at he
  have hnil : e.writes.filter (fun w => !(allowed.contains (e.name, w.param, w.kind))) = [] := by
    simpa using he
  have hall := List.filter_eq_nil_iff.1 hnil w hw
  have hin : (e.name, w.param, w.kind) ∈ allowed := by simpa using hall
  rw [hwp] at hin
  exact hp w.kind hin

/-- sequences of calls sharing the same objects: versions are unchanged after all of them -/
theorem frame_seq (es : List EntryEffects) (h : ∀ e ∈ es, e.clean = true) (env : Env) (p : String)
    (hp : ∀ e ∈ es, ∀ k, (e.name, p, k) ∉ allowed) : callSeq es env p = env p := by
  unfold callSeq
  induction es generalizing env with
  | nil => rfl
  | cons e es ih =>
    rw [List.foldl_cons, ih (fun e' h' => h e' (List.mem_cons_of_mem _ h')) (call e env)
      (fun e' h' => hp e' (List.mem_cons_of_mem _ h'))]
    exact frame_clean e (h e (by simp)) env p (hp e (by simp))

/-- for the library: any sequence of public entry points leaves every argument at its version, the budget of the
    instance passed to `calculate_effective_supports` excepted -/
theorem entry_points_frame (es : List EntryEffects) (hes : ∀ e ∈ es, e ∈ effectSummary) (env : Env) (p : String)
    (hp : ∀ e ∈ es, ∀ k, (e.name, p, k) ∉ allowed) : callSeq es env p = env p :=
  frame_seq es (fun e he => no_caller_visible_write e (hes e he)) env p hp

/-! non-vacuity and sensitivity -/
example : ∃ e ∈ effectSummary, e.name = "exhaustion_by_budget_increase" ∧ "rule_params" ∈ e.params := by decide
example : effectSummary.length ≥ 40 := by decide

/-- the unrepaired budget-increase wrapper: its summary is not clean and the caller's `rule_params` changes -/
def unrepairedExhaustion : EntryEffects :=
  { name := "exhaustion_by_budget_increase", module := "pabutools.rules.exhaustion",
    params := ["instance", "profile", "rule", "rule_params"],
    writes := [{ param := "rule_params", kind := "subscript-store", line := 157, via := "" }] }

example : unrepairedExhaustion.clean = false ∧ call unrepairedExhaustion (fun _ => 0) "rule_params" = 1 ∧
    call unrepairedExhaustion (fun _ => 0) "instance" = 0 := by decide

end Pabu.Effects
