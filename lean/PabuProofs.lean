import PabuProofs.Lemmas.RoundRule
import PabuProofs.Lemmas.RoundRuleExcept
import PabuProofs.Lemmas.MES
import PabuProofs.Properties.C02
import PabuProofs.Properties.C07
import PabuProofs.Lemmas.Knapsack
import PabuProofs.Lemmas.KnapsackLift
import PabuProofs.Properties.C04
