import PabuProofs.Lemmas.RoundRule
import PabuProofs.Lemmas.RoundRuleExcept
import PabuProofs.Lemmas.MES
import PabuProofs.Properties.C02
import PabuProofs.Properties.C07
