/-
  Driver.Stats — protocol command `stats op=<sub-command> …` for the statistics model (C18).

  op=mean   X=v*m,v*m,…                          -> ok <rat>
  op=gini   X=v,v,…                              -> ok <rat> | err value
  op=sat    B= P= T= V= W=<ids .-sep> (sat=<measure> | S=<rat per entry ,-sep>) mx=<rat> bins=<n>
                                                 -> ok <avg> <percent positive> <gini|err:value> <hist ,-sep>
  op=prof   B= P= T= V=                          -> ok <avgLen> <medLen> <avgCost> <medCost> <avgApp> <medApp>
                                                       <avgTot> <medTot> <app scores ,> <total scores ,>
                                                       <votes id:n ,> <flow rows | of ,>   (ids ascending)
  op=inst   B= P=                                -> ok <sum> <scarcity|err:e> <avg|err:e> <median> <variance>
  op=cat    B= P= T= V= W= C=<number of categories> K=<pid:c.c.c,…>
                                                 -> ok zero | ok <mean square difference> | err <e>
-/
import Driver.Proto
import PabuModel.Stats
namespace Pabu.Driver
open Pabu Pabu.Stats

def parseEntries (s : String) : Entries :=
  (splitNE s ",").map (fun t => match t.splitOn "*" with
    | [v, m] => (ratD v, natD m)
    | [v] => (ratD v, 1)
    | _ => (0, 0))

def showExcept (r : Except Err Rat) : String :=
  match r with
  | .ok q => showRat q
  | .error e => "err:" ++ e.toString

def csv (l : List String) : String := if l.isEmpty then "-" else String.intercalate "," l

/-- satisfaction entries: by measure name (the model computes them) or as an explicit list -/
def parseSatEntries (a : Args) (I : Inst) (P : Profile) (W : List Pid) : Entries :=
  if a.has "S" then
    let vals := (splitNE (a.get "S") ",").map ratD
    (List.range P.length).map (fun i => (vals.getD i 0, (P[i]?.map Prod.snd).getD 0))
  else
    match Measure.ofString? (a.get "sat") with
    | some μ => satEntries μ I P W
    | none => []

def cmdStatsSat (a : Args) : String :=
  let I := parseInst a
  let P := parseProfile a
  let W := parseIds (a.get "W")
  let xs := parseSatEntries a I P W
  let bins := natD (a.get "bins")
  let mx := ratD (a.get "mx")
  "ok " ++ showRat (avgSat xs) ++ " " ++ showRat (percentPositive xs) ++ " " ++ showExcept (giniSat xs) ++ " " ++
    csv ((hist bins mx xs).map showRat)

def cmdStatsProf (a : Args) : String :=
  let I := parseInst a
  let P := parseProfile a
  let ids := sortIds I.projects
  let Is : Inst := { I with projects := ids }
  "ok " ++ String.intercalate " " [
    showRat (avgBallotLength P), showRat (medianBallotLength P),
    showRat (avgBallotCost I P), showRat (medianBallotCost I P),
    showRat (avgApprovalScore I P), showRat (medianApprovalScore I P),
    showRat (avgTotalScore I P), showRat (medianTotalScore I P),
    csv ((approvalScores Is P).map showRat), csv ((totalScores Is P).map showRat),
    csv ((votedProjects Is P).map (fun p => s!"{p}:{votesCountEntries P p}")),
    if ids.isEmpty then "-" else
      String.intercalate "|" (ids.map (fun x => String.intercalate "," (ids.map (fun y => toString (voterFlowEntries P x y)))))]

def cmdStatsInst (a : Args) : String :=
  let I := parseInst a
  "ok " ++ String.intercalate " " [
    showRat (sumProjectCost I), showExcept (fundingScarcity I), showExcept (avgProjectCost I),
    showRat (medianProjectCost I), showRat (varProjectCost I)]

def parseCats (s : String) : Pid → List Nat :=
  let tab : List (Pid × List Nat) := (splitNE s ",").map (fun t => match t.splitOn ":" with
    | [i, c] => (natD i, parseIds c)
    | _ => (0, []))
  fun p => match tab.find? (fun e => e.1 == p) with
    | some e => e.2
    | none => []

def cmdStatsCat (a : Args) : String :=
  let I := parseInst a
  let P := parseProfile a
  let W := parseIds (a.get "W")
  let cats := List.range (natD (a.get "C"))
  match categoryProportionality I (parseCats (a.get "K")) cats P W with
  | .err e => "err " ++ e.toString
  | .zero => "ok zero"
  | .msd q => "ok " ++ showRat q

def cmdStats (a : Args) : String :=
  match a.get "op" with
  | "mean" => "ok " ++ showRat (meanGen (parseEntries (a.get "X")))
  | "gini" => (match gini ((splitNE (a.get "X") ",").map ratD) with
      | .ok q => "ok " ++ showRat q
      | .error e => "err " ++ e.toString)
  | "sat" => cmdStatsSat a
  | "prof" => cmdStatsProf a
  | "inst" => cmdStatsInst a
  | "cat" => cmdStatsCat a
  | _ => "bad-op"

end Pabu.Driver
