/-
  Driver.InstSat — protocol commands for the instance predicates (C15) and the satisfaction measures (C10).

  inst B=<rat> P=<id>:<cost>,… [S=<list>|<list>|…] [A=<ids>] [L=<ids>] [Q=<rat>,<rat>,…] [alloc=1]
      <list> is `-` (empty) or dotted ids `0.3.4`.
      answer: `ok feas=<0/1,…> exh=<0/1,…> [exhA=<0/1,…>] triv=<0/1> card=<nat,…> cost=<rat,…>
                  [nalloc=<n> allocs=<ids>|<ids>|…]`
      feas/exh/exhA: one bit per list of S (isFeasible, isExhaustive, isExhaustiveOver A);
      card/cost: maxCardinality / maxCostSpec of the project list L (default: all projects) for every budget
      of Q (default: the instance budget); allocs: budgetAllocations, each sorted by id, sorted lexicographically.

  sat sat=<measure> B=… P=… T=… V=… i=<ballot index> [S=<list>|<list>|…]
      answer: `ok norm=<rat> proj=<rat,…> sets=<rat,…>`
      proj: satProject for every project in the order of P; sets: sat for every list of S as given (order and
      repetitions kept); without S: for every member of `sublists` of the projects of P, in that order.
-/
import Driver.Proto
namespace Pabu.Driver
open Pabu

/-- `-` is the empty list, otherwise dotted ids -/
def parseIdList (s : String) : List Pid := if s == "-" then [] else parseIds s

def parseIdLists (s : String) : List (List Pid) := (splitNE s "|").map parseIdList

def showBit (b : Bool) : String := if b then "1" else "0"

def showBits (l : List Bool) : String := String.intercalate "," (l.map showBit)

def showIdList (l : List Pid) : String := if l.isEmpty then "-" else showIds l

def cmdInst (a : Args) : String :=
  let I := parseInst a
  let S := parseIdLists (a.get "S")
  let L := if a.has "L" then parseIdList (a.get "L") else I.projects
  let Q := if a.has "Q" then (splitNE (a.get "Q") ",").map ratD else [I.budget]
  let base :=
    "ok feas=" ++ showBits (S.map I.isFeasible) ++
    " exh=" ++ showBits (S.map I.isExhaustive) ++
    (if a.has "A" then " exhA=" ++ showBits (S.map (I.isExhaustiveOver (parseIdList (a.get "A")))) else "") ++
    " triv=" ++ showBit I.isTrivial ++
    " card=" ++ String.intercalate "," (Q.map (fun q => toString (maxCardinality I.cost L q))) ++
    " cost=" ++ showRats (Q.map (fun q => maxCostSpec I.cost L q))
  if a.get "alloc" == "1" then
    let al := I.budgetAllocations
    base ++ " nalloc=" ++ toString al.length ++ " allocs=" ++
      String.intercalate "|" ((sortLe lexLe (al.map sortIds)).map showIdList)
  else base

def cmdSat (a : Args) : String :=
  let I := parseInst a
  let P := parseProfile a
  match Measure.ofString? (a.get "sat") with
  | none => "err key"
  | some μ =>
    match P[natD (a.get "i")]? with
    | none => "err index"
    | some e =>
      let b := e.1
      let S := if a.has "S" then parseIdLists (a.get "S") else sublists I.projects
      "ok norm=" ++ showRat (normaliser μ I b) ++
      " proj=" ++ showRats (I.projects.map (satProject μ I P b)) ++
      " sets=" ++ showRats (S.map (sat μ I P b))

end Pabu.Driver
