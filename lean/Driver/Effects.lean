/-
  Driver.Effects — protocol command `effects` (C20): `effects F=<entry point>` answers
  `ok clean` (no caller-visible write site in the regenerated summary), `ok writes <param>,<param>…` or `err key`.
-/
import Driver.Proto
import PabuModel.Effects
import Gen.Effects
namespace Pabu.Driver
open Pabu.Effects

def cmdEffects (a : Args) : String :=
  match Pabu.Gen.effectSummary.find? (fun e => e.name == a.get "F") with
  | none => "err key"
  | some e =>
    if e.clean then "ok clean"
    else "ok writes " ++ String.intercalate "," (e.visible.map (fun w => w.param)).eraseDups

end Pabu.Driver
